(** C03: scans are exact, ordered and gapless -- the statements used by Props/C03.v.
    Built on ScanRecs (record lists), ScanSeg (one segment), ScanPos (positions),
    ScanStore ([Scannable] and per-segment facts), ScanIter (forward iterator). *)
From Coq Require Import NArith List Bool Lia Arith.
From SV Require Import Model.StoreIter.
From SV Require Export Proofs.ScanRecs Proofs.ScanSeg Proofs.ScanPos Proofs.ScanStore Proofs.ScanIter.
Import ListNotations.
Open Scope N_scope.

(** ** forward *)
Definition fwd_spec (k : skey) (from : N) (l : alog) : list event :=
  filter (fun e => matches k e && (from <=? key_pos k e)) (all_events l).

(* groups, batch sizes *)
Theorem forward_groups s k from limit : Scannable s k -> (0 < limit)%nat ->
  exists batches, scan s k from Fwd limit = Some batches /\
    map committed_events (concat batches) = Efwd k from (abs_visible s) /\
    Forall (fun b => 1 <= length b <= limit)%nat batches.
Proof. intros HS Hl. apply scan_fwd; [assumption|lia]. Qed.

Theorem forward_exact s k from limit : Scannable s k -> (0 < limit)%nat ->
  exists batches, scan s k from Fwd limit = Some batches /\
    scan_events batches = fwd_spec k from (abs_visible s).
Proof.
  intros HS Hl. destruct (forward_groups s k from limit HS Hl) as (b & H1 & H2 & _).
  exists b. split; [assumption|]. unfold scan_events. rewrite H2. apply Efwd_events.
Qed.

Lemma forward_exact' s k from limit batches : Scannable s k -> (0 < limit)%nat ->
  scan s k from Fwd limit = Some batches -> scan_events batches = fwd_spec k from (abs_visible s).
Proof.
  intros HS Hl H. destruct (forward_exact s k from limit HS Hl) as (b & H1 & H2). congruence.
Qed.

Theorem forward_no_foreign s k from limit batches : Scannable s k -> (0 < limit)%nat ->
  scan s k from Fwd limit = Some batches ->
  Forall (fun e => matches k e = true /\ from <= key_pos k e /\ In e (all_events (abs_visible s))) (scan_events batches).
Proof.
  intros HS Hl H. rewrite (forward_exact' _ _ _ _ _ HS Hl H). apply Forall_forall. intros e He.
  apply filter_In in He. destruct He as [Hin Hp]. apply andb_prop in Hp. destruct Hp as [H1 H2].
  apply N.leb_le in H2. auto.
Qed.

(* positions are from, from+1, from+2, ... : strictly increasing, no gaps, no repeats *)
Lemma posincr_positions k : forall es c, posincr k (fun e => e) c es ->
  map (key_pos k) (filter (matches k) es) = map (fun i => c + N.of_nat i) (seq 0 (length (filter (matches k) es))).
Proof.
  induction es as [|e es IH]; intros c H; [reflexivity|]. cbn in *. unfold mt in H.
  destruct (matches k e); [|auto]. destruct H as [H1 H2]. cbn [map length seq]. f_equal; [lia|].
  rewrite (IH _ H2). rewrite <- seq_shift, map_map. apply map_ext. intros i. lia.
Qed.

Lemma seq_plus : forall n m, seq m n = map (Nat.add m) (seq 0 n).
Proof.
  induction n as [|n IH]; intros m; [reflexivity|]. cbn [seq map]. f_equal; [lia|].
  rewrite (IH (S m)), <- seq_shift, map_map. apply map_ext. intros i. lia.
Qed.

Theorem forward_positions s k from limit batches : Scannable s k -> (0 < limit)%nat ->
  scan s k from Fwd limit = Some batches ->
  map (key_pos k) (scan_events batches)
  = map (fun i => from + N.of_nat i) (seq 0 (length (scan_events batches))).
Proof.
  intros HS Hl H. rewrite (forward_exact' _ _ _ _ _ HS Hl H). unfold fwd_spec.
  pose proof (all_posincr s k HS) as Hp. rewrite <- all_events_Ls in Hp.
  set (all := all_events (abs_visible s)) in *.
  change (fun e => matches k e && (from <=? key_pos k e)) with (qge k (fun e : event => e) from).
  rewrite (posincr_filter_ge k (fun e => e) _ _ from Hp).
  pose proof (posincr_positions k _ _ Hp) as Hpos.
  change (filter (mt k (fun e : event => e)) all) with (filter (matches k) all).
  set (K := filter (matches k) all) in *. unfold kcount. 
  change (filter (mt k (fun e : event => e)) all) with K.
  set (m := clamp_sub from 0 (length K)).
  rewrite <- skipn_map, Hpos, skipn_map, skipn_length.
  assert (Hm : (m <= length K)%nat) by apply clamp_sub_le.
  replace (length K) with (m + (length K - m))%nat at 1 by lia. rewrite seq_app, skipn_app_exact by (apply seq_length).
  rewrite (seq_plus _ (0 + m)). rewrite map_map. apply map_ext_in. intros i Hi. apply in_seq in Hi.
  assert (N.of_nat m = from); [|lia].
  subst m. unfold clamp_sub in *. rewrite N.sub_0_r in *.
  destruct (N.leb_spec (N.of_nat (length K)) from); lia.
Qed.

(** ** results do not depend on where the events are stored *)
Theorem forward_independent s1 s2 k from limit : Scannable s1 k -> Scannable s2 k ->
  abs_visible s1 = abs_visible s2 -> (0 < limit)%nat ->
  exists b1 b2, scan s1 k from Fwd limit = Some b1 /\ scan s2 k from Fwd limit = Some b2 /\
    scan_events b1 = scan_events b2 /\
    map committed_events (concat b1) = map committed_events (concat b2).
Proof.
  intros H1 H2 Heq Hl.
  destruct (forward_groups s1 k from limit H1 Hl) as (b1 & Hs1 & Hg1 & _).
  destruct (forward_groups s2 k from limit H2 Hl) as (b2 & Hs2 & Hg2 & _).
  exists b1, b2. repeat split; auto.
  - unfold scan_events. rewrite Hg1, Hg2, Heq. reflexivity.
  - rewrite Hg1, Hg2, Heq. reflexivity.
Qed.

Lemma abs_visible_rollover s : abs_visible (rollover s) = abs_visible (publish s).
Proof.
  unfold abs_visible, rollover, publish. cbn [sealed live published s_recs empty_seg].
  rewrite map_app, concat_app, firstn_all. cbn. rewrite !app_nil_r. reflexivity.
Qed.

(* reopening keeps every complete group *)
Lemma cp_loop_multi tx c r : forall es off good n,
  Forall (fun e => e_flag e = false /\ e_tx e = tx) es ->
  cp_loop (map REvent es ++ RCommit tx c :: r) off good (Some (tx, n))
  = cp_loop r (S (off + length es)) (S (off + length es)) None.
Proof.
  induction es as [|e es IH]; intros off good n H; cbn.
  - rewrite N.eqb_refl, Nat.add_0_r. reflexivity.
  - inversion H as [|? ? [Hf Ht] H']; subst. rewrite Hf, N.eqb_refl. rewrite IH by assumption.
    replace (S off + length es)%nat with (off + S (length es))%nat by lia. reflexivity.
Qed.

Lemma cp_loop_wf recs gs : wf_recs recs gs -> forall r off,
  cp_loop (recs ++ r) off off None = cp_loop r (off + length recs) (off + length recs) None.
Proof.
  induction 1 as [|g es r0 gs Hg Hr IH]; intros r off.
  - cbn. rewrite Nat.add_0_r. reflexivity.
  - rewrite <- app_assoc. destruct Hg as [e He|es tx Hne Hall].
    + cbn [app cp_loop]. rewrite He. rewrite IH. cbn [length].
      replace (S off + length r0)%nat with (off + S (length r0))%nat by lia. reflexivity.
    + destruct es as [|e es]; [congruence|]. inversion Hall as [|? ? [Hf Ht] Hall']; subst.
      cbn [map app cp_loop]. rewrite Hf. rewrite <- app_assoc. cbn [app].
      rewrite cp_loop_multi by assumption. rewrite IH. cbn [length]. rewrite !app_length, map_length. cbn [length].
      replace (S (S off + length es) + length r0)%nat with (off + (S (length es) + 1 + length r0))%nat by lia.
      reflexivity.
Qed.

Lemma complete_prefix_wf recs gs : wf_recs recs gs -> complete_prefix recs = length recs.
Proof.
  intros H. unfold complete_prefix. rewrite <- (app_nil_r recs) at 1. rewrite (cp_loop_wf _ _ H). reflexivity.
Qed.

Lemma abs_visible_reopen s gs : wf_recs (s_recs (live s)) gs ->
  abs_visible (reopen (publish s)) = abs_visible (publish s).
Proof.
  intros H. unfold abs_visible, reopen, publish. cbn [sealed live published s_recs].
  rewrite (complete_prefix_wf _ _ H). rewrite !firstn_all. reflexivity.
Qed.

Corollary forward_same_after_rollover s k from limit :
  Scannable (publish s) k -> Scannable (rollover s) k -> (0 < limit)%nat ->
  exists b1 b2, scan (publish s) k from Fwd limit = Some b1 /\ scan (rollover s) k from Fwd limit = Some b2 /\
    scan_events b1 = scan_events b2 /\ map committed_events (concat b1) = map committed_events (concat b2).
Proof.
  intros H1 H2 Hl. apply forward_independent; auto. symmetry. apply abs_visible_rollover.
Qed.

Corollary forward_same_after_reopen s k from limit :
  Scannable (publish s) k -> Scannable (reopen (publish s)) k -> (0 < limit)%nat ->
  exists b1 b2, scan (publish s) k from Fwd limit = Some b1 /\ scan (reopen (publish s)) k from Fwd limit = Some b2 /\
    scan_events b1 = scan_events b2 /\ map committed_events (concat b1) = map committed_events (concat b2).
Proof.
  intros H1 H2 Hl. apply forward_independent; auto. symmetry.
  destruct (sc_live _ _ H1) as [[gs Hwf] _]. unfold pubrecs, publish in Hwf.
  cbn [published live s_recs] in Hwf. rewrite firstn_all in Hwf. eapply abs_visible_reopen; eauto.
Qed.

(** ** checking [Scannable] on a concrete store (for the Examples) *)
Definition enc (es : list event) : list rec :=
  match gkind es with None => map REvent es | Some (tx, c) => map REvent es ++ [RCommit tx c] end.
Definition gvalidb (es : list event) : bool :=
  match es with
  | [] => false
  | e :: r => if e_flag e then match r with [] => true | _ => false end
              else forallb (fun x => negb (e_flag x) && (e_tx x =? e_tx e)) r
  end.

Lemma wf_enc gs : forallb gvalidb gs = true -> wf_recs (concat (map enc gs)) gs.
Proof.
  induction gs as [|es gs IH]; intros H; [constructor|]. cbn in H. apply andb_prop in H. destruct H as [Hv H].
  cbn [map concat]. constructor; [|auto]. unfold enc, gkind. destruct es as [|e r]; [discriminate|].
  cbn in Hv. destruct (e_flag e) eqn:Hf.
  - destruct r; [|discriminate]. constructor. assumption.
  - apply WG_multi; [discriminate|]. constructor; [auto|]. apply Forall_forall. intros x Hx.
    eapply forallb_forall in Hv; [|exact Hx]. apply andb_prop in Hv. destruct Hv as [H1 H2].
    apply negb_true_iff in H1. apply N.eqb_eq in H2. auto.
Qed.

Lemma seg_wf_check recs idx : forallb gvalidb (groups recs) = true ->
  concat (map enc (groups recs)) = recs -> idx = hydrate_from recs 0 -> seg_wf recs idx.
Proof.
  intros H1 H2 H3. split; [|assumption]. exists (groups recs). rewrite <- H2 at 1. apply wf_enc. assumption.
Qed.

Definition same_pidb (g : list event) : bool :=
  match g with [] => true | e :: r => forallb (fun x => e_pid x =? e_pid e) r end.

Lemma Scannable_check s k :
  Forall (fun g => seg_wf (s_recs g) (s_idx g)) (sealed s) ->
  (published s <= synced s)%nat ->
  seg_wf (pubrecs s) (s_idx (live s)) ->
  map (key_pos k) (filter (matches k) (all_events (abs_visible s)))
    = map N.of_nat (seq 0 (length (filter (matches k) (all_events (abs_visible s))))) ->
  forallb (fun e => key_pos k e <=? U64MAX) (all_events (abs_visible s)) = true ->
  forallb same_pidb (abs_visible s) = true ->
  Scannable s k.
Proof.
  intros H1 H2 H3 H4 H5 H6. constructor; auto.
  - intros e He _. eapply forallb_forall in H5; [|exact He]. apply N.leb_le. assumption.
  - apply same_pid_closed. intros g e e' Hg He He'. eapply forallb_forall in H6; [|exact Hg].
    destruct g as [|x r]; [contradiction|]. cbn in H6.
    assert (Hx : forall y, In y (x :: r) -> e_pid y = e_pid x).
    { intros y [<-|Hy]; [reflexivity|]. eapply forallb_forall in H6; [|exact Hy]. apply N.eqb_eq. assumption. }
    rewrite (Hx e He), (Hx e' He'). reflexivity.
Qed.
