(** C03: scans are exact, ordered and gapless -- the statements used by Props/C03.v.
    Built on ScanRecs (record lists), ScanSeg (one segment), ScanPos (positions),
    ScanStore ([Scannable] and per-segment facts), ScanIter (forward iterator). *)
From Coq Require Import NArith List Bool Lia Arith.
From SV Require Import Model.StoreIter.
From SV Require Export Proofs.ScanRecs Proofs.ScanSeg Proofs.ScanPos Proofs.ScanStore Proofs.ScanIter Proofs.ScanRev.
Import ListNotations.
Open Scope N_scope.

(** ** forward *)
Definition fwd_spec (k : skey) (from : N) (l : alog) : list event :=
  filter (fun e => matches k e && (from <=? key_pos k e)) (all_events l).

(* groups, batch sizes *)
Theorem forward_groups s k from limit : Scannable s k -> (0 < limit)%nat ->
  exists batches, scan s k from Fwd limit = Some batches /\
    map committed_events (concat batches) = Efwd k from (abs_visible s) /\
    Forall (fun b => 1 <= length b <= limit)%nat batches.
Proof. intros HS Hl. apply scan_fwd; [assumption|lia]. Qed.

Theorem forward_exact s k from limit : Scannable s k -> (0 < limit)%nat ->
  exists batches, scan s k from Fwd limit = Some batches /\
    scan_events batches = fwd_spec k from (abs_visible s).
Proof.
  intros HS Hl. destruct (forward_groups s k from limit HS Hl) as (b & H1 & H2 & _).
  exists b. split; [assumption|]. unfold scan_events. rewrite H2. apply Efwd_events.
Qed.

Lemma forward_exact' s k from limit batches : Scannable s k -> (0 < limit)%nat ->
  scan s k from Fwd limit = Some batches -> scan_events batches = fwd_spec k from (abs_visible s).
Proof.
  intros HS Hl H. destruct (forward_exact s k from limit HS Hl) as (b & H1 & H2). congruence.
Qed.

Theorem forward_no_foreign s k from limit batches : Scannable s k -> (0 < limit)%nat ->
  scan s k from Fwd limit = Some batches ->
  Forall (fun e => matches k e = true /\ from <= key_pos k e /\ In e (all_events (abs_visible s))) (scan_events batches).
Proof.
  intros HS Hl H. rewrite (forward_exact' _ _ _ _ _ HS Hl H). apply Forall_forall. intros e He.
  apply filter_In in He. destruct He as [Hin Hp]. apply andb_prop in Hp. destruct Hp as [H1 H2].
  apply N.leb_le in H2. auto.
Qed.

(* positions are from, from+1, from+2, ... : strictly increasing, no gaps, no repeats *)
Lemma posincr_positions k : forall es c, posincr k (fun e => e) c es ->
  map (key_pos k) (filter (matches k) es) = map (fun i => c + N.of_nat i) (seq 0 (length (filter (matches k) es))).
Proof.
  induction es as [|e es IH]; intros c H; [reflexivity|]. cbn in *. unfold mt in H.
  destruct (matches k e); [|auto]. destruct H as [H1 H2]. cbn [map length seq]. f_equal; [lia|].
  rewrite (IH _ H2). rewrite <- seq_shift, map_map. apply map_ext. intros i. lia.
Qed.

Lemma seq_plus : forall n m, seq m n = map (Nat.add m) (seq 0 n).
Proof.
  induction n as [|n IH]; intros m; [reflexivity|]. cbn [seq map]. f_equal; [lia|].
  rewrite (IH (S m)), <- seq_shift, map_map. apply map_ext. intros i. lia.
Qed.

Theorem forward_positions s k from limit batches : Scannable s k -> (0 < limit)%nat ->
  scan s k from Fwd limit = Some batches ->
  map (key_pos k) (scan_events batches)
  = map (fun i => from + N.of_nat i) (seq 0 (length (scan_events batches))).
Proof.
  intros HS Hl H. rewrite (forward_exact' _ _ _ _ _ HS Hl H). unfold fwd_spec.
  pose proof (all_posincr s k HS) as Hp. rewrite <- all_events_Ls in Hp.
  set (all := all_events (abs_visible s)) in *.
  change (fun e => matches k e && (from <=? key_pos k e)) with (qge k (fun e : event => e) from).
  rewrite (posincr_filter_ge k (fun e => e) _ _ from Hp).
  pose proof (posincr_positions k _ _ Hp) as Hpos.
  change (filter (mt k (fun e : event => e)) all) with (filter (matches k) all).
  set (K := filter (matches k) all) in *. unfold kcount. 
  change (filter (mt k (fun e : event => e)) all) with K.
  set (m := clamp_sub from 0 (length K)).
  rewrite <- skipn_map, Hpos, skipn_map, skipn_length.
  assert (Hm : (m <= length K)%nat) by apply clamp_sub_le.
  replace (length K) with (m + (length K - m))%nat at 1 by lia. rewrite seq_app, skipn_app_exact by (apply seq_length).
  rewrite (seq_plus _ (0 + m)). rewrite map_map. apply map_ext_in. intros i Hi. apply in_seq in Hi.
  assert (N.of_nat m = from); [|lia].
  subst m. unfold clamp_sub in *. rewrite N.sub_0_r in *.
  destruct (N.leb_spec (N.of_nat (length K)) from); lia.
Qed.

(** ** results do not depend on where the events are stored *)
Theorem forward_independent s1 s2 k from limit : Scannable s1 k -> Scannable s2 k ->
  abs_visible s1 = abs_visible s2 -> (0 < limit)%nat ->
  exists b1 b2, scan s1 k from Fwd limit = Some b1 /\ scan s2 k from Fwd limit = Some b2 /\
    scan_events b1 = scan_events b2 /\
    map committed_events (concat b1) = map committed_events (concat b2).
Proof.
  intros H1 H2 Heq Hl.
  destruct (forward_groups s1 k from limit H1 Hl) as (b1 & Hs1 & Hg1 & _).
  destruct (forward_groups s2 k from limit H2 Hl) as (b2 & Hs2 & Hg2 & _).
  exists b1, b2. repeat split; auto.
  - unfold scan_events. rewrite Hg1, Hg2, Heq. reflexivity.
  - rewrite Hg1, Hg2, Heq. reflexivity.
Qed.

Lemma abs_visible_rollover s : abs_visible (rollover s) = abs_visible (publish s).
Proof.
  unfold abs_visible, rollover, publish. cbn [sealed live published s_recs empty_seg].
  rewrite map_app, concat_app, firstn_all. cbn. rewrite !app_nil_r. reflexivity.
Qed.

(* reopening keeps every complete group *)
Lemma cp_loop_multi tx c r : forall es off good n,
  Forall (fun e => e_flag e = false /\ e_tx e = tx) es ->
  cp_loop (map REvent es ++ RCommit tx c :: r) off good (Some (tx, n))
  = cp_loop r (S (off + length es)) (S (off + length es)) None.
Proof.
  induction es as [|e es IH]; intros off good n H; cbn.
  - rewrite N.eqb_refl, Nat.add_0_r. reflexivity.
  - inversion H as [|? ? [Hf Ht] H']; subst. rewrite Hf, N.eqb_refl. rewrite IH by assumption.
    replace (S off + length es)%nat with (off + S (length es))%nat by lia. reflexivity.
Qed.

Lemma cp_loop_wf recs gs : wf_recs recs gs -> forall r off,
  cp_loop (recs ++ r) off off None = cp_loop r (off + length recs) (off + length recs) None.
Proof.
  induction 1 as [|g es r0 gs Hg Hr IH]; intros r off.
  - cbn. rewrite Nat.add_0_r. reflexivity.
  - rewrite <- app_assoc. destruct Hg as [e He|es tx c Hne Hall].
    + cbn [app cp_loop]. rewrite He. rewrite IH. cbn [length].
      replace (S off + length r0)%nat with (off + S (length r0))%nat by lia. reflexivity.
    + destruct es as [|e es]; [congruence|]. inversion Hall as [|? ? [Hf Ht] Hall']; subst.
      cbn [map app cp_loop]. rewrite Hf. rewrite <- app_assoc. cbn [app].
      rewrite cp_loop_multi by assumption. rewrite IH. cbn [length]. rewrite !app_length, map_length. cbn [length].
      replace (S (S off + length es) + length r0)%nat with (off + (S (length es) + 1 + length r0))%nat by lia.
      reflexivity.
Qed.

Lemma complete_prefix_wf recs gs : wf_recs recs gs -> complete_prefix recs = length recs.
Proof.
  intros H. unfold complete_prefix. rewrite <- (app_nil_r recs) at 1. rewrite (cp_loop_wf _ _ H). reflexivity.
Qed.

Lemma abs_visible_reopen s gs : wf_recs (s_recs (live s)) gs ->
  abs_visible (reopen (publish s)) = abs_visible (publish s).
Proof.
  intros H. unfold abs_visible, reopen, publish. cbn [sealed live published s_recs].
  rewrite (complete_prefix_wf _ _ H). rewrite !firstn_all. reflexivity.
Qed.

Corollary forward_same_after_rollover s k from limit :
  Scannable (publish s) k -> Scannable (rollover s) k -> (0 < limit)%nat ->
  exists b1 b2, scan (publish s) k from Fwd limit = Some b1 /\ scan (rollover s) k from Fwd limit = Some b2 /\
    scan_events b1 = scan_events b2 /\ map committed_events (concat b1) = map committed_events (concat b2).
Proof.
  intros H1 H2 Hl. apply forward_independent; auto. symmetry. apply abs_visible_rollover.
Qed.

Corollary forward_same_after_reopen s k from limit :
  Scannable (publish s) k -> Scannable (reopen (publish s)) k -> (0 < limit)%nat ->
  exists b1 b2, scan (publish s) k from Fwd limit = Some b1 /\ scan (reopen (publish s)) k from Fwd limit = Some b2 /\
    scan_events b1 = scan_events b2 /\ map committed_events (concat b1) = map committed_events (concat b2).
Proof.
  intros H1 H2 Hl. apply forward_independent; auto. symmetry.
  destruct (sc_live _ _ H1) as [[gs Hwf] _]. unfold pubrecs, publish in Hwf.
  cbn [published live s_recs] in Hwf. rewrite firstn_all in Hwf. eapply abs_visible_reopen; eauto.
Qed.

(** ** checking [Scannable] on a concrete store (for the Examples) *)
Definition enc (es : list event) : list rec :=
  if gflag es then map REvent es else map REvent es ++ [RCommit (gtx es) (N.of_nat (length es))].
Definition gvalidb (es : list event) : bool :=
  match es with
  | [] => false
  | e :: r => if e_flag e then match r with [] => true | _ => false end
              else forallb (fun x => negb (e_flag x) && (e_tx x =? e_tx e)) r
  end.

Lemma wf_enc gs : forallb gvalidb gs = true -> wf_recs (concat (map enc gs)) gs.
Proof.
  induction gs as [|es gs IH]; intros H; [constructor|]. cbn in H. apply andb_prop in H. destruct H as [Hv H].
  cbn [map concat]. constructor; [|auto]. unfold enc, gflag, gtx. destruct es as [|e r]; [discriminate|].
  cbn in Hv. destruct (e_flag e) eqn:Hf.
  - destruct r; [|discriminate]. constructor. assumption.
  - apply WG_multi; [discriminate|]. constructor; [auto|]. apply Forall_forall. intros x Hx.
    eapply forallb_forall in Hv; [|exact Hx]. apply andb_prop in Hv. destruct Hv as [H1 H2].
    apply negb_true_iff in H1. apply N.eqb_eq in H2. auto.
Qed.

Lemma seg_wf_check recs idx : forallb gvalidb (groups recs) = true ->
  concat (map enc (groups recs)) = recs -> idx = hydrate_from recs 0 -> seg_wf recs idx.
Proof.
  intros H1 H2 H3. split; [|assumption]. exists (groups recs). rewrite <- H2 at 1. apply wf_enc. assumption.
Qed.

Definition same_pidb (g : list event) : bool :=
  match g with [] => true | e :: r => forallb (fun x => e_pid x =? e_pid e) r end.

Lemma Scannable_check s k :
  Forall (fun g => seg_wf (s_recs g) (s_idx g)) (sealed s) ->
  (published s <= synced s)%nat ->
  seg_wf (pubrecs s) (s_idx (live s)) ->
  map (key_pos k) (filter (matches k) (all_events (abs_visible s)))
    = map N.of_nat (seq 0 (length (filter (matches k) (all_events (abs_visible s))))) ->
  forallb same_pidb (abs_visible s) = true ->
  Scannable s k.
Proof.
  intros H1 H2 H3 H4 H6. constructor; auto.
  apply same_pid_closed. intros g e e' Hg He He'. eapply forallb_forall in H6; [|exact Hg].
    destruct g as [|x r]; [contradiction|]. cbn in H6.
    assert (Hx : forall y, In y (x :: r) -> e_pid y = e_pid x).
    { intros y [<-|Hy]; [reflexivity|]. eapply forallb_forall in H6; [|exact Hy]. apply N.eqb_eq. assumption. }
    rewrite (Hx e He), (Hx e' He'). reflexivity.
Qed.

(** ** reverse *)
Theorem reverse_groups s k from limit : Scannable s k -> U64ok s k -> (0 < limit)%nat ->
  exists batches, scan s k from Rev limit = Some batches /\
    map committed_events (concat batches) = Erev k from (abs_visible s) /\
    Forall (fun b => 1 <= length b <= limit)%nat batches.
Proof. intros HS HU Hl. apply scan_rev; [assumption|assumption|lia]. Qed.

Lemma reverse_groups' s k from limit batches : Scannable s k -> U64ok s k -> (0 < limit)%nat ->
  scan s k from Rev limit = Some batches ->
  map committed_events (concat batches) = Erev k from (abs_visible s).
Proof.
  intros HS HU Hl H. destruct (reverse_groups s k from limit HS HU Hl) as (b & H1 & H2 & _). congruence.
Qed.

Lemma ksufp_split k es x : In x (ksufp k es) ->
  exists pre rest, es = pre ++ fst x :: rest /\ matches k (fst x) = true /\ snd x = filter (matches k) rest.
Proof.
  induction es as [|e es IH]; [contradiction|]. cbn. intros H. apply in_app_or in H. destruct H as [H|H].
  - destruct (matches k e) eqn:Hm; [|contradiction]. destruct H as [<-|[]]. exists [], es. cbn. auto.
  - destruct (IH H) as (pre & rest & -> & H2 & H3). exists (e :: pre), rest. auto.
Qed.

Lemma ksufp_has k es e : In e es -> matches k e = true -> exists tl, In (e, tl) (ksufp k es).
Proof.
  induction es as [|e0 es IH]; [contradiction|]. intros [->|Hin] Hm; cbn.
  - rewrite Hm. eexists. left. reflexivity.
  - destruct (IH Hin Hm) as [tl Htl]. exists tl. apply in_or_app. right. assumption.
Qed.

(* every returned group: a key event at or before [from] followed by the key's later events of its
   transaction (so it is a suffix of the key's events of exactly one stored transaction) *)
Theorem reverse_group_shape s k from limit batches : Scannable s k -> U64ok s k -> (0 < limit)%nat ->
  scan s k from Rev limit = Some batches ->
  Forall (fun l => exists t pre e rest, In t (abs_visible s) /\ t = pre ++ e :: rest /\
                     matches k e = true /\ key_pos k e <= from /\ l = e :: filter (matches k) rest)
         (map committed_events (concat batches)).
Proof.
  intros HS HU Hl H. rewrite (reverse_groups' _ _ _ _ _ HS HU Hl H). apply Forall_forall. intros l Hin.
  unfold Erev in Hin. apply in_rev in Hin. apply in_map_iff in Hin. destruct Hin as (x & <- & Hx).
  apply filter_In in Hx. destruct Hx as [Hx Hle]. apply in_concat in Hx. destruct Hx as (ks & Hks & Hx).
  apply in_map_iff in Hks. destruct Hks as (t & <- & Ht).
  destruct (ksufp_split _ _ _ Hx) as (pre & rest & Ht' & Hm & Hs).
  exists t, pre, (fst x), rest. unfold hle in Hle. apply N.leb_le in Hle. unfold ucons. rewrite Hs. auto.
Qed.

(* the events at or before [from] that occur in the result are exactly those of the specification *)
Theorem reverse_exact s k from limit batches : Scannable s k -> U64ok s k -> (0 < limit)%nat ->
  scan s k from Rev limit = Some batches ->
  forall e, In e (filter (fun e => key_pos k e <=? from) (scan_events batches)) <->
            In e (filter (fun e => matches k e && (key_pos k e <=? from)) (all_events (abs_visible s))).
Proof.
  intros HS HU Hl H e. unfold scan_events. rewrite (reverse_groups' _ _ _ _ _ HS HU Hl H).
  rewrite !filter_In. unfold Erev. split.
  - intros [Hin Hp]. apply in_concat in Hin. destruct Hin as (l & Hl' & He). apply in_rev in Hl'.
    apply in_map_iff in Hl'. destruct Hl' as (x & <- & Hx). apply filter_In in Hx. destruct Hx as [Hx _].
    apply in_concat in Hx. destruct Hx as (ks & Hks & Hx). apply in_map_iff in Hks. destruct Hks as (t & <- & Ht).
    destruct (ksufp_in _ _ _ Hx) as (H1 & H2 & H3).
    assert (In e t /\ matches k e = true) as [Het Hm] by (destruct He as [<-|He]; [auto|apply H3; assumption]).
    split; [|rewrite Hm, Hp; reflexivity]. unfold all_events. apply in_concat. exists t. auto.
  - intros [Hin Hp]. apply andb_prop in Hp. destruct Hp as [Hm Hp]. split; [|assumption].
    unfold all_events in Hin. apply in_concat in Hin. destruct Hin as (t & Ht & Het).
    destruct (ksufp_has k t e Het Hm) as [tl Htl].
    apply in_concat. exists (ucons (e, tl)). split; [|left; reflexivity].
    apply in_rev. rewrite rev_involutive. apply in_map. apply filter_In. split; [|exact Hp].
    apply in_concat. exists (ksufp k t). split; [apply in_map; assumption|assumption].
Qed.

Theorem reverse_all s k limit batches : Scannable s k -> U64ok s k -> (0 < limit)%nat ->
  scan s k U64MAX Rev limit = Some batches ->
  forall e, In e (scan_events batches) <-> (In e (all_events (abs_visible s)) /\ matches k e = true).
Proof.
  intros HS HU Hl H e. pose proof (reverse_exact s k U64MAX limit batches HS HU Hl H e) as Hx.
  rewrite !filter_In in Hx. split.
  - intros Hin.
    (* every returned event is a stored event of the key *)
    assert (Hk : In e (all_events (abs_visible s)) /\ matches k e = true).
    { unfold scan_events in Hin. rewrite (reverse_groups' _ _ _ _ _ HS HU Hl H) in Hin.
      apply in_concat in Hin. destruct Hin as (l & Hl' & He). unfold Erev in Hl'. apply in_rev in Hl'.
      apply in_map_iff in Hl'. destruct Hl' as (x & <- & Hx'). apply filter_In in Hx'. destruct Hx' as [Hx' _].
      apply in_concat in Hx'. destruct Hx' as (ks & Hks & Hx'). apply in_map_iff in Hks. destruct Hks as (t & <- & Ht).
      destruct (ksufp_in _ _ _ Hx') as (H1 & H2 & H3).
      assert (In e t /\ matches k e = true) as [Het Hm] by (destruct He as [<-|He]; [auto|apply H3; assumption]).
      split; [|assumption]. unfold all_events. apply in_concat. exists t. auto. }
    exact Hk.
  - intros [Hin Hm]. apply Hx. split; [assumption|]. rewrite Hm. cbn. apply N.leb_le. apply HU; assumption.
Qed.

(* the first elements of successive groups have positions n-1, n-2, .., 0 (n = number of groups) *)
Definition head_pos (k : skey) (l : list event) : N := match l with e :: _ => key_pos k e | [] => 0 end.

Lemma ksufp_log_posincr k : forall (log : alog) c, posincr k (fun e => e) c (concat log) ->
  posincr k fst c (concat (map (ksufp k) log)).
Proof.
  induction log as [|g log IH]; intros c H; [exact I|]. cbn [map concat] in *.
  apply posincr_app in H. destruct H as [H1 H2]. apply posincr_app. split; [apply ksufp_posincr; assumption|].
  rewrite ksufp_count. apply IH. assumption.
Qed.

Lemma posincr_all_positions k {A} (ev : A -> event) : forall l c, posincr k ev c l ->
  Forall (fun x => mt k ev x = true) l ->
  map (fun x => key_pos k (ev x)) l = map (fun i => c + N.of_nat i) (seq 0 (length l)).
Proof.
  induction l as [|x l IH]; intros c H HF; [reflexivity|]. inversion HF as [|? ? Hx HF']; subst.
  cbn [posincr] in H. rewrite Hx in H. destruct H as [H1 H2]. cbn [map length seq]. f_equal; [lia|].
  rewrite (IH _ H2 HF'). rewrite <- seq_shift, map_map. apply map_ext. intros i. lia.
Qed.

Theorem reverse_heads s k from limit batches : Scannable s k -> U64ok s k -> (0 < limit)%nat ->
  scan s k from Rev limit = Some batches ->
  let groups := map committed_events (concat batches) in
  map (head_pos k) groups = map N.of_nat (rev (seq 0 (length groups))).
Proof.
  intros HS HU Hl H groups. subst groups. rewrite (reverse_groups' _ _ _ _ _ HS HU Hl H). unfold Erev.
  set (KK := concat (map (ksufp k) (abs_visible s))).
  assert (Hp : posincr k fst 0 KK).
  { apply ksufp_log_posincr. pose proof (all_posincr s k HS) as Hp. rewrite <- all_events_Ls in Hp. exact Hp. }
  assert (Hall : Forall (fun x => mt k fst x = true) KK).
  { unfold KK. apply Forall_forall. intros x Hx. apply in_concat in Hx. destruct Hx as (ks & Hks & Hx).
    apply in_map_iff in Hks. destruct Hks as (t & <- & _). pose proof (ksufp_all k t) as HF.
    eapply Forall_forall in HF; eauto. }
  assert (Hf : filter (hle k from) KK = firstn (count_le from 0 (length KK)) KK).
  { transitivity (filter (qle k fst from) KK).
    - apply filter_ext_in. intros x Hx. unfold qle, hle. eapply Forall_forall in Hall; [|exact Hx]. rewrite Hall. reflexivity.
    - rewrite (posincr_filter_le k fst _ _ from Hp). unfold kcount. rewrite (filter_all _ _ Hall). reflexivity. }
  rewrite Hf. set (m := count_le from 0 (length KK)). rewrite rev_length, map_length.
  rewrite map_rev, map_map. rewrite <- map_rev. f_equal.
  assert (Hfirst : posincr k fst 0 (firstn m KK) /\ Forall (fun x => mt k fst x = true) (firstn m KK)).
  { split; [|apply Forall_firstn'; assumption]. rewrite <- (firstn_skipn m KK) in Hp. apply posincr_app in Hp. tauto. }
  destruct Hfirst as [Hp1 Hall1]. rewrite map_rev. f_equal.
  change (fun x : event * list event => head_pos k (ucons x)) with (fun x : event * list event => key_pos k (fst x)).
  rewrite (posincr_all_positions k fst _ _ Hp1 Hall1). rewrite <- map_rev. apply map_ext. intros i. lia.
Qed.

(** ** no scan fails *)
Theorem never_error s k from d limit : Scannable s k -> (d = Rev -> U64ok s k) -> scan s k from d limit <> None.
Proof.
  intros HS HU. destruct limit as [|n]; [unfold scan; cbn; discriminate|].
  destruct d.
  - destruct (forward_groups s k from (S n) HS ltac:(lia)) as (b & -> & _). discriminate.
  - destruct (reverse_groups s k from (S n) HS (HU eq_refl) ltac:(lia)) as (b & -> & _). discriminate.
Qed.

Theorem reverse_independent s1 s2 k from limit : Scannable s1 k -> Scannable s2 k -> U64ok s1 k ->
  abs_visible s1 = abs_visible s2 -> (0 < limit)%nat ->
  exists b1 b2, scan s1 k from Rev limit = Some b1 /\ scan s2 k from Rev limit = Some b2 /\
    map committed_events (concat b1) = map committed_events (concat b2).
Proof.
  intros H1 H2 HU Heq Hl.
  assert (HU2 : U64ok s2 k) by (unfold U64ok in *; rewrite <- Heq; exact HU).
  destruct (reverse_groups s1 k from limit H1 HU Hl) as (b1 & Hs1 & Hg1 & _).
  destruct (reverse_groups s2 k from limit H2 HU2 Hl) as (b2 & Hs2 & Hg2 & _).
  exists b1, b2. repeat split; auto. rewrite Hg1, Hg2, Heq. reflexivity.
Qed.

(** ** forward: shape of the groups -- each is the key's part of one stored transaction; all but
    the first are whole, the first may be cut at [from] (it is then the suffix from [from]) *)
Lemma Efwd_from_le k from : forall (log : alog) c, posincr k (fun e => e) c (concat log) -> from <= c ->
  Efwd k from log = filter nonnil (map (filter (matches k)) log).
Proof.
  intros log c Hp Hle. unfold Efwd. f_equal. apply map_ext_in. intros t Ht. apply filter_ext_in. intros e He.
  unfold Pge. destruct (matches k e) eqn:Hm; [|reflexivity]. cbn.
  assert (Hin : In e (concat log)) by (apply in_concat; exists t; auto).
  destruct (posincr_bounds k (fun e => e) _ _ _ Hp Hin Hm) as [Hb _]. apply N.leb_le. lia.
Qed.

Lemma Efwd_whole_after k from : forall (log : alog) c, posincr k (fun e => e) c (concat log) ->
  forall pre l rest, Efwd k from log = pre ++ l :: rest -> pre <> [] ->
  exists t, In t log /\ l = filter (matches k) t.
Proof.
  induction log as [|t log IH]; intros c Hp pre l rest HE Hpre.
  - destruct pre; discriminate.
  - cbn [concat] in Hp. apply posincr_app in Hp. destruct Hp as [Hp1 Hp2].
    unfold Efwd in HE. cbn [map filter] in HE. fold (Efwd k from log) in HE.
    destruct (filter (Pge k from) t) as [|x xs] eqn:Hf; cbn [nonnil] in HE.
    + destruct (IH _ Hp2 pre l rest HE Hpre) as (t' & Ht' & Hl). exists t'. split; [right|]; assumption.
    + destruct pre as [|p0 pre']; [congruence|]. cbn [app] in HE. inversion HE as [[H0 HE']].
      assert (Hx : In x (filter (Pge k from) t)) by (rewrite Hf; left; reflexivity).
      apply filter_In in Hx. destruct Hx as [Hxin Hxp]. unfold Pge in Hxp. apply andb_prop in Hxp.
      destruct Hxp as [Hxm Hxle]. apply N.leb_le in Hxle.
      destruct (posincr_bounds k (fun e => e) _ _ _ Hp1 Hxin Hxm) as [_ Hub].
      rewrite (Efwd_from_le k from log _ Hp2) in HE' by lia.
      assert (Hl : In l (filter nonnil (map (filter (matches k)) log))).
      { rewrite HE'. apply in_or_app. right. left. reflexivity. }
      apply filter_In in Hl. destruct Hl as [Hl _]. apply in_map_iff in Hl. destruct Hl as (t' & <- & Ht').
      exists t'. split; [right; assumption|reflexivity].
Qed.

Theorem forward_group_shape s k from limit batches : Scannable s k -> (0 < limit)%nat ->
  scan s k from Fwd limit = Some batches ->
  let groups := map committed_events (concat batches) in
  Forall (fun l => exists t pre, In t (abs_visible s) /\ l <> [] /\
                     l = filter (fun e => matches k e && (from <=? key_pos k e)) t /\
                     filter (matches k) t = pre ++ l) groups /\
  (forall pre l rest, groups = pre ++ l :: rest -> pre <> [] ->
     exists t, In t (abs_visible s) /\ l = filter (matches k) t).
Proof.
  intros HS Hl H groups. subst groups.
  destruct (forward_groups s k from limit HS Hl) as (b & H1 & H2 & _).
  assert (b = batches) by congruence. subst b. rewrite H2.
  pose proof (all_posincr s k HS) as Hp. rewrite <- all_events_Ls in Hp. unfold all_events in Hp.
  split.
  - apply Forall_forall. intros l Hin. unfold Efwd in Hin. apply filter_In in Hin. destruct Hin as [Hin Hnn].
    apply in_map_iff in Hin. destruct Hin as (t & <- & Ht).
    destruct (in_split _ _ Ht) as (a & b & Hab). rewrite Hab in Hp. rewrite concat_app in Hp. cbn [concat] in Hp.
    apply posincr_app in Hp. destruct Hp as [_ Hp]. apply posincr_app in Hp. destruct Hp as [Hp _].
    exists t, (firstn (clamp_sub from (0 + N.of_nat (kcount k (fun e => e) (concat a))) (kcount k (fun e => e) t)) (filter (matches k) t)).
    split; [assumption|]. split; [destruct (filter (Pge k from) t); [discriminate|discriminate]|].
    split; [reflexivity|].
    change (Pge k from) with (qge k (fun e : event => e) from).
    rewrite (posincr_filter_ge k (fun e => e) _ _ from Hp). symmetry. apply firstn_skipn.
  - intros pre l rest HE Hpre. eapply Efwd_whole_after; eauto.
Qed.

Lemma U64ok_check s k : forallb (fun e => key_pos k e <=? U64MAX) (all_events (abs_visible s)) = true -> U64ok s k.
Proof. intros H e He _. eapply forallb_forall in H; [|exact He]. apply N.leb_le. assumption. Qed.
