(** Proofs about the seglog model (Model/Seglog.v): codec round trip, the three random-read paths,
    sequential reads through a coherent read-ahead buffer, corruption detection, truncation, resume,
    panic-freedom, and the reader/writer invariant behind C18. *)
From Coq Require Import NArith List Lia Bool ZArith Znat.
From Coq Require Import ZifyBool ZifyNat ZifyN.
From SV Require Import Model.Crc32 Model.Seglog Proofs.Crc32Proofs.
Import ListNotations.
Open Scope N_scope.
Ltac Zify.zify_post_hook ::= Z.div_mod_to_equations.

(** * N-indexed list helpers *)
Section ListN.
Context {A : Type}.
Implicit Types l : list A.

Lemma lenN_aux l : forall a, fold_left (fun (a : N) (_ : A) => N.succ a) l a = a + N.of_nat (length l).
Proof. induction l as [|x l IH]; intros a; cbn [fold_left length]; [lia|]. rewrite IH. lia. Qed.

Lemma lenN_length l : lenN l = N.of_nat (length l).
Proof. unfold lenN. rewrite lenN_aux. lia. Qed.

Lemma dropN_skipn l : forall n, dropN n l = skipn (N.to_nat n) l.
Proof.
  induction l as [|x l IH]; intros n; cbn [dropN]; [destruct (N.to_nat n); reflexivity|].
  destruct (N.eqb_spec n 0) as [->|Hn]; [reflexivity|].
  rewrite IH. replace (N.to_nat n) with (S (N.to_nat (N.pred n))) by lia. reflexivity.
Qed.

Lemma takeN_firstn l : forall n, takeN n l = firstn (N.to_nat n) l.
Proof.
  induction l as [|x l IH]; intros n; cbn [takeN]; [destruct (N.to_nat n); reflexivity|].
  destruct (N.eqb_spec n 0) as [->|Hn]; [reflexivity|].
  rewrite IH. replace (N.to_nat n) with (S (N.to_nat (N.pred n))) by lia. reflexivity.
Qed.

Lemma lenN_nil : lenN (@nil A) = 0. Proof. reflexivity. Qed.
Lemma lenN_cons x l : lenN (x :: l) = 1 + lenN l. Proof. rewrite !lenN_length. cbn [length]. lia. Qed.
Lemma lenN_app l1 l2 : lenN (l1 ++ l2) = lenN l1 + lenN l2.
Proof. rewrite !lenN_length, app_length. lia. Qed.
Lemma lenN_takeN n l : lenN (takeN n l) = N.min n (lenN l).
Proof. rewrite takeN_firstn, !lenN_length, firstn_length. lia. Qed.
Lemma lenN_dropN n l : lenN (dropN n l) = lenN l - n.
Proof. rewrite dropN_skipn, !lenN_length, skipn_length. lia. Qed.
Lemma lenN_sliceN l off len : lenN (sliceN l off len) = N.min len (lenN l - off).
Proof. unfold sliceN. rewrite lenN_takeN, lenN_dropN. reflexivity. Qed.
Lemma lenN_0 l : lenN l = 0 -> l = [].
Proof. rewrite lenN_length. destruct l; cbn; [reflexivity|lia]. Qed.

Lemma takeN_all n l : lenN l <= n -> takeN n l = l.
Proof. rewrite lenN_length, takeN_firstn. intros. apply firstn_all2. lia. Qed.
Lemma dropN_all n l : lenN l <= n -> dropN n l = [].
Proof. rewrite lenN_length, dropN_skipn. intros. apply skipn_all2. lia. Qed.
Lemma takeN_0 l : takeN 0 l = []. Proof. destruct l; reflexivity. Qed.
Lemma dropN_0 l : dropN 0 l = l. Proof. destruct l; reflexivity. Qed.
Lemma takeN_dropN n l : takeN n l ++ dropN n l = l.
Proof. rewrite takeN_firstn, dropN_skipn. apply firstn_skipn. Qed.

Lemma takeN_app_l n l1 l2 : n <= lenN l1 -> takeN n (l1 ++ l2) = takeN n l1.
Proof.
  rewrite lenN_length, !takeN_firstn. intros. rewrite firstn_app.
  replace (N.to_nat n - length l1)%nat with O by lia. cbn. apply app_nil_r.
Qed.
Lemma takeN_app_r n l1 l2 : lenN l1 <= n -> takeN n (l1 ++ l2) = l1 ++ takeN (n - lenN l1) l2.
Proof.
  rewrite lenN_length, !takeN_firstn. intros. rewrite firstn_app, firstn_all2 by lia.
  f_equal. f_equal. lia.
Qed.
Lemma takeN_app_exact l1 l2 : takeN (lenN l1) (l1 ++ l2) = l1.
Proof. rewrite takeN_app_l by lia. apply takeN_all. lia. Qed.
Lemma dropN_app_l n l1 l2 : n <= lenN l1 -> dropN n (l1 ++ l2) = dropN n l1 ++ l2.
Proof.
  rewrite lenN_length, !dropN_skipn. intros. rewrite skipn_app.
  replace (N.to_nat n - length l1)%nat with O by lia. reflexivity.
Qed.
Lemma dropN_app_r n l1 l2 : lenN l1 <= n -> dropN n (l1 ++ l2) = dropN (n - lenN l1) l2.
Proof.
  rewrite lenN_length, !dropN_skipn. intros. rewrite skipn_app, skipn_all2 by lia.
  cbn. f_equal. lia.
Qed.
Lemma dropN_app_exact l1 l2 : dropN (lenN l1) (l1 ++ l2) = l2.
Proof. rewrite dropN_app_r by lia. rewrite N.sub_diag. apply dropN_0. Qed.

Lemma skipn_skipn' : forall (x y : nat) l, skipn x (skipn y l) = skipn (y + x) l.
Proof.
  intros x y; revert x; induction y as [|y IH]; intros x l; [reflexivity|].
  destruct l; cbn [skipn plus]; [destruct x; reflexivity|apply IH].
Qed.
Lemma dropN_dropN a b l : dropN a (dropN b l) = dropN (b + a) l.
Proof. rewrite !dropN_skipn, skipn_skipn'. f_equal. lia. Qed.
Lemma takeN_takeN a b l : takeN a (takeN b l) = takeN (N.min a b) l.
Proof. rewrite !takeN_firstn, firstn_firstn. f_equal. lia. Qed.
Lemma dropN_takeN a b l : dropN a (takeN b l) = takeN (b - a) (dropN a l).
Proof.
  rewrite !takeN_firstn, !dropN_skipn. rewrite skipn_firstn_comm. f_equal. lia.
Qed.

Lemma sliceN_0 l len : sliceN l 0 len = takeN len l.
Proof. unfold sliceN. rewrite dropN_0. reflexivity. Qed.
Lemma sliceN_sliceN l a n b m : b + m <= n -> sliceN (sliceN l a n) b m = sliceN l (a + b) m.
Proof.
  intros. unfold sliceN. rewrite dropN_takeN, takeN_takeN, dropN_dropN. f_equal. lia.
Qed.
Lemma sliceN_takeN l k a n : a + n <= k -> sliceN (takeN k l) a n = sliceN l a n.
Proof. intros. unfold sliceN. rewrite dropN_takeN, takeN_takeN. f_equal. lia. Qed.
Lemma sliceN_dropN l k a n : sliceN (dropN k l) a n = sliceN l (k + a) n.
Proof. unfold sliceN. rewrite dropN_dropN. reflexivity. Qed.
Lemma sliceN_app_l l1 l2 a n : a + n <= lenN l1 -> sliceN (l1 ++ l2) a n = sliceN l1 a n.
Proof.
  intros. unfold sliceN. rewrite dropN_app_l by lia. apply takeN_app_l. rewrite lenN_dropN. lia.
Qed.
Lemma firstn_add' : forall (n m : nat) l, firstn (n + m) l = firstn n l ++ firstn m (skipn n l).
Proof.
  induction n as [|n IH]; intros m l; [reflexivity|].
  destruct l; cbn [firstn skipn plus app]; [destruct m; reflexivity|]. rewrite IH. reflexivity.
Qed.
Lemma sliceN_split l a n m : sliceN l a (n + m) = sliceN l a n ++ sliceN l (a + n) m.
Proof.
  unfold sliceN. rewrite <- dropN_dropN. rewrite !takeN_firstn, !dropN_skipn.
  replace (N.to_nat (n + m)) with (N.to_nat n + N.to_nat m)%nat by lia. apply firstn_add'.
Qed.
Lemma sliceN_full l : sliceN l 0 (lenN l) = l.
Proof. rewrite sliceN_0. apply takeN_all. lia. Qed.
End ListN.

Lemma lenN_zerosN n : lenN (zerosN n) = n.
Proof.
  unfold zerosN. induction n using N.peano_ind; [reflexivity|].
  rewrite N.iter_succ, lenN_cons. lia.
Qed.

Lemma idx_some l a b : a <= b -> b <= lenN l -> idx l a b = Some (sliceN l a (b - a)).
Proof.
  intros. unfold idx. destruct (N.leb_spec a b); [|lia]. destruct (N.leb_spec b (lenN l)); [|lia]. reflexivity.
Qed.
Lemma idx_inv l a b r : idx l a b = Some r -> a <= b /\ b <= lenN l /\ r = sliceN l a (b - a).
Proof.
  unfold idx. destruct (N.leb_spec a b); [|discriminate]. destruct (N.leb_spec b (lenN l)); [|discriminate].
  intros [= <-]. auto.
Qed.

(** * little-endian words *)
Lemma le32_len x : lenN (le32 x) = 4. Proof. reflexivity. Qed.
Lemma le32_bytes x : all_bytes (le32 x).
Proof. unfold le32, all_bytes, is_byte. repeat constructor; apply N.mod_lt; lia. Qed.
Lemma of_le32_le32 x rest : of_le32 (le32 x ++ rest) = x mod 2^32.
Proof. unfold le32, of_le32. cbn [app]. change (2^32) with 4294967296. lia. Qed.
Lemma of_le32_le32' x : of_le32 (le32 x) = x mod 2^32.
Proof. rewrite <- (app_nil_r (le32 x)). apply of_le32_le32. Qed.

Lemma of_le32_inj a b : all_bytes a -> all_bytes b -> lenN a = 4 -> lenN b = 4 -> of_le32 a = of_le32 b -> a = b.
Proof.
  intros Ha Hb La Lb. rewrite lenN_length in *.
  destruct a as [|a0 [|a1 [|a2 [|a3 [|]]]]]; cbn in La; try lia.
  destruct b as [|b0 [|b1 [|b2 [|b3 [|]]]]]; cbn in Lb; try lia.
  unfold all_bytes, is_byte in *.
  repeat match goal with H : Forall _ (_ :: _) |- _ => inversion H; clear H; subst end.
  cbn [of_le32]. intros E. repeat f_equal; lia.
Qed.

Lemma le32_of_le32 a : all_bytes a -> lenN a = 4 -> le32 (of_le32 a) = a.
Proof.
  intros Ha La. apply of_le32_inj; [apply le32_bytes|assumption|reflexivity|assumption|].
  rewrite of_le32_le32'. apply N.mod_small.
  rewrite lenN_length in La. destruct a as [|a0 [|a1 [|a2 [|a3 [|]]]]]; cbn in La; try lia.
  unfold all_bytes, is_byte in *.
  repeat match goal with H : Forall _ (_ :: _) |- _ => inversion H; clear H; subst end.
  cbn [of_le32]. change (2^32) with 4294967296. lia.
Qed.

Lemma all_zero_app a b : all_zero (a ++ b) = all_zero a && all_zero b.
Proof. unfold all_zero. apply forallb_app. Qed.
Lemma all_zero_le32 x : all_zero (le32 x) = (x mod 2^32 =? 0).
Proof.
  unfold all_zero, le32. cbn [forallb]. change (2^32) with 4294967296.
  destruct (N.eqb_spec (x mod 4294967296) 0) as [E|E].
  - replace (x mod 256) with 0 by lia. replace ((x / 256) mod 256) with 0 by lia.
    replace ((x / 65536) mod 256) with 0 by lia. replace ((x / 16777216) mod 256) with 0 by lia. reflexivity.
  - destruct (N.eqb_spec 0 (x mod 256)); [|reflexivity].
    destruct (N.eqb_spec 0 ((x / 256) mod 256)); [|reflexivity].
    destruct (N.eqb_spec 0 ((x / 65536) mod 256)); [|reflexivity].
    destruct (N.eqb_spec 0 ((x / 16777216) mod 256)); [|reflexivity]. lia.
Qed.

(** * every read path computes [decode_view] *)
Section Paths.
Variable H : N.
Variable decompress : list N -> option (list N).

Lemma check_decode_eq lb crc comp plen hdr sd :
  check_decode decompress lb crc comp plen hdr sd = check_spec decompress lb crc comp plen hdr sd.
Proof.
  unfold check_decode, check_spec. destruct (crc =? _); [|reflexivity]. destruct comp; [|reflexivity].
  destruct (N.ltb_spec (lenN sd) 4); [reflexivity|].
  rewrite (idx_some sd 0 4) by lia. rewrite (idx_some sd 4 (lenN sd)) by lia.
  replace (sliceN sd 4 (lenN sd - 4)) with (dropN 4 sd); [reflexivity|].
  unfold sliceN. symmetry. apply takeN_all. rewrite lenN_dropN. lia.
Qed.

(* the two index expressions that split a payload never fail once H <= payload length *)
Lemma payload_split p n : lenN p = n -> H <= n ->
  idx p 0 H = Some (takeN H p) /\ idx p H n = Some (dropN H p).
Proof.
  intros Hl Hn. clear decompress. split.
  - rewrite idx_some by lia. rewrite N.sub_0_r, sliceN_0. reflexivity.
  - rewrite idx_some by lia. f_equal. unfold sliceN. apply takeN_all. rewrite lenN_dropN. lia.
Qed.

Lemma split_payload_eq lb crc comp plen p : H <= lenN p ->
  split_payload H decompress lb crc comp plen p = check_spec decompress lb crc comp plen (takeN H p) (dropN H p).
Proof.
  intros Hp. unfold split_payload. destruct (payload_split p (lenN p) eq_refl Hp) as [-> ->].
  apply check_decode_eq.
Qed.

(** parse_record reads exactly the view from [off] *)
Theorem parse_record_full_eq bs off :
  parse_record_full H decompress bs off = decode_view H decompress (dropN off bs).
Proof.
  unfold parse_record_full, decode_view. rewrite lenN_dropN. change RECORD_HEAD with 8.
  destruct (N.ltb_spec (lenN bs - off) 8); [reflexivity|].
  rewrite (idx_some bs off (off + 8)) by lia. replace (off + 8 - off) with 8 by lia.
  rewrite sliceN_dropN, N.add_0_r.
  destruct (all_zero (sliceN bs off 8)); [reflexivity|].
  rewrite (idx_some (sliceN bs off 8) 0 4) by (rewrite ?lenN_sliceN; lia).
  rewrite (idx_some (sliceN bs off 8) 4 8) by (rewrite ?lenN_sliceN; lia).
  change (4 - 0) with 4. change (8 - 4) with 4.
  rewrite !sliceN_sliceN by lia. rewrite !sliceN_dropN. rewrite !N.add_0_r.
  set (lw := of_le32 (sliceN bs off 4)). set (plen := lw mod COMPRESSION_FLAG).
  destruct (N.ltb_spec (lenN bs) (off + 8 + plen)); destruct (N.ltb_spec (lenN bs - off) (8 + plen)); try lia; [reflexivity|].
  destruct (N.ltb_spec plen H); [reflexivity|].
  rewrite (idx_some bs (off + 8) (off + 8 + plen)) by lia. replace (off + 8 + plen - (off + 8)) with plen by lia.
  apply split_payload_eq. rewrite lenN_sliceN. lia.
Qed.

(* the bytes a reader may look at: the flushed prefix of the file, from the record start *)

Lemma lenN_view file flushed off : flushed <= lenN file -> lenN (view file flushed off) = flushed - off.
Proof. intros. unfold view. rewrite lenN_dropN, lenN_takeN. lia. Qed.

Lemma sliceN_view file flushed off a n : off + a + n <= flushed ->
  sliceN (view file flushed off) a n = sliceN file (off + a) n.
Proof. intros. unfold view. rewrite sliceN_dropN. apply sliceN_takeN. lia. Qed.

Lemma read_exact_at_some file off len : off + len <= lenN file -> read_exact_at file off len = Some (sliceN file off len).
Proof. intros. unfold read_exact_at. destruct (N.leb_spec (off + len) (lenN file)); [reflexivity|lia]. Qed.

Theorem read_random_eq file flushed off : flushed <= lenN file ->
  read_random H decompress file flushed off = decode_view H decompress (view file flushed off).
Proof.
  intros Hf. unfold read_random, decode_view. rewrite lenN_view by assumption. change RECORD_HEAD with 8.
  change (8 + OPTIMISTIC_DATA_SIZE) with 2056. change OPTIMISTIC_DATA_SIZE with 2048. change FALLBACK_BUF_SIZE with 4096.
  destruct (N.ltb_spec (flushed - off) 8); [reflexivity|].
  set (optlen := N.min 2056 (flushed - off)).
  rewrite read_exact_at_some by lia.
  rewrite (idx_some (sliceN file off optlen) 0 8) by (rewrite ?lenN_sliceN; lia). change (8 - 0) with 8.
  rewrite sliceN_sliceN by lia. rewrite !sliceN_view by lia. rewrite !N.add_0_r.
  destruct (all_zero (sliceN file off 8)); [reflexivity|].
  rewrite (idx_some (sliceN file off 8) 0 4) by (rewrite ?lenN_sliceN; lia).
  rewrite (idx_some (sliceN file off 8) 4 8) by (rewrite ?lenN_sliceN; lia).
  change (4 - 0) with 4. change (8 - 4) with 4. rewrite !sliceN_sliceN by lia. rewrite N.add_0_r.
  set (lb := sliceN file off 4). set (lw := of_le32 lb). set (plen := lw mod COMPRESSION_FLAG).
  set (crc := of_le32 (sliceN file (off + 4) 4)). set (comp := COMPRESSION_FLAG <=? lw).
  destruct (N.ltb_spec flushed (off + 8 + plen)); destruct (N.ltb_spec (flushed - off) (8 + plen)); try lia; [reflexivity|].
  destruct (N.ltb_spec plen H); [reflexivity|].
  rewrite sliceN_view by lia.
  set (p := sliceN file (off + 8) plen).
  assert (Hp : lenN p = plen) by (unfold p; rewrite lenN_sliceN; lia).
  destruct (N.leb_spec plen 2048); [destruct (N.leb_spec (8 + plen) optlen)|]; cbn [andb].
  - (* optimistic *)
    unfold path_optimistic. change RECORD_HEAD with 8.
    rewrite (idx_some (sliceN file off optlen) 8 (8 + plen)) by (rewrite ?lenN_sliceN; lia).
    replace (8 + plen - 8) with plen by lia. rewrite sliceN_sliceN by lia. fold p.
    destruct (payload_split p (lenN p) eq_refl ltac:(lia)) as [-> ->]. apply check_decode_eq.
  - unfold optlen in *. lia.
  - destruct (N.leb_spec plen 4096).
    + (* fallback *)
      unfold path_fallback. change RECORD_HEAD with 8. rewrite read_exact_at_some by lia. fold p.
      destruct (payload_split p plen Hp ltac:(lia)) as [-> ->]. apply check_decode_eq.
    + (* large *)
      unfold path_large. change RECORD_HEAD with 8. rewrite read_exact_at_some by lia. fold p.
      destruct (payload_split p (lenN p) eq_refl ltac:(lia)) as [_ ->]. apply check_decode_eq.
Qed.

(** the three random-read paths, each on its own, agree with the specification of the payload check *)
Theorem path_optimistic_eq ob lb crc comp plen : RECORD_HEAD + plen <= lenN ob -> H <= plen ->
  path_optimistic H decompress ob lb crc comp plen =
  check_spec decompress lb crc comp plen (takeN H (sliceN ob RECORD_HEAD plen)) (dropN H (sliceN ob RECORD_HEAD plen)).
Proof.
  intros Hl Hh. unfold path_optimistic. rewrite idx_some by lia.
  replace (RECORD_HEAD + plen - RECORD_HEAD) with plen by lia.
  set (p := sliceN ob RECORD_HEAD plen).
  assert (lenN p = plen) by (unfold p; rewrite lenN_sliceN; lia).
  destruct (payload_split p (lenN p) eq_refl ltac:(lia)) as [-> ->]. apply check_decode_eq.
Qed.
Theorem path_fallback_eq file off lb crc comp plen : off + RECORD_HEAD + plen <= lenN file -> H <= plen ->
  path_fallback H decompress file off lb crc comp plen =
  check_spec decompress lb crc comp plen (takeN H (sliceN file (off + RECORD_HEAD) plen)) (dropN H (sliceN file (off + RECORD_HEAD) plen)).
Proof.
  intros Hl Hh. unfold path_fallback. rewrite read_exact_at_some by lia.
  set (p := sliceN file (off + RECORD_HEAD) plen).
  assert (Hp : lenN p = plen) by (unfold p; rewrite lenN_sliceN; lia).
  destruct (payload_split p plen Hp Hh) as [-> ->]. apply check_decode_eq.
Qed.
Theorem path_large_eq file off lb crc comp plen : off + RECORD_HEAD + plen <= lenN file -> H <= plen ->
  path_large H decompress file off lb crc comp plen =
  check_spec decompress lb crc comp plen (takeN H (sliceN file (off + RECORD_HEAD) plen)) (dropN H (sliceN file (off + RECORD_HEAD) plen)).
Proof.
  intros Hl Hh. unfold path_large. rewrite read_exact_at_some by lia.
  set (p := sliceN file (off + RECORD_HEAD) plen).
  assert (Hp : lenN p = plen) by (unfold p; rewrite lenN_sliceN; lia).
  destruct (payload_split p (lenN p) eq_refl ltac:(lia)) as [_ ->]. apply check_decode_eq.
Qed.

(** ** the read-ahead buffer *)

Lemma coherent_empty file flushed : coherent file flushed ra_empty.
Proof. split; [left; reflexivity|]. cbn. rewrite sliceN_0, takeN_0. reflexivity. Qed.

Lemma round_up_ge x : x <= (x + (PAGE_SIZE - 1)) / PAGE_SIZE * PAGE_SIZE.
Proof. change (PAGE_SIZE - 1) with 4095. change PAGE_SIZE with 4096. lia. Qed.

Lemma ra_fill_ok file flushed off len : flushed <= lenN file -> off + len <= flushed ->
  let ra' := ra_fill file flushed off len in
  coherent file flushed ra' /\ ra_off ra' <= off /\ off + len <= ra_end ra'.
Proof.
  intros Hf Hl. unfold ra_fill. cbv zeta.
  set (o := off - off mod READ_AHEAD_SIZE).
  set (req := (N.max (off + len - o) READ_AHEAD_SIZE + (PAGE_SIZE - 1)) / PAGE_SIZE * PAGE_SIZE).
  set (limit := N.min req (flushed - o)).
  assert (Ho : o <= off) by (unfold o; lia).
  assert (Hreq : off + len - o <= req).
  { unfold req. pose proof (round_up_ge (N.max (off + len - o) READ_AHEAD_SIZE)). lia. }
  assert (Hlen : lenN (sliceN file o limit) = limit) by (rewrite lenN_sliceN; unfold limit; lia).
  unfold coherent, ra_end. cbn [ra_off ra_bytes]. rewrite Hlen.
  split; [split; [right; unfold limit; lia|reflexivity]|]. split; unfold limit; lia.
Qed.

Lemma ra_read_ok file flushed ra off len :
  flushed <= lenN file -> coherent file flushed ra -> off + len <= flushed ->
  exists ra', ra_read file flushed ra off len = (ra', ROk (sliceN file off len)) /\ coherent file flushed ra'.
Proof.
  intros Hf [Hc1 Hc2] Hl. unfold ra_read.
  destruct ((ra_off ra <=? off) && (off + len <=? ra_end ra)) eqn:Hhit.
  - exists ra. split; [|split; assumption].
    apply andb_prop in Hhit. destruct Hhit as [H1 H2]. apply N.leb_le in H1, H2. unfold ra_end in *.
    rewrite idx_some by lia. replace (off - ra_off ra + len - (off - ra_off ra)) with len by lia.
    rewrite Hc2. rewrite sliceN_sliceN by lia. do 3 f_equal. lia.
  - destruct (ra_fill_ok file flushed off len Hf Hl) as [Hco [Ho He]].
    set (ra' := ra_fill file flushed off len) in *. exists ra'. split; [|exact Hco].
    destruct (N.ltb_spec off (ra_off ra')); [lia|]. destruct (N.ltb_spec (ra_end ra') (off + len)); [lia|].
    cbn [orb]. destruct Hco as [Hc1' Hc2']. unfold ra_end in *.
    rewrite idx_some by lia. replace (off - ra_off ra' + len - (off - ra_off ra')) with len by lia.
    rewrite Hc2'. rewrite sliceN_sliceN by lia. do 3 f_equal. lia.
Qed.

Theorem read_seq_eq file flushed ra off : flushed <= lenN file -> coherent file flushed ra ->
  exists ra', read_seq H decompress file flushed ra off = (ra', decode_view H decompress (view file flushed off))
              /\ coherent file flushed ra'.
Proof.
  intros Hf Hc. unfold read_seq, decode_view. rewrite lenN_view by assumption. change RECORD_HEAD with 8.
  destruct (N.ltb_spec (flushed - off) 8); [exists ra; split; [reflexivity|assumption]|].
  destruct (ra_read_ok file flushed ra off 8 Hf Hc ltac:(lia)) as (ra1 & -> & Hc1).
  rewrite (idx_some (sliceN file off 8) 0 8) by (rewrite ?lenN_sliceN; lia). change (8 - 0) with 8.
  rewrite sliceN_sliceN by lia. rewrite !sliceN_view by lia. rewrite !N.add_0_r.
  destruct (all_zero (sliceN file off 8)); [exists ra1; split; [reflexivity|assumption]|].
  rewrite (idx_some (sliceN file off 8) 0 4) by (rewrite ?lenN_sliceN; lia).
  rewrite (idx_some (sliceN file off 8) 4 8) by (rewrite ?lenN_sliceN; lia).
  change (4 - 0) with 4. change (8 - 4) with 4. rewrite !sliceN_sliceN by lia. rewrite N.add_0_r.
  set (lb := sliceN file off 4). set (lw := of_le32 lb). set (plen := lw mod COMPRESSION_FLAG).
  destruct (N.ltb_spec flushed (off + 8 + plen)); destruct (N.ltb_spec (flushed - off) (8 + plen)); try lia;
    [exists ra1; split; [reflexivity|assumption]|].
  destruct (N.ltb_spec plen H); [exists ra1; split; [reflexivity|assumption]|].
  destruct (ra_read_ok file flushed ra1 (off + 8) plen Hf Hc1 ltac:(lia)) as (ra2 & -> & Hc2).
  exists ra2. split; [|assumption]. f_equal. rewrite sliceN_view by lia.
  apply split_payload_eq. rewrite lenN_sliceN. lia.
Qed.

Corollary read_record_eq file flushed ra off seq : flushed <= lenN file -> coherent file flushed ra ->
  exists ra', read_record H decompress file flushed ra off seq = (ra', decode_view H decompress (view file flushed off))
              /\ coherent file flushed ra'.
Proof.
  intros Hf Hc. unfold read_record. destruct seq; [apply read_seq_eq; assumption|].
  exists ra. split; [|assumption]. f_equal. apply read_random_eq. assumption.
Qed.

End Paths.

(** * slices of concatenations *)
Lemma slice_at0 {A} (a r : list A) n : lenN a = n -> sliceN (a ++ r) 0 n = a.
Proof. intros <-. rewrite sliceN_0. apply takeN_app_exact. Qed.
Lemma slice_at1 {A} (a b r : list A) n m : lenN a = n -> lenN b = m -> sliceN (a ++ b ++ r) n m = b.
Proof. intros <- <-. unfold sliceN. rewrite dropN_app_exact. apply takeN_app_exact. Qed.
Lemma slice_at2 {A} (a b c r : list A) n m : lenN a + lenN b = n -> lenN c = m -> sliceN (a ++ b ++ c ++ r) n m = c.
Proof.
  intros <- <-. rewrite app_assoc. rewrite <- lenN_app. unfold sliceN. rewrite dropN_app_exact. apply takeN_app_exact.
Qed.

Lemma all_bytes_app a b : all_bytes (a ++ b) <-> all_bytes a /\ all_bytes b.
Proof. unfold all_bytes. apply Forall_app. Qed.
Lemma all_bytes_takeN n l : all_bytes l -> all_bytes (takeN n l).
Proof. intros Hl. rewrite <- (takeN_dropN n l) in Hl. apply all_bytes_app in Hl. tauto. Qed.
Lemma all_bytes_dropN n l : all_bytes l -> all_bytes (dropN n l).
Proof. intros Hl. rewrite <- (takeN_dropN n l) in Hl. apply all_bytes_app in Hl. tauto. Qed.

Lemma calculate_crc_bound lb hdr sd : all_bytes lb -> all_bytes hdr -> all_bytes sd -> calculate_crc lb hdr sd < 2^32.
Proof.
  intros. rewrite calculate_crc_eq. apply crc32_bound. apply all_bytes_app; split; [assumption|].
  apply all_bytes_app; split; assumption.
Qed.

Lemma crc_of_zero_len : calculate_crc (le32 0) [] [] <> 0.
Proof. vm_compute. discriminate. Qed.

(** * the record codec *)
Section Codec.
Variable H : N.
Variable compress : list N -> list N.
Variable decompress : list N -> option (list N).
Local Notation stored_record := (Seglog.stored_record H compress).
Local Notation stored_len := (Seglog.stored_len H compress).
Local Notation wf_rec := (Seglog.wf_rec H compress).
Local Notation valid_at := (Seglog.valid_at H decompress).

(* the shape of a stored record: 4 length bytes, 4 crc bytes, then the payload of the stated length *)

(* unfolding of decode_view on A ++ B ++ P ++ rest *)
Lemma decode_view_parts A B P rest :
  lenN A = 4 -> lenN B = 4 -> lenN P = of_le32 A mod COMPRESSION_FLAG ->
  decode_view H decompress (A ++ B ++ P ++ rest) =
  if all_zero (A ++ B) then RErr ETrunc
  else if lenN P <? H then RErr ECrc
  else check_spec decompress A (of_le32 B) (COMPRESSION_FLAG <=? of_le32 A) (lenN P) (takeN H P) (dropN H P).
Proof.
  intros HA HB HP. unfold decode_view. change RECORD_HEAD with 8.
  rewrite !lenN_app, HA, HB.
  destruct (N.ltb_spec (4 + (4 + (lenN P + lenN rest))) 8); [lia|].
  replace (sliceN (A ++ B ++ P ++ rest) 0 8) with (A ++ B).
  2:{ change 8 with (4 + 4). rewrite sliceN_split. rewrite slice_at0 by assumption.
      change (0 + 4) with 4. rewrite slice_at1 by assumption. reflexivity. }
  destruct (all_zero (A ++ B)); [reflexivity|].
  rewrite slice_at0 by assumption. rewrite slice_at1 by assumption. rewrite <- HP.
  destruct (N.ltb_spec (4 + (4 + (lenN P + lenN rest))) (8 + lenN P)); [lia|].
  destruct (N.ltb_spec (lenN P) H); [reflexivity|].
  rewrite (slice_at2 A B P rest 8 (lenN P)) by lia. reflexivity.
Qed.

(** ** round trip *)

Lemma lor_flag plen : plen < COMPRESSION_FLAG -> N.lor plen COMPRESSION_FLAG = plen + COMPRESSION_FLAG.
Proof.
  intros Hp. rewrite <- N.lxor_lor, <- N.add_nocarry_lxor; try reflexivity;
  apply N.bits_inj; intro n; rewrite N.land_spec, N.bits_0;
  (destruct (N.eq_dec n 31) as [->|Hn];
   [rewrite (lt_pow2_bits plen 31 Hp 31) by lia; reflexivity|]);
  change COMPRESSION_FLAG with (2^31); rewrite N.pow2_bits_false by lia; apply andb_false_r.
Qed.

Lemma head_not_zero plen flag hdr fd : plen = lenN hdr + lenN fd -> plen < COMPRESSION_FLAG ->
  all_bytes hdr -> all_bytes fd ->
  all_zero (le32 (lw_of plen flag) ++ le32 (calculate_crc (le32 (lw_of plen flag)) hdr fd)) = false.
Proof.
  intros Hp Hlt Hh Hf. rewrite all_zero_app, !all_zero_le32.
  assert (Hlw : lw_of plen flag < 2^32).
  { unfold lw_of. change COMPRESSION_FLAG with (2^31) in *. change (2^32) with (2^31 + 2^31). destruct flag; lia. }
  rewrite (N.mod_small _ _ Hlw).
  destruct (N.eqb_spec (lw_of plen flag) 0) as [E|E]; [|reflexivity]. cbn [andb].
  unfold lw_of in E. assert (plen = 0 /\ flag = false) as [-> ->].
  { destruct flag; [change COMPRESSION_FLAG with 2147483648 in E; lia|]. split; [lia|reflexivity]. }
  assert (hdr = []) as -> by (apply lenN_0; lia). assert (fd = []) as -> by (apply lenN_0; lia).
  unfold lw_of. cbn [N.add]. rewrite N.mod_small by (apply calculate_crc_bound; [apply le32_bytes|constructor|constructor]).
  apply N.eqb_neq. apply crc_of_zero_len.
Qed.

(* decoding what encode_record produced (with anything after it) *)
Theorem decode_encode plen flag hdr fd rest :
  lenN hdr = H -> plen = H + lenN fd -> plen < COMPRESSION_FLAG -> all_bytes hdr -> all_bytes fd ->
  decode_view H decompress (encode_record (lw_of plen flag) hdr fd ++ rest) =
  if flag then
    if lenN fd <? 4 then RErr EIo
    else match decompress (dropN 4 fd) with
         | Some d => ROk {| r_hdr := hdr; r_data := d; r_cdata := Some fd; r_len := RECORD_HEAD + plen |}
         | None => RErr EIo
         end
  else ROk {| r_hdr := hdr; r_data := fd; r_cdata := None; r_len := RECORD_HEAD + plen |}.
Proof.
  intros Hh Hp Hlt Hbh Hbf. unfold encode_record. cbv zeta.
  set (lw := lw_of plen flag). set (crc := calculate_crc (le32 lw) hdr fd).
  assert (Hlw : lw < 2^32).
  { unfold lw, lw_of. change COMPRESSION_FLAG with (2^31) in *. change (2^32) with (2^31 + 2^31). destruct flag; lia. }
  assert (Hmod : of_le32 (le32 lw) mod COMPRESSION_FLAG = plen /\ (COMPRESSION_FLAG <=? of_le32 (le32 lw)) = flag).
  { rewrite of_le32_le32', (N.mod_small _ _ Hlw). unfold lw, lw_of. change COMPRESSION_FLAG with 2147483648 in *.
    destruct flag; split; lia. }
  destruct Hmod as [Hm1 Hm2].
  replace ((le32 lw ++ le32 crc ++ hdr ++ fd) ++ rest) with (le32 lw ++ le32 crc ++ (hdr ++ fd) ++ rest)
    by (rewrite <- !app_assoc; reflexivity).
  rewrite decode_view_parts; try reflexivity; [|rewrite lenN_app, Hm1; lia].
  unfold lw, crc. rewrite head_not_zero by (try assumption; lia). fold lw crc.
  rewrite lenN_app. destruct (N.ltb_spec (lenN hdr + lenN fd) H); [lia|].
  rewrite <- Hh. rewrite takeN_app_exact, dropN_app_exact. rewrite Hm2.
  unfold check_spec. rewrite of_le32_le32'.
  rewrite N.mod_small by (apply calculate_crc_bound; [apply le32_bytes|assumption|assumption]).
  fold crc. rewrite N.eqb_refl. replace (lenN hdr + lenN fd) with plen by lia. reflexivity.
Qed.

(* what an append stores for (hdr, data): prepare_data, then encode_record *)




Lemma prepare_data_lw comp data : H + lenN (fst (prepare_data H compress comp data)) < COMPRESSION_FLAG ->
  snd (prepare_data H compress comp data) =
  lw_of (H + lenN (fst (prepare_data H compress comp data))) (is_compressed comp data).
Proof.
  unfold prepare_data, is_compressed, lw_of. destruct (comp && _); cbn [fst snd]; intros Hlt.
  - assert (H + lenN (le32 (lenN data) ++ compress data) < 2^32)
      by (change COMPRESSION_FLAG with (2^31) in Hlt; change (2^32) with (2^31 + 2^31); lia).
    rewrite N.mod_small by assumption. apply lor_flag. assumption.
  - rewrite N.add_0_r. apply N.mod_small. change COMPRESSION_FLAG with (2^31) in Hlt. change (2^32) with (2^31 + 2^31). lia.
Qed.

Lemma lenN_stored_record comp hdr data : lenN hdr = H -> lenN (stored_record comp hdr data) = stored_len comp data.
Proof.
  intros Hh. unfold stored_record, stored_len. destruct (prepare_data H compress comp data) as [fd lw]. cbn [fst].
  unfold encode_record. rewrite !lenN_app, !le32_len, Hh. change RECORD_HEAD with 8. lia.
Qed.

Section Stored.
Hypothesis dec_comp : forall x, decompress (compress x) = Some x.
Hypothesis comp_bytes : forall x, all_bytes x -> all_bytes (compress x).

Theorem decode_stored comp hdr data rest : wf_rec comp hdr data ->
  decode_view H decompress (stored_record comp hdr data ++ rest) =
  ROk {| r_hdr := hdr; r_data := data;
         r_cdata := if is_compressed comp data then Some (fst (prepare_data H compress comp data)) else None;
         r_len := stored_len comp data |}.
Proof.
  intros (Hh & Hbh & Hbd & Hlt). unfold stored_record, stored_len.
  pose proof (prepare_data_lw comp data Hlt) as Hlw.
  assert (Hbf : all_bytes (fst (prepare_data H compress comp data))).
  { unfold prepare_data. destruct (comp && _); cbn [fst]; [|assumption].
    apply all_bytes_app. split; [apply le32_bytes|apply comp_bytes; assumption]. }
  assert (Hfd : fst (prepare_data H compress comp data) =
                if is_compressed comp data then le32 (lenN data) ++ compress data else data).
  { unfold prepare_data, is_compressed. destruct (comp && _); reflexivity. }
  destruct (prepare_data H compress comp data) as [fd lw]. cbn [fst snd] in *. subst lw.
  rewrite (decode_encode (H + lenN fd) (is_compressed comp data) hdr fd rest Hh eq_refl Hlt Hbh Hbf).
  destruct (is_compressed comp data); subst fd.
  - rewrite lenN_app, le32_len. destruct (N.ltb_spec (4 + lenN (compress data)) 4); [lia|].
    change 4 with (lenN (le32 (lenN data))) at 1. rewrite dropN_app_exact, dec_comp.
    change RECORD_HEAD with 8. do 2 f_equal. lia.
  - change RECORD_HEAD with 8. do 2 f_equal. lia.
Qed.
End Stored.

(** ** corruption *)
(* what a valid record is, without reference to how it was produced *)

Lemma valid_crc A B P rest r : valid_at A B P rest r ->
  all_zero (A ++ B) = false /\ H <= lenN P /\ of_le32 B = crc32 (A ++ P).
Proof.
  intros [(HA & HB & _ & _ & _ & HP) Hd]. rewrite decode_view_parts in Hd by assumption.
  destruct (all_zero (A ++ B)); [discriminate|].
  destruct (N.ltb_spec (lenN P) H); [discriminate|].
  unfold check_spec in Hd. destruct (N.eqb_spec (of_le32 B) (calculate_crc A (takeN H P) (dropN H P))) as [E|E]; [|discriminate].
  rewrite calculate_crc_eq, takeN_dropN in E. auto.
Qed.

Lemma xor_bytes_lenN m e : length m = length e -> lenN (xor_bytes m e) = lenN m.
Proof. intros. rewrite !lenN_length, xor_bytes_length by assumption. reflexivity. Qed.

Lemma crc32_prefix_burst A P e : all_bytes A -> all_bytes P -> all_bytes e -> length P = length e -> burst32 e ->
  crc32 (A ++ xor_bytes P e) <> crc32 (A ++ P).
Proof.
  intros HA HP He Hl Hb E. unfold crc32 in E. apply lxor_inj_r in E. rewrite !crc_update_app in E.
  revert E. apply crc_update_burst; try assumption. apply crc_update_bound; [assumption|reflexivity].
Qed.

(** any non-zero error confined to <= 32 consecutive bits of header+data: reported as a CRC mismatch *)
Theorem burst_in_payload_detected A B P rest r e :
  valid_at A B P rest r -> all_bytes e -> length P = length e -> burst32 e ->
  decode_view H decompress (A ++ B ++ xor_bytes P e ++ rest) = RErr ECrc.
Proof.
  intros Hv He Hl Hb. destruct (valid_crc _ _ _ _ _ Hv) as (Hz & HH & Hc).
  destruct Hv as [(HA & HB & HbA & HbB & HbP & HP) _].
  rewrite decode_view_parts; try assumption; [|rewrite xor_bytes_lenN by assumption; assumption].
  rewrite Hz, xor_bytes_lenN by assumption. destruct (N.ltb_spec (lenN P) H); [reflexivity|].
  unfold check_spec. rewrite calculate_crc_eq, takeN_dropN, Hc.
  destruct (N.eqb_spec (crc32 (A ++ P)) (crc32 (A ++ xor_bytes P e))) as [E|E]; [|reflexivity].
  exfalso. symmetry in E. revert E. apply crc32_prefix_burst; assumption.
Qed.

(** any change of the stored CRC field alone: CRC mismatch (or, when the 8 head bytes become all zero, the
    truncation marker) *)
Theorem crc_field_change_detected A B B' P rest r :
  valid_at A B P rest r -> all_bytes B' -> lenN B' = 4 -> B' <> B ->
  decode_view H decompress (A ++ B' ++ P ++ rest) = RErr ECrc \/
  decode_view H decompress (A ++ B' ++ P ++ rest) = RErr ETrunc.
Proof.
  intros Hv Hb' Hl' Hne. destruct (valid_crc _ _ _ _ _ Hv) as (Hz & HH & Hc).
  destruct Hv as [(HA & HB & HbA & HbB & HbP & HP) _].
  rewrite decode_view_parts by assumption.
  destruct (all_zero (A ++ B')); [right; reflexivity|left].
  destruct (N.ltb_spec (lenN P) H); [reflexivity|].
  unfold check_spec. rewrite calculate_crc_eq, takeN_dropN, <- Hc.
  destruct (N.eqb_spec (of_le32 B') (of_le32 B)) as [E|E]; [|reflexivity].
  exfalso. apply Hne. apply of_le32_inj; assumption.
Qed.

(** a flip of the compression flag (bit 31 of the length word), alone or together with a change of
    header/data such that the whole error is a <= 32-bit burst of the CRC-covered message *)
Lemma xor_bytes_app a a' b b' : length a = length a' -> xor_bytes (a ++ b) (a' ++ b') = xor_bytes a a' ++ xor_bytes b b'.
Proof.
  revert a'. induction a as [|x a IH]; intros [|y a'] Hl; try discriminate; [reflexivity|].
  cbn. rewrite IH by (injection Hl; auto). reflexivity.
Qed.

Theorem flag_flip_detected A B P rest r e :
  valid_at A B P rest r -> all_bytes e -> length P = length e -> burst32 ([0;0;0;128] ++ e) ->
  let A' := xor_bytes A [0;0;0;128] in
  decode_view H decompress (A' ++ B ++ xor_bytes P e ++ rest) = RErr ECrc \/
  decode_view H decompress (A' ++ B ++ xor_bytes P e ++ rest) = RErr ETrunc.
Proof.
  intros Hv He Hl Hb A'. destruct (valid_crc _ _ _ _ _ Hv) as (Hz & HH & Hc).
  destruct Hv as [(HA & HB & HbA & HbB & HbP & HP) _].
  assert (HlA : length A = 4%nat) by (rewrite lenN_length in HA; lia).
  assert (HA' : lenN A' = 4) by (unfold A'; rewrite xor_bytes_lenN; assumption).
  assert (HbA' : all_bytes A').
  { apply xor_bytes_all_bytes; [assumption|]. unfold all_bytes, is_byte. repeat constructor; lia. }
  assert (Hplen : of_le32 A' mod COMPRESSION_FLAG = of_le32 A mod COMPRESSION_FLAG).
  { unfold A'. destruct A as [|a0 [|a1 [|a2 [|a3 [|]]]]]; cbn in HlA; try lia. cbn [xor_bytes of_le32].
    rewrite !N.lxor_0_r. unfold all_bytes, is_byte in HbA.
    repeat match goal with H : Forall _ (_ :: _) |- _ => inversion H; clear H; subst end.
    assert (Hx : N.lxor a3 128 = a3 + 128 \/ (128 <= a3 /\ N.lxor a3 128 = a3 - 128)).
    { clear - H5. assert (Hc : a3 < 128 \/ 128 <= a3) by lia. destruct Hc as [Hc|Hc].
      - left. change 128 with (2^7) in *. symmetry. apply N.add_nocarry_lxor.
        apply N.bits_inj; intro n; rewrite N.land_spec, N.bits_0.
        destruct (N.eq_dec n 7) as [->|Hn]; [rewrite (lt_pow2_bits a3 7 Hc 7) by lia; reflexivity|].
        rewrite N.pow2_bits_false by lia; apply andb_false_r.
      - right. split; [assumption|]. replace a3 with ((a3 - 128) + 128) at 1 by lia.
        assert (Hd : a3 - 128 < 2^7) by (change (2^7) with 128; lia).
        change 128 with (2^7) at 2 3.
        rewrite (N.add_nocarry_lxor (a3 - 128) (2^7)).
        + rewrite N.lxor_assoc, N.lxor_nilpotent, N.lxor_0_r. reflexivity.
        + apply N.bits_inj; intro n; rewrite N.land_spec, N.bits_0.
          destruct (N.eq_dec n 7) as [->|Hn]; [rewrite (lt_pow2_bits _ 7 Hd 7) by lia; reflexivity|].
          rewrite N.pow2_bits_false by lia. apply andb_false_r. }
    change COMPRESSION_FLAG with 2147483648. destruct Hx as [-> | [? ->]]; lia. }
  rewrite decode_view_parts; try assumption; [|rewrite xor_bytes_lenN by assumption; rewrite Hplen; assumption].
  destruct (all_zero (A' ++ B)); [right; reflexivity|left].
  rewrite xor_bytes_lenN by assumption. destruct (N.ltb_spec (lenN P) H); [reflexivity|].
  unfold check_spec. rewrite calculate_crc_eq, takeN_dropN, Hc.
  destruct (N.eqb_spec (crc32 (A ++ P)) (crc32 (A' ++ xor_bytes P e))) as [E|E]; [|reflexivity].
  exfalso. symmetry in E. unfold A' in E. rewrite <- xor_bytes_app in E by (rewrite HlA; reflexivity).
  revert E. apply crc32_burst.
  - apply all_bytes_app; split; assumption.
  - apply all_bytes_app; split; [|assumption]. unfold all_bytes, is_byte. repeat constructor; lia.
  - rewrite !app_length, HlA, Hl. reflexivity.
  - exact Hb.
Qed.

(** ** truncation: fewer bytes than the record has => a bounds outcome, never data *)
Theorem truncated_view v r k : decode_view H decompress v = ROk r -> k < r_len r ->
  decode_view H decompress (takeN k v) = RErr (EOob (if k <? RECORD_HEAD then RECORD_HEAD else r_len r)).
Proof.
  unfold decode_view. change RECORD_HEAD with 8. intros Hd Hk.
  destruct (N.ltb_spec (lenN v) 8); [discriminate|].
  rewrite lenN_takeN.
  destruct (N.ltb_spec (N.min k (lenN v)) 8); [destruct (N.ltb_spec k 8); [reflexivity|lia]|].
  destruct (N.ltb_spec k 8); [lia|].
  rewrite !sliceN_takeN by lia.
  destruct (all_zero (sliceN v 0 8)); [discriminate|].
  set (plen := of_le32 (sliceN v 0 4) mod COMPRESSION_FLAG) in *.
  destruct (N.ltb_spec (lenN v) (8 + plen)); [discriminate|].
  destruct (N.ltb_spec plen H); [discriminate|].
  assert (r_len r = 8 + plen).
  { unfold check_spec in Hd. destruct (_ =? _); [|discriminate]. destruct (_ <=? _).
    - destruct (_ <? _); [discriminate|]. destruct (decompress _); [|discriminate]. injection Hd as <-. reflexivity.
    - injection Hd as <-. reflexivity. }
  destruct (N.ltb_spec (N.min k (lenN v)) (8 + plen)); [congruence|lia].
Qed.

(** ** no panic, whatever the input *)
Lemma check_spec_no_panic lb crc comp plen hdr sd : check_spec decompress lb crc comp plen hdr sd <> RPanic.
Proof.
  unfold check_spec. destruct (_ =? _); [|discriminate]. destruct comp; [|discriminate].
  destruct (_ <? _); [discriminate|]. destruct (decompress _); discriminate.
Qed.
Lemma decode_view_no_panic v : decode_view H decompress v <> RPanic.
Proof.
  unfold decode_view. destruct (_ <? _); [discriminate|]. destruct (all_zero _); [discriminate|].
  destruct (_ <? _); [discriminate|]. destruct (_ <? _); [discriminate|]. apply check_spec_no_panic.
Qed.

Theorem parse_record_total bs off : parse_record H decompress bs off <> RPanic.
Proof.
  unfold parse_record. rewrite parse_record_full_eq.
  destruct (decode_view H decompress (dropN off bs)) eqn:E; unfold res_map; [discriminate|discriminate|].
  exfalso. exact (decode_view_no_panic _ E).
Qed.

Lemma check_decode_no_panic lb crc comp plen hdr sd : check_decode decompress lb crc comp plen hdr sd <> RPanic.
Proof. rewrite check_decode_eq. apply check_spec_no_panic. Qed.

Lemma split_payload_no_panic lb crc comp plen p : H <= lenN p -> split_payload H decompress lb crc comp plen p <> RPanic.
Proof. intros. rewrite split_payload_eq by assumption. apply check_spec_no_panic. Qed.

Lemma read_exact_at_inv file off len b : read_exact_at file off len = Some b ->
  off + len <= lenN file /\ b = sliceN file off len /\ lenN b = len.
Proof.
  unfold read_exact_at. destruct (N.leb_spec (off + len) (lenN file)); [|discriminate].
  intros [= <-]. rewrite lenN_sliceN. repeat split; lia.
Qed.

(* for every file, every flushed value and every offset — no relation between them assumed *)
Theorem read_random_total file flushed off : read_random H decompress file flushed off <> RPanic.
Proof.
  unfold read_random. change RECORD_HEAD with 8. change (8 + OPTIMISTIC_DATA_SIZE) with 2056.
  change OPTIMISTIC_DATA_SIZE with 2048. change FALLBACK_BUF_SIZE with 4096.
  destruct (N.ltb_spec (flushed - off) 8); [discriminate|].
  set (optlen := N.min 2056 (flushed - off)).
  destruct (read_exact_at file off optlen) as [ob|] eqn:Hr; [|discriminate].
  apply read_exact_at_inv in Hr. destruct Hr as (Hr1 & -> & Hr3).
  rewrite (idx_some _ 0 8) by lia. change (8 - 0) with 8.
  destruct (all_zero _); [discriminate|].
  rewrite (idx_some (sliceN _ 0 8) 0 4) by (rewrite ?lenN_sliceN; lia).
  rewrite (idx_some (sliceN _ 0 8) 4 8) by (rewrite ?lenN_sliceN; lia).
  set (plen := _ mod COMPRESSION_FLAG). set (lb := sliceN _ 0 (4 - 0)). set (crc := of_le32 _). set (comp := _ <=? _).
  destruct (N.ltb_spec flushed (off + 8 + plen)); [discriminate|].
  destruct (N.ltb_spec plen H); [discriminate|].
  destruct (N.leb_spec plen 2048); [destruct (N.leb_spec (8 + plen) optlen)|]; cbn [andb].
  - unfold path_optimistic. change RECORD_HEAD with 8.
    rewrite (idx_some _ 8 (8 + plen)) by lia. replace (8 + plen - 8) with plen by lia.
    set (p := sliceN _ 8 plen). assert (Hp : lenN p = plen) by (unfold p; rewrite !lenN_sliceN; lia).
    destruct (payload_split H p (lenN p) eq_refl ltac:(lia)) as [-> ->]. apply check_decode_no_panic.
  - destruct (N.leb_spec plen 4096); [|lia].
    unfold path_fallback. destruct (read_exact_at _ _ _) as [fb|] eqn:Hfb; [|discriminate].
    apply read_exact_at_inv in Hfb. destruct Hfb as (_ & _ & Hl).
    destruct (payload_split H fb plen Hl ltac:(lia)) as [-> ->]. apply check_decode_no_panic.
  - destruct (N.leb_spec plen 4096).
    + unfold path_fallback. destruct (read_exact_at _ _ _) as [fb|] eqn:Hfb; [|discriminate].
      apply read_exact_at_inv in Hfb. destruct Hfb as (_ & _ & Hl).
      destruct (payload_split H fb plen Hl ltac:(lia)) as [-> ->]. apply check_decode_no_panic.
    + unfold path_large. destruct (read_exact_at _ _ _) as [fb|] eqn:Hfb; [|discriminate].
      apply read_exact_at_inv in Hfb. destruct Hfb as (_ & _ & Hl).
      destruct (payload_split H fb (lenN fb) eq_refl ltac:(lia)) as [_ ->]. apply check_decode_no_panic.
Qed.

(* the read-ahead buffer never indexes out of range, whatever it holds *)
Lemma ra_read_total file flushed ra off len :
  match snd (ra_read file flushed ra off len) with
  | ROk b => lenN b = len | RErr _ => True | RPanic => False end.
Proof.
  unfold ra_read.
  destruct ((ra_off ra <=? off) && (off + len <=? ra_end ra)) eqn:Hhit.
  - apply andb_prop in Hhit. destruct Hhit as [H1 H2]. apply N.leb_le in H1, H2. unfold ra_end in *. cbn [snd].
    rewrite idx_some by lia. rewrite lenN_sliceN. lia.
  - set (ra' := ra_fill file flushed off len).
    destruct (N.ltb_spec off (ra_off ra')); [exact I|]. destruct (N.ltb_spec (ra_end ra') (off + len)); [exact I|].
    cbn [orb snd]. unfold ra_end in *. rewrite idx_some by lia. rewrite lenN_sliceN. lia.
Qed.

Theorem read_seq_total file flushed ra off : snd (read_seq H decompress file flushed ra off) <> RPanic.
Proof.
  unfold read_seq. change RECORD_HEAD with 8.
  destruct (N.ltb_spec (flushed - off) 8); [discriminate|].
  pose proof (ra_read_total file flushed ra off 8) as Hq1.
  destruct (ra_read file flushed ra off 8) as [ra1 r1]. cbn [snd] in Hq1.
  destruct r1 as [hd0|e|]; [|discriminate|contradiction].
  rewrite (idx_some hd0 0 8) by lia. destruct (all_zero _); [discriminate|].
  rewrite (idx_some hd0 0 4) by lia. rewrite (idx_some hd0 4 8) by lia.
  set (plen := _ mod COMPRESSION_FLAG).
  destruct (N.ltb_spec flushed (off + 8 + plen)); [discriminate|].
  destruct (N.ltb_spec plen H); [discriminate|].
  pose proof (ra_read_total file flushed ra1 (off + 8) plen) as Hq2.
  destruct (ra_read file flushed ra1 (off + 8) plen) as [ra2 r2]. cbn [snd] in Hq2.
  destruct r2 as [p|e|]; [|discriminate|contradiction]. cbn [snd].
  apply split_payload_no_panic. lia.
Qed.

Theorem read_record_total file flushed ra off seq : snd (read_record H decompress file flushed ra off seq) <> RPanic.
Proof. unfold read_record. destruct seq; [apply read_seq_total|apply read_random_total]. Qed.

End Codec.

(** * pointwise reasoning about files *)
Definition nthN (l : list N) (i : N) : N := nth (N.to_nat i) l 0.

Lemma nthN_ext a b : lenN a = lenN b -> (forall i, i < lenN a -> nthN a i = nthN b i) -> a = b.
Proof.
  rewrite !lenN_length. intros Hl Hp. apply (nth_ext a b 0 0); [lia|].
  intros n Hn. specialize (Hp (N.of_nat n)). unfold nthN in Hp. rewrite Nat2N.id in Hp. apply Hp. lia.
Qed.
Lemma nthN_beyond l i : lenN l <= i -> nthN l i = 0.
Proof. rewrite lenN_length. intros. apply nth_overflow. lia. Qed.
Lemma nthN_app l1 l2 i : nthN (l1 ++ l2) i = if i <? lenN l1 then nthN l1 i else nthN l2 (i - lenN l1).
Proof.
  unfold nthN. rewrite lenN_length. destruct (N.ltb_spec i (N.of_nat (length l1))).
  - apply app_nth1. lia.
  - rewrite app_nth2 by lia. f_equal. lia.
Qed.
Lemma nth_firstn' : forall (n i : nat) (l : list N), nth i (firstn n l) 0 = if (i <? n)%nat then nth i l 0 else 0.
Proof.
  induction n as [|n IH]; intros i l.
  - cbn. destruct i; reflexivity.
  - destruct l as [|x l]; cbn [firstn]. { destruct i; cbn [nth]; destruct (Nat.ltb _ (S n)); reflexivity. }
    destruct i as [|i]; [reflexivity|]. cbn [nth]. rewrite IH. reflexivity.
Qed.
Lemma nth_skipn' : forall (n i : nat) (l : list N), nth i (skipn n l) 0 = nth (n + i) l 0.
Proof.
  induction n as [|n IH]; intros i l; [reflexivity|].
  destruct l as [|x l]; cbn [skipn plus nth]; [destruct i; reflexivity|apply IH].
Qed.
Lemma nthN_takeN n l i : nthN (takeN n l) i = if i <? n then nthN l i else 0.
Proof.
  unfold nthN. rewrite takeN_firstn, nth_firstn'.
  destruct (N.ltb_spec i n); destruct (Nat.ltb_spec (N.to_nat i) (N.to_nat n)); try lia; reflexivity.
Qed.
Lemma nthN_dropN n l i : nthN (dropN n l) i = nthN l (n + i).
Proof. unfold nthN. rewrite dropN_skipn, nth_skipn'. f_equal. lia. Qed.
Lemma nthN_sliceN l a n i : nthN (sliceN l a n) i = if i <? n then nthN l (a + i) else 0.
Proof. unfold sliceN. rewrite nthN_takeN, nthN_dropN. reflexivity. Qed.
Lemma nthN_zerosN n i : nthN (zerosN n) i = 0.
Proof.
  unfold zerosN. revert i. induction n using N.peano_ind; intros i.
  - unfold nthN. cbn. destruct (N.to_nat i); reflexivity.
  - rewrite N.iter_succ. unfold nthN in *. destruct (N.to_nat i) as [|k] eqn:E; [reflexivity|].
    cbn [nth]. specialize (IHn (N.of_nat k)). rewrite Nat2N.id in IHn. exact IHn.
Qed.

Lemma lenN_write_at f off bs : lenN (write_at f off bs) = N.max (lenN f) (off + lenN bs).
Proof. unfold write_at. rewrite !lenN_app, lenN_takeN, lenN_zerosN, lenN_dropN. lia. Qed.

Lemma nthN_write_at f off bs i :
  nthN (write_at f off bs) i = if (off <=? i) && (i <? off + lenN bs) then nthN bs (i - off) else nthN f i.
Proof.
  unfold write_at. rewrite !nthN_app, nthN_takeN, nthN_zerosN, nthN_dropN, lenN_takeN, lenN_zerosN.
  destruct (N.ltb_spec i (N.min off (lenN f))).
  - destruct (N.ltb_spec i off); [|lia]. destruct (N.leb_spec off i); [lia|]. reflexivity.
  - destruct (N.ltb_spec (i - N.min off (lenN f)) (off - lenN f)).
    + destruct (N.leb_spec off i); [lia|]. cbn [andb]. symmetry. apply nthN_beyond. lia.
    + destruct (N.ltb_spec (i - N.min off (lenN f) - (off - lenN f)) (lenN bs)).
      * destruct (N.leb_spec off i); [|lia]. destruct (N.ltb_spec i (off + lenN bs)); [|lia]. cbn [andb]. f_equal. lia.
      * destruct (N.leb_spec off i); destruct (N.ltb_spec i (off + lenN bs)); cbn [andb]; try lia; f_equal; lia.
Qed.

Lemma sliceN_ext l1 l2 a n : N.min n (lenN l1 - a) = N.min n (lenN l2 - a) ->
  (forall i, i < n -> nthN l1 (a + i) = nthN l2 (a + i)) -> sliceN l1 a n = sliceN l2 a n.
Proof.
  intros Hl Hp. apply nthN_ext; [rewrite !lenN_sliceN; exact Hl|].
  intros i _. rewrite !nthN_sliceN. destruct (N.ltb_spec i n); [apply Hp; assumption|reflexivity].
Qed.

Lemma sliceN_write_below f off bs a n : a + n <= off -> off <= lenN f ->
  sliceN (write_at f off bs) a n = sliceN f a n.
Proof.
  intros. apply sliceN_ext; [rewrite lenN_write_at; lia|]. intros i Hi. rewrite nthN_write_at.
  destruct (N.leb_spec off (a + i)); [lia|]. reflexivity.
Qed.
Lemma sliceN_write_above f off bs a n : off + lenN bs <= a ->
  sliceN (write_at f off bs) a n = sliceN f a n.
Proof.
  intros. apply sliceN_ext; [rewrite lenN_write_at; lia|]. intros i Hi. rewrite nthN_write_at.
  destruct (N.ltb_spec (a + i) (off + lenN bs)); [lia|]. rewrite andb_false_r. reflexivity.
Qed.
Lemma sliceN_write_same f off bs : sliceN (write_at f off bs) off (lenN bs) = bs.
Proof.
  apply nthN_ext; [rewrite lenN_sliceN, lenN_write_at; lia|].
  intros i Hi. rewrite lenN_sliceN, lenN_write_at in Hi. rewrite nthN_sliceN, nthN_write_at.
  destruct (N.ltb_spec i (lenN bs)); [|lia]. destruct (N.leb_spec off (off + i)); [|lia].
  destruct (N.ltb_spec (off + i) (off + lenN bs)); [|lia]. cbn [andb]. f_equal. lia.
Qed.
Lemma write_at_app f c b1 b2 : write_at (write_at f c b1) (c + lenN b1) b2 = write_at f c (b1 ++ b2).
Proof.
  apply nthN_ext; [rewrite !lenN_write_at, lenN_app; lia|].
  intros i _. rewrite !nthN_write_at, nthN_app, lenN_app.
  destruct (N.leb_spec (c + lenN b1) i); destruct (N.ltb_spec i (c + lenN b1 + lenN b2));
  destruct (N.leb_spec c i); destruct (N.ltb_spec i (c + lenN b1)); destruct (N.ltb_spec i (c + (lenN b1 + lenN b2)));
  destruct (N.ltb_spec (i - c) (lenN b1)); cbn [andb]; try lia; try reflexivity; f_equal; lia.
Qed.
Lemma write_at_nil f c : c <= lenN f -> write_at f c [] = f.
Proof.
  intros. apply nthN_ext; [rewrite lenN_write_at; cbn; lia|].
  intros i _. rewrite nthN_write_at. cbn [lenN fold_left]. destruct (N.leb_spec c i); destruct (N.ltb_spec i (c + 0)); cbn [andb]; try lia; reflexivity.
Qed.
Lemma write_at_comm f a x c y : a + lenN x <= c ->
  write_at (write_at f a x) c y = write_at (write_at f c y) a x.
Proof.
  intros. apply nthN_ext; [rewrite !lenN_write_at; lia|].
  intros i _. rewrite !nthN_write_at.
  destruct (N.leb_spec c i); destruct (N.ltb_spec i (c + lenN y)); destruct (N.leb_spec a i); destruct (N.ltb_spec i (a + lenN x));
    cbn [andb]; try lia; reflexivity.
Qed.

(* a list that starts with [enc] *)
Lemma starts_with (v enc : list N) : lenN enc <= lenN v -> sliceN v 0 (lenN enc) = enc -> v = enc ++ dropN (lenN enc) v.
Proof. intros Hl Hs. rewrite sliceN_0 in Hs. rewrite <- Hs at 1. symmetry. apply takeN_dropN. Qed.

(** * iteration and Writer::open over a file *)
Section Scan.
Variable H : N.
Variable decompress : list N -> option (list N).
Local Notation enc_ok := (Seglog.enc_ok H decompress).


(* iteration as a function of the flushed bytes alone *)
Fixpoint scan_spec (fuel : nat) (bs : list N) (off : N) : list (N * rrec) * N * term :=
  match fuel with
  | O => ([], off, TFuel)
  | S f =>
    match decode_view H decompress (dropN off bs) with
    | ROk r => let '(recs, o, t) := scan_spec f bs (off + r_len r) in ((off, r) :: recs, o, t)
    | RErr e => ([], off, term_of e)
    | RPanic => ([], off, TPanic)
    end
  end.

Lemma scan_eq : forall fuel file flushed ra off, flushed <= lenN file -> coherent file flushed ra ->
  exists ra', scan H decompress fuel file flushed ra off =
              (ra', fst (fst (scan_spec fuel (takeN flushed file) off)), snd (fst (scan_spec fuel (takeN flushed file) off)),
               snd (scan_spec fuel (takeN flushed file) off))
              /\ coherent file flushed ra'.
Proof.
  induction fuel as [|fuel IH]; intros file flushed ra off Hf Hc.
  - exists ra. split; [reflexivity|assumption].
  - cbn [scan scan_spec].
    destruct (read_seq_eq H decompress file flushed ra off Hf Hc) as (ra1 & -> & Hc1). unfold view.
    destruct (decode_view H decompress (dropN off (takeN flushed file))) as [r|e|].
    + destruct (IH file flushed ra1 (off + r_len r) Hf Hc1) as (ra2 & -> & Hc2).
      exists ra2. split; [|assumption].
      destruct (scan_spec fuel (takeN flushed file) (off + r_len r)) as [[recs o] t]. reflexivity.
    + exists ra1. split; [|assumption]. destruct e; reflexivity.
    + exists ra1. split; [reflexivity|assumption].
Qed.

(* a byte string that decodes to r whatever follows it, and is exactly as long as r says *)


Lemma scan_spec_records : forall encs rs, Forall2 enc_ok encs rs ->
  forall pre tail e fuel, decode_view H decompress tail = RErr e -> (length encs < fuel)%nat ->
  scan_spec fuel (pre ++ concat encs ++ tail) (lenN pre) =
  (with_offsets (lenN pre) rs, lenN pre + lenN (concat encs), term_of e).
Proof.
  induction 1 as [|enc r encs rs (Hl & Hr & Hd) _ IH]; intros pre tail e fuel Ht Hfuel.
  - destruct fuel as [|fuel]; [cbn in Hfuel; lia|]. cbn [scan_spec concat app with_offsets].
    rewrite dropN_app_exact, Ht. cbn [lenN fold_left]. rewrite N.add_0_r. reflexivity.
  - destruct fuel as [|fuel]; [cbn in Hfuel; lia|]. cbn [scan_spec concat with_offsets].
    rewrite dropN_app_exact. rewrite <- app_assoc. rewrite Hd.
    replace (pre ++ enc ++ concat encs ++ tail) with ((pre ++ enc) ++ concat encs ++ tail) by (rewrite <- app_assoc; reflexivity).
    replace (lenN pre + r_len r) with (lenN (pre ++ enc)) by (rewrite lenN_app; lia).
    rewrite (IH (pre ++ enc) tail e fuel Ht) by (cbn in Hfuel; lia).
    rewrite !lenN_app. f_equal. f_equal. lia.
Qed.

Lemma enc_ok_total_len encs rs : Forall2 enc_ok encs rs -> 8 * N.of_nat (length encs) <= lenN (concat encs).
Proof.
  induction 1 as [|enc r encs rs (Hl & _) _ IH]; [cbn; lia|]. cbn [concat length]. rewrite lenN_app. lia.
Qed.

(** iteration through any reader whose buffer is coherent yields exactly the records, then stops the way the
    bytes after the last record dictate *)
Theorem iter_records file flushed ra pre encs rs tail e :
  flushed <= lenN file -> coherent file flushed ra ->
  takeN flushed file = pre ++ concat encs ++ tail -> Forall2 enc_ok encs rs ->
  decode_view H decompress tail = RErr e ->
  exists ra', iter_all H decompress file flushed ra (lenN pre) =
              (ra', with_offsets (lenN pre) rs, lenN pre + lenN (concat encs), term_of e)
              /\ coherent file flushed ra'.
Proof.
  intros Hf Hc Hbs Hok Ht. unfold iter_all.
  destruct (scan_eq (scan_fuel flushed) file flushed ra (lenN pre) Hf Hc) as (ra' & -> & Hc').
  exists ra'. split; [|assumption]. rewrite Hbs.
  rewrite (scan_spec_records encs rs Hok pre tail e (scan_fuel flushed) Ht); [reflexivity|].
  unfold scan_fuel. change RECORD_HEAD with 8.
  pose proof (enc_ok_total_len encs rs Hok) as Hlen.
  assert (lenN (pre ++ concat encs ++ tail) <= flushed) by (rewrite <- Hbs, lenN_takeN; lia).
  rewrite !lenN_app in *. lia.
Qed.

(** Writer::open resumes right after the last intact record *)
Theorem open_resumes file pre encs rs tail e :
  file = pre ++ concat encs ++ tail -> Forall2 enc_ok encs rs ->
  decode_view H decompress tail = RErr e -> e <> EIo ->
  writer_open_offset H decompress file (lenN pre) = ROk (lenN pre + lenN (concat encs)).
Proof.
  intros Hfile Hok Ht He. unfold writer_open_offset.
  destruct (iter_records file (lenN file) ra_empty pre encs rs tail e) as (ra' & -> & _); try assumption.
  - lia.
  - apply coherent_empty.
  - rewrite takeN_all by lia. assumption.
  - destruct e; cbn [term_of]; try reflexivity. contradiction.
Qed.

End Scan.

(** * the writer: what the buffered writer does to the file as the readers will eventually see it *)
(* the file with the BufWriter's pending bytes laid over it *)
Definition vfile (w : writer) : list N := write_at (w_file w) (w_cursor w) (w_buf w).
Definition wpos (w : writer) : N := w_cursor w + lenN (w_buf w).

(* w' differs from w only in file / cursor / buffer, the way a buffered write of [bs] at the logical position does *)
Definition bw_effect (w w' : writer) (bs : list N) : Prop :=
  vfile w' = write_at (vfile w) (wpos w) bs /\
  wpos w' = wpos w + lenN bs /\
  w_cursor w <= w_cursor w' /\
  lenN (w_file w') = lenN (w_file w) /\
  (forall a n, a + n <= w_cursor w -> sliceN (w_file w') a n = sliceN (w_file w) a n) /\
  w_off w' = w_off w /\ w_flushed w' = w_flushed w /\ w_dirty w' = w_dirty w /\ w_comp w' = w_comp w /\ w_size w' = w_size w.

Lemma bw_push_effect w bs : wpos w + lenN bs <= lenN (w_file w) -> bw_effect w (bw_push w bs) bs.
Proof.
  intros Hl. unfold bw_effect, vfile, wpos, bw_push. cbn [w_file w_cursor w_buf w_off w_flushed w_dirty w_comp w_size].
  rewrite write_at_app, lenN_app. repeat split; try reflexivity; lia.
Qed.

Lemma bw_flush_effect w : wpos w <= lenN (w_file w) -> bw_effect w (bw_flush w) [].
Proof.
  intros Hl. unfold bw_effect, vfile, wpos, bw_flush in *. cbn [w_file w_cursor w_buf w_off w_flushed w_dirty w_comp w_size].
  change (lenN (@nil N)) with 0.
  repeat split; try reflexivity; try lia.
  - rewrite lenN_write_at. lia.
  - intros a n Han. apply sliceN_write_below; lia.
Qed.

Lemma bw_direct_effect w bs : w_buf w = [] -> wpos w + lenN bs <= lenN (w_file w) -> bw_effect w (bw_direct w bs) bs.
Proof.
  intros Hb Hl. unfold bw_effect, vfile, wpos, bw_direct in *. rewrite Hb in *.
  cbn [w_file w_cursor w_buf w_off w_flushed w_dirty w_comp w_size] in *. change (lenN (@nil N)) with 0 in *. rewrite N.add_0_r in *.
  repeat split; try reflexivity; try lia.
  - rewrite write_at_nil by (rewrite lenN_write_at; lia). rewrite write_at_nil by lia. reflexivity.
  - rewrite lenN_write_at. lia.
  - intros a n Han. apply sliceN_write_below; lia.
Qed.

Lemma bw_effect_trans w1 w2 w3 b1 b2 : bw_effect w1 w2 b1 -> bw_effect w2 w3 b2 -> bw_effect w1 w3 (b1 ++ b2).
Proof.
  intros (E1 & P1 & C1 & L1 & S1 & F1) (E2 & P2 & C2 & L2 & S2 & F2).
  unfold bw_effect. rewrite E2, E1, P1, write_at_app, lenN_app.
  repeat split; try lia; try (destruct F1 as (?&?&?&?&?); destruct F2 as (?&?&?&?&?); congruence).
  intros a n Han. rewrite S2 by lia. apply S1. lia.
Qed.

Lemma bw_write_effect w bs : wpos w + lenN bs <= lenN (w_file w) -> bw_effect w (bw_write w bs) bs.
Proof.
  intros Hl. unfold bw_write.
  destruct (N.ltb_spec (lenN bs) (WRITE_BUF_SIZE - lenN (w_buf w))); [apply bw_push_effect; assumption|].
  assert (Hfl : bw_effect w (bw_flush w) []) by (apply bw_flush_effect; lia).
  destruct (N.ltb_spec (WRITE_BUF_SIZE - lenN (w_buf w)) (lenN bs)).
  - (* flushed first *)
    assert (Hpos : wpos (bw_flush w) = wpos w) by (destruct Hfl as (_ & -> & _); cbn; lia).
    assert (Hlen : lenN (w_file (bw_flush w)) = lenN (w_file w)) by (destruct Hfl as (_ & _ & _ & -> & _); reflexivity).
    destruct (N.leb_spec WRITE_BUF_SIZE (lenN bs)).
    + apply (bw_effect_trans w (bw_flush w) _ [] bs Hfl). apply bw_direct_effect; [reflexivity|]. rewrite Hpos, Hlen. assumption.
    + apply (bw_effect_trans w (bw_flush w) _ [] bs Hfl). apply bw_push_effect. rewrite Hpos, Hlen. assumption.
  - destruct (N.leb_spec WRITE_BUF_SIZE (lenN bs)).
    + apply bw_direct_effect; [|assumption]. apply lenN_0. change WRITE_BUF_SIZE with 16384 in *. lia.
    + apply bw_push_effect. assumption.
Qed.

(** * one writer, many readers: the invariant behind C18 *)
Section Inv.
Variable H : N.
Variable compress : list N -> list N.
Variable decompress : list N -> option (list N).
Hypothesis dec_comp : forall x, decompress (compress x) = Some x.
Hypothesis comp_bytes : forall x, all_bytes x -> all_bytes (compress x).

Definition a_enc (r : arec) : list N := stored_record H compress (a_comp r) (a_hdr r) (a_data r).
Definition a_wf (r : arec) : Prop := wf_rec H compress (a_comp r) (a_hdr r) (a_data r).

(* a live record: well-formed, inside the written region, and its bytes are where the log says *)
Definition rec_ok (w : writer) (r : arec) : Prop :=
  a_wf r /\ a_end H compress r <= w_off w /\
  sliceN (vfile w) (a_off r) (a_len H compress r) = a_enc r.

Fixpoint ordered (l : list arec) : Prop :=
  match l with
  | [] => True
  | r :: t => Forall (fun r' => a_end H compress r <= a_off r') t /\ ordered t
  end.

Record INV (s : sl_state) (sp : spec) : Prop := mkINV {
  i_pos : wpos (s_w s) = w_off (s_w s);
  i_fl : w_flushed (s_w s) <= w_cursor (s_w s);
  i_sz : w_off (s_w s) <= w_size (s_w s) /\ w_size (s_w s) <= lenN (w_file (s_w s));
  i_dirty : w_dirty (s_w s) = false -> w_flushed (s_w s) = w_off (s_w s);
  i_sp : sp_off sp = w_off (s_w s) /\ sp_flushed sp = w_flushed (s_w s) /\
         sp_comp sp = w_comp (s_w s) /\ sp_size sp = w_size (s_w s);
  i_log : Forall (rec_ok (s_w s)) (sp_log sp);
  i_ord : ordered (sp_log sp);
  i_rd : Forall (coherent (w_file (s_w s)) (w_flushed (s_w s))) (s_readers s) }.

Lemma a_len_enc r : a_wf r -> lenN (a_enc r) = a_len H compress r.
Proof. intros (Hh & _). unfold a_enc. rewrite lenN_stored_record by assumption. reflexivity. Qed.

Lemma a_len_ge r : 8 <= a_len H compress r.
Proof. unfold a_len. change RECORD_HEAD with 8. lia. Qed.

Lemma a_decode r rest : a_wf r -> decode_view H decompress (a_enc r ++ rest) = ROk (a_expect H compress r).
Proof. intros Hw. unfold a_enc. rewrite (decode_stored H compress decompress dec_comp comp_bytes) by exact Hw. reflexivity. Qed.

Lemma lenN_vfile w : lenN (w_file w) <= lenN (vfile w).
Proof. unfold vfile. rewrite lenN_write_at. lia. Qed.

(* what a reader can see of a live record: the first (flushed - off) bytes of its encoding (and what follows) *)
Lemma live_view s sp r : INV s sp -> In r (sp_log sp) ->
  decode_view H decompress (view (w_file (s_w s)) (w_flushed (s_w s)) (a_off r)) = spec_read H compress sp r.
Proof.
  intros I Hin. destruct I as [Ipos Ifl [Isz1 Isz2] Idirty (Isp1 & Isp2 & Isp3 & Isp4) Ilog Iord Ird].
  set (w := s_w s) in *.
  rewrite Forall_forall in Ilog. destruct (Ilog r Hin) as (Hwf & Hend & Hbytes).
  unfold spec_read. rewrite Isp2. change RECORD_HEAD with 8.
  assert (Hfile : w_flushed w <= lenN (w_file w)) by (unfold wpos in Ipos; lia).
  destruct (N.ltb_spec (w_flushed w - a_off r) 8) as [Hk|Hk].
  { unfold decode_view. rewrite lenN_view by assumption. change RECORD_HEAD with 8.
    destruct (N.ltb_spec (w_flushed w - a_off r) 8); [reflexivity|lia]. }
  set (off := a_off r) in *. set (k := w_flushed w - off) in *.
  (* the view is the first k bytes of the virtual file from off *)
  assert (Hview : view (w_file w) (w_flushed w) off = takeN k (dropN off (vfile w))).
  { unfold view. rewrite dropN_takeN. fold k. change (takeN k (dropN off ?f)) with (sliceN f off k).
    symmetry. unfold vfile. apply sliceN_write_below; unfold k, wpos in *; lia. }
  (* and the virtual file from off starts with the record's encoding *)
  assert (Hstart : dropN off (vfile w) = a_enc r ++ dropN (lenN (a_enc r)) (dropN off (vfile w))).
  { apply starts_with.
    - rewrite lenN_dropN, a_len_enc by assumption. pose proof (lenN_vfile w). unfold a_end in Hend. fold off in Hend. lia.
    - rewrite sliceN_dropN, N.add_0_r, a_len_enc by assumption. exact Hbytes. }
  rewrite Hview, Hstart.
  destruct (N.ltb_spec (w_flushed w) (a_end H compress r)) as [Hlt|Hge].
  - rewrite (truncated_view H compress decompress _ _ k (a_decode r _ Hwf)).
    + change RECORD_HEAD with 8. destruct (N.ltb_spec k 8); [lia|]. reflexivity.
    + cbn [a_expect r_len]. unfold a_end in Hlt. fold off in Hlt. unfold k. lia.
  - rewrite takeN_app_r by (rewrite a_len_enc by assumption; unfold a_end in Hge; fold off in Hge; unfold k; lia).
    apply a_decode. assumption.
Qed.


(** ** bookkeeping lemmas *)
Lemma a_off_set_hdr off hdr r : a_off (set_hdr off hdr r) = a_off r.
Proof. unfold set_hdr. destruct (_ =? _); reflexivity. Qed.
Lemma a_len_set_hdr off hdr r : a_len H compress (set_hdr off hdr r) = a_len H compress r.
Proof. unfold set_hdr. destruct (_ =? _); reflexivity. Qed.
Lemma a_end_set_hdr off hdr r : a_end H compress (set_hdr off hdr r) = a_end H compress r.
Proof. unfold a_end. rewrite a_off_set_hdr, a_len_set_hdr. reflexivity. Qed.

Lemma ordered_app_one l r : ordered l -> Forall (fun x => a_end H compress x <= a_off r) l -> ordered (l ++ [r]).
Proof.
  induction l as [|x l IH]; intros Ho Hf; cbn [app ordered]; [split; [constructor|exact I]|].
  destruct Ho as [Hx Ho]. inversion Hf; subst. split; [|apply IH; assumption].
  apply Forall_app. split; [assumption|]. constructor; [assumption|constructor].
Qed.
Lemma ordered_filter p l : ordered l -> ordered (filter p l).
Proof.
  induction l as [|x l IH]; intros Ho; [exact I|]. destruct Ho as [Hx Ho]. cbn [filter].
  destruct (p x); [|apply IH; assumption]. split; [|apply IH; assumption].
  rewrite Forall_forall in *. intros y Hy. apply Hx. apply filter_In in Hy. tauto.
Qed.
Lemma ordered_map_set_hdr off hdr l : ordered l -> ordered (map (set_hdr off hdr) l).
Proof.
  induction l as [|x l IH]; intros Ho; [exact I|]. destruct Ho as [Hx Ho]. cbn [map ordered].
  split; [|apply IH; assumption]. rewrite Forall_map. rewrite a_end_set_hdr.
  eapply Forall_impl; [|exact Hx]. intros y Hy. cbn beta. rewrite a_off_set_hdr. exact Hy.
Qed.
Lemma ordered_In_disjoint l r1 r2 : ordered l -> In r1 l -> In r2 l ->
  r1 = r2 \/ a_end H compress r1 <= a_off r2 \/ a_end H compress r2 <= a_off r1.
Proof.
  induction l as [|x l IH]; intros Ho H1 H2; [contradiction|]. destruct Ho as [Hx Ho].
  rewrite Forall_forall in Hx. destruct H1 as [<-|H1], H2 as [<-|H2]; auto.
Qed.

Lemma Forall_set_nth {A} (P : A -> Prop) n x l : Forall P l -> P x -> Forall P (set_nth n x l).
Proof.
  revert n. induction l as [|y l IH]; intros n Hl Hx; [destruct n; constructor|].
  inversion Hl; subst. destruct n; cbn [set_nth]; constructor; auto.
Qed.
Lemma nth_error_Forall {A} (P : A -> Prop) n x l : Forall P l -> nth_error l n = Some x -> P x.
Proof. intros Hl Hn. rewrite Forall_forall in Hl. apply Hl. eapply nth_error_In; eassumption. Qed.

Lemma sliceN_len0 {A} (l : list A) a : sliceN l a 0 = [].
Proof. unfold sliceN. apply takeN_0. Qed.

(* a reader's buffer stays coherent when the bytes below the flushed offset do not change and flushed does not shrink *)
Lemma coherent_mono f f' fl fl' ra : coherent f fl ra ->
  (forall a n, a + n <= fl -> sliceN f' a n = sliceN f a n) -> fl <= fl' -> coherent f' fl' ra.
Proof.
  intros [Hc1 Hc2] Hs Hle. destruct Hc1 as [Hz|He].
  - split; [left; assumption|]. rewrite Hz, sliceN_len0. apply lenN_0. assumption.
  - split; [right; lia|]. rewrite Hs by (unfold ra_end in He; lia). assumption.
Qed.

(* a live record stays live when the virtual file does not change below the old write offset *)
Lemma rec_ok_mono w w' r : rec_ok w r -> w_off w <= w_off w' ->
  (forall a n, a + n <= w_off w -> sliceN (vfile w') a n = sliceN (vfile w) a n) -> rec_ok w' r.
Proof.
  intros (Hwf & Hend & Hb) Hle Hs. split; [assumption|]. split; [lia|].
  rewrite Hs by (unfold a_end in Hend; lia). assumption.
Qed.

(** ** the writer's own operations *)
Definition winv (w : writer) : Prop :=
  wpos w = w_off w /\ w_flushed w <= w_cursor w /\ w_off w <= w_size w /\ w_size w <= lenN (w_file w) /\
  (w_dirty w = false -> w_flushed w = w_off w).

Lemma vfile_w_set w a b c : vfile (w_set w a b c) = vfile w. Proof. reflexivity. Qed.
Lemma wpos_w_set w a b c : wpos (w_set w a b c) = wpos w. Proof. reflexivity. Qed.

Lemma stored_record_eq comp hdr data :
  stored_record H compress comp hdr data =
  encode_record (snd (prepare_data H compress comp data)) hdr (fst (prepare_data H compress comp data)).
Proof. unfold stored_record. destruct (prepare_data H compress comp data). reflexivity. Qed.

Lemma writer_append_ok w hdr data : winv w -> lenN hdr = H ->
  let total := stored_len H compress (w_comp w) data in
  if w_size w <? w_off w + total then writer_append H compress w hdr data = (w, None)
  else exists w', writer_append H compress w hdr data = (w', Some (w_off w, total)) /\
       vfile w' = write_at (vfile w) (w_off w) (stored_record H compress (w_comp w) hdr data) /\
       wpos w' = w_off w + total /\ w_off w' = w_off w + total /\
       w_cursor w <= w_cursor w' /\ lenN (w_file w') = lenN (w_file w) /\
       (forall a n, a + n <= w_cursor w -> sliceN (w_file w') a n = sliceN (w_file w) a n) /\
       w_flushed w' = w_flushed w /\ w_comp w' = w_comp w /\ w_size w' = w_size w /\ w_dirty w' = true.
Proof.
  intros (Hpos & Hfl & Hsz1 & Hsz2 & Hd) Hh total. unfold writer_append.
  rewrite stored_record_eq. unfold total, stored_len.
  destruct (prepare_data H compress (w_comp w) data) as [fd lw]. cbn [fst snd].
  destruct (N.ltb_spec (w_size w) (w_off w + (RECORD_HEAD + H + lenN fd))); [reflexivity|].
  set (w0 := w_set w (w_off w) (w_flushed w) true).
  set (lb := le32 lw). set (cb := le32 (calculate_crc lb hdr fd)).
  assert (Hp0 : wpos w0 = w_off w) by exact Hpos.
  assert (Hl0 : lenN (w_file w0) = lenN (w_file w)) by reflexivity.
  change RECORD_HEAD with 8 in *.
  assert (E1 : bw_effect w0 (bw_write w0 lb) lb) by (apply bw_write_effect; rewrite Hp0, Hl0; unfold lb; rewrite le32_len; lia).
  set (w1 := bw_write w0 lb) in *.
  assert (Hp1 : wpos w1 = w_off w + 4) by (destruct E1 as (_ & -> & _); rewrite Hp0; reflexivity).
  assert (Hl1 : lenN (w_file w1) = lenN (w_file w)) by (destruct E1 as (_ & _ & _ & -> & _); reflexivity).
  assert (E2 : bw_effect w1 (bw_write w1 cb) cb) by (apply bw_write_effect; rewrite Hp1, Hl1; unfold cb; rewrite le32_len; lia).
  set (w2 := bw_write w1 cb) in *.
  assert (Hp2 : wpos w2 = w_off w + 8) by (destruct E2 as (_ & -> & _); rewrite Hp1; unfold cb; rewrite le32_len; lia).
  assert (Hl2 : lenN (w_file w2) = lenN (w_file w)) by (destruct E2 as (_ & _ & _ & -> & _); assumption).
  assert (E3 : bw_effect w2 (bw_write w2 hdr) hdr) by (apply bw_write_effect; rewrite Hp2, Hl2; lia).
  set (w3 := bw_write w2 hdr) in *.
  assert (Hp3 : wpos w3 = w_off w + 8 + H) by (destruct E3 as (_ & -> & _); rewrite Hp2; lia).
  assert (Hl3 : lenN (w_file w3) = lenN (w_file w)) by (destruct E3 as (_ & _ & _ & -> & _); assumption).
  assert (E4 : bw_effect w3 (bw_write w3 fd) fd) by (apply bw_write_effect; rewrite Hp3, Hl3; lia).
  set (w4 := bw_write w3 fd) in *.
  pose proof (bw_effect_trans _ _ _ _ _ (bw_effect_trans _ _ _ _ _ (bw_effect_trans _ _ _ _ _ E1 E2) E3) E4) as E.
  rewrite <- !app_assoc in E. fold lb. fold cb.
  destruct E as (Ev & Ep & Ec & El & Es & Eo & Ef & Edirty & Ecomp & Esize).
  eexists. split; [reflexivity|].
  rewrite vfile_w_set, wpos_w_set. cbn [w_set w_off w_cursor w_file w_flushed w_comp w_size w_dirty].
  unfold encode_record. cbv zeta. fold lb cb.
  repeat split; try assumption.
  - rewrite Ev, Hp0. reflexivity.
  - rewrite Ep, Hp0. unfold lb, cb. rewrite !lenN_app, !le32_len. lia.
Qed.

Lemma writer_sync_ok w : winv w ->
  let w' := writer_sync w in
  winv w' /\ vfile w' = vfile w /\ w_off w' = w_off w /\ w_flushed w' = w_off w /\ w_cursor w' = w_off w /\ w_buf w' = [] /\
  w_flushed w <= w_flushed w' /\ lenN (w_file w') = lenN (w_file w) /\
  (forall a n, a + n <= w_cursor w -> sliceN (w_file w') a n = sliceN (w_file w) a n) /\
  w_comp w' = w_comp w /\ w_size w' = w_size w /\ w_dirty w' = false.
Proof.
  intros (Hpos & Hfl & Hsz1 & Hsz2 & Hd). unfold writer_sync. destruct (w_dirty w) eqn:Hdirty.
  - destruct (bw_flush_effect w ltac:(lia)) as (Ev & Ep & Ec & El & Es & Eo & Ef & Edirty & Ecomp & Esize).
    cbv zeta. rewrite vfile_w_set. unfold winv. rewrite wpos_w_set.
    cbn [w_set w_off w_cursor w_file w_flushed w_comp w_size w_dirty w_buf].
    change (lenN (@nil N)) with 0 in Ep. rewrite N.add_0_r in Ep.
    assert (Hc : w_cursor (bw_flush w) = w_off w) by (unfold wpos in *; cbn [bw_flush w_cursor w_buf] in *; change (lenN (@nil N)) with 0 in Ep; lia).
    rewrite Ev, write_at_nil by (pose proof (lenN_vfile w); lia).
    repeat split; try assumption; try reflexivity; try lia.
  - specialize (Hd eq_refl). unfold wpos in Hpos.
    assert (Hb : w_buf w = []) by (apply lenN_0; lia).
    cbv zeta. unfold winv, wpos. rewrite Hb. change (lenN (@nil N)) with 0.
    repeat split; try assumption; try reflexivity; try lia.
Qed.


Lemma INV_winv s sp : INV s sp -> winv (s_w s).
Proof. intros [? ? [? ?] ? ? ? ? ?]. unfold winv. tauto. Qed.

Lemma vfile_len_ge w : winv w -> w_off w <= lenN (vfile w).
Proof. intros (Hpos & Hfl & Hsz1 & Hsz2 & Hd). pose proof (lenN_vfile w). lia. Qed.

(** ** preservation, one operation at a time *)
Lemma inv_append s sp hdr data : INV s sp -> wf_op H compress sp (OAppend hdr data) ->
  INV (fst (sl_step H compress decompress s (OAppend hdr data))) (spec_step H compress sp (OAppend hdr data)).
Proof.
  intros I (Hh & Hbh & Hbd & Hlt). pose proof (INV_winv _ _ I) as Hw.
  destruct I as [Ipos Ifl [Isz1 Isz2] Idirty (Isp1 & Isp2 & Isp3 & Isp4) Ilog Iord Ird].
  cbn [sl_step spec_step]. set (w := s_w s) in *.
  pose proof (writer_append_ok w hdr data Hw Hh) as Ha. cbv zeta in Ha.
  set (r := {| a_off := sp_off sp; a_comp := sp_comp sp; a_hdr := hdr; a_data := data |}).
  assert (Hlen : a_len H compress r = stored_len H compress (w_comp w) data) by (unfold a_len, a_stored, stored_len, r; cbn; rewrite Isp3; reflexivity).
  assert (Hend : a_end H compress r = w_off w + stored_len H compress (w_comp w) data) by (unfold a_end; rewrite Hlen; unfold r; cbn; rewrite Isp1; reflexivity).
  rewrite Hend, Isp4.
  destruct (N.ltb_spec (w_size w) (w_off w + stored_len H compress (w_comp w) data)) as [Hfull|Hfit].
  - rewrite Ha. cbn [fst]. constructor; try assumption; tauto.
  - destruct Ha as (w' & -> & Ev & Ep & Eo & Ec & El & Es & Ef & Ecomp & Esize & Edirty). cbn [fst s_w s_readers].
    assert (Hwf : a_wf r) by (unfold a_wf, wf_rec, r; cbn; rewrite Isp3 in *; tauto).
    assert (Hvlen : w_off w <= lenN (vfile w)) by (apply vfile_len_ge; assumption).
    constructor; cbn [s_w s_readers sp_off sp_flushed sp_comp sp_size sp_log].
    + lia.
    + lia.
    + split; lia.
    + rewrite Edirty. discriminate.
    + rewrite Eo, Ef, Ecomp, Esize. tauto.
    + apply Forall_app. split.
      * eapply Forall_impl; [|exact Ilog]. intros x Hx. apply (rec_ok_mono w); [assumption|lia|].
        intros a n Han. rewrite Ev. apply sliceN_write_below; lia.
      * constructor; [|constructor]. split; [assumption|]. split; [lia|].
        rewrite Ev. unfold r at 1. cbn [a_off]. rewrite Isp1, Hlen.
        unfold a_enc, r. cbn [a_comp a_hdr a_data]. rewrite Isp3.
        rewrite <- (lenN_stored_record H compress decompress (w_comp w) hdr data Hh). apply sliceN_write_same.
    + apply ordered_app_one; [assumption|]. eapply Forall_impl; [|exact Ilog].
      intros x (_ & Hx & _). unfold r. cbn [a_off]. lia.
    + eapply Forall_impl; [|exact Ird]. intros ra Hra. rewrite Ef. apply (coherent_mono (w_file w) _ (w_flushed w)); [assumption| |lia].
      intros a n Han. apply Es. lia.
Qed.

Lemma inv_flush s sp : INV s sp -> INV (fst (sl_step H compress decompress s OFlush)) (spec_step H compress sp OFlush).
Proof.
  intros I. pose proof (INV_winv _ _ I) as Hw.
  destruct I as [Ipos Ifl [Isz1 Isz2] Idirty (Isp1 & Isp2 & Isp3 & Isp4) Ilog Iord Ird].
  cbn [sl_step spec_step fst]. set (w := s_w s) in *.
  destruct (bw_flush_effect w ltac:(lia)) as (Ev & Ep & Ec & El & Es & Eo & Ef & Edirty & Ecomp & Esize).
  change (lenN (@nil N)) with 0 in Ep. rewrite N.add_0_r in Ep.
  rewrite write_at_nil in Ev by (pose proof (lenN_vfile w); lia).
  constructor; cbn [s_w s_readers]; rewrite ?Eo, ?Ef, ?Ecomp, ?Esize, ?Edirty; try tauto; try lia.
  - eapply Forall_impl; [|exact Ilog]. intros x Hx. apply (rec_ok_mono w); [assumption|lia|].
    intros a n Han. rewrite Ev. reflexivity.
  - eapply Forall_impl; [|exact Ird]. intros ra Hra. apply (coherent_mono (w_file w) _ (w_flushed w)); [assumption| |lia].
    intros a n Han. apply Es. lia.
Qed.

Lemma inv_sync s sp : INV s sp -> INV (fst (sl_step H compress decompress s OSync)) (spec_step H compress sp OSync).
Proof.
  intros I. pose proof (INV_winv _ _ I) as Hw.
  destruct I as [Ipos Ifl [Isz1 Isz2] Idirty (Isp1 & Isp2 & Isp3 & Isp4) Ilog Iord Ird].
  cbn [sl_step spec_step fst]. set (w := s_w s) in *.
  destruct (writer_sync_ok w Hw) as ((Wp & Wf & Ws1 & Ws2 & Wd) & Ev & Eo & Ef & Ec & Eb & Efl & El & Es & Ecomp & Esize & Edirty).
  constructor; cbn [s_w s_readers sp_off sp_flushed sp_comp sp_size sp_log]; try assumption; try tauto.
  - rewrite Eo, Ef, Ecomp, Esize. tauto.
  - eapply Forall_impl; [|exact Ilog]. intros x Hx. apply (rec_ok_mono w); [assumption|lia|].
    intros a n Han. rewrite Ev. reflexivity.
  - eapply Forall_impl; [|exact Ird]. intros ra Hra. apply (coherent_mono (w_file w) _ (w_flushed w)); [assumption| |lia].
    intros a n Han. apply Es. lia.
Qed.

Lemma existsb_false {A} (p : A -> bool) l : existsb p l = false -> Forall (fun x => p x = false) l.
Proof.
  induction l as [|x l IH]; intros Hx; [constructor|]. cbn in Hx. apply orb_false_iff in Hx. destruct Hx. constructor; auto.
Qed.

Lemma inv_set_len s sp o : INV s sp -> op_known s (OSetLen o) = false ->
  INV (fst (sl_step H compress decompress s (OSetLen o))) (spec_step H compress sp (OSetLen o)).
Proof.
  intros I Hk. pose proof (INV_winv _ _ I) as Hw.
  destruct I as [Ipos Ifl [Isz1 Isz2] Idirty (Isp1 & Isp2 & Isp3 & Isp4) Ilog Iord Ird].
  cbn [sl_step spec_step fst op_known] in *. set (w := s_w s) in *. rewrite Isp1. unfold writer_set_len.
  destruct (N.leb_spec (w_off w) o) as [Hnop|Hlt]; [constructor; tauto|].
  destruct (N.ltb_spec o (w_off w)); [|lia]. cbn [andb] in Hk. apply existsb_false in Hk.
  destruct (writer_sync_ok w Hw) as ((Wp & Wf & Ws1 & Ws2 & Wd) & Ev & Eo & Ef & Ec & Eb & Efl & El & Es & Ecomp & Esize & Edirty).
  set (w1 := writer_sync w) in *.
  cbv zeta. unfold bw_flush, w_set. cbn [w_file w_cursor w_buf w_off w_flushed w_dirty w_comp w_size]. rewrite Eb.
  change (lenN (@nil N)) with 0. rewrite ?N.add_0_r.
  assert (Hf1 : write_at (w_file w1) (w_cursor w1) [] = w_file w1) by (apply write_at_nil; lia).
  rewrite ?Hf1.
  assert (Hv1 : vfile w = w_file w1) by (rewrite <- Ev; unfold vfile; rewrite Eb; exact Hf1).
  constructor; cbn [s_w s_readers sp_off sp_flushed sp_comp sp_size sp_log w_file w_cursor w_buf w_off w_flushed w_dirty w_comp w_size wpos].
  - unfold wpos. cbn. change (lenN (@nil N)) with 0. lia.
  - lia.
  - split; [lia|]. rewrite lenN_write_at. lia.
  - intros _. reflexivity.
  - rewrite Ecomp, Esize. tauto.
  - rewrite Forall_forall in *. intros x Hx. apply filter_In in Hx. destruct Hx as [Hx Hxe]. apply N.leb_le in Hxe.
    destruct (Ilog x Hx) as (Hwf & Hend & Hb). split; [assumption|]. split; [exact Hxe|].
    unfold vfile. cbn [w_file w_cursor w_buf]. rewrite write_at_nil by (rewrite lenN_write_at; lia).
    rewrite sliceN_write_below by (unfold a_end in *; lia). rewrite <- Hv1. assumption.
  - apply ordered_filter. assumption.
  - rewrite Forall_forall in *. intros ra Hra. specialize (Hk ra Hra). specialize (Ird ra Hra). cbn beta in Hk.
    unfold cached_beyond in Hk. destruct Ird as [Hc1 Hc2].
    assert (Hc : lenN (ra_bytes ra) = 0 \/ (ra_end ra <= o /\ ra_end ra <= w_flushed w)).
    { destruct (N.eqb_spec (lenN (ra_bytes ra)) 0); [left; assumption|right]. cbn [negb andb] in Hk.
      apply N.ltb_ge in Hk. destruct Hc1; [contradiction|]. split; assumption. }
    destruct Hc as [Hz|[He1 He2]].
    + split; [left; assumption|]. rewrite Hz, sliceN_len0. apply lenN_0. assumption.
    + split; [right; assumption|]. unfold ra_end in *. rewrite sliceN_write_below by lia. rewrite Es by lia. assumption.
Qed.

Lemma inv_comp s sp b : INV s sp -> INV (fst (sl_step H compress decompress s (OComp b))) (spec_step H compress sp (OComp b)).
Proof.
  intros [Ipos Ifl [Isz1 Isz2] Idirty (Isp1 & Isp2 & Isp3 & Isp4) Ilog Iord Ird].
  cbn [sl_step spec_step fst]. constructor; cbn; try assumption; tauto.
Qed.

Lemma inv_add_reader s sp : INV s sp ->
  INV {| s_w := s_w s; s_readers := s_readers s ++ [ra_empty] |} sp.
Proof.
  intros [Ipos Ifl [Isz1 Isz2] Idirty (Isp1 & Isp2 & Isp3 & Isp4) Ilog Iord Ird].
  constructor; cbn [s_w s_readers]; try assumption; try tauto.
  apply Forall_app. split; [assumption|]. constructor; [apply coherent_empty|constructor].
Qed.

Lemma inv_set_reader s sp r ra' : INV s sp -> coherent (w_file (s_w s)) (w_flushed (s_w s)) ra' ->
  INV {| s_w := s_w s; s_readers := set_nth r ra' (s_readers s) |} sp.
Proof.
  intros [Ipos Ifl [Isz1 Isz2] Idirty (Isp1 & Isp2 & Isp3 & Isp4) Ilog Iord Ird] Hc.
  constructor; cbn [s_w s_readers]; try assumption; try tauto. apply Forall_set_nth; assumption.
Qed.

Lemma INV_file_ok s sp : INV s sp -> w_flushed (s_w s) <= lenN (w_file (s_w s)).
Proof. intros [Ipos Ifl [Isz1 Isz2] ? ? ? ? ?]. unfold wpos in Ipos. lia. Qed.

Lemma inv_read s sp r off seq : INV s sp ->
  INV (fst (sl_step H compress decompress s (ORead r off seq))) (spec_step H compress sp (ORead r off seq)).
Proof.
  intros I. cbn [sl_step spec_step]. destruct (nth_error (s_readers s) r) as [ra|] eqn:Hr; [|exact I].
  pose proof (INV_file_ok _ _ I) as Hf.
  assert (Hc : coherent (w_file (s_w s)) (w_flushed (s_w s)) ra) by (eapply nth_error_Forall; [apply (i_rd _ _ I)|exact Hr]).
  destruct (read_record_eq H decompress _ _ ra off seq Hf Hc) as (ra' & -> & Hc'). cbn [fst].
  apply inv_set_reader; assumption.
Qed.

Lemma inv_iter s sp r off : INV s sp ->
  INV (fst (sl_step H compress decompress s (OIter r off))) (spec_step H compress sp (OIter r off)).
Proof.
  intros I. cbn [sl_step spec_step]. destruct (nth_error (s_readers s) r) as [ra|] eqn:Hr; [|exact I].
  pose proof (INV_file_ok _ _ I) as Hf.
  assert (Hc : coherent (w_file (s_w s)) (w_flushed (s_w s)) ra) by (eapply nth_error_Forall; [apply (i_rd _ _ I)|exact Hr]).
  unfold iter_all. destruct (scan_eq H decompress (scan_fuel (w_flushed (s_w s))) _ _ ra off Hf Hc) as (ra' & -> & Hc'). cbn [fst].
  apply inv_set_reader; assumption.
Qed.


(** ** header replacement through a reader *)
Lemma uniq_off l r1 r2 : ordered l -> In r1 l -> In r2 l -> a_off r1 = a_off r2 -> r1 = r2.
Proof.
  intros Ho H1 H2 He. pose proof (a_len_ge r1). pose proof (a_len_ge r2).
  destruct (ordered_In_disjoint l r1 r2 Ho H1 H2) as [E|[E|E]]; [assumption| |]; unfold a_end in E; lia.
Qed.

Lemma other_cached_false r off len : forall l i, other_cached r i off len l = false ->
  forall j ra, nth_error l j = Some ra -> (i + j)%nat <> r ->
  lenN (ra_bytes ra) = 0 \/ ranges_overlap (ra_off ra) (lenN (ra_bytes ra)) off len = false.
Proof.
  induction l as [|x l IH]; intros i Hk j ra Hj Hne; [destruct j; discriminate|].
  cbn [other_cached] in Hk. apply orb_false_iff in Hk. destruct Hk as [Hx Hk].
  destruct j as [|j]; cbn [nth_error] in Hj.
  - injection Hj as <-. rewrite Nat.add_0_r in Hne.
    destruct (Nat.eqb_spec i r); [contradiction|]. cbn [negb andb] in Hx.
    destruct (N.eqb_spec (lenN (ra_bytes x)) 0); [left; assumption|right]. exact Hx.
  - apply (IH (S i) Hk j ra Hj). lia.
Qed.

Lemma nth_error_set_nth {A} (x : A) : forall l n j,
  nth_error (set_nth n x l) j =
  if Nat.eqb j n then match nth_error l j with Some _ => Some x | None => None end else nth_error l j.
Proof.
  induction l as [|y l IH]; intros n j; cbn [set_nth].
  - destruct n, j; cbn; try reflexivity; destruct (Nat.eqb _ _); reflexivity.
  - destruct n as [|n], j as [|j]; cbn [nth_error Nat.eqb]; try reflexivity. apply IH.
Qed.

Lemma Forall_nth_error {A} (P : A -> Prop) l : (forall j x, nth_error l j = Some x -> P x) -> Forall P l.
Proof.
  intros Hp. apply Forall_forall. intros x Hx. apply In_nth_error in Hx. destruct Hx as [j Hj]. eapply Hp; eassumption.
Qed.

Lemma ranges_overlap_false a alen b blen : ranges_overlap a alen b blen = false -> b + blen <= a \/ a + alen <= b.
Proof. unfold ranges_overlap. intros Hf. apply andb_false_iff in Hf. destruct Hf as [Hf|Hf]; apply N.ltb_ge in Hf; lia. Qed.

(* replacing the bytes M in the middle of  A ++ M ++ Z  *)
Lemma sliceN_replace_mid f off A M M' Z :
  lenN M' = lenN M -> sliceN f off (lenN A + (lenN M + lenN Z)) = A ++ M ++ Z ->
  off + lenN A + lenN M + lenN Z <= lenN f ->
  sliceN (write_at f (off + lenN A) M') off (lenN A + (lenN M + lenN Z)) = A ++ M' ++ Z.
Proof.
  intros Hm Hs Hl.
  assert (HA : sliceN f off (lenN A) = A).
  { pose proof (sliceN_sliceN f off (lenN A + (lenN M + lenN Z)) 0 (lenN A) ltac:(lia)) as E.
    rewrite N.add_0_r in E. rewrite <- E, Hs. apply slice_at0. reflexivity. }
  assert (HZ : sliceN f (off + (lenN A + lenN M)) (lenN Z) = Z).
  { pose proof (sliceN_sliceN f off (lenN A + (lenN M + lenN Z)) (lenN A + lenN M) (lenN Z) ltac:(lia)) as E.
    rewrite <- E, Hs. rewrite <- (app_nil_r Z) at 1. apply slice_at2; reflexivity. }
  rewrite sliceN_split. rewrite sliceN_write_below by lia. rewrite HA. f_equal.
  rewrite sliceN_split. f_equal.
  - rewrite <- Hm. apply sliceN_write_same.
  - rewrite sliceN_write_above by lia.
    transitivity (sliceN f (off + (lenN A + lenN M)) (lenN Z)); [f_equal; lia|exact HZ].
Qed.


Lemma existsb_live sp rec : ordered (sp_log sp) -> In rec (sp_log sp) ->
  existsb (fun r => (a_off r =? a_off rec) && (a_end H compress r <=? sp_flushed sp)) (sp_log sp) =
  (a_end H compress rec <=? sp_flushed sp).
Proof.
  intros Ho Hin. destruct (N.leb_spec (a_end H compress rec) (sp_flushed sp)) as [Hle|Hgt].
  - apply existsb_exists. exists rec. split; [assumption|]. rewrite N.eqb_refl. cbn [andb]. apply N.leb_le. assumption.
  - destruct (existsb _ _) eqn:E; [|reflexivity]. apply existsb_exists in E. destruct E as (x & Hx & Hp).
    apply andb_prop in Hp. destruct Hp as [Hp1 Hp2]. apply N.eqb_eq in Hp1. apply N.leb_le in Hp2.
    assert (x = rec) by (eapply uniq_off; eassumption). subst x. lia.
Qed.

(* what replace_header recomputes from the record it has just read *)
Lemma replace_recompute rec :
  let r := a_expect H compress rec in
  let plen := r_len r - RECORD_HEAD in
  (match r_cdata r with Some _ => N.lor (plen mod 2^32) COMPRESSION_FLAG | None => plen mod 2^32 end)
    = snd (prepare_data H compress (a_comp rec) (a_data rec)) /\
  (match r_cdata r with Some c => c | None => r_data r end) = a_stored H compress rec.
Proof.
  cbv zeta. unfold a_expect, a_compressed, a_len, a_stored, prepare_data. cbn [r_cdata r_len r_data].
  destruct (a_comp rec && (MIN_COMPRESSION_SIZE <=? lenN (a_data rec))); cbn [fst snd]; change RECORD_HEAD with 8;
    (split; [|reflexivity]).
  - f_equal. f_equal. lia.
  - f_equal. lia.
Qed.

Lemma a_enc_parts rec :
  a_enc rec = le32 (snd (prepare_data H compress (a_comp rec) (a_data rec))) ++
              (le32 (calculate_crc (le32 (snd (prepare_data H compress (a_comp rec) (a_data rec)))) (a_hdr rec) (a_stored H compress rec))
               ++ a_hdr rec) ++ a_stored H compress rec.
Proof. unfold a_enc. rewrite stored_record_eq. unfold encode_record, a_stored. cbv zeta. rewrite <- !app_assoc. reflexivity. Qed.

Lemma inv_replace s sp r off hdr : INV s sp -> sp_nr sp = length (s_readers s) ->
  wf_op H compress sp (OReplace r off hdr) -> op_known s (OReplace r off hdr) = false ->
  INV (fst (sl_step H compress decompress s (OReplace r off hdr))) (spec_step H compress sp (OReplace r off hdr)).
Proof.
  intros I Hnr (Hh & Hbh & rec & Hin & Hoff) Hk.
  pose proof (INV_file_ok _ _ I) as Hf. pose proof (live_view s sp rec I Hin) as Hlv. rewrite Hoff in Hlv.
  cbn [sl_step spec_step op_known] in *.
  destruct (nth_error (s_readers s) r) as [ra|] eqn:Hr.
  2:{ cbn [fst]. apply nth_error_None in Hr. destruct (Nat.ltb_spec r (sp_nr sp)); [lia|]. exact I. }
  assert (Hrlt : (r < length (s_readers s))%nat) by (apply nth_error_Some; congruence).
  destruct (Nat.ltb_spec r (sp_nr sp)); [|lia]. cbn [andb].
  subst off. rewrite (existsb_live sp rec (i_ord _ _ I) Hin).
  unfold replace_header. rewrite read_random_eq by assumption. rewrite Hlv. unfold spec_read.
  pose proof (a_len_ge rec) as Hlen8.
  assert (Hcra0 : coherent (w_file (s_w s)) (w_flushed (s_w s)) ra) by (eapply nth_error_Forall; [apply (i_rd _ _ I)|exact Hr]).
  assert (Hsame : writer_set_file (s_w s) (w_file (s_w s)) = s_w s) by (destruct (s_w s); reflexivity).
  pose proof (i_sp _ _ I) as (_ & Isp2' & _). rewrite Isp2'.
  destruct (N.leb_spec (a_end H compress rec) (w_flushed (s_w s))) as [Hle|Hgt].
  2:{ (* the read fails: nothing changes *)
      destruct (N.ltb_spec (w_flushed (s_w s) - a_off rec) RECORD_HEAD); [|destruct (N.ltb_spec (w_flushed (s_w s)) (a_end H compress rec)); [|lia]];
      cbn [fst]; rewrite Hsame; apply inv_set_reader; assumption. }
  destruct I as [Ipos Ifl [Isz1 Isz2] Idirty (Isp1 & Isp2 & Isp3 & Isp4) Ilog Iord Ird].
  set (w := s_w s) in *.
  change RECORD_HEAD with 8 in *.
  destruct (N.ltb_spec (w_flushed w - a_off rec) 8); [unfold a_end in Hle; lia|].
  destruct (N.ltb_spec (w_flushed w) (a_end H compress rec)); [lia|].
  unfold a_end in Hle.
  destruct (N.ltb_spec (r_len (a_expect H compress rec)) 8); [cbn [a_expect r_len] in *; lia|].
  destruct (replace_recompute rec) as [Elw Esd]. cbv zeta in Elw, Esd. cbv zeta. change RECORD_HEAD with 8 in *. rewrite Elw, Esd.
  set (lw := snd (prepare_data H compress (a_comp rec) (a_data rec))) in *.
  set (sd := a_stored H compress rec) in *.
  set (M' := le32 (calculate_crc (le32 lw) hdr sd) ++ hdr).
  assert (Htot : 8 + (r_len (a_expect H compress rec) - 8) = a_len H compress rec) by (cbn [a_expect r_len]; lia).
  set (tot := 8 + (r_len (a_expect H compress rec) - 8)) in *.
  cbn [fst s_w s_readers].
  rewrite Forall_forall in Ilog. destruct (Ilog rec Hin) as ((Hrh & Hrbh & Hrbd & Hrlt') & Hrend & Hrb).
  assert (HM' : lenN M' = 4 + H) by (unfold M'; rewrite lenN_app, le32_len, Hh; reflexivity).
  assert (Hsdlen : a_len H compress rec = 4 + ((4 + H) + lenN sd)) by (unfold a_len, sd; change RECORD_HEAD with 8; lia).
  assert (Hcur : a_off rec + 4 + lenN M' <= w_cursor w) by lia.
  (* the virtual file after the header write *)
  assert (Hv : vfile (writer_set_file w (write_at (w_file w) (a_off rec + 4) M')) = write_at (vfile w) (a_off rec + 4) M').
  { unfold vfile, writer_set_file. cbn [w_file w_cursor w_buf]. apply write_at_comm. assumption. }
  assert (Hvl : a_off rec + a_len H compress rec <= lenN (vfile w)) by (pose proof (lenN_vfile w); unfold wpos in Ipos; lia).
  constructor; cbn [s_w s_readers writer_set_file w_file w_cursor w_buf w_off w_flushed w_dirty w_comp w_size sp_off sp_flushed sp_comp sp_size sp_log].
  - exact Ipos.
  - exact Ifl.
  - split; [assumption|]. rewrite lenN_write_at. lia.
  - exact Idirty.
  - tauto.
  - (* the log *)
    apply Forall_forall. intros x' Hx'. apply in_map_iff in Hx'. destruct Hx' as (x & <- & Hx).
    destruct (Ilog x Hx) as (Hxwf & Hxend & Hxb).
    unfold set_hdr. destruct (N.eqb_spec (a_off x) (a_off rec)) as [Eoff|Eoff].
    + assert (x = rec) by (eapply uniq_off; eassumption). subst x.
      split; [unfold a_wf, wf_rec; cbn [a_comp a_hdr a_data]; tauto|]. split; [exact Hxend|].
      change (vfile _) with (vfile (writer_set_file w (write_at (w_file w) (a_off rec + 4) M'))). rewrite Hv.
      cbn [a_off]. change (a_len H compress {| a_off := a_off rec; a_comp := a_comp rec; a_hdr := hdr; a_data := a_data rec |}) with (a_len H compress rec).
      rewrite a_enc_parts. cbn [a_comp a_hdr a_data]. change (a_stored H compress {| a_off := a_off rec; a_comp := a_comp rec; a_hdr := hdr; a_data := a_data rec |}) with sd.
      fold lw. fold M'.
      rewrite a_enc_parts in Hxb. fold lw sd in Hxb.
      set (M := le32 (calculate_crc (le32 lw) (a_hdr rec) sd) ++ a_hdr rec) in *.
      assert (HM : lenN M = 4 + H) by (unfold M; rewrite lenN_app, le32_len, Hrh; reflexivity).
      rewrite Hsdlen in *. rewrite <- HM in Hxb at 1.
      change 4 with (lenN (le32 lw)) in Hxb at 1.
      pose proof (sliceN_replace_mid (vfile w) (a_off rec) (le32 lw) M M' sd ltac:(lia) Hxb) as Hrep.
      rewrite le32_len, HM in Hrep. apply Hrep. rewrite HM in *. lia.
    + split; [assumption|]. split; [assumption|].
      change (vfile _) with (vfile (writer_set_file w (write_at (w_file w) (a_off rec + 4) M'))). rewrite Hv.
      destruct (ordered_In_disjoint _ x rec Iord Hx Hin) as [E|[E|E]]; [subst; contradiction| |]; unfold a_end in *.
      * rewrite sliceN_write_below by lia. assumption.
      * rewrite sliceN_write_above by lia. assumption.
  - apply ordered_map_set_hdr. assumption.
  - (* the readers *)
    apply Forall_nth_error. intros j rj Hj. rewrite nth_error_set_nth in Hj.
    assert (Hwr : forall a n, a + n <= a_off rec + 4 \/ a_off rec + 4 + lenN M' <= a ->
                  sliceN (write_at (w_file w) (a_off rec + 4) M') a n = sliceN (w_file w) a n).
    { intros a n [Ha|Ha]; [apply sliceN_write_below; lia|apply sliceN_write_above; lia]. }
    destruct (Nat.eqb_spec j r) as [->|Hjr].
    + rewrite Hr in Hj. injection Hj as <-.
      assert (Hcra : coherent (w_file w) (w_flushed w) ra) by (eapply nth_error_Forall; eassumption).
      unfold ra_overlaps. destruct (N.eqb_spec (lenN (ra_bytes ra)) 0) as [Hz|Hnz].
      * destruct Hcra as [_ Hc2]. split; [left; assumption|]. rewrite Hz, sliceN_len0. apply lenN_0. assumption.
      * match goal with |- context[if ?c then ra_invalidate ra else ra] => destruct c eqn:Hov end.
        -- split; [left; reflexivity|]. cbn [ra_invalidate ra_bytes ra_off]. change (lenN (@nil N)) with 0. rewrite sliceN_len0. reflexivity.
        -- destruct Hcra as [Hc1 Hc2]. split; [assumption|]. rewrite Hwr; [assumption|].
           apply andb_false_iff in Hov. unfold ra_end in *.
           destruct Hov as [Hov|Hov]; apply N.ltb_ge in Hov; lia.
    + assert (Hcrj : coherent (w_file w) (w_flushed w) rj) by (eapply nth_error_Forall; eassumption).
      pose proof (other_cached_false r (a_off rec + 4) (4 + lenN hdr) (s_readers s) O Hk j rj Hj ltac:(lia)) as Hoc.
      destruct Hcrj as [Hc1 Hc2]. destruct Hoc as [Hz|Hno].
      * split; [left; assumption|]. rewrite Hz, sliceN_len0. apply lenN_0. assumption.
      * split; [assumption|]. apply ranges_overlap_false in Hno. rewrite Hwr; [assumption|]. rewrite HM', <- Hh. lia.
Qed.


(** ** the invariant along a whole history *)
Definition INV2 (s : sl_state) (sp : spec) : Prop := INV s sp /\ sp_nr sp = length (s_readers s).

Lemma INV_sp_eq s sp sp' : INV s sp -> sp_log sp' = sp_log sp -> sp_off sp' = sp_off sp ->
  sp_flushed sp' = sp_flushed sp -> sp_comp sp' = sp_comp sp -> sp_size sp' = sp_size sp -> INV s sp'.
Proof.
  intros [Ipos Ifl Isz Idirty Isp Ilog Iord Ird] E1 E2 E3 E4 E5.
  constructor; try assumption; rewrite ?E1, ?E2, ?E3, ?E4, ?E5; assumption.
Qed.

Lemma set_nth_length {A} (x : A) : forall l n, length (set_nth n x l) = length l.
Proof. induction l as [|y l IH]; intros [|n]; cbn; auto. Qed.

Lemma inv_step s sp op : INV2 s sp -> wf_op H compress sp op -> op_known s op = false ->
  INV2 (fst (sl_step H compress decompress s op)) (spec_step H compress sp op).
Proof.
  intros [I Hnr] Hwf Hk. destruct op as [hdr data| | |o|b| |r|r off seq|r off|r off hdr].
  - split; [apply inv_append; assumption|]. cbn [sl_step spec_step].
    destruct (writer_append H compress (s_w s) hdr data) as [w' res]. cbn [fst s_readers].
    destruct (_ <? _); exact Hnr.
  - split; [apply inv_flush; assumption|exact Hnr].
  - split; [apply inv_sync; assumption|exact Hnr].
  - split; [apply inv_set_len; assumption|]. cbn [sl_step spec_step fst s_readers]. destruct (_ <=? _); exact Hnr.
  - split; [apply inv_comp; assumption|exact Hnr].
  - cbn [sl_step spec_step fst]. split.
    + apply (INV_sp_eq _ sp); try reflexivity. apply inv_add_reader. assumption.
    + cbn [sp_nr s_readers]. rewrite app_length, Hnr. cbn. lia.
  - cbn [sl_step spec_step]. destruct (nth_error (s_readers s) r) as [ra|] eqn:Hr.
    + assert ((r < length (s_readers s))%nat) by (apply nth_error_Some; congruence).
      destruct (Nat.ltb_spec r (sp_nr sp)); [|lia]. cbn [fst]. split.
      * apply (INV_sp_eq _ sp); try reflexivity. apply inv_add_reader. assumption.
      * cbn [sp_nr s_readers]. rewrite app_length, Hnr. cbn. lia.
    + apply nth_error_None in Hr. destruct (Nat.ltb_spec r (sp_nr sp)); [lia|]. split; assumption.
  - split; [apply inv_read; assumption|]. cbn [sl_step spec_step].
    destruct (nth_error (s_readers s) r); [|exact Hnr].
    destruct (read_record _ _ _ _ _ _ _) as [ra' out]. cbn [fst s_readers]. rewrite set_nth_length. exact Hnr.
  - split; [apply inv_iter; assumption|]. cbn [sl_step spec_step].
    destruct (nth_error (s_readers s) r); [|exact Hnr].
    destruct (iter_all _ _ _ _ _ _) as [[[ra' recs] o] t]. cbn [fst s_readers]. rewrite set_nth_length. exact Hnr.
  - split; [apply inv_replace; assumption|]. cbn [sl_step spec_step].
    assert (Hn' : sp_nr (if (r <? sp_nr sp)%nat && existsb (fun r0 => (a_off r0 =? off) && (a_end H compress r0 <=? sp_flushed sp)) (sp_log sp)
                   then {| sp_log := map (set_hdr off hdr) (sp_log sp); sp_off := sp_off sp; sp_flushed := sp_flushed sp;
                           sp_comp := sp_comp sp; sp_size := sp_size sp; sp_nr := sp_nr sp |} else sp) = sp_nr sp)
      by (destruct (_ && _); reflexivity).
    rewrite Hn'. destruct (nth_error (s_readers s) r); [|exact Hnr].
    destruct (replace_header _ _ _ _ _ _ _) as [[f' ra'] out]. cbn [fst s_readers]. rewrite set_nth_length. exact Hnr.
Qed.

Lemma inv_init size start : start <= size -> INV2 (sl_init size start) (spec_init size start).
Proof.
  intros Hs. split; [|reflexivity]. unfold sl_init, spec_init, writer_create.
  constructor; cbn [s_w s_readers w_file w_cursor w_buf w_off w_flushed w_dirty w_comp w_size sp_off sp_flushed sp_comp sp_size sp_log].
  - unfold wpos. cbn [w_cursor w_buf]. change (lenN (@nil N)) with 0. lia.
  - lia.
  - rewrite lenN_zerosN. lia.
  - reflexivity.
  - tauto.
  - constructor.
  - exact I.
  - constructor.
Qed.

Lemma inv_run : forall ops s sp, INV2 s sp -> wf_ops H compress sp ops -> known_free H compress decompress s ops = true ->
  INV2 (fst (sl_run H compress decompress s ops)) (spec_run H compress sp ops).
Proof.
  induction ops as [|op ops IH]; intros s sp I Hwf Hk; [exact I|].
  cbn [sl_run spec_run fold_left]. destruct Hwf as [Hw1 Hw2]. cbn [known_free] in Hk.
  apply andb_prop in Hk. destruct Hk as [Hk1 Hk2]. apply negb_true_iff in Hk1.
  pose proof (inv_step s sp op I Hw1 Hk1) as I1.
  destruct (sl_step H compress decompress s op) as [s1 o] eqn:E. cbn [fst] in *.
  specialize (IH s1 (spec_step H compress sp op) I1 Hw2 Hk2).
  destruct (sl_run H compress decompress s1 ops) as [s2 os]. exact IH.
Qed.

(** ** what every read returns in every reachable state *)
Theorem read_exact s sp r ra rec seq : INV2 s sp -> nth_error (s_readers s) r = Some ra -> In rec (sp_log sp) ->
  snd (read_record H decompress (w_file (s_w s)) (w_flushed (s_w s)) ra (a_off rec) seq) = spec_read H compress sp rec.
Proof.
  intros [I _] Hr Hin. pose proof (INV_file_ok _ _ I) as Hf.
  assert (Hc : coherent (w_file (s_w s)) (w_flushed (s_w s)) ra) by (eapply nth_error_Forall; [apply (i_rd _ _ I)|exact Hr]).
  destruct (read_record_eq H decompress _ _ ra (a_off rec) seq Hf Hc) as (ra' & -> & _). cbn [snd].
  apply live_view; assumption.
Qed.

Theorem read_only_flushed s sp r ra off seq : INV2 s sp -> nth_error (s_readers s) r = Some ra ->
  snd (read_record H decompress (w_file (s_w s)) (w_flushed (s_w s)) ra off seq) =
  decode_view H decompress (view (w_file (s_w s)) (w_flushed (s_w s)) off).
Proof.
  intros [I _] Hr. pose proof (INV_file_ok _ _ I) as Hf.
  assert (Hc : coherent (w_file (s_w s)) (w_flushed (s_w s)) ra) by (eapply nth_error_Forall; [apply (i_rd _ _ I)|exact Hr]).
  destruct (read_record_eq H decompress _ _ ra off seq Hf Hc) as (ra' & -> & _). reflexivity.
Qed.

Lemma scan_spec_iter s sp : INV s sp -> forall fuel off l, spec_iter H compress fuel sp off = Some l ->
  exists o, scan_spec H decompress fuel (takeN (w_flushed (s_w s)) (w_file (s_w s))) off = (l, o, TEnd).
Proof.
  intros I. pose proof (INV_file_ok _ _ I) as Hf. pose proof (i_sp _ _ I) as (_ & Isp2 & _).
  induction fuel as [|fuel IH]; intros off l Hs; [discriminate|].
  cbn [spec_iter scan_spec] in *. rewrite Isp2 in Hs. change RECORD_HEAD with 8 in *.
  change (dropN off (takeN (w_flushed (s_w s)) (w_file (s_w s)))) with (view (w_file (s_w s)) (w_flushed (s_w s)) off).
  destruct (N.ltb_spec (w_flushed (s_w s) - off) 8) as [Hlt|Hge].
  - injection Hs as <-. unfold decode_view. rewrite lenN_view by assumption. change RECORD_HEAD with 8.
    destruct (N.ltb_spec (w_flushed (s_w s) - off) 8); [|lia]. exists off. reflexivity.
  - destruct (find (fun r => a_off r =? off) (sp_log sp)) as [rec|] eqn:Hfind; [|discriminate].
    apply find_some in Hfind. destruct Hfind as [Hin Hoff]. apply N.eqb_eq in Hoff. subst off.
    rewrite (live_view s sp rec I Hin). unfold spec_read. rewrite Isp2. change RECORD_HEAD with 8.
    destruct (N.ltb_spec (w_flushed (s_w s) - a_off rec) 8); [lia|].
    destruct (N.ltb_spec (w_flushed (s_w s)) (a_end H compress rec)).
    + injection Hs as <-. exists (a_off rec). reflexivity.
    + destruct (spec_iter H compress fuel sp (a_end H compress rec)) as [l'|] eqn:Hl'; [|discriminate].
      injection Hs as <-. destruct (IH _ _ Hl') as (o & Ho). cbn [a_expect r_len].
      change (a_off rec + a_len H compress rec) with (a_end H compress rec). rewrite Ho. exists o. reflexivity.
Qed.

Theorem iter_exact s sp r ra off l : INV2 s sp -> nth_error (s_readers s) r = Some ra ->
  spec_iter H compress (scan_fuel (w_flushed (s_w s))) sp off = Some l ->
  exists ra' o, iter_all H decompress (w_file (s_w s)) (w_flushed (s_w s)) ra off = (ra', l, o, TEnd).
Proof.
  intros [I _] Hr Hs. pose proof (INV_file_ok _ _ I) as Hf.
  assert (Hc : coherent (w_file (s_w s)) (w_flushed (s_w s)) ra) by (eapply nth_error_Forall; [apply (i_rd _ _ I)|exact Hr]).
  unfold iter_all. destruct (scan_eq H decompress (scan_fuel (w_flushed (s_w s))) _ _ ra off Hf Hc) as (ra' & -> & _).
  destruct (scan_spec_iter s sp I _ _ _ Hs) as (o & ->). exists ra', o. reflexivity.
Qed.

End Inv.

(** * statements used by Props/C17.v and Props/C18.v *)
Section Top.
Variable H : N.
Variable compress : list N -> list N.
Variable decompress : list N -> option (list N).

Definition expected_rec (comp : bool) (hdr data : list N) : rrec :=
  {| r_hdr := hdr; r_data := data;
     r_cdata := if is_compressed comp data then Some (fst (prepare_data H compress comp data)) else None;
     r_len := stored_len H compress comp data |}.

Lemma stored_enc_ok comp hdr data : codec_ok compress decompress -> wf_rec H compress comp hdr data ->
  enc_ok H decompress (stored_record H compress comp hdr data) (expected_rec comp hdr data).
Proof.
  intros [Hd Hb] Hwf. pose proof Hwf as (Hh & _). unfold enc_ok.
  rewrite (lenN_stored_record H compress decompress) by assumption.
  split. { unfold stored_len, RECORD_HEAD. lia. } split; [reflexivity|].
  intros rest. apply (decode_stored H compress decompress Hd Hb). assumption.
Qed.

(* every read through a coherent buffer is the specification applied to the flushed bytes from `off` *)
Lemma read_is_decode file flushed ra off seq : flushed <= lenN file -> coherent file flushed ra ->
  snd (read_record H decompress file flushed ra off seq) = decode_view H decompress (view file flushed off).
Proof. intros Hf Hc. destruct (read_record_eq H decompress file flushed ra off seq Hf Hc) as (ra' & -> & _). reflexivity. Qed.

Lemma view_starts file flushed off enc : flushed <= lenN file -> off + lenN enc <= flushed ->
  sliceN file off (lenN enc) = enc -> exists rest, view file flushed off = enc ++ rest.
Proof.
  intros Hf Hl Hs. exists (dropN (lenN enc) (view file flushed off)). apply starts_with.
  - rewrite lenN_view by assumption. lia.
  - rewrite (sliceN_view decompress file flushed off 0 (lenN enc)) by lia. rewrite N.add_0_r. assumption.
Qed.

Theorem read_roundtrip comp hdr data file flushed ra off seq :
  codec_ok compress decompress -> wf_rec H compress comp hdr data ->
  flushed <= lenN file -> coherent file flushed ra ->
  sliceN file off (stored_len H compress comp data) = stored_record H compress comp hdr data ->
  off + stored_len H compress comp data <= flushed ->
  snd (read_record H decompress file flushed ra off seq) = ROk (expected_rec comp hdr data).
Proof.
  intros Hc Hwf Hf Hco Hs Hl. rewrite read_is_decode by assumption.
  destruct (stored_enc_ok comp hdr data Hc Hwf) as (_ & Hlen & Hd). cbn [expected_rec r_len] in Hlen.
  rewrite Hlen in Hs, Hl. destruct (view_starts file flushed off _ Hf Hl Hs) as (rest & ->). apply Hd.
Qed.

Theorem parse_roundtrip comp hdr data pre rest :
  codec_ok compress decompress -> wf_rec H compress comp hdr data ->
  parse_record H decompress (pre ++ stored_record H compress comp hdr data ++ rest) (lenN pre) =
  ROk (hdr, data, stored_len H compress comp data).
Proof.
  intros Hc Hwf. unfold parse_record. rewrite parse_record_full_eq, dropN_app_exact.
  destruct (stored_enc_ok comp hdr data Hc Hwf) as (_ & _ & Hd). rewrite Hd. reflexivity.
Qed.

Fixpoint stored_all (rs : list (bool * list N * list N)) : list (list N) :=
  match rs with [] => [] | (c, h, d) :: t => stored_record H compress c h d :: stored_all t end.
Fixpoint expected_all (rs : list (bool * list N * list N)) : list rrec :=
  match rs with [] => [] | (c, h, d) :: t => expected_rec c h d :: expected_all t end.

Lemma stored_all_ok rs : codec_ok compress decompress -> Forall (fun '(c, h, d) => wf_rec H compress c h d) rs ->
  Forall2 (enc_ok H decompress) (stored_all rs) (expected_all rs).
Proof.
  intros Hc. induction 1 as [|[[c h] d] rs Hx _ IH]; cbn [stored_all expected_all]; constructor; [|assumption].
  apply stored_enc_ok; assumption.
Qed.

Theorem iter_roundtrip rs file flushed ra pre tail e :
  codec_ok compress decompress -> Forall (fun '(c, h, d) => wf_rec H compress c h d) rs ->
  flushed <= lenN file -> coherent file flushed ra ->
  takeN flushed file = pre ++ concat (stored_all rs) ++ tail -> decode_view H decompress tail = RErr e ->
  exists ra', iter_all H decompress file flushed ra (lenN pre) =
    (ra', with_offsets (lenN pre) (expected_all rs), lenN pre + lenN (concat (stored_all rs)), term_of e).
Proof.
  intros Hc Hwf Hf Hco Hbs Ht.
  destruct (iter_records H decompress file flushed ra pre _ _ tail e Hf Hco Hbs (stored_all_ok rs Hc Hwf) Ht) as (ra' & E & _).
  exists ra'. exact E.
Qed.

Theorem open_roundtrip rs pre tail e :
  codec_ok compress decompress -> Forall (fun '(c, h, d) => wf_rec H compress c h d) rs ->
  decode_view H decompress tail = RErr e -> e <> EIo ->
  writer_open_offset H decompress (pre ++ concat (stored_all rs) ++ tail) (lenN pre) =
  ROk (lenN pre + lenN (concat (stored_all rs))).
Proof.
  intros Hc Hwf Ht He. eapply open_resumes; [reflexivity|apply stored_all_ok; assumption|exact Ht|exact He].
Qed.

End Top.

(** * concrete witnesses (evaluated by vm_compute) *)
Definition wit_id (x : list N) : list N := x.
Definition wit_some (x : list N) : option (list N) := Some x.
Definition wit_hist_setlen : list sl_op :=
  [ONewReader; OAppend [] [102;105;114;115;116]; OAppend [] [79;76;68;45;50;50]; OSync; ORead 0 0 true;
   OSetLen 13; OAppend [] [78;69;87]; OSync].
Definition wit_hist_replace : list sl_op :=
  [ONewReader; ONewReader; OAppend [1;1] [100;97;116;97]; OSync; ORead 1 0 true; OReplace 0 0 [2;2]].
Definition wit_hist_ok : list sl_op :=
  [ONewReader; OAppend [7;7] [1;2;3]; OSync; ORead 0 0 true; OAppend [8;8] [4;5]; OFlush; ORead 0 13 true;
   OClone 0; OSync; ORead 0 13 true; OAppend [9;9] [6]; OSetLen 25; OComp true; OAppend [3;3] [6;6];
   OSync; OReplace 0 13 [5;5]; OIter 1 0; ORead 0 25 false].

Ltac wf_tac :=
  repeat match goal with
  | |- _ /\ _ => split
  | |- True => exact I
  | |- all_bytes _ => unfold all_bytes, is_byte; repeat constructor; reflexivity
  | |- lenN _ = _ => reflexivity
  | |- _ < _ => vm_compute; reflexivity
  | |- exists r, In r _ /\ _ =>
      eexists; split; [vm_compute; first [left; reflexivity | right; left; reflexivity | right; right; left; reflexivity]|reflexivity]
  end.

Lemma c18_known_witness :
  (let s := fst (sl_run 0 wit_id wit_some (sl_init 4096 0) wit_hist_setlen) in
   let sp := spec_run 0 wit_id (spec_init 4096 0) wit_hist_setlen in
   wf_ops 0 wit_id (spec_init 4096 0) wit_hist_setlen /\
   known_free 0 wit_id wit_some (sl_init 4096 0) wit_hist_setlen = false /\
   exists ra rec, nth_error (s_readers s) 0 = Some ra /\ In rec (sp_log sp) /\ a_off rec = 13 /\
     spec_read 0 wit_id sp rec = ROk (a_expect 0 wit_id rec) /\
     snd (read_record 0 wit_some (w_file (s_w s)) (w_flushed (s_w s)) ra 13 true) <> spec_read 0 wit_id sp rec) /\
  (let s := fst (sl_run 2 wit_id wit_some (sl_init 4096 0) wit_hist_replace) in
   let sp := spec_run 2 wit_id (spec_init 4096 0) wit_hist_replace in
   wf_ops 2 wit_id (spec_init 4096 0) wit_hist_replace /\
   known_free 2 wit_id wit_some (sl_init 4096 0) wit_hist_replace = false /\
   exists ra rec, nth_error (s_readers s) 1 = Some ra /\ In rec (sp_log sp) /\ a_off rec = 0 /\
     r_hdr (a_expect 2 wit_id rec) = [2;2] /\
     snd (read_record 2 wit_some (w_file (s_w s)) (w_flushed (s_w s)) ra 0 true) <> spec_read 2 wit_id sp rec).
Proof.
  split.
  - cbv zeta. split; [cbn [wf_ops wit_hist_setlen wf_op]; wf_tac|]. split; [vm_compute; reflexivity|].
    eexists. eexists. split; [vm_compute; reflexivity|]. split; [vm_compute; right; left; reflexivity|].
    split; [reflexivity|]. split; [vm_compute; reflexivity|]. vm_compute. discriminate.
  - cbv zeta. split; [cbn [wf_ops wit_hist_replace wf_op]; wf_tac|]. split; [vm_compute; reflexivity|].
    eexists. eexists. split; [vm_compute; reflexivity|]. split; [vm_compute; left; reflexivity|].
    split; [reflexivity|]. split; [vm_compute; reflexivity|]. vm_compute. discriminate.
Qed.

Lemma c18_ex_hyps_ok :
  wf_ops 2 wit_id (spec_init 4096 0) wit_hist_ok /\
  known_free 2 wit_id wit_some (sl_init 4096 0) wit_hist_ok = true.
Proof.
  split; [|vm_compute; reflexivity].
  cbn [wf_ops wit_hist_ok wf_op]. wf_tac.
  vm_compute. eexists. split; [right; left; reflexivity|reflexivity].
Qed.

(** * iteration over a log whose truncations were aimed at record starts: the records tile [start, write offset) *)
Section Tiling.
Variable H : N.
Variable compress : list N -> list N.

Local Notation a_end := (a_end H compress).
Local Notation a_len := (a_len H compress).

Fixpoint tiled (lo : N) (l : list arec) (hi : N) : Prop :=
  match l with [] => lo = hi | r :: t => a_off r = lo /\ tiled (a_end r) t hi end.

Lemma a_len_pos r : 8 <= a_len r.
Proof. unfold Seglog.a_len. change RECORD_HEAD with 8. lia. Qed.
Lemma a_end_gt r : a_off r + 8 <= a_end r.
Proof. unfold Seglog.a_end. pose proof (a_len_pos r). lia. Qed.

Lemma tiled_le lo l hi : tiled lo l hi -> lo <= hi.
Proof.
  revert lo. induction l as [|r l IH]; intros lo Ht; cbn in Ht; [lia|].
  destruct Ht as [Ho Ht]. apply IH in Ht. pose proof (a_end_gt r). lia.
Qed.
Lemma tiled_bounds lo l hi : tiled lo l hi -> Forall (fun x => lo <= a_off x /\ a_end x <= hi) l.
Proof.
  revert lo. induction l as [|r l IH]; intros lo Ht; [constructor|]. destruct Ht as [Ho Ht].
  pose proof (tiled_le _ _ _ Ht). pose proof (a_end_gt r). constructor; [lia|].
  eapply Forall_impl; [|apply IH; exact Ht]. intros x [? ?]. cbn beta. lia.
Qed.
Lemma tiled_app_one lo l hi r : tiled lo l hi -> a_off r = hi -> tiled lo (l ++ [r]) (a_end r).
Proof.
  revert lo. induction l as [|x l IH]; intros lo Ht Hr; cbn in *; [split; [lia|reflexivity]|].
  destruct Ht as [Ho Ht]. split; [assumption|]. apply IH; assumption.
Qed.
Lemma tiled_map_set_hdr off hdr lo l hi : tiled lo l hi -> tiled lo (map (set_hdr off hdr) l) hi.
Proof.
  revert lo. induction l as [|x l IH]; intros lo Ht; cbn in *; [assumption|]. destruct Ht as [Ho Ht].
  split; [rewrite a_off_set_hdr; assumption|]. rewrite (a_end_set_hdr H compress). apply IH. assumption.
Qed.
Lemma filter_none_above lo l hi o : tiled lo l hi -> o <= lo -> filter (fun x => a_end x <=? o) l = [].
Proof.
  intros Ht Ho. apply tiled_bounds in Ht. induction Ht as [|x l [Hx1 Hx2] _ IH]; [reflexivity|]. cbn [filter].
  pose proof (a_end_gt x). destruct (N.leb_spec (a_end x) o); [lia|]. exact IH.
Qed.
Lemma tiled_truncate lo l hi r : tiled lo l hi -> In r l ->
  tiled lo (filter (fun x => a_end x <=? a_off r) l) (a_off r).
Proof.
  revert lo. induction l as [|x l IH]; intros lo Ht Hin; [contradiction|]. destruct Ht as [Ho Ht]. cbn [filter].
  destruct Hin as [->|Hin].
  - pose proof (a_end_gt r). destruct (N.leb_spec (a_end r) (a_off r)); [lia|].
    rewrite (filter_none_above _ _ _ (a_off r) Ht) by lia. cbn. lia.
  - pose proof (tiled_bounds _ _ _ Ht) as Hb. rewrite Forall_forall in Hb. destruct (Hb r Hin) as [Hr1 Hr2].
    destruct (N.leb_spec (a_end x) (a_off r)); [|lia]. cbn [tiled]. split; [assumption|]. apply IH; assumption.
Qed.

(* the invariant of the specification under boundary truncations *)
Definition sp_tiled (start : N) (sp : spec) : Prop :=
  tiled start (sp_log sp) (sp_off sp) /\ sp_flushed sp <= sp_off sp.

Lemma sp_tiled_step start sp op : sp_tiled start sp -> boundary_op sp op -> start <= sp_off sp ->
  sp_tiled start (spec_step H compress sp op) /\ start <= sp_off (spec_step H compress sp op).
Proof.
  intros [Ht Hf] Hb Hs. unfold sp_tiled. destruct op as [hdr data| | |o|b| |r|r off seq|r off|r off hdr]; cbn [spec_step]; try (split; [split|]; assumption).
  - set (r := {| a_off := sp_off sp; a_comp := sp_comp sp; a_hdr := hdr; a_data := data |}).
    destruct (_ <? _); [split; [split|]; assumption|]. cbn [sp_log sp_off sp_flushed].
    pose proof (a_end_gt r). split; [split|]; [apply (tiled_app_one _ _ (sp_off sp)); [assumption|reflexivity]|cbn [a_off r] in *; unfold r in *; cbn in *; lia|unfold r in *; cbn in *; lia].
  - cbn [sp_log sp_off sp_flushed]. split; [split|]; [assumption|lia|assumption].
  - destruct (N.leb_spec (sp_off sp) o); [split; [split|]; assumption|]. cbn [sp_log sp_off sp_flushed].
    cbn [boundary_op] in Hb. destruct Hb as [Hb|(r & Hin & <-)]; [lia|].
    pose proof (tiled_bounds _ _ _ Ht) as Hbd. rewrite Forall_forall in Hbd. destruct (Hbd r Hin).
    split; [split|]; [apply (tiled_truncate _ _ (sp_off sp)); assumption|lia|lia].
  - destruct (Nat.ltb _ _); cbn [sp_log sp_off sp_flushed]; (split; [split|]; assumption).
  - destruct (_ && _); [|split; [split|]; assumption]. cbn [sp_log sp_off sp_flushed].
    split; [split|]; [apply tiled_map_set_hdr; assumption|assumption|assumption].
Qed.

Lemma sp_tiled_run start : forall ops sp, sp_tiled start sp -> start <= sp_off sp -> boundary_ops H compress sp ops ->
  sp_tiled start (spec_run H compress sp ops).
Proof.
  induction ops as [|op ops IH]; intros sp Ht Hs Hb; [exact Ht|]. destruct Hb as [Hb1 Hb2].
  destruct (sp_tiled_step start sp op Ht Hb1 Hs) as [Ht' Hs']. cbn [spec_run fold_left]. apply IH; assumption.
Qed.

(* in a tiled log the record starting at a given offset is found, and iteration walks the records in order *)
Lemma find_tiled lo l1 r l2 hi : tiled lo (l1 ++ r :: l2) hi ->
  find (fun x => a_off x =? a_off r) (l1 ++ r :: l2) = Some r.
Proof.
  revert lo. induction l1 as [|x l1 IH]; intros lo Ht; cbn [app find].
  - rewrite N.eqb_refl. reflexivity.
  - destruct Ht as [Ho Ht]. pose proof (tiled_bounds _ _ _ Ht) as Hb. rewrite Forall_forall in Hb.
    destruct (Hb r ltac:(apply in_or_app; right; left; reflexivity)) as [Hr _]. pose proof (a_end_gt x).
    destruct (N.eqb_spec (a_off x) (a_off r)); [lia|]. eapply IH. exact Ht.
Qed.

Lemma filter_cons {A} (p : A -> bool) (x : A) l : filter p (x :: l) = (if p x then [x] else []) ++ filter p l.
Proof. cbn [filter]. destruct (p x); reflexivity. Qed.

Lemma filter_before off l1 (p : arec -> bool) : Forall (fun x => a_off x < off) l1 ->
  filter (fun r => (off <=? a_off r) && p r) l1 = [].
Proof.
  induction 1 as [|x l Hx _ IH]; [reflexivity|]. cbn [filter]. destruct (N.leb_spec off (a_off x)); [lia|]. exact IH.
Qed.

Lemma spec_iter_tiled sp start : sp_tiled start sp ->
  forall l2 l1 r fuel, sp_log sp = l1 ++ r :: l2 -> (N.to_nat ((sp_flushed sp - a_off r) / 8) < fuel)%nat ->
  spec_iter H compress fuel sp (a_off r) = Some (flushed_from H compress sp (a_off r)).
Proof.
  intros [Ht Hf]. induction l2 as [|r' l2 IH]; intros l1 r fuel Hlog Hfuel.
  - (* r is the last record *)
    destruct fuel as [|fuel]; [lia|]. cbn [spec_iter]. change RECORD_HEAD with 8.
    rewrite Hlog in Ht. pose proof (find_tiled _ _ _ _ _ Ht) as Hfind.
    assert (Hl1 : Forall (fun x => a_off x < a_off r) l1).
    { clear - Ht. revert Ht. generalize start. induction l1 as [|x l1 IH]; intros lo Ht; [constructor|]. destruct Ht as [Ho Ht].
      pose proof (tiled_bounds _ _ _ Ht) as Hb. rewrite Forall_forall in Hb.
      destruct (Hb r ltac:(apply in_or_app; right; left; reflexivity)) as [Hr _]. pose proof (a_end_gt x).
      constructor; [lia|]. eapply IH. exact Ht. }
    assert (Hend : a_end r = sp_off sp).
    { clear - Ht. revert Ht. generalize start. induction l1 as [|x l1 IH]; intros lo Ht; cbn in Ht; [tauto|]. destruct Ht as [_ Ht]. eapply IH. exact Ht. }
    unfold flushed_from. rewrite Hlog, filter_app, (filter_before _ _ _ Hl1). cbn [app filter].
    destruct (N.leb_spec (a_off r) (a_off r)); [|lia]. cbn [andb]. pose proof (a_end_gt r).
    destruct (N.ltb_spec (sp_flushed sp - a_off r) 8).
    + destruct (N.leb_spec (a_end r) (sp_flushed sp)); [lia|]. reflexivity.
    + rewrite Hfind. destruct (N.ltb_spec (sp_flushed sp) (a_end r)); destruct (N.leb_spec (a_end r) (sp_flushed sp)); try lia; [reflexivity|].
      destruct fuel as [|fuel]; [exfalso; lia|]. cbn [spec_iter]. change RECORD_HEAD with 8.
      destruct (N.ltb_spec (sp_flushed sp - a_end r) 8); [reflexivity|lia].
  - (* r is followed by r' *)
    destruct fuel as [|fuel]; [lia|]. cbn [spec_iter]. change RECORD_HEAD with 8.
    pose proof Ht as Ht0. rewrite Hlog in Ht. pose proof (find_tiled _ _ _ _ _ Ht) as Hfind.
    assert (Hl1 : Forall (fun x => a_off x < a_off r) l1).
    { clear - Ht. revert Ht. generalize start. induction l1 as [|x l1 IH']; intros lo Ht; [constructor|]. destruct Ht as [Ho Ht].
      pose proof (tiled_bounds _ _ _ Ht) as Hb. rewrite Forall_forall in Hb.
      destruct (Hb r ltac:(apply in_or_app; right; left; reflexivity)) as [Hr _]. pose proof (a_end_gt x).
      constructor; [lia|]. eapply IH'. exact Ht. }
    assert (Hnext : a_off r' = a_end r /\ Forall (fun x => a_end r <= a_off x /\ a_end x <= sp_off sp) (r' :: l2)).
    { clear - Ht. revert Ht. generalize start. induction l1 as [|x l1 IH']; intros lo Ht; cbn in Ht.
      - destruct Ht as [_ Ht]. split; [apply Ht|]. apply (tiled_bounds (a_end r) (r' :: l2) (sp_off sp)). exact Ht.
      - destruct Ht as [_ Ht]. eapply IH'. exact Ht. }
    destruct Hnext as [Hn1 Hn2]. pose proof (a_end_gt r).
    assert (Hrest_none : sp_flushed sp < a_end r -> filter (fun x => (a_off r <=? a_off x) && (a_end x <=? sp_flushed sp)) (r' :: l2) = []).
    { intros Hlt. clear - Hn2 Hlt. induction Hn2 as [|x l [Hx1 Hx2] _ IH']; [reflexivity|]. cbn [filter].
      pose proof (a_end_gt x). destruct (N.leb_spec (a_end x) (sp_flushed sp)); [lia|]. rewrite andb_false_r. exact IH'. }
    assert (Hff : flushed_from H compress sp (a_off r) =
                  map (fun x => (a_off x, a_expect H compress x))
                      ((if a_end r <=? sp_flushed sp then [r] else []) ++
                       filter (fun x => (a_off r <=? a_off x) && (a_end x <=? sp_flushed sp)) (r' :: l2))).
    { unfold flushed_from. rewrite Hlog, filter_app, (filter_before _ _ _ Hl1). cbn [app]. rewrite filter_cons.
      destruct (N.leb_spec (a_off r) (a_off r)); [|lia]. cbn [andb]. reflexivity. }
    rewrite Hff.
    destruct (N.ltb_spec (sp_flushed sp - a_off r) 8).
    + destruct (N.leb_spec (a_end r) (sp_flushed sp)); [lia|]. rewrite Hrest_none by lia. reflexivity.
    + rewrite Hlog, Hfind.
      destruct (N.ltb_spec (sp_flushed sp) (a_end r)); destruct (N.leb_spec (a_end r) (sp_flushed sp)); try lia.
      * rewrite Hrest_none by lia. reflexivity.
      * (* r complete: continue at r' *)
        rewrite <- Hn1.
        assert (Hlog' : sp_log sp = (l1 ++ [r]) ++ r' :: l2) by (rewrite <- app_assoc; exact Hlog).
        rewrite (IH (l1 ++ [r]) r' fuel Hlog') by (rewrite Hn1; lia).
        cbn [app map]. f_equal. f_equal.
        unfold flushed_from. rewrite Hlog, filter_app.
        assert (Hl1' : Forall (fun x => a_off x < a_off r') l1) by (eapply Forall_impl; [|exact Hl1]; intros; cbn beta in *; lia).
        rewrite (filter_before _ _ _ Hl1'). cbn [app]. rewrite filter_cons.
        destruct (N.leb_spec (a_off r') (a_off r)); [lia|]. cbn [andb app]. f_equal.
        apply filter_ext_in. intros x Hx. rewrite Forall_forall in Hn2. destruct (Hn2 x Hx).
        destruct (N.leb_spec (a_off r') (a_off x)); destruct (N.leb_spec (a_off r) (a_off x)); try lia; reflexivity.
Qed.

(** iteration from the start of ANY live record yields exactly the flushed records from there on *)
Theorem spec_iter_total size start ops :
  start <= size -> boundary_ops H compress (spec_init size start) ops ->
  let sp := spec_run H compress (spec_init size start) ops in
  forall r, In r (sp_log sp) ->
  spec_iter H compress (scan_fuel (sp_flushed sp)) sp (a_off r) = Some (flushed_from H compress sp (a_off r)).
Proof.
  intros Hs Hb sp r Hin.
  assert (Ht : sp_tiled start sp).
  { apply sp_tiled_run; [split; cbn; [reflexivity|lia]|cbn; lia|assumption]. }
  apply in_split in Hin. destruct Hin as (l1 & l2 & Hlog).
  apply (spec_iter_tiled sp start Ht l2 l1 r); [assumption|].
  unfold scan_fuel. change RECORD_HEAD with 8.
  assert ((sp_flushed sp - a_off r) / 8 <= sp_flushed sp / 8) by (apply N.div_le_mono; lia). lia.
Qed.

End Tiling.

Theorem iter_flushed H compress decompress size start ops :
  (forall x, decompress (compress x) = Some x) -> (forall x, all_bytes x -> all_bytes (compress x)) ->
  start <= size -> wf_ops H compress (spec_init size start) ops ->
  known_free H compress decompress (sl_init size start) ops = true ->
  boundary_ops H compress (spec_init size start) ops ->
  let s := fst (sl_run H compress decompress (sl_init size start) ops) in
  let sp := spec_run H compress (spec_init size start) ops in
  forall r ra rec, nth_error (s_readers s) r = Some ra -> In rec (sp_log sp) ->
  exists ra' o, iter_all H decompress (w_file (s_w s)) (w_flushed (s_w s)) ra (a_off rec) =
                (ra', flushed_from H compress sp (a_off rec), o, TEnd).
Proof.
  intros Hd Hb Hs Hwf Hk Hbo s sp r ra rec Hr Hin.
  assert (I : INV2 H compress s sp) by (apply inv_run; [assumption|assumption|apply inv_init; assumption|assumption|assumption]).
  pose proof (i_sp _ _ _ _ (proj1 I)) as (_ & Isp2 & _).
  apply (iter_exact H compress decompress Hd Hb s sp r ra (a_off rec)); [assumption|assumption|].
  rewrite <- Isp2. apply spec_iter_total; assumption.
Qed.


(** * the C18 statements, in the form Props/C18.v states them *)
Section C18Top.
Variable H : N.
Variable compress : list N -> list N.
Variable decompress : list N -> option (list N).
Variables (size start : N) (ops : list sl_op).
Hypothesis Hcodec : codec_ok compress decompress.
Hypothesis Hstart : start <= size.
Hypothesis Hwf : wf_ops H compress (spec_init size start) ops.
Hypothesis Hkf : known_free H compress decompress (sl_init size start) ops = true.

Let s := fst (sl_run H compress decompress (sl_init size start) ops).
Let sp := spec_run H compress (spec_init size start) ops.

Lemma c18_inv : INV2 H compress s sp.
Proof. destruct Hcodec as [Hd Hb]. apply inv_run; [assumption|assumption|apply inv_init; assumption|assumption|assumption]. Qed.

Lemma c18_read_exact r ra rec seq : nth_error (s_readers s) r = Some ra -> In rec (sp_log sp) ->
  snd (read_record H decompress (w_file (s_w s)) (w_flushed (s_w s)) ra (a_off rec) seq) = spec_read H compress sp rec.
Proof. destruct Hcodec as [Hd Hb]. intros. apply (read_exact H compress decompress Hd Hb s sp r ra rec seq); [apply c18_inv|assumption|assumption]. Qed.

Lemma c18_no_unflushed r ra off seq : nth_error (s_readers s) r = Some ra ->
  snd (read_record H decompress (w_file (s_w s)) (w_flushed (s_w s)) ra off seq) =
  decode_view H decompress (dropN off (takeN (w_flushed (s_w s)) (w_file (s_w s)))).
Proof. intros. apply (read_only_flushed H compress decompress s sp r ra off seq); [apply c18_inv|assumption]. Qed.

Lemma c18_iter_exact r ra off l : nth_error (s_readers s) r = Some ra ->
  spec_iter H compress (scan_fuel (w_flushed (s_w s))) sp off = Some l ->
  exists ra' o, iter_all H decompress (w_file (s_w s)) (w_flushed (s_w s)) ra off = (ra', l, o, TEnd).
Proof. destruct Hcodec as [Hd Hb]. intros. apply (iter_exact H compress decompress Hd Hb s sp r ra off l); [apply c18_inv|assumption|assumption]. Qed.

Lemma c18_iter_flushed : boundary_ops H compress (spec_init size start) ops ->
  forall r ra rec, nth_error (s_readers s) r = Some ra -> In rec (sp_log sp) ->
  exists ra' o, iter_all H decompress (w_file (s_w s)) (w_flushed (s_w s)) ra (a_off rec) =
                (ra', flushed_from H compress sp (a_off rec), o, TEnd).
Proof. destruct Hcodec as [Hd Hb]. intros Hbo. exact (iter_flushed H compress decompress size start ops Hd Hb Hstart Hwf Hkf Hbo). Qed.

Lemma c18_offsets :
  w_off (s_w s) = sp_off sp /\ w_flushed (s_w s) = sp_flushed sp /\
  w_flushed (s_w s) <= w_cursor (s_w s) /\ w_cursor (s_w s) + lenN (w_buf (s_w s)) = w_off (s_w s) /\
  w_off (s_w s) <= w_size (s_w s).
Proof.
  destruct c18_inv as [[Ipos Ifl [Isz1 Isz2] Idirty (Isp1 & Isp2 & Isp3 & Isp4) Ilog Iord Ird] _].
  unfold wpos in Ipos. repeat split; auto; lia.
Qed.
End C18Top.

(* a toy codec satisfying codec_ok, for the examples *)
Definition wit_compress (x : list N) : list N := 7 :: x.
Definition wit_decompress (x : list N) : option (list N) := match x with 7 :: t => Some t | _ => None end.
Lemma wit_codec_ok : codec_ok wit_compress wit_decompress.
Proof. split; [reflexivity|]. intros x Hx. constructor; [unfold is_byte; lia|assumption]. Qed.
Lemma wit_id_codec_ok : codec_ok wit_id wit_some.
Proof. split; [reflexivity|]. intros x Hx. exact Hx. Qed.

Lemma burst_any_reader : forall H decompress file flushed ra off seq A B P rest r e,
  flushed <= lenN file -> coherent file flushed ra ->
  view file flushed off = A ++ B ++ xor_bytes P e ++ rest ->
  valid_at H decompress A B P rest r -> all_bytes e -> length P = length e -> burst32 e ->
  snd (read_record H decompress file flushed ra off seq) = RErr ECrc.
Proof.
  intros H decompress file flushed ra off seq A B P rest r e Hf Hc Hv Hval He Hl Hb.
  rewrite read_is_decode by assumption. rewrite Hv.
  exact (burst_in_payload_detected H (fun x => x) decompress A B P rest r e Hval He Hl Hb).
Qed.

(* any single flipped bit of header/stored data *)
Lemma single_bit_detected : forall H decompress A B P rest r e,
  valid_at H decompress A B P rest r -> all_bytes e -> length P = length e ->
  (exists pre post, bytes_bits e = repeat false pre ++ true :: repeat false post) ->
  decode_view H decompress (A ++ B ++ xor_bytes P e ++ rest) = RErr ECrc.
Proof.
  intros H decompress A B P rest r e Hv He Hl Hb.
  exact (burst_in_payload_detected H (fun x => x) decompress A B P rest r e Hv He Hl (burst32_single_bit e Hb)).
Qed.
