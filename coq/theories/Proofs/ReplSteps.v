(** C10/C11 proofs, part 4: every action of the transition system preserves the invariant and only extends the state. *)
From Coq Require Import NArith List Bool Lia.
From SV Require Import Model.Replication.
From SV Require Import Proofs.ReplLog Proofs.ReplExt Proofs.ReplInv.
Import ListNotations.
Open Scope N_scope.

Lemma t_find_in : forall ts T t, t_find T ts = Some t -> In t ts /\ ct_tx t = T.
Proof.
  induction ts as [|a r IH]; intros T t H; [discriminate|]. cbn in H.
  destruct (ct_tx a =? T) eqn:E; [inversion H; subst; split; [left; auto|apply N.eqb_eq; auto]|].
  destruct (IH T t H). split; [right|]; auto.
Qed.
Lemma t_remove_incl : forall ts T x, In x (t_remove T ts) -> In x ts.
Proof.
  induction ts as [|a r IH]; intros T x H; [destruct H|]. cbn in H.
  destruct (ct_tx a =? T); [right; auto|]. destruct H as [<-|H]; [left; auto|right; eauto].
Qed.
Lemma t_set_in : forall ts t x, In x (t_set t ts) -> x = t \/ In x ts.
Proof.
  induction ts as [|a r IH]; intros t x H; cbn in H; [destruct H|].
  destruct (ct_tx a =? ct_tx t).
  - destruct H as [<-|H]; auto. right. right. auto.
  - destruct H as [<-|H]; [right; left; auto|]. destruct (IH t x H); auto. right. right. auto.
Qed.
Lemma l_remove_in r l x : In x (l_remove r l) <-> In x l /\ x <> r.
Proof.
  unfold l_remove. rewrite filter_In. rewrite negb_true_iff, N.eqb_neq. tauto.
Qed.
Lemma l_remove_nodup r l : NoDup l -> NoDup (l_remove r l).
Proof. apply NoDup_filter. Qed.
Lemma memb_in n l : memb n l = true <-> In n l.
Proof.
  unfold memb. rewrite existsb_exists. split.
  - intros (x & Hx & E). apply N.eqb_eq in E. subst. auto.
  - intros H. exists n. split; auto. apply N.eqb_refl.
Qed.

Section Steps.
  Variable cfg : config.
  Hypothesis cfg_fixed : c_cufix cfg = true.
  Let q := c_q cfg.
  Let reps := c_reps cfg.
  Notation Inv := (Inv cfg).
  Notation IE := (IE cfg).
  Notation task_ok := (task_ok cfg).
  Notation msg_ok := (msg_ok cfg).
  Notation bw_ok := (bw_ok cfg).
  Notation ent_ok := (ent_ok cfg).
  Notation ent_ok_w := (ent_ok_w cfg).
  Notation Justified := (Justified cfg).
  Notation ext := (ext cfg).

  Lemma q_pos : 1 <= q.
  Proof. unfold q, c_q, quorum. generalize (c_rf cfg / 2). intros. lia. Qed.

  Lemma Orig_fun st T c s k c' s' k' : Orig st T c s k -> Orig st T c' s' k' -> c = c' /\ s = s' /\ k = k'.
  Proof. unfold Orig. intros H1 H2. rewrite H1 in H2. inversion H2. auto. Qed.

  Lemma confirmed_justified st c t : task_ok st c t -> q <= N.of_nat (length (ct_confirmed t)) -> Justified st (ct_tx t).
  Proof.
    intros (_ & _ & _ & ND & Hh & _) Hq. unfold Justified, ReplInv.Justified, holders.
    assert (length (ct_confirmed t) <= length (filter (fun n => holds_whole (ns_log (g_nodes st n)) (ct_tx t)) (c_reps cfg)))%nat.
    { apply NoDup_incl_length; auto. intros r Hr. destruct (Hh r Hr). apply filter_In. split; auto. }
    fold q. lia.
  Qed.

  (* ---------------------------------------------------------------- steps that leave the disk alone *)
  Lemma simple_ext st n ns' outs : ns_log ns' = lg st n -> ext st (step_to st n ns' outs).
  Proof.
    intros Hl. split; [|auto]. intros m. unfold lg, step_to. cbn [g_nodes]. destruct (N.eq_dec m n) as [->|Hm].
    - rewrite upd_same, Hl. apply keeps_refl.
    - rewrite upd_other by exact Hm. apply keeps_refl.
  Qed.

  Lemma simple_step st n ns' outs : Inv st -> ns_log ns' = lg st n ->
    (forall rp, ns_rp ns' = Some rp -> In n reps /\ BufP (bw_ok st) rp) ->
    Forall (task_ok (step_to st n ns' outs) n) (ns_tasks ns') ->
    (forall m, In m outs -> msg_ok (step_to st n ns' outs) m) ->
    NoDup (map fst (ns_view ns')) ->
    IE st (step_to st n ns' outs).
  Proof.
    intros HI Hl Hrp Ht Ho Hv. split; [|apply simple_ext; exact Hl].
    apply node_step_inv with (PA := fun _ => False) (PS := fun _ _ => False); auto.
    - rewrite Hl. apply lext_refl.
    - intros e [].
    - intros T c [].
  Qed.

  Lemma tasks_keep st st' n ts : ext st st' -> Forall (task_ok st n) ts -> Forall (task_ok st' n) ts.
  Proof. intros E. apply Forall_impl. intros a. apply task_ok_mono. exact E. Qed.

  Ltac node_facts HI n :=
    let HN := fresh "HN" in let HM := fresh "HM" in
    pose proof HI as (HN & HM);
    let C := fresh "Hchain" in let F := fresh "Hents" in let R := fresh "Hrp" in let T := fresh "Htasks" in let V := fresh "Hview" in
    pose proof (HN n) as (C & F & R & T & V).

  Lemma step_nil st n ns' : IE st (step_to st n ns' []) -> IE st (mk_gs (upd (g_nodes st) n ns') (g_net st) (g_orig st)).
  Proof. unfold step_to. rewrite app_nil_r. auto. Qed.

  Lemma step_view st n v : Inv st -> IE st (g_step cfg st (AView n v)).
  Proof.
    intros HI. cbn [g_step]. destruct (view_ok cfg n v) eqn:Hv; [|split; [auto|apply ext_refl]].
    apply step_nil.
    node_facts HI n.
    assert (E : ext st (step_to st n (ns_with_view (g_nodes st n) v) [])) by (apply simple_ext; reflexivity).
    apply simple_step; auto.
    - eapply tasks_keep; eauto.
    - intros m [].
    - cbn [ns_view ns_with_view]. unfold view_ok in Hv. apply andb_true_iff in Hv. destruct Hv as (_ & Hnd).
      clear - Hnd. induction (map fst v) as [|a t IH]; [constructor|].
      apply andb_true_iff in Hnd. destruct Hnd as (Ha & Ht). constructor; auto.
      intros Hin. apply memb_in in Hin. rewrite Hin in Ha. discriminate.
  Qed.


  Lemma Forall_incl {A} (P : A -> Prop) l l' : (forall x, In x l' -> In x l) -> Forall P l -> Forall P l'.
  Proof. intros H F. rewrite Forall_forall in *. auto. Qed.

  Lemma step_timeout st c T : Inv st -> IE st (g_step cfg st (ATimeout c T)).
  Proof.
    intros HI. cbn [g_step]. destruct (n_timeout c (g_nodes st c) T) as [ns' outs] eqn:E.
    change (IE st (step_to st c ns' outs)). node_facts HI c.
    unfold n_timeout in E.
    assert (Hsame : IE st (step_to st c (g_nodes st c) [])).
    { apply simple_step; auto. - eapply tasks_keep; [apply simple_ext; reflexivity|auto]. - intros m []. }
    assert (Hrem : forall o, (forall m, In m o -> exists r, m = MClient c T (AErr r)) ->
                   IE st (step_to st c (ns_with_tasks (g_nodes st c) (t_remove T (ns_tasks (g_nodes st c)))) o)).
    { intros o Ho. apply simple_step; auto.
      - cbn [ns_tasks ns_with_tasks]. eapply Forall_incl; [apply t_remove_incl|]. eapply tasks_keep; [apply simple_ext; reflexivity|auto].
      - intros m Hm. destruct (Ho m Hm) as (r & ->). exact I. }
    destruct (t_find T (ns_tasks (g_nodes st c))) as [t|]; [|inversion E; subst; exact Hsame].
    destruct (ct_phase t); inversion E; subst; auto.
    - apply Hrem. intros m [<-|[]]. eauto.
    - apply Hrem. intros m [].
  Qed.

  Lemma step_tick st r : Inv st -> IE st (g_step cfg st (ATick r)).
  Proof.
    intros HI. cbn [g_step]. destruct (n_tick r (g_nodes st r)) as [ns' outs] eqn:E.
    change (IE st (step_to st r ns' outs)). node_facts HI r. unfold n_tick in E.
    destruct (ns_rp (g_nodes st r)) as [rp|] eqn:R.
    - destruct (rp_tick r rp) as [rp' o] eqn:Tk. inversion E; subst.
      destruct (Hrp rp eq_refl) as (Hin & HB).
      destruct (rp_tick_spec r (bw_ok st) rp rp' outs Tk HB) as (HB' & Ho).
      apply simple_step; auto.
      + cbn. intros rp0 H0. inversion H0; subst. auto.
      + eapply tasks_keep; [apply simple_ext; reflexivity|auto].
      + intros m Hm. destruct (Ho m Hm) as (c & f & t & ->). exact I.
    - inversion E; subst. apply simple_step; auto.
      + intros rp H0. rewrite R in H0. discriminate.
      + eapply tasks_keep; [apply simple_ext; reflexivity|auto].
      + intros m [].
  Qed.

  Lemma step_expire st r key : Inv st -> IE st (g_step cfg st (AExpire r key)).
  Proof.
    intros HI. cbn [g_step]. apply step_nil. node_facts HI r. unfold n_expire.
    destruct (ns_rp (g_nodes st r)) as [rp|] eqn:R.
    - destruct (Hrp rp eq_refl) as (Hin & HB). apply simple_step; auto.
      + cbn. intros rp0 H0. inversion H0; subst. split; auto. intros w Hw. cbn in Hw. apply b_remove_incl in Hw. auto.
      + eapply tasks_keep; [apply simple_ext; reflexivity|auto].
      + intros m [].
    - apply simple_step; auto.
      + intros rp0 H0. congruence.
      + eapply tasks_keep; [apply simple_ext; reflexivity|auto].
      + intros m [].
  Qed.

  Lemma step_wm st n w : Inv st -> IE st (g_step cfg st (AWm n w)).
  Proof.
    intros HI. cbn [g_step]. destruct (w <=? wm_ideal (c_q cfg) (ns_log (g_nodes st n))); [|split; [auto|apply ext_refl]].
    apply step_nil. node_facts HI n. apply simple_step; auto.
    - eapply tasks_keep; [apply simple_ext; reflexivity|auto].
    - intros m [].
  Qed.

  Lemma step_crash st n alive : Inv st -> IE st (g_step cfg st (ACrash n alive)).
  Proof.
    intros HI. cbn [g_step]. destruct (ns_alive (g_nodes st n) <=? alive); [|split; [auto|apply ext_refl]].
    apply step_nil. node_facts HI n. apply simple_step; auto.
    - cbn. destruct (memb n (c_reps cfg)) eqn:M; intros rp H0; inversion H0; subst.
      split; [apply memb_in; exact M|]. intros w [].
    - cbn. constructor.
    - intros m [].
    - cbn. constructor; [intros []|constructor].
  Qed.

  (* ---------------------------------------------------------------- replica side *)
  Lemma bw_ok_merge st ex v : bw_ok st ex -> bw_ok st (bw_merge ex v).
  Proof. unfold bw_ok, ReplInv.bw_ok, bw_merge. cbn. auto. Qed.

  Lemma PAw_ok st r e : In r reps -> PAw (bw_ok st) e -> ent_ok_w st r e.
  Proof.
    intros Hr (w & ((c & Ho) & Hc) & ->). split.
    - exists c, (bw_key w), (bw_nev w). cbn. split; [exact Ho|]. split; lia.
    - cbn [en_cnt en_tx en_off]. intros Hq. right. rewrite Hc in Hq. unfold cnt0 in Hq. fold (c_q cfg) in Hq. fold q in Hq.
      destruct (q <=? 1) eqn:E; [apply N.leb_le in E; auto|]. pose proof q_pos. lia.
  Qed.

  Lemma outs_ok_msgs st r ns' outs : outs_ok r (ns_log ns') outs -> In r reps ->
    forall m, In m outs -> msg_ok (step_to st r ns' outs) m.
  Proof.
    intros Ho Hr m Hm. specialize (Ho m Hm). destruct m; cbn in Ho; try contradiction.
    destruct Ho as (-> & Hh). cbn. destruct res; auto. split; auto. unfold lg, step_to. cbn [g_nodes]. rewrite upd_same. eauto.
  Qed.

  Lemma err_step st r m : Inv st -> (match m with MRepAns _ _ _ _ (AErr _) => True | MClient _ _ (AErr _) => True | _ => False end) ->
    IE st (step_to st r (g_nodes st r) [m]).
  Proof.
    intros HI Hm. node_facts HI r. apply simple_step; auto.
    - eapply tasks_keep; [apply simple_ext; reflexivity|auto].
    - intros m0 [<-|[]]. destruct m; try contradiction; destruct res; try contradiction; exact I.
  Qed.

  Lemma deliver_rep st orc dbok seen c r alive rid T ex k cnt : Inv st -> In (MRep c r alive rid T ex k cnt) (g_net st) ->
    IE st (deliver cfg orc dbok seen st (MRep c r alive rid T ex k cnt)).
  Proof.
    intros HI Hm. cbn [deliver]. destruct (n_replicate r orc (g_nodes st r) c alive rid T ex k cnt) as [ns' outs] eqn:E.
    change (IE st (step_to st r ns' outs)). node_facts HI r. pose proof (HM _ Hm) as Hok. cbn in Hok.
    unfold n_replicate in E.
    destruct ex as [|s]; [contradiction|]. destruct Hok as (Ho & Hc).
    destruct (find (fun p => fst p =? c) (ns_view (g_nodes st r))) as [[p a]|]; [|inversion E; subst; apply err_step; auto].
    destruct (alive <? a); [inversion E; subst; apply err_step; auto|].
    destruct (ns_rp (g_nodes st r)) as [rp|] eqn:R; [|inversion E; subst; apply err_step; auto].
    destruct (rp_deliver r orc rp (ns_log (g_nodes st r)) (mk_bw s T k cnt c [rid])) as [[rp' l'] o] eqn:D. inversion E; subst ns' outs. clear E.
    destruct (Hrp rp eq_refl) as (Hin & HB).
    assert (Pw : bw_ok st (mk_bw s T k cnt c [rid])). { split; cbn; auto. }
    destruct (rp_deliver_spec r orc (bw_ok st) (bw_ok_merge st) (fun _ _ => False) _ _ _ _ _ _ D HB Pw Hchain) as (HB' & Hout & Hext & Hc').
    assert (HPS : forall T0 c0, (fun _ _ : N => False) T0 c0 -> c_q cfg <= c0 /\ Justified st T0) by (intros ? ? []).
    apply (node_step_ie cfg st r (ns_with_rp_log (g_nodes st r) rp' l') o (PAw (bw_ok st)) (fun _ _ => False) HI Hext).
    - intros e. apply PAw_ok. exact Hin.
    - exact HPS.
    - cbn. intros rp0 H0. inversion H0; subst. auto.
    - cbn [ns_tasks ns_with_rp_log]. eapply tasks_keep; [|exact Htasks]. eapply ns_ext; [exact Hext|exact HPS].
    - apply outs_ok_msgs; auto.
    - exact Hview.
  Qed.

  Lemma deliver_conf st orc dbok seen c r T s k cnt idsok : Inv st -> In (MConf c r T s k cnt idsok) (g_net st) ->
    IE st (deliver cfg orc dbok seen st (MConf c r T s k cnt idsok)).
  Proof.
    intros HI Hm. cbn [deliver]. destruct (n_confirm (g_nodes st r) T s k cnt idsok dbok) as [ns' res] eqn:E.
    apply step_nil. node_facts HI r. pose proof (HM _ Hm) as Hok. cbn in Hok. destruct Hok as (Ho & Hq & Hj).
    assert (Hsame : IE st (step_to st r (g_nodes st r) [])).
    { apply simple_step; auto. - eapply tasks_keep; [apply simple_ext; reflexivity|auto]. - intros m []. }
    assert (Hset : IE st (step_to st r (ns_with_log (g_nodes st r) (db_setcnt (ns_log (g_nodes st r)) T cnt)) [])).
    { assert (HPS : forall T0 c0, (fun T0 c0 => T0 = T /\ c0 = cnt) T0 c0 -> c_q cfg <= c0 /\ Justified st T0) by (intros ? ? (-> & ->); auto).
      assert (Hext : lext (fun _ => False) (fun T0 c0 => T0 = T /\ c0 = cnt) (lg st r) (db_setcnt (ns_log (g_nodes st r)) T cnt)).
      { apply lext_set; [apply lext_refl|auto]. }
      apply (node_step_ie cfg st r (ns_with_log (g_nodes st r) (db_setcnt (ns_log (g_nodes st r)) T cnt)) [] (fun _ => False) (fun T0 c0 => T0 = T /\ c0 = cnt) HI Hext).
      - intros e [].
      - exact HPS.
      - exact Hrp.
      - cbn [ns_tasks ns_with_log]. eapply tasks_keep; [|exact Htasks]. eapply ns_ext; [exact Hext|exact HPS].
      - intros m [].
      - exact Hview. }
    unfold n_confirm in E. destruct (db_find (ns_log (g_nodes st r)) T) as [e|]; [|inversion E; subst; exact Hsame].
    destruct dbok; destruct (en_nev e =? 1); [inversion E; subst; exact Hset| |inversion E; subst; exact Hsame|].
    - destruct (negb (en_nev e =? k)); [inversion E; subst; exact Hsame|].
      destruct (negb (en_first e =? s)); [inversion E; subst; exact Hsame|].
      destruct (negb idsok); inversion E; subst; auto.
    - destruct (negb (en_nev e =? k)); [inversion E; subst; exact Hsame|].
      destruct (negb (en_first e =? s)); [inversion E; subst; exact Hsame|].
      destruct (negb idsok); inversion E; subst; auto.
  Qed.

  Lemma msgs_only st m : Inv st -> msg_ok st m -> IE st (mk_gs (g_nodes st) (g_net st ++ [m]) (g_orig st)).
  Proof.
    intros (HN & HM) Hm. split; [|split; [intros n; apply keeps_refl|auto]]. split.
    - intros n. exact (HN n).
    - intros m0 H0. cbn [g_net] in H0. apply in_app_or in H0. destruct H0 as [H0|[<-|[]]].
      + exact (HM m0 H0).
      + exact Hm.
  Qed.

  Lemma cut_ent_ok st from e : ent_ok st e -> from < en_first e + en_nev e -> ent_ok st (cut_ent from e).
  Proof.
    intros ((c & s & k & Ho & Hf & Hk) & Hj) Hlt. unfold cut_ent. destruct (en_first e <? from) eqn:E.
    - apply N.ltb_lt in E. split.
      + exists c, s, k. cbn. split; [exact Ho|]. split; lia.
      + cbn. exact Hj.
    - split; auto. exists c, s, k. auto.
  Qed.

  Lemma serve_old_ok st w from to : forall l, Forall (ent_ok st) l -> Forall (ent_ok st) (serve_old w from to l).
  Proof.
    induction l as [|e t IH]; intros F; cbn; [constructor|]. inversion F; subst.
    destruct (en_first e + en_nev e <=? from) eqn:E; [auto|]. apply N.leb_gt in E.
    destruct ((en_first (cut_ent from e) <? w) && (en_first (cut_ent from e) <=? to)); [|constructor].
    constructor; auto. apply cut_ent_ok; auto.
  Qed.

  Lemma deliver_syncreq st orc dbok seen r c from to : Inv st -> IE st (deliver cfg orc dbok seen st (MSyncReq r c from to)).
  Proof.
    intros HI. cbn [deliver]. apply msgs_only; auto. node_facts HI c. cbn. destruct dbok; auto.
    unfold n_sync_serve. apply Forall_forall. intros e' He'. apply in_map_iff in He'. destruct He' as (e & <- & He).
    assert (Hok : ent_ok st e).
    { assert (F : Forall (ent_ok st) (serve_old (ns_wm (g_nodes st c)) from to (rev (ns_log (g_nodes st c))))) by (apply serve_old_ok; apply Forall_rev; exact Hents).
      rewrite Forall_forall in F. auto. }
    destruct Hok as (O & J). split; [exact O|]. cbn [en_cnt ent_setcnt en_tx]. intros Hq. apply J.
    pose proof (N.le_min_l (en_cnt e) (seen e)). fold (c_q cfg) in Hq. lia.
  Qed.

  Lemma deliver_syncresp st orc dbok seen c r cs : Inv st -> In (MSyncResp c r cs) (g_net st) ->
    IE st (deliver cfg orc dbok seen st (MSyncResp c r cs)).
  Proof.
    intros HI Hm. cbn [deliver]. destruct (n_sync_resp cfg r orc (g_nodes st r) cs) as [ns' outs] eqn:E.
    change (IE st (step_to st r ns' outs)). node_facts HI r. pose proof (HM _ Hm) as Hok. cbn in Hok.
    unfold n_sync_resp in E.
    destruct (ns_rp (g_nodes st r)) as [rp|] eqn:R.
    2:{ inversion E; subst. apply simple_step; auto. - intros rp0 H0; congruence.
        - eapply tasks_keep; [apply simple_ext; reflexivity|auto]. - intros m []. }
    rewrite cfg_fixed in E.
    destruct (rp_sync true r orc rp (ns_log (g_nodes st r)) cs) as [[rp' l'] o] eqn:D. inversion E; subst ns' outs. clear E.
    destruct (Hrp rp eq_refl) as (Hin & HB).
    destruct (rp_sync_spec r orc (bw_ok st) (fun _ _ => False) _ _ _ _ _ _ D HB Hchain) as (HB' & Hout & Hext & Hc').
    assert (HPS : forall T0 c0, (fun _ _ : N => False) T0 c0 -> c_q cfg <= c0 /\ Justified st T0) by (intros ? ? []).
    apply (node_step_ie cfg st r (ns_with_rp_log (g_nodes st r) rp' l') o _ (fun _ _ => False) HI Hext).
    - intros e [He|He]; [apply PAw_ok; auto|].
      destruct cs as [cs|]; [|contradiction]. rewrite Forall_forall in Hok. destruct (Hok e He) as (O & J). split; auto.
    - exact HPS.
    - cbn. intros rp0 H0. inversion H0; subst. auto.
    - cbn [ns_tasks ns_with_rp_log]. eapply tasks_keep; [|exact Htasks]. eapply ns_ext; [exact Hext|exact HPS].
    - apply outs_ok_msgs; auto.
    - exact Hview.
  Qed.

  (* ---------------------------------------------------------------- coordinator side *)
  Definition phase_ok (st : gstate) (c : node) (T s : N) (n : N) (ph : phase) : Prop :=
    match ph with
    | PhCollect => True
    | PhQuorum => q <= n
    | PhConfirmed => q <= n /\ stored_q cfg st c T s
    | PhLate cnt => q <= cnt /\ q <= n /\ stored_q cfg st c T s
    end.

  Lemma task_ok_intro st c T s k pend conf ph :
    In c reps -> Orig st T c s k -> In c conf -> NoDup conf ->
    (forall r, In r conf -> In r reps /\ holds_whole (lg st r) T = true) ->
    NoDup pend -> (forall r, In r pend -> ~ In r conf) ->
    phase_ok st c T s (N.of_nat (length conf)) ph ->
    task_ok st c (mk_ct T s k pend conf ph).
  Proof. intros. unfold task_ok, ReplInv.task_ok. cbn. repeat (split; auto). all: destruct ph; auto. Qed.

  Lemma task_ok_elim st c t : task_ok st c t ->
    In c reps /\ Orig st (ct_tx t) c (ct_first t) (ct_nev t) /\ In c (ct_confirmed t) /\ NoDup (ct_confirmed t) /\
    (forall r, In r (ct_confirmed t) -> In r reps /\ holds_whole (lg st r) (ct_tx t) = true) /\
    NoDup (ct_pending t) /\ (forall r, In r (ct_pending t) -> ~ In r (ct_confirmed t)) /\
    phase_ok st c (ct_tx t) (ct_first t) (N.of_nat (length (ct_confirmed t))) (ct_phase t).
  Proof. intros (A & B & C & D & E & F & G & H). repeat (split; auto). all: destruct (ct_phase t); auto. Qed.

  Lemma tasks_set st c t' ts : Forall (task_ok st c) ts -> task_ok st c t' -> Forall (task_ok st c) (t_set t' ts).
  Proof. intros F H. rewrite Forall_forall in *. intros x Hx. destruct (t_set_in _ _ _ Hx) as [->|]; auto. Qed.
  Lemma tasks_remove st c T ts : Forall (task_ok st c) ts -> Forall (task_ok st c) (t_remove T ts).
  Proof. apply Forall_incl. apply t_remove_incl. Qed.

  (* a coordinator step that only rewrites its task list and sends messages *)
  Lemma tasks_step st c ts' outs : Inv st ->
    Forall (task_ok st c) ts' -> (forall m, In m outs -> msg_ok st m) ->
    IE st (step_to st c (ns_with_tasks (g_nodes st c) ts') outs).
  Proof.
    intros HI Ht Ho. node_facts HI c.
    assert (E : ext st (step_to st c (ns_with_tasks (g_nodes st c) ts') outs)) by (apply simple_ext; reflexivity).
    apply simple_step; auto.
    - cbn [ns_tasks ns_with_tasks]. eapply tasks_keep; eauto.
    - intros m Hm. eapply msg_ok_mono; eauto.
  Qed.

  Lemma same_step st c : Inv st -> IE st (step_to st c (g_nodes st c) []).
  Proof.
    intros HI. node_facts HI c. apply simple_step; auto.
    - eapply tasks_keep; [apply simple_ext; reflexivity|auto].
    - intros m [].
  Qed.

  Lemma NoDup_snoc {A} (l : list A) x : NoDup l -> ~ In x l -> NoDup (l ++ [x]).
  Proof.
    intros H Hn. induction H as [|a l Ha H IH]; cbn; [constructor; [intros []|constructor]|].
    constructor. - intros Hi. apply in_app_or in Hi. destruct Hi as [Hi|[->|[]]]; [auto|]. apply Hn. left; auto.
    - apply IH. intros Hi. apply Hn. right; auto.
  Qed.

  Lemma ns_with_tasks_same ns : ns_with_tasks ns (ns_tasks ns) = ns.
  Proof. destruct ns; reflexivity. Qed.

  Lemma deliver_repans st orc dbok seen r c rid T res : Inv st -> In (MRepAns r c rid T res) (g_net st) ->
    IE st (deliver cfg orc dbok seen st (MRepAns r c rid T res)).
  Proof.
    intros HI Hm. cbn [deliver]. destruct (n_rep_reply cfg c (g_nodes st c) r T res) as [ns' outs] eqn:E.
    change (IE st (step_to st c ns' outs)). node_facts HI c. pose proof (HM _ Hm) as Hok. cbn in Hok.
    unfold n_rep_reply in E.
    destruct (t_find T (ns_tasks (g_nodes st c))) as [t|] eqn:F; [|inversion E; subst; apply same_step; auto].
    destruct (t_find_in _ _ _ F) as (Hint & Htx). subst T.
    destruct (negb (memb r (ct_pending t))) eqn:Mb; [inversion E; subst; apply same_step; auto|].
    apply negb_false_iff, memb_in in Mb.
    assert (Ht : task_ok st c t). { rewrite Forall_forall in Htasks. auto. }
    destruct (task_ok_elim _ _ _ Ht) as (Hc & Ho & Hself & Hnd & Hh & Hpn & Hdis & Hph).
    assert (Hpn' : NoDup (l_remove r (ct_pending t))) by (apply l_remove_nodup; auto).
    assert (Hdis' : forall x, In x (l_remove r (ct_pending t)) -> ~ In x (ct_confirmed t)).
    { intros x Hx. apply l_remove_in in Hx. destruct Hx. auto. }
    destruct (ct_phase t) eqn:Ph; destruct res as [f|e]; try (inversion E; subst; apply same_step; auto).
    - (* collecting, Ok *)
      destruct Hok as (Hr & Hhr).
      assert (Hnr : ~ In r (ct_confirmed t)) by (apply Hdis; exact Mb).
      set (conf' := ct_confirmed t ++ [r]) in *. set (pend' := l_remove r (ct_pending t)) in *.
      assert (Hnd2 : NoDup conf'). { unfold conf'. apply NoDup_snoc; auto. }
      assert (Hself2 : In c conf') by (unfold conf'; apply in_or_app; auto).
      assert (Hh2 : forall x, In x conf' -> In x reps /\ holds_whole (lg st x) (ct_tx t) = true).
      { intros x Hx. unfold conf' in Hx. apply in_app_or in Hx. destruct Hx as [Hx|[<-|[]]]; auto. }
      assert (Hdis2 : forall x, In x pend' -> ~ In x conf').
      { intros x Hx Hc'. unfold pend' in Hx. apply l_remove_in in Hx. destruct Hx as (Hx & Hne).
        unfold conf' in Hc'. apply in_app_or in Hc'. destruct Hc' as [Hc'|[Hc'|[]]]; [exact (Hdis x Hx Hc')|congruence]. }
      unfold has_quorum in E. cbn [ct_confirmed] in E. fold conf' in E.
      destruct (c_q cfg <=? N.of_nat (length conf')) eqn:HQ; cbn [negb andb] in E.
      + inversion E; subst. apply tasks_step; auto; [|intros m []].
        apply tasks_set; auto. apply task_ok_intro; auto. cbn. apply N.leb_le in HQ. exact HQ.
      + destruct pend' eqn:Pe; inversion E; subst.
        * apply tasks_step; auto; [apply tasks_remove; auto|]. intros m [<-|[]]. exact I.
        * apply tasks_step; auto; [|intros m []]. apply tasks_set; auto. apply task_ok_intro; auto.
          all: try exact I; try (rewrite <- Pe; assumption).
    - (* collecting, Err *)
      set (pend' := l_remove r (ct_pending t)) in *.
      destruct ((N.of_nat (length (ct_confirmed t) + length pend') <? c_q cfg) || match pend' with [] => true | _ => false end);
        inversion E; subst.
      + apply tasks_step; auto; [apply tasks_remove; auto|]. intros m [<-|[]]. exact I.
      + apply tasks_step; auto; [|intros m []]. apply tasks_set; auto. apply task_ok_intro; auto.
    - (* late loop, Ok: the late replica is told the count + 1 *)
      destruct Hok as (Hr & Hhr). destruct Hph as (Hq1 & Hq2 & Hst).
      inversion E; subst. apply tasks_step; auto.
      + apply tasks_set; auto. apply task_ok_intro; auto. cbn. split; [lia|auto].
      + intros m [<-|[]]. cbn. split; [eauto|]. split; [fold q; lia|]. eapply confirmed_justified; eauto.
    - (* late loop, Err *)
      inversion E; subst. apply tasks_step; auto; [|intros m []]. apply tasks_set; auto. apply task_ok_intro; auto.
  Qed.


  Lemma step_finish2 st c T : Inv st -> IE st (g_step cfg st (AFinish2 c T)).
  Proof.
    intros HI. cbn [g_step]. destruct (n_finish2 cfg c (g_nodes st c) T) as [ns' outs] eqn:E.
    change (IE st (step_to st c ns' outs)). node_facts HI c. unfold n_finish2 in E.
    destruct (t_find T (ns_tasks (g_nodes st c))) as [t|] eqn:F; [|inversion E; subst; apply same_step; auto].
    destruct (t_find_in _ _ _ F) as (Hint & Htx). subst T.
    assert (Ht : task_ok st c t). { rewrite Forall_forall in Htasks. auto. }
    destruct (task_ok_elim _ _ _ Ht) as (Hc & Ho & Hself & Hnd & Hh & Hpn & Hdis & Hph).
    destruct (ct_phase t) eqn:Ph; try (inversion E; subst; apply same_step; auto).
    destruct Hph as (Hq & Hst). inversion E; subst. clear E.
    assert (Hj : Justified st (ct_tx t)) by (eapply confirmed_justified; eauto).
    apply tasks_step; auto.
    - apply tasks_set; auto. apply task_ok_intro; auto. cbn. auto.
    - intros m Hm. apply in_app_or in Hm. destruct Hm as [Hm|[<-|[]]].
      + apply in_map_iff in Hm. destruct Hm as (r & <- & _). cbn. split; [eauto|]. split; auto.
      + cbn. auto.
  Qed.

  Lemma step_finish1 st c T dbok : Inv st -> IE st (g_step cfg st (AFinish1 c T dbok)).
  Proof.
    intros HI. cbn [g_step]. destruct (n_finish1 cfg c (g_nodes st c) T dbok) as [ns' outs] eqn:E.
    change (IE st (step_to st c ns' outs)). node_facts HI c. unfold n_finish1 in E.
    destruct (t_find T (ns_tasks (g_nodes st c))) as [t|] eqn:F; [|inversion E; subst; apply same_step; auto].
    destruct (t_find_in _ _ _ F) as (Hint & Htx). subst T.
    assert (Ht : task_ok st c t). { rewrite Forall_forall in Htasks. auto. }
    destruct (task_ok_elim _ _ _ Ht) as (Hc & Ho & Hself & Hnd & Hh & Hpn & Hdis & Hph).
    destruct (ct_phase t) eqn:Ph; try (inversion E; subst; apply same_step; auto).
    cbn in Hph.
    destruct dbok; inversion E; subst; clear E.
    2:{ apply tasks_step; auto; [apply tasks_remove; auto|]. intros m [<-|[]]. exact I. }
    set (cn := N.of_nat (length (ct_confirmed t))) in *.
    assert (Hj : Justified st (ct_tx t)) by (eapply confirmed_justified; eauto).
    set (l' := db_setcnt (ns_log (g_nodes st c)) (ct_tx t) cn).
    set (ts' := t_set (mk_ct (ct_tx t) (ct_first t) (ct_nev t) (ct_pending t) (ct_confirmed t) PhConfirmed) (ns_tasks (g_nodes st c))).
    set (ns' := mk_ns l' (ns_alive (g_nodes st c)) (ns_view (g_nodes st c)) (ns_rp (g_nodes st c)) ts' (ns_wm (g_nodes st c))).
    assert (HPS : forall T0 c0, (fun T0 c0 => T0 = ct_tx t /\ c0 = cn) T0 c0 -> c_q cfg <= c0 /\ Justified st T0) by (intros ? ? (-> & ->); auto).
    assert (Hext : lext (fun _ => False) (fun T0 c0 => T0 = ct_tx t /\ c0 = cn) (lg st c) l').
    { apply lext_set; [apply lext_refl|auto]. }
    pose proof (ns_ext cfg st c ns' [] _ _ Hext HPS) as EX.
    apply (node_step_ie cfg st c ns' [] (fun _ => False) (fun T0 c0 => T0 = ct_tx t /\ c0 = cn) HI Hext).
    - intros e [].
    - exact HPS.
    - exact Hrp.
    - cbn [ns_tasks ns']. unfold ts'. apply tasks_set; [eapply tasks_keep; eauto|].
      apply task_ok_mono with (st' := step_to st c ns' []) in Ht; auto.
      destruct (task_ok_elim _ _ _ Ht) as (Hc2 & Ho2 & Hself2 & Hnd2 & Hh2 & Hpn2 & Hdis2 & _).
      apply task_ok_intro; auto. cbn. split; auto.
      (* the coordinator's own entry now carries the count *)
      destruct (Hh c Hself) as (_ & Hhold).
      destruct (setcnt_hits (ns_log (g_nodes st c)) (ct_tx t) cn Hhold) as (e' & Hin' & His' & Hcnt' & e0 & Hin0 & Hsame).
      exists e'. split; [unfold lg, step_to; cbn [g_nodes]; rewrite upd_same; exact Hin'|]. split; auto. split; [|rewrite Hcnt'; auto].
      rewrite Forall_forall in Hents. destruct (Hents e0 Hin0) as ((c1 & s1 & k1 & O1 & F1 & _) & _).
      destruct Hsame as (Etx & Efi & _ & Eoff).
      unfold ent_is in His'. apply andb_true_iff in His'. destruct His' as (A & B). apply N.eqb_eq in A, B.
      rewrite Etx, A in O1. destruct (Orig_fun _ _ _ _ _ _ _ _ O1 Ho) as (_ & -> & _). rewrite <- Efi, F1, Eoff, B. lia.
    - intros m [].
    - exact Hview.
  Qed.

  (* ---------------------------------------------------------------- a client write reaches a coordinator *)
  Lemma orig_ext_inv st T v : Inv st -> orig_of (g_orig st) T = None ->
    IE st (mk_gs (g_nodes st) (g_net st) ((T, v) :: g_orig st)).
  Proof.
    intros (HN & HM) Hnone. refine ((fun X => conj (proj1 X) (proj2 X)) _).
    assert (E : ext st (mk_gs (g_nodes st) (g_net st) ((T, v) :: g_orig st))).
    { split; [intros n; apply keeps_refl|]. intros X w Hx. cbn [g_orig]. rewrite orig_of_cons_other; auto. intros ->. congruence. }
    split; [|exact E]. split.
    - intros n. apply node_ok_mono with (st := st); auto.
    - intros m Hm. eapply msg_ok_mono; eauto.
  Qed.

  Lemma client_append st c T k ph pend outs rp0 :
    Inv st -> ns_rp (g_nodes st c) = Some rp0 ->
    Orig st T c (log_next (lg st c)) k -> 1 <= k ->
    NoDup pend -> ~ In c pend -> (ph = PhCollect \/ (ph = PhQuorum /\ q <= 1)) ->
    (forall m, In m outs -> exists r alive, m = MRep c r alive 0 T (RxAt (log_next (lg st c))) k (cnt0 (c_rf cfg))) ->
    let e := mk_ent T (log_next (lg st c)) k 0 (cnt0 (c_rf cfg)) in
    forall ts', (ts' = mk_ct T (log_next (lg st c)) k pend [c] ph :: ns_tasks (g_nodes st c) \/ (ts' = ns_tasks (g_nodes st c) /\ outs = [])) ->
    forall extra, (forall m, In m extra -> exists r, m = MClient c T (AErr r)) ->
    forall ns' o, ns_log ns' = e :: lg st c -> ns_view ns' = ns_view (g_nodes st c) -> ns_rp ns' = ns_rp (g_nodes st c) ->
      ns_tasks ns' = ts' -> o = outs ++ extra ->
    IE st (step_to st c ns' o).
  Proof.
    intros HI Hr Ho Hk Hnd Hnc Hph Houts e ts' Hts extra Hextra ns' o El Ev Er Et ->. node_facts HI c.
    destruct (Hrp rp0 Hr) as (Hin & HB).
    assert (HPS : forall T0 c0, (fun _ _ : N => False) T0 c0 -> c_q cfg <= c0 /\ Justified st T0) by (intros ? ? []).
    assert (Hext : lext (fun e0 => e0 = e) (fun _ _ => False) (lg st c) (ns_log ns')).
    { rewrite El. eapply lext_app; [apply lext_refl|reflexivity|reflexivity|exact Hk]. }
    pose proof (ns_ext cfg st c ns' (outs ++ extra) _ _ Hext HPS) as EX.
    apply (node_step_ie cfg st c ns' (outs ++ extra) (fun e0 => e0 = e) (fun _ _ => False) HI Hext).
    - intros e0 ->. split.
      + exists c, (log_next (lg st c)), k. cbn. split; [exact Ho|]. split; lia.
      + cbn [en_cnt e]. intros Hq. right. unfold cnt0 in Hq. fold (c_q cfg) in Hq. fold q in Hq.
        destruct (q <=? 1) eqn:E; [apply N.leb_le in E; auto|]. pose proof q_pos. lia.
    - exact HPS.
    - rewrite Er. exact Hrp.
    - rewrite Et. destruct Hts as [->|(-> & _)]; [|eapply tasks_keep; eauto].
      constructor; [|eapply tasks_keep; eauto].
      set (st' := step_to st c ns' (outs ++ extra)) in *.
      assert (A1 : Orig st' T c (log_next (lg st c)) k) by (apply EX; exact Ho).
      assert (A2 : In c [c]) by (left; auto).
      assert (A3 : NoDup [c]) by (constructor; [intros []|constructor]).
      assert (A4 : forall r, In r [c] -> In r reps /\ holds_whole (lg st' r) T = true).
      { intros r [<-|[]]. split; auto. unfold lg, st', step_to. cbn [g_nodes]. rewrite upd_same, El.
        apply holds_whole_cons_is. unfold ent_is, e. cbn. rewrite !N.eqb_refl. reflexivity. }
      assert (A5 : forall r, In r pend -> ~ In r [c]) by (intros r Hr' [<-|[]]; auto).
      assert (A6 : phase_ok st' c T (log_next (lg st c)) (N.of_nat (length [c])) ph).
      { destruct Hph as [->|(-> & Hq)]; cbn; auto. }
      apply task_ok_intro; assumption.
    - intros m Hm. apply in_app_or in Hm. destruct Hm as [Hm|Hm].
      + destruct (Houts m Hm) as (r & alive & ->). cbn. split; auto. exists c. apply EX. exact Ho.
      + destruct (Hextra m Hm) as (r & ->). exact I.
    - rewrite Ev. exact Hview.
  Qed.

  Lemma IE_trans st1 st2 st3 : ext st1 st2 -> IE st2 st3 -> IE st1 st3.
  Proof. intros E (I & E2). split; auto. eapply ext_trans; eauto. Qed.

  Lemma step_client st c T k orc : Inv st -> IE st (g_step cfg st (AClient c T k orc)).
  Proof.
    intros HI. cbn [g_step]. destruct (orig_of (g_orig st) T) eqn:Hnone; [split; [auto|apply ext_refl]|].
    destruct (n_client cfg c orc (g_nodes st c) T k) as [ns' outs] eqn:E.
    set (s := log_next (ns_log (g_nodes st c))).
    destruct (orig_ext_inv st T (c, s, k) HI Hnone) as (HI1 & EX1).
    set (st1 := mk_gs (g_nodes st) (g_net st) ((T, (c, s, k)) :: g_orig st)) in *.
    change (IE st (step_to st1 c ns' outs)).
    apply (IE_trans st st1); [exact EX1|].
    assert (Ho : Orig st1 T c s k). { unfold Orig, st1. cbn. rewrite N.eqb_refl. reflexivity. }
    assert (Herr : forall r, IE st1 (step_to st1 c (g_nodes st c) [MClient c T (AErr r)])).
    { intros r. apply (err_step st1 c (MClient c T (AErr r)) HI1). exact I. }
    unfold n_client in E.
    destruct (N.of_nat (length (ns_view (g_nodes st c))) <? c_q cfg); [inversion E; subst; apply Herr|].
    destruct (ns_view (g_nodes st c)) as [|[p a] rest] eqn:V; [inversion E; subst; apply Herr|].
    destruct (ns_rp (g_nodes st c)) as [rp0|] eqn:R; [|inversion E; subst; apply Herr].
    destruct (negb (p =? c)) eqn:Pc; [inversion E; subst; apply Herr|].
    apply negb_false_iff, N.eqb_eq in Pc. subst p.
    node_facts HI c. rewrite V in Hview. cbn [map fst] in Hview. inversion Hview as [|? ? Hnotin Hndr]; subst.
    destruct (db_append (ns_log (g_nodes st c)) None (orc false (ns_log (g_nodes st c)) T) T k 0 (cnt0 (c_rf cfg))) as [l'|] eqn:A;
      [|inversion E; subst; apply Herr].
    destruct (chain_append _ _ _ _ _ _ _ _ Hchain A) as (-> & _ & Hk & _ & _).
    assert (Houts : forall m, In m (map (fun r => MRep c r (ns_alive (g_nodes st c)) 0 T (RxAt s) k (cnt0 (c_rf cfg))) (map fst rest)) ->
                    exists r alive, m = MRep c r alive 0 T (RxAt (log_next (lg st1 c))) k (cnt0 (c_rf cfg))).
    { intros m Hm. apply in_map_iff in Hm. destruct Hm as (r & <- & _). eauto. }
    destruct (map fst rest) as [|r0 tr] eqn:Tg.
    - unfold has_quorum in E. cbn [ct_confirmed length] in E.
      destruct (c_q cfg <=? N.of_nat 1) eqn:HQ; inversion E; subst; clear E.
      + apply N.leb_le in HQ.
        apply (client_append st1 c T k PhQuorum [] [] rp0 HI1 R Ho Hk ltac:(constructor) ltac:(intros []) (or_intror (conj eq_refl HQ))
                 ltac:(intros m []) _ (or_introl eq_refl) [] ltac:(intros m [])); try reflexivity; cbn; auto.
      + apply (client_append st1 c T k PhCollect [] [] rp0 HI1 R Ho Hk ltac:(constructor) ltac:(intros []) (or_introl eq_refl)
                 ltac:(intros m []) _ (or_intror (conj eq_refl eq_refl)) [MClient c T (AErr WQuorumFailed)]
                 ltac:(intros m [<-|[]]; eauto)); try reflexivity; cbn; auto.
    - inversion E; subst; clear E.
      apply (client_append st1 c T k PhCollect (r0 :: tr) _ rp0 HI1 R Ho Hk Hndr Hnotin (or_introl eq_refl) Houts _ (or_introl eq_refl) []
               ltac:(intros m [])); try reflexivity; cbn; auto. rewrite app_nil_r. reflexivity.
  Qed.
End Steps.
