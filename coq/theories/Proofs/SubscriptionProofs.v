(** Proofs about Model/Subscription.v: safety of the subscription transition system for every
    execution (order / once / no gap / confirmed / window), by one invariant over operation lists. *)
From Coq Require Import List Bool Arith PeanoNat Lia.
From SV Require Import Model.Subscription.
Import ListNotations.


(* ================================================================== lists *)
Lemma slice_nil {A} (l : list A) a : slice l a a = [].
Proof. unfold slice. rewrite Nat.sub_diag. reflexivity. Qed.

Lemma slice_ge {A} (l : list A) a b : b <= a -> slice l a b = [].
Proof. intros H. unfold slice. replace (b - a) with 0 by lia. reflexivity. Qed.

Lemma skipn_nth_cons {A} (l : list A) a x : nth_error l a = Some x -> skipn a l = x :: skipn (S a) l.
Proof.
  revert a; induction l as [|y l IH]; intros [|a] H; cbn in *; try discriminate.
  - injection H as ->. reflexivity.
  - apply IH in H. exact H.
Qed.

Lemma slice_cons {A} (l : list A) a b x : nth_error l a = Some x -> a < b -> slice l a b = x :: slice l (S a) b.
Proof.
  intros H Hab. unfold slice. rewrite (skipn_nth_cons _ _ _ H).
  replace (b - a) with (S (b - S a)) by lia. reflexivity.
Qed.

Lemma firstn_add {A} (l : list A) n m : firstn (n + m) l = firstn n l ++ firstn m (skipn n l).
Proof.
  revert l; induction n as [|n IH]; intros l; [reflexivity|].
  destruct l as [|x l]; cbn; [rewrite firstn_nil; reflexivity|]. rewrite IH. reflexivity.
Qed.

Lemma skipn_add {A} (l : list A) n m : skipn n (skipn m l) = skipn (n + m) l.
Proof.
  revert l; induction m as [|m IH]; intros l; [rewrite Nat.add_0_r; reflexivity|].
  rewrite Nat.add_succ_r. destruct l as [|x l]; cbn; [apply skipn_nil|]. apply IH.
Qed.

Lemma slice_app_r {A} (l : list A) a b c : a <= b -> b <= c -> slice l a b ++ slice l b c = slice l a c.
Proof.
  intros Hab Hbc. unfold slice.
  replace (c - a) with ((b - a) + (c - b)) by lia.
  rewrite firstn_add, skipn_add. replace (b - a + a) with b by lia. reflexivity.
Qed.

Lemma slice_app_l {A} (l x : list A) a b : b <= length l -> slice (l ++ x) a b = slice l a b.
Proof.
  intros H. unfold slice.
  destruct (Nat.le_gt_cases b a) as [Hle|Hlt].
  { replace (b - a) with 0 by lia. reflexivity. }
  rewrite skipn_app. rewrite firstn_app. rewrite skipn_length.
  replace (b - a - (length l - a)) with 0 by lia. cbn. rewrite app_nil_r. reflexivity.
Qed.

Lemma nth_error_firstn_lt {A} (l : list A) n i : i < n -> nth_error (firstn n l) i = nth_error l i.
Proof.
  revert l i; induction n as [|n IH]; intros l i H; [lia|].
  destruct l as [|x l]; [destruct i; reflexivity|]. destruct i as [|i]; [reflexivity|]. cbn. apply IH. lia.
Qed.

Lemma nth_error_skipn {A} (l : list A) a j : nth_error (skipn a l) j = nth_error l (a + j).
Proof.
  revert l; induction a as [|a IH]; intros l; [reflexivity|].
  destruct l as [|y l]; cbn; [destruct j; reflexivity|]. apply IH.
Qed.

Lemma slice_in {A} (l : list A) a b x : In x (slice l a b) -> exists i, a <= i < b /\ nth_error l i = Some x.
Proof.
  unfold slice. intros H. apply In_nth_error in H. destruct H as [j Hj].
  assert (Hlt : j < b - a).
  { assert (j < length (firstn (b - a) (skipn a l))) by (apply nth_error_Some; congruence).
    rewrite firstn_length in H. lia. }
  rewrite nth_error_firstn_lt in Hj by exact Hlt.
  exists (a + j). split; [lia|]. rewrite <- Hj. symmetry. apply nth_error_skipn.
Qed.

Lemma nth_error_app_l {A} (l x : list A) i e : nth_error l i = Some e -> nth_error (l ++ x) i = Some e.
Proof. intros H. rewrite nth_error_app1; [exact H|]. apply nth_error_Some. congruence. Qed.

Lemma firstn_app_le {A} (l x : list A) n : n <= length l -> firstn n (l ++ x) = firstn n l.
Proof. intros H. rewrite firstn_app. replace (n - length l) with 0 by lia. cbn. apply app_nil_r. Qed.

Lemma filter_length_le {A} (f : A -> bool) l : length (filter f l) <= length l.
Proof. induction l as [|x l IH]; cbn; [lia|]. destruct (f x); cbn; lia. Qed.

(* index translation between a list and its filter *)
Lemma nth_error_filter {A} (f : A -> bool) l j e :
  nth_error (filter f l) j = Some e ->
  exists i, nth_error l i = Some e /\ f e = true /\ length (filter f (firstn i l)) = j.
Proof.
  revert j; induction l as [|x l IH]; intros j H; cbn in H; [destruct j; discriminate|].
  destruct (f x) eqn:Hx.
  - destruct j as [|j]; cbn in H.
    + injection H as <-. exists 0. cbn. auto.
    + apply IH in H. destruct H as (i & H1 & H2 & H3). exists (S i). cbn. rewrite Hx. cbn. auto.
  - apply IH in H. destruct H as (i & H1 & H2 & H3). exists (S i). cbn. rewrite Hx. auto.
Qed.

Lemma filter_nth_error {A} (f : A -> bool) l i e :
  nth_error l i = Some e -> f e = true -> nth_error (filter f l) (length (filter f (firstn i l))) = Some e.
Proof.
  revert i; induction l as [|x l IH]; intros i H Hf; [destruct i; discriminate|].
  destruct i as [|i]; cbn in *.
  - injection H as ->. rewrite Hf. reflexivity.
  - destruct (f x); cbn; apply IH; assumption.
Qed.

Lemma filter_firstn_mono {A} (f : A -> bool) l i j : i <= j -> length (filter f (firstn i l)) <= length (filter f (firstn j l)).
Proof.
  revert i j; induction l as [|x l IH]; intros i j H; [destruct i, j; cbn; lia|].
  destruct i as [|i]; [cbn; lia|]. destruct j as [|j]; [lia|]. cbn.
  specialize (IH i j ltac:(lia)). destruct (f x); cbn; lia.
Qed.

Lemma filter_firstn_strict {A} (f : A -> bool) l i j e :
  i < j -> nth_error l i = Some e -> f e = true -> length (filter f (firstn i l)) < length (filter f (firstn j l)).
Proof.
  revert i j; induction l as [|x l IH]; intros i j H Hn Hf; [destruct i; discriminate|].
  destruct j as [|j]; [lia|]. destruct i as [|i]; cbn in *.
  - injection Hn as ->. rewrite Hf. cbn. lia.
  - specialize (IH i j ltac:(lia) Hn Hf). destruct (f x); cbn; lia.
Qed.

Lemma seq_snoc a n : seq a (S n) = seq a n ++ [a + n].
Proof. rewrite seq_S. reflexivity. Qed.

Lemma last_snoc {A} (l : list A) x d : last (l ++ [x]) d = x.
Proof. induction l as [|y l IH]; [reflexivity|]. cbn. destruct (l ++ [x]) eqn:E; [destruct l; discriminate|]. exact IH. Qed.

Lemma last_seq a n d : 0 < n -> last (seq a n) d = a + n - 1.
Proof. intros H. destruct n as [|n]; [lia|]. rewrite seq_snoc, last_snoc. lia. Qed.

Lemma hd_app_ne {A} (l x : list A) d : l <> [] -> hd d (l ++ x) = hd d l.
Proof. destruct l; [congruence|reflexivity]. Qed.

(* ================================================================== association lists *)
Lemma alookup_ainsert_same k v m : alookup k (ainsert k v m) = Some v.
Proof.
  induction m as [|[k' v'] m IH]; cbn; [rewrite Nat.eqb_refl; reflexivity|].
  destruct (k =? k') eqn:E; cbn; [rewrite Nat.eqb_refl; reflexivity|]. rewrite E. exact IH.
Qed.

Lemma alookup_ainsert_other k k2 v m : k2 <> k -> alookup k2 (ainsert k v m) = alookup k2 m.
Proof.
  intros Hne. induction m as [|[k' v'] m IH]; cbn.
  - destruct (k2 =? k) eqn:E; [apply Nat.eqb_eq in E; congruence|reflexivity].
  - destruct (k =? k') eqn:E; cbn.
    + apply Nat.eqb_eq in E; subst k'. destruct (k2 =? k) eqn:E2; [apply Nat.eqb_eq in E2; congruence|reflexivity].
    + destruct (k2 =? k'); [reflexivity|exact IH].
Qed.

Lemma ainsert_keys k v m : In k (map fst m) -> map fst (ainsert k v m) = map fst m.
Proof.
  induction m as [|[k' v'] m IH]; cbn; [intros []|]. intros [->|H].
  - rewrite Nat.eqb_refl. reflexivity.
  - destruct (k =? k') eqn:E; cbn; [apply Nat.eqb_eq in E; subst; reflexivity|]. f_equal. apply IH. exact H.
Qed.

Lemma alookup_in k m v : alookup k m = Some v -> In k (map fst m).
Proof.
  induction m as [|[k' v'] m IH]; cbn; [discriminate|]. destruct (k =? k') eqn:E.
  - apply Nat.eqb_eq in E. subst. auto.
  - intros H. right. apply IH. exact H.
Qed.

Lemma alookup_nodup k v m : NoDup (map fst m) -> In (k, v) m -> alookup k m = Some v.
Proof.
  induction m as [|[k' v'] m IH]; cbn; [intros _ []|]. intros Hnd [H|H].
  - injection H as -> ->. rewrite Nat.eqb_refl. reflexivity.
  - inversion Hnd as [|? ? Hni Hnd']; subst. destruct (k =? k') eqn:E.
    + apply Nat.eqb_eq in E. subst. exfalso. apply Hni. change k' with (fst (k', v)). apply in_map. exact H.
    + apply IH; assumption.
Qed.

Lemma alookup_none k m : ~ In k (map fst m) -> alookup k m = None.
Proof.
  induction m as [|[k' v'] m IH]; cbn; [reflexivity|]. intros H. destruct (k =? k') eqn:E.
  - apply Nat.eqb_eq in E. subst. exfalso. apply H. auto.
  - apply IH. intros Hin. apply H. auto.
Qed.

Lemma memb_in x l : memb x l = true <-> In x l.
Proof.
  unfold memb. rewrite existsb_exists. split.
  - intros (y & Hy & E). apply Nat.eqb_eq in E. subst. exact Hy.
  - intros H. exists x. split; [exact H|apply Nat.eqb_refl].
Qed.

Lemma memb_owned c p : memb p (owned c) = true <-> p < c_np c.
Proof. rewrite memb_in. unfold owned. rewrite in_seq. lia. Qed.

Lemma ainsert_keys_notin k v m : ~ In k (map fst m) -> map fst (ainsert k v m) = map fst m ++ [k].
Proof.
  induction m as [|[k' v'] m IH]; cbn; [reflexivity|]. intros H.
  destruct (k =? k') eqn:E; [apply Nat.eqb_eq in E; subst; exfalso; apply H; auto|].
  cbn. f_equal. apply IH. intros Hin. apply H. auto.
Qed.

Lemma NoDup_snoc {A} (l : list A) x : NoDup l -> ~ In x l -> NoDup (l ++ [x]).
Proof.
  induction l as [|y l IH]; intros Hnd Hx; cbn; [constructor; [intros []|constructor]|].
  inversion Hnd as [|? ? Hy Hl]; subst. constructor.
  - intros Hin. apply in_app_or in Hin. destruct Hin as [Hin|[->|[]]]; [contradiction|]. apply Hx. left. reflexivity.
  - apply IH; [assumption|]. intros Hin. apply Hx. right. assumption.
Qed.

Lemma ainsert_nodup k v m : NoDup (map fst m) -> NoDup (map fst (ainsert k v m)).
Proof.
  intros H. destruct (in_dec Nat.eq_dec k (map fst m)) as [Hin|Hni].
  - rewrite ainsert_keys by exact Hin. exact H.
  - rewrite ainsert_keys_notin by exact Hni. apply NoDup_snoc; assumption.
Qed.

Lemma ainsert_keys_incl k v m l : incl (map fst m) l -> In k l -> incl (map fst (ainsert k v m)) l.
Proof.
  intros H Hk. destruct (in_dec Nat.eq_dec k (map fst m)) as [Hin|Hni].
  - rewrite ainsert_keys by exact Hin. exact H.
  - rewrite ainsert_keys_notin by exact Hni. intros x Hx. apply in_app_or in Hx. destruct Hx as [Hx|[<-|[]]]; auto.
Qed.

Lemma alookup_map_ids (f : nat -> nat) ids k :
  alookup k (map (fun x => (x, f x)) ids) = if memb k ids then Some (f k) else None.
Proof.
  induction ids as [|y ids IH]; cbn; [reflexivity|]. unfold memb in *. cbn.
  destruct (k =? y) eqn:E; cbn; [apply Nat.eqb_eq in E; subst; reflexivity|]. exact IH.
Qed.

Lemma map_fst_ids (f : nat -> nat) ids : map fst (map (fun x => (x, f x)) ids) = ids.
Proof. induction ids as [|y ids IH]; cbn; [reflexivity|]. f_equal. exact IH. Qed.

(* ================================================================== the matcher, abstractly *)
Inductive track := TIgnore | TLatest | TFrom (n : nat).

Definition fs_track (fs : fromspec) (k : nat) : track :=
  match fs with
  | FLatest => TLatest
  | FMap m fb => match alookup k m with
                 | Some n => TFrom n
                 | None => match fb with Some n => TFrom n | None => TLatest end
                 end
  | FAll n => TFrom n
  end.
Definition opt_track (o : option nat) : track := match o with Some n => TFrom n | None => TLatest end.

(* what the matcher knows about key k: not its business / nothing yet / next position n *)
Definition mtrack (m : matcher) (k : hkey) : track :=
  match m, k with
  | MAllP fs, KP p => fs_track fs p
  | MPart p' from, KP p => if p =? p' then opt_track from else TIgnore
  | MParts ps fs, KP p => if memb p ps then fs_track fs p else TIgnore
  | MStream s' from, KS s => if s =? s' then opt_track from else TIgnore
  | MStreams ss fs, KS s => if memb s ss then fs_track fs s else TIgnore
  | _, _ => TIgnore
  end.

Definition ekey (m : matcher) (e : sevent) : hkey := if is_part_kind m then KP (e_pid e) else KS (e_sid e).
Definition kkind (m : matcher) (k : hkey) : bool := match k with KP _ => is_part_kind m | KS _ => negb (is_part_kind m) end.

Definition fs_hyd (fs : fromspec) : bool := match fs with FLatest => true | FMap _ None => true | _ => false end.
Definition hyd (m : matcher) : bool :=
  match m with MAllP fs | MParts _ fs | MStreams _ fs => fs_hyd fs | _ => true end.


Lemma hkey_eqb_eq a b : hkey_eqb a b = true <-> a = b.
Proof.
  destruct a, b; cbn; try (split; [discriminate|congruence]); rewrite Nat.eqb_eq; split; congruence.
Qed.
Lemma hkey_eqb_refl a : hkey_eqb a a = true.
Proof. apply hkey_eqb_eq. reflexivity. Qed.
Lemma hkey_eqb_neq a b : hkey_eqb a b = false <-> a <> b.
Proof. rewrite <- hkey_eqb_eq. destruct (hkey_eqb a b); split; congruence. Qed.
Lemma hkey_dec (a b : hkey) : {a = b} + {a <> b}.
Proof. decide equality; apply Nat.eq_dec. Qed.

Lemma kkind_ekey m e : kkind m (ekey m e) = true.
Proof. unfold ekey, kkind. destruct (is_part_kind m); reflexivity. Qed.

Lemma fs_seen_track fs k x :
  fs_seen fs k x = match fs_track fs k with TIgnore => true | TLatest => false | TFrom n => x <? n end.
Proof.
  destruct fs as [|m fb|n]; cbn; try reflexivity.
  destruct (alookup k m); cbn; [reflexivity|]. destruct fb; reflexivity.
Qed.

Lemma has_seen_track m e :
  has_seen m e = match mtrack m (ekey m e) with TIgnore => true | TLatest => false | TFrom n => kpos (ekey m e) e <? n end.
Proof.
  destruct m as [fs|p from|ps fs|s from|ss fs]; unfold ekey; cbn.
  - apply fs_seen_track.
  - destruct (e_pid e =? p); cbn; [|reflexivity]. destruct from; reflexivity.
  - destruct (memb (e_pid e) ps); cbn; [|reflexivity]. apply fs_seen_track.
  - destruct (e_sid e =? s); cbn; [|reflexivity]. destruct from; reflexivity.
  - destruct (memb (e_sid e) ss); cbn; [|reflexivity]. apply fs_seen_track.
Qed.

Lemma fs_track_update fs k x k2 :
  fs_hyd fs = true ->
  fs_track (fs_update fs k x) k2 = if k2 =? k then TFrom (S x) else fs_track fs k2.
Proof.
  destruct fs as [|m fb|n]; cbn; intros Hh; try discriminate.
  - destruct (k2 =? k); reflexivity.
  - destruct (k2 =? k) eqn:E.
    + apply Nat.eqb_eq in E. subst. rewrite alookup_ainsert_same. reflexivity.
    + apply Nat.eqb_neq in E. rewrite alookup_ainsert_other by exact E. reflexivity.
Qed.

Lemma fs_update_hyd fs k x : fs_hyd fs = true -> fs_hyd (fs_update fs k x) = true.
Proof. destruct fs as [|m [fb|]|n]; cbn; congruence. Qed.

Lemma fs_update_wf fs k x : fs_wf fs -> fs_wf (fs_update fs k x).
Proof.
  destruct fs as [|m fb|n]; cbn; intros H.
  - constructor; [intros []|constructor].
  - apply ainsert_nodup. exact H.
  - constructor; [intros []|constructor].
Qed.

(* update_state after a live send: the key of the event moves to position + 1, nothing else changes *)
Lemma update_state_spec m e :
  hyd m = true -> wf_matcher m -> has_seen m e = false ->
  let m' := update_state m e in
  is_part_kind m' = is_part_kind m /\ hyd m' = true /\ wf_matcher m' /\
  forall k, kkind m k = true ->
            mtrack m' k = if hkey_eqb k (ekey m e) then TFrom (S (kpos (ekey m e) e)) else mtrack m k.
Proof.
  intros Hh Hw Hs.
  destruct m as [fs|p from|ps fs|s from|ss fs]; unfold ekey; cbn in *.
  - repeat split; [apply fs_update_hyd; exact Hh|apply fs_update_wf; exact Hw|].
    intros [p|s] Hk; cbn in *; [|discriminate]. apply fs_track_update. exact Hh.
  - destruct (e_pid e =? p) eqn:E; cbn in Hs; [|discriminate]. apply Nat.eqb_eq in E. cbn.
    repeat split. intros [q|s] Hk; cbn in *; [|discriminate]. rewrite E.
    destruct (q =? p); reflexivity.
  - destruct (memb (e_pid e) ps) eqn:E; cbn in Hs; [|discriminate]. cbn. destruct Hw as [Hw1 Hw2].
    repeat split; [apply fs_update_hyd; exact Hh|exact Hw1|apply fs_update_wf; exact Hw2|].
    intros [q|s] Hk; cbn in *; [|discriminate].
    destruct (q =? e_pid e) eqn:E2.
    + apply Nat.eqb_eq in E2. subst q. rewrite E. rewrite fs_track_update by exact Hh. rewrite Nat.eqb_refl. reflexivity.
    + destruct (memb q ps); [|reflexivity]. rewrite fs_track_update by exact Hh. rewrite E2. reflexivity.
  - destruct (e_sid e =? s) eqn:E; cbn in Hs; [|discriminate]. apply Nat.eqb_eq in E. cbn.
    repeat split. intros [q|q] Hk; cbn in *; [discriminate|]. rewrite E.
    destruct (q =? s); reflexivity.
  - destruct (memb (e_sid e) ss) eqn:E; cbn in Hs; [|discriminate]. cbn. destruct Hw as (Hw1 & Hw2 & Hw3).
    repeat split; [apply fs_update_hyd; exact Hh|exact Hw1|apply fs_update_wf; exact Hw2| |].
    + destruct fs as [|m fb|n]; cbn in *; try discriminate.
      * split; [reflexivity|]. intros x [<-|[]]. apply memb_in. exact E.
      * destruct Hw3 as [-> Hi]. split; [reflexivity|]. apply ainsert_keys_incl; [exact Hi|]. apply memb_in. exact E.
    + intros [q|q] Hk; cbn in *; [discriminate|].
      destruct (q =? e_sid e) eqn:E2.
      * apply Nat.eqb_eq in E2. subst q. rewrite E. rewrite fs_track_update by exact Hh. rewrite Nat.eqb_refl. reflexivity.
      * destruct (memb q ss); [|reflexivity]. rewrite fs_track_update by exact Hh. rewrite E2. reflexivity.
Qed.

Lemma fs_track_set fs k x k2 n :
  fs_hyd fs = true -> fs_track fs k = TFrom n ->
  fs_track (fs_set fs k x) k2 = if k2 =? k then TFrom (S x) else fs_track fs k2.
Proof.
  destruct fs as [|m fb|n']; cbn; intros Hh Ht; try discriminate.
  destruct (k2 =? k) eqn:E.
  - apply Nat.eqb_eq in E. subst. rewrite alookup_ainsert_same. reflexivity.
  - apply Nat.eqb_neq in E. rewrite alookup_ainsert_other by exact E. reflexivity.
Qed.

Lemma fs_set_hyd fs k x : fs_hyd fs = true -> fs_hyd (fs_set fs k x) = true.
Proof. destruct fs as [|m [fb|]|n]; cbn; congruence. Qed.
Lemma fs_set_wf fs k x : fs_wf fs -> fs_wf (fs_set fs k x).
Proof. destruct fs as [|m fb|n]; cbn; intros H; try exact H. apply ainsert_nodup. exact H. Qed.

(* the history reader's direct write of the next position *)
Lemma hist_update_spec m k x n :
  hyd m = true -> wf_matcher m -> kkind m k = true -> mtrack m k = TFrom n ->
  let m' := hist_update m k x in
  is_part_kind m' = is_part_kind m /\ hyd m' = true /\ wf_matcher m' /\
  forall k2, kkind m k2 = true -> mtrack m' k2 = if hkey_eqb k2 k then TFrom (S x) else mtrack m k2.
Proof.
  intros Hh Hw Hk Ht.
  destruct m as [fs|p from|ps fs|s from|ss fs]; destruct k as [q|q]; cbn in *; try discriminate.
  - repeat split; [apply fs_set_hyd; exact Hh|apply fs_set_wf; exact Hw|].
    intros [p2|s2] Hk2; cbn in *; [|discriminate]. eapply fs_track_set; eassumption.
  - destruct (q =? p) eqn:E; [|discriminate]. apply Nat.eqb_eq in E. subst q.
    repeat split. intros [p2|s2] Hk2; cbn in *; [|discriminate]. destruct (p2 =? p); reflexivity.
  - destruct (memb q ps) eqn:E; [|discriminate]. destruct Hw as [Hw1 Hw2].
    repeat split; [apply fs_set_hyd; exact Hh|exact Hw1|apply fs_set_wf; exact Hw2|].
    intros [p2|s2] Hk2; cbn in *; [|discriminate].
    destruct (p2 =? q) eqn:E2.
    + apply Nat.eqb_eq in E2. subst p2. rewrite E. erewrite fs_track_set by eassumption. rewrite Nat.eqb_refl. reflexivity.
    + destruct (memb p2 ps); [|reflexivity]. erewrite fs_track_set by eassumption. rewrite E2. reflexivity.
  - destruct (q =? s) eqn:E; [|discriminate]. apply Nat.eqb_eq in E. subst q.
    repeat split. intros [p2|s2] Hk2; cbn in *; [discriminate|]. destruct (s2 =? s); reflexivity.
  - destruct (memb q ss) eqn:E; [|discriminate]. destruct Hw as (Hw1 & Hw2 & Hw3).
    repeat split; [apply fs_set_hyd; exact Hh|exact Hw1|apply fs_set_wf; exact Hw2| |].
    + destruct fs as [|m fb|n']; cbn in *; try discriminate; try exact I.
      destruct Hw3 as [-> Hi]. split; [reflexivity|]. apply ainsert_keys_incl; [exact Hi|]. apply memb_in. exact E.
    + intros [p2|s2] Hk2; cbn in *; [discriminate|].
      destruct (s2 =? q) eqn:E2.
      * apply Nat.eqb_eq in E2. subst s2. rewrite E. erewrite fs_track_set by eassumption. rewrite Nat.eqb_refl. reflexivity.
      * destruct (memb s2 ss); [|reflexivity]. erewrite fs_track_set by eassumption. rewrite E2. reflexivity.
Qed.

(* ================================================================== pending iterators *)
Lemma find_it_some k l it : find_it k l = Some it -> In it l /\ h_key it = k.
Proof.
  induction l as [|x l IH]; cbn; [discriminate|]. destruct (hkey_eqb (h_key x) k) eqn:E.
  - intros H. injection H as <-. apply hkey_eqb_eq in E. auto.
  - intros H. apply IH in H. tauto.
Qed.

Lemma find_it_none k l : find_it k l = None <-> ~ In k (map h_key l).
Proof.
  induction l as [|x l IH]; cbn; [tauto|]. destruct (hkey_eqb (h_key x) k) eqn:E.
  - apply hkey_eqb_eq in E. split; [discriminate|]. intros H. exfalso. apply H. auto.
  - apply hkey_eqb_neq in E. rewrite IH. tauto.
Qed.

Lemma find_it_nodup l it : NoDup (map h_key l) -> In it l -> find_it (h_key it) l = Some it.
Proof.
  induction l as [|x l IH]; cbn; [intros _ []|]. intros Hnd [->|Hin].
  - rewrite hkey_eqb_refl. reflexivity.
  - inversion Hnd as [|? ? Hni Hnd']; subst. destruct (hkey_eqb (h_key x) (h_key it)) eqn:E.
    + apply hkey_eqb_eq in E. exfalso. apply Hni. rewrite E. apply in_map. exact Hin.
    + apply IH; assumption.
Qed.

Lemma remove_it_in k l it : In it (remove_it k l) <-> In it l /\ h_key it <> k.
Proof.
  induction l as [|x l IH]; cbn; [tauto|]. destruct (hkey_eqb (h_key x) k) eqn:E.
  - apply hkey_eqb_eq in E. rewrite IH. split; [tauto|]. intros [[->|H] Hn]; [congruence|tauto].
  - apply hkey_eqb_neq in E. cbn. rewrite IH. split; [intros [->|H]; tauto|tauto].
Qed.

Lemma remove_it_nodup k l : NoDup (map h_key l) -> NoDup (map h_key (remove_it k l)).
Proof.
  induction l as [|x l IH]; cbn; [auto|]. intros Hnd. inversion Hnd as [|? ? Hni Hnd']; subst.
  destruct (hkey_eqb (h_key x) k); [auto|]. cbn. constructor; [|auto].
  intros Hin. apply in_map_iff in Hin. destruct Hin as (y & Hy & Hin). apply remove_it_in in Hin.
  apply Hni. rewrite <- Hy. apply in_map. tauto.
Qed.

Lemma find_it_remove_same k l : find_it k (remove_it k l) = None.
Proof.
  apply find_it_none. intros Hin. apply in_map_iff in Hin. destruct Hin as (y & Hy & Hin).
  apply remove_it_in in Hin. tauto.
Qed.

Lemma find_it_remove_other k k2 l : k2 <> k -> find_it k2 (remove_it k l) = find_it k2 l.
Proof.
  intros Hne. induction l as [|x l IH]; cbn; [reflexivity|]. destruct (hkey_eqb (h_key x) k) eqn:E.
  - apply hkey_eqb_eq in E. destruct (hkey_eqb (h_key x) k2) eqn:E2; [apply hkey_eqb_eq in E2; congruence|exact IH].
  - cbn. destruct (hkey_eqb (h_key x) k2); [reflexivity|exact IH].
Qed.

Lemma replace_it_keys it' l : map h_key (replace_it it' l) = map h_key l.
Proof.
  induction l as [|x l IH]; cbn; [reflexivity|]. destruct (hkey_eqb (h_key x) (h_key it')) eqn:E; cbn; rewrite IH; [|reflexivity].
  apply hkey_eqb_eq in E. rewrite E. reflexivity.
Qed.

Lemma replace_it_in it' l x : In x (replace_it it' l) -> (x = it' /\ In (h_key it') (map h_key l)) \/ (In x l /\ h_key x <> h_key it').
Proof.
  induction l as [|y l IH]; cbn; [intros []|]. destruct (hkey_eqb (h_key y) (h_key it')) eqn:E.
  - apply hkey_eqb_eq in E. intros [<-|H]; [left; auto|]. apply IH in H. tauto.
  - apply hkey_eqb_neq in E. intros [<-|H]; [right; auto|]. apply IH in H. tauto.
Qed.

Lemma find_it_replace_same it' l : In (h_key it') (map h_key l) -> find_it (h_key it') (replace_it it' l) = Some it'.
Proof.
  induction l as [|y l IH]; cbn; [intros []|]. destruct (hkey_eqb (h_key y) (h_key it')) eqn:E; cbn.
  - rewrite hkey_eqb_refl. reflexivity.
  - rewrite E. intros [H|H]; [apply hkey_eqb_neq in E; congruence|]. apply IH. exact H.
Qed.

Lemma find_it_replace_other it' l k : k <> h_key it' -> find_it k (replace_it it' l) = find_it k l.
Proof.
  intros Hne. induction l as [|y l IH]; cbn; [reflexivity|]. destruct (hkey_eqb (h_key y) (h_key it')) eqn:E; cbn.
  - apply hkey_eqb_eq in E. destruct (hkey_eqb (h_key it') k) eqn:E2; [apply hkey_eqb_eq in E2; congruence|].
    destruct (hkey_eqb (h_key y) k) eqn:E3; [apply hkey_eqb_eq in E3; congruence|]. exact IH.
  - destruct (hkey_eqb (h_key y) k); [reflexivity|exact IH].
Qed.

Lemma find_it_in_keys k l it : find_it k l = Some it -> In k (map h_key l).
Proof. intros H. apply find_it_some in H. destruct H as [H <-]. apply in_map. exact H. Qed.

(* ================================================================== start of a history read *)
Lemma filter_keys_nodup (f : nat * nat -> bool) m : NoDup (map fst m) -> NoDup (map fst (filter f m)).
Proof.
  induction m as [|x m IH]; cbn; [auto|]. intros Hnd. inversion Hnd as [|? ? Hni Hnd']; subst.
  destruct (f x); [|auto]. cbn. constructor; [|auto]. intros Hin. apply Hni.
  apply in_map_iff in Hin. destruct Hin as (y & Hy & Hin). apply filter_In in Hin. rewrite <- Hy. apply in_map. tauto.
Qed.

Lemma alookup_in_pair k m v : alookup k m = Some v -> In (k, v) m.
Proof.
  induction m as [|[k' v'] m IH]; cbn; [discriminate|]. destruct (k =? k') eqn:E.
  - apply Nat.eqb_eq in E. subst. intros H. injection H as ->. auto.
  - intros H. right. apply IH. exact H.
Qed.

Lemma fs_iters_spec c st (mk : nat -> hkey) keep fs :
  (forall a b, mk a = mk b -> a = b) -> fs_hyd fs = true -> fs_wf fs ->
  let pend := fs_iters c st mk keep fs in
  NoDup (map h_key pend) /\
  (forall it, In it pend -> exists k, h_key it = mk k /\ keep k = true /\ fs_track fs k = TFrom (h_pos it) /\
                                       h_end it = length (klog c st (mk k))) /\
  (forall k n, fs_track fs k = TFrom n -> keep k = true -> find_it (mk k) pend <> None).
Proof.
  intros Hinj Hh Hw. destruct fs as [|m [fb|]|n]; cbn in *; try discriminate.
  - repeat split; [constructor|intros ? []|discriminate].
  - repeat split.
    + rewrite map_map. cbn.
      assert (Hnd := filter_keys_nodup (fun kv => keep (fst kv)) m Hw).
      revert Hnd. generalize (filter (fun kv => keep (fst kv)) m). intros l Hnd.
      induction l as [|x l IH]; cbn; [constructor|]. inversion Hnd as [|? ? Hni Hnd']; subst.
      constructor; [|auto]. intros Hin. apply Hni. apply in_map_iff in Hin. destruct Hin as (y & Hy & Hin).
      apply Hinj in Hy. rewrite <- Hy. apply in_map. exact Hin.
    + intros it Hin. apply in_map_iff in Hin. destruct Hin as ([k v] & <- & Hin). apply filter_In in Hin. cbn in Hin.
      exists k. cbn. repeat split; [tauto|]. rewrite (alookup_nodup _ _ _ Hw (proj1 Hin)). reflexivity.
    + intros k n Ht Hk. destruct (alookup k m) eqn:E; [|discriminate]. injection Ht as ->.
      apply alookup_in_pair in E. intros Hf. apply find_it_none in Hf. apply Hf.
      rewrite map_map. cbn. apply in_map_iff. exists (k, n). split; [reflexivity|]. apply filter_In. cbn. auto.
Qed.

Lemma fs_hydrate_spec ids fs :
  NoDup ids -> fs_wf fs ->
  fs_hyd (fs_hydrate ids fs) = true /\ fs_wf (fs_hydrate ids fs) /\
  (forall k, memb k ids = true -> fs_track (fs_hydrate ids fs) k = fs_track fs k) /\
  (fs_hyd fs = true -> fs_hydrate ids fs = fs) /\
  (match fs_hydrate ids fs with FMap m fb => fb = None /\ (fs_hyd fs = false -> map fst m = ids) | _ => True end).
Proof.
  intros Hnd Hw. destruct fs as [|m [fb|]|n]; cbn in *.
  - repeat split; auto.
  - repeat split; [rewrite map_fst_ids; exact Hnd| |discriminate|intros _; apply map_fst_ids].
    intros k Hk. rewrite (alookup_map_ids (fun k0 => match alookup k0 m with Some n => n | None => fb end)). rewrite Hk.
    destruct (alookup k m); reflexivity.
  - repeat split; auto. discriminate.
  - repeat split; [rewrite map_fst_ids; exact Hnd| |discriminate|intros _; apply map_fst_ids].
    intros k Hk. rewrite (alookup_map_ids (fun _ => n)). rewrite Hk. reflexivity.
Qed.

Lemma owned_nodup c : NoDup (owned c).
Proof. apply seq_NoDup. Qed.

Lemma start_history_spec c st m m' pend :
  wf_matcher m -> start_history c st m = (m', pend) ->
  is_part_kind m' = is_part_kind m /\ hyd m' = true /\ wf_matcher m' /\
  (forall k, kpid c k < c_np c -> mtrack m' k = mtrack m k) /\
  (hyd m = true -> m' = m) /\
  NoDup (map h_key pend) /\
  (forall it, In it pend -> kkind m' (h_key it) = true /\ mtrack m' (h_key it) = TFrom (h_pos it) /\
                            h_end it = length (klog c st (h_key it))) /\
  (forall k n, kkind m' k = true -> mtrack m' k = TFrom n -> find_it k pend = None ->
               exists p, k = KP p /\ (sb_wm st p <= n \/ c_np c <= p)).
Proof.
  intros Hw Hs.
  assert (HinjP : forall a b, KP a = KP b -> a = b) by (intros; congruence).
  assert (HinjS : forall a b, KS a = KS b -> a = b) by (intros; congruence).
  destruct m as [fs|p from|ps fs|s from|ss fs]; unfold start_history in Hs.
  - injection Hs as <- <-. cbn in Hw.
    destruct (fs_hydrate_spec (owned c) fs (owned_nodup c) Hw) as (H1 & H2 & H3 & H4 & H5).
    destruct (fs_iters_spec c st KP (fun p => memb p (owned c)) _ HinjP H1 H2) as (I1 & I2 & I3).
    repeat split; auto.
    + intros [p|s] Hk; cbn in *; [|reflexivity]. apply H3. apply memb_owned. exact Hk.
    + cbn. intros Hh. f_equal. auto.
    + apply I2 in H. destruct H as (k & -> & _). reflexivity.
    + apply I2 in H. destruct H as (k & Hk & _ & Ht & _). rewrite Hk. cbn. exact Ht.
    + apply I2 in H. destruct H as (k & Hk & _ & _ & He). rewrite Hk. exact He.
    + intros [p|s] n Hk Ht Hf; cbn in *; [|discriminate]. exists p. split; [reflexivity|]. right.
      destruct (Nat.le_gt_cases (c_np c) p) as [|Hlt]; [assumption|]. exfalso.
      apply (I3 p n Ht); [apply memb_owned; exact Hlt|exact Hf].
  - destruct from as [n|]; injection Hs as <- <-.
    + repeat split; auto.
      * destruct (n <? sb_wm st p); cbn; [constructor; [intros []|constructor]|constructor].
      * destruct (n <? sb_wm st p); [|destruct H]. destruct H as [<-|[]]. reflexivity.
      * destruct (n <? sb_wm st p); [|destruct H]. destruct H as [<-|[]]. cbn. rewrite Nat.eqb_refl. reflexivity.
      * destruct (n <? sb_wm st p); [|destruct H]. destruct H as [<-|[]]. reflexivity.
      * intros [q|s] n' Hk Ht Hf; cbn in Hk; [|discriminate]. cbn [mtrack] in Ht. destruct (q =? p) eqn:E; [|discriminate].
        apply Nat.eqb_eq in E. subst q. cbn [opt_track] in Ht. injection Ht as <-. exists p. split; [reflexivity|]. left.
        destruct (n <? sb_wm st p) eqn:E2; [|apply Nat.ltb_ge in E2; exact E2].
        exfalso. cbn [find_it mk_iter h_key] in Hf. rewrite hkey_eqb_refl in Hf. discriminate.
    + split; [reflexivity|]. split; [reflexivity|]. split; [exact I|]. split; [intros; reflexivity|].
      split; [intros; reflexivity|]. split; [constructor|]. split; [intros it []|].
      intros [q|s] n' Hk Ht Hf; cbn in *; [|discriminate]. destruct (q =? p); discriminate.
  - injection Hs as <- <-. cbn in Hw. destruct Hw as [Hw1 Hw2].
    destruct (fs_hydrate_spec _ fs Hw1 Hw2) as (H1 & H2 & H3 & H4 & H5).
    destruct (fs_iters_spec c st KP (fun p => memb p ps) _ HinjP H1 H2) as (I1 & I2 & I3).
    repeat split; auto.
    + intros [p|s] Hk; cbn in *; [|reflexivity]. destruct (memb p ps) eqn:E; [|reflexivity]. apply H3. exact E.
    + cbn. intros Hh. f_equal. auto.
    + apply I2 in H. destruct H as (k & -> & _). reflexivity.
    + apply I2 in H. destruct H as (k & Hk & Hm & Ht & _). rewrite Hk. cbn. rewrite Hm. exact Ht.
    + apply I2 in H. destruct H as (k & Hk & _ & _ & He). rewrite Hk. exact He.
    + intros [p|s] n Hk Ht Hf; cbn in *; [|discriminate]. exfalso. destruct (memb p ps) eqn:E; [|discriminate].
      apply (I3 p n Ht E Hf).
  - destruct from as [n|]; injection Hs as <- <-.
    + repeat split; auto.
      * cbn. constructor; [intros []|constructor].
      * destruct H as [<-|[]]. reflexivity.
      * destruct H as [<-|[]]. cbn. rewrite Nat.eqb_refl. reflexivity.
      * destruct H as [<-|[]]. reflexivity.
      * intros [q|q] n' Hk Ht Hf; cbn in *; [discriminate|]. destruct (q =? s) eqn:E; [|discriminate].
        apply Nat.eqb_eq in E. subst q. rewrite Nat.eqb_refl in Hf. discriminate.
    + split; [reflexivity|]. split; [reflexivity|]. split; [exact I|]. split; [intros; reflexivity|].
      split; [intros; reflexivity|]. split; [constructor|]. split; [intros it []|].
      intros [q|q] n' Hk Ht Hf; cbn in *; [discriminate|]. destruct (q =? s); discriminate.
  - injection Hs as <- <-. cbn in Hw. destruct Hw as (Hw1 & Hw2 & Hw3).
    destruct (fs_hydrate_spec _ fs Hw1 Hw2) as (H1 & H2 & H3 & H4 & H5).
    destruct (fs_iters_spec c st KS (fun _ => true) _ HinjS H1 H2) as (I1 & I2 & I3).
    assert (Hincl : match fs_hydrate ss fs with FMap m fb => fb = None /\ incl (map fst m) ss | _ => True end).
    { destruct (fs_hyd fs) eqn:Eh.
      - rewrite (H4 eq_refl). exact Hw3.
      - destruct (fs_hydrate ss fs) as [|m fb|n]; auto. destruct H5 as [-> H5]. split; [reflexivity|]. rewrite (H5 eq_refl). apply incl_refl. }
    repeat split; auto.
    + intros [p|s] Hk; cbn in *; [reflexivity|]. destruct (memb s ss) eqn:E; [|reflexivity]. apply H3. exact E.
    + cbn. intros Hh. f_equal. auto.
    + apply I2 in H. destruct H as (k & -> & _). reflexivity.
    + apply I2 in H. destruct H as (k & Hk & _ & Ht & _). rewrite Hk. cbn.
      assert (Hm : memb k ss = true).
      { destruct (fs_hydrate ss fs) as [|m fb|n]; cbn in Ht; try discriminate. destruct Hincl as [-> Hi].
        destruct (alookup k m) eqn:E; [|discriminate]. apply memb_in. apply Hi. eapply alookup_in. exact E. }
      rewrite Hm. exact Ht.
    + apply I2 in H. destruct H as (k & Hk & _ & _ & He). rewrite Hk. exact He.
    + intros [p|s] n Hk Ht Hf; cbn in *; [discriminate|]. exfalso. destruct (memb s ss) eqn:E; [|discriminate].
      apply (I3 s n Ht eq_refl Hf).
Qed.

(* ================================================================== the logs *)
Definition lwf (c : sbcfg) (p : nat) (l : list sevent) : Prop :=
  forall i e, nth_error l i = Some e ->
    e_pid e = p /\ e_seq e = i /\ e_ver e = length (filter (ev_in_stream (e_sid e)) (firstn i l)) /\ spid c (e_sid e) = p.

Definition logwf (c : sbcfg) (st : sbstate) : Prop :=
  forall p, lwf c p (sb_log st p) /\ (sb_log st p <> [] -> p < c_np c).
Definition wmwf (st : sbstate) : Prop :=
  forall p, sb_nb st p <= sb_wm st p /\ sb_wm st p <= length (sb_log st p).
Definition log_ext (st st' : sbstate) : Prop := forall p, exists x, sb_log st' p = sb_log st p ++ x.

Lemma log_ext_refl st : log_ext st st.
Proof. intros p. exists []. symmetry. apply app_nil_r. Qed.

Lemma lwf_snoc c p l s : lwf c p l -> spid c s = p ->
  lwf c p (l ++ [mkSev p (length l) s (length (filter (ev_in_stream s) l))]).
Proof.
  intros H Hs i e Hn. destruct (Nat.lt_ge_cases i (length l)) as [Hlt|Hge].
  - rewrite nth_error_app1 in Hn by exact Hlt. destruct (H i e Hn) as (A & B & C & D).
    repeat split; try assumption. rewrite firstn_app_le by lia. exact C.
  - rewrite nth_error_app2 in Hn by exact Hge. destruct (i - length l) as [|j] eqn:E; cbn in Hn; [|destruct j; discriminate].
    injection Hn as <-. cbn. assert (i = length l) by lia. subst i.
    repeat split; try assumption; try reflexivity. rewrite firstn_app_le by lia. rewrite firstn_all. reflexivity.
Qed.

Lemma append_evs_spec c p sids l :
  lwf c p l -> forallb (fun s => spid c s =? p) sids = true ->
  lwf c p (append_evs p sids l) /\ exists x, append_evs p sids l = l ++ x.
Proof.
  revert l; induction sids as [|s r IH]; intros l H Hs; cbn.
  - split; [exact H|]. exists []. symmetry. apply app_nil_r.
  - cbn in Hs. apply andb_prop in Hs. destruct Hs as [Hs1 Hs2]. apply Nat.eqb_eq in Hs1.
    destruct (IH _ (lwf_snoc c p l s H Hs1) Hs2) as [A [x B]]. split; [exact A|].
    exists ([mkSev p (length l) s (length (filter (ev_in_stream s) l))] ++ x). rewrite B. rewrite <- app_assoc. reflexivity.
Qed.

Lemma append_evs_nil p sids l : append_evs p sids l = [] -> l = [].
Proof.
  revert l; induction sids as [|s r IH]; intros l H; cbn in H; [exact H|].
  apply IH in H. destruct l; discriminate.
Qed.

Section Klog.
Variable c : sbcfg.

Lemma klog_nth st k i e :
  logwf c st -> nth_error (klog c st k) i = Some e ->
  kpos k e = i /\ dkey_match k e = true /\ nth_error (sb_log st (kpid c k)) (e_seq e) = Some e.
Proof.
  intros Hl Hn. destruct k as [p|s]; cbn in *.
  - destruct (proj1 (Hl p) i e Hn) as (A & B & _). rewrite B, A. rewrite Nat.eqb_refl. auto.
  - apply nth_error_filter in Hn. destruct Hn as (j & Hj & Hf & Hlen).
    destruct (proj1 (Hl (spid c s)) j e Hj) as (A & B & C & D).
    unfold ev_in_stream in Hf. pose proof Hf as Hf'. apply Nat.eqb_eq in Hf'.
    rewrite C, Hf'. rewrite B. rewrite Nat.eqb_refl. auto.
Qed.

Lemma klog_of_log st k p i e :
  logwf c st -> nth_error (sb_log st p) i = Some e -> dkey_match k e = true -> kpid c k = p ->
  nth_error (klog c st k) (kpos k e) = Some e.
Proof.
  intros Hl Hn Hm Hp. destruct (proj1 (Hl p) i e Hn) as (A & B & C & D). destruct k as [q|s]; cbn in *.
  - subst q. rewrite B. exact Hn.
  - subst p. rewrite C. apply Nat.eqb_eq in Hm. rewrite Hm. apply filter_nth_error; [exact Hn|].
    unfold ev_in_stream. rewrite Hm. apply Nat.eqb_refl.
Qed.

Lemma klog_in st k e :
  logwf c st -> In e (klog c st k) ->
  dkey_match k e = true /\ e_pid e = kpid c k /\ nth_error (sb_log st (kpid c k)) (e_seq e) = Some e /\
  nth_error (klog c st k) (kpos k e) = Some e.
Proof.
  intros Hl Hin. apply In_nth_error in Hin. destruct Hin as [i Hi].
  destruct (klog_nth st k i e Hl Hi) as (A & B & C). repeat split; try assumption.
  - destruct (proj1 (Hl (kpid c k)) _ _ C) as (P & _). exact P.
  - rewrite A. exact Hi.
Qed.

Lemma klog_mono st k e1 e2 :
  logwf c st -> In e1 (klog c st k) -> In e2 (klog c st k) -> e_seq e1 < e_seq e2 -> kpos k e1 < kpos k e2.
Proof.
  intros Hl H1 H2 Hlt. destruct (klog_in st k e1 Hl H1) as (M1 & _ & N1 & _). destruct (klog_in st k e2 Hl H2) as (M2 & _ & N2 & _).
  destruct k as [p|s]; cbn in *; [exact Hlt|].
  destruct (proj1 (Hl (spid c s)) _ _ N1) as (_ & _ & C1 & _). destruct (proj1 (Hl (spid c s)) _ _ N2) as (_ & _ & C2 & _).
  apply Nat.eqb_eq in M1, M2. rewrite C1, C2, M1, M2.
  eapply filter_firstn_strict; [exact Hlt|exact N1|]. unfold ev_in_stream. rewrite M1. apply Nat.eqb_refl.
Qed.

Lemma klog_inj st k e1 e2 :
  logwf c st -> In e1 (klog c st k) -> In e2 (klog c st k) -> e_seq e1 = e_seq e2 -> e1 = e2.
Proof.
  intros Hl H1 H2 He. destruct (klog_in st k e1 Hl H1) as (_ & _ & N1 & _). destruct (klog_in st k e2 Hl H2) as (_ & _ & N2 & _).
  rewrite He in N1. congruence.
Qed.

Lemma klog_mono_inv st k e1 e2 :
  logwf c st -> In e1 (klog c st k) -> In e2 (klog c st k) -> kpos k e1 < kpos k e2 -> e_seq e1 < e_seq e2.
Proof.
  intros Hl H1 H2 Hlt. destruct (Nat.lt_trichotomy (e_seq e1) (e_seq e2)) as [H|[H|H]]; [exact H| |].
  - rewrite (klog_inj st k e1 e2 Hl H1 H2 H) in Hlt. lia.
  - pose proof (klog_mono st k e2 e1 Hl H2 H1 H). lia.
Qed.

Lemma klog_ext_nth st st' k i e :
  log_ext st st' -> nth_error (klog c st k) i = Some e -> nth_error (klog c st' k) i = Some e.
Proof.
  intros He Hn. destruct k as [p|s]; cbn in *.
  - destruct (He p) as [x ->]. apply nth_error_app_l. exact Hn.
  - destruct (He (spid c s)) as [x ->]. rewrite filter_app. apply nth_error_app_l. exact Hn.
Qed.

Lemma klog_ext_len st st' k : log_ext st st' -> length (klog c st k) <= length (klog c st' k).
Proof.
  intros He. destruct k as [p|s]; cbn.
  - destruct (He p) as [x ->]. rewrite app_length. lia.
  - destruct (He (spid c s)) as [x ->]. rewrite filter_app, app_length. lia.
Qed.

Lemma klog_ext_in st st' k e :
  log_ext st st' -> logwf c st -> logwf c st' -> In e (klog c st' k) ->
  In e (klog c st k) \/ length (sb_log st (kpid c k)) <= e_seq e.
Proof.
  intros He Hl Hl' Hin. destruct (klog_in st' k e Hl' Hin) as (M & P & N & _).
  destruct (Nat.lt_ge_cases (e_seq e) (length (sb_log st (kpid c k)))) as [Hlt|Hge]; [left|right; exact Hge].
  destruct (He (kpid c k)) as [x Hx]. rewrite Hx in N. rewrite nth_error_app1 in N by exact Hlt.
  eapply nth_error_In. eapply klog_of_log; [exact Hl|exact N|exact M|reflexivity].
Qed.

Lemma klog_len_le st k : length (klog c st k) <= length (sb_log st (kpid c k)).
Proof. destruct k; cbn; [lia|apply filter_length_le]. Qed.

(* every event of key k below partition sequence a has a key position below n *)
Definition cover (st : sbstate) (k : hkey) (a n : nat) : Prop :=
  forall e, In e (klog c st k) -> e_seq e < a -> kpos k e < n.

Lemma cover_mono st k a n n' : cover st k a n -> n <= n' -> cover st k a n'.
Proof. intros H Hle e Hin Hlt. specialize (H e Hin Hlt). lia. Qed.

Lemma cover_ext st st' k a n :
  log_ext st st' -> logwf c st -> logwf c st' -> a <= length (sb_log st (kpid c k)) -> cover st k a n -> cover st' k a n.
Proof.
  intros He Hl Hl' Ha H e Hin Hlt. destruct (klog_ext_in st st' k e He Hl Hl' Hin) as [Hin'|Hge]; [apply H; assumption|lia].
Qed.

Lemma cover_len st k a : logwf c st -> cover st k a (length (klog c st k)).
Proof.
  intros Hl e Hin _. destruct (klog_in st k e Hl Hin) as (_ & _ & _ & N). apply nth_error_Some. congruence.
Qed.

(* the reader stopped at position x because the event there is not below a *)
Lemma cover_stop st k a x e :
  logwf c st -> nth_error (klog c st k) x = Some e -> a <= e_seq e -> cover st k a x.
Proof.
  intros Hl Hn Ha e' Hin Hlt. destruct (klog_nth st k x e Hl Hn) as (Hx & _ & _). rewrite <- Hx.
  eapply klog_mono; [exact Hl|exact Hin|eapply nth_error_In; exact Hn|lia].
Qed.

End Klog.

Lemma slice_uncons {A} (l : list A) a b x t : slice l a b = x :: t -> a < b /\ nth_error l a = Some x /\ t = slice l (S a) b.
Proof.
  unfold slice. intros H. destruct (b - a) as [|n] eqn:E; [discriminate|]. split; [lia|].
  destruct (skipn a l) as [|y r] eqn:Es; [discriminate|]. cbn in H. injection H as -> <-.
  assert (Hn : nth_error l a = Some x).
  { rewrite <- (Nat.add_0_r a). rewrite <- nth_error_skipn. rewrite Es. reflexivity. }
  split; [exact Hn|]. rewrite (skipn_nth_cons _ _ _ Hn) in Es. injection Es as <-. replace (b - S a) with n by lia. reflexivity.
Qed.

Lemma slice_one {A} (l : list A) b x : nth_error l b = Some x -> slice l b (S b) = [x].
Proof. intros H. rewrite (slice_cons _ _ _ _ H) by lia. rewrite slice_nil. reflexivity. Qed.

(* ================================================================== the invariant *)
Definition eff_q (u : subst) : list sevent := match u_hold u with Some e => e :: u_q u | None => u_q u end.
Definition pfilter (p : nat) (q : list sevent) : list sevent := filter (fun e => e_pid e =? p) q.
Definition pend_of (ph : phase) : list hiter := match ph with PHist pend _ => pend | PLive => [] end.
Definition dconsec (l : list nat) : Prop := exists a, l = seq a (length l).
Definition gap_of (d : deliv) : nat := match d_ack d with Some a => d_cur d - a | None => d_cur d + 1 end.

Section Inv.
Variable c : sbcfg.

Record keyinv (u : subst) (k : hkey) : Prop := {
  ki_consec : dconsec (dpos k (u_out u));
  ki_next : dpos k (u_out u) <> [] -> mtrack (u_m u) k = TFrom (S (last (dpos k (u_out u)) 0));
  ki_init : dpos k (u_out u) = [] -> kpid c k < c_np c -> mtrack (u_m u) k = mtrack (u_m0 u) k;
  ki_start : forall n, mtrack (u_m0 u) k = TFrom n -> dpos k (u_out u) <> [] -> hd 0 (dpos k (u_out u)) = n
}.

Record outinv (st : sbstate) (u : subst) : Prop := {
  i_kind : is_part_kind (u_m u) = is_part_kind (u_m0 u);
  i_hyd : hyd (u_m u) = true;
  i_wf : wf_matcher (u_m u);
  i_cur : u_cur u = length (u_out u);
  i_out : Forall (fun d => e_seq (d_ev d) < d_wm d /\ d_wm d <= sb_wm st (e_pid (d_ev d)) /\ gap_of d <= u_win u /\
                           nth_error (sb_log st (e_pid (d_ev d))) (e_seq (d_ev d)) = Some (d_ev d)) (u_out u);
  i_dcur : forall i d, nth_error (rev (u_out u)) i = Some d -> d_cur d = i;
  i_keys : forall k, kkind (u_m u) k = true -> keyinv u k
}.

Definition phinv (st : sbstate) (u : subst) : Prop :=
  match u_ph u with
  | PHist pend cur =>
      pend <> [] /\ NoDup (map h_key pend) /\ u_hold u = None /\
      (forall it, In it pend -> kkind (u_m u) (h_key it) = true /\ mtrack (u_m u) (h_key it) = TFrom (h_pos it) /\
                                h_end it <= length (klog c st (h_key it))) /\
      (forall k b, cur = Some (k, b) -> exists it, find_it k pend = Some it /\ b <= h_end it)
  | PLive => True
  end.

Definition holdinv (st : sbstate) (u : subst) : Prop :=
  forall e, u_hold u = Some e ->
    has_seen (u_m u) e = false /\ nth_error (sb_log st (e_pid e)) (e_seq e) = Some e /\ e_seq e < sb_nb st (e_pid e) /\
    forall n, mtrack (u_m u) (ekey (u_m u) e) = TFrom n -> kpos (ekey (u_m u) e) e = n.

Definition qinv (st : sbstate) (u : subst) : Prop :=
  forall p, exists a, a <= sb_nb st p /\ pfilter p (u_q u) = slice (sb_log st p) a (sb_nb st p).

Definition bound_of (u : subst) (k : hkey) (n : nat) : nat :=
  match find_it k (pend_of (u_ph u)) with Some it => h_end it | None => n end.

Definition qeinv (st : sbstate) (u : subst) : Prop :=
  u_lagn u = 0 -> forall p, exists a, a <= sb_nb st p /\ pfilter p (eff_q u) = slice (sb_log st p) a (sb_nb st p) /\
    forall k n, kkind (u_m u) k = true -> kpid c k = p -> mtrack (u_m u) k = TFrom n -> cover c st k a (bound_of u k n).

Record subinv (st : sbstate) (u : subst) : Prop := {
  i_o : outinv st u;
  i_ph : phinv st u;
  i_hold : holdinv st u;
  i_q : qinv st u;
  i_qe : qeinv st u
}.

Definition sbinv (st : sbstate) : Prop :=
  logwf c st /\ wmwf st /\ forall u, sb_sub st = Some u -> subinv st u.

(* ---- dpos after one more record *)
Lemma dpos_cons k d out :
  dpos k (d :: out) = dpos k out ++ (if dkey_match k (d_ev d) then [kpos k (d_ev d)] else []).
Proof.
  unfold dpos. cbn [rev]. rewrite filter_app, map_app. cbn [filter]. destruct (dkey_match k (d_ev d)); reflexivity.
Qed.

Lemma dkey_match_other m e k : kkind m k = true -> k <> ekey m e -> dkey_match k e = false.
Proof.
  unfold kkind, ekey. destruct k as [p|s]; destruct (is_part_kind m); cbn; intros Hk Hne; try discriminate.
  - destruct (e_pid e =? p) eqn:E; [apply Nat.eqb_eq in E; congruence|reflexivity].
  - destruct (e_sid e =? s) eqn:E; [apply Nat.eqb_eq in E; congruence|reflexivity].
Qed.

Lemma dkey_match_ekey m e : dkey_match (ekey m e) e = true.
Proof. unfold ekey. destruct (is_part_kind m); cbn; apply Nat.eqb_refl. Qed.

Lemma win_open_gap u : win_open u = true -> gap_of (mkD (mkSev 0 0 0 0) 0 (u_cur u) (u_ack u)) <= u_win u.
Proof. unfold win_open, gap_of. cbn. destruct (u_ack u); intros H; apply Nat.leb_le in H; exact H. Qed.

(* the common part of every send (history or live) *)
Lemma deliver_outinv st u e m' ph h :
  outinv st u -> win_open u = true ->
  e_seq e < sb_wm st (e_pid e) ->
  nth_error (sb_log st (e_pid e)) (e_seq e) = Some e ->
  kpid c (ekey (u_m u) e) < c_np c ->
  mtrack (u_m u) (ekey (u_m u) e) <> TIgnore ->
  (forall n, mtrack (u_m u) (ekey (u_m u) e) = TFrom n -> kpos (ekey (u_m u) e) e = n) ->
  is_part_kind m' = is_part_kind (u_m u) -> hyd m' = true -> wf_matcher m' ->
  (forall k, kkind (u_m u) k = true ->
             mtrack m' k = if hkey_eqb k (ekey (u_m u) e) then TFrom (S (kpos (ekey (u_m u) e) e)) else mtrack (u_m u) k) ->
  outinv st (deliver st u e m' ph h).
Proof.
  intros [Ikind Ihyd Iwf Icur Iout Idcur Ikeys] Hwin Hconf Hinlog Hnp Hnig Hpos Hk' Hh' Hw' Ht'.
  set (k0 := ekey (u_m u) e) in *.
  constructor; cbn.
  - congruence.
  - exact Hh'.
  - exact Hw'.
  - rewrite Icur. reflexivity.
  - constructor; [|exact Iout]. cbn. split; [exact Hconf|]. split; [lia|]. split; [|exact Hinlog].
    pose proof (win_open_gap u Hwin) as G. unfold gap_of in *. cbn in *. exact G.
  - intros i d Hn. destruct (Nat.lt_ge_cases i (length (rev (u_out u)))) as [Hlt|Hge].
    + rewrite nth_error_app1 in Hn by exact Hlt. apply Idcur. exact Hn.
    + rewrite nth_error_app2 in Hn by exact Hge. destruct (i - length (rev (u_out u))) as [|j] eqn:E; cbn in Hn; [|destruct j; discriminate].
      injection Hn as <-. cbn. rewrite rev_length in *. lia.
  - intros k Hk. assert (Hk0 : kkind (u_m u) k = true).
    { unfold kkind in *. rewrite Hk' in Hk. exact Hk. }
    specialize (Ikeys k Hk0). destruct Ikeys as [Kc Kn Ki Ks].
    specialize (Ht' k Hk0).
    destruct (hkey_dec k k0) as [->|Hne].
    + (* the key of the record *)
      rewrite hkey_eqb_refl in Ht'.
      assert (Hd : dpos k0 (mkD e (sb_wm st (e_pid e)) (u_cur u) (u_ack u) :: u_out u) = dpos k0 (u_out u) ++ [kpos k0 e]).
      { rewrite dpos_cons. cbn [d_ev]. unfold k0. rewrite dkey_match_ekey. reflexivity. }
      constructor; cbn [u_out u_m u_m0 deliver]; rewrite Hd.
      * destruct (dpos k0 (u_out u)) as [|x l] eqn:El.
        { exists (kpos k0 e). reflexivity. }
        destruct Kc as [a Ha]. specialize (Kn ltac:(discriminate)). apply Hpos in Kn.
        exists a. rewrite app_length. cbn [length]. rewrite Nat.add_1_r. rewrite seq_snoc. f_equal; [exact Ha|].
        rewrite Kn. rewrite Ha at 1. rewrite last_seq by (cbn; lia). cbn [length]. f_equal. lia.
      * intros _. rewrite last_snoc. exact Ht'.
      * intros H. destruct (dpos k0 (u_out u)); discriminate.
      * intros n Hn _. destruct (dpos k0 (u_out u)) as [|x l] eqn:El.
        { cbn. apply Hpos. rewrite <- Hn. apply Ki; [reflexivity|exact Hnp]. }
        cbn. apply (Ks n Hn). discriminate.
    + assert (Hm : dkey_match k e = false) by (eapply dkey_match_other; eassumption).
      assert (Hd : dpos k (mkD e (sb_wm st (e_pid e)) (u_cur u) (u_ack u) :: u_out u) = dpos k (u_out u)).
      { rewrite dpos_cons. cbn [d_ev]. rewrite Hm. apply app_nil_r. }
      apply hkey_eqb_neq in Hne. rewrite Hne in Ht'.
      constructor; cbn [u_out u_m u_m0 deliver]; rewrite Hd; rewrite ?Ht'; assumption.
Qed.

Lemma pend_of_mk_phase l cur : pend_of (mk_phase l cur) = l.
Proof. destruct l; reflexivity. Qed.

Lemma pfilter_tl L p l a b :
  pfilter p l = slice L a b -> a <= b -> exists a', a <= a' /\ a' <= b /\ pfilter p (tl l) = slice L a' b.
Proof.
  intros H Hab. destruct l as [|h r]; cbn in *; [exists a; auto|].
  destruct (e_pid h =? p).
  - symmetry in H. apply slice_uncons in H. destruct H as (Hlt & _ & ->). exists (S a). repeat split; lia || reflexivity.
  - exists a. auto.
Qed.

Lemma pfilter_app p l x : pfilter p (l ++ x) = pfilter p l ++ pfilter p x.
Proof. apply filter_app. Qed.

Lemma kkind_match_ekey m k e : kkind m k = true -> dkey_match k e = true -> k = ekey m e.
Proof.
  intros Hk Hm. destruct (hkey_dec k (ekey m e)) as [|Hne]; [assumption|].
  rewrite (dkey_match_other m e k Hk Hne) in Hm. discriminate.
Qed.

(* the invariant of the subscription only looks at the logs, watermarks and broadcast positions *)
Lemma subinv_glob st st' u :
  sb_log st' = sb_log st -> sb_wm st' = sb_wm st -> sb_nb st' = sb_nb st -> subinv st u -> subinv st' u.
Proof.
  destruct st as [l w n b s], st' as [l' w' n' b' s']. cbn. intros -> -> -> [[I1 I2 I3 I4 I5 I6 I7] Iph Ih Iq Iqe].
  constructor; [constructor; assumption|exact Iph|exact Ih|exact Iq|exact Iqe].
Qed.

Lemma keyinv_eq u u' k :
  u_out u' = u_out u -> u_m u' = u_m u -> u_m0 u' = u_m0 u -> keyinv u k -> keyinv u' k.
Proof.
  intros Ho Hm H0 [K1 K2 K3 K4]. constructor; rewrite ?Ho, ?Hm, ?H0; assumption.
Qed.

Lemma outinv_eq st u u' :
  u_out u' = u_out u -> u_m u' = u_m u -> u_m0 u' = u_m0 u -> u_win u' = u_win u -> u_cur u' = u_cur u ->
  outinv st u -> outinv st u'.
Proof.
  intros Ho Hm H0 Hw Hc [I1 I2 I3 I4 I5 I6 I7].
  constructor; rewrite ?Ho, ?Hm, ?H0, ?Hw, ?Hc; try assumption.
  intros k Hk. eapply keyinv_eq; try eassumption. apply I7. exact Hk.
Qed.

Hypothesis Hbrk : c_brk c = true.

Lemma subinv_set_ph st u ph :
  subinv st u -> phinv st (u_set_ph u ph) ->
  (forall k n a, kkind (u_m u) k = true -> mtrack (u_m u) k = TFrom n -> a <= sb_nb st (kpid c k) ->
                 cover c st k a (bound_of u k n) -> cover c st k a (bound_of (u_set_ph u ph) k n)) ->
  subinv st (u_set_ph u ph).
Proof.
  intros [Io Iph Ih Iq Iqe] Hph Hcov.
  constructor; [eapply outinv_eq; try exact Io; reflexivity|exact Hph|exact Ih|exact Iq|].
  intros Hl p. destruct (Iqe Hl p) as (a & Ha & Hs & Hc). exists a. split; [exact Ha|]. split; [exact Hs|].
  intros k n Hk Hp Ht. apply Hcov; try assumption; [subst p; exact Ha|]. apply Hc; assumption.
Qed.

Lemma subinv_set_ack st u a : subinv st u -> subinv st (u_set_ack u a).
Proof.
  intros [Io Iph Ih Iq Iqe].
  constructor; [eapply outinv_eq; try exact Io; reflexivity|exact Iph|exact Ih|exact Iq|exact Iqe].
Qed.

(* OHistBatch, and OHistEvent when the batch is used up: only the current batch changes *)
Lemma subinv_set_cur st u pend cur cur' :
  subinv st u -> u_ph u = PHist pend cur ->
  (forall k b, cur' = Some (k, b) -> exists it, find_it k pend = Some it /\ b <= h_end it) ->
  subinv st (u_set_ph u (PHist pend cur')).
Proof.
  intros Hi Hph Hc. apply subinv_set_ph; [exact Hi| |].
  - destruct Hi as [_ Iph _ _ _]. unfold phinv in *. rewrite Hph in Iph. cbn.
    destruct Iph as (A & B & C & D & E). split; [exact A|]. split; [exact B|]. split; [exact C|]. split; [exact D|exact Hc].
  - intros k n a _ _ _ H. unfold bound_of in *. rewrite Hph in H. exact H.
Qed.

(* an iterator leaves the history read: used up (OHistDrop) or stopped at an unconfirmed event (OHistEvent) *)
Lemma subinv_remove st u pend cur k it :
  logwf c st -> wmwf st ->
  subinv st u -> u_ph u = PHist pend cur -> find_it k pend = Some it ->
  (forall a, a <= sb_nb st (kpid c k) -> cover c st k a (h_end it) -> cover c st k a (h_pos it)) ->
  subinv st (u_set_ph u (mk_phase (remove_it k pend) None)).
Proof.
  intros Hl Hw Hi Hph Hf Hcov. apply subinv_set_ph; [exact Hi| |].
  - destruct Hi as [_ Iph _ _ _]. unfold phinv in *. rewrite Hph in Iph. destruct Iph as (A & B & C & D & E).
    cbn [u_ph u_set_ph]. destruct (remove_it k pend) as [|x l] eqn:Er; [exact I|]. cbn [mk_phase]. rewrite <- Er.
    split; [rewrite Er; discriminate|]. split; [apply remove_it_nodup; exact B|]. split; [exact C|]. split.
    + intros it' Hin. apply remove_it_in in Hin. apply D. tauto.
    + intros ? ? Hx. discriminate.
  - intros k2 n a Hk Ht Ha H. unfold bound_of in *. cbn [u_ph u_set_ph]. rewrite pend_of_mk_phase. rewrite Hph in H. cbn [pend_of] in H.
    destruct (hkey_dec k2 k) as [->|Hne].
    + rewrite find_it_remove_same. rewrite Hf in H.
      destruct Hi as [_ Iph _ _ _]. unfold phinv in Iph. rewrite Hph in Iph. destruct Iph as (_ & _ & _ & D & _).
      destruct (find_it_some _ _ _ Hf) as [Hin Hkey]. destruct (D it Hin) as (_ & Ht' & _). rewrite Hkey in Ht'.
      rewrite Ht in Ht'. injection Ht' as ->. apply Hcov; assumption.
    + rewrite find_it_remove_other by exact Hne. exact H.
Qed.

Lemma subinv_extend st u pend cur k it :
  subinv st u -> u_ph u = PHist pend cur -> find_it k pend = Some it ->
  subinv st (u_set_ph u (PHist (replace_it (mkIt k (h_pos it) (Nat.max (h_end it) (length (klog c st k)))) pend) cur)).
Proof.
  intros Hi Hph Hf.
  destruct (find_it_some _ _ _ Hf) as [Hin Hkey].
  set (it' := mkIt k (h_pos it) (Nat.max (h_end it) (length (klog c st k)))).
  assert (Hk' : h_key it' = k) by reflexivity.
  assert (Hfr : find_it k (replace_it it' pend) = Some it').
  { apply (find_it_replace_same it' pend). eapply find_it_in_keys. exact Hf. }
  assert (Hfo : forall k2, k2 <> k -> find_it k2 (replace_it it' pend) = find_it k2 pend).
  { intros k2 Hne. apply find_it_replace_other. exact Hne. }
  apply subinv_set_ph; [exact Hi| |].
  - destruct Hi as [_ Iph _ _ _]. unfold phinv in *. rewrite Hph in Iph. destruct Iph as (A & B & C & D & E).
    cbn [u_ph u_set_ph u_m u_hold].
    split; [intros Hnil; apply (f_equal (map h_key)) in Hnil; rewrite replace_it_keys in Hnil; destruct pend; [congruence|discriminate]|].
    split; [rewrite replace_it_keys; exact B|]. split; [exact C|]. split.
    + intros x Hx. apply replace_it_in in Hx. destruct Hx as [[-> _]|[Hx _]]; [|apply D; exact Hx].
      destruct (D it Hin) as (D1 & D2 & D3). rewrite Hkey in *. cbn. repeat split; try assumption. lia.
    + intros k2 b Hc. destruct (E k2 b Hc) as (it2 & F1 & F2). destruct (hkey_dec k2 k) as [->|Hne].
      * exists it'. split; [exact Hfr|].
        rewrite Hf in F1. injection F1 as <-. cbn. lia.
      * exists it2. split; [rewrite Hfo by exact Hne; exact F1|exact F2].
  - intros k2 n a Hk Ht Ha H. unfold bound_of in *. cbn [u_ph u_set_ph pend_of]. rewrite Hph in H. cbn [pend_of] in H.
    destruct (hkey_dec k2 k) as [->|Hne].
    + rewrite Hfr. rewrite Hf in H. eapply cover_mono; [exact H|]. cbn. lia.
    + rewrite Hfo by exact Hne. exact H.
Qed.

Lemma kpid_ekey st m e : logwf c st -> nth_error (sb_log st (e_pid e)) (e_seq e) = Some e ->
  kpid c (ekey m e) = e_pid e /\ e_pid e < c_np c.
Proof.
  intros Hl Hn. destruct (Hl (e_pid e)) as [Hw Hne]. destruct (Hw _ _ Hn) as (_ & _ & _ & D).
  split; [unfold ekey; destruct (is_part_kind m); cbn; [reflexivity|exact D]|].
  apply Hne. intros Hnil. rewrite Hnil in Hn. destruct (e_seq e); discriminate.
Qed.

(* OHistEvent, the record goes out *)
Lemma subinv_hist_deliver st u pend k bend it e :
  logwf c st -> wmwf st -> subinv st u -> u_ph u = PHist pend (Some (k, bend)) -> find_it k pend = Some it ->
  h_pos it < bend -> nth_error (klog c st k) (h_pos it) = Some e -> e_seq e < sb_wm st (e_pid e) -> win_open u = true ->
  subinv st (deliver st u e (hist_update (u_m u) k (kpos k e))
                     (PHist (replace_it (mkIt k (S (h_pos it)) (h_end it)) pend) (Some (k, bend))) None).
Proof.
  intros Hl Hw [Io Iph Ih Iq Iqe] Hph Hf Hlt Hn Hconf Hwin.
  unfold phinv in Iph. rewrite Hph in Iph. destruct Iph as (A & B & C & D & E).
  destruct (find_it_some _ _ _ Hf) as [Hin Hkey].
  destruct (D it Hin) as (D1 & D2 & D3). rewrite Hkey in D1, D2, D3.
  destruct (E k bend eq_refl) as (it2 & F1 & F2). rewrite Hf in F1. injection F1 as <-.
  destruct (klog_nth c st k _ e Hl Hn) as (Kp & Km & Kn).
  assert (Hek : k = ekey (u_m u) e) by (apply kkind_match_ekey; assumption).
  assert (Hpid : e_pid e = kpid c k).
  { destruct (proj1 (Hl (kpid c k)) _ _ Kn) as (P & _). exact P. }
  assert (Hnp : kpid c k < c_np c).
  { apply (proj2 (Hl (kpid c k))). intros Hnil. rewrite Hnil in Kn. destruct (e_seq e); discriminate. }
  destruct (hist_update_spec (u_m u) k (kpos k e) (h_pos it) (i_hyd _ _ Io) (i_wf _ _ Io) D1 D2) as (M1 & M2 & M3 & M4).
  set (it' := mkIt k (S (h_pos it)) (h_end it)).
  assert (Hfr : find_it k (replace_it it' pend) = Some it').
  { apply (find_it_replace_same it' pend). eapply find_it_in_keys. exact Hf. }
  assert (Hfo : forall k2, k2 <> k -> find_it k2 (replace_it it' pend) = find_it k2 pend).
  { intros k2 Hne. apply find_it_replace_other. exact Hne. }
  constructor.
  - apply deliver_outinv; try assumption.
    + rewrite Hpid. exact Kn.
    + rewrite <- Hek. exact Hnp.
    + rewrite <- Hek. rewrite D2. discriminate.
    + rewrite <- Hek. intros n Hn'. rewrite D2 in Hn'. injection Hn' as <-. exact Kp.
    + rewrite <- Hek. exact M4.
  - unfold phinv. cbn [u_ph deliver u_m u_hold].
    split; [intros Hnil; apply (f_equal (map h_key)) in Hnil; rewrite replace_it_keys in Hnil; destruct pend; [congruence|discriminate]|].
    split; [rewrite replace_it_keys; exact B|]. split; [reflexivity|]. split.
    + intros x Hx. apply replace_it_in in Hx. destruct Hx as [[-> _]|[Hx Hxk]].
      * cbn [h_key h_pos h_end it']. unfold kkind in *. rewrite M1. split; [exact D1|]. split; [|exact D3].
        rewrite (M4 k D1). rewrite hkey_eqb_refl. rewrite Kp. reflexivity.
      * destruct (D x Hx) as (X1 & X2 & X3). unfold kkind in *. rewrite M1. split; [exact X1|]. split; [|exact X3].
        rewrite (M4 _ X1). cbn [h_key it'] in Hxk. apply hkey_eqb_neq in Hxk. rewrite Hxk. exact X2.
    + intros k2 b Hc. injection Hc as <- <-. exists it'. split; [exact Hfr|exact F2].
  - intros e' He'. discriminate.
  - exact Iq.
  - intros Hlag p. cbn [u_lagn deliver] in Hlag. destruct (Iqe Hlag p) as (a & Ha & Hs & Hc).
    exists a. split; [exact Ha|]. split; [unfold eff_q in *; cbn [u_hold u_q deliver]; rewrite C in Hs; exact Hs|].
    intros k2 n Hk2 Hp Ht. unfold bound_of in *. cbn [u_ph deliver pend_of u_m] in *. rewrite Hph in Hc. cbn [pend_of] in Hc.
    assert (Hk2' : kkind (u_m u) k2 = true) by (unfold kkind in *; rewrite M1 in Hk2; exact Hk2).
    rewrite (M4 k2 Hk2') in Ht. destruct (hkey_dec k2 k) as [->|Hne].
    + rewrite Hfr. cbn [h_end it']. specialize (Hc k (h_pos it) Hk2' Hp D2). rewrite Hf in Hc. exact Hc.
    + rewrite Hfo by exact Hne. apply hkey_eqb_neq in Hne. rewrite Hne in Ht. apply Hc; assumption.
Qed.

(* ORecv, a value is taken from the channel *)
Lemma subinv_recv st u e r :
  logwf c st -> wmwf st -> subinv st u -> u_ph u = PLive -> u_hold u = None -> u_lagn u = 0 -> u_q u = e :: r ->
  subinv st (u_set_q u (if has_seen (u_m u) e then None else Some e) r 0).
Proof.
  intros Hl Hw [Io Iph Ih Iq Iqe] Hph Hh Hlag Hq.
  (* the received value is the oldest waiting event of its partition *)
  destruct (Iqe Hlag (e_pid e)) as (a & Ha & Hs & Hc).
  unfold eff_q in Hs. rewrite Hh, Hq in Hs. cbn in Hs. rewrite Nat.eqb_refl in Hs. symmetry in Hs.
  apply slice_uncons in Hs. destruct Hs as (Hab & Hna & Hr).
  destruct (proj1 (Hl (e_pid e)) _ _ Hna) as (_ & Hseq & _).
  assert (Hqinv : qinv st (u_set_q u (if has_seen (u_m u) e then None else Some e) r 0)).
  { intros p. cbn [u_q u_set_q]. destruct (Nat.eq_dec p (e_pid e)) as [->|Hne].
    - exists (S a). split; [lia|]. exact Hr.
    - destruct (Iq p) as (a1 & Ha1 & Hs1). rewrite Hq in Hs1. cbn in Hs1.
      destruct (e_pid e =? p) eqn:E; [apply Nat.eqb_eq in E; congruence|]. exists a1. auto. }
  constructor.
  - eapply outinv_eq; try exact Io; reflexivity.
  - unfold phinv. cbn [u_ph u_set_q]. rewrite Hph. exact I.
  - intros e' He'. cbn [u_hold u_set_q u_m] in *. destruct (has_seen (u_m u) e) eqn:Hseen; [discriminate|]. injection He' as <-.
    split; [exact Hseen|]. split; [rewrite Hseq; exact Hna|]. split; [lia|].
    intros n Ht. set (k := ekey (u_m u) e) in *.
    assert (Hge : n <= kpos k e).
    { rewrite has_seen_track in Hseen. fold k in Hseen. rewrite Ht in Hseen. apply Nat.ltb_ge in Hseen. exact Hseen. }
    destruct (Nat.eq_dec (kpos k e) n) as [|Hne]; [assumption|]. exfalso.
    assert (Hkp : kpid c k = e_pid e).
    { apply (kpid_ekey st (u_m u) e Hl). rewrite Hseq. exact Hna. }
    assert (Hke : nth_error (klog c st k) (kpos k e) = Some e).
    { eapply klog_of_log; [exact Hl|exact Hna|apply dkey_match_ekey|exact Hkp]. }
    assert (Hlen : n < length (klog c st k)).
    { assert (kpos k e < length (klog c st k)) by (apply nth_error_Some; congruence). lia. }
    destruct (nth_error (klog c st k) n) as [e2|] eqn:E2; [|apply nth_error_None in E2; lia].
    destruct (klog_nth c st k n e2 Hl E2) as (P2 & _ & _).
    assert (Hlt2 : e_seq e2 < e_seq e).
    { eapply klog_mono_inv; [exact Hl|eapply nth_error_In; exact E2|eapply nth_error_In; exact Hke|lia]. }
    specialize (Hc k n (kkind_ekey _ _) Hkp Ht). unfold bound_of in Hc. rewrite Hph in Hc. cbn in Hc.
    specialize (Hc e2 (nth_error_In _ _ E2) ltac:(lia)). lia.
  - exact Hqinv.
  - intros _ p. cbn [u_m u_set_q]. destruct (has_seen (u_m u) e) eqn:Hseen.
    + (* skipped *)
      unfold eff_q, bound_of. cbn [u_hold u_q u_ph u_set_q]. rewrite Hph. cbn [pend_of find_it].
      destruct (Nat.eq_dec p (e_pid e)) as [->|Hne].
      * exists (S a). split; [lia|]. split; [exact Hr|].
        intros k n Hk Hp Ht e' Hin' Hlt'.
        specialize (Hc k n Hk Hp Ht). unfold bound_of in Hc. rewrite Hph in Hc. cbn in Hc.
        destruct (Nat.eq_dec (e_seq e') a) as [Heq|Hne']; [|apply Hc; [exact Hin'|lia]].
        destruct (klog_in c st k e' Hl Hin') as (Km & _ & Kn & _). rewrite Hp, Heq, Hna in Kn. injection Kn as <-.
        assert (Hek : k = ekey (u_m u) e) by (apply kkind_match_ekey; assumption).
        rewrite has_seen_track in Hseen. rewrite <- Hek in Hseen. rewrite Ht in Hseen. apply Nat.ltb_lt in Hseen. exact Hseen.
      * destruct (Iqe Hlag p) as (a1 & Ha1 & Hs1 & Hc1). unfold eff_q in Hs1. rewrite Hh, Hq in Hs1. cbn in Hs1.
        destruct (e_pid e =? p) eqn:E; [apply Nat.eqb_eq in E; congruence|]. exists a1. split; [exact Ha1|]. split; [exact Hs1|].
        intros k n Hk Hp Ht. specialize (Hc1 k n Hk Hp Ht). unfold bound_of in Hc1. rewrite Hph in Hc1. exact Hc1.
    + (* kept for send_record *)
      destruct (Iqe Hlag p) as (a1 & Ha1 & Hs1 & Hc1). exists a1. split; [exact Ha1|]. split.
      * unfold eff_q in *. cbn [u_hold u_q u_set_q]. rewrite Hh, Hq in Hs1. exact Hs1.
      * intros k n Hk Hp Ht. specialize (Hc1 k n Hk Hp Ht). unfold bound_of in *. cbn [u_ph u_set_q]. exact Hc1.
Qed.

(* OSend, the live record goes out *)
Lemma subinv_send st u e :
  logwf c st -> wmwf st -> subinv st u -> u_ph u = PLive -> u_hold u = Some e -> win_open u = true ->
  subinv st (deliver st u e (update_state (u_m u) e) PLive None).
Proof.
  intros Hl Hw [Io Iph Ih Iq Iqe] Hph Hh Hwin.
  destruct (Ih e Hh) as (Hseen & Hna & Hnb & Hpos).
  destruct (kpid_ekey st (u_m u) e Hl Hna) as [Hkp Hnp].
  destruct (update_state_spec (u_m u) e (i_hyd _ _ Io) (i_wf _ _ Io) Hseen) as (M1 & M2 & M3 & M4).
  set (k0 := ekey (u_m u) e) in *.
  assert (Hke : nth_error (klog c st k0) (kpos k0 e) = Some e).
  { eapply klog_of_log; [exact Hl|exact Hna|apply dkey_match_ekey|exact Hkp]. }
  constructor.
  - apply deliver_outinv; try assumption.
    + destruct (Hw (e_pid e)). lia.
    + fold k0. lia.
    + fold k0. intros Ht. rewrite has_seen_track in Hseen. fold k0 in Hseen. rewrite Ht in Hseen. discriminate.
  - exact I.
  - intros e' He'. discriminate.
  - exact Iq.
  - intros Hlag p. cbn [u_lagn deliver] in Hlag. unfold eff_q, bound_of. cbn [u_hold u_q u_ph u_m deliver pend_of find_it].
    destruct (Iqe Hlag (e_pid e)) as (a & Ha & Hs & Hc).
    unfold eff_q in Hs. rewrite Hh in Hs. cbn in Hs. rewrite Nat.eqb_refl in Hs. symmetry in Hs.
    apply slice_uncons in Hs. destruct Hs as (Hab & Hna' & Hr).
    assert (Hseq : e_seq e = a).
    { destruct (proj1 (Hl (e_pid e)) _ _ Hna') as (_ & X & _). exact X. }
    destruct (Nat.eq_dec p (e_pid e)) as [->|Hne].
    + exists (S a). split; [lia|]. split; [exact Hr|].
      intros k n Hk Hp Ht e' Hin' Hlt'.
      assert (Hk' : kkind (u_m u) k = true) by (unfold kkind in *; rewrite M1 in Hk; exact Hk).
      rewrite (M4 k Hk') in Ht. destruct (hkey_dec k k0) as [->|Hnek].
      * rewrite hkey_eqb_refl in Ht. injection Ht as <-.
        destruct (Nat.eq_dec (e_seq e') (e_seq e)) as [Heq|Hneq].
        { rewrite (klog_inj c st k0 e' e Hl Hin' (nth_error_In _ _ Hke) Heq). lia. }
        assert (kpos k0 e' < kpos k0 e); [|lia].
        eapply klog_mono; [exact Hl|exact Hin'|eapply nth_error_In; exact Hke|lia].
      * pose proof Hnek as Hnek'. apply hkey_eqb_neq in Hnek'. rewrite Hnek' in Ht.
        specialize (Hc k n Hk' Hp Ht). unfold bound_of in Hc. rewrite Hph in Hc. cbn in Hc.
        destruct (Nat.eq_dec (e_seq e') a) as [Heq|Hneq]; [|apply Hc; [exact Hin'|lia]].
        exfalso. destruct (klog_in c st k e' Hl Hin') as (Km & _ & Kn & _). rewrite Hp, Heq, Hna' in Kn. injection Kn as <-.
        apply Hnek. apply kkind_match_ekey; assumption.
    + destruct (Iqe Hlag p) as (a1 & Ha1 & Hs1 & Hc1). unfold eff_q in Hs1. rewrite Hh in Hs1. cbn in Hs1.
      destruct (e_pid e =? p) eqn:E; [apply Nat.eqb_eq in E; congruence|]. exists a1. split; [exact Ha1|]. split; [exact Hs1|].
      intros k n Hk Hp Ht.
      assert (Hk' : kkind (u_m u) k = true) by (unfold kkind in *; rewrite M1 in Hk; exact Hk).
      rewrite (M4 k Hk') in Ht.
      assert (Hnek : k <> k0) by (intros ->; rewrite Hkp in Hp; congruence).
      apply hkey_eqb_neq in Hnek. rewrite Hnek in Ht.
      specialize (Hc1 k n Hk' Hp Ht). unfold bound_of in Hc1. rewrite Hph in Hc1. exact Hc1.
Qed.

(* the start of a history read (Subscribe, or after Lagged) *)
Lemma enter_run st u m' pend :
  logwf c st -> wmwf st -> start_history c st (u_m u) = (m', pend) -> wf_matcher (u_m u) ->
  u_hold u = None -> u_lagn u = 0 -> qinv st u ->
  let u' := u_set_m_ph u m' (mk_phase pend None) in
  phinv st u' /\ holdinv st u' /\ qinv st u' /\ qeinv st u'.
Proof.
  intros Hl Hw Hs Hwf Hh Hlag Iq u'.
  destruct (start_history_spec c st (u_m u) m' pend Hwf Hs) as (S1 & S2 & S3 & S4 & S5 & S6 & S7 & S8).
  split; [|split; [|split]].
  - unfold phinv, u'. cbn [u_ph u_set_m_ph u_m u_hold]. destruct pend as [|x l] eqn:Ep; [exact I|]. cbn [mk_phase]. rewrite <- Ep in *.
    split; [rewrite Ep; discriminate|]. split; [exact S6|]. split; [exact Hh|]. split.
    + intros it Hin. destruct (S7 it Hin) as (X1 & X2 & X3). split; [exact X1|]. split; [exact X2|]. rewrite X3. apply Nat.le_refl.
    + intros ? ? Hx. discriminate.
  - intros e He. unfold u' in He. cbn in He. congruence.
  - exact Iq.
  - intros _ p. destruct (Iq p) as (a & Ha & Hsl). exists a. split; [exact Ha|].
    split; [unfold eff_q, u'; cbn [u_hold u_q u_set_m_ph]; rewrite Hh; exact Hsl|].
    intros k n Hk Hp Ht. unfold bound_of, u'. cbn [u_ph u_set_m_ph u_m] in *. rewrite pend_of_mk_phase.
    destruct (find_it k pend) as [it|] eqn:Ef.
    + destruct (find_it_some _ _ _ Ef) as [Hin Hkey]. destruct (S7 it Hin) as (_ & _ & X3). rewrite X3, Hkey. apply cover_len. exact Hl.
    + destruct (S8 k n Hk Ht Ef) as (q & -> & [Hq|Hq]).
      * intros e He Hlt. cbn in *. subst p. destruct (Hw q). lia.
      * intros e He Hlt. exfalso. cbn in He. destruct (Hl q) as [_ Hne].
        assert (q < c_np c); [|lia]. apply Hne. intros Hnil. rewrite Hnil in He. destruct He.
Qed.

Lemma subinv_lagged st u lags' :
  logwf c st -> wmwf st -> subinv st u -> u_hold u = None ->
  subinv st (enter_history c st (mkSub (u_m0 u) (u_m u) (u_win u) (u_cur u) (u_ack u) (u_ph u) None (u_q u) 0 (u_out u) lags')).
Proof.
  intros Hl Hw [Io Iph Ih Iq Iqe] Hh.
  set (u1 := mkSub (u_m0 u) (u_m u) (u_win u) (u_cur u) (u_ack u) (u_ph u) None (u_q u) 0 (u_out u) lags').
  unfold enter_history. destruct (start_history c st (u_m u1)) as [m' pend] eqn:Es.
  destruct (start_history_spec c st (u_m u1) m' pend (i_wf _ _ Io) Es) as (_ & _ & _ & _ & S5 & _).
  assert (Hm : m' = u_m u) by (apply S5; exact (i_hyd _ _ Io)). subst m'.
  destruct (enter_run st u1 (u_m u) pend Hl Hw Es (i_wf _ _ Io) eq_refl eq_refl Iq) as (R1 & R2 & R3 & R4).
  constructor; try assumption. eapply outinv_eq; try exact Io; reflexivity.
Qed.

Lemma subinv_subscribe st m w :
  logwf c st -> wmwf st -> wf_matcher m ->
  subinv st (enter_history c st (mkSub m m w 0 None PLive None [] 0 [] [])).
Proof.
  intros Hl Hw Hwf.
  set (u0 := mkSub m m w 0 None PLive None [] 0 [] []).
  unfold enter_history. destruct (start_history c st (u_m u0)) as [m' pend] eqn:Es.
  destruct (start_history_spec c st m m' pend Hwf Es) as (S1 & S2 & S3 & S4 & _).
  assert (Iq : qinv st u0).
  { intros p. exists (sb_nb st p). split; [lia|]. rewrite slice_nil. reflexivity. }
  destruct (enter_run st u0 m' pend Hl Hw Es Hwf eq_refl eq_refl Iq) as (R1 & R2 & R3 & R4).
  constructor; try assumption.
  constructor; cbn; try assumption; try reflexivity.
  - constructor.
  - intros i d H. destruct i; discriminate.
  - intros k Hk. constructor; cbn.
    + exists 0. reflexivity.
    + intros H. congruence.
    + intros _ Hp. apply S4. exact Hp.
    + intros n _ H. congruence.
Qed.

(* OAppend: the logs grow *)
Lemma subinv_append st st' u :
  log_ext st st' -> sb_wm st' = sb_wm st -> sb_nb st' = sb_nb st -> logwf c st -> logwf c st' -> wmwf st ->
  subinv st u -> subinv st' u.
Proof.
  intros He Hwm Hnb Hl Hl' Hw [[I1 I2 I3 I4 I5 I6 I7] Iph Ih Iq Iqe].
  constructor.
  - constructor; try assumption. rewrite Hwm. eapply Forall_impl; [|exact I5]. cbn. intros d (X1 & X2 & X3 & X4).
    repeat split; try assumption. destruct (He (e_pid (d_ev d))) as [x ->]. apply nth_error_app_l. exact X4.
  - unfold phinv in *. destruct (u_ph u) as [pend cur|]; [|exact I]. destruct Iph as (A & B & C & D & E).
    split; [exact A|]. split; [exact B|]. split; [exact C|]. split; [|exact E].
    intros it Hin. destruct (D it Hin) as (D1 & D2 & D3). split; [exact D1|]. split; [exact D2|].
    pose proof (klog_ext_len c st st' (h_key it) He). lia.
  - intros e Hh. destruct (Ih e Hh) as (H1 & H2 & H3 & H4). rewrite Hnb. split; [exact H1|]. split; [|split; assumption].
    destruct (He (e_pid e)) as [x ->]. apply nth_error_app_l. exact H2.
  - intros p. destruct (Iq p) as (a & Ha & Hs). exists a. rewrite Hnb. split; [exact Ha|].
    destruct (He p) as [x ->]. rewrite slice_app_l; [exact Hs|]. destruct (Hw p). lia.
  - intros Hlag p. destruct (Iqe Hlag p) as (a & Ha & Hs & Hc). exists a. rewrite Hnb. split; [exact Ha|]. split.
    + destruct (He p) as [x ->]. rewrite slice_app_l; [exact Hs|]. destruct (Hw p). lia.
    + intros k n Hk Hp Ht. eapply cover_ext; try eassumption; [|apply Hc; assumption]. rewrite Hp. destruct (Hw p). lia.
Qed.

(* OAdvance: a watermark grows *)
Lemma subinv_advance st st' u :
  sb_log st' = sb_log st -> sb_nb st' = sb_nb st -> (forall p, sb_wm st p <= sb_wm st' p) ->
  subinv st u -> subinv st' u.
Proof.
  intros Hlog Hnb Hwm [[I1 I2 I3 I4 I5 I6 I7] Iph Ih Iq Iqe].
  assert (Hk : forall k, klog c st' k = klog c st k) by (intros [p|s]; cbn; rewrite Hlog; reflexivity).
  constructor.
  - constructor; try assumption. eapply Forall_impl; [|exact I5]. cbn. intros d (A & B & C & D). specialize (Hwm (e_pid (d_ev d))). rewrite Hlog. repeat split; try assumption; lia.
  - unfold phinv in *. destruct (u_ph u) as [pend cur|]; [|exact I]. destruct Iph as (A & B & C & D & E).
    split; [exact A|]. split; [exact B|]. split; [exact C|]. split; [|exact E].
    intros it Hin. rewrite Hk. apply D. exact Hin.
  - intros e Hh. rewrite Hlog, Hnb. apply Ih. exact Hh.
  - intros p. rewrite Hlog, Hnb. apply Iq.
  - intros Hlag p. destruct (Iqe Hlag p) as (a & Ha & Hs & Hc). exists a. rewrite Hlog, Hnb. split; [exact Ha|]. split; [exact Hs|].
    intros k n Hk1 Hp Ht e He. rewrite Hk in He. apply (Hc k n Hk1 Hp Ht). exact He.
Qed.

(* OBcast: one value is added to the channel *)
Definition nb_inv (L : nat -> list sevent) (NB : nat -> nat) (q : list sevent) : Prop :=
  forall p, exists a, a <= NB p /\ pfilter p q = slice (L p) a (NB p).

Lemma nb_inv_push L NB q p e :
  nb_inv L NB q -> nth_error (L p) (NB p) = Some e -> e_pid e = p ->
  nb_inv L (fupd NB p (S (NB p))) (q ++ [e]).
Proof.
  intros H Hn Hp p'. destruct (H p') as (a & Ha & Hs). unfold fupd. rewrite pfilter_app. cbn. rewrite Hp.
  destruct (p' =? p) eqn:E.
  - apply Nat.eqb_eq in E. subst p'. rewrite Nat.eqb_refl. exists a. split; [lia|].
    rewrite Hs. rewrite <- (slice_one _ _ _ Hn). apply slice_app_r; lia.
  - rewrite Nat.eqb_sym in E. rewrite E. exists a. rewrite app_nil_r. auto.
Qed.

Lemma nb_inv_tl L NB q : nb_inv L NB q -> nb_inv L NB (tl q).
Proof.
  intros H p. destruct (H p) as (a & Ha & Hs). destruct (pfilter_tl (L p) p q a (NB p) Hs Ha) as (a' & H1 & H2 & H3).
  exists a'. auto.
Qed.

Lemma q_push_fields u e :
  let u' := q_push c u e in
  u_m0 u' = u_m0 u /\ u_m u' = u_m u /\ u_win u' = u_win u /\ u_cur u' = u_cur u /\ u_ack u' = u_ack u /\
  u_ph u' = u_ph u /\ u_hold u' = u_hold u /\ u_out u' = u_out u /\
  ((u_q u' = u_q u ++ [e] /\ u_lagn u' = u_lagn u) \/ (u_q u' = tl (u_q u ++ [e]) /\ u_lagn u' = S (u_lagn u))).
Proof.
  unfold q_push. cbn zeta. destruct (c_cap c <? length (u_q u ++ [e])); cbn; repeat split; auto.
Qed.

Lemma subinv_push st u p e NB :
  (forall d, In d (u_out u) -> True) ->
  outinv st u -> phinv st u ->
  (forall e', u_hold u = Some e' -> has_seen (u_m u) e' = false /\ nth_error (sb_log st (e_pid e')) (e_seq e') = Some e' /\
                                   e_seq e' < NB (e_pid e') /\
                                   forall n, mtrack (u_m u) (ekey (u_m u) e') = TFrom n -> kpos (ekey (u_m u) e') e' = n) ->
  nb_inv (sb_log st) NB (u_q u) ->
  (u_lagn u = 0 -> forall p', exists a, a <= NB p' /\ pfilter p' (eff_q u) = slice (sb_log st p') a (NB p') /\
      forall k n, kkind (u_m u) k = true -> kpid c k = p' -> mtrack (u_m u) k = TFrom n -> cover c st k a (bound_of u k n)) ->
  nth_error (sb_log st p) (NB p) = Some e -> e_pid e = p ->
  let u' := q_push c u e in let NB' := fupd NB p (S (NB p)) in
  outinv st u' /\ phinv st u' /\
  (forall e', u_hold u' = Some e' -> has_seen (u_m u') e' = false /\ nth_error (sb_log st (e_pid e')) (e_seq e') = Some e' /\
                                   e_seq e' < NB' (e_pid e') /\
                                   forall n, mtrack (u_m u') (ekey (u_m u') e') = TFrom n -> kpos (ekey (u_m u') e') e' = n) /\
  nb_inv (sb_log st) NB' (u_q u') /\
  (u_lagn u' = 0 -> forall p', exists a, a <= NB' p' /\ pfilter p' (eff_q u') = slice (sb_log st p') a (NB' p') /\
      forall k n, kkind (u_m u') k = true -> kpid c k = p' -> mtrack (u_m u') k = TFrom n -> cover c st k a (bound_of u' k n)).
Proof.
  intros _ Io Iph Ih Iq Iqe Hn Hp u' NB'.
  destruct (q_push_fields u e) as (F1 & F2 & F3 & F4 & F5 & F6 & F7 & F8 & F9). fold u' in F1, F2, F3, F4, F5, F6, F7, F8, F9.
  assert (HNB : forall x, NB x <= NB' x) by (intros x; unfold NB', fupd; destruct (x =? p) eqn:E; [apply Nat.eqb_eq in E; subst; lia|lia]).
  split; [eapply outinv_eq; try exact Io; assumption|].
  split; [unfold phinv in *; rewrite F6, F2, F7; exact Iph|].
  split.
  { intros e' He'. rewrite F7 in He'. rewrite F2. destruct (Ih e' He') as (H1 & H2 & H3 & H4). repeat split; try assumption.
    specialize (HNB (e_pid e')). lia. }
  split.
  { destruct F9 as [[-> _]|[-> _]]; [|apply nb_inv_tl]; apply nb_inv_push; assumption. }
  intros Hlag. destruct F9 as [[Fq Fl]|[_ Fl]]; [|rewrite Fl in Hlag; discriminate].
  rewrite Fl in Hlag. intros p'. destruct (Iqe Hlag p') as (a & Ha & Hs & Hc).
  assert (Heq : eff_q u' = eff_q u ++ [e]).
  { unfold eff_q. rewrite F7, Fq. destruct (u_hold u); reflexivity. }
  exists a. split; [specialize (HNB p'); lia|]. split.
  - rewrite Heq, pfilter_app. cbn. rewrite Hp. unfold NB', fupd. destruct (p' =? p) eqn:E.
    + apply Nat.eqb_eq in E. subst p'. rewrite Nat.eqb_refl. rewrite Hs. rewrite <- (slice_one _ _ _ Hn). apply slice_app_r; lia.
    + rewrite Nat.eqb_sym in E. rewrite E. rewrite app_nil_r. exact Hs.
  - intros k n Hk Hkp Ht. rewrite F2 in Hk, Ht. unfold bound_of. rewrite F6. apply Hc; assumption.
Qed.

Definition pushinv (st : sbstate) (NB : nat -> nat) (u : subst) : Prop :=
  outinv st u /\ phinv st u /\
  (forall e', u_hold u = Some e' -> has_seen (u_m u) e' = false /\ nth_error (sb_log st (e_pid e')) (e_seq e') = Some e' /\
                                   e_seq e' < NB (e_pid e') /\
                                   forall n, mtrack (u_m u) (ekey (u_m u) e') = TFrom n -> kpos (ekey (u_m u) e') e' = n) /\
  nb_inv (sb_log st) NB (u_q u) /\
  (u_lagn u = 0 -> forall p', exists a, a <= NB p' /\ pfilter p' (eff_q u) = slice (sb_log st p') a (NB p') /\
      forall k n, kkind (u_m u) k = true -> kpid c k = p' -> mtrack (u_m u) k = TFrom n -> cover c st k a (bound_of u k n)).

Lemma pushinv_ext st NB NB' u : (forall x, NB x = NB' x) -> pushinv st NB u -> pushinv st NB' u.
Proof.
  intros He (A & B & C & D & E). split; [exact A|]. split; [exact B|]. split; [|split].
  - intros e' He'. rewrite <- He. apply C. exact He'.
  - intros p. rewrite <- He. apply D.
  - intros Hl p. rewrite <- He. apply E. exact Hl.
Qed.

Lemma push_fold st p n : forall u NB,
  logwf c st -> pushinv st NB u -> NB p + n <= length (sb_log st p) ->
  pushinv st (fupd NB p (NB p + n)) (fold_left (q_push c) (slice (sb_log st p) (NB p) (NB p + n)) u).
Proof.
  induction n as [|n IH]; intros u NB Hl Hi Hlen.
  - rewrite Nat.add_0_r, slice_nil. cbn. eapply pushinv_ext; [|exact Hi].
    intros x. unfold fupd. destruct (x =? p) eqn:E; [apply Nat.eqb_eq in E; subst; reflexivity|reflexivity].
  - destruct (nth_error (sb_log st p) (NB p)) as [e|] eqn:En; [|apply nth_error_None in En; lia].
    rewrite (slice_cons _ _ _ _ En) by lia. cbn [fold_left].
    destruct (proj1 (Hl p) _ _ En) as (Hp & _).
    destruct Hi as (A & B & C & D & E).
    pose proof (subinv_push st u p e NB (fun _ _ => I) A B C D E En Hp) as Hi1. cbn zeta in Hi1.
    set (NB1 := fupd NB p (S (NB p))) in *.
    assert (H1 : NB1 p = S (NB p)) by (unfold NB1, fupd; rewrite Nat.eqb_refl; reflexivity).
    specialize (IH (q_push c u e) NB1 Hl Hi1 ltac:(lia)). rewrite H1 in IH.
    replace (NB p + S n) with (S (NB p) + n) by lia.
    eapply pushinv_ext; [|exact IH]. intros x. unfold NB1, fupd. destruct (x =? p); reflexivity.
Qed.

Lemma subinv_pushinv st u : subinv st u <-> pushinv st (sb_nb st) u.
Proof.
  split.
  - intros [A B C D E]. split; [exact A|]. split; [exact B|]. split; [exact C|]. split; [exact D|exact E].
  - intros (A & B & C & D & E). constructor; assumption.
Qed.

Lemma pushinv_nb st st' NB u :
  sb_log st' = sb_log st -> sb_wm st' = sb_wm st -> (forall x, sb_nb st' x = NB x) -> pushinv st NB u -> subinv st' u.
Proof.
  intros Hlog Hwm Hnb Hi. apply (pushinv_ext st NB (sb_nb st')) in Hi; [|intros; symmetry; apply Hnb].
  destruct st as [l w n b s], st' as [l' w' n' b' s']. cbn in *. subst l' w'.
  destruct Hi as ([I1 I2 I3 I4 I5 I6 I7] & B & C & D & E).
  constructor; [constructor; assumption|exact B|exact C|exact D|exact E].
Qed.

(* ================================================================== every step keeps the invariant *)

Lemma set_sub_inv st u' :
  logwf c st -> wmwf st -> subinv st u' -> sbinv (set_sub st u').
Proof.
  intros Hl Hw Hi. split; [exact Hl|]. split; [exact Hw|]. intros u Hu. cbn in Hu. injection Hu as <-.
  eapply subinv_glob; [..|exact Hi]; reflexivity.
Qed.

Theorem sbinv_step st o : op_wf o -> sbinv st -> sbinv (sb_step c st o).
Proof.
  intros Hop Hall. pose proof Hall as (Hl & Hw & Hs).
  destruct o as [p sids|p w|p|m w|a|k n| |k|k| |]; cbn [sb_step].
  - (* OAppend *)
    destruct ((p <? c_np c) && forallb (fun s => spid c s =? p) sids) eqn:E; [|exact Hall].
    apply andb_prop in E. destruct E as [E1 E2]. apply Nat.ltb_lt in E1.
    destruct (append_evs_spec c p sids (sb_log st p) (proj1 (Hl p)) E2) as [A [x B]].
    set (st' := mkSb (fupd (sb_log st) p (append_evs p sids (sb_log st p))) (sb_wm st) (sb_nb st) (sb_bg st) (sb_sub st)).
    assert (Hl' : logwf c st').
    { intros q. cbn. unfold fupd. destruct (q =? p) eqn:Eq; [apply Nat.eqb_eq in Eq; subst q; split; [exact A|intros _; exact E1]|apply Hl]. }
    assert (He : log_ext st st').
    { intros q. cbn. unfold fupd. destruct (q =? p) eqn:Eq; [apply Nat.eqb_eq in Eq; subst q; exists x; exact B|exists []; symmetry; apply app_nil_r]. }
    split; [exact Hl'|]. split.
    + intros q. cbn. destruct (Hw q) as [W1 W2]. split; [exact W1|]. destruct (He q) as [y Hy]. cbn in Hy. rewrite Hy, app_length. lia.
    + intros u Hu. cbn in Hu. apply (subinv_append st st' u He eq_refl eq_refl Hl Hl' Hw). apply Hs. exact Hu.
  - (* OAdvance *)
    set (st' := mkSb (sb_log st) (fupd (sb_wm st) p (Nat.max (sb_wm st p) (Nat.min w (length (sb_log st p))))) (sb_nb st) (sb_bg st) (sb_sub st)).
    assert (Hwm : forall q, sb_wm st q <= sb_wm st' q).
    { intros q. cbn. unfold fupd. destruct (q =? p) eqn:Eq; [apply Nat.eqb_eq in Eq; subst q; lia|lia]. }
    split; [exact Hl|]. split.
    + intros q. cbn. unfold fupd. destruct (Hw q) as [W1 W2]. destruct (q =? p) eqn:Eq; [apply Nat.eqb_eq in Eq; subst q; lia|lia].
    + intros u Hu. cbn in Hu. apply (subinv_advance st st' u eq_refl eq_refl Hwm). apply Hs. exact Hu.
  - (* OBcast *)
    destruct (Hw p) as [W1 W2].
    assert (Hmax : Nat.max (sb_nb st p) (sb_wm st p) = sb_nb st p + (sb_wm st p - sb_nb st p)) by lia.
    assert (Hwm' : forall (s : option subst), wmwf (mkSb (sb_log st) (sb_wm st) (fupd (sb_nb st) p (Nat.max (sb_nb st p) (sb_wm st p))) (sb_bg st) s)).
    { intros s q. cbn. unfold fupd. destruct (Hw q). destruct (q =? p) eqn:Eq; [apply Nat.eqb_eq in Eq; subst q; lia|lia]. }
    destruct (sb_sub st) as [u|] eqn:Eu.
    + split; [exact Hl|]. split; [apply Hwm'|]. intros u' Hu'. cbn in Hu'. injection Hu' as <-.
      pose proof (push_fold st p (sb_wm st p - sb_nb st p) u (sb_nb st) Hl (proj1 (subinv_pushinv st u) (Hs u eq_refl)) ltac:(lia)) as Hp.
      replace (sb_nb st p + (sb_wm st p - sb_nb st p)) with (sb_wm st p) in Hp by lia.
      match goal with |- subinv ?S _ => apply (pushinv_nb st S (fupd (sb_nb st) p (sb_wm st p)) _ eq_refl eq_refl) end; [|exact Hp].
      intros x. cbn. unfold fupd. destruct (x =? p); [lia|reflexivity].
    + destruct (sb_bg st); [|exact Hall].
      split; [exact Hl|]. split; [apply Hwm'|]. intros u Hu. discriminate.
  - (* OSubscribe *)
    destruct (sb_sub st) as [u|] eqn:Eu; [exact Hall|].
    apply set_sub_inv; try assumption. apply subinv_subscribe; assumption.
  - (* OAck *)
    destruct (sb_sub st) as [u|] eqn:Eu; [|exact Hall].
    destruct (a <? u_cur u); [|exact Hall].
    apply set_sub_inv; try assumption. apply subinv_set_ack. apply Hs. reflexivity.
  - (* OHistBatch *)
    destruct (sb_sub st) as [u|] eqn:Eu; [|exact Hall].
    destruct (u_ph u) as [pend [cur|]|] eqn:Eph; try (exact Hall).
    destruct (find_it k pend) as [it|] eqn:Ef; [|exact Hall].
    destruct (it_done it); [exact Hall|].
    apply set_sub_inv; try assumption. eapply subinv_set_cur; [apply Hs; reflexivity|exact Eph|].
    intros k2 b Hc. injection Hc as <- <-. exists it. split; [exact Ef|lia].
  - (* OHistEvent *)
    destruct (sb_sub st) as [u|] eqn:Eu; [|exact Hall].
    pose proof (Hs u eq_refl) as Hi.
    destruct (u_ph u) as [pend [[k bend]|]|] eqn:Eph; try (exact Hall).
    assert (Hphi := i_ph _ _ Hi). unfold phinv in Hphi. rewrite Eph in Hphi. destruct Hphi as (PA & PB & PC & PD & PE).
    destruct (PE k bend eq_refl) as (it & Ef & Hb). rewrite Ef.
    destruct (find_it_some _ _ _ Ef) as [Hin Hkey]. destruct (PD it Hin) as (D1 & D2 & D3). rewrite Hkey in D1, D2, D3.
    destruct (bend <=? h_pos it) eqn:Eb.
    { apply set_sub_inv; try assumption. eapply subinv_set_cur; [exact Hi|exact Eph|]. intros ? ? Hx; discriminate. }
    apply Nat.leb_gt in Eb.
    destruct (nth_error (klog c st k) (h_pos it)) as [e|] eqn:En; [|apply nth_error_None in En; lia].
    destruct (e_seq e <? sb_wm st (e_pid e)) eqn:Ec.
    + apply Nat.ltb_lt in Ec. destruct (win_open u) eqn:Ewin; [|exact Hall].
      apply set_sub_inv; try assumption. eapply subinv_hist_deliver; eassumption.
    + apply Nat.ltb_ge in Ec.
      assert (Hrm : subinv st (u_set_ph u (mk_phase (remove_it k pend) None))).
      { eapply subinv_remove; try eassumption. intros a Ha _.
        destruct (klog_nth c st k _ e Hl En) as (_ & _ & Kn). destruct (proj1 (Hl (kpid c k)) _ _ Kn) as (Kp & _).
        eapply cover_stop; [exact Hl|exact En|]. rewrite Kp in Ec. destruct (Hw (kpid c k)). lia. }
      destruct k as [q|q]; [|rewrite Hbrk]; apply set_sub_inv; assumption.
  - (* OHistDrop *)
    destruct (sb_sub st) as [u|] eqn:Eu; [|exact Hall].
    destruct (u_ph u) as [pend [cur|]|] eqn:Eph; try (exact Hall).
    destruct (find_it k pend) as [it|] eqn:Ef; [|exact Hall].
    destruct (it_done it) eqn:Ed; [|exact Hall].
    apply set_sub_inv; try assumption. eapply subinv_remove; try eassumption; [apply Hs; reflexivity|].
    intros a _ H. eapply cover_mono; [exact H|]. unfold it_done in Ed. apply Nat.leb_le in Ed. exact Ed.
  - (* OExtend *)
    destruct (sb_sub st) as [u|] eqn:Eu; [|exact Hall].
    destruct (u_ph u) as [pend cur|] eqn:Eph; [|exact Hall].
    destruct (find_it k pend) as [it|] eqn:Ef; [|exact Hall].
    apply set_sub_inv; try assumption. eapply subinv_extend; [apply Hs; reflexivity|exact Eph|exact Ef].
  - (* ORecv *)
    destruct (sb_sub st) as [u|] eqn:Eu; [|exact Hall].
    pose proof (Hs u eq_refl) as Hi.
    destruct (u_ph u) as [pend cur|] eqn:Eph; [exact Hall|].
    destruct (u_hold u) as [e0|] eqn:Eh; [exact Hall|].
    destruct (0 <? u_lagn u) eqn:Elag.
    + apply set_sub_inv; try assumption. rewrite <- Eph. apply subinv_lagged; assumption.
    + apply Nat.ltb_ge in Elag. destruct (u_q u) as [|e r] eqn:Eq; [exact Hall|].
      apply set_sub_inv; try assumption. apply subinv_recv; try assumption. lia.
  - (* OSend *)
    destruct (sb_sub st) as [u|] eqn:Eu; [|exact Hall].
    pose proof (Hs u eq_refl) as Hi.
    destruct (u_ph u) as [pend cur|] eqn:Eph; [exact Hall|].
    destruct (u_hold u) as [e0|] eqn:Eh; [|exact Hall].
    destruct (win_open u) eqn:Ewin; [|exact Hall].
    apply set_sub_inv; try assumption. apply subinv_send; assumption.
Qed.

Lemma sbinv_init bg : sbinv (sb_init bg).
Proof.
  split; [|split].
  - intros p. split; [intros i e H; destruct i; discriminate|intros H; exfalso; apply H; reflexivity].
  - intros p. cbn. lia.
  - intros u H. discriminate.
Qed.


Theorem sbinv_run bg ops : ops_wf ops -> sbinv (sb_run c bg ops).
Proof.
  unfold sb_run. intros H. generalize (sbinv_init bg). generalize (sb_init bg).
  induction H as [|o ops Ho Hops IH]; intros st Hi; cbn; [exact Hi|]. apply IH. apply sbinv_step; assumption.
Qed.

End Inv.

(* ================================================================== the theorems *)
Lemma fs_start_track fs k n : fs_start fs k = Some n <-> fs_track fs k = TFrom n.
Proof.
  destruct fs as [|m fb|x]; cbn; [split; discriminate| |split; congruence].
  destruct (alookup k m); [split; congruence|]. destruct fb; split; congruence.
Qed.

Lemma sub_start_track m k n : sub_start m k = Some n <-> mtrack m k = TFrom n.
Proof.
  destruct m as [fs|p from|ps fs|s from|ss fs], k as [q|q]; cbn; try (split; discriminate).
  - apply fs_start_track.
  - destruct (q =? p); [destruct from; cbn; split; congruence|split; discriminate].
  - destruct (memb q ps); [apply fs_start_track|split; discriminate].
  - destruct (q =? s); [destruct from; cbn; split; congruence|split; discriminate].
  - destruct (memb q ss); [apply fs_start_track|split; discriminate].
Qed.

Lemma key_kind_kkind m k : key_kind m k = kkind m k.
Proof. reflexivity. Qed.

Lemma gap_of_unacked d : gap_of d = unacked_after d.
Proof. reflexivity. Qed.

(* order / once / no gap / confirmed *)
Theorem sub_order_once_nogap c bg ops u :
  c_brk c = true -> ops_wf ops -> sb_sub (sb_run c bg ops) = Some u ->
  (forall k, key_kind (u_m0 u) k = true ->
     consecutive (dpos k (u_out u)) /\
     (forall n, sub_start (u_m0 u) k = Some n -> dpos k (u_out u) <> [] -> hd 0 (dpos k (u_out u)) = n)) /\
  Forall (fun d => e_seq (d_ev d) < d_wm d /\
                   nth_error (sb_log (sb_run c bg ops) (e_pid (d_ev d))) (e_seq (d_ev d)) = Some (d_ev d)) (u_out u).
Proof.
  intros Hb Hw Hu. destruct (sbinv_run c Hb bg ops Hw) as (_ & _ & Hs). destruct (Hs u Hu) as [[I1 I2 I3 I4 I5 I6 I7] _ _ _ _].
  split.
  - intros k Hk. assert (Hk' : kkind (u_m u) k = true) by (unfold kkind, key_kind in *; rewrite I1; exact Hk).
    destruct (I7 k Hk') as [K1 K2 K3 K4]. split; [exact K1|]. intros n Hn. apply K4. apply sub_start_track. exact Hn.
  - eapply Forall_impl; [|exact I5]. cbn. intros d (A & _ & _ & D). auto.
Qed.

(* at most `window` records are unacknowledged after every send; cursors count the records *)
Theorem sub_window c bg ops u :
  c_brk c = true -> ops_wf ops -> sb_sub (sb_run c bg ops) = Some u ->
  Forall (fun d => unacked_after d <= u_win u) (u_out u) /\
  (forall i d, nth_error (rev (u_out u)) i = Some d -> d_cur d = i) /\ u_cur u = length (u_out u).
Proof.
  intros Hb Hw Hu. destruct (sbinv_run c Hb bg ops Hw) as (_ & _ & Hs). destruct (Hs u Hu) as [[I1 I2 I3 I4 I5 I6 I7] _ _ _ _].
  split; [|split; assumption]. eapply Forall_impl; [|exact I5]. cbn. intros d (_ & _ & C & _). exact C.
Qed.

Lemma slice_nil_inv {A} (l : list A) a b : slice l a b = [] -> a <= b -> b <= length l -> a = b.
Proof.
  intros H Hab Hb. apply (f_equal (@length A)) in H. unfold slice in H. rewrite firstn_length, skipn_length in H. cbn in H. lia.
Qed.

(* when the task has nothing left to do, everything of its keys below the broadcast position has been
   delivered (from the explicit start position, resp. from the first delivered record) *)
Theorem sub_idle_complete c bg ops u :
  c_brk c = true -> ops_wf ops -> let st := sb_run c bg ops in sb_sub st = Some u -> sub_idle u ->
  forall k first, key_kind (u_m0 u) k = true -> kpid c k < c_np c ->
    (sub_start (u_m0 u) k = Some first \/ (dpos k (u_out u) <> [] /\ first = hd 0 (dpos k (u_out u)))) ->
    forall e, In e (klog c st k) -> first <= kpos k e -> e_seq e < sb_nb st (kpid c k) -> In e (map d_ev (u_out u)).
Proof.
  intros Hb Hwf st Hu (Hph & Hh & Hq & Hlag) k first Hk Hnp Hfirst e Hin Hge Hlt.
  destruct (sbinv_run c Hb bg ops Hwf) as (Hl & Hw & Hs). fold st in Hl, Hw, Hs.
  destruct (Hs u Hu) as [[I1 I2 I3 I4 I5 I6 I7] _ _ _ Iqe].
  assert (Hk' : kkind (u_m u) k = true) by (unfold kkind, key_kind in *; rewrite I1; exact Hk).
  destruct (I7 k Hk') as [[a0 K1] K2 K3 K4].
  destruct (Iqe Hlag (kpid c k)) as (a & Ha & Hsl & Hc).
  unfold eff_q in Hsl. rewrite Hh, Hq in Hsl. cbn in Hsl. symmetry in Hsl.
  apply slice_nil_inv in Hsl; [|exact Ha|destruct (Hw (kpid c k)); lia]. subst a.
  destruct (dpos k (u_out u)) as [|x l] eqn:Ed.
  - exfalso. destruct Hfirst as [Hst|[Hne _]]; [|congruence].
    apply sub_start_track in Hst. rewrite <- (K3 eq_refl Hnp) in Hst.
    specialize (Hc k first Hk' eq_refl Hst). unfold bound_of in Hc. rewrite Hph in Hc. cbn in Hc.
    specialize (Hc e Hin Hlt). lia.
  - assert (Hne : x :: l <> []) by discriminate.
    specialize (K2 Hne).
    assert (Hf : first = a0).
    { destruct Hfirst as [Hst|[_ ->]]; [|rewrite K1; reflexivity].
      rewrite <- (K4 first (proj1 (sub_start_track _ _ _) Hst) Hne). rewrite K1. reflexivity. }
    rewrite K1 in K2. rewrite last_seq in K2 by (cbn; lia).
    specialize (Hc k _ Hk' eq_refl K2). unfold bound_of in Hc. rewrite Hph in Hc. cbn in Hc. specialize (Hc e Hin Hlt).
    assert (Hind : In (kpos k e) (dpos k (u_out u))).
    { rewrite Ed, K1. apply in_seq. cbn [length] in *. lia. }
    unfold dpos in Hind. apply in_map_iff in Hind. destruct Hind as (d & Hd1 & Hd2). apply filter_In in Hd2. destruct Hd2 as [Hd2 Hd3].
    apply in_rev in Hd2. apply in_map_iff. exists d. split; [|exact Hd2].
    rewrite Forall_forall in I5. destruct (I5 d Hd2) as (_ & _ & _ & D).
    destruct (klog_in c st k e Hl Hin) as (_ & _ & _ & N).
    assert (Hkp : kpid c k = e_pid (d_ev d)).
    { destruct k as [p|s]; cbn in *; [apply Nat.eqb_eq in Hd3; congruence|].
      apply Nat.eqb_eq in Hd3. destruct (proj1 (Hl _) _ _ D) as (_ & _ & _ & X). congruence. }
    pose proof (klog_of_log c st k _ _ (d_ev d) Hl D Hd3 Hkp) as N2. rewrite Hd1 in N2. congruence.
Qed.

(* the matcher and the window of the subscription are those of the Subscribe operation *)
Lemma fold_push_fields c evs : forall u, let u' := fold_left (q_push c) evs u in u_m0 u' = u_m0 u /\ u_win u' = u_win u.
Proof.
  induction evs as [|e r IH]; intros u; cbn; [auto|]. destruct (IH (q_push c u e)) as [A B].
  destruct (q_push_fields c u e) as (F1 & _ & F3 & _). split; congruence.
Qed.

Lemma enter_history_fields c st u : u_m0 (enter_history c st u) = u_m0 u /\ u_win (enter_history c st u) = u_win u.
Proof. unfold enter_history. destruct (start_history c st (u_m u)). cbn. auto. Qed.

Lemma step_origin c st o u' :
  sb_sub (sb_step c st o) = Some u' ->
  (exists u, sb_sub st = Some u /\ u_m0 u' = u_m0 u /\ u_win u' = u_win u) \/
  (sb_sub st = None /\ exists m w, o = OSubscribe m w /\ u_m0 u' = m /\ u_win u' = w).
Proof.
  destruct o as [p sids|p w|p|m w|a|k n| |k|k| |]; cbn [sb_step]; intros H.
  - destruct ((p <? c_np c) && forallb (fun s => spid c s =? p) sids); cbn in H; left; exists u'; auto.
  - cbn in H. left. exists u'. auto.
  - destruct (sb_sub st) as [u|] eqn:Eu; cbn in H.
    + injection H as <-. left. exists u. split; [reflexivity|]. apply fold_push_fields.
    + destruct (sb_bg st); cbn in H; congruence.
  - destruct (sb_sub st) as [u|] eqn:Eu; [left; exists u'; rewrite Eu in H; auto|].
    cbn in H. injection H as <-. right. split; [reflexivity|]. exists m, w. split; [reflexivity|].
    apply (enter_history_fields c st (mkSub m m w 0 None PLive None [] 0 [] [])).
  - destruct (sb_sub st) as [u|] eqn:Eu; [|rewrite Eu in H; discriminate]. left. exists u. split; [reflexivity|].
    destruct (a <? u_cur u); cbn in H; [injection H as <-; auto|rewrite Eu in H; injection H as <-; auto].
  - destruct (sb_sub st) as [u|] eqn:Eu; [|rewrite Eu in H; discriminate]. left. exists u. split; [reflexivity|].
    destruct (u_ph u) as [pend [cur|]|]; try (rewrite Eu in H; injection H as <-; auto).
    destruct (find_it k pend) as [it|]; [|rewrite Eu in H; injection H as <-; auto].
    destruct (it_done it); [rewrite Eu in H; injection H as <-; auto|]. cbn in H. injection H as <-. auto.
  - destruct (sb_sub st) as [u|] eqn:Eu; [|rewrite Eu in H; discriminate]. left. exists u. split; [reflexivity|].
    destruct (u_ph u) as [pend [[k bend]|]|]; try (rewrite Eu in H; injection H as <-; auto).
    destruct (find_it k pend) as [it|]; [|cbn in H; injection H as <-; auto].
    destruct (bend <=? h_pos it); [cbn in H; injection H as <-; auto|].
    destruct (nth_error (klog c st k) (h_pos it)) as [e|]; [|cbn in H; injection H as <-; auto].
    destruct (e_seq e <? sb_wm st (e_pid e)).
    + destruct (win_open u); [cbn in H; injection H as <-; auto|rewrite Eu in H; injection H as <-; auto].
    + destruct k; [|destruct (c_brk c)]; cbn in H; injection H as <-; auto.
  - destruct (sb_sub st) as [u|] eqn:Eu; [|rewrite Eu in H; discriminate]. left. exists u. split; [reflexivity|].
    destruct (u_ph u) as [pend [cur|]|]; try (rewrite Eu in H; injection H as <-; auto).
    destruct (find_it k pend) as [it|]; [|rewrite Eu in H; injection H as <-; auto].
    destruct (it_done it); [cbn in H; injection H as <-; auto|rewrite Eu in H; injection H as <-; auto].
  - destruct (sb_sub st) as [u|] eqn:Eu; [|rewrite Eu in H; discriminate]. left. exists u. split; [reflexivity|].
    destruct (u_ph u) as [pend cur|]; [|rewrite Eu in H; injection H as <-; auto].
    destruct (find_it k pend) as [it|]; [cbn in H; injection H as <-; auto|rewrite Eu in H; injection H as <-; auto].
  - destruct (sb_sub st) as [u|] eqn:Eu; [|rewrite Eu in H; discriminate]. left. exists u. split; [reflexivity|].
    destruct (u_ph u) as [pend cur|]; [rewrite Eu in H; injection H as <-; auto|].
    destruct (u_hold u); [rewrite Eu in H; injection H as <-; auto|].
    destruct (0 <? u_lagn u).
    + cbn in H. injection H as <-. apply (enter_history_fields c st (mkSub (u_m0 u) (u_m u) (u_win u) (u_cur u) (u_ack u) PLive None (u_q u) 0 (u_out u) (u_lagn u :: u_lags u))).
    + destruct (u_q u); [rewrite Eu in H; injection H as <-; auto|cbn in H; injection H as <-; auto].
  - destruct (sb_sub st) as [u|] eqn:Eu; [|rewrite Eu in H; discriminate]. left. exists u. split; [reflexivity|].
    destruct (u_ph u) as [pend cur|]; [rewrite Eu in H; injection H as <-; auto|].
    destruct (u_hold u); [|rewrite Eu in H; injection H as <-; auto].
    destruct (win_open u); [cbn in H; injection H as <-; auto|rewrite Eu in H; injection H as <-; auto].
Qed.

Theorem sub_origin c bg ops u :
  sb_sub (sb_run c bg ops) = Some u -> exists m w, In (OSubscribe m w) ops /\ u_m0 u = m /\ u_win u = w.
Proof.
  unfold sb_run. revert u. induction ops as [|o ops IH] using rev_ind; intros u H; [discriminate|].
  rewrite fold_left_app in H. cbn in H. apply step_origin in H. destruct H as [(u0 & H0 & A & B)|(_ & m & w & -> & A & B)].
  - destruct (IH u0 H0) as (m & w & Hin & C & D). exists m, w. split; [apply in_or_app; auto|]. split; congruence.
  - exists m, w. split; [apply in_or_app; right; left; reflexivity|auto].
Qed.

(* ---- the stream reader before commit 6d8d4bd: a gap *)
Definition cfg_orig : sbcfg := mkSbCfg 4 4 1024 false.
Definition cfg_now : sbcfg := mkSbCfg 4 4 1024 true.
Definition w_stream_gap : list sbop :=
  [OAppend 0 [0]; OAppend 0 [0]; OAppend 0 [0]; OAdvance 0 1;
   OSubscribe (MStream 0 (Some 0)) 10;
   OHistBatch (KS 0) 2; OHistEvent; OHistEvent;       (* version 0 goes out, version 1 is not confirmed: `break` *)
   OAdvance 0 3;                                       (* the watermark moves while the next batch is fetched *)
   OHistBatch (KS 0) 1; OHistEvent].                   (* version 2 goes out: version 1 was skipped *)

Lemma stream_gap_refuted :
  exists u, sb_sub (sb_run cfg_orig false w_stream_gap) = Some u /\ dpos (KS 0) (u_out u) = [0; 2] /\
            Forall (fun d => e_seq (d_ev d) < d_wm d) (u_out u).
Proof. eexists. split; [vm_compute; reflexivity|]. split; [vm_compute; reflexivity|]. vm_compute. repeat constructor. Qed.

Lemma stream_gap_fixed :
  exists u, sb_sub (sb_run cfg_now false (w_stream_gap ++ [OHistDrop (KS 0); OBcast 0; ORecv; ORecv; OSend; ORecv; OSend])) = Some u /\
            dpos (KS 0) (u_out u) = [0; 1; 2].
Proof. eexists. split; vm_compute; reflexivity. Qed.

(* ================================================================== liveness on the model: the drain *)
Definition is_internal (o : sbop) : bool :=
  match o with OAck _ | OHistBatch _ _ | OHistEvent | OHistDrop _ | ORecv | OSend => true | _ => false end.
Definition is_drain (o : sbop) : bool := match o with OBcast _ => true | _ => is_internal o end.

Section Drain.
Variable c : sbcfg.
Hypothesis Hbrk : c_brk c = true.

(* st' is reached from st by acknowledgements and steps of the subscription task only *)
Definition reach (st st' : sbstate) : Prop :=
  exists more, Forall (fun o => is_internal o = true) more /\ st' = fold_left (sb_step c) more st.

Lemma reach_refl st : reach st st.
Proof. exists []. split; [constructor|reflexivity]. Qed.

Lemma reach_trans a b d : reach a b -> reach b d -> reach a d.
Proof.
  intros (m1 & F1 & ->) (m2 & F2 & ->). exists (m1 ++ m2). split; [apply Forall_app; auto|]. rewrite fold_left_app. reflexivity.
Qed.

Lemma reach_step st o : is_internal o = true -> reach st (sb_step c st o).
Proof. intros H. exists [o]. split; [constructor; [exact H|constructor]|reflexivity]. Qed.

Lemma internal_op_wf o : is_drain o = true -> op_wf o.
Proof. destruct o; cbn; intros H; try exact I; discriminate. Qed.

Definition same_glob (st st' : sbstate) : Prop :=
  sb_log st' = sb_log st /\ sb_wm st' = sb_wm st /\ sb_nb st' = sb_nb st.

Lemma same_glob_refl st : same_glob st st.
Proof. repeat split. Qed.
Lemma same_glob_trans a b d : same_glob a b -> same_glob b d -> same_glob a d.
Proof. intros (A1 & A2 & A3) (B1 & B2 & B3). repeat split; congruence. Qed.
Lemma set_sub_glob st u : same_glob st (set_sub st u).
Proof. repeat split. Qed.

Lemma step_set_glob st o u : sb_step c st o = set_sub st u -> same_glob st (sb_step c st o).
Proof. intros ->. apply set_sub_glob. Qed.

(* ---- the window can always be reopened by an acknowledgement *)
Lemma open_window st u :
  sbinv c st -> sb_sub st = Some u -> 1 <= u_win u ->
  exists st' u', reach st st' /\ same_glob st st' /\ sbinv c st' /\ sb_sub st' = Some u' /\ win_open u' = true /\
                 u_ph u' = u_ph u /\ u_hold u' = u_hold u /\ u_q u' = u_q u /\ u_lagn u' = u_lagn u /\ u_win u' = u_win u /\
                 u_m0 u' = u_m0 u.
Proof.
  intros Hi Hu Hw. destruct (win_open u) eqn:Ewin.
  { exists st, u. split; [apply reach_refl|]. split; [apply same_glob_refl|]. split; [exact Hi|]. split; [exact Hu|]. split; [exact Ewin|]. repeat split. }
  assert (Hcur : 1 <= u_cur u).
  { unfold win_open in Ewin. destruct (u_ack u) as [a|]; apply Nat.leb_gt in Ewin; lia. }
  set (o := OAck (u_cur u - 1)).
  assert (Hst : sb_step c st o = set_sub st (u_set_ack u (Some (u_cur u - 1)))).
  { assert (E : (u_cur u - 1 <? u_cur u) = true) by (apply Nat.ltb_lt; lia).
    unfold o. cbn [sb_step]. rewrite Hu, E. reflexivity. }
  exists (sb_step c st o), (u_set_ack u (Some (u_cur u - 1))).
  split; [apply (reach_step st o); reflexivity|]. split; [rewrite Hst; apply set_sub_glob|].
  split; [apply sbinv_step; [exact Hbrk|exact I|exact Hi]|]. split; [rewrite Hst; reflexivity|].
  split; [|repeat split]. unfold win_open. cbn. apply Nat.leb_le. lia.
Qed.

(* ---- the history read ends *)
Definition it_w (cur : option (hkey * nat)) (it : hiter) : nat :=
  let r := h_end it - h_pos it in
  match cur with
  | Some (k, bend) => if hkey_eqb (h_key it) k then 3 * r + 2 + (if bend - h_pos it <? r then 3 else 0)
                      else (if r =? 0 then 1 else 3 * r + 3)
  | None => if r =? 0 then 1 else 3 * r + 3
  end.
Fixpoint wsum (cur : option (hkey * nat)) (l : list hiter) : nat := match l with [] => 0 | it :: r => it_w cur it + wsum cur r end.
Definition hmeasure (u : subst) : nat := match u_ph u with PHist pend cur => wsum cur pend | PLive => 0 end.

Lemma wsum_split cur k l it :
  NoDup (map h_key l) -> find_it k l = Some it -> wsum cur l = it_w cur it + wsum cur (remove_it k l).
Proof.
  induction l as [|x l IH]; cbn [wsum find_it remove_it map]; [discriminate|]. intros Hnd Hf. inversion Hnd as [|? ? Hni Hnd']; subst.
  destruct (hkey_eqb (h_key x) k) eqn:E.
  - injection Hf as <-. f_equal. apply hkey_eqb_eq in E.
    assert (Hr : remove_it k l = l).
    { clear -Hni E. induction l as [|y l IH]; cbn [remove_it]; [reflexivity|]. destruct (hkey_eqb (h_key y) k) eqn:E2.
      - apply hkey_eqb_eq in E2. exfalso. apply Hni. left. congruence.
      - f_equal. apply IH. intros Hin. apply Hni. right. exact Hin. }
    rewrite Hr. reflexivity.
  - cbn [wsum]. rewrite (IH Hnd' Hf). lia.
Qed.

Lemma wsum_replace cur l it' :
  NoDup (map h_key l) -> In (h_key it') (map h_key l) ->
  wsum cur (replace_it it' l) = it_w cur it' + wsum cur (remove_it (h_key it') l).
Proof.
  intros Hnd Hin. assert (Hf := find_it_replace_same it' l Hin).
  rewrite (wsum_split cur (h_key it') (replace_it it' l) it'); [|rewrite replace_it_keys; exact Hnd|exact Hf]. f_equal.
  clear Hf Hin Hnd. induction l as [|y l IH]; cbn [replace_it remove_it]; [reflexivity|]. destruct (hkey_eqb (h_key y) (h_key it')) eqn:E; cbn [remove_it].
  - rewrite hkey_eqb_refl. exact IH.
  - rewrite E. cbn [wsum]. rewrite IH. reflexivity.
Qed.

Lemma wsum_others k b l : ~ In k (map h_key l) -> wsum (Some (k, b)) l = wsum None l.
Proof.
  induction l as [|x l IH]; cbn [wsum map]; [reflexivity|]. intros Hni. rewrite IH by (intros H; apply Hni; right; exact H).
  unfold it_w. destruct (hkey_eqb (h_key x) k) eqn:E; [apply hkey_eqb_eq in E; exfalso; apply Hni; left; exact E|reflexivity].
Qed.

Lemma remove_it_notin k l : ~ In k (map h_key (remove_it k l)).
Proof. intros Hin. apply in_map_iff in Hin. destruct Hin as (y & Hy & Hin). apply remove_it_in in Hin. tauto. Qed.

Lemma hmeasure_mk_phase u l : hmeasure (u_set_ph u (mk_phase l None)) = wsum None l.
Proof. unfold hmeasure. cbn. destruct l; reflexivity. Qed.

Lemma w_some_dec r b : 1 <= r -> 1 <= b ->
  3 * (r - 1) + 2 + (if b - 1 <? r - 1 then 3 else 0) < 3 * r + 2 + (if b <? r then 3 else 0).
Proof. intros Hr Hb. destruct (Nat.ltb_spec (b - 1) (r - 1)), (Nat.ltb_spec b r); lia. Qed.

Definition hist_rest (u u1 : subst) : Prop :=
  u_hold u1 = None /\ u_q u1 = u_q u /\ u_lagn u1 = u_lagn u /\ u_win u1 = u_win u /\ u_m0 u1 = u_m0 u.

(* one step of the history read under the fair policy: the measure drops *)
Lemma hist_step st u pend cur :
  sbinv c st -> sb_sub st = Some u -> u_ph u = PHist pend cur -> win_open u = true ->
  exists o u1, is_internal o = true /\ sb_step c st o = set_sub st u1 /\ hist_rest u u1 /\ hmeasure u1 < hmeasure u.
Proof.
  intros Hi Hu Hph Hwin. pose proof Hi as (Hl & Hw & Hs). pose proof (Hs u Hu) as [Io Iph Ih Iq Iqe].
  unfold phinv in Iph. rewrite Hph in Iph. destruct Iph as (PA & PB & PC & PD & PE).
  destruct cur as [[k bend]|].
  - (* inside a batch: OHistEvent *)
    destruct (PE k bend eq_refl) as (it & Ef & Hb).
    destruct (find_it_some _ _ _ Ef) as [Hin Hkey]. destruct (PD it Hin) as (D1 & D2 & D3). rewrite Hkey in D3.
    assert (Hsum : hmeasure u = it_w (Some (k, bend)) it + wsum None (remove_it k pend)).
    { unfold hmeasure. rewrite Hph. rewrite (wsum_split _ k pend it PB Ef). f_equal. apply wsum_others. apply remove_it_notin. }
    assert (Hitw : it_w (Some (k, bend)) it = 3 * (h_end it - h_pos it) + 2 + (if bend - h_pos it <? h_end it - h_pos it then 3 else 0)).
    { unfold it_w. rewrite Hkey, hkey_eqb_refl. reflexivity. }
    exists OHistEvent. cbn [sb_step]. rewrite Hu, Hph, Ef.
    destruct (bend <=? h_pos it) eqn:Eb.
    + apply Nat.leb_le in Eb. eexists. split; [reflexivity|]. split; [reflexivity|]. split; [repeat split; exact PC|].
      rewrite Hsum, Hitw. unfold hmeasure. cbn [u_ph u_set_ph]. rewrite (wsum_split None k pend it PB Ef). unfold it_w.
      replace (bend - h_pos it) with 0 by lia.
      destruct (h_end it - h_pos it) as [|r] eqn:Er; cbn; lia.
    + apply Nat.leb_gt in Eb.
      destruct (nth_error (klog c st k) (h_pos it)) as [e|] eqn:En; [|apply nth_error_None in En; lia].
      destruct (e_seq e <? sb_wm st (e_pid e)).
      * rewrite Hwin. eexists. split; [reflexivity|]. split; [reflexivity|]. split; [repeat split|].
        rewrite Hsum, Hitw. unfold hmeasure. cbn [u_ph deliver].
        set (it' := mkIt k (S (h_pos it)) (h_end it)).
        rewrite (wsum_replace (Some (k, bend)) pend it' PB); [|cbn; eapply find_it_in_keys; exact Ef].
        cbn [h_key it']. rewrite (wsum_others k bend _ (remove_it_notin k pend)).
        unfold it_w. cbn [h_key h_pos h_end it']. rewrite hkey_eqb_refl.
        replace (h_end it - S (h_pos it)) with (h_end it - h_pos it - 1) by lia.
        replace (bend - S (h_pos it)) with (bend - h_pos it - 1) by lia.
        pose proof (w_some_dec (h_end it - h_pos it) (bend - h_pos it) ltac:(lia) ltac:(lia)) as Hd. lia.
      * assert (Hrm : forall (X : sbstate), X = set_sub st (u_set_ph u (mk_phase (remove_it k pend) None)) ->
                      exists u1, X = set_sub st u1 /\ hist_rest u u1 /\ hmeasure u1 < hmeasure u).
        { intros X ->. eexists. split; [reflexivity|]. split; [repeat split; exact PC|].
          rewrite hmeasure_mk_phase, Hsum, Hitw. lia. }
        destruct k as [q|q]; [|rewrite Hbrk]; (destruct (Hrm _ eq_refl) as (u1 & E1 & E2 & E3); exists u1; split; [reflexivity|]; split; [exact E1|]; split; assumption).
  - (* at the pause point: fetch the next batch of the first pending iterator, or drop it when used up *)
    destruct pend as [|it rest]; [congruence|].
    assert (Ef : find_it (h_key it) (it :: rest) = Some it) by (cbn; rewrite hkey_eqb_refl; reflexivity).
    assert (Hsum : hmeasure u = it_w None it + wsum None (remove_it (h_key it) (it :: rest))).
    { unfold hmeasure. rewrite Hph. apply wsum_split; assumption. }
    destruct (it_done it) eqn:Ed.
    + exists (OHistDrop (h_key it)). cbn [sb_step]. rewrite Hu, Hph, Ef, Ed. eexists. split; [reflexivity|]. split; [reflexivity|].
      split; [repeat split; exact PC|]. rewrite hmeasure_mk_phase, Hsum. unfold it_w. destruct (h_end it - h_pos it =? 0); lia.
    + exists (OHistBatch (h_key it) (h_end it)). cbn [sb_step]. rewrite Hu, Hph, Ef, Ed. eexists. split; [reflexivity|]. split; [reflexivity|].
      split; [repeat split; exact PC|]. unfold it_done in Ed. apply Nat.leb_gt in Ed.
      rewrite Hsum. unfold hmeasure. cbn [u_ph u_set_ph].
      rewrite (wsum_split _ (h_key it) (it :: rest) it PB Ef). rewrite (wsum_others _ _ _ (remove_it_notin (h_key it) (it :: rest))).
      unfold it_w. rewrite hkey_eqb_refl. replace (Nat.min (h_pos it + h_end it) (h_end it)) with (h_end it) by lia.
      rewrite Nat.ltb_irrefl. destruct (h_end it - h_pos it =? 0) eqn:E0; [apply Nat.eqb_eq in E0; lia|lia].
Qed.

Lemma hist_done n : forall st u,
  sbinv c st -> sb_sub st = Some u -> 1 <= u_win u -> hmeasure u <= n ->
  (exists pend cur, u_ph u = PHist pend cur) ->
  exists st' u', reach st st' /\ same_glob st st' /\ sbinv c st' /\ sb_sub st' = Some u' /\ u_ph u' = PLive /\
                 u_hold u' = None /\ u_q u' = u_q u /\ u_lagn u' = u_lagn u /\ u_win u' = u_win u /\ u_m0 u' = u_m0 u.
Proof.
  induction n as [|n IH]; intros st u Hi Hu Hw Hm (pend & cur & Hph).
  - exfalso. destruct (open_window st u Hi Hu Hw) as (st1 & u1 & R1 & G1 & I1 & U1 & W1 & P1 & _).
    rewrite Hph in P1. destruct (hist_step st1 u1 pend cur I1 U1 P1 W1) as (o & u2 & _ & _ & _ & Hlt).
    assert (hmeasure u1 = hmeasure u) by (unfold hmeasure; rewrite P1, Hph; reflexivity). lia.
  - destruct (open_window st u Hi Hu Hw) as (st1 & u1 & R1 & G1 & I1 & U1 & W1 & P1 & H1 & Q1 & L1 & V1 & M1).
    rewrite Hph in P1. destruct (hist_step st1 u1 pend cur I1 U1 P1 W1) as (o & u2 & O2 & S2 & (H2 & Q2 & L2 & V2 & M2) & Hlt).
    assert (Hm1 : hmeasure u1 = hmeasure u) by (unfold hmeasure; rewrite P1, Hph; reflexivity).
    assert (I2 : sbinv c (sb_step c st1 o)) by (apply sbinv_step; [exact Hbrk|apply internal_op_wf; unfold is_drain; destruct o; try discriminate; reflexivity|exact I1]).
    assert (R2 : reach st (sb_step c st1 o)) by (eapply reach_trans; [exact R1|apply reach_step; exact O2]).
    assert (G2 : same_glob st (sb_step c st1 o)) by exact (same_glob_trans _ _ _ G1 (step_set_glob _ _ _ S2)).
    assert (U2 : sb_sub (sb_step c st1 o) = Some u2) by (rewrite S2; reflexivity).
    destruct (u_ph u2) as [pend2 cur2|] eqn:P2.
    + destruct (IH (sb_step c st1 o) u2 I2 U2 ltac:(lia) ltac:(lia) (ex_intro _ pend2 (ex_intro _ cur2 P2)))
        as (st' & u' & R3 & G3 & I3 & U3 & P3 & H3 & Q3 & L3 & V3 & M3).
      exists st', u'. split; [eapply reach_trans; eassumption|]. split; [eapply same_glob_trans; eassumption|].
      split; [exact I3|]. split; [exact U3|]. split; [exact P3|]. split; [exact H3|]. repeat split; congruence.
    + exists (sb_step c st1 o), u2. split; [exact R2|]. split; [exact G2|].
      split; [exact I2|]. split; [exact U2|]. split; [exact P2|]. split; [exact H2|]. repeat split; congruence.
Qed.

(* ---- the live loop empties the channel *)
Lemma live_done n : forall st u,
  sbinv c st -> sb_sub st = Some u -> 1 <= u_win u -> u_ph u = PLive -> u_lagn u = 0 ->
  2 * length (u_q u) + (match u_hold u with Some _ => 1 | None => 0 end) <= n ->
  exists st' u', reach st st' /\ same_glob st st' /\ sbinv c st' /\ sb_sub st' = Some u' /\ sub_idle u' /\ u_m0 u' = u_m0 u.
Proof.
  induction n as [|n IH]; intros st u Hi Hu Hw Hph Hlag Hm.
  - exists st, u. split; [apply reach_refl|]. split; [apply same_glob_refl|]. split; [exact Hi|]. split; [exact Hu|].
    destruct (u_hold u) eqn:Eh; [lia|]. destruct (u_q u) eqn:Eq; [|cbn in Hm; lia]. repeat split; assumption || reflexivity.
  - destruct (u_hold u) as [e|] eqn:Eh.
    + destruct (open_window st u Hi Hu Hw) as (st1 & u1 & R1 & G1 & I1 & U1 & W1 & P1 & H1 & Q1 & L1 & V1 & M1).
      assert (S2 : sb_step c st1 OSend = set_sub st1 (deliver st1 u1 e (update_state (u_m u1) e) PLive None)).
      { cbn. rewrite U1, P1, Hph, H1, Eh, W1. reflexivity. }
      assert (I2 : sbinv c (sb_step c st1 OSend)) by (apply sbinv_step; [exact Hbrk|exact I|exact I1]).
      set (u2 := deliver st1 u1 e (update_state (u_m u1) e) PLive None) in *.
      assert (U2 : sb_sub (sb_step c st1 OSend) = Some u2) by (rewrite S2; reflexivity).
      assert (Hw2 : 1 <= u_win u2) by (cbn; lia).
      assert (Hm2 : 2 * length (u_q u2) + (match u_hold u2 with Some _ => 1 | None => 0 end) <= n) by (cbn; rewrite Q1; lia).
      destruct (IH (sb_step c st1 OSend) u2 I2 U2 Hw2 eq_refl ltac:(cbn; congruence) Hm2) as (st' & u' & R3 & G3 & I3 & U3 & D3 & M3).
      exists st', u'. split; [eapply reach_trans; [exact R1|eapply reach_trans; [apply (reach_step st1 OSend); reflexivity|exact R3]]|].
      split; [exact (same_glob_trans _ _ _ G1 (same_glob_trans _ _ _ (step_set_glob _ _ _ S2) G3))|].
      split; [exact I3|]. split; [exact U3|]. split; [exact D3|]. cbn in M3. congruence.
    + destruct (u_q u) as [|e r] eqn:Eq.
      { exists st, u. split; [apply reach_refl|]. split; [apply same_glob_refl|]. split; [exact Hi|]. split; [exact Hu|]. repeat split; assumption || reflexivity. }
      assert (S2 : sb_step c st ORecv = set_sub st (u_set_q u (if has_seen (u_m u) e then None else Some e) r 0)).
      { cbn. rewrite Hu, Hph, Eh, Hlag, Eq. reflexivity. }
      assert (I2 : sbinv c (sb_step c st ORecv)) by (apply sbinv_step; [exact Hbrk|exact I|exact Hi]).
      set (u2 := u_set_q u (if has_seen (u_m u) e then None else Some e) r 0) in *.
      assert (U2 : sb_sub (sb_step c st ORecv) = Some u2) by (rewrite S2; reflexivity).
      assert (Hm2 : 2 * length (u_q u2) + (match u_hold u2 with Some _ => 1 | None => 0 end) <= n).
      { cbn. cbn in Hm. destruct (has_seen (u_m u) e); lia. }
      destruct (IH (sb_step c st ORecv) u2 I2 U2 Hw Hph eq_refl Hm2) as (st' & u' & R3 & G3 & I3 & U3 & D3 & M3).
      exists st', u'. split; [eapply reach_trans; [apply (reach_step st ORecv); reflexivity|exact R3]|].
      split; [exact (same_glob_trans _ _ _ (step_set_glob _ _ _ S2) G3)|].
      split; [exact I3|]. split; [exact U3|]. split; [exact D3|]. exact M3.
Qed.

(* ---- from every state the task can run until it has nothing left to do *)
Theorem drain_to_idle st u :
  sbinv c st -> sb_sub st = Some u -> 1 <= u_win u ->
  exists st' u', reach st st' /\ same_glob st st' /\ sbinv c st' /\ sb_sub st' = Some u' /\ sub_idle u' /\ u_m0 u' = u_m0 u.
Proof.
  intros Hi Hu Hw.
  (* 1: finish the history read in progress *)
  assert (S1 : exists st1 u1, reach st st1 /\ same_glob st st1 /\ sbinv c st1 /\ sb_sub st1 = Some u1 /\ u_ph u1 = PLive /\
                              u_win u1 = u_win u /\ u_m0 u1 = u_m0 u).
  { destruct (u_ph u) as [pend cur|] eqn:Eph.
    - destruct (hist_done (hmeasure u) st u Hi Hu Hw (le_n _) (ex_intro _ pend (ex_intro _ cur Eph)))
        as (st1 & u1 & R & G & I1 & U1 & P1 & _ & _ & _ & V1 & M1).
      exists st1, u1. split; [exact R|]. split; [exact G|]. split; [exact I1|]. split; [exact U1|]. split; [exact P1|]. split; [exact V1|exact M1].
    - exists st, u. split; [apply reach_refl|]. split; [apply same_glob_refl|]. split; [exact Hi|]. split; [exact Hu|]. split; [exact Eph|]. split; reflexivity. }
  destruct S1 as (st1 & u1 & R1 & G1 & I1 & U1 & P1 & V1 & M1).
  (* 2: send the record that waits for the window *)
  assert (S2 : exists st2 u2, reach st1 st2 /\ same_glob st1 st2 /\ sbinv c st2 /\ sb_sub st2 = Some u2 /\ u_ph u2 = PLive /\
                              u_hold u2 = None /\ u_win u2 = u_win u /\ u_m0 u2 = u_m0 u).
  { destruct (u_hold u1) as [e|] eqn:Eh.
    - destruct (open_window st1 u1 I1 U1 ltac:(lia)) as (sa & ua & Ra & Ga & Ia & Ua & Wa & Pa & Ha & Qa & La & Va & Ma).
      assert (Sb : sb_step c sa OSend = set_sub sa (deliver sa ua e (update_state (u_m ua) e) PLive None)).
      { cbn. rewrite Ua, Pa, P1, Ha, Eh, Wa. reflexivity. }
      exists (sb_step c sa OSend), (deliver sa ua e (update_state (u_m ua) e) PLive None).
      split; [eapply reach_trans; [exact Ra|apply (reach_step sa OSend); reflexivity]|].
      split; [exact (same_glob_trans _ _ _ Ga (step_set_glob _ _ _ Sb))|].
      split; [apply sbinv_step; [exact Hbrk|exact I|exact Ia]|]. split; [rewrite Sb; reflexivity|]. cbn. repeat split; congruence.
    - exists st1, u1. split; [apply reach_refl|]. split; [apply same_glob_refl|]. split; [exact I1|]. split; [exact U1|]. split; [exact P1|]. split; [exact Eh|]. split; assumption. }
  destruct S2 as (st2 & u2 & R2 & G2 & I2 & U2 & P2 & H2 & V2 & M2).
  (* 3: a lagged receiver reads the history again *)
  assert (S3 : exists st3 u3, reach st2 st3 /\ same_glob st2 st3 /\ sbinv c st3 /\ sb_sub st3 = Some u3 /\ u_ph u3 = PLive /\
                              u_lagn u3 = 0 /\ u_win u3 = u_win u /\ u_m0 u3 = u_m0 u).
  { destruct (0 <? u_lagn u2) eqn:El.
    - set (ux := mkSub (u_m0 u2) (u_m u2) (u_win u2) (u_cur u2) (u_ack u2) (u_ph u2) None (u_q u2) 0 (u_out u2) (u_lagn u2 :: u_lags u2)).
      assert (Sb : sb_step c st2 ORecv = set_sub st2 (enter_history c st2 ux)).
      { cbn [sb_step]. rewrite U2, P2, H2, El. reflexivity. }
      assert (Ib : sbinv c (sb_step c st2 ORecv)) by (apply sbinv_step; [exact Hbrk|exact I|exact I2]).
      assert (Fx : u_lagn (enter_history c st2 ux) = 0 /\ u_win (enter_history c st2 ux) = u_win u2 /\ u_m0 (enter_history c st2 ux) = u_m0 u2).
      { unfold enter_history. destruct (start_history c st2 (u_m ux)). cbn. auto. }
      destruct Fx as (Fl & Fw & Fm).
      destruct (u_ph (enter_history c st2 ux)) as [pend cur|] eqn:Ex.
      + destruct (hist_done (hmeasure (enter_history c st2 ux)) (sb_step c st2 ORecv) (enter_history c st2 ux) Ib
                    ltac:(rewrite Sb; reflexivity) ltac:(lia) (le_n _) (ex_intro _ pend (ex_intro _ cur Ex)))
          as (sc & uc & Rc & Gc & Ic & Uc & Pc & _ & _ & Lc & Vc & Mc).
        exists sc, uc. split; [eapply reach_trans; [apply (reach_step st2 ORecv); reflexivity|exact Rc]|].
        split; [exact (same_glob_trans _ _ _ (step_set_glob _ _ _ Sb) Gc)|]. split; [exact Ic|]. split; [exact Uc|]. split; [exact Pc|]. repeat split; congruence.
      + exists (sb_step c st2 ORecv), (enter_history c st2 ux). split; [apply (reach_step st2 ORecv); reflexivity|].
        split; [exact (step_set_glob _ _ _ Sb)|]. split; [exact Ib|]. split; [rewrite Sb; reflexivity|]. split; [exact Ex|]. repeat split; congruence.
    - apply Nat.ltb_ge in El. exists st2, u2. split; [apply reach_refl|]. split; [apply same_glob_refl|]. split; [exact I2|]. split; [exact U2|]. split; [exact P2|]. split; [lia|]. split; assumption. }
  destruct S3 as (st3 & u3 & R3 & G3 & I3 & U3 & P3 & L3 & V3 & M3).
  (* 4: empty the channel *)
  destruct (live_done _ st3 u3 I3 U3 ltac:(lia) P3 L3 (le_n _)) as (st4 & u4 & R4 & G4 & I4 & U4 & D4 & M4).
  exists st4, u4. split; [eapply reach_trans; [exact R1|eapply reach_trans; [exact R2|eapply reach_trans; [exact R3|exact R4]]]|].
  split; [eapply same_glob_trans; [exact G1|eapply same_glob_trans; [exact G2|eapply same_glob_trans; [exact G3|exact G4]]]|].
  split; [exact I4|]. split; [exact U4|]. split; [exact D4|]. congruence.
Qed.

End Drain.

(* ---- liveness of the model: after one broadcast per partition the task, given acknowledgements, runs
   until it is idle, and then everything confirmed from the start position on has been delivered *)
Lemma bcast_all c (Hb : c_brk c = true) l : forall st u,
  sbinv c st -> sb_sub st = Some u ->
  let st' := fold_left (sb_step c) (map OBcast l) st in
  sbinv c st' /\ sb_log st' = sb_log st /\ sb_wm st' = sb_wm st /\
  (exists u', sb_sub st' = Some u' /\ u_win u' = u_win u /\ u_m0 u' = u_m0 u) /\
  (forall p, sb_nb st p <= sb_nb st' p) /\ (forall p, In p l -> sb_nb st' p = sb_wm st p).
Proof.
  induction l as [|q l IH]; intros st u Hi Hu; cbn [map fold_left].
  - split; [exact Hi|]. split; [reflexivity|]. split; [reflexivity|]. split; [exists u; auto|]. split; [intros; lia|intros p []].
  - set (st1 := sb_step c st (OBcast q)).
    assert (I1 : sbinv c st1) by (apply sbinv_step; [exact Hb|exact I|exact Hi]).
    assert (E1 : st1 = mkSb (sb_log st) (sb_wm st) (fupd (sb_nb st) q (Nat.max (sb_nb st q) (sb_wm st q))) (sb_bg st)
                            (Some (fold_left (q_push c) (slice (sb_log st q) (sb_nb st q) (sb_wm st q)) u))).
    { unfold st1. cbn [sb_step]. rewrite Hu. reflexivity. }
    destruct (fold_push_fields c (slice (sb_log st q) (sb_nb st q) (sb_wm st q)) u) as [F1 F2].
    destruct (IH st1 _ I1 ltac:(rewrite E1; reflexivity)) as (A & B & C & (u' & D1 & D2 & D3) & E & F).
    destruct Hi as (_ & Hw & _).
    split; [exact A|]. split; [rewrite B, E1; reflexivity|]. split; [rewrite C, E1; reflexivity|].
    split; [exists u'; split; [exact D1|]; split; congruence|].
    assert (Hnb1 : forall p, sb_nb st p <= sb_nb st1 p).
    { intros p. rewrite E1. cbn. unfold fupd. destruct (p =? q) eqn:Eq; [apply Nat.eqb_eq in Eq; subst; lia|lia]. }
    split; [intros p; specialize (E p); specialize (Hnb1 p); lia|].
    intros p [->|Hin].
    + assert (H1 : sb_nb st1 p = sb_wm st p).
      { rewrite E1. cbn. unfold fupd. rewrite Nat.eqb_refl. destruct (Hw p). lia. }
      destruct A as (_ & Hw' & _). destruct (Hw' p) as [X _]. rewrite C in X. specialize (E p).
      assert (sb_wm st1 p = sb_wm st p) by (rewrite E1; reflexivity). lia.
    + rewrite (F p Hin). rewrite E1. reflexivity.
Qed.

Theorem sub_eventual c bg ops u :
  c_brk c = true -> ops_wf ops -> sb_sub (sb_run c bg ops) = Some u -> 1 <= u_win u ->
  exists more, Forall (fun o => is_drain o = true) more /\
    let st := sb_run c bg ops in let st' := sb_run c bg (ops ++ more) in
    sb_log st' = sb_log st /\ sb_wm st' = sb_wm st /\
    exists u', sb_sub st' = Some u' /\ sub_idle u' /\ u_m0 u' = u_m0 u /\
      forall k first, key_kind (u_m0 u) k = true -> kpid c k < c_np c ->
        (sub_start (u_m0 u) k = Some first \/ (dpos k (u_out u') <> [] /\ first = hd 0 (dpos k (u_out u')))) ->
        forall e, In e (klog c st k) -> first <= kpos k e -> e_seq e < sb_wm st (kpid c k) -> In e (map d_ev (u_out u')).
Proof.
  intros Hb Hwf Hu Hwin. set (st := sb_run c bg ops).
  assert (Hi : sbinv c st) by (apply sbinv_run; assumption).
  destruct (bcast_all c Hb (owned c) st u Hi Hu) as (I1 & L1 & W1 & (u1 & U1 & V1 & M1) & _ & N1).
  set (st1 := fold_left (sb_step c) (map OBcast (owned c)) st) in *.
  destruct (drain_to_idle c Hb st1 u1 I1 U1 ltac:(lia)) as (st2 & u2 & (more2 & F2 & E2) & (G2a & G2b & G2c) & I2 & U2 & D2 & M2).
  exists (map OBcast (owned c) ++ more2).
  assert (Hrun : sb_run c bg (ops ++ map OBcast (owned c) ++ more2) = st2).
  { unfold sb_run. rewrite !fold_left_app. fold (sb_run c bg ops). fold st. fold st1. symmetry. exact E2. }
  assert (Hwf2 : ops_wf (ops ++ map OBcast (owned c) ++ more2)).
  { apply Forall_app. split; [exact Hwf|]. apply Forall_app. split.
    - apply Forall_forall. intros o Ho. apply in_map_iff in Ho. destruct Ho as (p & <- & _). exact I.
    - eapply Forall_impl; [|exact F2]. intros o Ho. apply internal_op_wf. unfold is_drain. destruct o; try discriminate; reflexivity. }
  split.
  { apply Forall_app. split.
    - apply Forall_forall. intros o Ho. apply in_map_iff in Ho. destruct Ho as (p & <- & _). reflexivity.
    - eapply Forall_impl; [|exact F2]. intros o Ho. unfold is_drain. destruct o; try discriminate; reflexivity. }
  cbn zeta. rewrite Hrun. split; [congruence|]. split; [congruence|].
  exists u2. split; [exact U2|]. split; [exact D2|]. split; [congruence|].
  intros k first Hk Hnp Hfirst e Hin Hge Hlt.
  assert (Hklog : klog c st2 k = klog c st k).
  { destruct k; cbn; rewrite G2a, L1; reflexivity. }
  pose proof (sub_idle_complete c bg (ops ++ map OBcast (owned c) ++ more2) u2 Hb Hwf2) as Hc. cbn zeta in Hc. rewrite Hrun in Hc.
  apply (Hc U2 D2 k first); try assumption.
  - rewrite M2, M1. exact Hk.
  - rewrite M2, M1. exact Hfirst.
  - rewrite Hklog. exact Hin.
  - rewrite G2c. rewrite (N1 (kpid c k)); [exact Hlt|]. apply memb_in. apply memb_owned. exact Hnp.
Qed.
