(** Proofs about Model/Subscription.v: safety of the subscription transition system for every
    execution (order / once / no gap / confirmed / window), by one invariant over operation lists. *)
From Coq Require Import List Bool Arith PeanoNat Lia.
From SV Require Import Model.Subscription.
Import ListNotations.


(* ================================================================== lists *)
Lemma slice_nil {A} (l : list A) a : slice l a a = [].
Proof. unfold slice. rewrite Nat.sub_diag. reflexivity. Qed.

Lemma slice_ge {A} (l : list A) a b : b <= a -> slice l a b = [].
Proof. intros H. unfold slice. replace (b - a) with 0 by lia. reflexivity. Qed.

Lemma skipn_nth_cons {A} (l : list A) a x : nth_error l a = Some x -> skipn a l = x :: skipn (S a) l.
Proof.
  revert a; induction l as [|y l IH]; intros [|a] H; cbn in *; try discriminate.
  - injection H as ->. reflexivity.
  - apply IH in H. exact H.
Qed.

Lemma slice_cons {A} (l : list A) a b x : nth_error l a = Some x -> a < b -> slice l a b = x :: slice l (S a) b.
Proof.
  intros H Hab. unfold slice. rewrite (skipn_nth_cons _ _ _ H).
  replace (b - a) with (S (b - S a)) by lia. reflexivity.
Qed.

Lemma firstn_add {A} (l : list A) n m : firstn (n + m) l = firstn n l ++ firstn m (skipn n l).
Proof.
  revert l; induction n as [|n IH]; intros l; [reflexivity|].
  destruct l as [|x l]; cbn; [rewrite firstn_nil; reflexivity|]. rewrite IH. reflexivity.
Qed.

Lemma skipn_add {A} (l : list A) n m : skipn n (skipn m l) = skipn (n + m) l.
Proof.
  revert l; induction m as [|m IH]; intros l; [rewrite Nat.add_0_r; reflexivity|].
  rewrite Nat.add_succ_r. destruct l as [|x l]; cbn; [apply skipn_nil|]. apply IH.
Qed.

Lemma slice_app_r {A} (l : list A) a b c : a <= b -> b <= c -> slice l a b ++ slice l b c = slice l a c.
Proof.
  intros Hab Hbc. unfold slice.
  replace (c - a) with ((b - a) + (c - b)) by lia.
  rewrite firstn_add, skipn_add. replace (b - a + a) with b by lia. reflexivity.
Qed.

Lemma slice_app_l {A} (l x : list A) a b : b <= length l -> slice (l ++ x) a b = slice l a b.
Proof.
  intros H. unfold slice.
  destruct (Nat.le_gt_cases b a) as [Hle|Hlt].
  { replace (b - a) with 0 by lia. reflexivity. }
  rewrite skipn_app. rewrite firstn_app. rewrite skipn_length.
  replace (b - a - (length l - a)) with 0 by lia. cbn. rewrite app_nil_r. reflexivity.
Qed.

Lemma nth_error_firstn_lt {A} (l : list A) n i : i < n -> nth_error (firstn n l) i = nth_error l i.
Proof.
  revert l i; induction n as [|n IH]; intros l i H; [lia|].
  destruct l as [|x l]; [destruct i; reflexivity|]. destruct i as [|i]; [reflexivity|]. cbn. apply IH. lia.
Qed.

Lemma nth_error_skipn {A} (l : list A) a j : nth_error (skipn a l) j = nth_error l (a + j).
Proof.
  revert l; induction a as [|a IH]; intros l; [reflexivity|].
  destruct l as [|y l]; cbn; [destruct j; reflexivity|]. apply IH.
Qed.

Lemma slice_in {A} (l : list A) a b x : In x (slice l a b) -> exists i, a <= i < b /\ nth_error l i = Some x.
Proof.
  unfold slice. intros H. apply In_nth_error in H. destruct H as [j Hj].
  assert (Hlt : j < b - a).
  { assert (j < length (firstn (b - a) (skipn a l))) by (apply nth_error_Some; congruence).
    rewrite firstn_length in H. lia. }
  rewrite nth_error_firstn_lt in Hj by exact Hlt.
  exists (a + j). split; [lia|]. rewrite <- Hj. symmetry. apply nth_error_skipn.
Qed.

Lemma nth_error_app_l {A} (l x : list A) i e : nth_error l i = Some e -> nth_error (l ++ x) i = Some e.
Proof. intros H. rewrite nth_error_app1; [exact H|]. apply nth_error_Some. congruence. Qed.

Lemma firstn_app_le {A} (l x : list A) n : n <= length l -> firstn n (l ++ x) = firstn n l.
Proof. intros H. rewrite firstn_app. replace (n - length l) with 0 by lia. cbn. apply app_nil_r. Qed.

Lemma filter_length_le {A} (f : A -> bool) l : length (filter f l) <= length l.
Proof. induction l as [|x l IH]; cbn; [lia|]. destruct (f x); cbn; lia. Qed.

(* index translation between a list and its filter *)
Lemma nth_error_filter {A} (f : A -> bool) l j e :
  nth_error (filter f l) j = Some e ->
  exists i, nth_error l i = Some e /\ f e = true /\ length (filter f (firstn i l)) = j.
Proof.
  revert j; induction l as [|x l IH]; intros j H; cbn in H; [destruct j; discriminate|].
  destruct (f x) eqn:Hx.
  - destruct j as [|j]; cbn in H.
    + injection H as <-. exists 0. cbn. auto.
    + apply IH in H. destruct H as (i & H1 & H2 & H3). exists (S i). cbn. rewrite Hx. cbn. auto.
  - apply IH in H. destruct H as (i & H1 & H2 & H3). exists (S i). cbn. rewrite Hx. auto.
Qed.

Lemma filter_nth_error {A} (f : A -> bool) l i e :
  nth_error l i = Some e -> f e = true -> nth_error (filter f l) (length (filter f (firstn i l))) = Some e.
Proof.
  revert i; induction l as [|x l IH]; intros i H Hf; [destruct i; discriminate|].
  destruct i as [|i]; cbn in *.
  - injection H as ->. rewrite Hf. reflexivity.
  - destruct (f x); cbn; apply IH; assumption.
Qed.

Lemma filter_firstn_mono {A} (f : A -> bool) l i j : i <= j -> length (filter f (firstn i l)) <= length (filter f (firstn j l)).
Proof.
  revert i j; induction l as [|x l IH]; intros i j H; [destruct i, j; cbn; lia|].
  destruct i as [|i]; [cbn; lia|]. destruct j as [|j]; [lia|]. cbn.
  specialize (IH i j ltac:(lia)). destruct (f x); cbn; lia.
Qed.

Lemma filter_firstn_strict {A} (f : A -> bool) l i j e :
  i < j -> nth_error l i = Some e -> f e = true -> length (filter f (firstn i l)) < length (filter f (firstn j l)).
Proof.
  revert i j; induction l as [|x l IH]; intros i j H Hn Hf; [destruct i; discriminate|].
  destruct j as [|j]; [lia|]. destruct i as [|i]; cbn in *.
  - injection Hn as ->. rewrite Hf. cbn. lia.
  - specialize (IH i j ltac:(lia) Hn Hf). destruct (f x); cbn; lia.
Qed.

Lemma seq_snoc a n : seq a (S n) = seq a n ++ [a + n].
Proof. rewrite seq_S. reflexivity. Qed.

Lemma last_snoc {A} (l : list A) x d : last (l ++ [x]) d = x.
Proof. induction l as [|y l IH]; [reflexivity|]. cbn. destruct (l ++ [x]) eqn:E; [destruct l; discriminate|]. exact IH. Qed.

Lemma last_seq a n d : 0 < n -> last (seq a n) d = a + n - 1.
Proof. intros H. destruct n as [|n]; [lia|]. rewrite seq_snoc, last_snoc. lia. Qed.

Lemma hd_app_ne {A} (l x : list A) d : l <> [] -> hd d (l ++ x) = hd d l.
Proof. destruct l; [congruence|reflexivity]. Qed.

(* ================================================================== association lists *)
Lemma alookup_ainsert_same k v m : alookup k (ainsert k v m) = Some v.
Proof.
  induction m as [|[k' v'] m IH]; cbn; [rewrite Nat.eqb_refl; reflexivity|].
  destruct (k =? k') eqn:E; cbn; [rewrite Nat.eqb_refl; reflexivity|]. rewrite E. exact IH.
Qed.

Lemma alookup_ainsert_other k k2 v m : k2 <> k -> alookup k2 (ainsert k v m) = alookup k2 m.
Proof.
  intros Hne. induction m as [|[k' v'] m IH]; cbn.
  - destruct (k2 =? k) eqn:E; [apply Nat.eqb_eq in E; congruence|reflexivity].
  - destruct (k =? k') eqn:E; cbn.
    + apply Nat.eqb_eq in E; subst k'. destruct (k2 =? k) eqn:E2; [apply Nat.eqb_eq in E2; congruence|reflexivity].
    + destruct (k2 =? k'); [reflexivity|exact IH].
Qed.

Lemma ainsert_keys k v m : In k (map fst m) -> map fst (ainsert k v m) = map fst m.
Proof.
  induction m as [|[k' v'] m IH]; cbn; [intros []|]. intros [->|H].
  - rewrite Nat.eqb_refl. reflexivity.
  - destruct (k =? k') eqn:E; cbn; [apply Nat.eqb_eq in E; subst; reflexivity|]. f_equal. apply IH. exact H.
Qed.

Lemma alookup_in k m v : alookup k m = Some v -> In k (map fst m).
Proof.
  induction m as [|[k' v'] m IH]; cbn; [discriminate|]. destruct (k =? k') eqn:E.
  - apply Nat.eqb_eq in E. subst. auto.
  - intros H. right. apply IH. exact H.
Qed.

Lemma alookup_nodup k v m : NoDup (map fst m) -> In (k, v) m -> alookup k m = Some v.
Proof.
  induction m as [|[k' v'] m IH]; cbn; [intros _ []|]. intros Hnd [H|H].
  - injection H as -> ->. rewrite Nat.eqb_refl. reflexivity.
  - inversion Hnd as [|? ? Hni Hnd']; subst. destruct (k =? k') eqn:E.
    + apply Nat.eqb_eq in E. subst. exfalso. apply Hni. change k' with (fst (k', v)). apply in_map. exact H.
    + apply IH; assumption.
Qed.

Lemma alookup_none k m : ~ In k (map fst m) -> alookup k m = None.
Proof.
  induction m as [|[k' v'] m IH]; cbn; [reflexivity|]. intros H. destruct (k =? k') eqn:E.
  - apply Nat.eqb_eq in E. subst. exfalso. apply H. auto.
  - apply IH. intros Hin. apply H. auto.
Qed.

Lemma memb_in x l : memb x l = true <-> In x l.
Proof.
  unfold memb. rewrite existsb_exists. split.
  - intros (y & Hy & E). apply Nat.eqb_eq in E. subst. exact Hy.
  - intros H. exists x. split; [exact H|apply Nat.eqb_refl].
Qed.

Lemma memb_owned c p : memb p (owned c) = true <-> p < c_np c.
Proof. rewrite memb_in. unfold owned. rewrite in_seq. lia. Qed.

Lemma ainsert_keys_notin k v m : ~ In k (map fst m) -> map fst (ainsert k v m) = map fst m ++ [k].
Proof.
  induction m as [|[k' v'] m IH]; cbn; [reflexivity|]. intros H.
  destruct (k =? k') eqn:E; [apply Nat.eqb_eq in E; subst; exfalso; apply H; auto|].
  cbn. f_equal. apply IH. intros Hin. apply H. auto.
Qed.

Lemma NoDup_snoc {A} (l : list A) x : NoDup l -> ~ In x l -> NoDup (l ++ [x]).
Proof.
  induction l as [|y l IH]; intros Hnd Hx; cbn; [constructor; [intros []|constructor]|].
  inversion Hnd as [|? ? Hy Hl]; subst. constructor.
  - intros Hin. apply in_app_or in Hin. destruct Hin as [Hin|[->|[]]]; [contradiction|]. apply Hx. left. reflexivity.
  - apply IH; [assumption|]. intros Hin. apply Hx. right. assumption.
Qed.

Lemma ainsert_nodup k v m : NoDup (map fst m) -> NoDup (map fst (ainsert k v m)).
Proof.
  intros H. destruct (in_dec Nat.eq_dec k (map fst m)) as [Hin|Hni].
  - rewrite ainsert_keys by exact Hin. exact H.
  - rewrite ainsert_keys_notin by exact Hni. apply NoDup_snoc; assumption.
Qed.

Lemma ainsert_keys_incl k v m l : incl (map fst m) l -> In k l -> incl (map fst (ainsert k v m)) l.
Proof.
  intros H Hk. destruct (in_dec Nat.eq_dec k (map fst m)) as [Hin|Hni].
  - rewrite ainsert_keys by exact Hin. exact H.
  - rewrite ainsert_keys_notin by exact Hni. intros x Hx. apply in_app_or in Hx. destruct Hx as [Hx|[<-|[]]]; auto.
Qed.

Lemma alookup_map_ids (f : nat -> nat) ids k :
  alookup k (map (fun x => (x, f x)) ids) = if memb k ids then Some (f k) else None.
Proof.
  induction ids as [|y ids IH]; cbn; [reflexivity|]. unfold memb in *. cbn.
  destruct (k =? y) eqn:E; cbn; [apply Nat.eqb_eq in E; subst; reflexivity|]. exact IH.
Qed.

Lemma map_fst_ids (f : nat -> nat) ids : map fst (map (fun x => (x, f x)) ids) = ids.
Proof. induction ids as [|y ids IH]; cbn; [reflexivity|]. f_equal. exact IH. Qed.

(* ================================================================== the matcher, abstractly *)
Inductive track := TIgnore | TLatest | TFrom (n : nat).

Definition fs_track (fs : fromspec) (k : nat) : track :=
  match fs with
  | FLatest => TLatest
  | FMap m fb => match alookup k m with
                 | Some n => TFrom n
                 | None => match fb with Some n => TFrom n | None => TLatest end
                 end
  | FAll n => TFrom n
  end.
Definition opt_track (o : option nat) : track := match o with Some n => TFrom n | None => TLatest end.

(* what the matcher knows about key k: not its business / nothing yet / next position n *)
Definition mtrack (m : matcher) (k : hkey) : track :=
  match m, k with
  | MAllP fs, KP p => fs_track fs p
  | MPart p' from, KP p => if p =? p' then opt_track from else TIgnore
  | MParts ps fs, KP p => if memb p ps then fs_track fs p else TIgnore
  | MStream s' from, KS s => if s =? s' then opt_track from else TIgnore
  | MStreams ss fs, KS s => if memb s ss then fs_track fs s else TIgnore
  | _, _ => TIgnore
  end.

Definition ekey (m : matcher) (e : sevent) : hkey := if is_part_kind m then KP (e_pid e) else KS (e_sid e).
Definition kkind (m : matcher) (k : hkey) : bool := match k with KP _ => is_part_kind m | KS _ => negb (is_part_kind m) end.
Definition kpid (c : sbcfg) (k : hkey) : nat := match k with KP p => p | KS s => spid c s end.

Definition fs_hyd (fs : fromspec) : bool := match fs with FLatest => true | FMap _ None => true | _ => false end.
Definition hyd (m : matcher) : bool :=
  match m with MAllP fs | MParts _ fs | MStreams _ fs => fs_hyd fs | _ => true end.

Definition fs_wf (fs : fromspec) : Prop := match fs with FMap m _ => NoDup (map fst m) | _ => True end.
(* a matcher as the ESUB/EPSUB parsers build it: no duplicate ids, explicit stream positions only for subscribed streams *)
Definition wf_matcher (m : matcher) : Prop :=
  match m with
  | MAllP fs => fs_wf fs
  | MParts ps fs => NoDup ps /\ fs_wf fs
  | MStreams ss fs => NoDup ss /\ fs_wf fs /\ match fs with FMap m fb => fb = None /\ incl (map fst m) ss | _ => True end
  | _ => True
  end.

Lemma hkey_eqb_eq a b : hkey_eqb a b = true <-> a = b.
Proof.
  destruct a, b; cbn; try (split; [discriminate|congruence]); rewrite Nat.eqb_eq; split; congruence.
Qed.
Lemma hkey_eqb_refl a : hkey_eqb a a = true.
Proof. apply hkey_eqb_eq. reflexivity. Qed.
Lemma hkey_eqb_neq a b : hkey_eqb a b = false <-> a <> b.
Proof. rewrite <- hkey_eqb_eq. destruct (hkey_eqb a b); split; congruence. Qed.
Lemma hkey_dec (a b : hkey) : {a = b} + {a <> b}.
Proof. decide equality; apply Nat.eq_dec. Qed.

Lemma kkind_ekey m e : kkind m (ekey m e) = true.
Proof. unfold ekey, kkind. destruct (is_part_kind m); reflexivity. Qed.

Lemma fs_seen_track fs k x :
  fs_seen fs k x = match fs_track fs k with TIgnore => true | TLatest => false | TFrom n => x <? n end.
Proof.
  destruct fs as [|m fb|n]; cbn; try reflexivity.
  destruct (alookup k m); cbn; [reflexivity|]. destruct fb; reflexivity.
Qed.

Lemma has_seen_track m e :
  has_seen m e = match mtrack m (ekey m e) with TIgnore => true | TLatest => false | TFrom n => kpos (ekey m e) e <? n end.
Proof.
  destruct m as [fs|p from|ps fs|s from|ss fs]; unfold ekey; cbn.
  - apply fs_seen_track.
  - destruct (e_pid e =? p); cbn; [|reflexivity]. destruct from; reflexivity.
  - destruct (memb (e_pid e) ps); cbn; [|reflexivity]. apply fs_seen_track.
  - destruct (e_sid e =? s); cbn; [|reflexivity]. destruct from; reflexivity.
  - destruct (memb (e_sid e) ss); cbn; [|reflexivity]. apply fs_seen_track.
Qed.

Lemma fs_track_update fs k x k2 :
  fs_hyd fs = true ->
  fs_track (fs_update fs k x) k2 = if k2 =? k then TFrom (S x) else fs_track fs k2.
Proof.
  destruct fs as [|m fb|n]; cbn; intros Hh; try discriminate.
  - destruct (k2 =? k); reflexivity.
  - destruct (k2 =? k) eqn:E.
    + apply Nat.eqb_eq in E. subst. rewrite alookup_ainsert_same. reflexivity.
    + apply Nat.eqb_neq in E. rewrite alookup_ainsert_other by exact E. reflexivity.
Qed.

Lemma fs_update_hyd fs k x : fs_hyd fs = true -> fs_hyd (fs_update fs k x) = true.
Proof. destruct fs as [|m [fb|]|n]; cbn; congruence. Qed.

Lemma fs_update_wf fs k x : fs_wf fs -> fs_wf (fs_update fs k x).
Proof.
  destruct fs as [|m fb|n]; cbn; intros H.
  - constructor; [intros []|constructor].
  - apply ainsert_nodup. exact H.
  - constructor; [intros []|constructor].
Qed.

(* update_state after a live send: the key of the event moves to position + 1, nothing else changes *)
Lemma update_state_spec m e :
  hyd m = true -> wf_matcher m -> has_seen m e = false ->
  let m' := update_state m e in
  is_part_kind m' = is_part_kind m /\ hyd m' = true /\ wf_matcher m' /\
  forall k, kkind m k = true ->
            mtrack m' k = if hkey_eqb k (ekey m e) then TFrom (S (kpos (ekey m e) e)) else mtrack m k.
Proof.
  intros Hh Hw Hs.
  destruct m as [fs|p from|ps fs|s from|ss fs]; unfold ekey; cbn in *.
  - repeat split; [apply fs_update_hyd; exact Hh|apply fs_update_wf; exact Hw|].
    intros [p|s] Hk; cbn in *; [|discriminate]. apply fs_track_update. exact Hh.
  - destruct (e_pid e =? p) eqn:E; cbn in Hs; [|discriminate]. apply Nat.eqb_eq in E. cbn.
    repeat split. intros [q|s] Hk; cbn in *; [|discriminate]. rewrite E.
    destruct (q =? p); reflexivity.
  - destruct (memb (e_pid e) ps) eqn:E; cbn in Hs; [|discriminate]. cbn. destruct Hw as [Hw1 Hw2].
    repeat split; [apply fs_update_hyd; exact Hh|exact Hw1|apply fs_update_wf; exact Hw2|].
    intros [q|s] Hk; cbn in *; [|discriminate].
    destruct (q =? e_pid e) eqn:E2.
    + apply Nat.eqb_eq in E2. subst q. rewrite E. rewrite fs_track_update by exact Hh. rewrite Nat.eqb_refl. reflexivity.
    + destruct (memb q ps); [|reflexivity]. rewrite fs_track_update by exact Hh. rewrite E2. reflexivity.
  - destruct (e_sid e =? s) eqn:E; cbn in Hs; [|discriminate]. apply Nat.eqb_eq in E. cbn.
    repeat split. intros [q|q] Hk; cbn in *; [discriminate|]. rewrite E.
    destruct (q =? s); reflexivity.
  - destruct (memb (e_sid e) ss) eqn:E; cbn in Hs; [|discriminate]. cbn. destruct Hw as (Hw1 & Hw2 & Hw3).
    repeat split; [apply fs_update_hyd; exact Hh|exact Hw1|apply fs_update_wf; exact Hw2| |].
    + destruct fs as [|m fb|n]; cbn in *; try discriminate.
      * split; [reflexivity|]. intros x [<-|[]]. apply memb_in. exact E.
      * destruct Hw3 as [-> Hi]. split; [reflexivity|]. apply ainsert_keys_incl; [exact Hi|]. apply memb_in. exact E.
    + intros [q|q] Hk; cbn in *; [discriminate|].
      destruct (q =? e_sid e) eqn:E2.
      * apply Nat.eqb_eq in E2. subst q. rewrite E. rewrite fs_track_update by exact Hh. rewrite Nat.eqb_refl. reflexivity.
      * destruct (memb q ss); [|reflexivity]. rewrite fs_track_update by exact Hh. rewrite E2. reflexivity.
Qed.

Lemma fs_track_set fs k x k2 n :
  fs_hyd fs = true -> fs_track fs k = TFrom n ->
  fs_track (fs_set fs k x) k2 = if k2 =? k then TFrom (S x) else fs_track fs k2.
Proof.
  destruct fs as [|m fb|n']; cbn; intros Hh Ht; try discriminate.
  destruct (k2 =? k) eqn:E.
  - apply Nat.eqb_eq in E. subst. rewrite alookup_ainsert_same. reflexivity.
  - apply Nat.eqb_neq in E. rewrite alookup_ainsert_other by exact E. reflexivity.
Qed.

Lemma fs_set_hyd fs k x : fs_hyd fs = true -> fs_hyd (fs_set fs k x) = true.
Proof. destruct fs as [|m [fb|]|n]; cbn; congruence. Qed.
Lemma fs_set_wf fs k x : fs_wf fs -> fs_wf (fs_set fs k x).
Proof. destruct fs as [|m fb|n]; cbn; intros H; try exact H. apply ainsert_nodup. exact H. Qed.

(* the history reader's direct write of the next position *)
Lemma hist_update_spec m k x n :
  hyd m = true -> wf_matcher m -> kkind m k = true -> mtrack m k = TFrom n ->
  let m' := hist_update m k x in
  is_part_kind m' = is_part_kind m /\ hyd m' = true /\ wf_matcher m' /\
  forall k2, kkind m k2 = true -> mtrack m' k2 = if hkey_eqb k2 k then TFrom (S x) else mtrack m k2.
Proof.
  intros Hh Hw Hk Ht.
  destruct m as [fs|p from|ps fs|s from|ss fs]; destruct k as [q|q]; cbn in *; try discriminate.
  - repeat split; [apply fs_set_hyd; exact Hh|apply fs_set_wf; exact Hw|].
    intros [p2|s2] Hk2; cbn in *; [|discriminate]. eapply fs_track_set; eassumption.
  - destruct (q =? p) eqn:E; [|discriminate]. apply Nat.eqb_eq in E. subst q.
    repeat split. intros [p2|s2] Hk2; cbn in *; [|discriminate]. destruct (p2 =? p); reflexivity.
  - destruct (memb q ps) eqn:E; [|discriminate]. destruct Hw as [Hw1 Hw2].
    repeat split; [apply fs_set_hyd; exact Hh|exact Hw1|apply fs_set_wf; exact Hw2|].
    intros [p2|s2] Hk2; cbn in *; [|discriminate].
    destruct (p2 =? q) eqn:E2.
    + apply Nat.eqb_eq in E2. subst p2. rewrite E. erewrite fs_track_set by eassumption. rewrite Nat.eqb_refl. reflexivity.
    + destruct (memb p2 ps); [|reflexivity]. erewrite fs_track_set by eassumption. rewrite E2. reflexivity.
  - destruct (q =? s) eqn:E; [|discriminate]. apply Nat.eqb_eq in E. subst q.
    repeat split. intros [p2|s2] Hk2; cbn in *; [discriminate|]. destruct (s2 =? s); reflexivity.
  - destruct (memb q ss) eqn:E; [|discriminate]. destruct Hw as (Hw1 & Hw2 & Hw3).
    repeat split; [apply fs_set_hyd; exact Hh|exact Hw1|apply fs_set_wf; exact Hw2| |].
    + destruct fs as [|m fb|n']; cbn in *; try discriminate; try exact I.
      destruct Hw3 as [-> Hi]. split; [reflexivity|]. apply ainsert_keys_incl; [exact Hi|]. apply memb_in. exact E.
    + intros [p2|s2] Hk2; cbn in *; [discriminate|].
      destruct (s2 =? q) eqn:E2.
      * apply Nat.eqb_eq in E2. subst s2. rewrite E. erewrite fs_track_set by eassumption. rewrite Nat.eqb_refl. reflexivity.
      * destruct (memb s2 ss); [|reflexivity]. erewrite fs_track_set by eassumption. rewrite E2. reflexivity.
Qed.

(* ================================================================== pending iterators *)
Lemma find_it_some k l it : find_it k l = Some it -> In it l /\ h_key it = k.
Proof.
  induction l as [|x l IH]; cbn; [discriminate|]. destruct (hkey_eqb (h_key x) k) eqn:E.
  - intros H. injection H as <-. apply hkey_eqb_eq in E. auto.
  - intros H. apply IH in H. tauto.
Qed.

Lemma find_it_none k l : find_it k l = None <-> ~ In k (map h_key l).
Proof.
  induction l as [|x l IH]; cbn; [tauto|]. destruct (hkey_eqb (h_key x) k) eqn:E.
  - apply hkey_eqb_eq in E. split; [discriminate|]. intros H. exfalso. apply H. auto.
  - apply hkey_eqb_neq in E. rewrite IH. tauto.
Qed.

Lemma find_it_nodup l it : NoDup (map h_key l) -> In it l -> find_it (h_key it) l = Some it.
Proof.
  induction l as [|x l IH]; cbn; [intros _ []|]. intros Hnd [->|Hin].
  - rewrite hkey_eqb_refl. reflexivity.
  - inversion Hnd as [|? ? Hni Hnd']; subst. destruct (hkey_eqb (h_key x) (h_key it)) eqn:E.
    + apply hkey_eqb_eq in E. exfalso. apply Hni. rewrite E. apply in_map. exact Hin.
    + apply IH; assumption.
Qed.

Lemma remove_it_in k l it : In it (remove_it k l) <-> In it l /\ h_key it <> k.
Proof.
  induction l as [|x l IH]; cbn; [tauto|]. destruct (hkey_eqb (h_key x) k) eqn:E.
  - apply hkey_eqb_eq in E. rewrite IH. split; [tauto|]. intros [[->|H] Hn]; [congruence|tauto].
  - apply hkey_eqb_neq in E. cbn. rewrite IH. split; [intros [->|H]; tauto|tauto].
Qed.

Lemma remove_it_nodup k l : NoDup (map h_key l) -> NoDup (map h_key (remove_it k l)).
Proof.
  induction l as [|x l IH]; cbn; [auto|]. intros Hnd. inversion Hnd as [|? ? Hni Hnd']; subst.
  destruct (hkey_eqb (h_key x) k); [auto|]. cbn. constructor; [|auto].
  intros Hin. apply in_map_iff in Hin. destruct Hin as (y & Hy & Hin). apply remove_it_in in Hin.
  apply Hni. rewrite <- Hy. apply in_map. tauto.
Qed.

Lemma find_it_remove_same k l : find_it k (remove_it k l) = None.
Proof.
  apply find_it_none. intros Hin. apply in_map_iff in Hin. destruct Hin as (y & Hy & Hin).
  apply remove_it_in in Hin. tauto.
Qed.

Lemma find_it_remove_other k k2 l : k2 <> k -> find_it k2 (remove_it k l) = find_it k2 l.
Proof.
  intros Hne. induction l as [|x l IH]; cbn; [reflexivity|]. destruct (hkey_eqb (h_key x) k) eqn:E.
  - apply hkey_eqb_eq in E. destruct (hkey_eqb (h_key x) k2) eqn:E2; [apply hkey_eqb_eq in E2; congruence|exact IH].
  - cbn. destruct (hkey_eqb (h_key x) k2); [reflexivity|exact IH].
Qed.

Lemma replace_it_keys it' l : map h_key (replace_it it' l) = map h_key l.
Proof.
  induction l as [|x l IH]; cbn; [reflexivity|]. destruct (hkey_eqb (h_key x) (h_key it')) eqn:E; cbn; rewrite IH; [|reflexivity].
  apply hkey_eqb_eq in E. rewrite E. reflexivity.
Qed.

Lemma replace_it_in it' l x : In x (replace_it it' l) -> (x = it' /\ In (h_key it') (map h_key l)) \/ (In x l /\ h_key x <> h_key it').
Proof.
  induction l as [|y l IH]; cbn; [intros []|]. destruct (hkey_eqb (h_key y) (h_key it')) eqn:E.
  - apply hkey_eqb_eq in E. intros [<-|H]; [left; auto|]. apply IH in H. tauto.
  - apply hkey_eqb_neq in E. intros [<-|H]; [right; auto|]. apply IH in H. tauto.
Qed.

Lemma find_it_replace_same it' l : In (h_key it') (map h_key l) -> find_it (h_key it') (replace_it it' l) = Some it'.
Proof.
  induction l as [|y l IH]; cbn; [intros []|]. destruct (hkey_eqb (h_key y) (h_key it')) eqn:E; cbn.
  - rewrite hkey_eqb_refl. reflexivity.
  - rewrite E. intros [H|H]; [apply hkey_eqb_neq in E; congruence|]. apply IH. exact H.
Qed.

Lemma find_it_replace_other it' l k : k <> h_key it' -> find_it k (replace_it it' l) = find_it k l.
Proof.
  intros Hne. induction l as [|y l IH]; cbn; [reflexivity|]. destruct (hkey_eqb (h_key y) (h_key it')) eqn:E; cbn.
  - apply hkey_eqb_eq in E. destruct (hkey_eqb (h_key it') k) eqn:E2; [apply hkey_eqb_eq in E2; congruence|].
    destruct (hkey_eqb (h_key y) k) eqn:E3; [apply hkey_eqb_eq in E3; congruence|]. exact IH.
  - destruct (hkey_eqb (h_key y) k); [reflexivity|exact IH].
Qed.

Lemma find_it_in_keys k l it : find_it k l = Some it -> In k (map h_key l).
Proof. intros H. apply find_it_some in H. destruct H as [H <-]. apply in_map. exact H. Qed.

(* ================================================================== start of a history read *)
Lemma filter_keys_nodup (f : nat * nat -> bool) m : NoDup (map fst m) -> NoDup (map fst (filter f m)).
Proof.
  induction m as [|x m IH]; cbn; [auto|]. intros Hnd. inversion Hnd as [|? ? Hni Hnd']; subst.
  destruct (f x); [|auto]. cbn. constructor; [|auto]. intros Hin. apply Hni.
  apply in_map_iff in Hin. destruct Hin as (y & Hy & Hin). apply filter_In in Hin. rewrite <- Hy. apply in_map. tauto.
Qed.

Lemma alookup_in_pair k m v : alookup k m = Some v -> In (k, v) m.
Proof.
  induction m as [|[k' v'] m IH]; cbn; [discriminate|]. destruct (k =? k') eqn:E.
  - apply Nat.eqb_eq in E. subst. intros H. injection H as ->. auto.
  - intros H. right. apply IH. exact H.
Qed.

Lemma fs_iters_spec c st (mk : nat -> hkey) keep fs :
  (forall a b, mk a = mk b -> a = b) -> fs_hyd fs = true -> fs_wf fs ->
  let pend := fs_iters c st mk keep fs in
  NoDup (map h_key pend) /\
  (forall it, In it pend -> exists k, h_key it = mk k /\ keep k = true /\ fs_track fs k = TFrom (h_pos it) /\
                                       h_end it = length (klog c st (mk k))) /\
  (forall k n, fs_track fs k = TFrom n -> keep k = true -> find_it (mk k) pend <> None).
Proof.
  intros Hinj Hh Hw. destruct fs as [|m [fb|]|n]; cbn in *; try discriminate.
  - repeat split; [constructor|intros ? []|discriminate].
  - repeat split.
    + rewrite map_map. cbn.
      assert (Hnd := filter_keys_nodup (fun kv => keep (fst kv)) m Hw).
      revert Hnd. generalize (filter (fun kv => keep (fst kv)) m). intros l Hnd.
      induction l as [|x l IH]; cbn; [constructor|]. inversion Hnd as [|? ? Hni Hnd']; subst.
      constructor; [|auto]. intros Hin. apply Hni. apply in_map_iff in Hin. destruct Hin as (y & Hy & Hin).
      apply Hinj in Hy. rewrite <- Hy. apply in_map. exact Hin.
    + intros it Hin. apply in_map_iff in Hin. destruct Hin as ([k v] & <- & Hin). apply filter_In in Hin. cbn in Hin.
      exists k. cbn. repeat split; [tauto|]. rewrite (alookup_nodup _ _ _ Hw (proj1 Hin)). reflexivity.
    + intros k n Ht Hk. destruct (alookup k m) eqn:E; [|discriminate]. injection Ht as ->.
      apply alookup_in_pair in E. intros Hf. apply find_it_none in Hf. apply Hf.
      rewrite map_map. cbn. apply in_map_iff. exists (k, n). split; [reflexivity|]. apply filter_In. cbn. auto.
Qed.

Lemma fs_hydrate_spec ids fs :
  NoDup ids -> fs_wf fs ->
  fs_hyd (fs_hydrate ids fs) = true /\ fs_wf (fs_hydrate ids fs) /\
  (forall k, memb k ids = true -> fs_track (fs_hydrate ids fs) k = fs_track fs k) /\
  (fs_hyd fs = true -> fs_hydrate ids fs = fs) /\
  (match fs_hydrate ids fs with FMap m fb => fb = None /\ (fs_hyd fs = false -> map fst m = ids) | _ => True end).
Proof.
  intros Hnd Hw. destruct fs as [|m [fb|]|n]; cbn in *.
  - repeat split; auto.
  - repeat split; [rewrite map_fst_ids; exact Hnd| |discriminate|intros _; apply map_fst_ids].
    intros k Hk. rewrite (alookup_map_ids (fun k0 => match alookup k0 m with Some n => n | None => fb end)). rewrite Hk.
    destruct (alookup k m); reflexivity.
  - repeat split; auto. discriminate.
  - repeat split; [rewrite map_fst_ids; exact Hnd| |discriminate|intros _; apply map_fst_ids].
    intros k Hk. rewrite (alookup_map_ids (fun _ => n)). rewrite Hk. reflexivity.
Qed.

Lemma owned_nodup c : NoDup (owned c).
Proof. apply seq_NoDup. Qed.

Lemma start_history_spec c st m m' pend :
  wf_matcher m -> start_history c st m = (m', pend) ->
  is_part_kind m' = is_part_kind m /\ hyd m' = true /\ wf_matcher m' /\
  (forall k, kpid c k < c_np c -> mtrack m' k = mtrack m k) /\
  (hyd m = true -> m' = m) /\
  NoDup (map h_key pend) /\
  (forall it, In it pend -> kkind m' (h_key it) = true /\ mtrack m' (h_key it) = TFrom (h_pos it) /\
                            h_end it = length (klog c st (h_key it))) /\
  (forall k n, kkind m' k = true -> mtrack m' k = TFrom n -> find_it k pend = None ->
               exists p, k = KP p /\ (sb_wm st p <= n \/ c_np c <= p)).
Proof.
  intros Hw Hs.
  assert (HinjP : forall a b, KP a = KP b -> a = b) by (intros; congruence).
  assert (HinjS : forall a b, KS a = KS b -> a = b) by (intros; congruence).
  destruct m as [fs|p from|ps fs|s from|ss fs]; unfold start_history in Hs.
  - injection Hs as <- <-. cbn in Hw.
    destruct (fs_hydrate_spec (owned c) fs (owned_nodup c) Hw) as (H1 & H2 & H3 & H4 & H5).
    destruct (fs_iters_spec c st KP (fun p => memb p (owned c)) _ HinjP H1 H2) as (I1 & I2 & I3).
    repeat split; auto.
    + intros [p|s] Hk; cbn in *; [|reflexivity]. apply H3. apply memb_owned. exact Hk.
    + cbn. intros Hh. f_equal. auto.
    + apply I2 in H. destruct H as (k & -> & _). reflexivity.
    + apply I2 in H. destruct H as (k & Hk & _ & Ht & _). rewrite Hk. cbn. exact Ht.
    + apply I2 in H. destruct H as (k & Hk & _ & _ & He). rewrite Hk. exact He.
    + intros [p|s] n Hk Ht Hf; cbn in *; [|discriminate]. exists p. split; [reflexivity|]. right.
      destruct (Nat.le_gt_cases (c_np c) p) as [|Hlt]; [assumption|]. exfalso.
      apply (I3 p n Ht); [apply memb_owned; exact Hlt|exact Hf].
  - destruct from as [n|]; injection Hs as <- <-.
    + repeat split; auto.
      * destruct (n <? sb_wm st p); cbn; [constructor; [intros []|constructor]|constructor].
      * destruct (n <? sb_wm st p); [|destruct H]. destruct H as [<-|[]]. reflexivity.
      * destruct (n <? sb_wm st p); [|destruct H]. destruct H as [<-|[]]. cbn. rewrite Nat.eqb_refl. reflexivity.
      * destruct (n <? sb_wm st p); [|destruct H]. destruct H as [<-|[]]. reflexivity.
      * intros [q|s] n' Hk Ht Hf; cbn in Hk; [|discriminate]. cbn [mtrack] in Ht. destruct (q =? p) eqn:E; [|discriminate].
        apply Nat.eqb_eq in E. subst q. cbn [opt_track] in Ht. injection Ht as <-. exists p. split; [reflexivity|]. left.
        destruct (n <? sb_wm st p) eqn:E2; [|apply Nat.ltb_ge in E2; exact E2].
        exfalso. cbn [find_it mk_iter h_key] in Hf. rewrite hkey_eqb_refl in Hf. discriminate.
    + split; [reflexivity|]. split; [reflexivity|]. split; [exact I|]. split; [intros; reflexivity|].
      split; [intros; reflexivity|]. split; [constructor|]. split; [intros it []|].
      intros [q|s] n' Hk Ht Hf; cbn in *; [|discriminate]. destruct (q =? p); discriminate.
  - injection Hs as <- <-. cbn in Hw. destruct Hw as [Hw1 Hw2].
    destruct (fs_hydrate_spec _ fs Hw1 Hw2) as (H1 & H2 & H3 & H4 & H5).
    destruct (fs_iters_spec c st KP (fun p => memb p ps) _ HinjP H1 H2) as (I1 & I2 & I3).
    repeat split; auto.
    + intros [p|s] Hk; cbn in *; [|reflexivity]. destruct (memb p ps) eqn:E; [|reflexivity]. apply H3. exact E.
    + cbn. intros Hh. f_equal. auto.
    + apply I2 in H. destruct H as (k & -> & _). reflexivity.
    + apply I2 in H. destruct H as (k & Hk & Hm & Ht & _). rewrite Hk. cbn. rewrite Hm. exact Ht.
    + apply I2 in H. destruct H as (k & Hk & _ & _ & He). rewrite Hk. exact He.
    + intros [p|s] n Hk Ht Hf; cbn in *; [|discriminate]. exfalso. destruct (memb p ps) eqn:E; [|discriminate].
      apply (I3 p n Ht E Hf).
  - destruct from as [n|]; injection Hs as <- <-.
    + repeat split; auto.
      * cbn. constructor; [intros []|constructor].
      * destruct H as [<-|[]]. reflexivity.
      * destruct H as [<-|[]]. cbn. rewrite Nat.eqb_refl. reflexivity.
      * destruct H as [<-|[]]. reflexivity.
      * intros [q|q] n' Hk Ht Hf; cbn in *; [discriminate|]. destruct (q =? s) eqn:E; [|discriminate].
        apply Nat.eqb_eq in E. subst q. rewrite Nat.eqb_refl in Hf. discriminate.
    + split; [reflexivity|]. split; [reflexivity|]. split; [exact I|]. split; [intros; reflexivity|].
      split; [intros; reflexivity|]. split; [constructor|]. split; [intros it []|].
      intros [q|q] n' Hk Ht Hf; cbn in *; [discriminate|]. destruct (q =? s); discriminate.
  - injection Hs as <- <-. cbn in Hw. destruct Hw as (Hw1 & Hw2 & Hw3).
    destruct (fs_hydrate_spec _ fs Hw1 Hw2) as (H1 & H2 & H3 & H4 & H5).
    destruct (fs_iters_spec c st KS (fun _ => true) _ HinjS H1 H2) as (I1 & I2 & I3).
    assert (Hincl : match fs_hydrate ss fs with FMap m fb => fb = None /\ incl (map fst m) ss | _ => True end).
    { destruct (fs_hyd fs) eqn:Eh.
      - rewrite (H4 eq_refl). exact Hw3.
      - destruct (fs_hydrate ss fs) as [|m fb|n]; auto. destruct H5 as [-> H5]. split; [reflexivity|]. rewrite (H5 eq_refl). apply incl_refl. }
    repeat split; auto.
    + intros [p|s] Hk; cbn in *; [reflexivity|]. destruct (memb s ss) eqn:E; [|reflexivity]. apply H3. exact E.
    + cbn. intros Hh. f_equal. auto.
    + apply I2 in H. destruct H as (k & -> & _). reflexivity.
    + apply I2 in H. destruct H as (k & Hk & _ & Ht & _). rewrite Hk. cbn.
      assert (Hm : memb k ss = true).
      { destruct (fs_hydrate ss fs) as [|m fb|n]; cbn in Ht; try discriminate. destruct Hincl as [-> Hi].
        destruct (alookup k m) eqn:E; [|discriminate]. apply memb_in. apply Hi. eapply alookup_in. exact E. }
      rewrite Hm. exact Ht.
    + apply I2 in H. destruct H as (k & Hk & _ & _ & He). rewrite Hk. exact He.
    + intros [p|s] n Hk Ht Hf; cbn in *; [discriminate|]. exfalso. destruct (memb s ss) eqn:E; [|discriminate].
      apply (I3 s n Ht eq_refl Hf).
Qed.

(* ================================================================== the logs *)
Definition lwf (c : sbcfg) (p : nat) (l : list sevent) : Prop :=
  forall i e, nth_error l i = Some e ->
    e_pid e = p /\ e_seq e = i /\ e_ver e = length (filter (ev_in_stream (e_sid e)) (firstn i l)) /\ spid c (e_sid e) = p.

Definition logwf (c : sbcfg) (st : sbstate) : Prop :=
  forall p, lwf c p (sb_log st p) /\ (sb_log st p <> [] -> p < c_np c).
Definition wmwf (st : sbstate) : Prop :=
  forall p, sb_nb st p <= sb_wm st p /\ sb_wm st p <= length (sb_log st p).
Definition log_ext (st st' : sbstate) : Prop := forall p, exists x, sb_log st' p = sb_log st p ++ x.

Lemma log_ext_refl st : log_ext st st.
Proof. intros p. exists []. symmetry. apply app_nil_r. Qed.

Lemma lwf_snoc c p l s : lwf c p l -> spid c s = p ->
  lwf c p (l ++ [mkSev p (length l) s (length (filter (ev_in_stream s) l))]).
Proof.
  intros H Hs i e Hn. destruct (Nat.lt_ge_cases i (length l)) as [Hlt|Hge].
  - rewrite nth_error_app1 in Hn by exact Hlt. destruct (H i e Hn) as (A & B & C & D).
    repeat split; try assumption. rewrite firstn_app_le by lia. exact C.
  - rewrite nth_error_app2 in Hn by exact Hge. destruct (i - length l) as [|j] eqn:E; cbn in Hn; [|destruct j; discriminate].
    injection Hn as <-. cbn. assert (i = length l) by lia. subst i.
    repeat split; try assumption; try reflexivity. rewrite firstn_app_le by lia. rewrite firstn_all. reflexivity.
Qed.

Lemma append_evs_spec c p sids l :
  lwf c p l -> forallb (fun s => spid c s =? p) sids = true ->
  lwf c p (append_evs p sids l) /\ exists x, append_evs p sids l = l ++ x.
Proof.
  revert l; induction sids as [|s r IH]; intros l H Hs; cbn.
  - split; [exact H|]. exists []. symmetry. apply app_nil_r.
  - cbn in Hs. apply andb_prop in Hs. destruct Hs as [Hs1 Hs2]. apply Nat.eqb_eq in Hs1.
    destruct (IH _ (lwf_snoc c p l s H Hs1) Hs2) as [A [x B]]. split; [exact A|].
    exists ([mkSev p (length l) s (length (filter (ev_in_stream s) l))] ++ x). rewrite B. rewrite <- app_assoc. reflexivity.
Qed.

Lemma append_evs_nil p sids l : append_evs p sids l = [] -> l = [].
Proof.
  revert l; induction sids as [|s r IH]; intros l H; cbn in H; [exact H|].
  apply IH in H. destruct l; discriminate.
Qed.

Section Klog.
Variable c : sbcfg.

Lemma klog_nth st k i e :
  logwf c st -> nth_error (klog c st k) i = Some e ->
  kpos k e = i /\ dkey_match k e = true /\ nth_error (sb_log st (kpid c k)) (e_seq e) = Some e.
Proof.
  intros Hl Hn. destruct k as [p|s]; cbn in *.
  - destruct (proj1 (Hl p) i e Hn) as (A & B & _). rewrite B, A. rewrite Nat.eqb_refl. auto.
  - apply nth_error_filter in Hn. destruct Hn as (j & Hj & Hf & Hlen).
    destruct (proj1 (Hl (spid c s)) j e Hj) as (A & B & C & D).
    unfold ev_in_stream in Hf. pose proof Hf as Hf'. apply Nat.eqb_eq in Hf'.
    rewrite C, Hf'. rewrite B. rewrite Nat.eqb_refl. auto.
Qed.

Lemma klog_of_log st k p i e :
  logwf c st -> nth_error (sb_log st p) i = Some e -> dkey_match k e = true -> kpid c k = p ->
  nth_error (klog c st k) (kpos k e) = Some e.
Proof.
  intros Hl Hn Hm Hp. destruct (proj1 (Hl p) i e Hn) as (A & B & C & D). destruct k as [q|s]; cbn in *.
  - subst q. rewrite B. exact Hn.
  - subst p. rewrite C. apply Nat.eqb_eq in Hm. rewrite Hm. apply filter_nth_error; [exact Hn|].
    unfold ev_in_stream. rewrite Hm. apply Nat.eqb_refl.
Qed.

Lemma klog_in st k e :
  logwf c st -> In e (klog c st k) ->
  dkey_match k e = true /\ e_pid e = kpid c k /\ nth_error (sb_log st (kpid c k)) (e_seq e) = Some e /\
  nth_error (klog c st k) (kpos k e) = Some e.
Proof.
  intros Hl Hin. apply In_nth_error in Hin. destruct Hin as [i Hi].
  destruct (klog_nth st k i e Hl Hi) as (A & B & C). repeat split; try assumption.
  - destruct (proj1 (Hl (kpid c k)) _ _ C) as (P & _). exact P.
  - rewrite A. exact Hi.
Qed.

Lemma klog_mono st k e1 e2 :
  logwf c st -> In e1 (klog c st k) -> In e2 (klog c st k) -> e_seq e1 < e_seq e2 -> kpos k e1 < kpos k e2.
Proof.
  intros Hl H1 H2 Hlt. destruct (klog_in st k e1 Hl H1) as (M1 & _ & N1 & _). destruct (klog_in st k e2 Hl H2) as (M2 & _ & N2 & _).
  destruct k as [p|s]; cbn in *; [exact Hlt|].
  destruct (proj1 (Hl (spid c s)) _ _ N1) as (_ & _ & C1 & _). destruct (proj1 (Hl (spid c s)) _ _ N2) as (_ & _ & C2 & _).
  apply Nat.eqb_eq in M1, M2. rewrite C1, C2, M1, M2.
  eapply filter_firstn_strict; [exact Hlt|exact N1|]. unfold ev_in_stream. rewrite M1. apply Nat.eqb_refl.
Qed.

Lemma klog_inj st k e1 e2 :
  logwf c st -> In e1 (klog c st k) -> In e2 (klog c st k) -> e_seq e1 = e_seq e2 -> e1 = e2.
Proof.
  intros Hl H1 H2 He. destruct (klog_in st k e1 Hl H1) as (_ & _ & N1 & _). destruct (klog_in st k e2 Hl H2) as (_ & _ & N2 & _).
  rewrite He in N1. congruence.
Qed.

Lemma klog_mono_inv st k e1 e2 :
  logwf c st -> In e1 (klog c st k) -> In e2 (klog c st k) -> kpos k e1 < kpos k e2 -> e_seq e1 < e_seq e2.
Proof.
  intros Hl H1 H2 Hlt. destruct (Nat.lt_trichotomy (e_seq e1) (e_seq e2)) as [H|[H|H]]; [exact H| |].
  - rewrite (klog_inj st k e1 e2 Hl H1 H2 H) in Hlt. lia.
  - pose proof (klog_mono st k e2 e1 Hl H2 H1 H). lia.
Qed.

Lemma klog_ext_nth st st' k i e :
  log_ext st st' -> nth_error (klog c st k) i = Some e -> nth_error (klog c st' k) i = Some e.
Proof.
  intros He Hn. destruct k as [p|s]; cbn in *.
  - destruct (He p) as [x ->]. apply nth_error_app_l. exact Hn.
  - destruct (He (spid c s)) as [x ->]. rewrite filter_app. apply nth_error_app_l. exact Hn.
Qed.

Lemma klog_ext_len st st' k : log_ext st st' -> length (klog c st k) <= length (klog c st' k).
Proof.
  intros He. destruct k as [p|s]; cbn.
  - destruct (He p) as [x ->]. rewrite app_length. lia.
  - destruct (He (spid c s)) as [x ->]. rewrite filter_app, app_length. lia.
Qed.

Lemma klog_ext_in st st' k e :
  log_ext st st' -> logwf c st -> logwf c st' -> In e (klog c st' k) ->
  In e (klog c st k) \/ length (sb_log st (kpid c k)) <= e_seq e.
Proof.
  intros He Hl Hl' Hin. destruct (klog_in st' k e Hl' Hin) as (M & P & N & _).
  destruct (Nat.lt_ge_cases (e_seq e) (length (sb_log st (kpid c k)))) as [Hlt|Hge]; [left|right; exact Hge].
  destruct (He (kpid c k)) as [x Hx]. rewrite Hx in N. rewrite nth_error_app1 in N by exact Hlt.
  eapply nth_error_In. eapply klog_of_log; [exact Hl|exact N|exact M|reflexivity].
Qed.

Lemma klog_len_le st k : length (klog c st k) <= length (sb_log st (kpid c k)).
Proof. destruct k; cbn; [lia|apply filter_length_le]. Qed.

(* every event of key k below partition sequence a has a key position below n *)
Definition cover (st : sbstate) (k : hkey) (a n : nat) : Prop :=
  forall e, In e (klog c st k) -> e_seq e < a -> kpos k e < n.

Lemma cover_mono st k a n n' : cover st k a n -> n <= n' -> cover st k a n'.
Proof. intros H Hle e Hin Hlt. specialize (H e Hin Hlt). lia. Qed.

Lemma cover_ext st st' k a n :
  log_ext st st' -> logwf c st -> logwf c st' -> a <= length (sb_log st (kpid c k)) -> cover st k a n -> cover st' k a n.
Proof.
  intros He Hl Hl' Ha H e Hin Hlt. destruct (klog_ext_in st st' k e He Hl Hl' Hin) as [Hin'|Hge]; [apply H; assumption|lia].
Qed.

Lemma cover_len st k a : logwf c st -> cover st k a (length (klog c st k)).
Proof.
  intros Hl e Hin _. destruct (klog_in st k e Hl Hin) as (_ & _ & _ & N). apply nth_error_Some. congruence.
Qed.

(* the reader stopped at position x because the event there is not below a *)
Lemma cover_stop st k a x e :
  logwf c st -> nth_error (klog c st k) x = Some e -> a <= e_seq e -> cover st k a x.
Proof.
  intros Hl Hn Ha e' Hin Hlt. destruct (klog_nth st k x e Hl Hn) as (Hx & _ & _). rewrite <- Hx.
  eapply klog_mono; [exact Hl|exact Hin|eapply nth_error_In; exact Hn|lia].
Qed.

End Klog.
