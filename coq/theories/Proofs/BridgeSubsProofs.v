(** Bridge D (storage scans -> subscription history).

    Model/Subscription.v models the history readers of a subscription over what the storage iterators
    yield: "the events of the partition (resp. of the stream) from the start position up to the end of
    the snapshot taken when the iterator was created" — [mk_iter c st k from] remembers the start
    position and the length of [klog c st k], and the reader then walks [klog c st k] between the two,
    in batches of arbitrary size.  Here that snapshot is shown to be exactly what the storage iterator of
    Model/StoreIter.v returns ([scan s k from Fwd limit], C03's subject), for every store satisfying
    C03's hypothesis [Scannable], hence for every reachable store [run ops].

    The two models use different carriers: the storage model has events over [N] with ids, keys and
    transaction ids; the subscription model has [sevent] over [nat] with only the four fields the
    subscription looks at.  [bs_sev] forgets the rest; the hypothesis "the subscription's log of a
    partition is the store's partition" is [sb_log st p = bs_plog s p].  For a stream key the events of
    the stream must lie in the partition the subscription model looks it up in ([spid c x], the cluster's
    routing; BridgeReadProofs shows that routing puts a stream into one partition). *)
From Coq Require Import NArith Arith PeanoNat List Bool Lia.
From SV Require Import Model.StoreIter Proofs.ScanProofs Proofs.ScanGlue Proofs.BridgeReadProofs.
From SV Require Model.Subscription Proofs.SubscriptionProofs.
From SV Require Proofs.StoreInv Proofs.StoreSimProofs.
Import ListNotations.

Module Sub := SV.Model.Subscription.

(** ---- the conversion -------------------------------------------------------------------------------------- *)
Definition bs_sev (e : event) : Sub.sevent :=
  Sub.mkSev (N.to_nat (e_pid e)) (N.to_nat (e_seq e)) (N.to_nat (e_sid e)) (N.to_nat (e_ver e)).

Definition bs_key (k : Sub.hkey) : skey :=
  match k with Sub.KP p => KPartition (N.of_nat p) | Sub.KS x => KStream (N.of_nat x) end.

(** partition [p] of the store as the subscription model sees it *)
Definition bs_plog (s : store) (p : nat) : list Sub.sevent :=
  map bs_sev (br_pevents (abs_visible s) (N.of_nat p)).

(** for a stream key: the stream's stored events lie in the partition the subscription looks it up in *)
Definition bs_key_routed (c : Sub.sbcfg) (s : store) (k : Sub.hkey) : Prop :=
  match k with
  | Sub.KP _ => True
  | Sub.KS x => br_stream_in_partition (abs_visible s) (N.of_nat x) (N.of_nat (Sub.spid c x))
  end.

(** ---- the forward scan is a suffix of the key's events ---------------------------------------------------- *)
Lemma bs_skipn_clamp {A} (from : N) (l : list A) :
  skipn (clamp_sub from 0 (length l)) l = skipn (N.to_nat from) l.
Proof.
  unfold clamp_sub. rewrite N.sub_0_r. destruct (N.leb_spec (N.of_nat (length l)) from); [|reflexivity].
  rewrite !skipn_all2 by lia. reflexivity.
Qed.

Theorem bs_scan_is_suffix s k from limit batches :
  Scannable s k -> (0 < limit)%nat -> scan s k from Fwd limit = Some batches ->
  scan_events batches = skipn (N.to_nat from) (filter (matches k) (all_events (abs_visible s))).
Proof.
  intros HS Hl H. rewrite (forward_exact' _ _ _ _ _ HS Hl H). unfold fwd_spec.
  pose proof (all_posincr s k HS) as Hp. rewrite <- all_events_Ls in Hp.
  change (fun e => matches k e && (N.leb from (key_pos k e))) with (qge k (fun e : event => e) from).
  rewrite (posincr_filter_ge k (fun e => e) _ _ from Hp). unfold kcount.
  change (filter (mt k (fun e : event => e)) (all_events (abs_visible s)))
    with (filter (matches k) (all_events (abs_visible s))).
  apply bs_skipn_clamp.
Qed.

(** ---- the subscription's view of a key is the image of the store's key events --------------------------- *)
Lemma bs_in_stream x e : Sub.ev_in_stream x (bs_sev e) = N.eqb (e_sid e) (N.of_nat x).
Proof.
  unfold Sub.ev_in_stream, bs_sev. cbn [Sub.e_sid].
  destruct (Nat.eqb_spec (N.to_nat (e_sid e)) x) as [H|H]; symmetry; [apply N.eqb_eq|apply N.eqb_neq]; lia.
Qed.

Lemma bs_filter_map {A B} (f : A -> B) (p : B -> bool) l : filter p (map f l) = map f (filter (fun x => p (f x)) l).
Proof. induction l as [|a l IH]; cbn; [reflexivity|]. destruct (p (f a)); cbn; rewrite IH; reflexivity. Qed.

Lemma bs_klog c st s k :
  Sub.sb_log st (Sub.kpid c k) = bs_plog s (Sub.kpid c k) -> bs_key_routed c s k ->
  Sub.klog c st k = map bs_sev (filter (matches (bs_key k)) (all_events (abs_visible s))).
Proof.
  intros Hlog Hr. destruct k as [p|x]; cbn [Sub.klog Sub.kpid bs_key bs_key_routed] in *.
  - rewrite Hlog. reflexivity.
  - rewrite Hlog. unfold bs_plog, br_pevents. rewrite bs_filter_map. f_equal.
    rewrite (filter_ext _ _ (bs_in_stream x)).
    apply (br_filter_filter_imp (fun e => N.eqb (e_sid e) (N.of_nat x))).
    intros e He Hs. apply N.eqb_eq in Hs. apply N.eqb_eq. apply Hr; assumption.
Qed.

(** ---- the snapshot of a history iterator is the storage scan ------------------------------------------- *)
Lemma bs_nth_skipn {A} (l : list A) n i : nth_error (skipn n l) i = nth_error l (n + i).
Proof.
  revert l; induction n as [|n IH]; intros l; [reflexivity|]. destruct l as [|a l]; cbn [skipn Nat.add nth_error].
  - destruct i; reflexivity.
  - apply IH.
Qed.

Theorem history_is_storage_scan c st s k from limit :
  Scannable s (bs_key k) -> (0 < limit)%nat ->
  Sub.sb_log st (Sub.kpid c k) = bs_plog s (Sub.kpid c k) -> bs_key_routed c s k ->
  exists batches, scan s (bs_key k) (N.of_nat from) Fwd limit = Some batches /\
    let it := Sub.mk_iter c st k from in
    (* the events between the iterator's position and the end of its snapshot *)
    Sub.slice (Sub.klog c st k) (Sub.h_pos it) (Sub.h_end it) = map bs_sev (scan_events batches) /\
    (* the i-th event the history reader takes from the iterator is the i-th event of the scan *)
    (forall i, nth_error (Sub.klog c st k) (Sub.h_pos it + i) = nth_error (map bs_sev (scan_events batches)) i).
Proof.
  intros HS Hl Hlog Hr.
  destruct (forward_exact s (bs_key k) (N.of_nat from) limit HS Hl) as (b & Hb & _).
  exists b. split; [assumption|]. cbn zeta. cbn [Sub.mk_iter Sub.h_pos Sub.h_end].
  rewrite (bs_scan_is_suffix _ _ _ _ _ HS Hl Hb), Nat2N.id, <- skipn_map, <- (bs_klog c st s k Hlog Hr).
  split.
  - unfold Sub.slice. rewrite firstn_all2; [reflexivity|]. rewrite skipn_length. lia.
  - intros i. symmetry. apply bs_nth_skipn.
Qed.

(** for every reachable store *)
Theorem run_history_is_storage_scan c st ops k from limit :
  Forall StoreSimProofs.wf_op ops -> (0 < limit)%nat ->
  Sub.sb_log st (Sub.kpid c k) = bs_plog (run ops) (Sub.kpid c k) -> bs_key_routed c (run ops) k ->
  exists batches, scan (run ops) (bs_key k) (N.of_nat from) Fwd limit = Some batches /\
    let it := Sub.mk_iter c st k from in
    Sub.slice (Sub.klog c st k) (Sub.h_pos it) (Sub.h_end it) = map bs_sev (scan_events batches) /\
    (forall i, nth_error (Sub.klog c st k) (Sub.h_pos it + i) = nth_error (map bs_sev (scan_events batches)) i).
Proof. intros W. apply history_is_storage_scan. apply run_Scannable. assumption. Qed.

(** routed histories whose routing function agrees with the subscription model's [spid]: every stream key is
    routed *)
Theorem bs_routed_key c f ops k :
  Forall StoreSimProofs.wf_op ops -> br_routed f ops ->
  (forall e, In e (all_events (abs_visible (run ops))) ->
             f (e_pk e) = N.of_nat (Sub.spid c (N.to_nat (e_sid e)))) ->
  bs_key_routed c (run ops) k.
Proof.
  intros W R Hf. destruct k as [p|x]; cbn; [exact I|].
  intros e He Hs. rewrite (br_run_routed f ops W R e He), (Hf e He), Hs, Nat2N.id. reflexivity.
Qed.

Lemma bs_in_partition_check l sid pid :
  forallb (fun e => negb (N.eqb (e_sid e) sid) || N.eqb (e_pid e) pid) (all_events l) = true ->
  br_stream_in_partition l sid pid.
Proof.
  intros H e He Hs. rewrite forallb_forall in H. specialize (H e He).
  apply N.eqb_eq in Hs. rewrite Hs in H. cbn in H. apply N.eqb_eq. assumption.
Qed.

(** non-vacuity: the example store of C03 (two sealed segments and a live one), partition 0, seen as a
    subscription log; partition history from sequence 4 and stream-7 history from version 2 *)
Definition bs_ex_ops : list op :=
  let ne id sid := mkNew id sid XAny true in
 [ OAppend (mkTxn 1 0 100 false [ne 1 7; ne 2 6; ne 3 7]%N XAny) false false;
   OAppend (mkTxn 1 0 101 true [ne 4 7]%N XAny) false false;
   OAppend (mkTxn 2 1 102 false [ne 5 9]%N XAny) false false;
   OAppend (mkTxn 1 0 103 false [ne 6 6; ne 7 7; ne 8 7]%N XAny) true false;
   OAppend (mkTxn 1 0 105 false [ne 10 7; ne 11 6]%N XAny) true false;
   OSync ].
Definition bs_ex_cfg : Sub.sbcfg := Sub.mkSbCfg 2 8 4 true.     (* streams 0..7 in partition 0, 8..15 in partition 1 *)
Definition bs_ex_state : Sub.sbstate :=
  Sub.mkSb (bs_plog (run bs_ex_ops)) (fun _ => 0%nat) (fun _ => 0%nat) false None.

Example bs_example :
  Forall StoreSimProofs.wf_op bs_ex_ops /\
  bs_key_routed bs_ex_cfg (run bs_ex_ops) (Sub.KS 7) /\
  (let it := Sub.mk_iter bs_ex_cfg bs_ex_state (Sub.KP 0) 4 in
   map Sub.e_seq (Sub.slice (Sub.klog bs_ex_cfg bs_ex_state (Sub.KP 0)) (Sub.h_pos it) (Sub.h_end it)) = [4; 5; 6; 7; 8]%nat) /\
  (let it := Sub.mk_iter bs_ex_cfg bs_ex_state (Sub.KS 7) 2 in
   map (fun e => (Sub.e_ver e, Sub.e_seq e)) (Sub.slice (Sub.klog bs_ex_cfg bs_ex_state (Sub.KS 7)) (Sub.h_pos it) (Sub.h_end it))
   = [(2, 3); (3, 5); (4, 6); (5, 7)]%nat).
Proof.
  split; [repeat constructor; cbn; try discriminate; intros H; discriminate H|].
  split.
  - apply bs_in_partition_check. vm_compute. reflexivity.
  - split; vm_compute; reflexivity.
Qed.

(** without routing the statement is false for stream keys: in [br_unrouted_ops] (BridgeReadProofs) stream 7
    has one event in partition 0 and one in partition 1; the subscription model looks the stream up in partition
    [spid c 7 = 0] and sees one event, the storage scan of the stream returns both *)
Theorem bs_unrouted_history_refuted :
  let c := Sub.mkSbCfg 2 8 4 true in
  let st := Sub.mkSb (bs_plog (run br_unrouted_ops)) (fun _ => 0%nat) (fun _ => 0%nat) false None in
  Forall StoreSimProofs.wf_op br_unrouted_ops /\
  exists batches, scan (run br_unrouted_ops) (bs_key (Sub.KS 7)) 0%N Fwd 5 = Some batches /\
    length (Sub.klog c st (Sub.KS 7)) = 1%nat /\ length (scan_events batches) = 2%nat.
Proof.
  cbn zeta. split; [exact (proj1 br_unrouted_stream_refuted)|].
  eexists. split; [vm_compute; reflexivity|]. split; vm_compute; reflexivity.
Qed.

(** ---- the store's partitions satisfy the log invariant of the subscription model ------------------------- *)
Module SubP := SV.Proofs.SubscriptionProofs.

Lemma bs_gapless_nth s k : Scannable s k -> forall i e,
  nth_error (filter (matches k) (all_events (abs_visible s))) i = Some e -> key_pos k e = N.of_nat i.
Proof.
  intros HS i e Hn. pose proof (sc_gapless _ _ HS) as G.
  set (K := filter (matches k) (all_events (abs_visible s))) in *.
  assert (Hi : (i < length K)%nat) by (apply nth_error_Some; congruence).
  pose proof (nth_error_nth _ _ e Hn) as H1.
  pose proof (map_nth (key_pos k) K e i) as H2. rewrite H1, G in H2.
  rewrite <- H2. rewrite (nth_indep _ _ (N.of_nat 0)) by (rewrite map_length, seq_length; assumption).
  rewrite map_nth, seq_nth by assumption. reflexivity.
Qed.

Theorem bs_plog_lwf c s p :
  Scannable s (KPartition (N.of_nat p)) -> (forall x, Scannable s (KStream x)) ->
  (forall e, In e (all_events (abs_visible s)) -> e_pid e = N.of_nat (Sub.spid c (N.to_nat (e_sid e)))) ->
  SubP.lwf c p (bs_plog s p).
Proof.
  intros HP HX R i se Hn. unfold bs_plog in *.
  set (pevs := br_pevents (abs_visible s) (N.of_nat p)) in *.
  rewrite nth_error_map in Hn. destruct (nth_error pevs i) as [e|] eqn:He; [|discriminate].
  injection Hn as <-.
  assert (Hin : In e pevs) by (eapply nth_error_In; eassumption).
  unfold pevs, br_pevents in Hin. apply filter_In in Hin. destruct Hin as [Hall Hp]. apply N.eqb_eq in Hp.
  cbn [bs_sev Sub.e_pid Sub.e_seq Sub.e_ver Sub.e_sid].
  split; [rewrite Hp; apply Nat2N.id|]. split.
  { rewrite (bs_gapless_nth s (KPartition (N.of_nat p)) HP i e He : e_seq e = N.of_nat i). apply Nat2N.id. }
  split; [|apply Nat2N.inj; rewrite <- (R e Hall); assumption].
  (* the version is the rank within the stream *)
  rewrite firstn_map, bs_filter_map, map_length.
  rewrite (filter_ext _ _ (bs_in_stream (N.to_nat (e_sid e)))). rewrite N2Nat.id.
  set (x := e_sid e).
  destruct (nth_error_split _ _ He) as (l1 & l2 & Hsplit & Hl1).
  assert (Hf : firstn i pevs = l1).
  { rewrite Hsplit, <- Hl1. rewrite firstn_app, Nat.sub_diag, firstn_all. cbn. apply app_nil_r. }
  rewrite Hf.
  assert (Hsx : filter (matches (KStream x)) (all_events (abs_visible s))
                = filter (fun e' => N.eqb (e_sid e') x) l1 ++ e :: filter (fun e' => N.eqb (e_sid e') x) l2).
  { change (matches (KStream x)) with (fun e' => N.eqb (e_sid e') x).
    rewrite <- (br_filter_filter_imp (fun e' => N.eqb (e_sid e') x) (fun e' => N.eqb (e_pid e') (N.of_nat p))).
    - fold (br_pevents (abs_visible s) (N.of_nat p)). fold pevs. rewrite Hsplit, filter_app. cbn [filter].
      unfold x at 2. rewrite N.eqb_refl. reflexivity.
    - intros e' He' Hx. apply N.eqb_eq in Hx. apply N.eqb_eq. rewrite (R e' He'), Hx. unfold x.
      rewrite <- (R e Hall). assumption. }
  assert (Hnth : nth_error (filter (matches (KStream x)) (all_events (abs_visible s)))
                   (length (filter (fun e' => N.eqb (e_sid e') x) l1)) = Some e).
  { rewrite Hsx, nth_error_app2, Nat.sub_diag by lia. reflexivity. }
  rewrite (bs_gapless_nth s (KStream x) (HX x) _ e Hnth : e_ver e = _). apply Nat2N.id.
Qed.

Theorem run_bs_plog_lwf c ops p :
  Forall StoreSimProofs.wf_op ops ->
  (forall e, In e (all_events (abs_visible (run ops))) -> e_pid e = N.of_nat (Sub.spid c (N.to_nat (e_sid e)))) ->
  SubP.lwf c p (bs_plog (run ops) p).
Proof. intros W. apply bs_plog_lwf; intros; apply run_Scannable; assumption. Qed.
