(** C03, part C1: positions of the key's events are consecutive; what that gives for
    [clamp_sub]/[offsets_index] and the filters [from <= pos], [pos <= from]. *)
From Coq Require Import NArith List Bool Lia Arith.
From SV Require Import Model.StoreIter Proofs.ScanRecs Proofs.ScanSeg.
Import ListNotations.
Open Scope N_scope.

Section Pos.
Variable k : skey.
Context {A : Type} (ev : A -> event).

Definition mt (x : A) : bool := matches k (ev x).

(* walking the list, the key's events carry positions c, c+1, ... *)
Fixpoint posincr (c : N) (l : list A) : Prop :=
  match l with
  | [] => True
  | x :: r => if mt x then key_pos k (ev x) = c /\ posincr (c + 1) r else posincr c r
  end.

Definition kcount (l : list A) : nat := length (filter mt l).

Lemma kcount_app a b : kcount (a ++ b) = (kcount a + kcount b)%nat.
Proof. unfold kcount. rewrite filter_app, app_length. reflexivity. Qed.

Lemma posincr_app : forall a c b,
  posincr c (a ++ b) <-> posincr c a /\ posincr (c + N.of_nat (kcount a)) b.
Proof.
  induction a as [|x a IH]; intros c b; cbn [app posincr].
  - unfold kcount. cbn. rewrite N.add_0_r. tauto.
  - unfold kcount in *. cbn [filter]. destruct (mt x); cbn [length].
    + rewrite IH. replace (c + 1 + N.of_nat (length (filter mt a))) with (c + N.of_nat (S (length (filter mt a)))) by lia. tauto.
    + apply IH.
Qed.

Lemma posincr_bounds : forall l c x, posincr c l -> In x l -> mt x = true ->
  c <= key_pos k (ev x) /\ key_pos k (ev x) < c + N.of_nat (kcount l).
Proof.
  induction l as [|y l IH]; intros c x Hp Hin Hm; [contradiction|].
  cbn in Hp. unfold kcount in *. cbn [filter]. destruct Hin as [->|Hin].
  - rewrite Hm in *. destruct Hp as [Hp _]. cbn [length]. lia.
  - destruct (mt y); cbn [length].
    + destruct Hp as [_ Hp]. specialize (IH _ _ Hp Hin Hm). lia.
    + apply IH; auto.
Qed.

Definition qge (p : N) (x : A) : bool := mt x && (p <=? key_pos k (ev x)).
Definition qle (p : N) (x : A) : bool := mt x && (key_pos k (ev x) <=? p).

Lemma clamp_sub_0 p c n : p <= c -> clamp_sub p c n = 0%nat.
Proof.
  intros H. unfold clamp_sub. replace (p - c) with 0 by lia.
  destruct (N.leb_spec (N.of_nat n) 0); [lia|reflexivity].
Qed.

Lemma clamp_sub_S p c n : c < p -> clamp_sub p c (S n) = S (clamp_sub p (c + 1) n).
Proof.
  intros H. unfold clamp_sub.
  destruct (N.leb_spec (N.of_nat (S n)) (p - c)); destruct (N.leb_spec (N.of_nat n) (p - (c + 1))); lia.
Qed.

Lemma clamp_sub_le p c n : (clamp_sub p c n <= n)%nat.
Proof. unfold clamp_sub. destruct (N.leb_spec (N.of_nat n) (p - c)); lia. Qed.

Lemma clamp_sub_spec p c n : c <= p -> N.of_nat (clamp_sub p c n) = N.min (p - c) (N.of_nat n).
Proof. intros H. unfold clamp_sub. destruct (N.leb_spec (N.of_nat n) (p - c)); lia. Qed.

Lemma posincr_filter_ge : forall l c p, posincr c l ->
  filter (qge p) l = skipn (clamp_sub p c (kcount l)) (filter mt l).
Proof.
  induction l as [|x l IH]; intros c p Hp.
  - cbn. rewrite skipn_nil. reflexivity.
  - cbn [posincr] in Hp. unfold kcount in *. cbn [filter]. unfold qge at 1. destruct (mt x) eqn:Hm; cbn [andb length].
    + destruct Hp as [Hx Hp]. rewrite Hx. destruct (N.leb_spec p c) as [Hle|Hgt].
      * rewrite clamp_sub_0 by assumption. cbn [skipn]. f_equal.
        rewrite (IH _ p Hp). rewrite clamp_sub_0 by lia. reflexivity.
      * rewrite clamp_sub_S by assumption. cbn [skipn]. apply IH. assumption.
    + apply IH. assumption.
Qed.

Lemma posincr_ge_all : forall l c p, posincr c l -> p <= c -> filter (qge p) l = filter mt l.
Proof.
  intros l c p Hp Hle. rewrite (posincr_filter_ge _ _ _ Hp), clamp_sub_0 by assumption. reflexivity.
Qed.

Lemma posincr_ge_none : forall l c p, posincr c l -> c + N.of_nat (kcount l) <= p -> filter (qge p) l = [].
Proof.
  intros l c p Hp Hle. rewrite (posincr_filter_ge _ _ _ Hp).
  apply skipn_all2. fold (kcount l). unfold clamp_sub.
  destruct (N.leb_spec (N.of_nat (kcount l)) (p - c)); lia.
Qed.

(* number of key events with position <= p among c, c+1, .., c+n-1 *)
Definition count_le (p c : N) (n : nat) : nat :=
  if p <? c then 0%nat else if N.of_nat n <=? p - c then n else S (N.to_nat (p - c)).

Lemma posincr_filter_le : forall l c p, posincr c l ->
  filter (qle p) l = firstn (count_le p c (kcount l)) (filter mt l).
Proof.
  induction l as [|x l IH]; intros c p Hp.
  - cbn. rewrite firstn_nil. reflexivity.
  - cbn [posincr] in Hp. unfold kcount in *. cbn [filter]. unfold qle at 1. destruct (mt x) eqn:Hm; cbn [andb length].
    + destruct Hp as [Hx Hp]. rewrite Hx. rewrite (IH _ p Hp). unfold count_le.
      destruct (N.leb_spec c p) as [Hle|Hgt].
      * destruct (N.ltb_spec p c); [lia|].
        destruct (N.leb_spec (N.of_nat (S (length (filter mt l)))) (p - c)).
        -- destruct (N.ltb_spec p (c + 1)); [lia|].
           destruct (N.leb_spec (N.of_nat (length (filter mt l))) (p - (c + 1))); [|lia]. reflexivity.
        -- destruct (N.ltb_spec p (c + 1)).
           ++ replace (p - c) with 0 by lia. reflexivity.
           ++ destruct (N.leb_spec (N.of_nat (length (filter mt l))) (p - (c + 1))); [lia|].
              replace (N.to_nat (p - c)) with (S (N.to_nat (p - (c + 1)))) by lia. reflexivity.
      * destruct (N.ltb_spec p c); [|lia]. destruct (N.ltb_spec p (c + 1)); [|lia]. reflexivity.
    + apply IH. assumption.
Qed.

Lemma posincr_last : forall l c x r, posincr c l -> rev (filter mt l) = x :: r ->
  key_pos k (ev x) + 1 = c + N.of_nat (kcount l).
Proof.
  intros l c x r Hp Hr.
  assert (Hin : In x (filter mt l)) by (apply in_rev; rewrite Hr; left; reflexivity).
  apply filter_In in Hin. destruct Hin as [Hin Hm].
  (* split l at the last key event *)
  assert (Hsplit : exists a b, l = a ++ x :: b /\ filter mt b = []).
  { clear Hp Hin Hm. revert x r Hr. induction l as [|y l IH]; intros x r Hr; [discriminate|].
    cbn [filter] in Hr. destruct (mt y) eqn:Hy.
    - cbn [rev] in Hr. destruct (rev (filter mt l)) as [|z r'] eqn:Hrl.
      + cbn in Hr. inversion Hr; subst. exists [], l. split; [reflexivity|].
        rewrite <- (rev_involutive (filter mt l)), Hrl. reflexivity.
      + cbn in Hr. inversion Hr; subst. destruct (IH _ _ eq_refl) as (a & b & -> & Hb).
        exists (y :: a), b. split; [reflexivity|assumption].
    - destruct (IH _ _ Hr) as (a & b & -> & Hb). exists (y :: a), b. split; [reflexivity|assumption]. }
  destruct Hsplit as (a & b & -> & Hb).
  apply posincr_app in Hp. destruct Hp as [_ Hp]. cbn [posincr] in Hp. rewrite Hm in Hp. destruct Hp as [Hx _].
  rewrite kcount_app. unfold kcount at 2. cbn [filter]. rewrite Hm, Hb. cbn [length]. lia.
Qed.
End Pos.

(** ** consequences used by the iterator proofs *)
Lemma posincr_map k {A} (ev : A -> event) c l :
  posincr k ev c l <-> posincr k (fun e => e) c (map ev l).
Proof.
  revert c; induction l as [|x l IH]; intros c; cbn; [tauto|]. unfold mt.
  destruct (matches k (ev x)); rewrite IH; tauto.
Qed.

Lemma seq_posincr k : forall es c n,
  map (key_pos k) (filter (matches k) es) = map N.of_nat (seq c n) ->
  posincr k (fun e => e) (N.of_nat c) es.
Proof.
  induction es as [|e es IH]; intros c n H; [exact I|].
  cbn [filter posincr] in *. unfold mt. destruct (matches k e).
  - destruct n as [|n]; [discriminate|]. cbn in H. inversion H as [[H1 H2]]. split; [reflexivity|].
    rewrite H1. replace (N.of_nat c + 1) with (N.of_nat (S c)) by lia. eapply IH; eauto.
  - eapply IH; eauto.
Qed.

Lemma posincr_first k {A} (ev : A -> event) : forall l c x r,
  posincr k ev c l -> filter (mt k ev) l = x :: r -> key_pos k (ev x) = c.
Proof.
  induction l as [|y l IH]; intros c x r Hp Hf; [discriminate|].
  cbn in Hp, Hf. destruct (mt k ev y).
  - inversion Hf; subst. tauto.
  - eapply IH; eauto.
Qed.

Lemma posincr_upclosed k c l p : posincr k snd c l -> upclosed k (qge k snd p) l.
Proof.
  intros Hp. split.
  - intros x _ Hq. unfold qge in Hq. apply andb_prop in Hq. tauto.
  - intros pre x post -> Hq y Hy Hmy. apply posincr_app in Hp. destruct Hp as [_ Hp].
    unfold qge in *. apply andb_prop in Hq. destruct Hq as [Hmx Hpx]. cbn [posincr] in Hp. rewrite Hmx in Hp.
    destruct Hp as [Hx Hp]. destruct (posincr_bounds k snd _ _ _ Hp Hy Hmy) as [Hb _].
    unfold mt, kmatch in *. rewrite Hmy. cbn. apply N.leb_le. apply N.leb_le in Hpx. lia.
Qed.

Lemma fold_min_first l : forall d, (forall x, In x l -> d <= x) -> fold_min l d = d.
Proof.
  unfold fold_min. induction l as [|x l IH]; intros d H; [reflexivity|]. cbn.
  rewrite N.min_l by (apply H; left; reflexivity). apply IH. intros y Hy. apply H. right. assumption.
Qed.

(** ** the per-key-event suffix list [KSP] of a layout *)
Section KSPfacts.
Variable k : skey.

Lemma ksufp_posincr : forall es c, posincr k (fun e => e) c es -> posincr k fst c (ksufp k es).
Proof.
  induction es as [|e es IH]; intros c H; [exact I|]. cbn in *. unfold mt in *.
  destruct (matches k e) eqn:Hm; cbn.
  - unfold mt. cbn. rewrite Hm. destruct H. split; auto.
  - auto.
Qed.

Lemma ksufp_count es : kcount k fst (ksufp k es) = kcount k (fun e => e) es.
Proof.
  unfold kcount. induction es as [|e es IH]; [reflexivity|]. cbn. unfold mt at 2.
  destruct (matches k e) eqn:Hm; cbn; [unfold mt at 1; cbn; rewrite Hm; cbn|]; rewrite IH; reflexivity.
Qed.

Lemma ksufp_all es : Forall (fun x => mt k fst x = true) (ksufp k es).
Proof.
  induction es as [|e es IH]; [constructor|]. cbn. destruct (matches k e) eqn:Hm; cbn; [constructor|]; auto.
Qed.

Lemma ksufp_in es x : In x (ksufp k es) ->
  In (fst x) es /\ matches k (fst x) = true /\ forall e, In e (snd x) -> In e es /\ matches k e = true.
Proof.
  induction es as [|e0 es IH]; [contradiction|]. cbn. intros H. apply in_app_or in H. destruct H as [H|H].
  - destruct (matches k e0) eqn:Hm; [|contradiction]. destruct H as [<-|[]]. cbn. repeat split; auto.
    + right. apply filter_In in H. tauto.
    + apply filter_In in H. tauto.
  - destruct (IH H) as (H1 & H2 & H3). repeat split; auto. right. apply H3. assumption. apply H3. assumption.
Qed.

Lemma KSP_posincr : forall X c, posincr k snd c (lay_events X) ->
  posincr k fst c (KSP k X) /\ kcount k fst (KSP k X) = kcount k snd (lay_events X).
Proof.
  unfold KSP, lay_events. induction X as [|g X IH]; intros c H; [split; [exact I|reflexivity]|].
  cbn [map concat] in *. apply posincr_app in H. destruct H as [H1 H2].
  apply (posincr_map k snd) in H1.
  assert (Hc : kcount k fst (ksufp k (map snd (fst g))) = kcount k snd (fst g)).
  { rewrite ksufp_count. unfold kcount. clear. induction (fst g) as [|x l IH]; [reflexivity|]. cbn. unfold mt in *.
    destruct (matches k (snd x)); cbn; rewrite IH; reflexivity. }
  destruct (IH _ H2) as [IH1 IH2]. split.
  - apply posincr_app. split; [apply ksufp_posincr; assumption|]. rewrite Hc. exact IH1.
  - rewrite !kcount_app, Hc, IH2. reflexivity.
Qed.

Lemma KSP_all X : Forall (fun x => mt k fst x = true) (KSP k X).
Proof.
  unfold KSP. induction X as [|g X IH]; [constructor|]. cbn. apply Forall_app. split; [apply ksufp_all|exact IH].
Qed.

Lemma KSP_in X x : In x (KSP k X) -> forall e, In e (ucons x) ->
  exists oe, In oe (lay_events X) /\ snd oe = e /\ kmatch k oe = true.
Proof.
  unfold KSP, lay_events. intros H e He. apply in_concat in H. destruct H as (l & Hl & Hx).
  apply in_map_iff in Hl. destruct Hl as (g & <- & Hg). destruct (ksufp_in _ _ Hx) as (H1 & H2 & H3).
  assert (Hin : In e (map snd (fst g)) /\ matches k e = true).
  { destruct He as [<-|He]; [split; assumption|apply H3; assumption]. }
  destruct Hin as [Hin Hm]. apply in_map_iff in Hin. destruct Hin as (oe & <- & Hoe).
  exists oe. repeat split; auto. apply in_concat. exists (fst g). split; [apply in_map; assumption|assumption].
Qed.

Lemma filter_all {A} (p : A -> bool) l : Forall (fun x => p x = true) l -> filter p l = l.
Proof. induction 1 as [|x l Hx _ IH]; [reflexivity|]. cbn. rewrite Hx, IH. reflexivity. Qed.
End KSPfacts.
