(** C10/C11 proofs, part 2: the log-extension relation [lext] and what the replicator's handlers do to a log. *)
From Coq Require Import NArith List Bool Lia.
From SV Require Import Model.Replication.
From SV Require Import Proofs.ReplLog.
Import ListNotations.
Open Scope N_scope.

Lemma ent_eq a b : same_ent a b -> en_cnt a = en_cnt b -> a = b.
Proof. destruct a, b. unfold same_ent. cbn. intros (-> & -> & -> & ->) ->. reflexivity. Qed.
Lemma ent_eq_set a b c : same_ent a b -> en_cnt b = c -> b = ent_setcnt a c.
Proof. destruct a, b. unfold same_ent, ent_setcnt. cbn. intros (-> & -> & -> & ->) ->. reflexivity. Qed.

Section Ext.
  Variables (PA : ent -> Prop) (PS : N -> N -> Prop).
  Inductive lext : log -> log -> Prop :=
  | lext_refl l : lext l l
  | lext_app l l' e : lext l l' -> PA e -> en_first e = log_next l' -> 1 <= en_nev e -> lext l (e :: l')
  | lext_set l l' T c : lext l l' -> PS T c -> lext l (db_setcnt l' T c).

  Lemma lext_trans l1 l2 l3 : lext l1 l2 -> lext l2 l3 -> lext l1 l3.
  Proof. intros H1 H2. induction H2; auto; [eapply lext_app|eapply lext_set]; eauto. Qed.

  Lemma lext_chain l l' : chain l -> lext l l' -> chain l'.
  Proof. intros Hc H. induction H; auto. - cbn [chain]. auto. - apply chain_setcnt. auto. Qed.

  Lemma lext_holds l l' T : lext l l' -> holds_whole l T = true -> holds_whole l' T = true.
  Proof.
    intros H. induction H; intros Hh; auto.
    - specialize (IHlext Hh). cbn [holds_whole existsb]. unfold holds_whole in IHlext. rewrite IHlext. apply orb_true_r.
    - specialize (IHlext Hh). apply holds_whole_spec in IHlext. destruct IHlext as (e & He & Hi).
      destruct (setcnt_in_old l' T0 c e He) as (e' & A & B & _). apply holds_whole_spec. exists e'. split; auto.
      rewrite <- (same_ent_is e e' T B). exact Hi.
  Qed.

  Lemma lext_keeps q l l' : (forall T c, PS T c -> q <= c) -> lext l l' -> keeps q l l'.
  Proof.
    intros HS H. induction H.
    - apply keeps_refl.
    - eapply keeps_trans; [exact IHlext|apply keeps_cons].
    - eapply keeps_trans; [exact IHlext|apply keeps_setcnt; eauto].
  Qed.

  Lemma lext_forall (Good : ent -> Prop) l l' :
    (forall e, PA e -> Good e) ->
    (forall e T c, PS T c -> Good e -> ent_is T e = true -> Good (ent_setcnt e c)) ->
    lext l l' -> Forall Good l -> Forall Good l'.
  Proof.
    intros HA HS H. induction H; intros HG.
    - exact HG.
    - constructor; auto.
    - specialize (IHlext HG). rewrite Forall_forall in *. intros e' He'.
      destruct (setcnt_in_new l' T c e' He') as (e & A & B & [C|[C D]]).
      + rewrite <- (ent_eq e e' B (eq_sym C)). auto.
      + rewrite (ent_eq_set e e' c B D). eapply HS; eauto.
  Qed.
End Ext.

Lemma lext_mono (PA PA' : ent -> Prop) (PS PS' : N -> N -> Prop) l l' :
  (forall e, PA e -> PA' e) -> (forall T c, PS T c -> PS' T c) -> lext PA PS l l' -> lext PA' PS' l l'.
Proof. intros HA HS H. induction H; [apply lext_refl|eapply lext_app|eapply lext_set]; eauto. Qed.

(* ------------------------------------------------------------------ the replicator *)
Section Repl.
  Variables (self : node) (orc : oracle) (P : bwrite -> Prop).
  Hypothesis P_merge : forall ex v, P ex -> P (bw_merge ex v).
  Definition BufP (rp : repl) : Prop := forall w, In w (rp_buf rp) -> P w.

  (* answers only, from this node, and an Ok only for a transaction the log holds whole *)
  Definition ans_ok (l : log) (m : msg) : Prop :=
    match m with
    | MRepAns r _ _ T res => r = self /\ (forall f, res = AOk f -> holds_whole l T = true)
    | _ => False
    end.
  Definition outs_ok (l : log) (outs : list msg) : Prop := forall m, In m outs -> ans_ok l m.

  Lemma outs_ok_app l a b : outs_ok l a -> outs_ok l b -> outs_ok l (a ++ b).
  Proof. intros Ha Hb m Hm. apply in_app_or in Hm. destruct Hm; auto. Qed.
  Lemma outs_ok_nil l : outs_ok l []. Proof. intros m []. Qed.
  Lemma ans_all_err l w e : outs_ok l (ans_all self w (AErr e)).
  Proof.
    intros m Hm. unfold ans_all in Hm. apply in_map_iff in Hm. destruct Hm as (rid & <- & _). cbn. split; auto. intros f Hf. discriminate.
  Qed.
  Lemma ans_all_ok l w f : holds_whole l (bw_tx w) = true -> outs_ok l (ans_all self w (AOk f)).
  Proof.
    intros Hh m Hm. unfold ans_all in Hm. apply in_map_iff in Hm. destruct Hm as (rid & <- & _). cbn. split; auto.
  Qed.
  Lemma stale_outs_ok l st : outs_ok l (flat_map (fun w => ans_all self w (AErr WStale)) st).
  Proof. intros m Hm. apply in_flat_map in Hm. destruct Hm as (w & _ & Hm). eapply ans_all_err; eauto. Qed.
  Lemma outs_ok_mono PA PS l l' outs : lext PA PS l l' -> outs_ok l outs -> outs_ok l' outs.
  Proof.
    intros He Ho m Hm. specialize (Ho m Hm). destruct m; cbn in *; auto. destruct Ho as (-> & Ho). split; auto.
    intros f Hf. eapply lext_holds; eauto.
  Qed.

  (* buffer primitives keep P *)
  Lemma b_find_in : forall b k w, b_find k b = Some w -> In w b /\ bw_key w = k.
  Proof.
    induction b as [|a t IH]; intros k w H; [discriminate|]. cbn in H.
    destruct (bw_key a =? k) eqn:E; [inversion H; subst; split; [left; auto|apply N.eqb_eq; auto]|].
    destruct (IH k w H). split; [right|]; auto.
  Qed.
  Lemma b_remove_incl : forall b k w, In w (b_remove k b) -> In w b.
  Proof.
    induction b as [|a t IH]; intros k w H; [destruct H|]. cbn in H.
    destruct (bw_key a =? k); [right; auto|]. destruct H as [<-|H]; [left; auto|right; eauto].
  Qed.
  Lemma b_put_in : forall b v w, In w (b_put v b) -> w = v \/ In w b.
  Proof.
    induction b as [|a t IH]; intros v w H; cbn in H.
    - destruct H as [<-|[]]. auto.
    - destruct (bw_key v <? bw_key a).
      + destruct H as [<-|H]; auto.
      + destruct H as [<-|H]; [right; left; auto|]. destruct (IH v w H); auto. right. right. auto.
  Qed.
  Lemma b_set_in : forall b v w, In w (b_set v b) -> w = v \/ In w b.
  Proof.
    induction b as [|a t IH]; intros v w H; cbn in H; [destruct H|].
    destruct (bw_key a =? bw_key v).
    - destruct H as [<-|H]; auto. right. right. auto.
    - destruct H as [<-|H]; [right; left; auto|]. destruct (IH v w H); auto. right. right. auto.
  Qed.
  Lemma removelast_incl {A} : forall (l : list A) x, In x (removelast l) -> In x l.
  Proof.
    induction l as [|a t IH]; intros x H; [destruct H|]. cbn in H. destruct t; [destruct H|].
    destruct H as [<-|H]; [left; auto|right; auto].
  Qed.

  Lemma rp_insert_spec rp w rp' res : rp_insert rp w = (rp', res) -> P w -> BufP rp ->
    BufP rp' /\ (forall w1, res = IReady w1 -> P w1) /\ (forall lw, res = IBuffered (Some lw) -> P lw).
  Proof.
    unfold rp_insert. intros H Pw HB.
    destruct (bw_key w =? rp_next rp).
    - destruct (b_find (bw_key w) (rp_buf rp)) as [ex|] eqn:F.
      + destruct (b_find_in _ _ _ F) as (Hin & _).
        destruct (bw_tx w =? bw_tx ex); inversion H; subst; (split; [|split]); try (intros ? Hd; inversion Hd; subst); auto.
        intros v Hv. cbn in Hv. apply b_remove_incl in Hv. auto.
      + inversion H; subst. (split; [|split]); auto; intros ? Hd; inversion Hd; subst; auto.
    - destruct (bw_key w <? rp_next rp); [inversion H; subst; (split; [|split]); auto; intros ? Hd; inversion Hd|].
      destruct (b_find (bw_key w) (rp_buf rp)) as [ex|] eqn:F.
      + destruct (b_find_in _ _ _ F) as (Hin & _).
        destruct (bw_tx w =? bw_tx ex); inversion H; subst; (split; [|split]); try (intros ? Hd; inversion Hd; subst); auto.
        intros v Hv. cbn in Hv. destruct (b_set_in _ _ _ Hv) as [->|]; auto.
      + destruct (rp_limit rp <=? N.of_nat (length (rp_buf rp))).
        * destruct (rev (rp_buf rp)) as [|lw r] eqn:R; [inversion H; subst; (split; [|split]); auto; intros ? Hd; inversion Hd|].
          assert (Hlw : In lw (rp_buf rp)). { apply in_rev. rewrite R. left. auto. }
          destruct (bw_key w <? bw_key lw); inversion H; subst; (split; [|split]); try (intros ? Hd; inversion Hd; subst); auto.
          intros v Hv. cbn in Hv. destruct (b_put_in _ _ _ Hv) as [->|Hv']; auto. apply removelast_incl in Hv'. auto.
        * inversion H; subst. (split; [|split]); try (intros ? Hd; inversion Hd; subst); auto.
          intros v Hv. cbn in Hv. destruct (b_put_in _ _ _ Hv) as [->|]; auto.
  Qed.

  Lemma rp_pop_spec rp rp' w : rp_pop rp = (rp', w) -> BufP rp -> BufP rp' /\ (forall w0, w = Some w0 -> P w0).
  Proof.
    unfold rp_pop. intros H HB. destruct (b_find (rp_next rp) (rp_buf rp)) as [v|] eqn:F; inversion H; subst.
    - destruct (b_find_in _ _ _ F). split; [intros x Hx; cbn in Hx; apply b_remove_incl in Hx; auto|]. intros w0 Hw. inversion Hw; subst; auto.
    - split; auto. intros w0 Hw. discriminate.
  Qed.

  Lemma rp_progress_spec rp n rp' st : rp_progress rp n = (rp', st) -> BufP rp -> BufP rp'.
  Proof.
    unfold rp_progress. intros H HB. inversion H; subst. intros w Hw. cbn in Hw. apply filter_In in Hw. destruct Hw. auto.
  Qed.

  Lemma rp_write_spec cu rp l ex T k off c rp' l' err outs :
    rp_write self orc cu rp l ex T k off c = (rp', l', err, outs) -> BufP rp -> chain l ->
    BufP rp' /\ outs_ok l' outs /\
    ((err = None /\ l' = mk_ent T (log_next l) k off c :: l /\ 1 <= k /\ exp_ok ex l = true)
     \/ (err <> None /\ l' = l /\ outs = [])).
  Proof.
    unfold rp_write. intros H HB Hc.
    destruct (db_append l ex (orc cu l T) T k off c) as [l1|] eqn:A.
    - destruct (rp_progress rp (log_next l1)) as [rp1 st] eqn:Pg. inversion H; subst.
      destruct (chain_append _ _ _ _ _ _ _ _ Hc A) as (-> & _ & Hk & He & _).
      split; [eapply rp_progress_spec; eauto|]. split; [apply stale_outs_ok|]. left. auto.
    - inversion H; subst. split; auto. split; [apply outs_ok_nil|]. right. split; [discriminate|auto].
  Qed.

  Definition PAw (e : ent) : Prop := exists w, P w /\ e = mk_ent (bw_tx w) (bw_key w) (bw_nev w) 0 (bw_cnt w).

  Lemma holds_whole_cons_is e l T : ent_is T e = true -> holds_whole (e :: l) T = true.
  Proof. intros H. cbn [holds_whole existsb]. rewrite H. reflexivity. Qed.

  Lemma rp_write_buffered_spec PS rp l w rp' l' err outs :
    rp_write_buffered self orc rp l w = (rp', l', err, outs) -> BufP rp -> P w -> chain l ->
    BufP rp' /\ outs_ok l' outs /\ lext PAw PS l l' /\ chain l'.
  Proof.
    unfold rp_write_buffered. intros H HB Pw Hc.
    destruct (rp_write self orc false rp l (Some (bw_key w)) (bw_tx w) (bw_nev w) 0 (bw_cnt w)) as [[[rp1 l1] e1] o1] eqn:W.
    inversion H; subst. destruct (rp_write_spec _ _ _ _ _ _ _ _ _ _ _ _ W HB Hc) as (HB' & Ho & [(-> & -> & Hk & He)|(Hne & -> & ->)]).
    - cbn [exp_ok] in He. apply N.eqb_eq in He.
      split; auto. split; [|split].
      + apply outs_ok_app; auto. apply ans_all_ok. apply holds_whole_cons_is. unfold ent_is. cbn. rewrite !N.eqb_refl. reflexivity.
      + eapply lext_app; [apply lext_refl| |cbn; reflexivity|cbn; exact Hk]. exists w. split; auto. rewrite He. reflexivity.
      + cbn [chain en_first en_nev]. auto.
    - split; auto. split; [|split; [apply lext_refl|auto]].
      cbn [app]. destruct err as [e|]; [apply ans_all_err|congruence].
  Qed.

  Lemma rp_drain_spec PS : forall fuel rp l w rp' l' outs,
    rp_drain fuel self orc rp l w = (rp', l', outs) -> BufP rp -> (forall w0, w = Some w0 -> P w0) -> chain l ->
    BufP rp' /\ outs_ok l' outs /\ lext PAw PS l l' /\ chain l'.
  Proof.
    induction fuel as [|f IH]; intros rp l w rp' l' outs H HB Pw Hc.
    - destruct w; cbn in H; inversion H; subst; (split; [auto|split; [apply outs_ok_nil|split; [apply lext_refl|auto]]]).
    - destruct w as [w|]; cbn [rp_drain] in H; [|inversion H; subst; (split; [auto|split; [apply outs_ok_nil|split; [apply lext_refl|auto]]])].
      destruct (rp_write_buffered self orc rp l w) as [[[rp1 l1] e1] o1] eqn:W.
      destruct (rp_write_buffered_spec PS _ _ _ _ _ _ _ W HB (Pw w eq_refl) Hc) as (HB1 & Ho1 & He1 & Hc1).
      destruct e1 as [e|]; [inversion H; subst; auto|].
      destruct (rp_pop rp1) as [rp2 w2] eqn:Pp. destruct (rp_pop_spec _ _ _ Pp HB1) as (HB2 & Pw2).
      destruct (rp_drain f self orc rp2 l1 w2) as [[rp3 l3] o3] eqn:D. inversion H; subst.
      destruct (IH _ _ _ _ _ _ D HB2 Pw2 Hc1) as (HB3 & Ho3 & He3 & Hc3).
      split; auto. split; [|split; [eapply lext_trans; eauto|auto]].
      apply outs_ok_app; auto. eapply outs_ok_mono; eauto.
  Qed.

  Lemma rp_deliver_spec PS rp l w rp' l' outs :
    rp_deliver self orc rp l w = (rp', l', outs) -> BufP rp -> P w -> chain l ->
    BufP rp' /\ outs_ok l' outs /\ lext PAw PS l l' /\ chain l'.
  Proof.
    unfold rp_deliver. intros H HB Pw Hc.
    destruct (rp_insert rp w) as [rp1 res] eqn:I. destruct (rp_insert_spec _ _ _ _ I Pw HB) as (HB1 & Hr & Hev).
    destruct res as [w1|ev|e].
    - eapply rp_drain_spec; eauto. intros w0 Hw. inversion Hw; subst. auto.
    - destruct (rp_pop rp1) as [rp2 w2] eqn:Pp. destruct (rp_pop_spec _ _ _ Pp HB1) as (HB2 & Pw2).
      destruct (rp_drain (rp_fuel rp2) self orc rp2 l w2) as [[rp3 l3] o3] eqn:D. inversion H; subst.
      destruct (rp_drain_spec PS _ _ _ _ _ _ _ D HB2 Pw2 Hc) as (HB3 & Ho3 & He3 & Hc3).
      split; auto. split; auto. apply outs_ok_app; auto. destruct ev; [apply ans_all_err|apply outs_ok_nil].
    - inversion H; subst. split; auto. split; [apply ans_all_err|]. split; [apply lext_refl|auto].
  Qed.

  Lemma rp_tick_spec rp rp' outs : rp_tick self rp = (rp', outs) -> BufP rp ->
    BufP rp' /\ (forall m, In m outs -> exists c from to, m = MSyncReq self c from to).
  Proof.
    unfold rp_tick. intros H HB. destruct (rp_buf rp) as [|w t] eqn:B.
    - inversion H; subst. split; auto. intros m [].
    - destruct ((rp_next rp <? bw_key w) && negb (rp_catching rp)); inversion H; subst.
      + split; [intros x Hx; apply HB; cbn in Hx; exact Hx|]. intros m [<-|[]]. eauto.
      + split; auto. intros m [].
  Qed.

  (* catch-up, repaired: the commits are appended as they are *)
  Definition PAc (cs : list ent) (e : ent) : Prop := In e cs.

  Lemma mk_ent_eta e : mk_ent (en_tx e) (en_first e) (en_nev e) (en_off e) (en_cnt e) = e.
  Proof. destruct e; reflexivity. Qed.

  Lemma rp_apply_commits_spec PS : forall cs0 cs rp l rp' l' b outs,
    rp_apply_commits true self orc rp l cs = (rp', l', b, outs) -> (forall e, In e cs -> In e cs0) -> BufP rp -> chain l ->
    BufP rp' /\ outs_ok l' outs /\ lext (PAc cs0) PS l l' /\ chain l'.
  Proof.
    intros cs0. induction cs as [|e t IH]; intros rp l rp' l' b outs H Hin HB Hc; cbn [rp_apply_commits] in H.
    - inversion H; subst. split; auto. split; [apply outs_ok_nil|split; [apply lext_refl|auto]].
    - destruct (rp_write self orc true rp l (Some (en_first e)) (en_tx e) (en_nev e) (en_off e) (en_cnt e)) as [[[rp1 l1] e1] o1] eqn:W.
      destruct (rp_write_spec _ _ _ _ _ _ _ _ _ _ _ _ W HB Hc) as (HB1 & Ho1 & [(-> & -> & Hk & He)|(Hne & -> & ->)]).
      + cbn [exp_ok] in He. apply N.eqb_eq in He. rewrite <- He, mk_ent_eta in *.
        assert (Hc1 : chain (e :: l)). { cbn [chain]. auto. }
        assert (He1 : lext (PAc cs0) PS l (e :: l)). { eapply lext_app; [apply lext_refl| | |]; auto. apply Hin. left; auto. }
        destruct (rp_apply_commits true self orc rp1 (e :: l) t) as [[[rp2 l2] b2] o2] eqn:R. inversion H; subst.
        destruct (IH _ _ _ _ _ _ R (fun x Hx => Hin x (or_intror Hx)) HB1 Hc1) as (HB2 & Ho2 & He2 & Hc2).
        split; auto. split; [|split; [eapply lext_trans; eauto|auto]].
        apply outs_ok_app; auto. eapply outs_ok_mono; eauto.
      + destruct e1; [|congruence]. inversion H; subst. split; auto. split; [apply outs_ok_nil|split; [apply lext_refl|auto]].
  Qed.

  Lemma BufP_catching rp c : BufP rp -> BufP (rp_with_catching rp c).
  Proof. intros H w Hw. apply H. exact Hw. Qed.

  Lemma rp_sync_spec PS rp l cs rp' l' outs :
    rp_sync true self orc rp l cs = (rp', l', outs) -> BufP rp -> chain l ->
    BufP rp' /\ outs_ok l' outs /\
    lext (fun e => PAw e \/ match cs with Some cs => In e cs | None => False end) PS l l' /\ chain l'.
  Proof.
    unfold rp_sync. intros H HB Hc. destruct cs as [cs|].
    - destruct (rp_apply_commits true self orc (rp_with_catching rp false) l cs) as [[[rp1 l1] b1] o1] eqn:A.
      destruct (rp_apply_commits_spec PS cs cs _ _ _ _ _ _ A (fun e H => H) (BufP_catching _ _ HB) Hc) as (HB1 & Ho1 & He1 & Hc1).
      assert (He1' : lext (fun e => PAw e \/ In e cs) PS l l1). { eapply lext_mono; [| |exact He1]; [intros e He; right; exact He|auto]. }
      destruct b1.
      + destruct (rp_pop rp1) as [rp2 w2] eqn:Pp. destruct (rp_pop_spec _ _ _ Pp HB1) as (HB2 & Pw2).
        destruct (rp_drain (rp_fuel rp2) self orc rp2 l1 w2) as [[rp3 l3] o3] eqn:D. inversion H; subst.
        destruct (rp_drain_spec PS _ _ _ _ _ _ _ D HB2 Pw2 Hc1) as (HB3 & Ho3 & He3 & Hc3).
        split; auto. split; [|split; auto].
        * apply outs_ok_app; auto. eapply outs_ok_mono; eauto.
        * eapply lext_trans; [exact He1'|]. eapply lext_mono; [| |exact He3]; [intros e He; left; exact He|auto].
      + inversion H; subst. split; auto.
    - inversion H; subst. split; [apply BufP_catching; auto|]. split; [apply outs_ok_nil|]. split; [apply lext_refl|auto].
  Qed.
End Repl.
