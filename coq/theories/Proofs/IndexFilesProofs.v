(** Proofs about Model/IndexFiles.v (C06), on top of the store invariant (Proofs/StoreInv.v) and the
    simulation lemmas (Proofs/StoreSimProofs.v). *)
From Coq Require Import NArith List Bool Lia Arith.
From Coq Require Import ZifyBool ZifyNat ZifyN.
From SV Require Import Model.IndexFiles Proofs.StoreInv Proofs.StoreSimProofs.
Import ListNotations.
Open Scope N_scope.

(** * Closed*Index::open accepts exactly the complete file *)
Lemma closed_open_spec l st : lay_wf l -> proper l st -> closed_open l st = true <-> st = FComplete.
Proof.
  intros [H1 [H2 H3]] P. destruct st as [|p|]; cbn in *; split; intros H; try discriminate; try reflexivity.
  lia.
Qed.

(** * whatever the files hold, the reader pool gets the writer's indexes *)
Lemma load_index_ok l st g : seg_ok g -> load_index l st g = s_idx g.
Proof. intros [_ E]. unfold load_index. destruct (closed_open l st); [reflexivity|symmetry; exact E]. Qed.

Lemma open_sealed_ok g f : seg_ok g -> open_sealed g f = rseg_of g.
Proof. intros O. unfold open_sealed, rseg_of. rewrite !load_index_ok by assumption. reflexivity. Qed.

Lemma open_sealed_all_ok gs : Forall seg_ok gs -> forall fs, length fs = length gs ->
  open_sealed_all gs fs = map rseg_of gs.
Proof.
  unfold open_sealed_all. induction 1 as [|g gs O _ IH]; intros fs L; destruct fs as [|f fs]; try discriminate; [reflexivity|].
  cbn [combine map fst snd]. rewrite open_sealed_ok by assumption. f_equal. apply IH. cbn in L. lia.
Qed.

(* an index is rebuilt exactly when its file is not complete; afterwards every file is complete *)
Lemma rebuilt_iff l st g : lay_wf l -> proper l st ->
  (load_index l st g = hydrate_from (s_recs g) 0 /\ closed_open l st = false) \/ (st = FComplete /\ load_index l st g = s_idx g).
Proof.
  intros W P. unfold load_index. destruct (closed_open l st) eqn:E.
  - right. split; [apply (closed_open_spec l st W P); exact E|reflexivity].
  - left. split; reflexivity.
Qed.

Lemma files_after_open f : lay_wf (f_le f) -> lay_wf (f_lp f) -> lay_wf (f_ls f) ->
  let f' := files_after f in
  closed_open (f_le f') (f_e f') = true /\ closed_open (f_lp f') (f_p f') = true /\ closed_open (f_ls f') (f_s f') = true.
Proof. intros. cbn. auto. Qed.

(** * lookups in a segment with the writer's indexes *)
Lemma ev_eqb_refl e : ev_eqb e e = true.
Proof. unfold ev_eqb. rewrite !N.eqb_refl, Bool.eqb_reflx. reflexivity. Qed.

Lemma rec_events_nth recs e : In e (rec_events recs) -> exists off, nth_error recs off = Some (REvent e).
Proof.
  induction recs as [|[e'|tx c] r IH]; cbn [rec_events]; intros H; [destruct H| |].
  - destruct H as [->|H]; [exists 0%nat; reflexivity|]. destruct (IH H) as [off Ho]. exists (S off). exact Ho.
  - destruct (IH H) as [off Ho]. exists (S off). exact Ho.
Qed.

Lemma hydrate_nth recs : forall off0 off e, nth_error recs off = Some (REvent e) ->
  In (mkEntry e (off0 + off)) (hydrate_from recs off0).
Proof.
  induction recs as [|[e'|tx c] r IH]; intros off0 off e H; destruct off as [|off]; cbn in H; try discriminate.
  - inversion H; subst. cbn. left. f_equal. lia.
  - cbn [hydrate_from]. right. replace (off0 + S off)%nat with (S off0 + off)%nat by lia. apply IH. exact H.
  - cbn [hydrate_from]. replace (off0 + S off)%nat with (S off0 + off)%nat by lia. apply IH. exact H.
Qed.

Lemma sidx_get_In idx en : In en idx ->
  exists k, sidx_get idx (e_sid (i_ev en)) = Some k /\ In (i_off en) (k_offs k).
Proof.
  intros H. unfold sidx_get.
  assert (F : In en (filter (fun en0 => e_sid (i_ev en0) =? e_sid (i_ev en)) idx)).
  { apply filter_In. split; [exact H|apply N.eqb_refl]. }
  destruct (filter _ idx) as [|x r]; [destruct F|].
  eexists. split; [reflexivity|]. cbn [k_offs]. apply (in_map i_off) in F. exact F.
Qed.

Lemma pidx_get_In idx en : In en idx ->
  exists k, pidx_get idx (e_pid (i_ev en)) = Some k /\ In (i_off en) (k_offs k).
Proof.
  intros H. unfold pidx_get.
  assert (F : In en (filter (fun en0 => e_pid (i_ev en0) =? e_pid (i_ev en)) idx)).
  { apply filter_In. split; [exact H|apply N.eqb_refl]. }
  destruct (filter _ idx) as [|x r]; [destruct F|].
  eexists. split; [reflexivity|]. cbn [k_offs]. apply (in_map i_off) in F. exact F.
Qed.

Lemma seg_committed_events g : seg_ok g -> forall e, In e (seg_committed (s_recs g)) -> In e (rec_events (s_recs g)).
Proof.
  intros [[gs W] _] e H. unfold seg_committed in H. rewrite (groups_wf _ _ W) in H.
  rewrite (wf_recs_events _ _ W). exact H.
Qed.

Lemma found_by_stream g e : seg_ok g -> In e (seg_committed (s_recs g)) -> find_by_stream (rseg_of g) e = true.
Proof.
  intros O H. pose proof (seg_committed_events g O e H) as He. destruct O as [_ E].
  destruct (rec_events_nth _ _ He) as [off Ho].
  pose proof (hydrate_nth (s_recs g) 0 off e Ho) as Hi. rewrite <- E in Hi. cbn [Nat.add] in Hi.
  destruct (sidx_get_In _ _ Hi) as [k [Hk Hin]]. cbn [i_ev i_off] in *.
  unfold find_by_stream, rseg_of. cbn [r_s r_recs]. rewrite Hk. apply existsb_exists. exists off. split; [exact Hin|].
  unfold event_at. rewrite Ho. apply ev_eqb_refl.
Qed.

Lemma found_by_partition g e : seg_ok g -> In e (seg_committed (s_recs g)) -> find_by_partition (rseg_of g) e = true.
Proof.
  intros O H. pose proof (seg_committed_events g O e H) as He. destruct O as [_ E].
  destruct (rec_events_nth _ _ He) as [off Ho].
  pose proof (hydrate_nth (s_recs g) 0 off e Ho) as Hi. rewrite <- E in Hi. cbn [Nat.add] in Hi.
  destruct (pidx_get_In _ _ Hi) as [k [Hk Hin]]. cbn [i_ev i_off] in *.
  unfold find_by_partition, rseg_of. cbn [r_p r_recs]. rewrite Hk. apply existsb_exists. exists off. split; [exact Hin|].
  unfold event_at. rewrite Ho. apply ev_eqb_refl.
Qed.

(* by id: with distinct event ids in the segment (the code does not enforce uniqueness; the index is "last insert wins") *)
Lemma found_by_id g e : seg_ok g -> NoDup (map e_id (rec_events (s_recs g))) ->
  In e (seg_committed (s_recs g)) -> find_by_id (rseg_of g) e = true.
Proof.
  intros [[gs W] E] ND H. unfold seg_committed in H. rewrite (groups_wf _ _ W) in H.
  apply in_concat in H. destruct H as [grp [Hg He]]. destruct (in_split _ _ He) as [p1 [p2 Eg]].
  destruct (seg_read _ _ _ _ _ _ W ND Hg Eg) as [c [off [G [C1 C2]]]].
  unfold find_by_id, rseg_of. cbn [r_e r_recs]. rewrite E, G.
  specialize (C2 []). rewrite app_nil_r in C2. rewrite C2, C1. cbn [hd_error]. apply ev_eqb_refl.
Qed.

(** * the whole segment, every file state *)
Lemma open_sealed_total g f : seg_ok g ->
  open_sealed g f = rseg_of g /\
  (forall e, In e (seg_committed (s_recs g)) ->
     find_by_stream (open_sealed g f) e = true /\ find_by_partition (open_sealed g f) e = true /\
     (NoDup (map e_id (rec_events (s_recs g))) -> find_by_id (open_sealed g f) e = true)).
Proof.
  intros O. rewrite (open_sealed_ok g f O). split; [reflexivity|]. intros e H. repeat split.
  - apply found_by_stream; assumption.
  - apply found_by_partition; assumption.
  - intros ND. apply found_by_id; assumption.
Qed.

Lemma count_all (f : event -> bool) l : (forall e, In e l -> f e = true) -> count f l = length l.
Proof.
  intros H. unfold count. induction l as [|x r IH]; [reflexivity|]. cbn [filter]. rewrite (H x) by (left; reflexivity).
  cbn [length]. f_equal. apply IH. intros e He. apply H. right. exact He.
Qed.

(** * the store: a crash during/after rollovers with arbitrary index-file states *)
Lemma sealed_crash s keep : sealed (crash s keep) = sealed s.
Proof. reflexivity. Qed.
Lemma sealed_reopen s : sealed (reopen s) = sealed s.
Proof. reflexivity. Qed.

Lemma crash_ix_total s keep fs : Inv s -> length fs = length (sealed s) ->
  crash_ix s keep fs = (crash s keep, map rseg_of (sealed (crash s keep))).
Proof. intros I L. unfold crash_ix. rewrite sealed_crash, (open_sealed_all_ok _ (inv_sealed s I) fs L). reflexivity. Qed.

Lemma reopen_ix_total s fs : Inv s -> length fs = length (sealed s) ->
  reopen_ix s fs = (reopen s, map rseg_of (sealed (reopen s))).
Proof. intros I L. unfold reopen_ix. rewrite sealed_reopen, (open_sealed_all_ok _ (inv_sealed s I) fs L). reflexivity. Qed.

Lemma run_crash_ix ops keep fs : Forall wf_op ops -> length fs = length (sealed (run ops)) ->
  crash_ix (run ops) keep fs = (crash (run ops) keep, map rseg_of (sealed (crash (run ops) keep))) /\
  Forall (fun g => forall e, In e (seg_committed (s_recs g)) ->
            find_by_stream (rseg_of g) e = true /\ find_by_partition (rseg_of g) e = true /\
            (NoDup (map e_id (rec_events (s_recs g))) -> find_by_id (rseg_of g) e = true)) (sealed (run ops)).
Proof.
  intros F L. pose proof (run_Inv ops F) as I. split; [apply crash_ix_total; assumption|].
  pose proof (inv_sealed _ I) as S. apply Forall_forall. intros g Hg e He.
  rewrite Forall_forall in S. specialize (S g Hg). repeat split.
  - apply found_by_stream; assumption.
  - apply found_by_partition; assumption.
  - intros ND. apply found_by_id; assumption.
Qed.

(** * the directory scan *)
(* directories without an events file do not change which segments are sealed, nor which one is live *)
Lemma scan_ignores_empty_dirs dirs j : scan_sealed (dirs ++ [(j, false)]) = scan_sealed dirs /\ live_of (dirs ++ [(j, false)]) = live_of dirs.
Proof. unfold scan_sealed, live_of. rewrite filter_app. cbn [filter snd]. rewrite app_nil_r. split; reflexivity. Qed.

Lemma scan_live_not_sealed dirs : ~ In (live_of dirs) (scan_sealed dirs).
Proof.
  unfold scan_sealed, live_of. intros H. apply filter_In in H. destruct H as [_ H]. rewrite N.eqb_refl in H. discriminate.
Qed.

Lemma scan_v0_live_sealed :
  scan_sealed_v0 [(0, true); (1, true); (2, false)] = [0; 1] /\ live_of [(0, true); (1, true); (2, false)] = 1 /\
  scan_sealed [(0, true); (1, true); (2, false)] = [0].
Proof. vm_compute. repeat split; reflexivity. Qed.

(** * the code before the repair *)
Definition w_lay_e : layout := mkLay 60 156 156.     (* 4 events: 20 + 40 MPHF bytes, 4 records of 24 bytes *)
Definition w_lay_p : layout := mkLay 44 82 146.      (* 1 partition: 1 record of 38 bytes, 4 values of 16 bytes *)
Definition w_lay_s : layout := mkLay 120 336 368.    (* 2 streams: bloom in the header, 2 records of 108 bytes, 4 values of 8 bytes *)
Definition w_ev (i : N) (sid ver : N) : event := mkEvent i 7 1 (100 + i) true i sid ver.
Definition w_seg : seg :=
  let recs := [REvent (w_ev 0 10 0); REvent (w_ev 1 11 0); REvent (w_ev 2 10 1); REvent (w_ev 3 11 1)] in
  mkSeg recs (hydrate_from recs 0).

Lemma w_seg_ok : seg_ok w_seg.
Proof.
  split; [|reflexivity]. exists [[w_ev 0 10 0]; [w_ev 1 11 0]; [w_ev 2 10 1]; [w_ev 3 11 1]].
  change (s_recs w_seg) with ([REvent (w_ev 0 10 0)] ++ [REvent (w_ev 1 11 0)] ++ [REvent (w_ev 2 10 1)] ++ [REvent (w_ev 3 11 1)] ++ []).
  repeat (apply (wf_recs_app _ [_] _ _); [apply wf_recs_one; constructor; reflexivity|]). constructor.
Qed.

(* (1) an empty (or shorter than its header) index file: open fails, the database does not open *)
Lemma v0_open_fails : forall p, p < 60 ->
  open_sealed_v0 (mkFiles w_lay_e (FPrefix p) w_lay_p FComplete w_lay_s FComplete) = None.
Proof. intros p H. unfold open_sealed_v0. cbn. destruct (p <? 60) eqn:E; [reflexivity|lia]. Qed.

(* (2) a missing file is skipped: lookups answer "not found" for events the segment holds *)
Lemma v0_missing_misses :
  open_sealed_v0 (mkFiles w_lay_e FMissing w_lay_p FMissing w_lay_s FMissing) = Some (VAbsent, VAbsent, VAbsent) /\
  eidx_lookup_v0 VAbsent (s_idx w_seg) 84 2 = LMiss /\ pidx_lookup_v0 VAbsent (s_idx w_seg) 82 146 1 = LMiss /\
  sidx_lookup_v0 VAbsent (s_idx w_seg) 228 352 10 = LMiss /\
  eidx_get (s_idx w_seg) 2 = Some 2%nat.
Proof. vm_compute. repeat split; reflexivity. Qed.

(* (3) header written, records / values not: the open succeeds, lookups fail or (partition index) silently miss *)
Lemma v0_partial_lookups :
  open_sealed_v0 (mkFiles w_lay_e (FPrefix 60) w_lay_p (FPrefix 44) w_lay_s (FPrefix 336)) = Some (VPartial 60, VPartial 44, VPartial 336) /\
  eidx_lookup_v0 (VPartial 60) (s_idx w_seg) 84 2 = LErr /\
  pidx_lookup_v0 (VPartial 44) (s_idx w_seg) 82 146 1 = LMiss /\
  pidx_lookup_v0 (VPartial 82) (s_idx w_seg) 82 146 1 = LErr /\
  sidx_lookup_v0 (VPartial 336) (s_idx w_seg) 228 352 10 = LErr.
Proof. vm_compute. repeat split; reflexivity. Qed.

(* the same states on the code as it is *)
Lemma fixed_witnesses : forall f, open_sealed w_seg f = rseg_of w_seg.
Proof. intros f. apply open_sealed_ok. exact w_seg_ok. Qed.
