(** Bridge C (storage scans -> cluster reads).

    Model/ClusterRead.v models the cluster read loops over WHAT THE STORAGE ITERATOR YIELDS: a list of
    commits, each the list of the fields the loop looks at (partition reads: the partition sequence;
    stream reads: (stream version, partition sequence)), cut into batches by an oracle.  Its theorems
    (Proofs/ClusterReadProofs.v, Props/C07.v) assume that this list is well-behaved ([incr start],
    resp. [cr_all_nonempty] / [vincr] / [sincr]).  Here those hypotheses are PROVED for what the storage
    iterator of Model/StoreIter.v ([scan s k from Fwd limit]) returns on every [Scannable] store, hence on
    every reachable store [run ops], and the two layers are composed: the cluster read computed on the
    real iterator's output is exactly the confirmed part of the specification scan
    ([spec_scan_partition_fwd] / [spec_scan_stream_fwd] of Model/StoreSpec.v).

    The storage model does not track confirmation counts: [conf : event -> N] assigns one to every stored
    event, and the watermark is the length of the longest prefix of the partition's events whose count
    reaches the quorum [q] ([br_watermark]; it is the watermark Model/Watermark.v computes at start-up on
    those counts: [br_watermark_is_initialize]).

    Stream reads need one fact the storage layer does not enforce: all events of the stream lie in the
    partition whose watermark gates the read.  The storage API takes partition key and partition id
    independently (Transaction::new); the servers derive the id from the key (hash % num_partitions).
    Without it the statement is false ([br_unrouted_stream_refuted]); with the routing discipline
    [br_routed f ops] it holds for every reachable store ([br_routed_stream_in_partition]). *)
From Coq Require Import NArith Arith PeanoNat List Bool Lia.
From SV Require Import Model.StoreIter Proofs.ScanProofs Proofs.ScanGlue.
From SV Require Import Model.Watermark Proofs.WatermarkProofs Model.ClusterRead Proofs.ClusterReadProofs.
From SV Require Proofs.StoreInv Proofs.StoreSimProofs.
Import ListNotations.
Open Scope N_scope.

(* two files define an [incr]; the one meant here is the cluster-read one (on [N]) *)
Notation cincr := ClusterReadProofs.incr.

(** ---- the conversion -------------------------------------------------------------------------------------- *)
(** the commits of a scan result, batch structure forgotten (the batch sizes are the oracle of
    Model/ClusterRead.v, and every theorem there holds for every oracle) *)
Definition br_groups (batches : list (list committed)) : list (list event) :=
  map committed_events (concat batches).

(** what [partition_read] consumes: per commit the partition sequences *)
Definition br_pcommits (batches : list (list committed)) : list (list N) :=
  map (map e_seq) (br_groups batches).

(** what [stream_read] consumes: per commit (stream version, partition sequence) *)
Definition br_sev (e : event) : N * N := (e_ver e, e_seq e).
Definition br_scommits (batches : list (list committed)) : list (list (N * N)) :=
  map (map br_sev) (br_groups batches).

(** the partition's events, and its confirmed watermark under the count assignment [conf] *)
Definition br_pevents (l : alog) (pid : N) : list event := filter (fun e => e_pid e =? pid) (all_events l).
Definition br_watermark (q : N) (conf : event -> N) (l : alog) (pid : N) : N :=
  N.of_nat (length (cr_take_while (fun e => q <=? conf e) (br_pevents l pid))).

(** the range predicates of ClusterReadProofs, on stored events *)
Definition br_prange (W : N) (endo : option N) (e : event) : bool := pr_in_range W endo (e_seq e).
Definition br_srange (W : N) (endo : option N) (e : event) : bool := sr_ok W endo (br_sev e).

(** all stored events of stream [sid] lie in partition [pid] *)
Definition br_stream_in_partition (l : alog) (sid pid : N) : Prop :=
  forall e, In e (all_events l) -> e_sid e = sid -> e_pid e = pid.

(** ---- list facts ------------------------------------------------------------------------------------------ *)
Lemma br_concat_map {A B} (f : A -> B) (l : list (list A)) : concat (map (map f) l) = map f (concat l).
Proof. symmetry. apply concat_map. Qed.

Lemma br_filter_map {A B} (f : A -> B) (p : B -> bool) l : filter p (map f l) = map f (filter (fun x => p (f x)) l).
Proof. induction l as [|a l IH]; cbn; [reflexivity|]. destruct (p (f a)); cbn; rewrite IH; reflexivity. Qed.

Lemma br_filter_filter_imp {A} (p r : A -> bool) l :
  (forall x, In x l -> p x = true -> r x = true) -> filter p (filter r l) = filter p l.
Proof.
  induction l as [|a l IH]; intros H; cbn; [reflexivity|].
  destruct (r a) eqn:Er; cbn.
  - rewrite IH; [reflexivity|]. intros x Hx. apply H. right. assumption.
  - destruct (p a) eqn:Ep.
    + rewrite (H a (or_introl eq_refl) Ep) in Er. discriminate.
    + apply IH. intros x Hx. apply H. right. assumption.
Qed.

Lemma cincr_seq (g : nat -> N) : (forall i, g (S i) = g i + 1) ->
  forall n a lo, lo <= g a -> cincr lo (map g (seq a n)).
Proof.
  intros Hg. induction n as [|n IH]; intros a lo H; cbn; [exact I|].
  split; [assumption|]. apply IH. rewrite Hg. lia.
Qed.

Lemma cincr_map_filter {A} (f : A -> N) (p : A -> bool) l : forall lo,
  cincr lo (map f l) -> cincr lo (map f (filter p l)).
Proof.
  induction l as [|a l IH]; intros lo; cbn; [tauto|]. intros [H1 H2]. destruct (p a); cbn.
  - split; [assumption|auto].
  - apply (incr_weaken (f a + 1)); [lia|auto].
Qed.

Lemma vincr_map lo l : vincr lo l <-> cincr lo (map fst l).
Proof. revert lo; induction l as [|e t IH]; intros lo; cbn; [tauto|]. rewrite IH. tauto. Qed.
Lemma sincr_map lo l : sincr lo l <-> cincr lo (map snd l).
Proof. revert lo; induction l as [|e t IH]; intros lo; cbn; [tauto|]. rewrite IH. tauto. Qed.

(** ---- what the conversion contains ------------------------------------------------------------------------ *)
Lemma br_pcommits_concat b : concat (br_pcommits b) = map e_seq (scan_events b).
Proof. unfold br_pcommits, br_groups, scan_events. apply br_concat_map. Qed.

Lemma br_scommits_concat b : concat (br_scommits b) = map br_sev (scan_events b).
Proof. unfold br_scommits, br_groups, scan_events. apply br_concat_map. Qed.

Lemma br_spec_partition s pid start :
  filter (fun e => matches (KPartition pid) e && (start <=? key_pos (KPartition pid) e)) (all_events (abs_visible s))
  = spec_scan_partition_fwd (abs_visible s) pid start.
Proof. reflexivity. Qed.

Lemma br_spec_stream s sid start :
  filter (fun e => matches (KStream sid) e && (start <=? key_pos (KStream sid) e)) (all_events (abs_visible s))
  = spec_scan_stream_fwd (abs_visible s) sid start.
Proof. reflexivity. Qed.

(** ---- 1. the hypotheses of the C07 theorems hold for the real iterator --------------------------------- *)
Theorem scan_meets_partition_hypothesis s pid start limit batches :
  Scannable s (KPartition pid) -> (0 < limit)%nat ->
  scan s (KPartition pid) start Fwd limit = Some batches ->
  cincr start (concat (br_pcommits batches)).
Proof.
  intros HS Hl H. rewrite br_pcommits_concat.
  change (map e_seq (scan_events batches)) with (map (key_pos (KPartition pid)) (scan_events batches)).
  rewrite (forward_positions _ _ _ _ _ HS Hl H).
  apply cincr_seq; [intros i; lia|lia].
Qed.

(** the sequences of any selection of events of one partition are strictly increasing *)
Lemma br_partition_selection_incr s pid (p : event -> bool) :
  Scannable s (KPartition pid) ->
  (forall e, In e (all_events (abs_visible s)) -> p e = true -> e_pid e = pid) ->
  cincr 0 (map e_seq (filter p (all_events (abs_visible s)))).
Proof.
  intros HS Hp.
  rewrite <- (br_filter_filter_imp p (matches (KPartition pid))).
  - apply cincr_map_filter.
    change (map e_seq) with (map (key_pos (KPartition pid))). rewrite (sc_gapless _ _ HS).
    apply cincr_seq; [intros i; lia|lia].
  - intros e He Hpe. cbn. apply N.eqb_eq. auto.
Qed.

Theorem scan_meets_stream_hypothesis s sid pid start limit batches :
  Scannable s (KStream sid) -> Scannable s (KPartition pid) ->
  br_stream_in_partition (abs_visible s) sid pid -> (0 < limit)%nat ->
  scan s (KStream sid) start Fwd limit = Some batches ->
  let cs := br_scommits batches in
  cr_all_nonempty cs /\ vincr start (concat cs) /\ sincr 0 (concat cs).
Proof.
  intros HS HP Hin Hl H. cbn zeta.
  destruct (forward_groups s (KStream sid) start limit HS Hl) as (b & Hb & Hg & _).
  assert (b = batches) by congruence. subst b. split; [|split].
  - unfold cr_all_nonempty, br_scommits, br_groups. rewrite Hg. apply Forall_forall.
    intros c Hc. apply in_map_iff in Hc. destruct Hc as (g & <- & Hgi).
    unfold Efwd in Hgi. apply filter_In in Hgi. destruct Hgi as [_ Hn]. destruct g; [discriminate|discriminate].
  - apply vincr_map. rewrite br_scommits_concat, map_map. cbn [br_sev fst].
    change (map (fun x => e_ver x) (scan_events batches)) with (map (key_pos (KStream sid)) (scan_events batches)).
    rewrite (forward_positions _ _ _ _ _ HS Hl H). apply cincr_seq; [intros i; lia|lia].
  - apply sincr_map. rewrite br_scommits_concat, map_map. cbn [br_sev snd].
    rewrite (forward_exact' _ _ _ _ _ HS Hl H). unfold fwd_spec.
    change (map (fun x => e_seq x)) with (map e_seq).
    apply (br_partition_selection_incr s pid); [assumption|].
    intros e He Hp. apply andb_prop in Hp. destruct Hp as [Hm _]. cbn in Hm. apply N.eqb_eq in Hm. auto.
Qed.

(** ---- the watermark ------------------------------------------------------------------------------------- *)
Lemma br_take_while_prefix {A} (pos : A -> N) (p : A -> bool) : forall l a,
  map pos l = map N.of_nat (seq a (length l)) ->
  (forall e, In e l -> pos e < N.of_nat (a + length (cr_take_while p l)) -> p e = true) /\
  (forall e, In e l -> pos e = N.of_nat (a + length (cr_take_while p l)) -> p e = false).
Proof.
  induction l as [|x t IH]; intros a Hm; [split; intros e []|].
  cbn [map length seq] in Hm. injection Hm as Hx Ht.
  assert (Hge : forall e, In e t -> N.of_nat (S a) <= pos e).
  { intros e He. apply (in_map pos) in He. rewrite Ht in He. apply in_map_iff in He.
    destruct He as (i & <- & Hi). apply in_seq in Hi. lia. }
  destruct (IH (S a) Ht) as [I1 I2]. cbn [cr_take_while]. destruct (p x) eqn:Ep; cbn [length].
  - replace (a + S (length (cr_take_while p t)))%nat with (S a + length (cr_take_while p t))%nat by lia.
    split; intros e [<-|He]; auto. intros Hc. rewrite Hx in Hc. lia.
  - rewrite Nat.add_0_r. split; intros e [<-|He] Hc; auto.
    + rewrite Hx in Hc. lia.
    + specialize (Hge e He). lia.
    + specialize (Hge e He). lia.
Qed.

Lemma br_take_while_length {A} (p : A -> bool) l : (length (cr_take_while p l) <= length l)%nat.
Proof. induction l as [|a l IH]; cbn; [lia|]. destruct (p a); cbn; lia. Qed.

(** [br_watermark] is the number of leading confirmed events: everything below it reached the quorum, the
    event at it (if there is one) did not *)
Theorem br_watermark_spec s pid q conf :
  Scannable s (KPartition pid) ->
  let W := br_watermark q conf (abs_visible s) pid in
  W <= N.of_nat (length (br_pevents (abs_visible s) pid)) /\
  (forall e, In e (all_events (abs_visible s)) -> e_pid e = pid -> e_seq e < W -> q <= conf e) /\
  (forall e, In e (all_events (abs_visible s)) -> e_pid e = pid -> e_seq e = W -> conf e < q).
Proof.
  intros HS. cbn zeta. unfold br_watermark.
  pose proof (sc_gapless _ _ HS) as G.
  change (filter (matches (KPartition pid)) (all_events (abs_visible s))) with (br_pevents (abs_visible s) pid) in G.
  change (key_pos (KPartition pid)) with e_seq in G.
  destruct (br_take_while_prefix e_seq (fun e => q <=? conf e) _ 0%nat G) as [A B]. cbn [Nat.add] in A, B.
  split; [|split].
  - pose proof (br_take_while_length (fun e => q <=? conf e) (br_pevents (abs_visible s) pid)). lia.
  - intros e He Hp Hlt. apply N.leb_le. apply A; [|assumption].
    apply filter_In. split; [assumption|apply N.eqb_eq; assumption].
  - intros e He Hp Heq. apply N.leb_gt. apply B; [|assumption].
    apply filter_In. split; [assumption|apply N.eqb_eq; assumption].
Qed.

(** it is the watermark the confirmation actor computes at start-up from the on-disk counts [conf]
    (Model/Watermark.v [wm_initialize], no state file: the situation [cr_watermark] of C07 describes) *)
Lemma br_disk_prefix q disk : 1 <= q ->
  wm_is_prefix q (wm_disk_count disk) (N.of_nat (length (cr_take_while (fun c => q <=? c) disk))).
Proof.
  intros Hq. set (pq := fun c : N => q <=? c).
  assert (G : forall d,
    (forall i, (i < length (cr_take_while pq d))%nat -> q <= nth i d 0) /\
    nth (length (cr_take_while pq d)) d 0 < q).
  { induction d as [|c d IH]; cbn [cr_take_while].
    - split; [intros i Hi; cbn in Hi; lia|cbn; lia].
    - unfold pq at 1 3. destruct (q <=? c) eqn:E; cbn [length].
      + destruct IH as [I1 I2]. split; [|exact I2]. intros [|i] Hi; cbn [nth]; [apply N.leb_le; assumption|apply I1; lia].
      + split; [intros i Hi; lia|]. cbn [nth]. apply N.leb_gt. assumption. }
  destruct (G disk) as [G1 G2].
  pose proof (br_take_while_length pq disk) as L.
  set (k := length (cr_take_while pq disk)) in *.
  split.
  - intros i H1 H2. unfold wm_disk_count.
    replace (0 <? i) with true by (symmetry; apply N.ltb_lt; lia).
    replace (i <=? N.of_nat (length disk)) with true by (symmetry; apply N.leb_le; lia). cbn [andb].
    apply G1. lia.
  - unfold wm_disk_count. destruct ((0 <? N.of_nat k + 1) && (N.of_nat k + 1 <=? N.of_nat (length disk))); [|lia].
    replace (N.to_nat (N.of_nat k + 1 - 1)) with k by lia. assumption.
Qed.

Lemma br_take_while_map {A B} (f : A -> B) (p : B -> bool) l :
  length (cr_take_while p (map f l)) = length (cr_take_while (fun x => p (f x)) l).
Proof. induction l as [|a l IH]; cbn; [reflexivity|]. destruct (p (f a)); cbn; [rewrite IH|]; reflexivity. Qed.

Theorem br_watermark_is_initialize rf conf l pid :
  wm_mark (wm_initialize rf wm_init (map conf (br_pevents l pid))) = br_watermark (wm_quorum rf) conf l pid.
Proof.
  apply (wm_prefix_unique (wm_quorum rf) (wm_disk_count (map conf (br_pevents l pid)))).
  - apply wm_fresh_start_exact.
  - unfold br_watermark. rewrite <- (br_take_while_map conf (fun c => wm_quorum rf <=? c)).
    apply br_disk_prefix. apply wm_quorum_pos.
Qed.

(** ---- 2. the composed statements ------------------------------------------------------------------------ *)
(** ReadPartition over the real iterator: the result is the first [count] events of the specification scan
    that lie in the requested range and below the watermark; nothing at or above the watermark is returned;
    has_more = false only if no such event was left out *)
Theorem partition_read_over_scannable s pid conf q start endo count limit orc :
  Scannable s (KPartition pid) -> (0 < limit)%nat ->
  let W := br_watermark q conf (abs_visible s) pid in
  exists batches, scan s (KPartition pid) start Fwd limit = Some batches /\
    let r := partition_read (br_pcommits batches) orc W start endo count in
    fst r = map e_seq (firstn (N.to_nat count)
                         (filter (br_prange W endo) (spec_scan_partition_fwd (abs_visible s) pid start))) /\
    (forall x, In x (fst r) -> x < W) /\
    (snd r = false ->
     forall e, In e (spec_scan_partition_fwd (abs_visible s) pid start) -> br_prange W endo e = true ->
               In (e_seq e) (fst r)).
Proof.
  intros HS Hl W.
  destruct (forward_exact s (KPartition pid) start limit HS Hl) as (b & Hb & He).
  unfold fwd_spec in He. rewrite br_spec_partition in He.
  exists b. split; [assumption|]. cbn zeta.
  pose proof (scan_meets_partition_hypothesis _ _ _ _ _ HS Hl Hb) as Hi.
  assert (Hc : concat (br_pcommits b) = map e_seq (spec_scan_partition_fwd (abs_visible s) pid start)).
  { rewrite br_pcommits_concat, He. reflexivity. }
  split; [|split].
  - rewrite (partition_read_exact _ orc W start endo count Hi), Hc, br_filter_map, firstn_map. reflexivity.
  - intros x. apply partition_read_gated.
  - intros Hm e Hin Hr. apply (partition_read_has_more _ orc W start endo count Hi Hm); [|exact Hr].
    rewrite Hc. apply in_map. assumption.
Qed.

(** ReadStream over the real iterator *)
Theorem stream_read_over_scannable s sid pid conf q start endo count limit orc :
  Scannable s (KStream sid) -> Scannable s (KPartition pid) ->
  br_stream_in_partition (abs_visible s) sid pid -> (0 < limit)%nat ->
  let W := br_watermark q conf (abs_visible s) pid in
  exists batches, scan s (KStream sid) start Fwd limit = Some batches /\
    let r := stream_read (br_scommits batches) orc W endo count in
    fst r = map br_sev (firstn (N.to_nat count)
                          (filter (br_srange W endo) (spec_scan_stream_fwd (abs_visible s) sid start))) /\
    (forall x, In x (fst r) -> snd x < W) /\
    (snd r = false ->
     fst r = map br_sev (filter (br_srange W endo) (spec_scan_stream_fwd (abs_visible s) sid start))).
Proof.
  intros HS HP Hin Hl W.
  destruct (forward_exact s (KStream sid) start limit HS Hl) as (b & Hb & He).
  unfold fwd_spec in He. rewrite br_spec_stream in He.
  exists b. split; [assumption|]. cbn zeta.
  destruct (scan_meets_stream_hypothesis _ _ _ _ _ _ HS HP Hin Hl Hb) as (H1 & H2 & H3).
  assert (Hc : concat (br_scommits b) = map br_sev (spec_scan_stream_fwd (abs_visible s) sid start)).
  { rewrite br_scommits_concat, He. reflexivity. }
  split; [|split].
  - rewrite (stream_read_exact _ orc W endo count _ _ H1 H2 H3), Hc, br_filter_map, firstn_map. reflexivity.
  - intros x. apply stream_read_gated.
  - intros Hm. rewrite (stream_read_has_more _ orc W endo count _ _ H1 H2 H3 Hm), Hc, br_filter_map. reflexivity.
Qed.

(** ---- routing: the partition id is a function of the partition key --------------------------------------- *)
Definition br_routed_op (f : N -> N) (o : op) : Prop :=
  match o with OAppend t _ _ => t_pid t = f (t_pk t) | _ => True end.
Definition br_routed (f : N -> N) (ops : list op) : Prop := Forall (br_routed_op f) ops.

Definition br_log_routed (f : N -> N) (l : alog) : Prop :=
  forall e, In e (all_events l) -> e_pid e = f (e_pk e).

Lemma br_log_routed_prefix f (a b : alog) : StoreInv.prefix a b -> br_log_routed f b -> br_log_routed f a.
Proof.
  intros [r ->] H e He. apply H. unfold all_events in *. rewrite concat_app. apply in_or_app. left. assumption.
Qed.

Lemma br_steps_routed f ops : forall s, StoreInv.Inv s -> Forall StoreSimProofs.wf_op ops -> br_routed f ops ->
  br_log_routed f (abs_all s) -> br_log_routed f (abs_all (fold_left step ops s)).
Proof.
  induction ops as [|o ops IH]; intros s I W R H; [exact H|].
  inversion W as [|? ? Wo Wops]; subst. inversion R as [|? ? Ro Rops]; subst.
  cbn [fold_left]. apply IH; [apply StoreSimProofs.step_Inv; assumption|assumption|assumption|].
  pose proof (StoreSimProofs.step_abs s o I Wo) as SA.
  destruct o as [t roll big| | |keep].
  - cbn [br_routed_op] in Ro. cbn [step] in SA |- *.
    destruct (append s t roll big) as [s' [evs|rj]] eqn:E; cbn [fst snd] in SA |- *.
    + destruct (StoreInv.spec_append_accept _ _ _ _ _ (StoreInv.inv_good s I) Wo SA) as (-> & _ & St & _).
      intros e He. unfold all_events in He. rewrite concat_app in He. cbn [concat] in He. rewrite app_nil_r in He.
      apply in_app_or in He. destruct He as [He|He]; [apply H; assumption|].
      rewrite Forall_forall in St. destruct (St e He) as (Hpk & Hpid & _). rewrite Hpk, Hpid. assumption.
    + rewrite (StoreInv.spec_append_reject _ _ _ _ _ SA). assumption.
  - destruct SA as [-> _]. assumption.
  - destruct SA as [-> _]. assumption.
  - destruct SA as [P _]. apply (br_log_routed_prefix f _ _ P H).
Qed.

Theorem br_run_routed f ops : Forall StoreSimProofs.wf_op ops -> br_routed f ops ->
  br_log_routed f (abs_visible (run ops)).
Proof.
  intros W R. pose proof (StoreSimProofs.run_Inv ops W) as I.
  apply (br_log_routed_prefix f _ _ (StoreInv.Inv_visible_prefix _ I)).
  unfold run. apply br_steps_routed; try assumption; [exact StoreInv.Inv_init|].
  intros e He. vm_compute in He. destruct He.
Qed.

(** under routing a stream lives in one partition: the one its partition key maps to *)
Theorem br_routed_stream_in_partition f ops sid pk :
  Forall StoreSimProofs.wf_op ops -> br_routed f ops ->
  (forall e, In e (all_events (abs_visible (run ops))) -> e_sid e = sid -> e_pk e = pk) ->
  br_stream_in_partition (abs_visible (run ops)) sid (f pk).
Proof.
  intros W R Hpk e He Hs. rewrite (br_run_routed f ops W R e He). f_equal. auto.
Qed.

(** the stream's partition key is well defined: two stored events of one stream carry the same key *)
Theorem br_stream_one_key ops e1 e2 :
  Forall StoreSimProofs.wf_op ops ->
  In e1 (all_events (abs_visible (run ops))) -> In e2 (all_events (abs_visible (run ops))) ->
  e_sid e1 = e_sid e2 -> e_pk e1 = e_pk e2.
Proof.
  intros W. pose proof (StoreSimProofs.Inv_good_visible _ (StoreSimProofs.run_Inv ops W)) as [_ (_ & _ & P)].
  apply P.
Qed.

Theorem br_routed_stream_one_partition f ops e1 e2 :
  Forall StoreSimProofs.wf_op ops -> br_routed f ops ->
  In e1 (all_events (abs_visible (run ops))) -> In e2 (all_events (abs_visible (run ops))) ->
  e_sid e1 = e_sid e2 -> e_pid e1 = e_pid e2.
Proof.
  intros W R H1 H2 Hs. rewrite (br_run_routed f ops W R e1 H1), (br_run_routed f ops W R e2 H2).
  f_equal. apply (br_stream_one_key ops); assumption.
Qed.

(** ---- the statements for every reachable store ---------------------------------------------------------- *)
Theorem run_scan_meets_partition_hypothesis ops pid start limit :
  Forall StoreSimProofs.wf_op ops -> (0 < limit)%nat ->
  exists batches, scan (run ops) (KPartition pid) start Fwd limit = Some batches /\
    cincr start (concat (br_pcommits batches)).
Proof.
  intros W Hl. pose proof (run_Scannable ops (KPartition pid) W) as HS.
  destruct (forward_exact _ _ start limit HS Hl) as (b & Hb & _). exists b. split; [assumption|].
  apply (scan_meets_partition_hypothesis _ _ _ _ _ HS Hl Hb).
Qed.

Theorem run_scan_meets_stream_hypothesis ops sid pid start limit :
  Forall StoreSimProofs.wf_op ops -> br_stream_in_partition (abs_visible (run ops)) sid pid -> (0 < limit)%nat ->
  exists batches, scan (run ops) (KStream sid) start Fwd limit = Some batches /\
    let cs := br_scommits batches in
    cr_all_nonempty cs /\ vincr start (concat cs) /\ sincr 0 (concat cs).
Proof.
  intros W Hin Hl. pose proof (run_Scannable ops (KStream sid) W) as HS.
  destruct (forward_exact _ _ start limit HS Hl) as (b & Hb & _). exists b. split; [assumption|].
  apply (scan_meets_stream_hypothesis _ _ pid _ _ _ HS (run_Scannable ops (KPartition pid) W) Hin Hl Hb).
Qed.

Theorem run_scan_meets_stream_hypothesis_routed f ops sid pk start limit :
  Forall StoreSimProofs.wf_op ops -> br_routed f ops ->
  (forall e, In e (all_events (abs_visible (run ops))) -> e_sid e = sid -> e_pk e = pk) -> (0 < limit)%nat ->
  exists batches, scan (run ops) (KStream sid) start Fwd limit = Some batches /\
    let cs := br_scommits batches in
    cr_all_nonempty cs /\ vincr start (concat cs) /\ sincr 0 (concat cs).
Proof.
  intros W R Hpk. apply (run_scan_meets_stream_hypothesis ops sid (f pk)); [assumption|].
  apply br_routed_stream_in_partition; assumption.
Qed.

Theorem run_partition_read_over_storage ops pid conf q start endo count limit orc :
  Forall StoreSimProofs.wf_op ops -> (0 < limit)%nat ->
  let s := run ops in
  let W := br_watermark q conf (abs_visible s) pid in
  (exists batches, scan s (KPartition pid) start Fwd limit = Some batches /\
    let r := partition_read (br_pcommits batches) orc W start endo count in
    fst r = map e_seq (firstn (N.to_nat count)
                         (filter (br_prange W endo) (spec_scan_partition_fwd (abs_visible s) pid start))) /\
    (forall x, In x (fst r) -> x < W) /\
    (snd r = false ->
     forall e, In e (spec_scan_partition_fwd (abs_visible s) pid start) -> br_prange W endo e = true ->
               In (e_seq e) (fst r))) /\
  (* the watermark: everything below it reached the quorum, the event at it did not *)
  (forall e, In e (all_events (abs_visible s)) -> e_pid e = pid -> e_seq e < W -> q <= conf e) /\
  (forall e, In e (all_events (abs_visible s)) -> e_pid e = pid -> e_seq e = W -> conf e < q).
Proof.
  intros W Hl. cbn zeta. pose proof (run_Scannable ops (KPartition pid) W) as HS. split.
  - apply (partition_read_over_scannable _ _ conf q start endo count limit orc HS Hl).
  - destruct (br_watermark_spec _ _ q conf HS) as (_ & A & B). split; assumption.
Qed.

Theorem run_stream_read_over_storage f ops sid pk conf q start endo count limit orc :
  Forall StoreSimProofs.wf_op ops -> br_routed f ops ->
  (forall e, In e (all_events (abs_visible (run ops))) -> e_sid e = sid -> e_pk e = pk) -> (0 < limit)%nat ->
  let s := run ops in
  let pid := f pk in
  let W := br_watermark q conf (abs_visible s) pid in
  (exists batches, scan s (KStream sid) start Fwd limit = Some batches /\
    let r := stream_read (br_scommits batches) orc W endo count in
    fst r = map br_sev (firstn (N.to_nat count)
                          (filter (br_srange W endo) (spec_scan_stream_fwd (abs_visible s) sid start))) /\
    (forall x, In x (fst r) -> snd x < W) /\
    (snd r = false ->
     fst r = map br_sev (filter (br_srange W endo) (spec_scan_stream_fwd (abs_visible s) sid start)))) /\
  (forall e, In e (all_events (abs_visible s)) -> e_sid e = sid -> e_seq e < W -> q <= conf e).
Proof.
  intros W R Hpk Hl. cbn zeta.
  pose proof (run_Scannable ops (KPartition (f pk)) W) as HP.
  pose proof (br_routed_stream_in_partition f ops sid pk W R Hpk) as Hin. split.
  - apply (stream_read_over_scannable _ _ _ conf q start endo count limit orc (run_Scannable ops (KStream sid) W) HP Hin Hl).
  - destruct (br_watermark_spec _ _ q conf HP) as (_ & A & _). intros e He Hs. apply A; [assumption|]. apply Hin; assumption.
Qed.

(** ---- without routing the stream statement is false ------------------------------------------------------ *)
(** stream 7 (partition key 1) is written first through partition id 0 (after another event of that
    partition, so at sequence 1) and then through partition id 1 (sequence 0).  The storage layer accepts
    both (Transaction::new takes key and id independently).  The stream scan then yields sequences 1, 0:
    not increasing; with partition 0's watermark 1 the read loop stops at the first event and returns
    nothing although version 1 (sequence 0 < 1) would pass the filter of [stream_read_exact]. *)
Definition br_ne id sid := mkNew id sid XAny true.
Definition br_unrouted_ops : list op :=
  [ OAppend (mkTxn 2 0 100 true [br_ne 1 8] XAny) false false;
    OAppend (mkTxn 1 0 101 true [br_ne 2 7] XAny) false false;
    OAppend (mkTxn 1 1 102 true [br_ne 3 7] XAny) false false;
    OSync ].

Theorem br_unrouted_stream_refuted :
  Forall StoreSimProofs.wf_op br_unrouted_ops /\
  exists batches, scan (run br_unrouted_ops) (KStream 7) 0 Fwd 5 = Some batches /\
    concat (br_scommits batches) = [(0, 1); (1, 0)] /\
    (forall lo, ~ sincr lo (concat (br_scommits batches))) /\
    fst (stream_read (br_scommits batches) [] 1 None 10) = [] /\
    firstn 10 (filter (sr_ok 1 None) (concat (br_scommits batches))) = [(1, 0)].
Proof.
  split.
  - repeat constructor; cbn; try discriminate; intros H; discriminate H.
  - assert (E : exists b, scan (run br_unrouted_ops) (KStream 7) 0 Fwd 5 = Some b /\
                         br_scommits b = [[(0, 1)]; [(1, 0)]]).
    { eexists. split; vm_compute; reflexivity. }
    destruct E as (b & E1 & E2). exists b. split; [exact E1|]. rewrite E2.
    split; [reflexivity|]. split; [|split; vm_compute; reflexivity].
    intros lo H. cbn [concat app sincr snd] in H. lia.
Qed.
