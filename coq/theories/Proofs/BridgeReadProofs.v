(** Bridge C (storage scans -> cluster reads).

    Model/ClusterRead.v models the cluster read loops over WHAT THE STORAGE ITERATOR YIELDS: a list of
    commits, each the list of the fields the loop looks at (partition reads: the partition sequence;
    stream reads: (stream version, partition sequence)), cut into batches by an oracle.  Its theorems
    (Proofs/ClusterReadProofs.v, Props/C07.v) assume that this list is well-behaved ([incr start],
    resp. [cr_all_nonempty] / [vincr] / [sincr]).  Here those hypotheses are PROVED for what the storage
    iterator of Model/StoreIter.v ([scan s k from Fwd limit]) returns on every [Scannable] store, hence on
    every reachable store [run ops], and the two layers are composed: the cluster read computed on the
    real iterator's output is exactly the confirmed part of the specification scan
    ([spec_scan_partition_fwd] / [spec_scan_stream_fwd] of Model/StoreSpec.v).

    The storage model does not track confirmation counts: [conf : event -> N] assigns one to every stored
    event, and the watermark is the length of the longest prefix of the partition's events whose count
    reaches the quorum [q] ([br_watermark]; it is the watermark Model/Watermark.v computes at start-up on
    those counts: [br_watermark_is_initialize]).

    Stream reads need one fact the storage layer does not enforce: all events of the stream lie in the
    partition whose watermark gates the read.  The storage API takes partition key and partition id
    independently (Transaction::new); the servers derive the id from the key (hash % num_partitions).
    Without it the statement is false ([br_unrouted_stream_refuted]); with the routing discipline
    [br_routed f ops] it holds for every reachable store ([br_routed_stream_in_partition]).

    Section 3: the log-derived iterator model of Model/ClusterRead.v ([cr_partition_commits], [cr_stream_commits],
    [cr_watermark] on a [cr_log] — what the C07 driver runs) coincides with the converted scan on [br_log].
    Section 4: the read loops driving ONE real iterator with state-dependent [next_batch] limits
    ([partition_read_store], [stream_read_store]) equal the oracle-batched loops for every oracle.
    Section 5: GetStreamVersion over the real reverse scan. *)
From Coq Require Import NArith Arith PeanoNat List Bool Lia.
From SV Require Import Model.StoreIter Proofs.ScanProofs Proofs.ScanGlue.
From SV Require Import Model.Watermark Proofs.WatermarkProofs Model.ClusterRead Proofs.ClusterReadProofs.
From SV Require Proofs.StoreInv Proofs.StoreSimProofs.
Import ListNotations.
Open Scope N_scope.

(* two files define an [incr]; the one meant here is the cluster-read one (on [N]) *)
Notation cincr := ClusterReadProofs.incr.

(** ---- the conversion -------------------------------------------------------------------------------------- *)
(** the commits of a scan result, batch structure forgotten (the batch sizes are the oracle of
    Model/ClusterRead.v, and every theorem there holds for every oracle) *)
Definition br_groups (batches : list (list committed)) : list (list event) :=
  map committed_events (concat batches).

(** what [partition_read] consumes: per commit the partition sequences *)
Definition br_pcommits (batches : list (list committed)) : list (list N) :=
  map (map e_seq) (br_groups batches).

(** what [stream_read] consumes: per commit (stream version, partition sequence) *)
Definition br_sev (e : event) : N * N := (e_ver e, e_seq e).
Definition br_scommits (batches : list (list committed)) : list (list (N * N)) :=
  map (map br_sev) (br_groups batches).

(** the partition's events, and its confirmed watermark under the count assignment [conf] *)
Definition br_pevents (l : alog) (pid : N) : list event := filter (fun e => e_pid e =? pid) (all_events l).
Definition br_watermark (q : N) (conf : event -> N) (l : alog) (pid : N) : N :=
  N.of_nat (length (cr_take_while (fun e => q <=? conf e) (br_pevents l pid))).

(** the range predicates of ClusterReadProofs, on stored events *)
Definition br_prange (W : N) (endo : option N) (e : event) : bool := pr_in_range W endo (e_seq e).
Definition br_srange (W : N) (endo : option N) (e : event) : bool := sr_ok W endo (br_sev e).

(** all stored events of stream [sid] lie in partition [pid] *)
Definition br_stream_in_partition (l : alog) (sid pid : N) : Prop :=
  forall e, In e (all_events l) -> e_sid e = sid -> e_pid e = pid.

(** ---- list facts ------------------------------------------------------------------------------------------ *)
Lemma br_concat_map {A B} (f : A -> B) (l : list (list A)) : concat (map (map f) l) = map f (concat l).
Proof. symmetry. apply concat_map. Qed.

Lemma br_filter_map {A B} (f : A -> B) (p : B -> bool) l : filter p (map f l) = map f (filter (fun x => p (f x)) l).
Proof. induction l as [|a l IH]; cbn; [reflexivity|]. destruct (p (f a)); cbn; rewrite IH; reflexivity. Qed.

Lemma br_filter_filter_imp {A} (p r : A -> bool) l :
  (forall x, In x l -> p x = true -> r x = true) -> filter p (filter r l) = filter p l.
Proof.
  induction l as [|a l IH]; intros H; cbn; [reflexivity|].
  destruct (r a) eqn:Er; cbn.
  - rewrite IH; [reflexivity|]. intros x Hx. apply H. right. assumption.
  - destruct (p a) eqn:Ep.
    + rewrite (H a (or_introl eq_refl) Ep) in Er. discriminate.
    + apply IH. intros x Hx. apply H. right. assumption.
Qed.

Lemma cincr_seq (g : nat -> N) : (forall i, g (S i) = g i + 1) ->
  forall n a lo, lo <= g a -> cincr lo (map g (seq a n)).
Proof.
  intros Hg. induction n as [|n IH]; intros a lo H; cbn; [exact I|].
  split; [assumption|]. apply IH. rewrite Hg. lia.
Qed.

Lemma cincr_map_filter {A} (f : A -> N) (p : A -> bool) l : forall lo,
  cincr lo (map f l) -> cincr lo (map f (filter p l)).
Proof.
  induction l as [|a l IH]; intros lo; cbn; [tauto|]. intros [H1 H2]. destruct (p a); cbn.
  - split; [assumption|auto].
  - apply (incr_weaken (f a + 1)); [lia|auto].
Qed.

Lemma vincr_map lo l : vincr lo l <-> cincr lo (map fst l).
Proof. revert lo; induction l as [|e t IH]; intros lo; cbn; [tauto|]. rewrite IH. tauto. Qed.
Lemma sincr_map lo l : sincr lo l <-> cincr lo (map snd l).
Proof. revert lo; induction l as [|e t IH]; intros lo; cbn; [tauto|]. rewrite IH. tauto. Qed.

(** ---- what the conversion contains ------------------------------------------------------------------------ *)
Lemma br_pcommits_concat b : concat (br_pcommits b) = map e_seq (scan_events b).
Proof. unfold br_pcommits, br_groups, scan_events. apply br_concat_map. Qed.

Lemma br_scommits_concat b : concat (br_scommits b) = map br_sev (scan_events b).
Proof. unfold br_scommits, br_groups, scan_events. apply br_concat_map. Qed.

Lemma br_spec_partition s pid start :
  filter (fun e => matches (KPartition pid) e && (start <=? key_pos (KPartition pid) e)) (all_events (abs_visible s))
  = spec_scan_partition_fwd (abs_visible s) pid start.
Proof. reflexivity. Qed.

Lemma br_spec_stream s sid start :
  filter (fun e => matches (KStream sid) e && (start <=? key_pos (KStream sid) e)) (all_events (abs_visible s))
  = spec_scan_stream_fwd (abs_visible s) sid start.
Proof. reflexivity. Qed.

(** ---- 1. the hypotheses of the C07 theorems hold for the real iterator --------------------------------- *)
Theorem scan_meets_partition_hypothesis s pid start limit batches :
  Scannable s (KPartition pid) -> (0 < limit)%nat ->
  scan s (KPartition pid) start Fwd limit = Some batches ->
  cincr start (concat (br_pcommits batches)).
Proof.
  intros HS Hl H. rewrite br_pcommits_concat.
  change (map e_seq (scan_events batches)) with (map (key_pos (KPartition pid)) (scan_events batches)).
  rewrite (forward_positions _ _ _ _ _ HS Hl H).
  apply cincr_seq; [intros i; lia|lia].
Qed.

(** the sequences of any selection of events of one partition are strictly increasing *)
Lemma br_partition_selection_incr s pid (p : event -> bool) :
  Scannable s (KPartition pid) ->
  (forall e, In e (all_events (abs_visible s)) -> p e = true -> e_pid e = pid) ->
  cincr 0 (map e_seq (filter p (all_events (abs_visible s)))).
Proof.
  intros HS Hp.
  rewrite <- (br_filter_filter_imp p (matches (KPartition pid))).
  - apply cincr_map_filter.
    change (map e_seq) with (map (key_pos (KPartition pid))). rewrite (sc_gapless _ _ HS).
    apply cincr_seq; [intros i; lia|lia].
  - intros e He Hpe. cbn. apply N.eqb_eq. auto.
Qed.

Theorem scan_meets_stream_hypothesis s sid pid start limit batches :
  Scannable s (KStream sid) -> Scannable s (KPartition pid) ->
  br_stream_in_partition (abs_visible s) sid pid -> (0 < limit)%nat ->
  scan s (KStream sid) start Fwd limit = Some batches ->
  let cs := br_scommits batches in
  cr_all_nonempty cs /\ vincr start (concat cs) /\ sincr 0 (concat cs).
Proof.
  intros HS HP Hin Hl H. cbn zeta.
  destruct (forward_groups s (KStream sid) start limit HS Hl) as (b & Hb & Hg & _).
  assert (b = batches) by congruence. subst b. split; [|split].
  - unfold cr_all_nonempty, br_scommits, br_groups. rewrite Hg. apply Forall_forall.
    intros c Hc. apply in_map_iff in Hc. destruct Hc as (g & <- & Hgi).
    unfold Efwd in Hgi. apply filter_In in Hgi. destruct Hgi as [_ Hn]. destruct g; [discriminate|discriminate].
  - apply vincr_map. rewrite br_scommits_concat, map_map. cbn [br_sev fst].
    change (map (fun x => e_ver x) (scan_events batches)) with (map (key_pos (KStream sid)) (scan_events batches)).
    rewrite (forward_positions _ _ _ _ _ HS Hl H). apply cincr_seq; [intros i; lia|lia].
  - apply sincr_map. rewrite br_scommits_concat, map_map. cbn [br_sev snd].
    rewrite (forward_exact' _ _ _ _ _ HS Hl H). unfold fwd_spec.
    change (map (fun x => e_seq x)) with (map e_seq).
    apply (br_partition_selection_incr s pid); [assumption|].
    intros e He Hp. apply andb_prop in Hp. destruct Hp as [Hm _]. cbn in Hm. apply N.eqb_eq in Hm. auto.
Qed.

(** ---- the watermark ------------------------------------------------------------------------------------- *)
Lemma br_take_while_prefix {A} (pos : A -> N) (p : A -> bool) : forall l a,
  map pos l = map N.of_nat (seq a (length l)) ->
  (forall e, In e l -> pos e < N.of_nat (a + length (cr_take_while p l)) -> p e = true) /\
  (forall e, In e l -> pos e = N.of_nat (a + length (cr_take_while p l)) -> p e = false).
Proof.
  induction l as [|x t IH]; intros a Hm; [split; intros e []|].
  cbn [map length seq] in Hm. injection Hm as Hx Ht.
  assert (Hge : forall e, In e t -> N.of_nat (S a) <= pos e).
  { intros e He. apply (in_map pos) in He. rewrite Ht in He. apply in_map_iff in He.
    destruct He as (i & <- & Hi). apply in_seq in Hi. lia. }
  destruct (IH (S a) Ht) as [I1 I2]. cbn [cr_take_while]. destruct (p x) eqn:Ep; cbn [length].
  - replace (a + S (length (cr_take_while p t)))%nat with (S a + length (cr_take_while p t))%nat by lia.
    split; intros e [<-|He]; auto. intros Hc. rewrite Hx in Hc. lia.
  - rewrite Nat.add_0_r. split; intros e [<-|He] Hc; auto.
    + rewrite Hx in Hc. lia.
    + specialize (Hge e He). lia.
    + specialize (Hge e He). lia.
Qed.

Lemma br_take_while_length {A} (p : A -> bool) l : (length (cr_take_while p l) <= length l)%nat.
Proof. induction l as [|a l IH]; cbn; [lia|]. destruct (p a); cbn; lia. Qed.

(** [br_watermark] is the number of leading confirmed events: everything below it reached the quorum, the
    event at it (if there is one) did not *)
Theorem br_watermark_spec s pid q conf :
  Scannable s (KPartition pid) ->
  let W := br_watermark q conf (abs_visible s) pid in
  W <= N.of_nat (length (br_pevents (abs_visible s) pid)) /\
  (forall e, In e (all_events (abs_visible s)) -> e_pid e = pid -> e_seq e < W -> q <= conf e) /\
  (forall e, In e (all_events (abs_visible s)) -> e_pid e = pid -> e_seq e = W -> conf e < q).
Proof.
  intros HS. cbn zeta. unfold br_watermark.
  pose proof (sc_gapless _ _ HS) as G.
  change (filter (matches (KPartition pid)) (all_events (abs_visible s))) with (br_pevents (abs_visible s) pid) in G.
  change (key_pos (KPartition pid)) with e_seq in G.
  destruct (br_take_while_prefix e_seq (fun e => q <=? conf e) _ 0%nat G) as [A B]. cbn [Nat.add] in A, B.
  split; [|split].
  - pose proof (br_take_while_length (fun e => q <=? conf e) (br_pevents (abs_visible s) pid)). lia.
  - intros e He Hp Hlt. apply N.leb_le. apply A; [|assumption].
    apply filter_In. split; [assumption|apply N.eqb_eq; assumption].
  - intros e He Hp Heq. apply N.leb_gt. apply B; [|assumption].
    apply filter_In. split; [assumption|apply N.eqb_eq; assumption].
Qed.

(** it is the watermark the confirmation actor computes at start-up from the on-disk counts [conf]
    (Model/Watermark.v [wm_initialize], no state file: the situation [cr_watermark] of C07 describes) *)
Lemma br_disk_prefix q disk : 1 <= q ->
  wm_is_prefix q (wm_disk_count disk) (N.of_nat (length (cr_take_while (fun c => q <=? c) disk))).
Proof.
  intros Hq. set (pq := fun c : N => q <=? c).
  assert (G : forall d,
    (forall i, (i < length (cr_take_while pq d))%nat -> q <= nth i d 0) /\
    nth (length (cr_take_while pq d)) d 0 < q).
  { induction d as [|c d IH]; cbn [cr_take_while].
    - split; [intros i Hi; cbn in Hi; lia|cbn; lia].
    - unfold pq at 1 3. destruct (q <=? c) eqn:E; cbn [length].
      + destruct IH as [I1 I2]. split; [|exact I2]. intros [|i] Hi; cbn [nth]; [apply N.leb_le; assumption|apply I1; lia].
      + split; [intros i Hi; lia|]. cbn [nth]. apply N.leb_gt. assumption. }
  destruct (G disk) as [G1 G2].
  pose proof (br_take_while_length pq disk) as L.
  set (k := length (cr_take_while pq disk)) in *.
  split.
  - intros i H1 H2. unfold wm_disk_count.
    replace (0 <? i) with true by (symmetry; apply N.ltb_lt; lia).
    replace (i <=? N.of_nat (length disk)) with true by (symmetry; apply N.leb_le; lia). cbn [andb].
    apply G1. lia.
  - unfold wm_disk_count. destruct ((0 <? N.of_nat k + 1) && (N.of_nat k + 1 <=? N.of_nat (length disk))); [|lia].
    replace (N.to_nat (N.of_nat k + 1 - 1)) with k by lia. assumption.
Qed.

Lemma br_take_while_map {A B} (f : A -> B) (p : B -> bool) l :
  length (cr_take_while p (map f l)) = length (cr_take_while (fun x => p (f x)) l).
Proof. induction l as [|a l IH]; cbn; [reflexivity|]. destruct (p (f a)); cbn; [rewrite IH|]; reflexivity. Qed.

Theorem br_watermark_is_initialize rf conf l pid :
  wm_mark (wm_initialize rf wm_init (map conf (br_pevents l pid))) = br_watermark (wm_quorum rf) conf l pid.
Proof.
  apply (wm_prefix_unique (wm_quorum rf) (wm_disk_count (map conf (br_pevents l pid)))).
  - apply wm_fresh_start_exact.
  - unfold br_watermark. rewrite <- (br_take_while_map conf (fun c => wm_quorum rf <=? c)).
    apply br_disk_prefix. apply wm_quorum_pos.
Qed.

(** ---- 2. the composed statements ------------------------------------------------------------------------ *)
(** ReadPartition over the real iterator: the result is the first [count] events of the specification scan
    that lie in the requested range and below the watermark; nothing at or above the watermark is returned;
    has_more = false only if no such event was left out *)
Theorem partition_read_over_scannable s pid conf q start endo count limit orc :
  Scannable s (KPartition pid) -> (0 < limit)%nat ->
  let W := br_watermark q conf (abs_visible s) pid in
  exists batches, scan s (KPartition pid) start Fwd limit = Some batches /\
    let r := partition_read (br_pcommits batches) orc W start endo count in
    fst r = map e_seq (firstn (N.to_nat count)
                         (filter (br_prange W endo) (spec_scan_partition_fwd (abs_visible s) pid start))) /\
    (forall x, In x (fst r) -> x < W) /\
    (snd r = false ->
     forall e, In e (spec_scan_partition_fwd (abs_visible s) pid start) -> br_prange W endo e = true ->
               In (e_seq e) (fst r)).
Proof.
  intros HS Hl W.
  destruct (forward_exact s (KPartition pid) start limit HS Hl) as (b & Hb & He).
  unfold fwd_spec in He. rewrite br_spec_partition in He.
  exists b. split; [assumption|]. cbn zeta.
  pose proof (scan_meets_partition_hypothesis _ _ _ _ _ HS Hl Hb) as Hi.
  assert (Hc : concat (br_pcommits b) = map e_seq (spec_scan_partition_fwd (abs_visible s) pid start)).
  { rewrite br_pcommits_concat, He. reflexivity. }
  split; [|split].
  - rewrite (partition_read_exact _ orc W start endo count Hi), Hc, br_filter_map, firstn_map. reflexivity.
  - intros x. apply partition_read_gated.
  - intros Hm e Hin Hr. apply (partition_read_has_more _ orc W start endo count Hi Hm); [|exact Hr].
    rewrite Hc. apply in_map. assumption.
Qed.

(** ReadStream over the real iterator *)
Theorem stream_read_over_scannable s sid pid conf q start endo count limit orc :
  Scannable s (KStream sid) -> Scannable s (KPartition pid) ->
  br_stream_in_partition (abs_visible s) sid pid -> (0 < limit)%nat ->
  let W := br_watermark q conf (abs_visible s) pid in
  exists batches, scan s (KStream sid) start Fwd limit = Some batches /\
    let r := stream_read (br_scommits batches) orc W endo count in
    fst r = map br_sev (firstn (N.to_nat count)
                          (filter (br_srange W endo) (spec_scan_stream_fwd (abs_visible s) sid start))) /\
    (forall x, In x (fst r) -> snd x < W) /\
    (snd r = false ->
     fst r = map br_sev (filter (br_srange W endo) (spec_scan_stream_fwd (abs_visible s) sid start))).
Proof.
  intros HS HP Hin Hl W.
  destruct (forward_exact s (KStream sid) start limit HS Hl) as (b & Hb & He).
  unfold fwd_spec in He. rewrite br_spec_stream in He.
  exists b. split; [assumption|]. cbn zeta.
  destruct (scan_meets_stream_hypothesis _ _ _ _ _ _ HS HP Hin Hl Hb) as (H1 & H2 & H3).
  assert (Hc : concat (br_scommits b) = map br_sev (spec_scan_stream_fwd (abs_visible s) sid start)).
  { rewrite br_scommits_concat, He. reflexivity. }
  split; [|split].
  - rewrite (stream_read_exact _ orc W endo count _ _ H1 H2 H3), Hc, br_filter_map, firstn_map. reflexivity.
  - intros x. apply stream_read_gated.
  - intros Hm. rewrite (stream_read_has_more _ orc W endo count _ _ H1 H2 H3 Hm), Hc, br_filter_map. reflexivity.
Qed.

(** ---- routing: the partition id is a function of the partition key --------------------------------------- *)
Definition br_routed_op (f : N -> N) (o : op) : Prop :=
  match o with OAppend t _ _ => t_pid t = f (t_pk t) | _ => True end.
Definition br_routed (f : N -> N) (ops : list op) : Prop := Forall (br_routed_op f) ops.

Definition br_log_routed (f : N -> N) (l : alog) : Prop :=
  forall e, In e (all_events l) -> e_pid e = f (e_pk e).

Lemma br_log_routed_prefix f (a b : alog) : StoreInv.prefix a b -> br_log_routed f b -> br_log_routed f a.
Proof.
  intros [r ->] H e He. apply H. unfold all_events in *. rewrite concat_app. apply in_or_app. left. assumption.
Qed.

Lemma br_steps_routed f ops : forall s, StoreInv.Inv s -> Forall StoreSimProofs.wf_op ops -> br_routed f ops ->
  br_log_routed f (abs_all s) -> br_log_routed f (abs_all (fold_left step ops s)).
Proof.
  induction ops as [|o ops IH]; intros s I W R H; [exact H|].
  inversion W as [|? ? Wo Wops]; subst. inversion R as [|? ? Ro Rops]; subst.
  cbn [fold_left]. apply IH; [apply StoreSimProofs.step_Inv; assumption|assumption|assumption|].
  pose proof (StoreSimProofs.step_abs s o I Wo) as SA.
  destruct o as [t roll big| | |keep].
  - cbn [br_routed_op] in Ro. cbn [step] in SA |- *.
    destruct (append s t roll big) as [s' [evs|rj]] eqn:E; cbn [fst snd] in SA |- *.
    + destruct (StoreInv.spec_append_accept _ _ _ _ _ (StoreInv.inv_good s I) Wo SA) as (-> & _ & St & _).
      intros e He. unfold all_events in He. rewrite concat_app in He. cbn [concat] in He. rewrite app_nil_r in He.
      apply in_app_or in He. destruct He as [He|He]; [apply H; assumption|].
      rewrite Forall_forall in St. destruct (St e He) as (Hpk & Hpid & _). rewrite Hpk, Hpid. assumption.
    + rewrite (StoreInv.spec_append_reject _ _ _ _ _ SA). assumption.
  - destruct SA as [-> _]. assumption.
  - destruct SA as [-> _]. assumption.
  - destruct SA as [P _]. apply (br_log_routed_prefix f _ _ P H).
Qed.

Theorem br_run_routed f ops : Forall StoreSimProofs.wf_op ops -> br_routed f ops ->
  br_log_routed f (abs_visible (run ops)).
Proof.
  intros W R. pose proof (StoreSimProofs.run_Inv ops W) as I.
  apply (br_log_routed_prefix f _ _ (StoreInv.Inv_visible_prefix _ I)).
  unfold run. apply br_steps_routed; try assumption; [exact StoreInv.Inv_init|].
  intros e He. vm_compute in He. destruct He.
Qed.

(** under routing a stream lives in one partition: the one its partition key maps to *)
Theorem br_routed_stream_in_partition f ops sid pk :
  Forall StoreSimProofs.wf_op ops -> br_routed f ops ->
  (forall e, In e (all_events (abs_visible (run ops))) -> e_sid e = sid -> e_pk e = pk) ->
  br_stream_in_partition (abs_visible (run ops)) sid (f pk).
Proof.
  intros W R Hpk e He Hs. rewrite (br_run_routed f ops W R e He). f_equal. auto.
Qed.

(** the stream's partition key is well defined: two stored events of one stream carry the same key *)
Theorem br_stream_one_key ops e1 e2 :
  Forall StoreSimProofs.wf_op ops ->
  In e1 (all_events (abs_visible (run ops))) -> In e2 (all_events (abs_visible (run ops))) ->
  e_sid e1 = e_sid e2 -> e_pk e1 = e_pk e2.
Proof.
  intros W. pose proof (StoreSimProofs.Inv_good_visible _ (StoreSimProofs.run_Inv ops W)) as [_ (_ & _ & P)].
  apply P.
Qed.

Theorem br_routed_stream_one_partition f ops e1 e2 :
  Forall StoreSimProofs.wf_op ops -> br_routed f ops ->
  In e1 (all_events (abs_visible (run ops))) -> In e2 (all_events (abs_visible (run ops))) ->
  e_sid e1 = e_sid e2 -> e_pid e1 = e_pid e2.
Proof.
  intros W R H1 H2 Hs. rewrite (br_run_routed f ops W R e1 H1), (br_run_routed f ops W R e2 H2).
  f_equal. apply (br_stream_one_key ops); assumption.
Qed.

(** ---- the statements for every reachable store ---------------------------------------------------------- *)
Theorem run_scan_meets_partition_hypothesis ops pid start limit :
  Forall StoreSimProofs.wf_op ops -> (0 < limit)%nat ->
  exists batches, scan (run ops) (KPartition pid) start Fwd limit = Some batches /\
    cincr start (concat (br_pcommits batches)).
Proof.
  intros W Hl. pose proof (run_Scannable ops (KPartition pid) W) as HS.
  destruct (forward_exact _ _ start limit HS Hl) as (b & Hb & _). exists b. split; [assumption|].
  apply (scan_meets_partition_hypothesis _ _ _ _ _ HS Hl Hb).
Qed.

Theorem run_scan_meets_stream_hypothesis ops sid pid start limit :
  Forall StoreSimProofs.wf_op ops -> br_stream_in_partition (abs_visible (run ops)) sid pid -> (0 < limit)%nat ->
  exists batches, scan (run ops) (KStream sid) start Fwd limit = Some batches /\
    let cs := br_scommits batches in
    cr_all_nonempty cs /\ vincr start (concat cs) /\ sincr 0 (concat cs).
Proof.
  intros W Hin Hl. pose proof (run_Scannable ops (KStream sid) W) as HS.
  destruct (forward_exact _ _ start limit HS Hl) as (b & Hb & _). exists b. split; [assumption|].
  apply (scan_meets_stream_hypothesis _ _ pid _ _ _ HS (run_Scannable ops (KPartition pid) W) Hin Hl Hb).
Qed.

Theorem run_scan_meets_stream_hypothesis_routed f ops sid pk start limit :
  Forall StoreSimProofs.wf_op ops -> br_routed f ops ->
  (forall e, In e (all_events (abs_visible (run ops))) -> e_sid e = sid -> e_pk e = pk) -> (0 < limit)%nat ->
  exists batches, scan (run ops) (KStream sid) start Fwd limit = Some batches /\
    let cs := br_scommits batches in
    cr_all_nonempty cs /\ vincr start (concat cs) /\ sincr 0 (concat cs).
Proof.
  intros W R Hpk. apply (run_scan_meets_stream_hypothesis ops sid (f pk)); [assumption|].
  apply br_routed_stream_in_partition; assumption.
Qed.

Theorem run_partition_read_over_storage ops pid conf q start endo count limit orc :
  Forall StoreSimProofs.wf_op ops -> (0 < limit)%nat ->
  let s := run ops in
  let W := br_watermark q conf (abs_visible s) pid in
  (exists batches, scan s (KPartition pid) start Fwd limit = Some batches /\
    let r := partition_read (br_pcommits batches) orc W start endo count in
    fst r = map e_seq (firstn (N.to_nat count)
                         (filter (br_prange W endo) (spec_scan_partition_fwd (abs_visible s) pid start))) /\
    (forall x, In x (fst r) -> x < W) /\
    (snd r = false ->
     forall e, In e (spec_scan_partition_fwd (abs_visible s) pid start) -> br_prange W endo e = true ->
               In (e_seq e) (fst r))) /\
  (* the watermark: everything below it reached the quorum, the event at it did not *)
  (forall e, In e (all_events (abs_visible s)) -> e_pid e = pid -> e_seq e < W -> q <= conf e) /\
  (forall e, In e (all_events (abs_visible s)) -> e_pid e = pid -> e_seq e = W -> conf e < q).
Proof.
  intros W Hl. cbn zeta. pose proof (run_Scannable ops (KPartition pid) W) as HS. split.
  - apply (partition_read_over_scannable _ _ conf q start endo count limit orc HS Hl).
  - destruct (br_watermark_spec _ _ q conf HS) as (_ & A & B). split; assumption.
Qed.

Theorem run_stream_read_over_storage f ops sid pk conf q start endo count limit orc :
  Forall StoreSimProofs.wf_op ops -> br_routed f ops ->
  (forall e, In e (all_events (abs_visible (run ops))) -> e_sid e = sid -> e_pk e = pk) -> (0 < limit)%nat ->
  let s := run ops in
  let pid := f pk in
  let W := br_watermark q conf (abs_visible s) pid in
  (exists batches, scan s (KStream sid) start Fwd limit = Some batches /\
    let r := stream_read (br_scommits batches) orc W endo count in
    fst r = map br_sev (firstn (N.to_nat count)
                          (filter (br_srange W endo) (spec_scan_stream_fwd (abs_visible s) sid start))) /\
    (forall x, In x (fst r) -> snd x < W) /\
    (snd r = false ->
     fst r = map br_sev (filter (br_srange W endo) (spec_scan_stream_fwd (abs_visible s) sid start)))) /\
  (forall e, In e (all_events (abs_visible s)) -> e_sid e = sid -> e_seq e < W -> q <= conf e).
Proof.
  intros W R Hpk Hl. cbn zeta.
  pose proof (run_Scannable ops (KPartition (f pk)) W) as HP.
  pose proof (br_routed_stream_in_partition f ops sid pk W R Hpk) as Hin. split.
  - apply (stream_read_over_scannable _ _ _ conf q start endo count limit orc (run_Scannable ops (KStream sid) W) HP Hin Hl).
  - destruct (br_watermark_spec _ _ q conf HP) as (_ & A & _). intros e He Hs. apply A; [assumption|]. apply Hin; assumption.
Qed.

(** ---- without routing the stream statement is false ------------------------------------------------------ *)
(** stream 7 (partition key 1) is written first through partition id 0 (after another event of that
    partition, so at sequence 1) and then through partition id 1 (sequence 0).  The storage layer accepts
    both (Transaction::new takes key and id independently).  The stream scan then yields sequences 1, 0:
    not increasing; with partition 0's watermark 1 the read loop stops at the first event and returns
    nothing although version 1 (sequence 0 < 1) would pass the filter of [stream_read_exact]. *)
Definition br_ne id sid := mkNew id sid XAny true.
Definition br_unrouted_ops : list op :=
  [ OAppend (mkTxn 2 0 100 true [br_ne 1 8] XAny) false false;
    OAppend (mkTxn 1 0 101 true [br_ne 2 7] XAny) false false;
    OAppend (mkTxn 1 1 102 true [br_ne 3 7] XAny) false false;
    OSync ].

Theorem br_unrouted_stream_refuted :
  Forall StoreSimProofs.wf_op br_unrouted_ops /\
  exists batches, scan (run br_unrouted_ops) (KStream 7) 0 Fwd 5 = Some batches /\
    concat (br_scommits batches) = [(0, 1); (1, 0)] /\
    (forall lo, ~ sincr lo (concat (br_scommits batches))) /\
    fst (stream_read (br_scommits batches) [] 1 None 10) = [] /\
    firstn 10 (filter (sr_ok 1 None) (concat (br_scommits batches))) = [(1, 0)].
Proof.
  split.
  - repeat constructor; cbn; try discriminate; intros H; discriminate H.
  - assert (E : exists b, scan (run br_unrouted_ops) (KStream 7) 0 Fwd 5 = Some b /\
                         br_scommits b = [[(0, 1)]; [(1, 0)]]).
    { eexists. split; vm_compute; reflexivity. }
    destruct E as (b & E1 & E2). exists b. split; [exact E1|]. rewrite E2.
    split; [reflexivity|]. split; [|split; vm_compute; reflexivity].
    intros lo H. cbn [concat app sincr snd] in H. lia.
Qed.

(** ---- 3. the log-derived iterator model of Model/ClusterRead.v IS the real scan ------------------------------
    Model/ClusterRead.v also says what the iterators yield "from a partition log" ([cr_partition_commits],
    [cr_stream_commits] over a [cr_log] = the partition's transactions as lists of (stream, count)); these are
    the functions the C07 driver runs and [cr_watermark] is computed on.  [br_log conf l pid] is that log for
    partition [pid] of the stored log [l]; on it the two functions return exactly the converted scan result,
    and [cr_watermark] is [br_watermark]. *)
Definition br_log (conf : event -> N) (l : alog) (pid : N) : cr_log :=
  map (map (fun e => (e_sid e, conf e))) (filter nonnil (map (filter (fun e => e_pid e =? pid)) l)).

Lemma br_log_counts conf l pid : cr_counts (br_log conf l pid) = map conf (br_pevents l pid).
Proof.
  unfold cr_counts, br_log, br_pevents, all_events.
  rewrite br_concat_map, map_map, concat_filter_nonnil, <- filter_concat. reflexivity.
Qed.

Theorem br_log_watermark rf conf l pid :
  cr_watermark rf (br_log conf l pid) = br_watermark (wm_quorum rf) conf l pid.
Proof. unfold cr_watermark. rewrite br_log_counts. apply br_watermark_is_initialize. Qed.

Lemma br_log_cons conf g l pid :
  br_log conf (g :: l) pid =
  match filter (fun e => e_pid e =? pid) g with
  | [] => br_log conf l pid
  | gp => map (fun e => (e_sid e, conf e)) gp :: br_log conf l pid
  end.
Proof. unfold br_log. cbn [map filter]. destruct (filter (fun e => e_pid e =? pid) g); reflexivity. Qed.

Lemma br_filter_and {A} (a b : A -> bool) l : filter (fun x => a x && b x) l = filter b (filter a l).
Proof. induction l as [|x l IH]; cbn; [reflexivity|]. destruct (a x); cbn; [destruct (b x)|]; rewrite IH; reflexivity. Qed.

Lemma br_Efwd_cons k p g l :
  Efwd k p (g :: l) =
  match filter (fun e => p <=? key_pos k e) (filter (matches k) g) with
  | [] => Efwd k p l
  | x => x :: Efwd k p l
  end.
Proof.
  unfold Efwd. cbn [map filter].
  assert (E : filter (Pge k p) g = filter (fun e => p <=? key_pos k e) (filter (matches k) g))
    by (unfold Pge; apply br_filter_and).
  rewrite E.
  destruct (filter (fun e => p <=? key_pos k e) (filter (matches k) g)); reflexivity.
Qed.

(** the key's events of a stretch of the log carry the positions c, c+1, ... *)
Lemma br_posincr_range k : forall g c, posincr k (fun e : event => e) c g ->
  map (key_pos k) (filter (matches k) g) = cr_range c (length (filter (matches k) g)).
Proof.
  induction g as [|e g IH]; intros c H; [reflexivity|]. cbn [posincr] in H. unfold mt in H. cbn [filter].
  destruct (matches k e).
  - destruct H as [H1 H2]. cbn [map length cr_range]. rewrite H1, (IH _ H2). reflexivity.
  - apply IH. assumption.
Qed.

Lemma br_cr_nonempty_cons {A} (x : list A) r :
  cr_nonempty (x :: r) = match x with [] => cr_nonempty r | _ => x :: cr_nonempty r end.
Proof. unfold cr_nonempty. cbn [filter]. destruct x; reflexivity. Qed.

Lemma br_pcommits_log conf pid start : forall l c,
  posincr (KPartition pid) (fun e : event => e) c (concat l) ->
  cr_nonempty (cr_pcommits (br_log conf l pid) c start) = map (map e_seq) (Efwd (KPartition pid) start l).
Proof.
  induction l as [|g l IH]; intros c H; [reflexivity|].
  cbn [concat] in H. apply posincr_app in H. destruct H as [Hg Hl].
  pose proof (br_posincr_range _ _ _ Hg) as R. unfold kcount in Hl.
  change (filter (mt (KPartition pid) (fun e : event => e)) g) with (filter (fun e => e_pid e =? pid) g) in Hl.
  change (filter (matches (KPartition pid)) g) with (filter (fun e => e_pid e =? pid) g) in R.
  change (key_pos (KPartition pid)) with e_seq in R.
  rewrite br_log_cons, br_Efwd_cons.
  change (filter (matches (KPartition pid)) g) with (filter (fun e => e_pid e =? pid) g).
  change (key_pos (KPartition pid)) with e_seq.
  remember (filter (fun e => e_pid e =? pid) g) as gp eqn:Egp. destruct gp as [|e0 gp'].
  - cbn [filter]. cbn [length] in Hl. rewrite N.add_0_r in Hl. apply IH. assumption.
  - cbn [cr_pcommits]. rewrite map_length, br_cr_nonempty_cons, (IH _ Hl), <- R, br_filter_map.
    destruct (filter (fun e => start <=? e_seq e) (e0 :: gp')) as [|z zs]; reflexivity.
Qed.

Theorem br_partition_commits_log s pid conf start :
  Scannable s (KPartition pid) ->
  cr_partition_commits (br_log conf (abs_visible s) pid) start
  = map (map e_seq) (Efwd (KPartition pid) start (abs_visible s)).
Proof.
  intros HS. unfold cr_partition_commits. apply br_pcommits_log.
  pose proof (all_posincr s _ HS) as Hp. rewrite <- all_events_Ls in Hp. exact Hp.
Qed.

(** streams: versions are ranks within the stream, sequences positions within the partition *)
Lemma br_posincr_filter k (p : event -> bool) : forall g c,
  (forall e, In e g -> matches k e = true -> p e = true) ->
  posincr k (fun e : event => e) c g -> posincr k (fun e : event => e) c (filter p g).
Proof.
  induction g as [|e g IH]; intros c Hp H; [exact I|]. cbn [posincr filter] in *. unfold mt in *.
  destruct (matches k e) eqn:Em.
  - rewrite (Hp e (or_introl eq_refl) Em). cbn [posincr]. unfold mt. rewrite Em. destruct H as [H1 H2].
    split; [assumption|]. apply IH; [|assumption]. intros x Hx. apply Hp. right. assumption.
  - assert (IH' : posincr k (fun e : event => e) c (filter p g)).
    { apply IH; [|assumption]. intros x Hx. apply Hp. right. assumption. }
    destruct (p e); [|assumption]. cbn [posincr]. unfold mt. rewrite Em. assumption.
Qed.

Lemma br_sview_commit conf x pid : forall gp cv cs,
  (forall e, In e gp -> e_pid e = pid) ->
  posincr (KStream x) (fun e : event => e) cv gp -> posincr (KPartition pid) (fun e : event => e) cs gp ->
  cr_sview_commit x (map (fun e => (e_sid e, conf e)) gp) cv cs
  = (map br_sev (filter (fun e => e_sid e =? x) gp), cv + N.of_nat (length (filter (fun e => e_sid e =? x) gp))).
Proof.
  induction gp as [|e gp IH]; intros cv cs Hin Hv Hs.
  - cbn. rewrite N.add_0_r. reflexivity.
  - cbn [posincr] in Hv, Hs. unfold mt in Hv, Hs. cbn [matches] in Hv, Hs.
    rewrite (proj2 (N.eqb_eq _ _) (Hin e (or_introl eq_refl))) in Hs. destruct Hs as [Hs1 Hs2].
    assert (Hin' : forall e', In e' gp -> e_pid e' = pid) by (intros e' He'; apply Hin; right; assumption).
    cbn [map cr_sview_commit filter]. destruct (e_sid e =? x).
    + destruct Hv as [Hv1 Hv2]. rewrite (IH _ _ Hin' Hv2 Hs2). cbn [map length key_pos] in *.
      unfold br_sev. rewrite Hv1, Hs1. f_equal. lia.
    + apply IH; assumption.
Qed.

Lemma br_scommits_log conf x pid start : forall l cv cs,
  (forall e, In e (concat l) -> e_sid e = x -> e_pid e = pid) ->
  posincr (KStream x) (fun e : event => e) cv (concat l) ->
  posincr (KPartition pid) (fun e : event => e) cs (concat l) ->
  cr_nonempty (map (filter (fun e => start <=? fst e)) (cr_sview x (br_log conf l pid) cv cs))
  = map (map br_sev) (Efwd (KStream x) start l).
Proof.
  induction l as [|g l IH]; intros cv cs Hin Hv Hs; [reflexivity|].
  cbn [concat] in Hin, Hv, Hs. apply posincr_app in Hv, Hs. destruct Hv as [Hvg Hvl], Hs as [Hsg Hsl].
  unfold kcount in Hvl, Hsl.
  change (filter (mt (KStream x) (fun e : event => e)) g) with (filter (fun e => e_sid e =? x) g) in Hvl.
  change (filter (mt (KPartition pid) (fun e : event => e)) g) with (filter (fun e => e_pid e =? pid) g) in Hsl.
  assert (Hinl : forall e, In e (concat l) -> e_sid e = x -> e_pid e = pid).
  { intros e He. apply Hin. apply in_or_app. right. assumption. }
  (* the stream's events of g are those of its partition part *)
  assert (Hsg' : filter (fun e => e_sid e =? x) (filter (fun e => e_pid e =? pid) g) = filter (fun e => e_sid e =? x) g).
  { apply br_filter_filter_imp. intros e He Hx. apply N.eqb_eq. apply Hin; [apply in_or_app; left; assumption|].
    apply N.eqb_eq. assumption. }
  rewrite br_log_cons, br_Efwd_cons.
  change (filter (matches (KStream x)) g) with (filter (fun e => e_sid e =? x) g).
  change (key_pos (KStream x)) with e_ver.
  assert (Hgp_in : forall e, In e (filter (fun e => e_pid e =? pid) g) -> e_pid e = pid).
  { intros e He. apply filter_In in He. apply N.eqb_eq. apply He. }
  assert (Hvgp : posincr (KStream x) (fun e : event => e) cv (filter (fun e => e_pid e =? pid) g)).
  { apply br_posincr_filter; [|assumption]. intros e He Hx. cbn in Hx. apply N.eqb_eq in Hx.
    apply N.eqb_eq. apply Hin; [apply in_or_app; left; assumption|assumption]. }
  assert (Hsgp : posincr (KPartition pid) (fun e : event => e) cs (filter (fun e => e_pid e =? pid) g)).
  { apply br_posincr_filter; [|assumption]. intros e He Hx. exact Hx. }
  pose proof (br_sview_commit conf x pid _ cv cs Hgp_in Hvgp Hsgp) as SV. rewrite Hsg' in SV.
  remember (filter (fun e => e_pid e =? pid) g) as gp eqn:Egp. destruct gp as [|e0 gp'].
  - rewrite <- Hsg'. cbn [filter]. rewrite <- Hsg' in Hvl. cbn [filter length] in Hvl, Hsl.
    rewrite N.add_0_r in Hvl, Hsl. apply IH; assumption.
  - cbn [cr_sview]. rewrite SV, map_length.
    cbn [map]. rewrite br_cr_nonempty_cons, (IH _ _ Hinl Hvl Hsl), br_filter_map.
    cbn [br_sev fst].
    destruct (filter (fun e => start <=? e_ver e) (filter (fun e => e_sid e =? x) g)) as [|z zs]; reflexivity.
Qed.

Theorem br_stream_commits_log s x pid conf start :
  Scannable s (KStream x) -> Scannable s (KPartition pid) -> br_stream_in_partition (abs_visible s) x pid ->
  cr_stream_commits x (br_log conf (abs_visible s) pid) start
  = map (map br_sev) (Efwd (KStream x) start (abs_visible s)).
Proof.
  intros HS HP Hin. unfold cr_stream_commits. apply br_scommits_log.
  - exact Hin.
  - pose proof (all_posincr s _ HS) as Hp. rewrite <- all_events_Ls in Hp. exact Hp.
  - pose proof (all_posincr s _ HP) as Hp. rewrite <- all_events_Ls in Hp. exact Hp.
Qed.

(** the statements in terms of [scan] *)
Theorem partition_commits_are_scan s pid conf start limit :
  Scannable s (KPartition pid) -> (0 < limit)%nat ->
  exists batches, scan s (KPartition pid) start Fwd limit = Some batches /\
    br_pcommits batches = cr_partition_commits (br_log conf (abs_visible s) pid) start.
Proof.
  intros HS Hl. destruct (forward_groups s _ start limit HS Hl) as (b & Hb & Hg & _).
  exists b. split; [assumption|]. unfold br_pcommits, br_groups. rewrite Hg. symmetry.
  apply br_partition_commits_log. assumption.
Qed.

Theorem stream_commits_are_scan s x pid conf start limit :
  Scannable s (KStream x) -> Scannable s (KPartition pid) -> br_stream_in_partition (abs_visible s) x pid ->
  (0 < limit)%nat ->
  exists batches, scan s (KStream x) start Fwd limit = Some batches /\
    br_scommits batches = cr_stream_commits x (br_log conf (abs_visible s) pid) start.
Proof.
  intros HS HP Hin Hl. destruct (forward_groups s _ start limit HS Hl) as (b & Hb & Hg & _).
  exists b. split; [assumption|]. unfold br_scommits, br_groups. rewrite Hg. symmetry.
  apply br_stream_commits_log; assumption.
Qed.

Theorem run_partition_commits_are_scan ops pid conf rf start limit :
  Forall StoreSimProofs.wf_op ops -> (0 < limit)%nat ->
  let log := br_log conf (abs_visible (run ops)) pid in
  (exists batches, scan (run ops) (KPartition pid) start Fwd limit = Some batches /\
     br_pcommits batches = cr_partition_commits log start) /\
  cr_watermark rf log = br_watermark (wm_quorum rf) conf (abs_visible (run ops)) pid.
Proof.
  intros W Hl. cbn zeta. split; [|apply br_log_watermark].
  apply partition_commits_are_scan; [apply run_Scannable|]; assumption.
Qed.

Theorem run_stream_commits_are_scan f ops x pk conf start limit :
  Forall StoreSimProofs.wf_op ops -> br_routed f ops ->
  (forall e, In e (all_events (abs_visible (run ops))) -> e_sid e = x -> e_pk e = pk) -> (0 < limit)%nat ->
  exists batches, scan (run ops) (KStream x) start Fwd limit = Some batches /\
    br_scommits batches = cr_stream_commits x (br_log conf (abs_visible (run ops)) (f pk)) start.
Proof.
  intros W R Hpk Hl. apply stream_commits_are_scan; try apply run_Scannable; try assumption.
  apply br_routed_stream_in_partition; assumption.
Qed.

(** ---- 4. the read loops DRIVING the real iterator ----------------------------------------------------------
    Above the loops of Model/ClusterRead.v run on the commits of a whole [scan] with one fixed batch limit, the
    batch cuts being an oracle.  The code does something more entangled: it creates ONE iterator and calls
    [next_batch(limit)] with a limit computed from its own state before every call (`min(eff - last, 50)`, resp.
    `(end - last).clamp(1, 50)`), handles the returned batch, and stops when a break condition holds or the
    iterator is exhausted.  [partition_read_store] / [stream_read_store] are exactly that, on the iterator of
    Model/StoreIter.v ([iter_new], [next_batch]); they are proved equal to [partition_read] / [stream_read] on the
    converted scan result FOR EVERY ORACLE — so the oracle abstraction loses nothing, and every C07 theorem
    transfers to the loop over the real iterator. *)
Definition br_nb_fuel (s : store) : nat :=
  S (S (nsegs s + length (concat (map (fun g => s_recs g) (sealed s))) + length (s_recs (live s)))).
Definition br_loop_fuel (s : store) : nat :=
  S (length (concat (map (fun g => s_recs g) (sealed s))) + length (s_recs (live s))).

(** `for commit in commits { for event in commit { .. break 'iter .. } }` and the two checks after it;
    the flag says that the read is over *)
Fixpoint pr_batch (cs : list (list N)) (count eff : N) (st : pr_state) : pr_state * bool :=
  match cs with
  | [] => (st, (count <=? pr_collected st) || (eff <=? pr_last st))
  | c :: t => let '(st', broke) := pr_events c count eff st in
              if broke then (st', true) else pr_batch t count eff st'
  end.

Fixpoint pr_store_loop (s : store) (pid : N) (it : biter) (count eff : N) (st : pr_state) (fuel : nat)
  : option pr_state :=
  match fuel with
  | O => None
  | S f =>
      let limit := N.min (eff - pr_last st) cr_batch in
      if limit =? 0 then Some st
      else match next_batch s (KPartition pid) Fwd (N.to_nat limit) it (br_nb_fuel s) with
           | BDone => Some st
           | BError => None
           | BBatch cs it' =>
               let '(st', stop) := pr_batch (map (fun c => map e_seq (committed_events c)) cs) count eff st in
               if stop then Some st' else pr_store_loop s pid it' count eff st' f
           end
  end.

(** handle_partition_read_locally on the storage model; None = iterator error / fuel (never: see below) *)
Definition partition_read_store (s : store) (pid W start : N) (endo : option N) (count : N)
  : option (list N * bool) :=
  if W <=? start then Some ([], false)
  else match pr_store_loop s pid (iter_new s (KPartition pid) start Fwd) count (pr_eff W endo)
                           (mkPr [] 0 start) (br_loop_fuel s) with
       | Some st => Some (pr_acc st, pr_last st <? W)
       | None => None
       end.

Fixpoint sr_batch (cs : list (list (N * N))) (count W : N) (endo : option N) (st : sr_state) : sr_state * bool :=
  match cs with
  | [] => (st, false)
  | c :: t =>
      let '(st', b) := sr_events c count W endo st in
      match b with
      | SrIter => (st', true)
      | _ => if count <=? sr_collected st' then (sr_set_more st', true)
             else if sr_reached endo (sr_last st') then (st', true)
             else sr_batch t count W endo st'
      end
  end.

Fixpoint sr_store_loop (s : store) (sid : N) (it : biter) (count W : N) (endo : option N) (st : sr_state)
  (fuel : nat) : option sr_state :=
  match fuel with
  | O => None
  | S f =>
      match next_batch s (KStream sid) Fwd (N.to_nat (sr_limit endo (sr_last st))) it (br_nb_fuel s) with
      | BDone => Some st
      | BError => None
      | BBatch cs it' =>
          let '(st', stop) := sr_batch (map (fun c => map br_sev (committed_events c)) cs) count W endo st in
          if stop then Some st' else sr_store_loop s sid it' count W endo st' f
      end
  end.

Definition stream_read_store (s : store) (sid start W : N) (endo : option N) (count : N)
  : option (list (N * N) * bool) :=
  match sr_store_loop s sid (iter_new s (KStream sid) start Fwd) count W endo (mkSr [] 0 0 false)
                      (br_loop_fuel s) with
  | Some st => Some (sr_acc st, sr_more st)
  | None => None
  end.

(** ---- one batch against the flat loop ---- *)
Lemma pr_batch_flat count eff : forall b rest st st1 stop,
  cincr (pr_last st) (concat b ++ rest) ->
  pr_batch b count eff st = (st1, stop) ->
  fst (pr_events (concat b ++ rest) count eff st)
  = (if stop then st1 else fst (pr_events rest count eff st1)) /\
  (stop = false -> cincr (pr_last st1) rest).
Proof.
  induction b as [|c t IH]; intros rest st st1 stop Hi H.
  - cbn [pr_batch] in H. injection H as <- <-. cbn [concat app] in *.
    destruct (count <=? pr_collected st) eqn:E1; cbn [orb].
    + split; [|discriminate]. apply pr_stuck. left. apply N.leb_le. assumption.
    + destruct (eff <=? pr_last st) eqn:E2.
      * split; [|discriminate]. apply pr_stuck. right. intros e He. apply N.leb_le in E2.
        pose proof (incr_ge _ _ Hi e He). lia.
      * split; [reflexivity|]. intros _. assumption.
  - cbn [pr_batch] in H. cbn [concat] in *. rewrite <- app_assoc in *. rewrite pr_events_app.
    apply incr_app in Hi. destruct Hi as [Hc Ht].
    destruct (pr_events c count eff st) as [st' br] eqn:E. destruct br.
    + injection H as <- <-. split; [reflexivity|discriminate].
    + rewrite <- (pr_events_nobreak _ _ _ _ _ E) in Ht. apply (IH _ _ _ _ Ht H).
Qed.

Lemma sr_loop_indep count W endo cs : forall l o l' o' st,
  sr_loop cs l o count W endo st = sr_loop cs l' o' count W endo st.
Proof.
  induction cs as [|c t IH]; intros l o l' o' st; [reflexivity|].
  destruct (sr_loop_step c t l o count W endo st) as (l1 & o1 & ->).
  destruct (sr_loop_step c t l' o' count W endo st) as (l2 & o2 & ->).
  destruct (sr_events c count W endo st) as [st' b].
  destruct b; try reflexivity;
    (destruct (count <=? sr_collected st'); [reflexivity|];
     destruct (sr_reached endo (sr_last st')); [reflexivity|apply IH]).
Qed.

Lemma sr_batch_flat count W endo : forall b rest l o st st1 stop,
  sr_batch b count W endo st = (st1, stop) ->
  sr_loop (b ++ rest) l o count W endo st
  = (if stop then st1 else sr_loop rest 0 [] count W endo st1).
Proof.
  induction b as [|c t IH]; intros rest l o st st1 stop H.
  - cbn [sr_batch] in H. injection H as <- <-. cbn [app]. apply sr_loop_indep.
  - cbn [sr_batch] in H. cbn [app].
    destruct (sr_loop_step c (t ++ rest) l o count W endo st) as (l1 & o1 & ->).
    destruct (sr_events c count W endo st) as [st' b]. destruct b.
    + destruct (count <=? sr_collected st'); [injection H as <- <-; reflexivity|].
      destruct (sr_reached endo (sr_last st')); [injection H as <- <-; reflexivity|]. apply (IH _ _ _ _ _ _ H).
    + destruct (count <=? sr_collected st'); [injection H as <- <-; reflexivity|].
      destruct (sr_reached endo (sr_last st')); [injection H as <- <-; reflexivity|]. apply (IH _ _ _ _ _ _ H).
    + injection H as <- <-. reflexivity.
Qed.

(** ---- the loops over the iterator ---- *)
Section Driven.
Variables (s : store) (k : skey).
Hypothesis HS : Scannable s k.

Lemma br_next_batch limit it i G : (1 <= limit)%nat -> FwdState s k it i G ->
  fwd_result s k limit (map (kfilter k) G ++ Elater s k i) (next_batch s k Fwd limit it (br_nb_fuel s)).
Proof.
  intros Hl Hst. apply (fwd_batch s k HS limit Hl (live_id s) it i G); [lia| |assumption].
  unfold br_nb_fuel, nsegs, live_id. lia.
Qed.

Lemma br_groups_bound from : (length (Efwd k from (abs_visible s)) < br_loop_fuel s)%nat.
Proof.
  pose proof (Efwd_length k from (abs_visible s)). pose proof (visible_length s k HS).
  unfold total_recs, br_loop_fuel in *. apply Nat.lt_succ_r. eapply Nat.le_trans; eassumption.
Qed.
End Driven.

Lemma br_split_groups {B} (f : event -> B) n (E : list (list event)) :
  map f (concat E) = concat (map (map f) (firstn n E)) ++ map f (concat (skipn n E)).
Proof.
  rewrite <- (firstn_skipn n E) at 1. rewrite concat_app, map_app, br_concat_map. reflexivity.
Qed.

Lemma pr_store_loop_flat s pid count eff : Scannable s (KPartition pid) ->
  forall fuel it i G st,
  FwdState s (KPartition pid) it i G ->
  let E := map (kfilter (KPartition pid)) G ++ Elater s (KPartition pid) i in
  (length E < fuel)%nat -> cincr (pr_last st) (map e_seq (concat E)) ->
  pr_store_loop s pid it count eff st fuel = Some (fst (pr_events (map e_seq (concat E)) count eff st)).
Proof.
  intros HS. induction fuel as [|f IH]; intros it i G st Hst E Hlen Hi; [lia|].
  cbn [pr_store_loop]. destruct (N.min (eff - pr_last st) cr_batch =? 0) eqn:EL.
  - f_equal. symmetry. apply pr_stuck. right. intros e He. apply N.eqb_eq in EL. unfold cr_batch in EL.
    pose proof (incr_ge _ _ Hi e He). lia.
  - apply N.eqb_neq in EL.
    destruct (br_next_batch s _ HS (N.to_nat (N.min (eff - pr_last st) cr_batch)) it i G ltac:(lia) Hst)
      as [[HE ->]|(cs & it' & j & G' & n & -> & Hn & Hcsn & Hcs & Hst' & HE')].
    + fold E in HE. rewrite HE. reflexivity.
    + fold E in Hcs, HE'.
      assert (Hb : map (fun c => map e_seq (committed_events c)) cs = map (map e_seq) (firstn n E)).
      { rewrite <- Hcs, map_map. reflexivity. }
      rewrite Hb. rewrite (br_split_groups e_seq n E) in Hi |- *.
      destruct (pr_batch (map (map e_seq) (firstn n E)) count eff st) as [st1 stop] eqn:EB.
      destruct (pr_batch_flat count eff _ _ _ _ _ Hi EB) as [F1 F2]. rewrite F1. destruct stop; [reflexivity|].
      rewrite <- HE' in *. apply IH; [assumption| |apply F2; reflexivity].
      rewrite HE', skipn_length. pose proof (f_equal (@length _) Hcs) as Hl'.
      rewrite map_length, firstn_length in Hl'. lia.
Qed.

Lemma sr_store_loop_flat s sid count W endo : Scannable s (KStream sid) ->
  forall fuel it i G st,
  FwdState s (KStream sid) it i G ->
  let E := map (kfilter (KStream sid)) G ++ Elater s (KStream sid) i in
  (length E < fuel)%nat ->
  sr_store_loop s sid it count W endo st fuel = Some (sr_loop (map (map br_sev) E) 0 [] count W endo st).
Proof.
  intros HS. induction fuel as [|f IH]; intros it i G st Hst E Hlen; [lia|].
  cbn [sr_store_loop].
  assert (Hlim : (1 <= N.to_nat (sr_limit endo (sr_last st)))%nat).
  { pose proof (sr_limit_pos endo (sr_last st)) as P. apply N.eqb_neq in P. lia. }
  destruct (br_next_batch s _ HS _ it i G Hlim Hst)
    as [[HE ->]|(cs & it' & j & G' & n & -> & Hn & Hcsn & Hcs & Hst' & HE')].
  - fold E in HE. rewrite HE. reflexivity.
  - fold E in Hcs, HE'.
    assert (Hb : map (fun c => map br_sev (committed_events c)) cs = map (map br_sev) (firstn n E)).
    { rewrite <- Hcs, map_map. reflexivity. }
    rewrite Hb. rewrite <- (firstn_skipn n E) at 2. rewrite map_app.
    destruct (sr_batch (map (map br_sev) (firstn n E)) count W endo st) as [st1 stop] eqn:EB.
    rewrite (sr_batch_flat count W endo _ _ _ _ _ _ _ EB). destruct stop; [reflexivity|].
    rewrite <- HE'. apply IH; [assumption|]. rewrite HE', skipn_length.
    pose proof (f_equal (@length _) Hcs) as Hl'. rewrite map_length, firstn_length in Hl'. lia.
Qed.

(** the start: [iter_new] *)
Lemma br_iter_new s k from : Scannable s k ->
  let it := iter_new s k from Fwd in
  (b_seg it = None /\ Efwd k from (abs_visible s) = []) \/
  (exists j G, FwdState s k it j G /\ map (kfilter k) G ++ Elater s k j = Efwd k from (abs_visible s)).
Proof.
  intros HS. cbn zeta. unfold iter_new. rewrite Efwd_visible.
  destruct (new_inner_fwd s k HS 0 from ltac:(lia) ltac:(rewrite cpos_0; lia)) as [[Hn HE]|(j & G & _ & Hst & HE)].
  - left. split; assumption.
  - right. exists j, G. split; assumption.
Qed.

(** ---- the theorems ---- *)
Theorem partition_read_store_is_model s pid W start endo count limit orc :
  Scannable s (KPartition pid) -> (0 < limit)%nat ->
  exists batches, scan s (KPartition pid) start Fwd limit = Some batches /\
    partition_read_store s pid W start endo count
    = Some (partition_read (br_pcommits batches) orc W start endo count).
Proof.
  intros HS Hl. destruct (forward_groups s _ start limit HS Hl) as (b & Hb & Hg & _).
  exists b. split; [assumption|].
  pose proof (scan_meets_partition_hypothesis _ _ _ _ _ HS Hl Hb) as Hi.
  unfold partition_read_store, partition_read. destruct (W <=? start); [reflexivity|].
  rewrite (pr_loop_flat _ _ _ 0 orc (mkPr [] 0 start)) by exact Hi.
  assert (Hc : concat (br_pcommits b) = map e_seq (concat (Efwd (KPartition pid) start (abs_visible s)))).
  { unfold br_pcommits, br_groups. rewrite Hg. apply br_concat_map. }
  rewrite Hc in *.
  destruct (br_iter_new s _ start HS) as [[Hn HE]|(j & G & Hst & HE)].
  - rewrite HE. unfold br_loop_fuel. cbn [pr_store_loop].
    destruct (N.min (pr_eff W endo - pr_last (mkPr [] 0 start)) cr_batch =? 0); [reflexivity|].
    unfold br_nb_fuel. rewrite next_batch_none by assumption. reflexivity.
  - rewrite <- HE in *. rewrite (pr_store_loop_flat s pid count (pr_eff W endo) HS _ _ j G _ Hst).
    + reflexivity.
    + rewrite HE. apply br_groups_bound. assumption.
    + exact Hi.
Qed.

Theorem stream_read_store_is_model s sid W start endo count limit orc :
  Scannable s (KStream sid) -> (0 < limit)%nat ->
  exists batches, scan s (KStream sid) start Fwd limit = Some batches /\
    stream_read_store s sid start W endo count
    = Some (stream_read (br_scommits batches) orc W endo count).
Proof.
  intros HS Hl. destruct (forward_groups s _ start limit HS Hl) as (b & Hb & Hg & _).
  exists b. split; [assumption|].
  unfold stream_read_store, stream_read.
  rewrite (sr_loop_indep count W endo (br_scommits b) 0 orc 0 []).
  unfold br_scommits, br_groups. rewrite Hg.
  destruct (br_iter_new s _ start HS) as [[Hn HE]|(j & G & Hst & HE)].
  - rewrite HE. unfold br_loop_fuel. cbn [sr_store_loop]. unfold br_nb_fuel.
    rewrite next_batch_none by assumption. reflexivity.
  - rewrite <- HE. rewrite (sr_store_loop_flat s sid count W endo HS _ _ j G _ Hst); [reflexivity|].
    rewrite HE. apply br_groups_bound. assumption.
Qed.

(** for every reachable store, with everything C07 says about the result *)
Theorem run_partition_read_store ops pid conf q start endo count :
  Forall StoreSimProofs.wf_op ops ->
  let s := run ops in
  let W := br_watermark q conf (abs_visible s) pid in
  exists r, partition_read_store s pid W start endo count = Some r /\
    fst r = map e_seq (firstn (N.to_nat count)
                         (filter (br_prange W endo) (spec_scan_partition_fwd (abs_visible s) pid start))) /\
    (forall x, In x (fst r) -> x < W) /\
    (snd r = false ->
     forall e, In e (spec_scan_partition_fwd (abs_visible s) pid start) -> br_prange W endo e = true ->
               In (e_seq e) (fst r)).
Proof.
  intros Wf. cbn zeta. pose proof (run_Scannable ops (KPartition pid) Wf) as HS.
  destruct (partition_read_store_is_model _ pid (br_watermark q conf (abs_visible (run ops)) pid) start endo count
              1%nat [] HS ltac:(lia)) as (b & Hb & Hr).
  destruct (partition_read_over_scannable _ pid conf q start endo count 1%nat [] HS ltac:(lia)) as (b' & Hb' & H).
  assert (b' = b) by congruence. subst b'. eexists. split; [exact Hr|exact H].
Qed.

Theorem run_stream_read_store f ops sid pk conf q start endo count :
  Forall StoreSimProofs.wf_op ops -> br_routed f ops ->
  (forall e, In e (all_events (abs_visible (run ops))) -> e_sid e = sid -> e_pk e = pk) ->
  let s := run ops in
  let W := br_watermark q conf (abs_visible s) (f pk) in
  exists r, stream_read_store s sid start W endo count = Some r /\
    fst r = map br_sev (firstn (N.to_nat count)
                          (filter (br_srange W endo) (spec_scan_stream_fwd (abs_visible s) sid start))) /\
    (forall x, In x (fst r) -> snd x < W) /\
    (snd r = false ->
     fst r = map br_sev (filter (br_srange W endo) (spec_scan_stream_fwd (abs_visible s) sid start))).
Proof.
  intros Wf R Hpk. cbn zeta. pose proof (run_Scannable ops (KStream sid) Wf) as HS.
  destruct (stream_read_store_is_model _ sid (br_watermark q conf (abs_visible (run ops)) (f pk)) start endo count
              1%nat [] HS ltac:(lia)) as (b & Hb & Hr).
  destruct (stream_read_over_scannable _ sid (f pk) conf q start endo count 1%nat [] HS
              (run_Scannable ops (KPartition (f pk)) Wf) (br_routed_stream_in_partition f ops sid pk Wf R Hpk)
              ltac:(lia)) as (b' & Hb' & H).
  assert (b' = b) by congruence. subst b'. eexists. split; [exact Hr|exact H].
Qed.

(** ---- 5. GetStreamVersion over the real reverse scan ---------------------------------------------------------
    [stream_version] consumes the commits `read_stream(.., u64::MAX, Reverse)` yields, which Model/ClusterRead.v
    describes as [cr_rev_commits groups]: one commit per event, newest first, each the suffix of its transaction.
    That is what the reverse scan of Model/StoreIter.v returns (C03_reverse_groups), with [groups] = the stored
    transactions restricted to the stream. *)
Lemma br_ucons_tails k es : map ucons (ksufp k es) = cr_tails (filter (matches k) es).
Proof.
  induction es as [|e es IH]; [reflexivity|]. cbn [ksufp filter]. destruct (matches k e).
  - cbn [app map ucons fst snd cr_tails]. rewrite IH. reflexivity.
  - cbn [app]. exact IH.
Qed.

Lemma br_filter_all {A} (p : A -> bool) l : (forall x, In x l -> p x = true) -> filter p l = l.
Proof.
  induction l as [|a l IH]; intros H; [reflexivity|]. cbn. rewrite (H a (or_introl eq_refl)), IH; [reflexivity|].
  intros x Hx. apply H. right. assumption.
Qed.

Lemma br_tails_map {A B} (f : A -> B) l : cr_tails (map f l) = map (map f) (cr_tails l).
Proof. induction l as [|a l IH]; [reflexivity|]. cbn [map cr_tails]. rewrite IH. reflexivity. Qed.

Lemma br_Erev_all s k : U64ok s k ->
  Erev k U64MAX (abs_visible s)
  = concat (map (fun g => rev (cr_tails g)) (rev (map (filter (matches k)) (abs_visible s)))).
Proof.
  intros HU. unfold Erev. rewrite br_filter_all.
  - rewrite concat_map, map_map, cr_rev_concat, <- !map_rev, !map_map.
    f_equal. apply map_ext. intros g. rewrite br_ucons_tails. reflexivity.
  - intros x Hx. apply in_concat in Hx. destruct Hx as (l & Hl & Hx). apply in_map_iff in Hl.
    destruct Hl as (g & <- & Hg). destruct (ksufp_split _ _ _ Hx) as (pre & rest & Hes & Hm & _).
    unfold hle. apply N.leb_le. apply HU; [|assumption].
    unfold all_events. apply in_concat. exists g. split; [assumption|]. rewrite Hes. apply in_or_app. right. left. reflexivity.
Qed.

Lemma br_rev_commits_map (h : event -> N * N) (groups : list (list event)) :
  map (map h) (concat (map (fun g => rev (cr_tails g)) (rev groups)))
  = cr_rev_commits (map (map h) groups).
Proof.
  unfold cr_rev_commits. rewrite concat_map, map_map, <- map_rev, map_map. f_equal. apply map_ext. intros g.
  rewrite map_rev, br_tails_map. reflexivity.
Qed.

Theorem stream_version_over_scannable s sid W limit :
  Scannable s (KStream sid) -> U64ok s (KStream sid) -> (0 < limit)%nat ->
  exists batches, scan s (KStream sid) U64MAX Rev limit = Some batches /\
    br_scommits batches
    = cr_rev_commits (map (map br_sev) (map (filter (fun e => e_sid e =? sid)) (abs_visible s))) /\
    stream_version (br_scommits batches) W
    = match find (fun e => e_seq e <? W) (rev (spec_scan_stream_fwd (abs_visible s) sid 0)) with
      | Some e => Some (e_ver e)
      | None => None
      end.
Proof.
  intros HS HU Hl. destruct (reverse_groups s _ U64MAX limit HS HU Hl) as (b & Hb & Hg & _).
  exists b. split; [assumption|].
  assert (E : br_scommits b
              = cr_rev_commits (map (map br_sev) (map (filter (fun e => e_sid e =? sid)) (abs_visible s)))).
  { unfold br_scommits, br_groups. rewrite Hg, (br_Erev_all s _ HU).
    change (matches (KStream sid)) with (fun e => e_sid e =? sid). apply br_rev_commits_map. }
  split; [exact E|]. rewrite E, stream_version_exact.
  rewrite br_concat_map, <- filter_concat, <- map_rev.
  assert (F : filter (fun e => e_sid e =? sid) (concat (abs_visible s)) = spec_scan_stream_fwd (abs_visible s) sid 0).
  { unfold spec_scan_stream_fwd, all_events. apply filter_ext. intros e. destruct (e_sid e =? sid); [|reflexivity]. cbn [andb]. symmetry. apply N.leb_le. lia. }
  rewrite F. induction (rev (spec_scan_stream_fwd (abs_visible s) sid 0)) as [|e l IH]; [reflexivity|].
  cbn [map find br_sev snd]. destruct (e_seq e <? W); [reflexivity|exact IH].
Qed.

Theorem run_stream_version_over_storage ops sid W limit :
  Forall StoreSimProofs.wf_op ops -> U64ok (run ops) (KStream sid) -> (0 < limit)%nat ->
  exists batches, scan (run ops) (KStream sid) U64MAX Rev limit = Some batches /\
    stream_version (br_scommits batches) W
    = match find (fun e => e_seq e <? W) (rev (spec_scan_stream_fwd (abs_visible (run ops)) sid 0)) with
      | Some e => Some (e_ver e)
      | None => None
      end.
Proof.
  intros Wf HU Hl. destruct (stream_version_over_scannable _ sid W limit (run_Scannable ops _ Wf) HU Hl) as (b & H1 & _ & H3).
  exists b. split; assumption.
Qed.

(** ---- non-vacuity: the example store of C03 (two sealed segments and a live one with an unpublished append;
    partitions 0 and 1; multi-stream transactions); counts: the event at sequence 6 of partition 0 is below the
    quorum 2, so partition 0's watermark is 6 ---- *)
Definition br_ex_ops : list op :=
 [ OAppend (mkTxn 1 0 100 false [br_ne 1 7; br_ne 2 8; br_ne 3 7] XAny) false false;
   OAppend (mkTxn 1 0 101 true [br_ne 4 7] XAny) false false;
   OAppend (mkTxn 2 1 102 false [br_ne 5 9] XAny) false false;
   OAppend (mkTxn 1 0 103 false [br_ne 6 8; br_ne 7 7; br_ne 8 7] XAny) true false;
   OAppend (mkTxn 2 1 104 true [br_ne 9 9] XAny) false false;
   OAppend (mkTxn 1 0 105 false [br_ne 10 7; br_ne 11 8] XAny) true false;
   OAppend (mkTxn 1 0 106 true [br_ne 12 7] XAny) false false;
   OSync;
   OAppend (mkTxn 1 0 107 true [br_ne 13 7] XAny) false false ].
Definition br_ex_conf (e : event) : N := if e_id e <? 8 then 2 else if e_id e =? 8 then 1 else 3.

Example br_example_wf : Forall StoreSimProofs.wf_op br_ex_ops /\ br_routed (fun pk => pk - 1) br_ex_ops.
Proof. split; repeat constructor; cbn; try discriminate; intros H; discriminate H. Qed.

Example br_example_reads :
  let s := run br_ex_ops in
  length (sealed s) = 2%nat /\
  br_watermark 2 br_ex_conf (abs_visible s) 0 = 6 /\ br_watermark 2 br_ex_conf (abs_visible s) 1 = 2 /\
  br_log br_ex_conf (abs_visible s) 0
    = [[(7, 2); (8, 2); (7, 2)]; [(7, 2)]; [(8, 2); (7, 2); (7, 1)]; [(7, 3); (8, 3)]; [(7, 3)]] /\
  partition_read_store s 0 6 1 None 100 = Some ([1; 2; 3; 4; 5], false) /\
  partition_read_store s 0 6 1 (Some 3) 100 = Some ([1; 2; 3], true) /\
  partition_read_store s 0 6 0 None 2 = Some ([0; 1], true) /\
  stream_read_store s 7 1 6 None 100 = Some ([(1, 2); (2, 3); (3, 5)], false) /\
  stream_read_store s 7 0 6 (Some 2) 100 = Some ([(0, 0); (1, 2); (2, 3)], false) /\
  stream_read_store s 8 0 6 None 1 = Some ([(0, 1)], true).
Proof. vm_compute. repeat split; reflexivity. Qed.

Example br_example_stream_version :
  match scan (run br_ex_ops) (KStream 7) U64MAX Rev 2 with
  | Some b => stream_version (br_scommits b) 6
  | None => None
  end = Some 3.
Proof. vm_compute. reflexivity. Qed.
