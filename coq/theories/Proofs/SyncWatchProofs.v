(** Proofs about Model/SyncWatch.v (C20). *)
From Coq Require Import NArith List Bool Lia Arith PeanoNat.
From SV Require Import Model.SyncWatch.
Import ListNotations.
Open Scope N_scope.

(** * list helpers *)
Lemma set_nth_length l i v : (i < length l)%nat -> length (set_nth l i v) = length l.
Proof.
  intros H. unfold set_nth. rewrite app_length. cbn [length]. rewrite firstn_length, skipn_length. lia.
Qed.

Lemma nth_set_nth_same l i v d : (i < length l)%nat -> nth i (set_nth l i v) d = v.
Proof.
  intros H. unfold set_nth. rewrite app_nth2; rewrite firstn_length, Nat.min_l by lia; [|lia].
  rewrite Nat.sub_diag. reflexivity.
Qed.

Lemma nth_firstn_lt' {A} (l : list A) d : forall i j, (j < i)%nat -> nth j (firstn i l) d = nth j l d.
Proof.
  induction l as [|x l IH]; intros i j H; [destruct i; destruct j; reflexivity|].
  destruct i as [|i]; [lia|]. destruct j as [|j]; [reflexivity|]. cbn [firstn nth]. apply IH. lia.
Qed.

Lemma nth_skipn' {A} (l : list A) d : forall i j, nth j (skipn i l) d = nth (i + j) l d.
Proof.
  induction l as [|x l IH]; intros i j; [destruct i; destruct j; reflexivity|].
  destruct i as [|i]; [reflexivity|]. cbn [skipn Nat.add nth]. apply IH.
Qed.

Lemma nth_set_nth_other l i j v d : (i < length l)%nat -> i <> j -> nth j (set_nth l i v) d = nth j l d.
Proof.
  intros L H. unfold set_nth.
  destruct (Nat.lt_ge_cases j i) as [J|J].
  - rewrite app_nth1 by (rewrite firstn_length; lia). apply nth_firstn_lt'. exact J.
  - rewrite app_nth2; rewrite firstn_length, Nat.min_l by lia; [|lia].
    destruct (j - i)%nat as [|q] eqn:E; [lia|]. cbn [nth].
    rewrite nth_skipn'. f_equal. lia.
Qed.

(** * the invariant of the per-segment code *)
Record SwInv (s : sw) : Prop := mkSwInv {
  swi_len : length (sw_vals s) = S (sw_seg s);
  swi_cur : chan_val s (sw_seg s) <= sw_off s;
  swi_w : forall wt, In wt (sw_waiters s) ->
      (w_chan wt <= sw_seg s)%nat /\
      (w_chan wt = sw_seg s -> w_target wt <= sw_off s) /\
      ((w_chan wt < sw_seg s)%nat -> covered s wt = true)
}.

Lemma SwInv_init : SwInv sw_init.
Proof. constructor; cbn; [reflexivity|lia|intros ? []]. Qed.

Lemma chan_val_publish s c :
  length (sw_vals s) = S (sw_seg s) ->
  chan_val (sw_publish PerSegment s) c = if Nat.eqb c (sw_seg s) then sw_off s else chan_val s c.
Proof.
  intros L. unfold chan_val, sw_publish. cbn [sw_vals chan_of].
  destruct (Nat.eqb_spec c (sw_seg s)) as [->|NE].
  - apply nth_set_nth_same. lia.
  - apply nth_set_nth_other; [lia|congruence].
Qed.

Lemma publish_SwInv s : SwInv s -> SwInv (sw_publish PerSegment s).
Proof.
  intros [L C W]. constructor.
  - cbn [sw_publish sw_vals sw_seg chan_of]. rewrite set_nth_length by lia. exact L.
  - rewrite chan_val_publish by exact L. cbn [sw_publish sw_seg sw_off]. rewrite Nat.eqb_refl. lia.
  - intros wt I. cbn [sw_publish sw_waiters] in I. destruct (W wt I) as (A & B & D).
    cbn [sw_publish sw_seg sw_off]. repeat split; [exact A|exact B|].
    intros Lt. unfold covered. rewrite chan_val_publish by exact L.
    destruct (Nat.eqb_spec (w_chan wt) (sw_seg s)); [lia|]. exact (D Lt).
Qed.

Lemma publish_covers s wt : SwInv s -> In wt (sw_waiters s) -> covered (sw_publish PerSegment s) wt = true.
Proof.
  intros [L C W] I. destruct (W wt I) as (A & B & D). unfold covered. rewrite chan_val_publish by exact L.
  destruct (Nat.eqb_spec (w_chan wt) (sw_seg s)) as [E|NE].
  - apply N.leb_le. exact (B E).
  - apply D. lia.
Qed.

Lemma step_SwInv s st : SwInv s -> SwInv (sw_step PerSegment s st).
Proof.
  intros I. destruct st as [n| | | |w]; cbn [sw_step].
  - destruct I as [L C W]. constructor; cbn [sw_vals sw_seg sw_off sw_waiters chan_of].
    + exact L.
    + unfold chan_val in *. cbn [sw_vals sw_seg]. lia.
    + intros wt Iw. destruct (W wt Iw) as (A & B & D). repeat split; [exact A|intros E; specialize (B E); lia|exact D].
  - destruct I as [L C W]. constructor; cbn [sw_vals sw_seg sw_off sw_waiters chan_of].
    + exact L.
    + exact C.
    + intros wt Iw. apply in_app_or in Iw. destruct Iw as [Iw|[<-|[]]].
      * exact (W wt Iw).
      * cbn [w_chan w_target]. repeat split; [lia|lia|lia].
  - exact (publish_SwInv s I).
  - pose proof (publish_SwInv s I) as [L C W].
    set (s1 := sw_publish PerSegment s) in *.
    assert (NV : forall c, (c <= sw_seg s1)%nat -> nth c (sw_vals s1 ++ [seg_header]) 0 = nth c (sw_vals s1) 0).
    { intros c Lc. apply app_nth1. lia. }
    constructor; cbn [sw_vals sw_seg sw_off sw_waiters].
    + rewrite app_length. cbn [length]. lia.
    + unfold chan_val. cbn [sw_vals sw_seg]. rewrite app_nth2 by lia. rewrite L, Nat.sub_diag. cbn. lia.
    + intros wt Iw. destruct (W wt Iw) as (A & B & D). repeat split; [lia|lia|].
      intros _. unfold covered, chan_val. cbn [sw_vals]. rewrite NV by exact A.
      exact (publish_covers s wt I Iw).
  - exact I.
Qed.

Lemma run_SwInv tr : forall s, SwInv s -> SwInv (sw_run_from PerSegment s tr).
Proof.
  induction tr as [|st tr IH]; intros s I; [exact I|]. cbn [sw_run_from fold_left]. apply IH. apply step_SwInv. exact I.
Qed.

(** * waiters are never dropped or renumbered *)
Lemma step_waiters m s st : exists more, sw_waiters (sw_step m s st) = sw_waiters s ++ more.
Proof.
  destruct st as [n| | | |w]; cbn [sw_step sw_publish sw_waiters].
  - exists []. rewrite app_nil_r. reflexivity.
  - eexists. reflexivity.
  - exists []. rewrite app_nil_r. reflexivity.
  - exists []. rewrite app_nil_r. reflexivity.
  - exists []. rewrite app_nil_r. reflexivity.
Qed.

Lemma run_waiters m tr : forall s, exists more, sw_waiters (sw_run_from m s tr) = sw_waiters s ++ more.
Proof.
  induction tr as [|st tr IH]; intros s.
  - exists []. rewrite app_nil_r. reflexivity.
  - cbn [sw_run_from fold_left]. destruct (step_waiters m s st) as [m1 E1].
    destruct (IH (sw_step m s st)) as [m2 E2]. exists (m1 ++ m2). unfold sw_run_from in E2. rewrite E2, E1, app_assoc. reflexivity.
Qed.

Lemma run_nth m tr s w wt : nth_error (sw_waiters s) w = Some wt ->
  nth_error (sw_waiters (sw_run_from m s tr)) w = Some wt.
Proof.
  intros H. destruct (run_waiters m tr s) as [more ->]. rewrite nth_error_app1; [exact H|].
  apply nth_error_Some. congruence.
Qed.

(** * once covered, covered for ever; a sync or rollover covers every replied waiter *)
Lemma step_covered s st wt : SwInv s -> In wt (sw_waiters s) -> covered s wt = true ->
  covered (sw_step PerSegment s st) wt = true.
Proof.
  intros I Iw Cv. pose proof I as [L C W]. destruct (W wt Iw) as (A & B & D).
  destruct st as [n| | | |w]; cbn [sw_step].
  - exact Cv.
  - exact Cv.
  - exact (publish_covers s wt I Iw).
  - unfold covered, chan_val. cbn [sw_vals]. rewrite app_nth1.
    + exact (publish_covers s wt I Iw).
    + cbn [sw_publish sw_vals chan_of]. rewrite set_nth_length by lia. lia.
  - exact Cv.
Qed.

Lemma sync_covers s st wt : SwInv s -> In wt (sw_waiters s) -> is_sync st = true ->
  covered (sw_step PerSegment s st) wt = true.
Proof.
  intros I Iw S. pose proof I as [L C W]. destruct (W wt Iw) as (A & B & D).
  destruct st as [n| | | |w]; try discriminate S; cbn [sw_step].
  - exact (publish_covers s wt I Iw).
  - unfold covered, chan_val. cbn [sw_vals]. rewrite app_nth1.
    + exact (publish_covers s wt I Iw).
    + cbn [sw_publish sw_vals chan_of]. rewrite set_nth_length by lia. lia.
Qed.

Lemma step_In m s st wt : In wt (sw_waiters s) -> In wt (sw_waiters (sw_step m s st)).
Proof. intros H. destruct (step_waiters m s st) as [more ->]. apply in_or_app. left. exact H. Qed.

Lemma run_covered tr : forall s wt, SwInv s -> In wt (sw_waiters s) -> covered s wt = true ->
  covered (sw_run_from PerSegment s tr) wt = true.
Proof.
  induction tr as [|st tr IH]; intros s wt I Iw Cv; [exact Cv|]. cbn [sw_run_from fold_left].
  apply IH; [apply step_SwInv; exact I|apply step_In; exact Iw|apply step_covered; assumption].
Qed.

Lemma run_sync_covers tr : forall s wt, SwInv s -> In wt (sw_waiters s) ->
  (exists st, In st tr /\ is_sync st = true) ->
  covered (sw_run_from PerSegment s tr) wt = true.
Proof.
  induction tr as [|st tr IH]; intros s wt I Iw (x & Ix & Sx); [destruct Ix|].
  cbn [sw_run_from fold_left]. destruct (is_sync st) eqn:S.
  - apply run_covered; [apply step_SwInv; exact I|apply step_In; exact Iw|apply sync_covers; assumption].
  - apply IH; [apply step_SwInv; exact I|apply step_In; exact Iw|].
    destruct Ix as [<-|Ix]; [congruence|]. exists x. split; assumption.
Qed.

Lemma run_app m a b s : sw_run_from m s (a ++ b) = sw_run_from m (sw_run_from m s a) b.
Proof. unfold sw_run_from. apply fold_left_app. Qed.

(** the waiter created by the reply that follows [pre] *)
Lemma reply_waiter m pre :
  let s0 := sw_run m pre in
  nth_error (sw_waiters (sw_step m s0 SReply)) (next_waiter m pre)
  = Some (mkWaiter (chan_of m (sw_seg s0)) (sw_off s0)).
Proof.
  cbn zeta. unfold next_waiter. cbn [sw_step sw_waiters]. rewrite nth_error_app2 by lia.
  rewrite Nat.sub_diag. reflexivity.
Qed.

Theorem no_lost_wakeup pre mid post :
  (exists st, In st mid /\ is_sync st = true) ->
  poll_ok (sw_run PerSegment (pre ++ SReply :: mid ++ post)) (next_waiter PerSegment pre) = true.
Proof.
  intros HS. unfold sw_run. rewrite run_app. fold (sw_run PerSegment pre). set (s0 := sw_run PerSegment pre).
  cbn [sw_run_from fold_left]. fold (sw_run_from PerSegment (sw_step PerSegment s0 SReply) (mid ++ post)).
  set (s1 := sw_step PerSegment s0 SReply).
  pose proof (reply_waiter PerSegment pre) as NW. cbn zeta in NW. fold s0 in NW. fold s1 in NW.
  set (wt := mkWaiter (chan_of PerSegment (sw_seg s0)) (sw_off s0)) in *.
  assert (I1 : SwInv s1) by (apply step_SwInv; apply run_SwInv; exact SwInv_init).
  assert (Iw : In wt (sw_waiters s1)) by (eapply nth_error_In; exact NW).
  unfold poll_ok. rewrite (run_nth PerSegment (mid ++ post) s1 _ wt NW).
  rewrite run_app. apply run_covered.
  - apply run_SwInv. exact I1.
  - destruct (run_waiters PerSegment mid s1) as [more ->]. apply in_or_app. left. exact Iw.
  - apply run_sync_covers; assumption.
Qed.

(** a poll that succeeds once succeeds for ever *)
Theorem covered_forever tr post w :
  poll_ok (sw_run PerSegment tr) w = true -> poll_ok (sw_run PerSegment (tr ++ post)) w = true.
Proof.
  unfold sw_run. rewrite run_app. fold (sw_run PerSegment tr). set (s := sw_run PerSegment tr).
  assert (I : SwInv s) by (apply run_SwInv; exact SwInv_init).
  unfold poll_ok. destruct (nth_error (sw_waiters s) w) as [wt|] eqn:E; [|discriminate].
  intros Cv. rewrite (run_nth PerSegment post s w wt E). apply run_covered; [exact I|eapply nth_error_In; exact E|exact Cv].
Qed.

(** * an acknowledgement needs a sync of its segment after the write it acknowledges *)
Lemma not_synced_yet mid : forall s seg0 tgt,
  SwInv s -> sw_seg s = seg0 -> chan_val s seg0 < tgt -> tgt <= sw_off s ->
  (exists m1 st m2, mid = m1 ++ st :: m2 /\ is_sync st = true /\ sw_seg (sw_run_from PerSegment s m1) = seg0)
  \/ (sw_seg (sw_run_from PerSegment s mid) = seg0 /\ chan_val (sw_run_from PerSegment s mid) seg0 < tgt /\
      tgt <= sw_off (sw_run_from PerSegment s mid)).
Proof.
  induction mid as [|st mid IH]; intros s seg0 tgt I E Lt Le.
  - right. repeat split; assumption.
  - destruct (is_sync st) eqn:S.
    + left. exists [], st, mid. repeat split; [exact S|exact E].
    + assert (E' : sw_seg (sw_step PerSegment s st) = seg0 /\ chan_val (sw_step PerSegment s st) seg0 = chan_val s seg0 /\
                   sw_off s <= sw_off (sw_step PerSegment s st)).
      { destruct st; try discriminate S; cbn [sw_step sw_seg sw_off]; repeat split; try exact E; try reflexivity; lia. }
      destruct E' as (E1 & E2 & E3).
      destruct (IH (sw_step PerSegment s st) seg0 tgt (step_SwInv s st I) E1) as [(m1 & x & m2 & -> & Sx & Es)|R].
      * rewrite E2. exact Lt.
      * lia.
      * left. exists (st :: m1), x, m2. repeat split; [exact Sx|exact Es].
      * right. exact R.
Qed.

Theorem ack_after_sync pre n mid post :
  0 < n ->
  poll_ok (sw_run PerSegment (pre ++ SWrite n :: mid ++ SReply :: post)) (next_waiter PerSegment (pre ++ SWrite n :: mid)) = true ->
  exists m1 st m2, mid ++ SReply :: post = m1 ++ st :: m2 /\ is_sync st = true /\
                   sw_seg (sw_run PerSegment (pre ++ SWrite n :: m1)) = sw_seg (sw_run PerSegment pre).
Proof.
  intros Pn.
  set (s0 := sw_run PerSegment pre). set (s1 := sw_step PerSegment s0 (SWrite n)).
  assert (I0 : SwInv s0) by (apply run_SwInv; exact SwInv_init).
  assert (I1 : SwInv s1) by (apply step_SwInv; exact I0).
  assert (R1 : forall tl, sw_run PerSegment (pre ++ SWrite n :: tl) = sw_run_from PerSegment s1 tl).
  { intros tl. unfold sw_run. rewrite run_app. reflexivity. }
  assert (C0 : chan_val s1 (sw_seg s0) < sw_off s0 + n).
  { unfold s1, chan_val. cbn [sw_step sw_vals]. pose proof (swi_cur s0 I0) as C. unfold chan_val in C. lia. }
  destruct (not_synced_yet mid s1 (sw_seg s0) (sw_off s0 + n) I1 eq_refl C0 ltac:(unfold s1; cbn; lia))
    as [(m1 & st & m2 & E & S & Es)|(Es & Lt & Le)].
  - intros _. exists m1, st, (m2 ++ SReply :: post). rewrite E, <- app_assoc. repeat split; [exact S|].
    rewrite R1. exact Es.
  - set (s2 := sw_run_from PerSegment s1 mid) in *.
    assert (I2 : SwInv s2) by (apply run_SwInv; exact I1).
    set (s3 := sw_step PerSegment s2 SReply).
    assert (I3 : SwInv s3) by (apply step_SwInv; exact I2).
    assert (NW : nth_error (sw_waiters s3) (next_waiter PerSegment (pre ++ SWrite n :: mid))
                 = Some (mkWaiter (sw_seg s2) (sw_off s2))).
    { pose proof (reply_waiter PerSegment (pre ++ SWrite n :: mid)) as H. cbn zeta in H. rewrite R1 in H. exact H. }
    replace (pre ++ SWrite n :: mid ++ SReply :: post) with ((pre ++ SWrite n :: mid) ++ SReply :: post)
      by (rewrite <- app_assoc; reflexivity).
    unfold sw_run at 1. rewrite run_app. fold (sw_run PerSegment (pre ++ SWrite n :: mid)). rewrite R1. fold s2.
    cbn [sw_run_from fold_left]. fold (sw_run_from PerSegment (sw_step PerSegment s2 SReply) post). fold s3.
    unfold poll_ok. rewrite (run_nth PerSegment post s3 _ _ NW). unfold covered. cbn [w_chan w_target].
    intros Cv. apply N.leb_le in Cv.
    destruct (not_synced_yet post s3 (sw_seg s0) (sw_off s0 + n) I3) as [(m1 & st & m2 & E & S & Es')|(Es' & Lt' & _)].
    + exact Es.
    + exact Lt.
    + exact Le.
    + exists (mid ++ SReply :: m1), st, m2. rewrite E, <- app_assoc. repeat split; [exact S|].
      rewrite R1, run_app. fold s2. cbn [sw_run_from fold_left]. exact Es'.
    + rewrite Es in Cv. lia.
Qed.

(** * bounded number of worker steps under fairness *)
Theorem bounded_steps k pre mid :
  fair k (pre ++ SReply :: mid) -> (k <= length mid)%nat ->
  poll_ok (sw_run PerSegment (pre ++ SReply :: mid)) (next_waiter PerSegment pre) = true.
Proof.
  intros F L. rewrite <- (app_nil_r mid). apply no_lost_wakeup.
  destruct (F (pre ++ [SReply]) (firstn k mid) (skipn k mid)) as (st & Is & S).
  - rewrite <- app_assoc. cbn [app]. rewrite firstn_skipn. reflexivity.
  - apply firstn_length_le. exact L.
  - exists st. split; [|exact S]. rewrite <- (firstn_skipn k mid). apply in_or_app. left. exact Is.
Qed.

(** a decidable form of fairness, to show the hypothesis is satisfiable *)
Fixpoint windows_ok (k : nat) (tr : list sstep) : bool :=
  match tr with
  | [] => true
  | _ :: r => (if (length tr <? k)%nat then true else existsb is_sync (firstn k tr)) && windows_ok k r
  end.
Definition fairb (k : nat) (tr : list sstep) : bool := (0 <? k)%nat && windows_ok k tr.

Lemma fairb_fair k tr : fairb k tr = true -> fair k tr.
Proof.
  unfold fairb. intros H. apply andb_prop in H. destruct H as [K W]. apply Nat.ltb_lt in K.
  intros a. revert tr W. induction a as [|x a IH]; intros tr W b c E Lb.
  - cbn [app] in E. subst tr. destruct b as [|y b]; [cbn in Lb; lia|].
    cbn [app windows_ok] in W. apply andb_prop in W. destruct W as [W _].
    assert (LL : (length ((y :: b) ++ c) <? k)%nat = false).
    { apply Nat.ltb_ge. rewrite app_length. lia. }
    cbn [app] in LL. rewrite LL in W.
    change (y :: b ++ c) with ((y :: b) ++ c) in W. rewrite firstn_app, Lb, Nat.sub_diag in W. cbn [firstn] in W.
    rewrite app_nil_r in W. rewrite <- Lb, firstn_all in W.
    apply existsb_exists in W. exact W.
  - subst tr. cbn [app windows_ok] in W. apply andb_prop in W. destruct W as [_ W].
    exact (IH _ W b c eq_refl Lb).
Qed.

(** * the code before the fix (one watch value across rollovers) violates both *)
Definition shared_early : list sstep := [SWrite 1000; SReply; SSync; SRoll; SWrite 10; SReply].
Definition shared_late : list sstep := [SWrite 1000; SReply; SRoll; SWrite 10; SReply; SSync].

(** (a) the waiter of the last reply is satisfied although no sync followed its reply *)
Lemma shared_ack_before_sync :
  poll_ok (sw_run Shared shared_early) (next_waiter Shared [SWrite 1000; SReply; SSync; SRoll; SWrite 10]) = true.
Proof. vm_compute. reflexivity. Qed.

(** (b) waiter 0 replied before a rollover and a sync, yet polling afterwards fails, and keeps
    failing whatever number of further syncs and polls follow *)
Lemma shared_sync_fix : sw_step Shared (sw_run Shared shared_late) SSync = sw_run Shared shared_late.
Proof. vm_compute. reflexivity. Qed.

Lemma shared_lost_wakeup : forall tail,
  Forall (fun st => st = SSync \/ exists w, st = SPoll w) tail ->
  poll_ok (sw_run Shared (shared_late ++ tail)) (next_waiter Shared []) = false.
Proof.
  intros tail F. unfold sw_run. rewrite run_app. fold (sw_run Shared shared_late).
  assert (E : sw_run_from Shared (sw_run Shared shared_late) tail = sw_run Shared shared_late).
  { induction F as [|st tail [->|[w ->]] _ IH]; [reflexivity| |]; cbn [sw_run_from fold_left].
    - rewrite shared_sync_fix. exact IH.
    - exact IH. }
  rewrite E. vm_compute. reflexivity.
Qed.

Lemma shared_refuted :
  poll_ok (sw_run Shared shared_early) (next_waiter Shared [SWrite 1000; SReply; SSync; SRoll; SWrite 10]) = true /\
  (forall tail, Forall (fun st => st = SSync \/ exists w, st = SPoll w) tail ->
     poll_ok (sw_run Shared (shared_late ++ tail)) (next_waiter Shared []) = false).
Proof. split; [exact shared_ack_before_sync|exact shared_lost_wakeup]. Qed.
