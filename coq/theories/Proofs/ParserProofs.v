(** Proofs about Model/Parser.v (C21): the combine combinators, every command parser against the documented
    grammar [Doc] (both directions), and the client printers.  No axioms. *)
From Coq Require Import String Ascii List NArith Bool Lia Arith.
From SV Require Import Model.Parser.
Import ListNotations.
Open Scope string_scope.
Open Scope list_scope.
Open Scope N_scope.


(* ====================================================================== PA *)
(* ------------------------------------------------------------------ bytes *)
Lemma inr_true lo hi x : inr lo hi x = true <-> lo <= x /\ x <= hi.
Proof. unfold inr. rewrite andb_true_iff, !N.leb_le. tauto. Qed.
Lemma inr_false lo hi x : inr lo hi x = false <-> x < lo \/ hi < x.
Proof. unfold inr. rewrite andb_false_iff, !N.leb_gt. tauto. Qed.

Lemma nb_lt_256 c : nb c < 256.
Proof. unfold nb. apply N_ascii_bounded. Qed.

Lemma upc_id c : inr 97 122 (nb c) = false -> upc c = c.
Proof. unfold upc. intros ->. reflexivity. Qed.

(* ------------------------------------------------------------------ is_kw *)
Lemma is_kw_true k t : is_kw k t = true <-> utf8_valid t = true /\ upper_ascii t = Some k.
Proof.
  unfold is_kw. rewrite andb_true_iff. split; intros [H1 H2]; split; auto.
  - destruct (upper_ascii t); try discriminate. apply String.eqb_eq in H2. now subst.
  - rewrite H2. apply String.eqb_refl.
Qed.
Lemma is_kw_excl k1 k2 t : is_kw k1 t = true -> is_kw k2 t = true -> k1 = k2.
Proof. rewrite !is_kw_true. intros [_ H1] [_ H2]. congruence. Qed.
Lemma is_kw_other k1 k2 t : is_kw k1 t = true -> k1 <> k2 -> is_kw k2 t = false.
Proof. intros H N. destruct (is_kw k2 t) eqn:E; auto. exfalso. apply N. eapply is_kw_excl; eauto. Qed.
Lemma is_kw_utf8 k t : is_kw k t = true -> utf8_valid t = true.
Proof. rewrite is_kw_true. tauto. Qed.

(* ------------------------------------------------------------------ numbers are not words *)
Lemma digits_upper s : forall acc n, digits_val s acc = Some n -> upper_ascii s = Some s.
Proof.
  induction s as [|c r IH]; intros acc n H; [reflexivity|].
  cbn [digits_val] in H. destruct (is_digit c) eqn:D; [|discriminate].
  unfold is_digit in D. apply inr_true in D.
  cbn [upper_ascii]. cbv zeta.
  replace (nb c <? 128) with true by (symmetry; apply N.ltb_lt; lia).
  rewrite (IH _ _ H). cbn. rewrite upc_id; [reflexivity|]. apply inr_false. lia.
Qed.
Lemma parse_dec_upper t n : parse_dec t = Some n -> upper_ascii t = Some t.
Proof.
  unfold parse_dec. destruct t as [|c r]; [discriminate|].
  destruct (nb c =? 43) eqn:P.
  - apply N.eqb_eq in P. destruct r as [|c' r']; [discriminate|]. intros H.
    apply digits_upper in H. cbn [upper_ascii] in *. cbv zeta in *.
    replace (nb c <? 128) with true by (symmetry; apply N.ltb_lt; lia).
    rewrite H. cbn. rewrite upc_id; [reflexivity|]. apply inr_false. lia.
  - intros H. eapply digits_upper; eauto.
Qed.
Lemma bounded_kw b t n k : parse_bounded b t = Some n -> is_kw k t = true -> t = k.
Proof.
  unfold parse_bounded. destruct (parse_dec t) eqn:E; [|discriminate]. intros _.
  rewrite is_kw_true. intros [_ H]. apply parse_dec_upper in E. congruence.
Qed.
(* a word whose text is not itself a number is never read as a number *)
Lemma u64_not_kw k t : parse_u64 k = None -> is_kw k t = true -> parse_u64 t = None.
Proof.
  intros Hk H. destruct (parse_u64 t) eqn:E; auto.
  unfold parse_u64 in *. rewrite (bounded_kw _ _ _ _ E H) in E. congruence.
Qed.
Lemma kw_not_u64 k t n : parse_u64 k = None -> parse_u64 t = Some n -> is_kw k t = false.
Proof. intros Hk E. destruct (is_kw k t) eqn:H; auto. rewrite (u64_not_kw _ _ Hk H) in E. discriminate. Qed.
Lemma u16_not_kw k t : parse_u16 k = None -> is_kw k t = true -> parse_u16 t = None.
Proof.
  intros Hk H. destruct (parse_u16 t) eqn:E; auto.
  unfold parse_u16 in *. rewrite (bounded_kw _ _ _ _ E H) in E. congruence.
Qed.
Lemma kw_not_u16 k t n : parse_u16 k = None -> parse_u16 t = Some n -> is_kw k t = false.
Proof. intros Hk E. destruct (is_kw k t) eqn:H; auto. rewrite (u16_not_kw _ _ Hk H) in E. discriminate. Qed.

(* ------------------------------------------------------------------ words without '=' are not pairs *)
Fixpoint no_eq (s : string) : bool :=
  match s with EmptyString => true | String c r => negb (Ascii.eqb c "=") && no_eq r end.
Lemma no_eq_app a b : no_eq (a ++ b) = no_eq a && no_eq b.
Proof. induction a; cbn; [reflexivity|]. rewrite IHa. now rewrite andb_assoc. Qed.
Lemma eqb_eq_nb c : Ascii.eqb c "=" = true -> nb c = 61.
Proof. intros H. apply Ascii.eqb_eq in H. subst. reflexivity. Qed.
Lemma hi_not_eq c : 128 <= nb c -> Ascii.eqb c "=" = false.
Proof. intros H. destruct (Ascii.eqb c "=") eqn:E; auto. apply eqb_eq_nb in E. lia. Qed.
Lemma upc_eq c : Ascii.eqb (upc c) "=" = false -> Ascii.eqb c "=" = false.
Proof.
  intros H. destruct (Ascii.eqb c "=") eqn:E; auto. apply Ascii.eqb_eq in E. subst. cbn in H. discriminate.
Qed.
Lemma ligature_no_eq b e : ligature b = Some e -> no_eq e = true.
Proof.
  unfold ligature. repeat (destruct (_ =? _); [intros [= <-]; reflexivity|]). discriminate.
Qed.

Lemma upper_no_eq_len : forall n t, (String.length t <= n)%nat -> forall u,
  upper_ascii t = Some u -> no_eq u = true -> split_once "=" t = None.
Proof.
  induction n as [|n IH]; intros t L u H E.
  - destruct t; [reflexivity|cbn in L; lia].
  - destruct t as [|c0 r0]; [reflexivity|].
    cbn [upper_ascii] in H. cbv zeta in H. cbn [String.length] in L.
    destruct (nb c0 <? 128) eqn:A.
    + destruct (upper_ascii r0) as [u0|] eqn:U; [|discriminate]. cbn in H. injection H as <-.
      cbn [no_eq] in E. apply andb_true_iff in E. destruct E as [E1 E2].
      apply negb_true_iff in E1. apply upc_eq in E1.
      cbn [split_once]. rewrite E1. rewrite (IH r0 ltac:(lia) u0 U E2). reflexivity.
    + apply N.ltb_ge in A.
      destruct r0 as [|c1 r1]; [discriminate|]. cbn [String.length] in L.
      assert (Hc0 : Ascii.eqb c0 "=" = false) by (apply hi_not_eq; auto).
      assert (K1 : forall e u1, upper_ascii r1 = Some u1 -> no_eq (e ++ u1) = true -> 128 <= nb c1 ->
                   split_once "=" (String c0 (String c1 r1)) = None).
      { intros e u1 U1 E1 B1. rewrite no_eq_app in E1. apply andb_true_iff in E1. destruct E1 as [_ E1].
        cbn [split_once]. rewrite Hc0, (hi_not_eq c1 B1). rewrite (IH r1 ltac:(lia) u1 U1 E1). reflexivity. }
      destruct ((nb c0 =? 196) && (nb c1 =? 177)) eqn:S1.
      { apply andb_true_iff in S1. destruct S1 as [_ S1]. apply N.eqb_eq in S1.
        destruct (upper_ascii r1) eqn:U1; [|discriminate]. cbn in H. injection H as <-. eapply (K1 "I"); eauto. lia. }
      destruct ((nb c0 =? 197) && (nb c1 =? 191)) eqn:S2.
      { apply andb_true_iff in S2. destruct S2 as [_ S2]. apply N.eqb_eq in S2.
        destruct (upper_ascii r1) eqn:U1; [|discriminate]. cbn in H. injection H as <-. eapply (K1 "S"); eauto. lia. }
      destruct ((nb c0 =? 195) && (nb c1 =? 159)) eqn:S3.
      { apply andb_true_iff in S3. destruct S3 as [_ S3]. apply N.eqb_eq in S3.
        destruct (upper_ascii r1) eqn:U1; [|discriminate]. cbn in H. injection H as <-. eapply (K1 "SS"); eauto. lia. }
      destruct r1 as [|c2 r2]; [discriminate|]. cbn [String.length] in L.
      destruct ((nb c0 =? 239) && (nb c1 =? 172)) eqn:S4; [|discriminate].
      apply andb_true_iff in S4. destruct S4 as [_ S4]. apply N.eqb_eq in S4.
      destruct (ligature (nb c2)) as [e|] eqn:Lg; [|discriminate].
      destruct (upper_ascii r2) as [u2|] eqn:U2; [|discriminate]. cbn in H. injection H as <-.
      rewrite no_eq_app in E. apply andb_true_iff in E. destruct E as [_ E2].
      assert (B2 : 128 <= nb c2).
      { unfold ligature in Lg. destruct (nb c2 =? 128) eqn:Q; [apply N.eqb_eq in Q; lia|].
        destruct (nb c2 =? 129) eqn:Q1; [apply N.eqb_eq in Q1; lia|].
        destruct (nb c2 =? 130) eqn:Q2; [apply N.eqb_eq in Q2; lia|].
        destruct (nb c2 =? 131) eqn:Q3; [apply N.eqb_eq in Q3; lia|].
        destruct (nb c2 =? 132) eqn:Q4; [apply N.eqb_eq in Q4; lia|].
        destruct (nb c2 =? 133) eqn:Q5; [apply N.eqb_eq in Q5; lia|].
        destruct (nb c2 =? 134) eqn:Q6; [apply N.eqb_eq in Q6; lia|]. discriminate. }
      cbn [split_once]. rewrite Hc0, (hi_not_eq c1 ltac:(lia)), (hi_not_eq c2 B2).
      rewrite (IH r2 ltac:(lia) u2 U2 E2). reflexivity.
Qed.
Lemma kw_not_pair k t : no_eq k = true -> is_kw k t = true -> split_once "=" t = None.
Proof. intros E H. apply is_kw_true in H. destruct H as [_ H]. eapply upper_no_eq_len; eauto. Qed.


(* ====================================================================== PB *)
(* ------------------------------------------------------------------ many *)
(** an item parser that consumes at least one token whenever it succeeds *)
Definition consuming {A} (p : parser A) : Prop :=
  forall i, match p i with COk _ r => (length r < length i)%nat | POk _ _ => False | CErr | PErr => True end.

Lemma many_f_fuel {A} (p : parser A) : consuming p ->
  forall f1 f2 i, (length i < f1)%nat -> (length i < f2)%nat -> many_f f1 p i = many_f f2 p i.
Proof.
  intros C. induction f1 as [|f1 IH]; intros f2 i L1 L2; [lia|].
  destruct f2 as [|f2]; [lia|]. cbn [many_f].
  specialize (C i). destruct (p i) as [a r|a r| |]; try reflexivity; [|contradiction].
  rewrite (IH f2 r) by lia. reflexivity.
Qed.
Lemma many_unfold {A} (p : parser A) : consuming p -> forall i,
  many p i = match p i with
             | PErr => POk [] i
             | CErr => CErr
             | COk a r => match many p r with COk l r' | POk l r' => COk (a :: l) r' | CErr | PErr => CErr end
             | POk a r => match many p r with COk l r' => COk (a :: l) r' | POk l r' => POk (a :: l) r' | CErr | PErr => CErr end
             end.
Proof.
  intros C i. unfold many at 1. cbn [many_f]. pose proof (C i) as Ci.
  destruct (p i) as [a r|a r| |]; try reflexivity; [|contradiction].
  unfold many. rewrite (many_f_fuel p C (length i) (S (length r)) r) by lia. reflexivity.
Qed.
Lemma many_never_perr {A} (p : parser A) : consuming p -> forall i, many p i <> PErr.
Proof.
  intros C i. rewrite many_unfold by assumption. destruct (p i); try discriminate.
  - destruct (many p rest); discriminate.
  - destruct (many p rest); discriminate.
Qed.

(** forward: a list of items, each followed by something that lets it end, then a stop *)
Lemma many_fwd {A} (p : parser A) (Item : A -> list token -> Prop) (Follow : list token -> Prop) :
  consuming p ->
  (forall a pre tail, Item a pre -> Follow tail -> p (pre ++ tail) = COk a tail) ->
  (forall a pre tail, Item a pre -> Follow (pre ++ tail)) ->
  forall l pres r, Forall2 Item l pres -> Follow r -> p r = PErr ->
  many p (concat pres ++ r) = match l with [] => POk [] r | _ => COk l r end.
Proof.
  intros C Hstep Hnext l pres r F. induction F as [|a pre l pres Hi F IH]; intros Fr Hr.
  - cbn [concat app]. rewrite many_unfold, Hr by assumption. reflexivity.
  - cbn [concat]. rewrite <- app_assoc. rewrite many_unfold by assumption.
    assert (Ft : Follow (concat pres ++ r)).
    { destruct F as [|a' pre' l' pres' Hi' F']; [cbn [concat app]; assumption|]. cbn [concat]. rewrite <- app_assoc. eapply Hnext; eauto. }
    rewrite (Hstep _ _ _ Hi Ft). rewrite (IH Fr Hr). destruct l; reflexivity.
Qed.

(** inverse: whatever `many` returns was a list of items, and the item parser refuses what is left *)
Lemma many_inv {A} (p : parser A) (Item : A -> list token -> Prop) :
  consuming p ->
  (forall i a r, p i = COk a r -> exists pre, i = pre ++ r /\ Item a pre) ->
  forall n i, (length i <= n)%nat -> forall l r, (many p i = COk l r \/ many p i = POk l r) ->
  exists pres, Forall2 Item l pres /\ i = concat pres ++ r /\ p r = PErr.
Proof.
  intros C Hinv. induction n as [|n IH]; intros i L l r H.
  - destruct i; [|cbn in L; lia]. rewrite many_unfold in H by assumption.
    pose proof (C []) as C0. destruct (p []) as [a r0|a r0| |] eqn:E; cbn in C0; try lia; try contradiction.
    + destruct H; discriminate.
    + destruct H as [H|H]; [discriminate|]. injection H as Hl Hr. subst l r. exists []. repeat split; auto.
  - rewrite many_unfold in H by assumption. pose proof (C i) as Ci.
    destruct (p i) as [a r0|a r0| |] eqn:E; try contradiction.
    + destruct (Hinv _ _ _ E) as [pre [-> Hi]].
      destruct (many p r0) as [l0 r1|l0 r1| |] eqn:M; try (destruct H; discriminate).
      * destruct H as [H|H]; [|discriminate]. injection H as Hl Hr. subst l r.
        assert (L0 : (length r0 <= n)%nat) by (rewrite app_length in *; lia).
        destruct (IH r0 L0 l0 r1 (or_introl M)) as [pres [F [-> S]]].
        exists (pre :: pres). cbn [concat]. rewrite <- app_assoc. repeat split; auto.
      * destruct H as [H|H]; [|discriminate]. injection H as Hl Hr. subst l r.
        assert (L0 : (length r0 <= n)%nat) by (rewrite app_length in *; lia).
        destruct (IH r0 L0 l0 r1 (or_intror M)) as [pres [F [-> S]]].
        exists (pre :: pres). cbn [concat]. rewrite <- app_assoc. repeat split; auto.
    + destruct H; discriminate.
    + destruct H as [H|H]; [discriminate|]. injection H as Hl Hr. subst l r. exists []. repeat split; auto.
Qed.

Lemma many1_fwd {A} (p : parser A) (Item : A -> list token -> Prop) (Follow : list token -> Prop) :
  consuming p ->
  (forall a pre tail, Item a pre -> Follow tail -> p (pre ++ tail) = COk a tail) ->
  (forall a pre tail, Item a pre -> Follow (pre ++ tail)) ->
  forall l pres r, l <> [] -> Forall2 Item l pres -> Follow r -> p r = PErr ->
  many1 p (concat pres ++ r) = COk l r.
Proof.
  intros C Hstep Hnext l pres r Hne F Fr Hr. destruct F as [|a pre l pres Hi F]; [congruence|].
  cbn [concat]. rewrite <- app_assoc. unfold many1.
  assert (Ft : Follow (concat pres ++ r)).
  { destruct F as [|a' pre' l' pres' Hi' F']; [cbn [concat app]; assumption|]. cbn [concat]. rewrite <- app_assoc. eapply Hnext; eauto. }
  rewrite (Hstep _ _ _ Hi Ft). rewrite (many_fwd p Item Follow C Hstep Hnext l pres r F Fr Hr). destruct l; reflexivity.
Qed.
Lemma many1_inv {A} (p : parser A) (Item : A -> list token -> Prop) :
  consuming p ->
  (forall i a r, p i = COk a r -> exists pre, i = pre ++ r /\ Item a pre) ->
  forall i l r, (many1 p i = COk l r \/ many1 p i = POk l r) ->
  exists pres, l <> [] /\ Forall2 Item l pres /\ i = concat pres ++ r /\ p r = PErr.
Proof.
  intros C Hinv i l r H. unfold many1 in H. pose proof (C i) as Ci.
  destruct (p i) as [a r0|a r0| |] eqn:E; try contradiction; try (destruct H; discriminate).
  destruct (Hinv _ _ _ E) as [pre [-> Hi]].
  destruct (many p r0) as [l0 r1|l0 r1| |] eqn:M; try (destruct H; discriminate).
  - destruct H as [H|H]; [|discriminate]. injection H as Hl Hr. subst l r.
    destruct (many_inv p Item C Hinv _ r0 (le_n _) l0 r1 (or_introl M)) as [pres [F [-> S]]].
    exists (pre :: pres). cbn [concat]. rewrite <- app_assoc. repeat split; auto. discriminate.
  - destruct H as [H|H]; [|discriminate]. injection H as Hl Hr. subst l r.
    destruct (many_inv p Item C Hinv _ r0 (le_n _) l0 r1 (or_intror M)) as [pres [F [-> S]]].
    exists (pre :: pres). cbn [concat]. rewrite <- app_assoc. repeat split; auto. discriminate.
Qed.
Lemma many1_never_pok {A} (p : parser A) : consuming p -> forall i l r, many1 p i <> POk l r.
Proof.
  intros C i l r. unfold many1. pose proof (C i) as Ci. destruct (p i); try discriminate; [|contradiction].
  destruct (many p rest); discriminate.
Qed.

Lemma pseq_never_pok {A B} (p : parser A) (q : parser B) :
  (forall i a r, p i <> POk a r) -> forall i x r, pseq p q i <> POk x r.
Proof.
  intros H i x r. unfold pseq. specialize (H i). destruct (p i); try discriminate.
  - destruct (q rest); discriminate.
  - exfalso. eapply H; eauto.
Qed.
Lemma pmap_never_pok {A B} (f : A -> B) (p : parser A) :
  (forall i a r, p i <> POk a r) -> forall i x r, pmap f p i <> POk x r.
Proof. intros H i x r. unfold pmap. specialize (H i). destruct (p i); try discriminate. exfalso. eapply H; eauto. Qed.


(* ====================================================================== PC1 *)
(* ------------------------------------------------------------------ leaf parsers as equations *)
Lemma keyword_cons k t r : keyword k (t :: r) = if is_kw k t then COk t r else PErr.
Proof. unfold keyword, satisfy_map. destruct (is_kw k t); reflexivity. Qed.
Lemma keyword_nil k : keyword k [] = PErr.
Proof. reflexivity. Qed.
Lemma kwith_cons {B} k (q : parser B) t r :
  pwith (keyword k) q (t :: r) =
  if is_kw k t then match q r with COk b r' | POk b r' => COk b r' | CErr | PErr => CErr end else PErr.
Proof.
  unfold pwith, pmap, pseq. rewrite keyword_cons. destruct (is_kw k t); [|reflexivity].
  destruct (q r); reflexivity.
Qed.
Lemma kwith_nil {B} k (q : parser B) : pwith (keyword k) q [] = PErr.
Proof. reflexivity. Qed.
Lemma number_u64_cons t r : number_u64 (t :: r) = match parse_u64 t with Some n => COk n r | None => PErr end.
Proof. reflexivity. Qed.
Lemma number_u64_nil : number_u64 [] = PErr.
Proof. reflexivity. Qed.
Lemma string_p_cons t r : string_p (t :: r) = if utf8_valid t then COk t r else PErr.
Proof. unfold string_p, satisfy_map. destruct (utf8_valid t); reflexivity. Qed.
Lemma stream_id_cons t r :
  stream_id (t :: r) = if utf8_valid t then if stream_id_ok t then COk t r else CErr else PErr.
Proof. unfold stream_id, and_then. rewrite string_p_cons. destruct (utf8_valid t); [|reflexivity]. destruct (stream_id_ok t); reflexivity. Qed.
Lemma stream_id_nil : stream_id [] = PErr.
Proof. reflexivity. Qed.
Lemma uuid_p_cons uo t r :
  uuid_p uo (t :: r) = if utf8_valid t then match uo (trim t) with Some u => COk u r | None => CErr end else PErr.
Proof. unfold uuid_p, and_then. rewrite string_p_cons. destruct (utf8_valid t); [|reflexivity]. destruct (uo (trim t)); reflexivity. Qed.
Lemma uuid_p_nil uo : uuid_p uo [] = PErr.
Proof. reflexivity. Qed.

Lemma window_cons t r :
  window (t :: r) = if is_kw "WINDOW" t then
                      match r with
                      | v :: r' => match parse_u64 v with Some n => if n <? 1 then CErr else COk n r' | None => CErr end
                      | [] => CErr
                      end else PErr.
Proof.
  unfold window. rewrite kwith_cons. destruct (is_kw "WINDOW" t); [|reflexivity].
  unfold number_u64_min, and_then. destruct r as [|v r']; [reflexivity|]. rewrite number_u64_cons.
  destruct (parse_u64 v); [|reflexivity]. destruct (n <? 1); reflexivity.
Qed.
Lemma window_nil : window [] = PErr.
Proof. reflexivity. Qed.

Lemma pk_clause_cons uo t r :
  pk_clause uo (t :: r) = if is_kw "PARTITION_KEY" t then
     match r with
     | v :: r' => if utf8_valid v then match uo (trim v) with Some u => COk u r' | None => CErr end else CErr
     | [] => CErr
     end else PErr.
Proof.
  unfold pk_clause. rewrite kwith_cons. destruct (is_kw "PARTITION_KEY" t); [|reflexivity].
  destruct r as [|v r']; [reflexivity|]. rewrite uuid_p_cons. destruct (utf8_valid v); [|reflexivity].
  destruct (uo (trim v)); reflexivity.
Qed.
Lemma pk_clause_nil uo : pk_clause uo [] = PErr.
Proof. reflexivity. Qed.

(* a keyword clause: what the documented clause says, both ways *)
Lemma window_doc_fwd n l r : DocWindow n l -> window (l ++ r) = COk n r.
Proof.
  intros [w v n' Hw Hv Hn]. cbn [app]. rewrite window_cons. unfold Kw in Hw. rewrite Hw, Hv.
  replace (n' <? 1) with false by (symmetry; apply N.ltb_ge; lia). reflexivity.
Qed.
Lemma window_doc_inv i n r : window i = COk n r -> exists l, i = l ++ r /\ DocWindow n l.
Proof.
  destruct i as [|t i]; [discriminate|]. rewrite window_cons.
  destruct (is_kw "WINDOW" t) eqn:K; [|discriminate]. destruct i as [|v i]; [discriminate|].
  destruct (parse_u64 v) eqn:P; [|discriminate]. destruct (n0 <? 1) eqn:L; [discriminate|].
  intros [= <- <-]. exists [t; v]. split; [reflexivity|]. constructor; auto. apply N.ltb_ge in L. lia.
Qed.
Lemma window_never_pok i n r : window i <> POk n r.
Proof.
  destruct i as [|t i]; [discriminate|]. rewrite window_cons. destruct (is_kw "WINDOW" t); [|discriminate].
  destruct i; [discriminate|]. destruct (parse_u64 t0); [|discriminate]. destruct (n0 <? 1); discriminate.
Qed.
Lemma pk_doc_fwd uo u l r : DocPkClause uo u l -> pk_clause uo (l ++ r) = COk u r.
Proof.
  intros [k v u' Hk [Hv Hu]]. cbn [app]. rewrite pk_clause_cons. unfold Kw in Hk. rewrite Hk, Hv, Hu. reflexivity.
Qed.
Lemma pk_doc_inv uo i u r : pk_clause uo i = COk u r -> exists l, i = l ++ r /\ DocPkClause uo u l.
Proof.
  destruct i as [|t i]; [discriminate|]. rewrite pk_clause_cons.
  destruct (is_kw "PARTITION_KEY" t) eqn:K; [|discriminate]. destruct i as [|v i]; [discriminate|].
  destruct (utf8_valid v) eqn:V; [|discriminate]. destruct (uo (trim v)) eqn:P; [|discriminate].
  intros [= <- <-]. exists [t; v]. split; [reflexivity|]. constructor; auto. split; auto.
Qed.
Lemma pk_never_pok uo i u r : pk_clause uo i <> POk u r.
Proof.
  destruct i as [|t i]; [discriminate|]. rewrite pk_clause_cons. destruct (is_kw "PARTITION_KEY" t); [|discriminate].
  destruct i; [discriminate|]. destruct (utf8_valid t0); [|discriminate]. destruct (uo (trim t0)); discriminate.
Qed.

(* `run` *)
Lemma run_some {A} (p : parser A) i a :
  run p i = Some a <-> (p i = COk a [] \/ p i = POk a []).
Proof.
  unfold run, pskip, pmap, pseq, eof. split.
  - destruct (p i) as [x r|x r| |]; try discriminate; destruct r; try discriminate; cbn; intros [= <-]; auto.
  - intros [-> | ->]; reflexivity.
Qed.


(* ====================================================================== PC2 *)
(* numbers are ASCII, hence well-formed UTF-8 *)
Lemma digits_utf8 s : forall acc n, digits_val s acc = Some n -> utf8_valid s = true.
Proof.
  induction s as [|c r IH]; intros acc n H; [reflexivity|].
  cbn [digits_val] in H. destruct (is_digit c) eqn:D; [|discriminate].
  unfold is_digit in D. apply inr_true in D. cbn [utf8_valid]. cbv zeta.
  replace (nb c <? 128) with true by (symmetry; apply N.ltb_lt; lia). eauto.
Qed.
Lemma parse_dec_utf8 t n : parse_dec t = Some n -> utf8_valid t = true.
Proof.
  unfold parse_dec. destruct t as [|c r]; [discriminate|]. destruct (nb c =? 43) eqn:P.
  - apply N.eqb_eq in P. destruct r; [discriminate|]. intros H. apply digits_utf8 in H.
    cbn [utf8_valid] in *. cbv zeta in *. replace (nb c <? 128) with true by (symmetry; apply N.ltb_lt; lia). exact H.
  - intros H. eapply digits_utf8; eauto.
Qed.
Lemma bounded_utf8 b t n : parse_bounded b t = Some n -> utf8_valid t = true.
Proof. unfold parse_bounded. destruct (parse_dec t) eqn:E; [|discriminate]. intros _. eapply parse_dec_utf8; eauto. Qed.

Section S.
Variable uo : string -> option uuid.

(* ------------------------------------------------------------------ <partition> *)
Lemma psel_cons t r :
  partition_selector uo (t :: r) =
  match (if utf8_valid t then uo (trim t) else None) with
  | Some u => COk (ByKey u) r
  | None => match parse_u16 t with Some p => COk (ById p) r | None => PErr end
  end.
Proof.
  unfold partition_selector, por, attempt, pmap. rewrite uuid_p_cons. unfold partition_id, satisfy_map.
  destruct (utf8_valid t); [destruct (uo (trim t))|]; destruct (parse_u16 t); reflexivity.
Qed.
Lemma psel_nil : partition_selector uo [] = PErr.
Proof. reflexivity. Qed.
Lemma psel_fwd p t r : DocPSel uo p t -> partition_selector uo (t :: r) = COk p r.
Proof.
  intros [t' u [V U] | t' q P U]; rewrite psel_cons.
  - rewrite V, U. reflexivity.
  - destruct (utf8_valid t'); rewrite ?U, P; reflexivity.
Qed.
Lemma psel_inv i p r : partition_selector uo i = COk p r -> exists t, i = t :: r /\ DocPSel uo p t.
Proof.
  destruct i as [|t i]; [discriminate|]. rewrite psel_cons.
  destruct (utf8_valid t) eqn:V.
  - destruct (uo (trim t)) eqn:U.
    + intros [= <- <-]. exists t. split; auto. constructor. split; auto.
    + destruct (parse_u16 t) eqn:P; [|discriminate]. intros [= <- <-]. exists t. split; auto. constructor; auto.
  - destruct (parse_u16 t) eqn:P; [|discriminate]. apply bounded_utf8 in P. congruence.
Qed.
Lemma psel_never_pok i p r : partition_selector uo i <> POk p r.
Proof.
  destruct i as [|t i]; [discriminate|]. rewrite psel_cons.
  destruct (if utf8_valid t then uo (trim t) else None); [discriminate|]. destruct (parse_u16 t); discriminate.
Qed.

(* ------------------------------------------------------------------ <start> <end> *)
Lemma range_cons t r :
  range_value (t :: r) = if is_kw "-" t then COk RStart r else if is_kw "+" t then COk REnd r
                         else match parse_u64 t with Some n => COk (RVal n) r | None => PErr end.
Proof.
  unfold range_value, por, pmap. rewrite !keyword_cons, number_u64_cons.
  destruct (is_kw "-" t); [reflexivity|]. destruct (is_kw "+" t); [reflexivity|]. destruct (parse_u64 t); reflexivity.
Qed.
Lemma range_nil : range_value [] = PErr.
Proof. reflexivity. Qed.
Lemma range_fwd v t r : DocRange v t -> range_value (t :: r) = COk v r.
Proof.
  intros [t' K | t' K | t' n P]; rewrite range_cons; unfold Kw in *.
  - rewrite K. reflexivity.
  - rewrite (is_kw_other "+" "-" t' K) by discriminate. rewrite K. reflexivity.
  - rewrite (kw_not_u64 "-" t' n eq_refl P), (kw_not_u64 "+" t' n eq_refl P), P. reflexivity.
Qed.
Lemma range_inv i v r : range_value i = COk v r -> exists t, i = t :: r /\ DocRange v t.
Proof.
  destruct i as [|t i]; [discriminate|]. rewrite range_cons.
  destruct (is_kw "-" t) eqn:K1; [intros [= <- <-]; exists t; split; auto; now constructor|].
  destruct (is_kw "+" t) eqn:K2; [intros [= <- <-]; exists t; split; auto; now constructor|].
  destruct (parse_u64 t) eqn:P; [|discriminate]. intros [= <- <-]. exists t; split; auto. now constructor.
Qed.
Lemma range_never_pok i v r : range_value i <> POk v r.
Proof.
  destruct i as [|t i]; [discriminate|]. rewrite range_cons.
  destruct (is_kw "-" t); [discriminate|]. destruct (is_kw "+" t); [discriminate|]. destruct (parse_u64 t); discriminate.
Qed.

(* ------------------------------------------------------------------ EGET / EPSEQ / EACK / ESVER *)
Lemma eget_fwd t u : UuidT uo t u -> run (eget_p uo) [t] = Some u.
Proof. intros [V U]. apply run_some. left. unfold eget_p. rewrite uuid_p_cons, V, U. reflexivity. Qed.
Lemma eget_inv toks u : run (eget_p uo) toks = Some u -> exists t, toks = [t] /\ UuidT uo t u.
Proof.
  intros H. apply run_some in H. unfold eget_p in H. destruct toks as [|t r]; [destruct H; discriminate|].
  rewrite uuid_p_cons in H. destruct (utf8_valid t) eqn:V; [|destruct H; discriminate].
  destruct (uo (trim t)) eqn:U; [|destruct H; discriminate].
  destruct H as [H|H]; [|discriminate]. injection H as <- ->. exists t. split; auto. split; auto.
Qed.
Lemma epseq_fwd t p : DocPSel uo p t -> run (epseq_p uo) [t] = Some p.
Proof. intros H. apply run_some. left. unfold epseq_p. apply psel_fwd. exact H. Qed.
Lemma epseq_inv toks p : run (epseq_p uo) toks = Some p -> exists t, toks = [t] /\ DocPSel uo p t.
Proof.
  intros H. apply run_some in H. unfold epseq_p in H. destruct H as [H|H]; [|exfalso; eapply psel_never_pok; eauto].
  apply psel_inv in H. exact H.
Qed.
Lemma eack_fwd t v u n : UuidT uo t u -> parse_u64 v = Some n -> run (eack_p uo) [t; v] = Some (u, n).
Proof.
  intros [V U] P. apply run_some. left. unfold eack_p, pseq. rewrite uuid_p_cons, V, U, number_u64_cons, P. reflexivity.
Qed.
Lemma eack_inv toks u n : run (eack_p uo) toks = Some (u, n) -> exists t v, toks = [t; v] /\ UuidT uo t u /\ parse_u64 v = Some n.
Proof.
  intros H. apply run_some in H. unfold eack_p, pseq in H. destruct toks as [|t r]; [destruct H; discriminate|].
  rewrite uuid_p_cons in H. destruct (utf8_valid t) eqn:V; [|destruct H; discriminate].
  destruct (uo (trim t)) eqn:U; [|destruct H; discriminate].
  destruct r as [|v r]; [destruct H; discriminate|]. rewrite number_u64_cons in H.
  destruct (parse_u64 v) eqn:P; [|destruct H; discriminate].
  destruct H as [H|H]; [|discriminate]. injection H as <- <- ->. exists t, v. repeat split; auto.
Qed.

Lemma opt_pk_fwd pk l : DocOpt (DocPkClause uo) pk l -> optional (pk_clause uo) l = (match pk with Some _ => COk pk [] | None => POk pk [] end).
Proof.
  intros [|u l' D]; [reflexivity|]. unfold optional. rewrite <- (app_nil_r l'), (pk_doc_fwd uo u l' [] D). reflexivity.
Qed.
Lemma esver_fwd s pk l : StreamT s -> DocOpt (DocPkClause uo) pk l -> run (esver_p uo) (s :: l) = Some (s, pk).
Proof.
  intros [V O] D. apply run_some. left. unfold esver_p, pseq. rewrite stream_id_cons, V, O, (opt_pk_fwd _ _ D).
  destruct pk; reflexivity.
Qed.
Lemma esver_inv toks s pk : run (esver_p uo) toks = Some (s, pk) ->
  exists l, toks = s :: l /\ StreamT s /\ DocOpt (DocPkClause uo) pk l.
Proof.
  intros H. apply run_some in H. unfold esver_p, pseq in H. destruct toks as [|t r]; [destruct H; discriminate|].
  rewrite stream_id_cons in H. destruct (utf8_valid t) eqn:V; [|destruct H; discriminate].
  destruct (stream_id_ok t) eqn:O; [|destruct H; discriminate].
  unfold optional in H. destruct (pk_clause uo r) as [u r'|u r'| |] eqn:E; try (destruct H; discriminate).
  - destruct H as [H|H]; [|discriminate]. injection H as <- <- ->.
    apply pk_doc_inv in E. destruct E as [l [-> D]]. rewrite app_nil_r. exists l. repeat split; auto. now constructor.
  - exfalso. eapply pk_never_pok; eauto.
  - destruct H as [H|H]; [|discriminate]. injection H as <- <- ->. exists []. repeat split; auto. constructor.
Qed.
End S.


(* ====================================================================== PC3 *)
(* ------------------------------------------------------------------ keyword-value clauses *)
(** a parser that reads exactly one token *)
Definition value_parser {B} (q : parser B) (V : B -> token -> Prop) : Prop :=
  q [] = PErr /\
  (forall v r, match q (v :: r) with COk b r' => r' = r /\ V b v | POk _ _ => False | CErr | PErr => True end) /\
  (forall b v r, V b v -> q (v :: r) = COk b r).

Definition kv {B C} (k : string) (f : B -> C) (q : parser B) : parser C := attempt (pmap f (pwith (keyword k) q)).

Lemma kv_nil {B C} k (f : B -> C) q : kv k f q [] = PErr.
Proof. reflexivity. Qed.
Lemma kv_miss {B C} k (f : B -> C) q t r : is_kw k t = false -> kv k f q (t :: r) = PErr.
Proof. intros H. unfold kv, attempt, pmap. rewrite kwith_cons, H. reflexivity. Qed.
Lemma kv_fwd {B C} k (f : B -> C) q V t v b tail :
  value_parser q V -> Kw k t -> V b v -> kv k f q (t :: v :: tail) = COk (f b) tail.
Proof.
  intros [_ [_ H3]] K Hv. unfold kv, attempt, pmap. rewrite kwith_cons. unfold Kw in K. rewrite K, (H3 _ _ tail Hv). reflexivity.
Qed.
Lemma kv_inv {B C} k (f : B -> C) q V i x r :
  value_parser q V -> kv k f q i = COk x r -> exists t v b, i = t :: v :: r /\ Kw k t /\ V b v /\ x = f b.
Proof.
  intros [H1 [H2 _]]. destruct i as [|t i]; [discriminate|]. unfold kv, attempt, pmap. rewrite kwith_cons.
  destruct (is_kw k t) eqn:K; [|discriminate]. destruct i as [|v i]; [rewrite H1; discriminate|].
  specialize (H2 v i). destruct (q (v :: i)) as [b r'|b r'| |]; try discriminate; [|contradiction].
  destruct H2 as [-> Hv]. intros [= <- <-]. exists t, v, b. repeat split; auto.
Qed.
Lemma kv_cases {B C} k (f : B -> C) q V i :
  value_parser q V -> (exists x r, kv k f q i = COk x r /\ (length r < length i)%nat) \/ kv k f q i = PErr.
Proof.
  intros [H1 [H2 _]]. destruct i as [|t i]; [right; reflexivity|]. unfold kv, attempt, pmap. rewrite kwith_cons.
  destruct (is_kw k t); [|right; reflexivity]. destruct i as [|v i]; [rewrite H1; right; reflexivity|].
  specialize (H2 v i). destruct (q (v :: i)) as [b r'|b r'| |]; try (right; reflexivity); [|contradiction].
  destruct H2 as [-> _]. left. eexists _, _. split; [reflexivity|]. cbn. lia.
Qed.

(* the value parsers *)
Lemma vp_uuid uo : value_parser (uuid_p uo) (fun u v => UuidT uo v u).
Proof.
  split; [reflexivity|]. split.
  - intros v r. rewrite uuid_p_cons. destruct (utf8_valid v) eqn:V; [|exact I]. destruct (uo (trim v)) eqn:U; [|exact I]. repeat split; auto.
  - intros b v r [V U]. rewrite uuid_p_cons, V, U. reflexivity.
Qed.
Lemma vp_u64 : value_parser number_u64 (fun n v => parse_u64 v = Some n).
Proof.
  split; [reflexivity|]. split.
  - intros v r. rewrite number_u64_cons. destruct (parse_u64 v); [split; auto|exact I].
  - intros b v r H. rewrite number_u64_cons, H. reflexivity.
Qed.
Lemma vp_data : value_parser data_p (fun d v => d = v).
Proof.
  split; [reflexivity|]. split.
  - intros v r. cbn. split; auto.
  - intros b v r ->. reflexivity.
Qed.
Lemma expected_cons t r :
  expected_version (t :: r) =
  match parse_u64 t with
  | Some n => COk (EvExact n) r
  | None => if is_kw "ANY" t then COk EvAny r else if is_kw "EXISTS" t then COk EvExists r
            else if is_kw "EMPTY" t then COk EvEmpty r else PErr
  end.
Proof.
  unfold expected_version, por, pmap. rewrite number_u64_cons, !keyword_cons.
  destruct (parse_u64 t); [reflexivity|]. destruct (is_kw "ANY" t); [reflexivity|].
  destruct (is_kw "EXISTS" t); [reflexivity|]. destruct (is_kw "EMPTY" t); reflexivity.
Qed.
Lemma vp_expected : value_parser expected_version (fun e v => DocExpected e v).
Proof.
  split; [reflexivity|]. split.
  - intros v r. rewrite expected_cons. destruct (parse_u64 v) eqn:P; [split; auto; now constructor|].
    destruct (is_kw "ANY" v) eqn:K1; [split; auto; now constructor|].
    destruct (is_kw "EXISTS" v) eqn:K2; [split; auto; now constructor|].
    destruct (is_kw "EMPTY" v) eqn:K3; [split; auto; now constructor|exact I].
  - intros b v r [t n P|t K|t K|t K]; rewrite expected_cons; unfold Kw in *.
    + rewrite P. reflexivity.
    + rewrite (u64_not_kw "ANY" t eq_refl K), K. reflexivity.
    + rewrite (u64_not_kw "EXISTS" t eq_refl K), (is_kw_other "EXISTS" "ANY" t K) by discriminate. rewrite K. reflexivity.
    + rewrite (u64_not_kw "EMPTY" t eq_refl K), (is_kw_other "EMPTY" "ANY" t K), (is_kw_other "EMPTY" "EXISTS" t K) by discriminate.
      rewrite K. reflexivity.
Qed.

(* `por` *)
Lemma por_inv {A} (p q : parser A) i x r : por p q i = COk x r -> p i = COk x r \/ (p i = PErr /\ q i = COk x r).
Proof. unfold por. destruct (p i); auto; discriminate. Qed.
Lemma por_left {A} (p q : parser A) i x r : p i = COk x r -> por p q i = COk x r.
Proof. unfold por. intros ->. reflexivity. Qed.
Lemma por_right {A} (p q : parser A) i : p i = PErr -> por p q i = q i.
Proof. unfold por. intros ->. reflexivity. Qed.

Section S.
Variable uo : string -> option uuid.

(* ------------------------------------------------------------------ the option clauses of EAPPEND / EMAPPEND *)
Lemma eappend_opt_kv : eappend_opt uo =
  por (kv "EVENT_ID" OEventId (uuid_p uo)) (por (kv "PARTITION_KEY" OPartitionKey (uuid_p uo))
  (por (kv "EXPECTED_VERSION" OExpected expected_version) (por (kv "TIMESTAMP" OTimestamp number_u64)
  (por (kv "PAYLOAD" OPayload data_p) (kv "METADATA" OMetadata data_p))))).
Proof. reflexivity. Qed.
Lemma emappend_opt_kv : emappend_opt uo =
  por (kv "EVENT_ID" OEventId (uuid_p uo))
  (por (kv "EXPECTED_VERSION" OExpected expected_version) (por (kv "TIMESTAMP" OTimestamp number_u64)
  (por (kv "PAYLOAD" OPayload data_p) (kv "METADATA" OMetadata data_p)))).
Proof. reflexivity. Qed.

Ltac kvmiss K := rewrite por_right by (apply kv_miss; apply (is_kw_other _ _ _ K); discriminate).

Lemma eappend_opt_fwd o pre tail : DocAOpt uo o pre -> eappend_opt uo (pre ++ tail) = COk o tail.
Proof.
  rewrite eappend_opt_kv. intros [k v u K V|k v u K V|k v e K V|k v n K V|k v K|k v K]; cbn [app]; unfold Kw in K.
  - apply por_left. eapply kv_fwd; eauto using vp_uuid.
  - kvmiss K. apply por_left. eapply kv_fwd; eauto using vp_uuid.
  - do 2 kvmiss K. apply por_left. eapply (kv_fwd _ _ _ _ _ _ _ _ vp_expected); eauto.
  - do 3 kvmiss K. apply por_left. eapply (kv_fwd _ _ _ _ _ _ _ _ vp_u64); eauto.
  - do 4 kvmiss K. apply por_left. eapply (kv_fwd _ _ _ _ _ _ _ _ vp_data); eauto.
  - do 5 kvmiss K. eapply (kv_fwd _ _ _ _ _ _ _ _ vp_data); eauto.
Qed.
Lemma emappend_opt_fwd o pre tail : DocAOpt uo o pre -> not_pk_opt o -> emappend_opt uo (pre ++ tail) = COk o tail.
Proof.
  rewrite emappend_opt_kv. intros [k v u K V|k v u K V|k v e K V|k v n K V|k v K|k v K] NP; cbn [app]; unfold Kw in K.
  - apply por_left. eapply kv_fwd; eauto using vp_uuid.
  - destruct NP.
  - do 1 kvmiss K. apply por_left. eapply (kv_fwd _ _ _ _ _ _ _ _ vp_expected); eauto.
  - do 2 kvmiss K. apply por_left. eapply (kv_fwd _ _ _ _ _ _ _ _ vp_u64); eauto.
  - do 3 kvmiss K. apply por_left. eapply (kv_fwd _ _ _ _ _ _ _ _ vp_data); eauto.
  - do 4 kvmiss K. eapply (kv_fwd _ _ _ _ _ _ _ _ vp_data); eauto.
Qed.

Ltac kvinv H vp :=
  let t := fresh "t" in let v := fresh "v" in let b := fresh "b" in let K := fresh "K" in let V := fresh "V" in
  destruct (kv_inv _ _ _ _ _ _ _ vp H) as [t [v [b [-> [K [V ->]]]]]]; exists [t; v]; split; [reflexivity|].

Lemma eappend_opt_inv i o r : eappend_opt uo i = COk o r -> exists pre, i = pre ++ r /\ DocAOpt uo o pre.
Proof.
  rewrite eappend_opt_kv. intros H.
  apply por_inv in H. destruct H as [H|[_ H]]; [kvinv H (vp_uuid uo); now constructor|].
  apply por_inv in H. destruct H as [H|[_ H]]; [kvinv H (vp_uuid uo); now constructor|].
  apply por_inv in H. destruct H as [H|[_ H]]; [kvinv H vp_expected; now constructor|].
  apply por_inv in H. destruct H as [H|[_ H]]; [kvinv H vp_u64; now constructor|].
  apply por_inv in H. destruct H as [H|[_ H]]; [kvinv H vp_data; subst; now constructor|].
  kvinv H vp_data; subst; now constructor.
Qed.
Lemma emappend_opt_inv i o r : emappend_opt uo i = COk o r -> exists pre, i = pre ++ r /\ DocAOpt uo o pre /\ not_pk_opt o.
Proof.
  rewrite emappend_opt_kv. intros H.
  apply por_inv in H. destruct H as [H|[_ H]]; [kvinv H (vp_uuid uo); split; [now constructor|exact I]|].
  apply por_inv in H. destruct H as [H|[_ H]]; [kvinv H vp_expected; split; [now constructor|exact I]|].
  apply por_inv in H. destruct H as [H|[_ H]]; [kvinv H vp_u64; split; [now constructor|exact I]|].
  apply por_inv in H. destruct H as [H|[_ H]]; [kvinv H vp_data; subst; split; [now constructor|exact I]|].
  kvinv H vp_data; subst; split; [now constructor|exact I].
Qed.

(* a chain of attempted clauses either consumes or fails without consuming *)
Definition clean {A} (p : parser A) : Prop :=
  forall i, (exists x r, p i = COk x r /\ (length r < length i)%nat) \/ p i = PErr.
Lemma clean_kv {B C} k (f : B -> C) q V : value_parser q V -> clean (kv k f q).
Proof. intros H i. eapply kv_cases; eauto. Qed.
Lemma clean_por {A} (p q : parser A) : clean p -> clean q -> clean (por p q).
Proof.
  intros Hp Hq i. unfold por. destruct (Hp i) as [[x [r [E L]]]|E]; rewrite E; [left; eauto|]. apply Hq.
Qed.
Lemma clean_consuming {A} (p : parser A) : clean p -> consuming p.
Proof. intros H i. destruct (H i) as [[x [r [E L]]]|E]; rewrite E; auto. Qed.
Lemma clean_nil {A} (p : parser A) : clean p -> p [] = PErr.
Proof. intros H. destruct (H []) as [[x [r [E L]]]|E]; auto. cbn in L. lia. Qed.

Lemma eappend_opt_clean : clean (eappend_opt uo).
Proof.
  rewrite eappend_opt_kv. repeat apply clean_por; eauto using clean_kv, vp_uuid, vp_expected, vp_u64, vp_data.
Qed.
Lemma emappend_opt_clean : clean (emappend_opt uo).
Proof.
  rewrite emappend_opt_kv. repeat apply clean_por; eauto using clean_kv, vp_uuid, vp_expected, vp_u64, vp_data.
Qed.
(* a token that is none of the option keywords ends the option list *)
Lemma emappend_opt_stop s r : emappend_word s = false -> emappend_opt uo (s :: r) = PErr.
Proof.
  unfold emappend_word. rewrite !orb_false_iff. intros [[[[K1 K2] K3] K4] K5].
  rewrite emappend_opt_kv. rewrite !por_right by (apply kv_miss; assumption). apply kv_miss; assumption.
Qed.
End S.


(* ====================================================================== PC4 *)
Lemma Forall2_and {A B} (P Q : A -> B -> Prop) l l' : Forall2 P l l' -> Forall2 Q l l' -> Forall2 (fun a b => P a b /\ Q a b) l l'.
Proof. induction 1; intros H'; inversion H'; subst; constructor; auto. Qed.
Lemma Forall2_left {A B} (P : A -> B -> Prop) (Q : A -> Prop) l l' : Forall2 P l l' -> Forall Q l -> Forall2 (fun a b => P a b /\ Q a) l l'.
Proof. induction 1; intros H'; inversion H'; subst; constructor; auto. Qed.
Lemma Forall2_split {A B} (P : A -> B -> Prop) (Q : A -> Prop) l l' : Forall2 (fun a b => P a b /\ Q a) l l' -> Forall2 P l l' /\ Forall Q l.
Proof. induction 1 as [|a b l l' [H1 H2] F [IH1 IH2]]; split; constructor; auto. Qed.

Section S.
Variable uo : string -> option uuid.

(* ------------------------------------------------------------------ EAPPEND *)
Lemma eappend_opts_fwd opts os : Forall2 (DocAOpt uo) opts os ->
  many (eappend_opt uo) (concat os) = match opts with [] => POk [] [] | _ => COk opts [] end.
Proof.
  intros F. rewrite <- (app_nil_r (concat os)).
  apply (many_fwd (eappend_opt uo) (DocAOpt uo) (fun _ => True)); auto.
  - apply clean_consuming, eappend_opt_clean.
  - intros a pre tail D _. apply eappend_opt_fwd; auto.
Qed.
Lemma eappend_opts_inv i opts r : (many (eappend_opt uo) i = COk opts r \/ many (eappend_opt uo) i = POk opts r) ->
  exists os, Forall2 (DocAOpt uo) opts os /\ i = concat os ++ r.
Proof.
  intros H. destruct (many_inv (eappend_opt uo) (DocAOpt uo) (clean_consuming _ (eappend_opt_clean uo))
    (fun i a r => eappend_opt_inv uo i a r) _ i (le_n _) opts r H) as [os [F [E _]]]. eauto.
Qed.

Lemma eappend_fwd e toks : DocEAppend uo e toks -> run (eappend_p uo) toks = Some e.
Proof.
  intros [s [n [opts [os [[V O] [Vn [F [B ->]]]]]]]]. apply run_some. left.
  unfold eappend_p, and_then, pseq. rewrite stream_id_cons, V, O, string_p_cons. unfold NameT in Vn. rewrite Vn.
  rewrite (eappend_opts_fwd _ _ F). unfold build_ev. destruct opts; cbn [fst snd]; rewrite B; reflexivity.
Qed.
Lemma eappend_inv e toks : run (eappend_p uo) toks = Some e -> DocEAppend uo e toks.
Proof.
  intros H. apply run_some in H. unfold eappend_p, and_then, pseq in H.
  destruct toks as [|s toks]; [destruct H; discriminate|]. rewrite stream_id_cons in H.
  destruct (utf8_valid s) eqn:V; [|destruct H; discriminate]. destruct (stream_id_ok s) eqn:O; [|destruct H; discriminate].
  destruct toks as [|n toks]; [destruct H; discriminate|]. rewrite string_p_cons in H.
  destruct (utf8_valid n) eqn:Vn; [|destruct H; discriminate].
  destruct (many (eappend_opt uo) toks) as [opts r|opts r| |] eqn:M; try (destruct H; discriminate).
  - destruct (eappend_opts_inv _ _ _ (or_introl M)) as [os [F ->]]. unfold build_ev in H. cbn [fst snd] in H.
    destruct (add_opts (new_ev s n) opts) eqn:B; [|destruct H; discriminate].
    destruct H as [H|H]; [|discriminate]. injection H as <- ->. rewrite app_nil_r.
    exists s, n, opts, os. repeat split; auto.
  - destruct (eappend_opts_inv _ _ _ (or_intror M)) as [os [F ->]]. unfold build_ev in H. cbn [fst snd] in H.
    destruct (add_opts (new_ev s n) opts) eqn:B; [|destruct H; discriminate].
    destruct H as [H|H]; [|discriminate]. injection H as <- ->. rewrite app_nil_r.
    exists s, n, opts, os. repeat split; auto.
Qed.

(* ------------------------------------------------------------------ EMAPPEND *)
Lemma em_reserved_cons s r : emappend_reserved (s :: r) = if emappend_word s then COk s r else PErr.
Proof.
  unfold emappend_reserved, emappend_word, por. rewrite !keyword_cons.
  destruct (is_kw "EVENT_ID" s); [reflexivity|]. destruct (is_kw "EXPECTED_VERSION" s); [reflexivity|].
  destruct (is_kw "TIMESTAMP" s); [reflexivity|]. destruct (is_kw "PAYLOAD" s); [reflexivity|].
  destruct (is_kw "METADATA" s); reflexivity.
Qed.
Lemma em_sid_cons s r :
  pwith (not_followed_by emappend_reserved) stream_id (s :: r) =
  if emappend_word s then PErr else if utf8_valid s then if stream_id_ok s then COk s r else CErr else PErr.
Proof.
  unfold pwith, pmap, pseq, not_followed_by. rewrite em_reserved_cons. destruct (emappend_word s); [reflexivity|].
  rewrite stream_id_cons. destruct (utf8_valid s); [|reflexivity]. destruct (stream_id_ok s); reflexivity.
Qed.
Lemma em_sid_nil : pwith (not_followed_by emappend_reserved) stream_id [] = PErr.
Proof. reflexivity. Qed.

Definition em_item (o : aopt) (pre : list token) : Prop := DocAOpt uo o pre /\ not_pk_opt o.
Lemma emappend_opts_fwd opts os tail : Forall2 em_item opts os -> emappend_opt uo tail = PErr ->
  many (emappend_opt uo) (concat os ++ tail) = match opts with [] => POk [] tail | _ => COk opts tail end.
Proof.
  intros F St. apply (many_fwd (emappend_opt uo) em_item (fun _ => True)); auto.
  - apply clean_consuming, emappend_opt_clean.
  - intros a pre t [D NP] _. apply emappend_opt_fwd; auto.
Qed.
Lemma emappend_opts_inv i opts r : (many (emappend_opt uo) i = COk opts r \/ many (emappend_opt uo) i = POk opts r) ->
  exists os, Forall2 em_item opts os /\ i = concat os ++ r.
Proof.
  intros H. destruct (many_inv (emappend_opt uo) em_item (clean_consuming _ (emappend_opt_clean uo))
    (fun i a r => emappend_opt_inv uo i a r) _ i (le_n _) opts r H) as [os [F [E _]]]. eauto.
Qed.

Lemma event_fwd e pre tail : DocEvent uo e pre -> emappend_opt uo tail = PErr -> emappend_event uo (pre ++ tail) = COk e tail.
Proof.
  intros [s [n [opts [os [[V O] [W [Vn [F [NP [B ->]]]]]]]]]] St.
  unfold emappend_event, and_then, pseq. cbn [app]. rewrite em_sid_cons, W, V, O, string_p_cons. unfold NameT in Vn. rewrite Vn.
  rewrite (emappend_opts_fwd opts os tail (Forall2_left _ _ _ _ F NP) St).
  unfold build_ev. destruct opts; cbn [fst snd]; rewrite B; reflexivity.
Qed.
Lemma event_inv i e r : emappend_event uo i = COk e r -> exists pre, i = pre ++ r /\ DocEvent uo e pre.
Proof.
  unfold emappend_event, and_then, pseq. destruct i as [|s i]; [discriminate|]. rewrite em_sid_cons.
  destruct (emappend_word s) eqn:W; [discriminate|]. destruct (utf8_valid s) eqn:V; [|discriminate].
  destruct (stream_id_ok s) eqn:O; [|discriminate]. destruct i as [|n i]; [discriminate|]. rewrite string_p_cons.
  destruct (utf8_valid n) eqn:Vn; [|discriminate].
  destruct (many (emappend_opt uo) i) as [opts r'|opts r'| |] eqn:M; try discriminate.
  - destruct (emappend_opts_inv _ _ _ (or_introl M)) as [os [F ->]]. unfold build_ev. cbn [fst snd].
    destruct (add_opts (new_ev s n) opts) eqn:B; [|discriminate]. intros [= <- <-].
    apply Forall2_split in F. destruct F as [F NP].
    exists (s :: n :: concat os). split; [reflexivity|]. exists s, n, opts, os. repeat split; auto.
  - destruct (emappend_opts_inv _ _ _ (or_intror M)) as [os [F ->]]. unfold build_ev. cbn [fst snd].
    destruct (add_opts (new_ev s n) opts) eqn:B; [|discriminate]. intros [= <- <-].
    apply Forall2_split in F. destruct F as [F NP].
    exists (s :: n :: concat os). split; [reflexivity|]. exists s, n, opts, os. repeat split; auto.
Qed.
Lemma event_consuming : consuming (emappend_event uo).
Proof.
  intros i. unfold emappend_event, and_then, pseq. destruct i as [|s i]; [exact I|]. rewrite em_sid_cons.
  destruct (emappend_word s); [exact I|]. destruct (utf8_valid s); [|exact I]. destruct (stream_id_ok s); [|exact I].
  destruct i as [|n i]; [exact I|]. rewrite string_p_cons. destruct (utf8_valid n); [|exact I].
  destruct (many (emappend_opt uo) i) as [opts r'|opts r'| |] eqn:M; try exact I.
  - destruct (emappend_opts_inv _ _ _ (or_introl M)) as [os [F ->]].
    destruct (build_ev _); [|exact I]. cbn [length]. rewrite app_length. lia.
  - destruct (emappend_opts_inv _ _ _ (or_intror M)) as [os [F ->]].
    destruct (build_ev _); [|exact I]. cbn [length]. rewrite app_length. lia.
Qed.

Lemma emappend_fwd x toks : DocEMAppend uo x toks -> run (emappend_p uo) toks = Some x.
Proof.
  destruct x as [pk evs]. intros [k [es [[V U] [NE [F ->]]]]]. cbn [fst snd] in *. apply run_some. left.
  unfold emappend_p, pseq. rewrite uuid_p_cons, V, U. rewrite <- (app_nil_r (concat es)).
  assert (M : many1 (emappend_event uo) (concat es ++ []) = COk evs []).
  { apply (many1_fwd (emappend_event uo) (DocEvent uo) (fun tail => emappend_opt uo tail = PErr)); auto.
    - apply event_consuming.
    - intros a pre tail D St. apply event_fwd; auto.
    - intros a pre tail [s [n [opts [os [_ [W [_ [_ [_ [_ ->]]]]]]]]]]. cbn [app]. apply emappend_opt_stop; auto. }
  rewrite M. reflexivity.
Qed.
Lemma emappend_inv x toks : run (emappend_p uo) toks = Some x -> DocEMAppend uo x toks.
Proof.
  destruct x as [pk evs]. intros H. apply run_some in H. unfold emappend_p, pseq in H.
  destruct toks as [|k toks]; [destruct H; discriminate|]. rewrite uuid_p_cons in H.
  destruct (utf8_valid k) eqn:V; [|destruct H; discriminate]. destruct (uo (trim k)) eqn:U; [|destruct H; discriminate].
  destruct (many1 (emappend_event uo) toks) as [l r|l r| |] eqn:M; try (destruct H; discriminate).
  - destruct H as [H|H]; [|discriminate]. injection H as <- <- ->.
    destruct (many1_inv (emappend_event uo) (DocEvent uo) event_consuming (fun i a r => event_inv i a r) _ _ _ (or_introl M))
      as [es [NE [F [-> _]]]]. rewrite app_nil_r. exists k, es. cbn [fst snd]. repeat split; auto.
  - exfalso. eapply many1_never_pok; eauto using event_consuming.
Qed.
End S.


(* ====================================================================== PC5 *)
Section S.
Variable uo : string -> option uuid.

(* ------------------------------------------------------------------ ESCAN *)
Lemma escan_opt_kv : escan_opt uo = por (kv "PARTITION_KEY" SPartitionKey (uuid_p uo)) (kv "COUNT" SCount number_u64).
Proof. reflexivity. Qed.
Lemma escan_opt_clean : clean (escan_opt uo).
Proof. rewrite escan_opt_kv. apply clean_por; eauto using clean_kv, vp_uuid, vp_u64. Qed.
Lemma escan_opt_fwd o pre tail : DocSOpt uo o pre -> escan_opt uo (pre ++ tail) = COk o tail.
Proof.
  rewrite escan_opt_kv. intros [l u [k v u' K V]|k v n K V]; cbn [app]; unfold Kw in K.
  - apply por_left. eapply kv_fwd; eauto using vp_uuid.
  - rewrite por_right by (apply kv_miss; apply (is_kw_other _ _ _ K); discriminate).
    eapply (kv_fwd _ _ _ _ _ _ _ _ vp_u64); eauto.
Qed.
Lemma escan_opt_inv i o r : escan_opt uo i = COk o r -> exists pre, i = pre ++ r /\ DocSOpt uo o pre.
Proof.
  rewrite escan_opt_kv. intros H. apply por_inv in H. destruct H as [H|[_ H]].
  - destruct (kv_inv _ _ _ _ _ _ _ (vp_uuid uo) H) as [t [v [b [-> [K [V ->]]]]]]. exists [t; v]. split; [reflexivity|].
    constructor. constructor; auto.
  - destruct (kv_inv _ _ _ _ _ _ _ vp_u64 H) as [t [v [b [-> [K [V ->]]]]]]. exists [t; v]. split; [reflexivity|].
    constructor; auto.
Qed.
Lemma escan_opts_fwd opts os : Forall2 (DocSOpt uo) opts os ->
  many (escan_opt uo) (concat os) = match opts with [] => POk [] [] | _ => COk opts [] end.
Proof.
  intros F. rewrite <- (app_nil_r (concat os)).
  apply (many_fwd (escan_opt uo) (DocSOpt uo) (fun _ => True)); auto.
  - apply clean_consuming, escan_opt_clean.
  - intros a pre tail D _. apply escan_opt_fwd; auto.
Qed.
Lemma escan_opts_inv i opts r : (many (escan_opt uo) i = COk opts r \/ many (escan_opt uo) i = POk opts r) ->
  exists os, Forall2 (DocSOpt uo) opts os /\ i = concat os ++ r.
Proof.
  intros H. destruct (many_inv (escan_opt uo) (DocSOpt uo) (clean_consuming _ escan_opt_clean)
    (fun i a r => escan_opt_inv i a r) _ i (le_n _) opts r H) as [os [F [E _]]]. eauto.
Qed.

Lemma escan_fwd c toks : DocEScan uo c toks -> run (escan_p uo) toks = Some c.
Proof.
  intros [s [a [b [ra [rb [opts [os [[V O] [Ra [Rb [F [B ->]]]]]]]]]]]]. apply run_some. left.
  unfold escan_p, and_then, pseq. rewrite stream_id_cons, V, O, (range_fwd _ _ _ Ra), (range_fwd _ _ _ Rb).
  rewrite (escan_opts_fwd _ _ F). destruct opts; cbn [fst snd]; rewrite B; reflexivity.
Qed.
Lemma escan_inv c toks : run (escan_p uo) toks = Some c -> DocEScan uo c toks.
Proof.
  intros H. apply run_some in H. unfold escan_p, and_then, pseq in H.
  destruct toks as [|s toks]; [destruct H; discriminate|]. rewrite stream_id_cons in H.
  destruct (utf8_valid s) eqn:V; [|destruct H; discriminate]. destruct (stream_id_ok s) eqn:O; [|destruct H; discriminate].
  destruct (range_value toks) as [ra r1|ra r1| |] eqn:R1; try (destruct H; discriminate);
    [|exfalso; eapply range_never_pok; eauto].
  apply range_inv in R1. destruct R1 as [a [-> Ra]].
  destruct (range_value r1) as [rb r2|rb r2| |] eqn:R2; try (destruct H; discriminate);
    [|exfalso; eapply range_never_pok; eauto].
  apply range_inv in R2. destruct R2 as [b [-> Rb]].
  destruct (many (escan_opt uo) r2) as [opts r|opts r| |] eqn:M; try (destruct H; discriminate).
  - destruct (escan_opts_inv _ _ _ (or_introl M)) as [os [F ->]]. cbn [fst snd] in H.
    destruct (scan_adds _ opts) eqn:B; [|destruct H; discriminate].
    destruct H as [H|H]; [|discriminate]. injection H as <- ->. rewrite app_nil_r.
    exists s, a, b, ra, rb, opts, os. repeat split; auto.
  - destruct (escan_opts_inv _ _ _ (or_intror M)) as [os [F ->]]. cbn [fst snd] in H.
    destruct (scan_adds _ opts) eqn:B; [|destruct H; discriminate].
    destruct H as [H|H]; [|discriminate]. injection H as <- ->. rewrite app_nil_r.
    exists s, a, b, ra, rb, opts, os. repeat split; auto.
Qed.

(* ------------------------------------------------------------------ EPSCAN *)
Definition count_item : parser N := pwith (keyword "COUNT") number_u64.
Lemma count_cons t r :
  count_item (t :: r) = if is_kw "COUNT" t then
     match r with v :: r' => match parse_u64 v with Some n => COk n r' | None => CErr end | [] => CErr end else PErr.
Proof.
  unfold count_item. rewrite kwith_cons. destruct (is_kw "COUNT" t); [|reflexivity].
  destruct r as [|v r']; [reflexivity|]. rewrite number_u64_cons. destruct (parse_u64 v); reflexivity.
Qed.
Lemma count_consuming : consuming count_item.
Proof.
  intros [|t r]; [exact I|]. rewrite count_cons. destruct (is_kw "COUNT" t); [|exact I].
  destruct r as [|v r']; [exact I|]. destruct (parse_u64 v); [cbn; lia|exact I].
Qed.
Lemma count_fwd n pre tail : DocCount n pre -> count_item (pre ++ tail) = COk n tail.
Proof. intros [k v n' K P]. cbn [app]. rewrite count_cons. unfold Kw in K. rewrite K, P. reflexivity. Qed.
Lemma count_inv i n r : count_item i = COk n r -> exists pre, i = pre ++ r /\ DocCount n pre.
Proof.
  destruct i as [|t i]; [discriminate|]. rewrite count_cons. destruct (is_kw "COUNT" t) eqn:K; [|discriminate].
  destruct i as [|v i]; [discriminate|]. destruct (parse_u64 v) eqn:P; [|discriminate].
  intros [= <- <-]. exists [t; v]. split; [reflexivity|]. constructor; auto.
Qed.
Lemma counts_fwd ns os : Forall2 DocCount ns os ->
  many count_item (concat os) = match ns with [] => POk [] [] | _ => COk ns [] end.
Proof.
  intros F. rewrite <- (app_nil_r (concat os)).
  apply (many_fwd count_item DocCount (fun _ => True)); auto.
  - apply count_consuming.
  - intros a pre tail D _. apply count_fwd; auto.
Qed.
Lemma counts_inv i ns r : (many count_item i = COk ns r \/ many count_item i = POk ns r) ->
  exists os, Forall2 DocCount ns os /\ i = concat os ++ r.
Proof.
  intros H. destruct (many_inv count_item DocCount count_consuming count_inv _ i (le_n _) ns r H) as [os [F [E _]]]. eauto.
Qed.

Lemma epscan_fwd c toks : DocEPScan uo c toks -> run (epscan_p uo) toks = Some c.
Proof.
  intros [p [a [b [sel [ra [rb [ns [os [Ps [Ra [Rb [F [B ->]]]]]]]]]]]]]. apply run_some. left.
  unfold epscan_p, and_then, pseq. rewrite (psel_fwd _ _ _ _ Ps), (range_fwd _ _ _ Ra), (range_fwd _ _ _ Rb).
  fold count_item. rewrite (counts_fwd _ _ F). destruct ns; cbn [fst snd]; rewrite B; reflexivity.
Qed.
Lemma epscan_inv c toks : run (epscan_p uo) toks = Some c -> DocEPScan uo c toks.
Proof.
  intros H. apply run_some in H. unfold epscan_p, and_then, pseq in H. fold count_item in H.
  destruct (partition_selector uo toks) as [sel r0|sel r0| |] eqn:P0; try (destruct H; discriminate);
    [|exfalso; eapply psel_never_pok; eauto].
  apply psel_inv in P0. destruct P0 as [p [-> Ps]].
  destruct (range_value r0) as [ra r1|ra r1| |] eqn:R1; try (destruct H; discriminate);
    [|exfalso; eapply range_never_pok; eauto].
  apply range_inv in R1. destruct R1 as [a [-> Ra]].
  destruct (range_value r1) as [rb r2|rb r2| |] eqn:R2; try (destruct H; discriminate);
    [|exfalso; eapply range_never_pok; eauto].
  apply range_inv in R2. destruct R2 as [b [-> Rb]].
  destruct (many count_item r2) as [ns r|ns r| |] eqn:M; try (destruct H; discriminate).
  - destruct (counts_inv _ _ _ (or_introl M)) as [os [F ->]]. cbn [fst snd] in H.
    destruct (pscan_adds _ ns) eqn:B; [|destruct H; discriminate].
    destruct H as [H|H]; [|discriminate]. injection H as <- ->. rewrite app_nil_r.
    exists p, a, b, sel, ra, rb, ns, os. repeat split; auto.
  - destruct (counts_inv _ _ _ (or_intror M)) as [os [F ->]]. cbn [fst snd] in H.
    destruct (pscan_adds _ ns) eqn:B; [|destruct H; discriminate].
    destruct H as [H|H]; [|discriminate]. injection H as <- ->. rewrite app_nil_r.
    exists p, a, b, sel, ra, rb, ns, os. repeat split; auto.
Qed.
End S.


(* ====================================================================== PC6 *)
Section EPSub.
Local Arguments is_kw : simpl never.
Local Arguments parse_u64 : simpl never.
Local Arguments parse_u16 : simpl never.
Local Arguments utf8_valid : simpl never.
Local Arguments pids_of : simpl never.
Local Arguments pid_seq_of : simpl never.
Local Arguments sid_ver_of : simpl never.
Local Arguments trim : simpl never.
Local Arguments stream_id_ok : simpl never.

(* what may come after the FROM clause of ESUB / EPSUB: nothing, or the WINDOW clause *)
Definition follow_w (tail : list token) : Prop := match tail with [] => True | w :: _ => is_kw "WINDOW" w = true end.
Lemma follow_w_doc wo ws : DocOpt DocWindow wo ws -> follow_w ws.
Proof. intros [|n l [w v n' K _ _]]; [exact I|exact K]. Qed.

Lemma opt_window_fwd wo ws : DocOpt DocWindow wo ws ->
  optional window ws = match wo with Some _ => COk wo [] | None => POk wo [] end.
Proof.
  intros [|n l D]; [reflexivity|]. unfold optional. rewrite <- (app_nil_r l), (window_doc_fwd _ _ [] D). reflexivity.
Qed.
Lemma opt_window_inv i wo r : (optional window i = COk wo r \/ optional window i = POk wo r) ->
  exists ws, i = ws ++ r /\ DocOpt DocWindow wo ws.
Proof.
  unfold optional. destruct (window i) as [n r'|n r'| |] eqn:E; intros [H|H]; try discriminate.
  - injection H as <- <-. apply window_doc_inv in E. destruct E as [l [-> D]]. exists l. split; auto. now constructor.
  - exfalso. eapply window_never_pok; eauto.
  - injection H as <- <-. exists []. split; auto. constructor.
Qed.

(* ------------------------------------------------------------------ EPSUB *)
Lemma selector_cons t r :
  epsub_selector (t :: r) =
  if is_kw "*" t then COk SelAll r else
  match parse_u16 t with
  | Some p => COk (SelPart p) r
  | None => match pids_of t with Some l => COk (SelParts l) r | None => PErr end
  end.
Proof.
  unfold epsub_selector, por, pmap, all_selector. rewrite keyword_cons. unfold partition_id, partition_ids, satisfy_map.
  destruct (is_kw "*" t); [reflexivity|]. destruct (parse_u16 t); [reflexivity|]. destruct (pids_of t); reflexivity.
Qed.
Lemma selector_fwd s t r : DocSelector s t -> epsub_selector (t :: r) = COk s r.
Proof.
  intros [t' K|t' p P|t' l L P K]; rewrite selector_cons; unfold Kw in *.
  - rewrite K. reflexivity.
  - rewrite (kw_not_u16 "*" t' p eq_refl P), P. reflexivity.
  - rewrite K, P, L. reflexivity.
Qed.
Lemma selector_inv i s r : epsub_selector i = COk s r -> exists t, i = t :: r /\ DocSelector s t.
Proof.
  destruct i as [|t i]; [discriminate|]. rewrite selector_cons.
  destruct (is_kw "*" t) eqn:K; [intros [= <- <-]; exists t; split; auto; now constructor|].
  destruct (parse_u16 t) eqn:P; [intros [= <- <-]; exists t; split; auto; now constructor|].
  destruct (pids_of t) eqn:L; [|discriminate]. intros [= <- <-]. exists t; split; auto. now constructor.
Qed.
Lemma selector_never_pok i s r : epsub_selector i <> POk s r.
Proof.
  destruct i as [|t i]; [discriminate|]. rewrite selector_cons. destruct (is_kw "*" t); [discriminate|].
  destruct (parse_u16 t); [discriminate|]. destruct (pids_of t); discriminate.
Qed.

Lemma pidseq_cons t r : partition_id_sequence (t :: r) = match pid_seq_of t with Some p => COk p r | None => PErr end.
Proof. reflexivity. Qed.
Lemma pidseq_consuming : consuming partition_id_sequence.
Proof. intros [|t r]; [exact I|]. rewrite pidseq_cons. destruct (pid_seq_of t); [cbn; lia|exact I]. Qed.
Lemma pidseq_inv i p r : partition_id_sequence i = COk p r -> exists pre, i = pre ++ r /\ DocPidSeq p pre.
Proof.
  destruct i as [|t i]; [discriminate|]. rewrite pidseq_cons. destruct (pid_seq_of t) eqn:E; [|discriminate].
  intros [= <- <-]. exists [t]. split; auto. now constructor.
Qed.
Lemma pidseq_fwd p pre tail : DocPidSeq p pre -> partition_id_sequence (pre ++ tail) = COk p tail.
Proof. intros [t p' E]. cbn [app]. rewrite pidseq_cons, E. reflexivity. Qed.
Lemma kw_not_pidseq k t r : no_eq k = true -> is_kw k t = true -> partition_id_sequence (t :: r) = PErr.
Proof.
  intros N K. rewrite pidseq_cons. unfold pid_seq_of. rewrite (is_kw_utf8 _ _ K), (kw_not_pair _ _ N K). reflexivity.
Qed.

Definition default_clause : parser N := pwith (keyword "DEFAULT") number_u64.
Lemma default_cons t r :
  default_clause (t :: r) = if is_kw "DEFAULT" t then
     match r with v :: r' => match parse_u64 v with Some n => COk n r' | None => CErr end | [] => CErr end else PErr.
Proof.
  unfold default_clause. rewrite kwith_cons. destruct (is_kw "DEFAULT" t); [|reflexivity].
  destruct r as [|v r']; [reflexivity|]. rewrite number_u64_cons. destruct (parse_u64 v); reflexivity.
Qed.

(* FROM MAP <p>=<s>... [DEFAULT <seq>] *)
Definition fs_map_body : parser (list (N * N) * option N) := pseq (many1 partition_id_sequence) (optional default_clause).
Lemma fs_map_fwd pairs ps d ds tail :
  pairs <> [] -> Forall2 DocPidSeq pairs ps -> DocOpt DocDefault d ds -> follow_w tail ->
  fs_map_body (concat ps ++ ds ++ tail) = COk (pairs, d) tail.
Proof.
  intros NE F D Fw. unfold fs_map_body, pseq.
  assert (St : partition_id_sequence (ds ++ tail) = PErr).
  { destruct D as [|n l [k v n' K P]]; cbn [app].
    - destruct tail as [|w tail]; [reflexivity|]. apply (kw_not_pidseq "WINDOW"); auto.
    - apply (kw_not_pidseq "DEFAULT"); auto. }
  rewrite (many1_fwd partition_id_sequence DocPidSeq (fun _ => True) pidseq_consuming
             (fun a pre t D' _ => pidseq_fwd a pre t D') (fun _ _ _ _ => I) pairs ps (ds ++ tail) NE F I St).
  unfold optional. destruct D as [|n l [k v n' K P]]; cbn [app].
  - destruct tail as [|w tail]; [reflexivity|]. fold default_clause. rewrite default_cons.
    cbn in Fw. rewrite (is_kw_other _ "DEFAULT" _ Fw) by discriminate. reflexivity.
  - fold default_clause. rewrite default_cons. unfold Kw in K. rewrite K, P. reflexivity.
Qed.
Lemma fs_map_inv i pairs d r : fs_map_body i = COk (pairs, d) r ->
  exists ps ds, i = concat ps ++ ds ++ r /\ pairs <> [] /\ Forall2 DocPidSeq pairs ps /\ DocOpt DocDefault d ds.
Proof.
  unfold fs_map_body, pseq. destruct (many1 partition_id_sequence i) as [l r1|l r1| |] eqn:M; try discriminate;
    [|exfalso; eapply many1_never_pok; eauto using pidseq_consuming].
  destruct (many1_inv _ DocPidSeq pidseq_consuming pidseq_inv _ _ _ (or_introl M)) as [ps [NE [F [-> _]]]].
  unfold optional. fold default_clause. destruct r1 as [|t r1].
  - cbn. intros [= <- <- <-]. exists ps, []. repeat split; auto. constructor.
  - rewrite default_cons. destruct (is_kw "DEFAULT" t) eqn:K.
    + destruct r1 as [|v r1]; [discriminate|]. destruct (parse_u64 v) eqn:P; [|discriminate].
      intros [= <- <- <-]. exists ps, [t; v]. repeat split; auto. constructor. constructor; auto.
    + intros [= <- <- <-]. exists ps, []. repeat split; auto. constructor.
Qed.

Definition fs_alt : parser fs_arg :=
  por (pmap (fun _ => FsLatest) (keyword "LATEST"))
  (por (pmap FsAll number_u64)
       (pmap (fun x => FsMap (fst x) (snd x)) (pwith (keyword "MAP") fs_map_body))).
Lemma from_sequences_eq : from_sequences = pwith (keyword "FROM") fs_alt.
Proof. reflexivity. Qed.
Lemma fs_alt_cons t r :
  fs_alt (t :: r) =
  if is_kw "LATEST" t then COk FsLatest r else
  match parse_u64 t with
  | Some n => COk (FsAll n) r
  | None => if is_kw "MAP" t then
              match fs_map_body r with COk x r' | POk x r' => COk (FsMap (fst x) (snd x)) r' | CErr | PErr => CErr end
            else PErr
  end.
Proof.
  unfold fs_alt, por, pmap. rewrite keyword_cons, number_u64_cons, kwith_cons.
  destruct (is_kw "LATEST" t); [reflexivity|]. destruct (parse_u64 t); [reflexivity|].
  destruct (is_kw "MAP" t); [|reflexivity]. destruct (fs_map_body r); reflexivity.
Qed.

Lemma from_seq_fwd fa fs tail : DocFromSequences fa fs -> follow_w tail -> from_sequences (fs ++ tail) = COk fa tail.
Proof.
  intros D Fw. rewrite from_sequences_eq. destruct D as [f l Kf Kl|f v n Kf P|f m pairs ps d ds Kf Km NE F Dd]; unfold Kw in *.
  - cbn [app]. rewrite kwith_cons, Kf, fs_alt_cons, Kl. reflexivity.
  - cbn [app]. rewrite kwith_cons, Kf, fs_alt_cons. rewrite (kw_not_u64 "LATEST" v n eq_refl P), P. reflexivity.
  - cbn [app]. rewrite kwith_cons, Kf, fs_alt_cons. rewrite (is_kw_other _ "LATEST" _ Km) by discriminate.
    rewrite (u64_not_kw "MAP" m eq_refl Km), Km. rewrite <- app_assoc. rewrite (fs_map_fwd pairs ps d ds tail NE F Dd Fw). reflexivity.
Qed.
Lemma from_seq_inv i fa r : from_sequences i = COk fa r -> exists fs, i = fs ++ r /\ DocFromSequences fa fs.
Proof.
  rewrite from_sequences_eq. destruct i as [|f i]; [discriminate|]. rewrite kwith_cons.
  destruct (is_kw "FROM" f) eqn:Kf; [|discriminate]. destruct i as [|t i]; [discriminate|]. rewrite fs_alt_cons.
  destruct (is_kw "LATEST" t) eqn:Kl; [cbn; intros [= <- <-]; exists (f :: t :: nil); split; auto; now constructor|].
  destruct (parse_u64 t) eqn:P; [cbn; intros [= <- <-]; exists (f :: t :: nil); split; auto; now constructor|].
  destruct (is_kw "MAP" t) eqn:Km; [|discriminate].
  destruct (fs_map_body i) as [[pairs d] r'|[pairs d] r'| |] eqn:B; try discriminate.
  - cbn. intros [= <- <-]. apply fs_map_inv in B. destruct B as [ps [ds [-> [NE [F D]]]]].
    exists (f :: t :: concat ps ++ ds). split; [cbn [app]; now rewrite <- app_assoc|]. cbn [fst snd]. apply DocFS_map; assumption.
  - exfalso. unfold fs_map_body, pseq in B.
    destruct (many1 partition_id_sequence i) eqn:M; try discriminate.
    + destruct (optional _ rest); discriminate.
    + eapply many1_never_pok; eauto using pidseq_consuming.
Qed.
Lemma from_seq_never_pok i fa r : from_sequences i <> POk fa r.
Proof.
  rewrite from_sequences_eq. destruct i as [|f i]; [discriminate|]. rewrite kwith_cons. destruct (is_kw "FROM" f); [|discriminate].
  destruct (fs_alt i); discriminate.
Qed.
Lemma from_seq_stop tail : follow_w tail -> from_sequences tail = PErr.
Proof.
  rewrite from_sequences_eq. destruct tail as [|w tail]; [reflexivity|]. cbn. intros K. rewrite kwith_cons.
  rewrite (is_kw_other _ "FROM" _ K) by discriminate. reflexivity.
Qed.

Lemma epsub_fwd a toks : DocEPSub a toks -> run epsub_raw toks = Some a.
Proof.
  destruct a as [sel fo wo]. intros [s [fs [ws [Ds [Df [Dw ->]]]]]]. cbn [ep_sel ep_from ep_window] in *.
  apply run_some. left. unfold epsub_raw, pmap, pseq. rewrite (selector_fwd _ _ _ Ds).
  pose proof (follow_w_doc _ _ Dw) as Fw. unfold optional at 1.
  destruct Df as [|fa l D].
  - cbn [app]. rewrite (from_seq_stop _ Fw). rewrite (opt_window_fwd _ _ Dw). destruct wo; reflexivity.
  - rewrite (from_seq_fwd _ _ _ D Fw). rewrite (opt_window_fwd _ _ Dw). destruct wo; reflexivity.
Qed.
Lemma epsub_raw_never_pok i a r : epsub_raw i <> POk a r.
Proof. unfold epsub_raw. apply pmap_never_pok. apply pseq_never_pok. apply selector_never_pok. Qed.
Lemma epsub_inv a toks : run epsub_raw toks = Some a -> DocEPSub a toks.
Proof.
  intros H. apply run_some in H. destruct H as [H|H]; [|exfalso; eapply epsub_raw_never_pok; eauto].
  unfold epsub_raw, pmap, pseq in H.
  destruct (epsub_selector toks) as [sel r0|sel r0| |] eqn:S0; try discriminate;
    [|exfalso; eapply selector_never_pok; eauto].
  apply selector_inv in S0. destruct S0 as [s [-> Ds]].
  unfold optional at 1 in H.
  destruct (from_sequences r0) as [fa r1|fa r1| |] eqn:Fq; try discriminate;
    [| exfalso; eapply from_seq_never_pok; eauto |].
  - apply from_seq_inv in Fq. destruct Fq as [fs [-> Df]].
    destruct (optional window r1) as [wo r2|wo r2| |] eqn:W; try discriminate.
    + injection H as <- ->.
      destruct (opt_window_inv _ _ _ (or_introl W)) as [ws [-> Dw]]. rewrite app_nil_r.
      exists s, fs, ws. cbn. repeat split; auto. now constructor.
    + injection H as <- ->.
      destruct (opt_window_inv _ _ _ (or_intror W)) as [ws [-> Dw]]. rewrite app_nil_r.
      exists s, fs, ws. cbn. repeat split; auto. now constructor.
  - destruct (optional window r0) as [wo r2|wo r2| |] eqn:W; try discriminate.
    + injection H as <- ->.
      destruct (opt_window_inv _ _ _ (or_introl W)) as [ws [-> Dw]]. rewrite app_nil_r.
      exists s, [], ws. cbn. repeat split; auto. constructor.
    + injection H as <- ->.
      destruct (opt_window_inv _ _ _ (or_intror W)) as [ws [-> Dw]]. rewrite app_nil_r.
      exists s, [], ws. cbn. repeat split; auto. constructor.
Qed.
End EPSub.


(* ====================================================================== PC7 *)

Section S.
Local Arguments is_kw : simpl never.
Local Arguments parse_u64 : simpl never.
Local Arguments parse_u16 : simpl never.
Local Arguments utf8_valid : simpl never.
Local Arguments sid_ver_of : simpl never.
Local Arguments trim : simpl never.
Local Arguments stream_id_ok : simpl never.
Variable uo : string -> option uuid.

(* ------------------------------------------------------------------ ESUB: the stream list *)
Lemma esub_reserved_cons s r : esub_reserved (s :: r) = if esub_word s then COk s r else PErr.
Proof.
  unfold esub_reserved, esub_word, por. rewrite !keyword_cons.
  destruct (is_kw "PARTITION_KEY" s); [reflexivity|]. destruct (is_kw "FROM" s); [reflexivity|].
  destruct (is_kw "WINDOW" s); reflexivity.
Qed.
Definition esub_sid : parser string := pwith (not_followed_by esub_reserved) stream_id.
Lemma esub_sid_cons s r :
  esub_sid (s :: r) = if esub_word s then PErr else if utf8_valid s then if stream_id_ok s then COk s r else CErr else PErr.
Proof.
  unfold esub_sid, pwith, pmap, pseq, not_followed_by. rewrite esub_reserved_cons. destruct (esub_word s); [reflexivity|].
  rewrite stream_id_cons. destruct (utf8_valid s); [|reflexivity]. destruct (stream_id_ok s); reflexivity.
Qed.
Lemma esub_item_eq : esub_item uo = pseq esub_sid (optional (pk_clause uo)).
Proof. reflexivity. Qed.

(* what may come after a stream of the list: not the start of its own PARTITION_KEY clause *)
Definition follow_s (tail : list token) : Prop := match tail with [] => True | k :: _ => is_kw "PARTITION_KEY" k = false end.

Lemma esub_item_fwd x pre tail : DocStream uo x pre -> follow_s tail -> esub_item uo (pre ++ tail) = COk x tail.
Proof.
  rewrite esub_item_eq. intros [s [V O] W|s l u [V O] W D] Fs; unfold pseq; cbn [app]; rewrite esub_sid_cons, W, V, O.
  - unfold optional. destruct tail as [|k tail]; [reflexivity|]. cbn in Fs. rewrite pk_clause_cons, Fs. reflexivity.
  - unfold optional. rewrite (pk_doc_fwd uo u l tail D). reflexivity.
Qed.
Lemma esub_item_inv i x r : esub_item uo i = COk x r -> exists pre, i = pre ++ r /\ DocStream uo x pre.
Proof.
  rewrite esub_item_eq. unfold pseq. destruct i as [|s i]; [discriminate|]. rewrite esub_sid_cons.
  destruct (esub_word s) eqn:W; [discriminate|]. destruct (utf8_valid s) eqn:V; [|discriminate].
  destruct (stream_id_ok s) eqn:O; [|discriminate]. unfold optional.
  destruct (pk_clause uo i) as [u r'|u r'| |] eqn:E; try discriminate.
  - intros [= <- <-]. apply pk_doc_inv in E. destruct E as [l [-> D]]. exists (s :: l). split; [reflexivity|].
    apply DocStream_pk; auto. split; auto.
  - exfalso. eapply pk_never_pok; eauto.
  - intros [= <- <-]. exists [s]. split; [reflexivity|]. apply DocStream_plain; auto. split; auto.
Qed.
Lemma esub_item_consuming : consuming (esub_item uo).
Proof.
  intros i. rewrite esub_item_eq. unfold pseq. destruct i as [|s i]; [exact I|]. rewrite esub_sid_cons.
  destruct (esub_word s); [exact I|]. destruct (utf8_valid s); [|exact I]. destruct (stream_id_ok s); [|exact I].
  unfold optional. destruct (pk_clause uo i) as [u r'|u r'| |] eqn:E; try exact I.
  - apply pk_doc_inv in E. destruct E as [l [-> D]]. cbn [length]. rewrite app_length. lia.
  - exfalso. eapply pk_never_pok; eauto.
  - cbn. lia.
Qed.
Lemma esub_item_next x pre tail : DocStream uo x pre -> follow_s (pre ++ tail).
Proof.
  intros [s _ W|s l u _ W _]; cbn; unfold esub_word in W; rewrite !orb_false_iff in W; tauto.
Qed.
(* a clause keyword ends the list *)
Lemma esub_item_stop k r : esub_word k = true -> esub_item uo (k :: r) = PErr.
Proof. intros W. rewrite esub_item_eq. unfold pseq. rewrite esub_sid_cons, W. reflexivity. Qed.

(* ------------------------------------------------------------------ FROM LATEST | FROM <version> | FROM MAP <stream>=<ver>... *)
Definition pair_p : parser (string * N) := attempt stream_id_version.
Lemma pair_cons t r : pair_p (t :: r) = if utf8_valid t then match sid_ver_of t with Some p => COk p r | None => PErr end else PErr.
Proof.
  unfold pair_p, attempt, stream_id_version, and_then. rewrite string_p_cons. destruct (utf8_valid t); [|reflexivity].
  destruct (sid_ver_of t); reflexivity.
Qed.
Lemma pair_consuming : consuming pair_p.
Proof.
  intros [|t r]; [exact I|]. rewrite pair_cons. destruct (utf8_valid t); [|exact I]. destruct (sid_ver_of t); [cbn; lia|exact I].
Qed.
Lemma pair_fwd p pre tail : DocPair p pre -> pair_p (pre ++ tail) = COk p tail.
Proof. intros [t p' V E]. cbn [app]. rewrite pair_cons, V, E. reflexivity. Qed.
Lemma pair_inv i p r : pair_p i = COk p r -> exists pre, i = pre ++ r /\ DocPair p pre.
Proof.
  destruct i as [|t i]; [discriminate|]. rewrite pair_cons. destruct (utf8_valid t) eqn:V; [|discriminate].
  destruct (sid_ver_of t) eqn:E; [|discriminate]. intros [= <- <-]. exists [t]. split; auto. now constructor.
Qed.
Lemma pair_stop tail : follow_w tail -> pair_p tail = PErr.
Proof.
  destruct tail as [|w tail]; [reflexivity|]. cbn. intros K. rewrite pair_cons, (is_kw_utf8 _ _ K).
  unfold sid_ver_of. rewrite (kw_not_pair "WINDOW" w eq_refl K). reflexivity.
Qed.

Definition fv_alt : parser fv_arg :=
  por (pmap (fun _ => FvLatest) (keyword "LATEST"))
  (por (pmap FvAll number_u64)
       (pmap FvMap (pwith (keyword "MAP") (many1 pair_p)))).
Lemma from_versions_eq : from_versions = pwith (keyword "FROM") fv_alt.
Proof. reflexivity. Qed.
Lemma fv_alt_cons t r :
  fv_alt (t :: r) =
  if is_kw "LATEST" t then COk FvLatest r else
  match parse_u64 t with
  | Some n => COk (FvAll n) r
  | None => if is_kw "MAP" t then
              match many1 pair_p r with COk x r' | POk x r' => COk (FvMap x) r' | CErr | PErr => CErr end
            else PErr
  end.
Proof.
  unfold fv_alt, por, pmap. rewrite keyword_cons, number_u64_cons, kwith_cons.
  destruct (is_kw "LATEST" t); [reflexivity|]. destruct (parse_u64 t); [reflexivity|].
  destruct (is_kw "MAP" t); [|reflexivity]. destruct (many1 pair_p r); reflexivity.
Qed.
Lemma from_ver_fwd fa fs tail : DocFromVersions fa fs -> follow_w tail -> from_versions (fs ++ tail) = COk fa tail.
Proof.
  intros D Fw. rewrite from_versions_eq. destruct D as [f l Kf Kl|f v n Kf P|f m pairs ps Kf Km NE F]; unfold Kw in *.
  - cbn [app]. rewrite kwith_cons, Kf, fv_alt_cons, Kl. reflexivity.
  - cbn [app]. rewrite kwith_cons, Kf, fv_alt_cons. rewrite (kw_not_u64 "LATEST" v n eq_refl P), P. reflexivity.
  - cbn [app]. rewrite kwith_cons, Kf, fv_alt_cons. rewrite (is_kw_other _ "LATEST" _ Km) by discriminate.
    rewrite (u64_not_kw "MAP" m eq_refl Km), Km.
    rewrite (many1_fwd pair_p DocPair (fun _ => True) pair_consuming
               (fun a pre t D' _ => pair_fwd a pre t D') (fun _ _ _ _ => I) pairs ps tail NE F I (pair_stop _ Fw)).
    reflexivity.
Qed.
Lemma from_ver_inv i fa r : from_versions i = COk fa r -> exists fs, i = fs ++ r /\ DocFromVersions fa fs.
Proof.
  rewrite from_versions_eq. destruct i as [|f i]; [discriminate|]. rewrite kwith_cons.
  destruct (is_kw "FROM" f) eqn:Kf; [|discriminate]. destruct i as [|t i]; [discriminate|]. rewrite fv_alt_cons.
  destruct (is_kw "LATEST" t) eqn:Kl; [cbn; intros [= <- <-]; exists (f :: t :: nil); split; auto; apply DocFV_latest; assumption|].
  destruct (parse_u64 t) eqn:P; [cbn; intros [= <- <-]; exists (f :: t :: nil); split; auto; apply DocFV_all; assumption|].
  destruct (is_kw "MAP" t) eqn:Km; [|discriminate].
  destruct (many1 pair_p i) as [pairs r'|pairs r'| |] eqn:M; try discriminate.
  - cbn. intros [= <- <-].
    destruct (many1_inv _ DocPair pair_consuming pair_inv _ _ _ (or_introl M)) as [ps [NE [F [-> _]]]].
    exists (f :: t :: concat ps). split; [reflexivity|]. apply DocFV_map; assumption.
  - exfalso. eapply many1_never_pok; eauto using pair_consuming.
Qed.
Lemma from_ver_never_pok i fa r : from_versions i <> POk fa r.
Proof.
  rewrite from_versions_eq. destruct i as [|f i]; [discriminate|]. rewrite kwith_cons. destruct (is_kw "FROM" f); [|discriminate].
  destruct (fv_alt i); discriminate.
Qed.
Lemma from_ver_stop tail : follow_w tail -> from_versions tail = PErr.
Proof.
  rewrite from_versions_eq. destruct tail as [|w tail]; [reflexivity|]. cbn. intros K. rewrite kwith_cons.
  rewrite (is_kw_other _ "FROM" _ K) by discriminate. reflexivity.
Qed.

(* ------------------------------------------------------------------ ESUB *)
Lemma esub_raw_never_pok i a r : esub_raw uo i <> POk a r.
Proof.
  unfold esub_raw. apply pmap_never_pok. apply pseq_never_pok. intros j l r'. apply many1_never_pok. apply esub_item_consuming.
Qed.
(* the clauses after the stream list begin with FROM or WINDOW, or there is nothing *)
Lemma clauses_head fo fs wo ws : DocOpt DocFromVersions fo fs -> DocOpt DocWindow wo ws ->
  match fs ++ ws with [] => True | k :: _ => is_kw "FROM" k = true \/ is_kw "WINDOW" k = true end.
Proof.
  intros [|fa l D] Dw.
  - cbn [app]. destruct Dw as [|n l [w v n' K _ _]]; [exact I|]. right. exact K.
  - destruct D; cbn [app]; left; assumption.
Qed.

Lemma esub_fwd a toks : DocESub uo a toks -> run (esub_raw uo) toks = Some a.
Proof.
  destruct a as [streams fo wo]. intros [ss [fs [ws [NE [F [Df [Dw ->]]]]]]]. cbn [es_streams es_from es_window] in *.
  apply run_some. left. unfold esub_raw, pmap, pseq.
  pose proof (clauses_head _ _ _ _ Df Dw) as Hd.
  assert (St : esub_item uo (fs ++ ws) = PErr /\ follow_s (fs ++ ws)).
  { destruct (fs ++ ws) as [|k rest]; [split; [reflexivity|exact I]|]. split.
    - apply esub_item_stop. unfold esub_word. destruct Hd as [K|K]; rewrite K; rewrite ?orb_true_r; reflexivity.
    - cbn. destruct Hd as [K|K]; apply (is_kw_other _ _ _ K); discriminate. }
  destruct St as [St Fs].
  rewrite (many1_fwd (esub_item uo) (DocStream uo) follow_s esub_item_consuming
             (fun x pre t D Ft => esub_item_fwd x pre t D Ft) (fun x pre t D => esub_item_next x pre t D)
             streams ss (fs ++ ws) NE F Fs St).
  pose proof (follow_w_doc _ _ Dw) as Fw. unfold optional at 1.
  destruct Df as [|fa l D].
  - cbn [app]. rewrite (from_ver_stop _ Fw). rewrite (opt_window_fwd _ _ Dw). destruct wo; reflexivity.
  - rewrite (from_ver_fwd _ _ _ D Fw). rewrite (opt_window_fwd _ _ Dw). destruct wo; reflexivity.
Qed.
Lemma esub_inv a toks : run (esub_raw uo) toks = Some a -> DocESub uo a toks.
Proof.
  intros H. apply run_some in H. destruct H as [H|H]; [|exfalso; eapply esub_raw_never_pok; eauto].
  unfold esub_raw, pmap, pseq in H.
  destruct (many1 (esub_item uo) toks) as [streams r0|streams r0| |] eqn:M; try discriminate;
    [|exfalso; eapply many1_never_pok; eauto using esub_item_consuming].
  destruct (many1_inv _ (DocStream uo) esub_item_consuming esub_item_inv _ _ _ (or_introl M)) as [ss [NE [F [-> _]]]].
  unfold optional at 1 in H.
  destruct (from_versions r0) as [fa r1|fa r1| |] eqn:Fq; try discriminate;
    [| exfalso; eapply from_ver_never_pok; eauto |].
  - apply from_ver_inv in Fq. destruct Fq as [fs [-> Df]].
    destruct (optional window r1) as [wo r2|wo r2| |] eqn:W; try discriminate.
    + injection H as <- ->.
      destruct (opt_window_inv _ _ _ (or_introl W)) as [ws [-> Dw]]. rewrite app_nil_r.
      exists ss, fs, ws. cbn. repeat split; auto. now constructor.
    + injection H as <- ->.
      destruct (opt_window_inv _ _ _ (or_intror W)) as [ws [-> Dw]]. rewrite app_nil_r.
      exists ss, fs, ws. cbn. repeat split; auto. now constructor.
  - destruct (optional window r0) as [wo r2|wo r2| |] eqn:W; try discriminate.
    + injection H as <- ->.
      destruct (opt_window_inv _ _ _ (or_introl W)) as [ws [-> Dw]]. rewrite app_nil_r.
      exists ss, [], ws. cbn. repeat split; auto. constructor.
    + injection H as <- ->.
      destruct (opt_window_inv _ _ _ (or_intror W)) as [ws [-> Dw]]. rewrite app_nil_r.
      exists ss, [], ws. cbn. repeat split; auto. constructor.
Qed.
End S.


(* ====================================================================== PM *)
Section S.
Variable uo : string -> option uuid.

Theorem doc_roundtrip c r toks : Doc uo c r toks -> parse_command uo c toks = Some r.
Proof.
  intros [a t D|a t D|e t D|pk evs t D|x t D|x t D|t u D|s pk l S D|t p D|t v u n D P]; unfold parse_command.
  - rewrite (esub_fwd uo a t D). reflexivity.
  - rewrite (epsub_fwd a t D). reflexivity.
  - rewrite (eappend_fwd uo e t D). reflexivity.
  - rewrite (emappend_fwd uo (pk, evs) t D). reflexivity.
  - rewrite (escan_fwd uo x t D). reflexivity.
  - rewrite (epscan_fwd uo x t D). reflexivity.
  - rewrite (eget_fwd uo t u D). reflexivity.
  - rewrite (esver_fwd uo s pk l S D). reflexivity.
  - rewrite (epseq_fwd uo t p D). reflexivity.
  - rewrite (eack_fwd uo t v u n D P). reflexivity.
Qed.

Theorem doc_sound c r toks : parse_command uo c toks = Some r -> Doc uo c r toks.
Proof.
  unfold parse_command. destruct c.
  - destruct (run (esub_raw uo) toks) eqn:E; [|discriminate]. intros [= <-]. constructor. apply esub_inv; auto.
  - destruct (run epsub_raw toks) eqn:E; [|discriminate]. intros [= <-]. constructor. apply epsub_inv; auto.
  - destruct (run (eappend_p uo) toks) eqn:E; [|discriminate]. intros [= <-]. constructor. apply eappend_inv; auto.
  - destruct (run (emappend_p uo) toks) as [[pk evs]|] eqn:E; [|discriminate]. intros [= <-]. constructor. apply emappend_inv; auto.
  - destruct (run (escan_p uo) toks) eqn:E; [|discriminate]. intros [= <-]. constructor. apply escan_inv; auto.
  - destruct (run (epscan_p uo) toks) eqn:E; [|discriminate]. intros [= <-]. constructor. apply epscan_inv; auto.
  - destruct (run (eget_p uo) toks) eqn:E; [|discriminate]. intros [= <-].
    destruct (eget_inv uo _ _ E) as [t [-> D]]. constructor; auto.
  - destruct (run (esver_p uo) toks) as [[s pk]|] eqn:E; [|discriminate]. intros [= <-].
    destruct (esver_inv uo _ _ _ E) as [l [-> [S D]]]. constructor; auto.
  - destruct (run (epseq_p uo) toks) eqn:E; [|discriminate]. intros [= <-].
    destruct (epseq_inv uo _ _ E) as [t [-> D]]. constructor; auto.
  - destruct (run (eack_p uo) toks) as [[u n]|] eqn:E; [|discriminate]. intros [= <-].
    destruct (eack_inv uo _ _ _ E) as [t [v [-> [D P]]]]. constructor; auto.
Qed.

Theorem doc_unambiguous c r1 r2 toks : Doc uo c r1 toks -> Doc uo c r2 toks -> r1 = r2.
Proof. intros H1 H2. apply doc_roundtrip in H1. apply doc_roundtrip in H2. congruence. Qed.

(* ------------------------------------------------------------------ keywords are never stream ids *)
Lemma dedup_from_in {A} (eqb : A -> A -> bool) l : forall seen x, In x (dedup_from eqb seen l) -> In x l.
Proof.
  induction l as [|a l IH]; intros seen x H; [exact H|]. cbn [dedup_from] in H.
  destruct (existsb (eqb a) seen).
  - right. eapply IH; eauto.
  - destruct H as [<-|H]; [left; reflexivity|right; eapply IH; eauto].
Qed.
Definition esub_req_streams (r : esub_req) : list string :=
  match r with EsStream sid _ _ _ => [sid] | EsStreams ids _ _ => map fst ids end.
Lemma esub_resolve_streams a x : In x (esub_req_streams (esub_resolve a)) -> In x (map fst (es_streams a)).
Proof.
  unfold esub_resolve.
  assert (Hin : forall y, In y (dedup pair_eqb (es_streams a)) -> In y (es_streams a)) by (intros y; apply dedup_from_in).
  destruct (dedup pair_eqb (es_streams a)) as [|[sid pk] [|b l]] eqn:E; cbn [esub_req_streams].
  - intros [].
  - intros [<-|[]]. apply (in_map fst _ (sid, pk)). apply Hin. left. reflexivity.
  - intros H. apply in_map_iff in H. destruct H as [y [<- H]]. apply in_map. apply Hin. exact H.
Qed.
Lemma doc_streams_not_words ss l : Forall2 (DocStream uo) l ss -> Forall (fun x => esub_word (fst x) = false) l.
Proof. induction 1 as [|x pre l ss D F IH]; constructor; auto. destruct D; assumption. Qed.
Theorem esub_no_keyword_stream toks r :
  parse_command uo CESub toks = Some (RESub r) -> Forall (fun s => esub_word s = false) (esub_req_streams r).
Proof.
  intros H. apply doc_sound in H. inversion H as [a t D| | | | | | | | |]; subst.
  destruct D as [ss [fs [ws [_ [F _]]]]]. apply doc_streams_not_words in F.
  apply Forall_forall. intros s Hs. apply esub_resolve_streams in Hs. apply in_map_iff in Hs. destruct Hs as [y [<- Hy]].
  rewrite Forall_forall in F. apply F. exact Hy.
Qed.

Lemma add_opt_stream e o e' : add_opt e o = Some e' -> ae_stream e' = ae_stream e.
Proof.
  destruct o; cbn [add_opt];
    [destruct (ae_event_id e)|destruct (ae_partition_key e)|destruct (ae_expected e)|destruct (ae_timestamp e)
    |destruct (ae_payload e)|destruct (ae_metadata e)]; try discriminate; intros [= <-]; reflexivity.
Qed.
Lemma add_opts_stream l : forall e e', add_opts e l = Some e' -> ae_stream e' = ae_stream e.
Proof.
  induction l as [|o l IH]; intros e e' H; cbn [add_opts] in H; [injection H as <-; reflexivity|].
  destruct (add_opt e o) eqn:E; [|discriminate]. rewrite (IH _ _ H). eapply add_opt_stream; eauto.
Qed.
Theorem emappend_no_keyword_stream toks pk evs :
  parse_command uo CEMAppend toks = Some (REMAppend pk evs) -> Forall (fun e => emappend_word (ae_stream e) = false) evs.
Proof.
  intros H. apply doc_sound in H. inversion H as [| | |pk' evs' t D| | | | | |]; subst.
  destruct D as [k [es [_ [_ [F _]]]]]. cbn [snd] in F. clear H.
  induction F as [|e pre l es' D F IH]; constructor; auto.
  destruct D as [s [n [opts [os [_ [W [_ [_ [_ [B _]]]]]]]]]]. apply add_opts_stream in B. cbn in B. rewrite B. exact W.
Qed.
End S.


(* ====================================================================== PD1 *)
(* ------------------------------------------------------------------ decimal printing is read back *)
Fixpoint all_digits (s : string) : bool :=
  match s with EmptyString => true | String c r => is_digit c && all_digits r end.

Lemma digit_char n : n < 10 -> is_digit (ascii_of_N (48 + n)) = true /\ nb (ascii_of_N (48 + n)) - 48 = n.
Proof.
  intros H. unfold is_digit, nb. rewrite N_ascii_embedding by lia. split; [apply inr_true; lia|lia].
Qed.
Lemma dec_digits_all f : forall n acc, all_digits acc = true -> all_digits (dec_digits f n acc) = true.
Proof.
  induction f as [|f IH]; intros n acc H; [exact H|]. cbn [dec_digits]. cbv zeta.
  assert (D : all_digits (String (ascii_of_N (48 + n mod 10)) acc) = true).
  { cbn [all_digits]. rewrite H, andb_true_r. apply digit_char. apply N.mod_lt. lia. }
  destruct (n <? 10); auto.
Qed.
Lemma dec_digits_nonempty f : forall n acc, acc <> EmptyString -> dec_digits f n acc <> EmptyString.
Proof.
  induction f as [|f IH]; intros n acc H; [exact H|]. cbn [dec_digits]. cbv zeta.
  destruct (n <? 10); [discriminate|]. apply IH. discriminate.
Qed.
Lemma dec_digits_val f : forall n acc a, (N.to_nat (N.log2 n) < f)%nat ->
  exists k, digits_val (dec_digits f n acc) a = digits_val acc (a * 10 ^ k + n).
Proof.
  induction f as [|f IH]; intros n acc a L; [lia|]. cbn [dec_digits]. cbv zeta.
  destruct (digit_char (n mod 10) ltac:(apply N.mod_lt; lia)) as [D1 D2].
  destruct (n <? 10) eqn:E.
  - apply N.ltb_lt in E. exists 1. cbn [digits_val]. rewrite D1, D2. rewrite N.mod_small by lia. f_equal; lia.
  - apply N.ltb_ge in E.
    assert (L' : (N.to_nat (N.log2 (n / 10)) < f)%nat).
    { assert (N.log2 (n / 10) < N.log2 n); [|lia].
      pose proof (N.div_mod n 10 ltac:(lia)) as DM. pose proof (N.mod_lt n 10 ltac:(lia)) as ML.
      assert (Q : 0 < n / 10) by lia.
      pose proof (N.log2_double (n / 10) Q) as LD.
      pose proof (N.log2_le_mono (2 * (n / 10)) n ltac:(lia)). lia. }
    destruct (IH (n / 10) (String (ascii_of_N (48 + n mod 10)) acc) a L') as [k Hk].
    exists (k + 1). rewrite Hk. cbn [digits_val]. rewrite D1, D2. f_equal.
    rewrite N.pow_add_r. pose proof (N.div_mod n 10 ltac:(lia)). lia.
Qed.
Lemma parse_dec_dec n : parse_dec (dec n) = Some n.
Proof.
  unfold dec. set (f := S (N.to_nat (N.log2 n))).
  pose proof (dec_digits_all f n EmptyString eq_refl) as A.
  assert (NE : dec_digits f n EmptyString <> EmptyString).
  { unfold f. cbn [dec_digits]. cbv zeta. destruct (n <? 10); [discriminate|]. apply dec_digits_nonempty. discriminate. }
  destruct (dec_digits_val f n EmptyString 0 ltac:(unfold f; lia)) as [k Hk]. cbn [digits_val] in Hk.
  unfold parse_dec. destruct (dec_digits f n EmptyString) as [|c r] eqn:E; [congruence|].
  cbn [all_digits] in A. apply andb_true_iff in A. destruct A as [A _]. unfold is_digit in A. apply inr_true in A.
  replace (nb c =? 43) with false by (symmetry; apply N.eqb_neq; lia). rewrite Hk. f_equal; lia.
Qed.
Lemma parse_u64_dec n : n < 18446744073709551616 -> parse_u64 (dec n) = Some n.
Proof. intros H. unfold parse_u64, parse_bounded. rewrite parse_dec_dec. apply N.ltb_lt in H. rewrite H. reflexivity. Qed.
Lemma parse_u16_dec n : n < 65536 -> parse_u16 (dec n) = Some n.
Proof. intros H. unfold parse_u16, parse_bounded. rewrite parse_dec_dec. apply N.ltb_lt in H. rewrite H. reflexivity. Qed.


(* ====================================================================== PD2 *)
(* ------------------------------------------------------------------ plain ASCII text *)
Fixpoint plain (s : string) : bool := match s with EmptyString => true | String c r => (nb c <? 128) && plain r end.
Lemma plain_utf8 s : plain s = true -> utf8_valid s = true.
Proof. induction s as [|c r IH]; [reflexivity|]. cbn [plain utf8_valid]. cbv zeta. intros H. apply andb_true_iff in H. destruct H as [-> H]. auto. Qed.
Lemma plain_app a b : plain (a ++ b)%string = plain a && plain b.
Proof. induction a; cbn; [reflexivity|]. rewrite IHa. now rewrite andb_assoc. Qed.
Lemma digits_plain s : all_digits s = true -> plain s = true.
Proof.
  induction s as [|c r IH]; [reflexivity|]. cbn [all_digits plain]. intros H. apply andb_true_iff in H. destruct H as [D H].
  unfold is_digit in D. apply inr_true in D. rewrite (IH H), andb_true_r. apply N.ltb_lt. lia.
Qed.
Lemma dec_all_digits n : all_digits (dec n) = true.
Proof. unfold dec. apply dec_digits_all. reflexivity. Qed.
Lemma dec_nonempty n : dec n <> EmptyString.
Proof. unfold dec. cbn [dec_digits]. cbv zeta. destruct (n <? 10); [discriminate|]. apply dec_digits_nonempty. discriminate. Qed.
Lemma dec_utf8 n : utf8_valid (dec n) = true.
Proof. apply plain_utf8, digits_plain, dec_all_digits. Qed.

Lemma split_once_digits a b : all_digits a = true -> split_once "=" (a ++ String "=" b)%string = Some (a, b).
Proof.
  induction a as [|c r IH]; [reflexivity|]. cbn [all_digits]. intros H. apply andb_true_iff in H. destruct H as [D H].
  cbn [append split_once]. replace (Ascii.eqb c "=") with false.
  - rewrite (IH H). reflexivity.
  - symmetry. destruct (Ascii.eqb c "=") eqn:E; auto. apply eqb_eq_nb in E. unfold is_digit in D. apply inr_true in D. lia.
Qed.
Lemma pid_seq_dec p s : p < 65536 -> s < 18446744073709551616 -> pid_seq_of (dec p ++ String "=" (dec s))%string = Some (p, s).
Proof.
  intros Hp Hs. unfold pid_seq_of.
  rewrite plain_utf8 by (rewrite plain_app; cbn [plain]; rewrite !digits_plain by apply dec_all_digits; reflexivity).
  rewrite split_once_digits by apply dec_all_digits. rewrite parse_u16_dec, parse_u64_dec by assumption. reflexivity.
Qed.

(* ------------------------------------------------------------------ trim leaves a number alone *)
Lemma append_assoc a b c : ((a ++ b) ++ c)%string = (a ++ (b ++ c))%string.
Proof. induction a; cbn; congruence. Qed.
Lemma srev_app_spec s : forall acc, srev_app s acc = (srev s ++ acc)%string.
Proof.
  unfold srev. induction s as [|c r IH]; intros acc; [reflexivity|]. cbn [srev_app].
  rewrite (IH (String c acc)), (IH (String c EmptyString)), append_assoc. reflexivity.
Qed.
Lemma append_nil_r s : (s ++ EmptyString)%string = s.
Proof. induction s; cbn; congruence. Qed.
Lemma srev_cons c r : srev (String c r) = (srev r ++ String c EmptyString)%string.
Proof. unfold srev at 1. cbn [srev_app]. apply srev_app_spec. Qed.
Lemma srev_append a b : srev (a ++ b)%string = (srev b ++ srev a)%string.
Proof.
  induction a as [|c r IH]; cbn [append]; [now rewrite append_nil_r|]. rewrite !srev_cons, IH, append_assoc. reflexivity.
Qed.
Lemma srev_involutive s : srev (srev s) = s.
Proof. induction s as [|c r IH]; [reflexivity|]. rewrite srev_cons, srev_append, IH. reflexivity. Qed.
Lemma all_digits_app a b : all_digits (a ++ b)%string = all_digits a && all_digits b.
Proof. induction a; cbn; [reflexivity|]. rewrite IHa. now rewrite andb_assoc. Qed.
Lemma all_digits_srev s : all_digits (srev s) = all_digits s.
Proof.
  induction s as [|c r IH]; [reflexivity|]. rewrite srev_cons, all_digits_app, IH. cbn [all_digits]. rewrite andb_true_r. apply andb_comm.
Qed.
Lemma srev_nonempty s : s <> EmptyString -> srev s <> EmptyString.
Proof. destruct s as [|c r]; [congruence|]. intros _. rewrite srev_cons. destruct (srev r); discriminate. Qed.

Lemma trim_start_digit c r : is_digit c = true -> trim_start (String c r) = String c r.
Proof.
  unfold is_digit. intros D. apply inr_true in D. cbn [trim_start]. cbv zeta.
  replace (ascii_ws (nb c)) with false
    by (symmetry; unfold ascii_ws; apply orb_false_iff; split; [apply inr_false; lia|apply N.eqb_neq; lia]).
  destruct r as [|c1 r1]; [reflexivity|].
  replace (ws2 (nb c) (nb c1)) with false by (symmetry; unfold ws2; replace (nb c =? 194) with false by (symmetry; apply N.eqb_neq; lia); reflexivity).
  destruct r1 as [|c2 r2]; [reflexivity|].
  replace (ws3 (nb c) (nb c1) (nb c2)) with false; [reflexivity|].
  symmetry. unfold ws3.
  replace (nb c =? 225) with false by (symmetry; apply N.eqb_neq; lia).
  replace (nb c =? 226) with false by (symmetry; apply N.eqb_neq; lia).
  replace (nb c =? 227) with false by (symmetry; apply N.eqb_neq; lia). reflexivity.
Qed.
Lemma trim_start_rev_digit c r : is_digit c = true -> trim_start_rev (String c r) = String c r.
Proof.
  unfold is_digit. intros D. apply inr_true in D. cbn [trim_start_rev]. cbv zeta.
  replace (ascii_ws (nb c)) with false
    by (symmetry; unfold ascii_ws; apply orb_false_iff; split; [apply inr_false; lia|apply N.eqb_neq; lia]).
  destruct r as [|c1 r1]; [reflexivity|].
  replace (ws2 (nb c1) (nb c)) with false.
  2:{ symmetry. unfold ws2. replace (nb c =? 133) with false by (symmetry; apply N.eqb_neq; lia).
      replace (nb c =? 160) with false by (symmetry; apply N.eqb_neq; lia). apply andb_false_r. }
  destruct r1 as [|c2 r2]; [reflexivity|].
  replace (ws3 (nb c2) (nb c1) (nb c)) with false; [reflexivity|].
  symmetry. unfold ws3.
  replace (nb c =? 128) with false by (symmetry; apply N.eqb_neq; lia).
  replace (nb c =? 168) with false by (symmetry; apply N.eqb_neq; lia).
  replace (nb c =? 169) with false by (symmetry; apply N.eqb_neq; lia).
  replace (nb c =? 175) with false by (symmetry; apply N.eqb_neq; lia).
  replace (nb c =? 159) with false by (symmetry; apply N.eqb_neq; lia).
  replace (inr 128 138 (nb c)) with false by (symmetry; apply inr_false; lia).
  rewrite !andb_false_r. reflexivity.
Qed.
Lemma trim_digits s : all_digits s = true -> s <> EmptyString -> trim s = s.
Proof.
  intros A NE. unfold trim. destruct s as [|c r]; [congruence|].
  cbn [all_digits] in A. apply andb_true_iff in A. destruct A as [D A].
  rewrite (trim_start_digit c r D).
  assert (AS : all_digits (srev (String c r)) = true) by (rewrite all_digits_srev; cbn [all_digits]; rewrite D, A; reflexivity).
  pose proof (srev_nonempty (String c r) ltac:(discriminate)) as NS.
  destruct (srev (String c r)) as [|c' r'] eqn:E; [congruence|].
  cbn [all_digits] in AS. apply andb_true_iff in AS. destruct AS as [D' _].
  rewrite (trim_start_rev_digit c' r' D'). rewrite <- E. apply srev_involutive.
Qed.
Lemma trim_dec n : trim (dec n) = dec n.
Proof. apply trim_digits; [apply dec_all_digits|apply dec_nonempty]. Qed.


(* ====================================================================== PD3 *)
(* ------------------------------------------------------------------ "p1,p2,p3" *)
Lemma split_on_nonempty sep s : split_on sep s <> [].
Proof. induction s as [|c r IH]; cbn [split_on]; [discriminate|]. destruct (Ascii.eqb c sep); [discriminate|]. destruct (split_on sep r); discriminate. Qed.
Lemma digit_not_comma c : is_digit c = true -> Ascii.eqb c "," = false.
Proof.
  unfold is_digit. intros D. apply inr_true in D. destruct (Ascii.eqb c ",") eqn:E; auto. apply Ascii.eqb_eq in E. subst. cbn in D. lia.
Qed.
Lemma split_digits a s : all_digits a = true ->
  split_on "," (a ++ s)%string = match split_on "," s with p :: ps => (a ++ p)%string :: ps | [] => [a] end.
Proof.
  induction a as [|c r IH]; intros A.
  - cbn [append]. destruct (split_on "," s) eqn:E; [exfalso; eapply split_on_nonempty; eauto|reflexivity].
  - cbn [all_digits] in A. apply andb_true_iff in A. destruct A as [D A]. cbn [append split_on].
    rewrite (digit_not_comma c D), (IH A). destruct (split_on "," s); reflexivity.
Qed.
Lemma split_join ps : ps <> [] -> split_on "," (join_commas (map dec ps)) = map dec ps.
Proof.
  induction ps as [|p ps IH]; [congruence|]. intros _. destruct ps as [|q ps].
  - cbn [map join_commas]. rewrite <- (append_nil_r (dec p)) at 1. rewrite split_digits by apply dec_all_digits.
    cbn [split_on]. now rewrite append_nil_r.
  - change (join_commas (map dec (p :: q :: ps))) with (dec p ++ String "," (join_commas (map dec (q :: ps))))%string.
    rewrite split_digits by apply dec_all_digits. cbn [split_on]. rewrite Ascii.eqb_refl, IH by discriminate.
    now rewrite append_nil_r.
Qed.
Lemma plain_join ps : plain (join_commas (map dec ps)) = true.
Proof.
  induction ps as [|p ps IH]; [reflexivity|]. destruct ps as [|q ps]; [apply digits_plain, dec_all_digits|].
  change (join_commas (map dec (p :: q :: ps))) with (dec p ++ String "," (join_commas (map dec (q :: ps))))%string.
  rewrite plain_app. cbn [plain]. rewrite IH, digits_plain by apply dec_all_digits. reflexivity.
Qed.
Lemma pids_join ps : ps <> [] -> Forall is_u16 ps -> pids_of (join_commas (map dec ps)) = Some ps.
Proof.
  intros NE F. unfold pids_of. rewrite plain_utf8 by apply plain_join. rewrite split_join by assumption. clear NE.
  induction F as [|p ps Hp F IH]; [reflexivity|]. cbn [map all_some]. rewrite trim_dec, parse_u16_dec by exact Hp.
  rewrite IH. reflexivity.
Qed.
Lemma digits_val_comma a r : forall acc, all_digits a = true -> digits_val (a ++ String "," r)%string acc = None.
Proof.
  induction a as [|c a IH]; intros acc A; [reflexivity|]. cbn [all_digits] in A. apply andb_true_iff in A. destruct A as [D A].
  cbn [append digits_val]. rewrite D. apply IH; auto.
Qed.
Lemma join_two_not_u16 p q ps : parse_u16 (join_commas (map dec (p :: q :: ps))) = None.
Proof.
  change (join_commas (map dec (p :: q :: ps))) with (dec p ++ String "," (join_commas (map dec (q :: ps))))%string.
  unfold parse_u16, parse_bounded, parse_dec.
  pose proof (dec_all_digits p) as A. pose proof (dec_nonempty p) as NE.
  destruct (dec p) as [|c r] eqn:E; [congruence|]. cbn [append].
  cbn [all_digits] in A. apply andb_true_iff in A. destruct A as [D A]. pose proof D as D'. unfold is_digit in D'. apply inr_true in D'.
  replace (nb c =? 43) with false by (symmetry; apply N.eqb_neq; lia).
  change (String c (r ++ String "," (join_commas (map dec (q :: ps))))%string) with (String c r ++ String "," (join_commas (map dec (q :: ps))))%string.
  rewrite digits_val_comma; [reflexivity|]. cbn [all_digits]. rewrite D, A. reflexivity.
Qed.
Lemma digit_head_not_star t : (exists c r, t = String c r /\ is_digit c = true) -> is_kw "*" t = true -> False.
Proof.
  intros [c [r [-> D]]] K. apply is_kw_true in K. destruct K as [_ K]. cbn [upper_ascii] in K. cbv zeta in K.
  pose proof D as D'. unfold is_digit in D'. apply inr_true in D'.
  replace (nb c <? 128) with true in K by (symmetry; apply N.ltb_lt; lia).
  destruct (upper_ascii r); [|discriminate]. cbn in K. injection K as K _. rewrite upc_id in K by (apply inr_false; lia).
  subst c. cbn in D'. lia.
Qed.
Lemma join_not_star p ps : is_kw "*" (join_commas (map dec (p :: ps))) = false.
Proof.
  destruct (is_kw "*" _) eqn:K; auto. exfalso. eapply digit_head_not_star; [|exact K].
  pose proof (dec_all_digits p) as A. pose proof (dec_nonempty p) as NE.
  destruct ps as [|q ps].
  - cbn [map join_commas]. destruct (dec p) as [|c r]; [congruence|]. cbn [all_digits] in A. apply andb_true_iff in A. exists c, r. tauto.
  - change (join_commas (map dec (p :: q :: ps))) with (dec p ++ String "," (join_commas (map dec (q :: ps))))%string.
    destruct (dec p) as [|c r]; [congruence|]. cbn [all_digits] in A. apply andb_true_iff in A. cbn [append]. eexists c, _. split; [reflexivity|tauto].
Qed.


(* ====================================================================== PD4 *)
Section S.
Variable uo : string -> option uuid.
Variable uprint : uuid -> string.
(* the uuid crate reads back what it prints (the printed text is ASCII without surrounding white space) *)
Hypothesis H_uuid : forall u, UuidT uo (uprint u) u.
(* ... and does not take a number of at most five digits for a uuid *)
Hypothesis H_num : forall n, n < 65536 -> uo (trim (dec n)) = None.

Definition one {A} (o : option A) : list A := match o with Some a => [a] | None => [] end.
Definition ev_text (e : expver) : token :=
  match e with EvAny => "ANY" | EvExists => "EXISTS" | EvEmpty => "EMPTY" | EvExact n => dec n end.
Definition cl_aopts (with_pk : bool) (o : cl_opts) : list aopt :=
  map OEventId (one (co_event_id o)) ++ (if with_pk then map OPartitionKey (one (co_partition_key o)) else []) ++
  map OExpected (one (cl_expected_opt (co_expected o))) ++ map OTimestamp (one (co_timestamp o)) ++
  map OPayload (one (cl_bytes_opt (co_payload o))) ++ map OMetadata (one (cl_bytes_opt (co_metadata o))).
Definition cl_os (with_pk : bool) (o : cl_opts) : list (list token) :=
  map (fun u => ["EVENT_ID"; uprint u]) (one (co_event_id o)) ++
  (if with_pk then map (fun u => ["PARTITION_KEY"; uprint u]) (one (co_partition_key o)) else []) ++
  map (fun e => ["EXPECTED_VERSION"; ev_text e]) (one (cl_expected_opt (co_expected o))) ++
  map (fun n => ["TIMESTAMP"; dec n]) (one (co_timestamp o)) ++
  map (fun d => ["PAYLOAD"; d]) (one (cl_bytes_opt (co_payload o))) ++
  map (fun d => ["METADATA"; d]) (one (cl_bytes_opt (co_metadata o))).

Lemma cl_os_tokens o : concat (cl_os true o) = cl_eappend_opts uprint o.
Proof. destruct o as [[u|] [k|] [| | |n] [t|] [|c p] [|c' m]]; reflexivity. Qed.
Lemma cl_os_event e : cl_event_tokens uprint e = ce_stream e :: ce_name e :: concat (cl_os false (ce_opts e)).
Proof. destruct e as [s n [[u|] [k|] [| | |x] [t|] [|c p] [|c' m]]]; reflexivity. Qed.
Lemma cl_add_opts s n b o : add_opts (new_ev s n) (cl_aopts b o) = Some (cl_ev s n o b).
Proof. destruct b; destruct o as [[u|] [k|] [| | |x] [t|] [|c p] [|c' m]]; reflexivity. Qed.
Lemma cl_not_pk o : Forall not_pk_opt (cl_aopts false o).
Proof. destruct o as [[u|] [k|] [| | |x] [t|] [|c p] [|c' m]]; repeat constructor. Qed.

Lemma F2_one {A} (f : A -> aopt) (g : A -> list token) o :
  (forall a, o = Some a -> DocAOpt uo (f a) (g a)) -> Forall2 (DocAOpt uo) (map f (one o)) (map g (one o)).
Proof. destruct o; cbn; intros H; constructor; auto. Qed.

Lemma cl_opts_doc b o : opts_ok o -> Forall2 (DocAOpt uo) (cl_aopts b o) (cl_os b o).
Proof.
  intros [Ht He]. unfold cl_aopts, cl_os. repeat apply Forall2_app.
  - apply F2_one. intros u _. apply DocA_event_id; [reflexivity|apply H_uuid].
  - destruct b; [|constructor]. apply F2_one. intros u _. apply DocA_partition_key; [reflexivity|apply H_uuid].
  - apply F2_one. intros e E. apply DocA_expected; [reflexivity|].
    destruct (co_expected o) eqn:X; cbn in E; try discriminate; injection E as <-; cbn [ev_text].
    + apply DocEv_exists. reflexivity.
    + apply DocEv_empty. reflexivity.
    + apply DocEv_exact. apply parse_u64_dec. exact He.
  - apply F2_one. intros n E. apply DocA_timestamp; [reflexivity|]. apply parse_u64_dec. rewrite E in Ht. exact Ht.
  - apply F2_one. intros d _. apply DocA_payload. reflexivity.
  - apply F2_one. intros d _. apply DocA_metadata. reflexivity.
Qed.

Lemma win_doc w : win_ok w -> DocOpt DocWindow w (cl_window w).
Proof.
  destruct w as [n|]; cbn; [|constructor]. intros [H1 H2]. constructor. apply DocWin; [reflexivity| |exact H1].
  apply parse_u64_dec. lia.
Qed.
Lemma pk_doc pk : DocOpt (DocPkClause uo) pk (cl_opt pk (fun u => ["PARTITION_KEY"; uprint u])).
Proof. destruct pk as [u|]; cbn; constructor. apply DocPk; [reflexivity|apply H_uuid]. Qed.
Lemma psel_doc p : psel_ok p -> DocPSel uo (cl_sel p) (cl_psel_token uprint p).
Proof.
  destruct p as [n|u]; cbn; intros H.
  - apply DocPSel_id; [apply parse_u16_dec; exact H|apply H_num; exact H].
  - apply DocPSel_key. apply H_uuid.
Qed.
Lemma end_doc b : opt_ok is_u64 b -> DocRange (cl_range_end b) (cl_end b).
Proof. destruct b as [n|]; cbn; intros H; [apply DocRange_val, parse_u64_dec, H|apply DocRange_end; reflexivity]. Qed.
Lemma count_ok c : opt_ok is_u64 c -> is_u64 (cl_count c).
Proof. destruct c; cbn; auto. intros _. unfold is_u64. lia. Qed.
Lemma pairs_doc m : pairs_ok m -> Forall2 DocPidSeq m (map (fun t => [t]) (cl_pairs m)).
Proof.
  induction 1 as [|[p s] m [Hp Hs] F IH]; cbn; constructor; auto. apply DocPidSeq_intro. apply pid_seq_dec; assumption.
Qed.
Lemma concat_singletons {A} (l : list A) : concat (map (fun t => [t]) l) = l.
Proof. induction l; cbn; congruence. Qed.

Theorem client_doc c r : client_ok c -> client_denotes c = Some r -> Doc uo (client_command c) r (client_tokens uprint c).
Proof.
  destruct c; cbn [client_ok client_denotes client_command client_tokens]; intros Ok [= <-]. (* the two calls without a claim (CallEPSubKey, CallEPSubText) are gone here *)
  - (* EAPPEND *) destruct Ok as [S [Nm O]]. apply Doc_eappend.
    exists sid, name, (cl_aopts true o), (cl_os true o). repeat split; auto using cl_opts_doc, cl_add_opts; try apply S.
    now rewrite cl_os_tokens.
  - (* EMAPPEND *) destruct Ok as [NE F]. apply Doc_emappend.
    exists (uprint pk), (map (cl_event_tokens uprint) evs). cbn [fst snd]. repeat split; try apply H_uuid.
    + destruct evs; [congruence|discriminate].
    + clear NE. induction F as [|e evs [S [W [Nm O]]] F IH]; cbn [map]; constructor; auto.
      exists (ce_stream e), (ce_name e), (cl_aopts false (ce_opts e)), (cl_os false (ce_opts e)).
      repeat split; auto using cl_opts_doc, cl_add_opts, cl_not_pk, cl_os_event; try apply S.
    + f_equal. now rewrite flat_map_concat_map.
  - (* EGET *) apply Doc_eget. apply H_uuid.
  - (* EPSCAN *) destruct Ok as [P [A [B C]]]. apply Doc_epscan.
    exists (cl_psel_token uprint p), (dec start), (cl_end end_), (cl_sel p), (RVal start), (cl_range_end end_),
           [cl_count count], [["COUNT"; dec (cl_count count)]].
    repeat split; auto using psel_doc, end_doc.
    + apply DocRange_val, parse_u64_dec, A.
    + repeat constructor. apply parse_u64_dec, count_ok, C.
  - (* ESCAN *) destruct Ok as [S [A [B C]]]. apply Doc_escan.
    exists sid, (dec start), (cl_end end_), (RVal start), (cl_range_end end_),
           (SCount (cl_count count) :: map SPartitionKey (one pk)),
           (["COUNT"; dec (cl_count count)] :: map (fun u => ["PARTITION_KEY"; uprint u]) (one pk)).
    repeat split; auto using end_doc; try apply S.
    + apply DocRange_val, parse_u64_dec, A.
    + constructor; [apply DocS_count; [reflexivity|apply parse_u64_dec, count_ok, C]|].
      destruct pk as [u|]; cbn; constructor; [|constructor]. apply DocS_pk. apply DocPk; [reflexivity|apply H_uuid].
    + destruct pk; reflexivity.
    + destruct pk; reflexivity.
  - (* EPSEQ *) apply Doc_epseq. apply psel_doc, Ok.
  - (* ESVER *) apply Doc_esver; [exact Ok|apply pk_doc].
  - (* ESUB *) destruct Ok as [S [W [Fr Wn]]].
    change (RESub (EsStream sid pk from win)) with
      (RESub (esub_resolve {| es_streams := [(sid, pk)]; es_from := option_map FvAll from; es_window := win |}))
      || (replace (RESub (EsStream sid pk from win)) with
      (RESub (esub_resolve {| es_streams := [(sid, pk)]; es_from := option_map FvAll from; es_window := win |}))
        by (destruct from; reflexivity)).
    apply Doc_esub.
    exists [sid :: cl_opt pk (fun u => ["PARTITION_KEY"; uprint u])], (cl_from from), (cl_window win).
    cbn [es_streams es_from es_window]. repeat split; auto using win_doc.
    + discriminate.
    + constructor; [|constructor]. destruct pk as [u|]; cbn.
      * apply DocStream_pk; auto. apply DocPk; [reflexivity|apply H_uuid].
      * apply DocStream_plain; auto.
    + destruct from as [n|]; cbn; constructor. apply DocFV_all; [reflexivity|apply parse_u64_dec, Fr].
    + cbn [concat]. rewrite app_nil_r. reflexivity.
  - (* ESUB .. FROM LATEST *) destruct Ok as [S W].
    change (RESub (EsStream sid None None None)) with
      (RESub (esub_resolve {| es_streams := [(sid, None)]; es_from := Some FvLatest; es_window := None |})).
    apply Doc_esub. exists [[sid]], ["FROM"; "LATEST"], []. cbn [es_streams es_from es_window]. repeat split; try reflexivity.
    + discriminate.
    + constructor; [|constructor]. apply DocStream_plain; auto.
    + constructor. apply DocFV_latest; reflexivity.
    + constructor.
  - (* EPSUB <id> *) destruct Ok as [P [Fr Wn]].
    replace (REPSub (EpPart p from win)) with
      (REPSub (epsub_resolve {| ep_sel := SelPart p; ep_from := option_map FsAll from; ep_window := win |}))
      by (destruct from; reflexivity).
    apply Doc_epsub. exists (dec p), (cl_from from), (cl_window win). cbn [ep_sel ep_from ep_window]. repeat split; auto using win_doc.
    + apply DocSel_one, parse_u16_dec, P.
    + destruct from as [n|]; cbn; constructor. apply DocFS_all; [reflexivity|apply parse_u64_dec, Fr].
  - (* EPSUB * FROM LATEST *)
    change (REPSub (EpAll FsLatest None)) with
      (REPSub (epsub_resolve {| ep_sel := SelAll; ep_from := Some FsLatest; ep_window := None |})).
    apply Doc_epsub. exists "*", ["FROM"; "LATEST"], []. cbn [ep_sel ep_from ep_window]. repeat split; try reflexivity.
    + apply DocSel_all. reflexivity.
    + constructor. apply DocFS_latest; reflexivity.
    + constructor.
  - (* EPSUB * flexible *) destruct Ok as [Pm [Fb Wn]].
    match goal with |- Doc _ _ (REPSub (EpAll ?ff win)) _ =>
      replace (REPSub (EpAll ff win)) with
        (REPSub (epsub_resolve {| ep_sel := SelAll;
                                  ep_from := Some (match m with [] => match fallback with None => FsLatest | Some x => FsAll x end | _ => FsMap m fallback end);
                                  ep_window := win |}))
        by (destruct m; [destruct fallback|]; reflexivity) end.
    apply Doc_epsub. eexists "*", _, (cl_window win). cbn [ep_sel ep_from ep_window]. repeat split; auto using win_doc.
    + apply DocSel_all. reflexivity.
    + constructor. destruct m as [|ps m].
      * destruct fallback as [f|]; [apply DocFS_all; [reflexivity|apply parse_u64_dec, Fb]|apply DocFS_latest; reflexivity].
      * rewrite <- (concat_singletons (cl_pairs (ps :: m))).
        apply (DocFS_map "FROM" "MAP" (ps :: m) _ fallback (cl_opt fallback (fun f => ["DEFAULT"; dec f]))); try reflexivity.
        -- discriminate.
        -- apply pairs_doc, Pm.
        -- destruct fallback as [f|]; cbn; constructor. apply DocDef; [reflexivity|apply parse_u64_dec, Fb].
  - (* EPSUB p1,p2 FROM MAP .. *) destruct Ok as [NE [Pm Wn]]. apply Doc_epsub.
    exists (join_commas (map (fun ps => dec (fst ps)) m)), ("FROM" :: "MAP" :: cl_pairs m), (cl_window win).
    cbn [ep_sel ep_from ep_window]. repeat split; auto using win_doc.
    + assert (U : Forall is_u16 (map fst m)).
      { apply Forall_forall. intros x Hx. apply in_map_iff in Hx. destruct Hx as [ps [<- Hp]].
        unfold pairs_ok in Pm. rewrite Forall_forall in Pm. apply (Pm ps Hp). }
      replace (map (fun ps => dec (fst ps)) m) with (map dec (map fst m)) by (rewrite map_map; reflexivity).
      destruct m as [|[p s] [|[q s'] m]]; [congruence| |].
      * cbn. apply DocSel_one. apply parse_u16_dec. inversion U; auto.
      * apply DocSel_list.
        -- apply pids_join; [discriminate|exact U].
        -- apply join_two_not_u16.
        -- apply join_not_star.
    + constructor. rewrite <- (concat_singletons (cl_pairs m)), <- (app_nil_r (concat _)).
      apply (DocFS_map "FROM" "MAP" m _ None []); try reflexivity; auto.
      * apply pairs_doc, Pm.
      * constructor.
  - (* EACK *) apply Doc_eack; [apply H_uuid|apply parse_u64_dec, Ok].
Qed.

(** subscribe_to_partitions(text, from, window): whatever reading the documentation gives the text *)
Theorem client_text_doc sel s from win : DocSelector s sel -> is_u64 from -> win_ok win ->
  Doc uo CEPSub (REPSub (epsub_resolve {| ep_sel := s; ep_from := Some (FsAll from); ep_window := win |}))
      (client_tokens uprint (CallEPSubText sel from win)).
Proof.
  intros Ds Fr Wn. apply Doc_epsub. exists sel, ["FROM"; dec from], (cl_window win). cbn [ep_sel ep_from ep_window]. repeat split; auto using win_doc.
  constructor. apply DocFS_all; [reflexivity|apply parse_u64_dec, Fr].
Qed.
End S.

(* ====================================================================== statements used by Props/C21.v *)
Theorem client_doc_parse uo uprint :
  (forall u, UuidT uo (uprint u) u) -> (forall n, n < 65536 -> uo (trim (dec n)) = None) ->
  forall c r, client_ok c -> client_denotes c = Some r ->
  Doc uo (client_command c) r (client_tokens uprint c) /\
  parse_command uo (client_command c) (client_tokens uprint c) = Some r.
Proof.
  intros H1 H2 c r Ok D. pose proof (client_doc uo uprint H1 H2 c r Ok D) as X. split; [exact X|]. apply doc_roundtrip. exact X.
Qed.
Theorem client_text_parse uo uprint sel s from win :
  DocSelector s sel -> is_u64 from -> win_ok win ->
  parse_command uo CEPSub (client_tokens uprint (CallEPSubText sel from win)) =
  Some (REPSub (epsub_resolve {| ep_sel := s; ep_from := Some (FsAll from); ep_window := win |})).
Proof. intros. apply doc_roundtrip. apply client_text_doc; assumption. Qed.
Theorem client_epsub_key_rejected uo uprint u from win :
  is_kw "*" (uprint u) = false -> parse_u16 (uprint u) = None -> pids_of (uprint u) = None ->
  parse_command uo CEPSub (client_tokens uprint (CallEPSubKey u from win)) = None.
Proof.
  intros K P L. unfold parse_command. cbn [client_command client_tokens].
  match goal with |- option_map _ ?x = None => destruct x eqn:E end; [|reflexivity].
  apply run_some in E. unfold epsub_raw, pmap, pseq in E. rewrite selector_cons, K, P, L in E. destruct E; discriminate.
Qed.
Theorem esub_orig_refuted : exists toks a,
  run (esub_raw_orig (fun _ => None)) toks = Some a /\ ~ DocESub (fun _ => None) a toks /\
  esub_resolve a = EsStreams [("user-1", None); ("FROM", None); ("5", None); ("WINDOW", None); ("10", None)] RvLatest None.
Proof.
  exists ["user-1"; "FROM"; "5"; "WINDOW"; "10"].
  exists {| es_streams := [("user-1", None); ("FROM", None); ("5", None); ("WINDOW", None); ("10", None)]; es_from := None; es_window := None |}.
  split; [vm_compute; reflexivity|]. split; [|vm_compute; reflexivity].
  intros [ss [fs [ws [_ [F _]]]]]. cbn [es_streams] in F.
  inversion F as [|x1 p1 l1 s1 D1 F1]; subst. inversion F1 as [|x2 p2 l2 s2 D2 F2]; subst.
  inversion D2 as [s St W|s l u St W Dp]; subst. vm_compute in W. discriminate.
Qed.
