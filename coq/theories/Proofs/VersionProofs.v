From Coq Require Import NArith ZArith List Bool Ascii Lia.
From Coq Require Import ZifyBool ZifyNat ZifyN.
From SV Require Import Model.Version.
Import ListNotations.
Open Scope N_scope.

(** * acceptance *)
Lemma satisfied_accepts e c : is_satisfied_by e c = accepts e c.
Proof.
  unfold is_satisfied_by, gap_from.
  destruct e as [| | |x], c as [|v]; cbn; try reflexivity.
  destruct (N.compare_spec x v) as [->|H|H].
  - now rewrite N.eqb_refl.
  - symmetry. apply N.eqb_neq. lia.
  - symmetry. apply N.eqb_neq. lia.
Qed.

Lemma store_first_accepts e latest : store_stream_first e latest = accepts e (cv_of_latest latest).
Proof. destruct e, latest; cbn; try reflexivity. apply N.eqb_sym. Qed.

Lemma store_again_accepts e entry : store_stream_again e entry = accepts e (CvCurrent entry).
Proof. destruct e; cbn; try reflexivity. apply N.eqb_sym. Qed.

Lemma store_partition_accepts e next : store_partition e next = accepts e (cv_of_count next).
Proof.
  unfold cv_of_count. destruct e; cbn; destruct (next =? 0) eqn:E; cbn; try reflexivity. apply N.eqb_sym.
Qed.

Lemma cv_of_count_count c : wf_cv c -> cv_count (cv_of_count (cv_next_total c)) = cv_count c /\ cv_of_count (cv_next_total c) = c.
Proof.
  destruct c as [|v]; cbn; intros; [split; reflexivity|].
  unfold cv_of_count. destruct (v + 1 =? 0) eqn:E; [lia|]. cbn. replace (v + 1 - 1) with v by lia. split; reflexivity.
Qed.

(** * gap *)
Lemma gap_gen_saturating e c : gap_from_gen AddSaturating e c = Some (gap_from e c).
Proof. unfold gap_from. destruct e, c; reflexivity. Qed.

Lemma gap_from_spec e c : wf_ev e -> wf_cv c -> gap_from e c = gap_spec e c.
Proof.
  unfold gap_from, gap_spec, gap_of_distance, clamp64, wf_ev, wf_cv, U64_MAX.
  destruct e as [| | |x], c as [|v]; cbn [gap_from_gen u64_add option_map cv_count]; unfold U64_MAX; intros He Hc; try reflexivity.
  - destruct (Z.eqb_spec (Z.of_N v + 1) 0); [lia|]. destruct (Z.ltb_spec 0 (Z.of_N v + 1)); [|lia]. f_equal. lia.
  - destruct (Z.eqb_spec (0 - (Z.of_N x + 1)) 0); [lia|]. destruct (Z.ltb_spec 0 (0 - (Z.of_N x + 1))); [lia|]. f_equal. lia.
  - destruct (N.compare_spec x v) as [->|H|H].
    + destruct (Z.eqb_spec (Z.of_N v + 1 - (Z.of_N v + 1)) 0); [reflexivity|lia].
    + destruct (Z.eqb_spec (Z.of_N v + 1 - (Z.of_N x + 1)) 0); [lia|].
      destruct (Z.ltb_spec 0 (Z.of_N v + 1 - (Z.of_N x + 1))); [|lia]. f_equal. lia.
    + destruct (Z.eqb_spec (Z.of_N v + 1 - (Z.of_N x + 1)) 0); [lia|].
      destruct (Z.ltb_spec 0 (Z.of_N v + 1 - (Z.of_N x + 1))); [lia|]. f_equal. lia.
Qed.

(** without clamping: exact whenever the true distance fits, i.e. everywhere except the two boundary pairs *)
Definition expected_count (e : expected_version) : Z :=
  match e with EvExact x => Z.of_N x + 1 | _ => 0 end.
Definition exact_gap (d : Z) : version_gap :=
  if (d =? 0)%Z then GapNone else if (0 <? d)%Z then GapAhead (Z.to_N d) else GapBehind (Z.to_N (- d)).

Lemma gap_from_exact e c : wf_ev e -> wf_cv c ->
  (e = EvEmpty \/ exists x, e = EvExact x) ->
  (Z.abs (cv_count c - expected_count e) < 2 ^ 64)%Z ->
  gap_from e c = exact_gap (cv_count c - expected_count e).
Proof.
  intros He Hc Hk Hd. rewrite gap_from_spec by assumption.
  assert (Hg : forall d, (Z.abs d < 2 ^ 64)%Z -> gap_of_distance d = exact_gap d).
  { intros d H. unfold gap_of_distance, exact_gap, clamp64, U64_MAX.
    destruct (d =? 0)%Z; [reflexivity|]. destruct (0 <? d)%Z eqn:E; f_equal; lia. }
  destruct Hk as [->|[x ->]]; cbn [gap_spec expected_count] in *.
  - rewrite Z.sub_0_r in *. apply Hg, Hd.
  - apply Hg, Hd.
Qed.

Lemma gap_boundary :
  gap_from (EvExact U64_MAX) CvEmpty = GapBehind U64_MAX /\
  gap_from EvEmpty (CvCurrent U64_MAX) = GapAhead U64_MAX.
Proof. split; reflexivity. Qed.

Lemma gap_original_refuted :
  gap_from_gen AddChecked (EvExact U64_MAX) CvEmpty = None /\
  gap_from_gen AddChecked EvEmpty (CvCurrent U64_MAX) = None /\
  gap_from_gen AddWrapping (EvExact U64_MAX) CvEmpty = Some (GapBehind 0) /\
  gap_from_gen AddWrapping EvEmpty (CvCurrent U64_MAX) = Some (GapAhead 0).
Proof. repeat split; reflexivity. Qed.

Lemma gap_original_elsewhere e c : wf_ev e -> wf_cv c ->
  ~ (e = EvExact U64_MAX /\ c = CvEmpty) -> ~ (e = EvEmpty /\ c = CvCurrent U64_MAX) ->
  gap_from_gen AddChecked e c = Some (gap_from e c).
Proof.
  unfold gap_from, wf_ev, wf_cv. destruct e as [| | |x], c as [|v]; cbn [gap_from_gen u64_add option_map]; intros He Hc H1 H2; try reflexivity.
  - destruct (N.leb_spec (v + 1) U64_MAX).
    + cbn. do 2 f_equal. lia.
    + exfalso. apply H2. split; [reflexivity|]. f_equal. lia.
  - destruct (N.leb_spec (x + 1) U64_MAX).
    + cbn. do 2 f_equal. lia.
    + exfalso. apply H1. split; [|reflexivity]. f_equal. lia.
Qed.

(** * next-version conversions *)
Lemma into_from_next v : v <= U64_MAX -> into_next_version (from_next_version v) = Some (Some v) /\ wf_ev (from_next_version v).
Proof.
  intros Hv. unfold from_next_version. destruct (N.eqb_spec v 0) as [->|Hn]; [split; [reflexivity|exact I]|].
  cbn [into_next_version wf_ev]. replace (v - 1 + 1) with v by lia.
  destruct (N.leb_spec v U64_MAX); [|lia]. split; [reflexivity|lia].
Qed.

Lemma from_into_next e : wf_ev e ->
  match e with
  | EvEmpty => into_next_version e = Some (Some 0) /\ from_next_version 0 = e
  | EvExact x => if x =? U64_MAX then into_next_version e = Some None
                 else into_next_version e = Some (Some (x + 1)) /\ x + 1 <= U64_MAX /\ from_next_version (x + 1) = e
  | _ => into_next_version e = None
  end.
Proof.
  destruct e as [| | |x]; cbn [wf_ev]; intros He; try reflexivity; [split; reflexivity|].
  destruct (N.eqb_spec x U64_MAX) as [->|Hn]; [reflexivity|].
  cbn [into_next_version]. destruct (N.leb_spec (x + 1) U64_MAX); [|lia].
  split; [reflexivity|split; [assumption|]].
  unfold from_next_version. destruct (N.eqb_spec (x + 1) 0); [lia|]. f_equal. lia.
Qed.

(** * CurrentVersion helpers *)
Lemma as_expected_satisfied c : is_satisfied_by (as_expected_version c) c = true.
Proof. rewrite satisfied_accepts. destruct c; cbn; [reflexivity|apply N.eqb_refl]. Qed.

Lemma cv_next_count c n : cv_next c = Some n -> Z.of_N n = cv_count c /\ n <= U64_MAX.
Proof.
  destruct c as [|v]; cbn.
  - intros [= <-]. split; [reflexivity|unfold U64_MAX; lia].
  - destruct (N.leb_spec (v + 1) U64_MAX); [|discriminate]. intros [= <-]. split; lia.
Qed.

Lemma cv_add_count c k c' : cv_add c k = Some c' -> (cv_count c' = cv_count c + Z.of_N k)%Z.
Proof.
  destruct c as [|v]; cbn.
  - destruct (N.ltb_spec 0 k); intros [= <-]; cbn; lia.
  - destruct (N.leb_spec (v + k) U64_MAX); [|discriminate]. cbn. intros [= <-]. cbn. lia.
Qed.

(** * the whole transaction: validate_event_versions refines the per-event specification *)
Definition cur_of (db : N -> option N) (m : list (N * N)) : N -> current_version :=
  fun s => match assoc_get s m with Some entry => CvCurrent entry | None => cv_of_latest (db s) end.

Definition tx_prepend (l : list current_version) (r : tx_result) : tx_result :=
  match r with TxOk l' => TxOk (l ++ l') | other => other end.

Lemma cur_of_cons db m s v : forall s', cur_of db ((s, v) :: m) s' = upd (cur_of db m) s (CvCurrent v) s'.
Proof.
  intros s'. unfold cur_of, upd. cbn [assoc_get]. rewrite (N.eqb_sym s s'). destruct (s' =? s); reflexivity.
Qed.

Lemma tx_spec_ext evs : forall f g, (forall s, f s = g s) -> tx_spec f evs = tx_spec g evs.
Proof.
  induction evs as [|[s e] r IH]; intros f g H; cbn [tx_spec]; [reflexivity|].
  rewrite (H s). destruct (is_satisfied_by e (g s)); [|reflexivity].
  erewrite IH; [reflexivity|]. intros s'. unfold upd. destruct (s' =? s); [reflexivity|apply H].
Qed.

Lemma validate_refines evs : forall db m acc,
  (forall s, cv_next_total (cur_of db m s) + N.of_nat (length evs) <= U64_MAX + 1) ->
  validate_events db m evs acc = tx_prepend (rev acc) (tx_spec (cur_of db m) evs).
Proof.
  induction evs as [|[s e] r IH]; intros db m acc Hb.
  - cbn. now rewrite app_nil_r.
  - cbn [validate_events tx_spec]. rewrite satisfied_accepts.
    pose proof (Hb s) as Hs. cbn [length] in Hs, Hb.
    assert (Hstep : forall v c, cur_of db m s = c -> cv_next_total c = v -> 
              validate_events db ((s, v) :: m) r (c :: acc) =
              tx_prepend (rev acc) match tx_spec (upd (cur_of db m) s (cv_succ c)) r with TxOk l => TxOk (c :: l) | r0 => r0 end).
    { intros v c Hc Hv. rewrite IH.
      - rewrite (tx_spec_ext r _ _ (cur_of_cons db m s v)).
        unfold cv_succ. rewrite Hv. cbn [rev].
        destruct (tx_spec _ r); cbn [tx_prepend]; try reflexivity. now rewrite <- app_assoc.
      - intros s'. rewrite cur_of_cons. unfold upd. destruct (N.eqb_spec s' s) as [->|Hne].
        + cbn [cv_next_total]. rewrite Hc, Hv in Hs. lia.
        + specialize (Hb s'). lia. }
    destruct (assoc_get s m) as [entry|] eqn:Em.
    + assert (Hc : cur_of db m s = CvCurrent entry) by (unfold cur_of; now rewrite Em).
      rewrite Hc in *. rewrite store_again_accepts. destruct (accepts e (CvCurrent entry)); [|reflexivity].
      cbn [cv_next_total] in Hs. cbn [u64_add].
      destruct (N.leb_spec (entry + 1) U64_MAX); [|lia].
      now apply Hstep.
    + assert (Hc : cur_of db m s = cv_of_latest (db s)) by (unfold cur_of; now rewrite Em).
      rewrite Hc in *. rewrite store_first_accepts. destruct (accepts e (cv_of_latest (db s))); [|reflexivity].
      destruct (db s) as [v|] eqn:Ed; cbn [cv_of_latest] in *.
      * cbn [cv_next_total] in Hs. cbn [u64_add].
        destruct (N.leb_spec (v + 1) U64_MAX); [|lia].
        now apply Hstep.
      * now apply Hstep.
Qed.

Lemma validate_events_spec db evs :
  (forall s, cv_next_total (cv_of_latest (db s)) + N.of_nat (length evs) <= U64_MAX + 1) ->
  validate_events db [] evs [] = tx_spec (fun s => cv_of_latest (db s)) evs.
Proof.
  intros H. rewrite validate_refines.
  - cbn [rev app]. unfold cur_of. cbn [assoc_get]. destruct (tx_spec _ evs); reflexivity.
  - intros s. unfold cur_of. cbn [assoc_get]. apply H.
Qed.

(** acceptance of a whole append: stream expectations, then the partition expectation *)
Lemma append_tx_accepts db pnext epart evs :
  (forall s, cv_next_total (cv_of_latest (db s)) + N.of_nat (length evs) <= U64_MAX + 1) ->
  (exists a b l, append_tx db pnext epart evs = ApOk a b l) <->
  ((exists cs, tx_spec (fun s => cv_of_latest (db s)) evs = TxOk cs) /\ is_satisfied_by epart (cv_of_count pnext) = true).
Proof.
  intros H. unfold append_tx. rewrite (validate_events_spec db evs H), satisfied_accepts, <- store_partition_accepts.
  destruct (tx_spec _ evs) as [cs| |].
  - destruct (store_partition epart pnext); split.
    + intros _. split; [now exists cs|reflexivity].
    + intros _. now eexists _, _, _.
    + intros (a & b & l & Hx). discriminate.
    + intros [_ Hx]. discriminate.
  - split; [intros (a & b & l & Hx); discriminate|intros [[cs Hx] _]; discriminate].
  - split; [intros (a & b & l & Hx); discriminate|intros [[cs Hx] _]; discriminate].
Qed.

(** * text *)
Definition dig (c : ascii) : N := match digit_of_byte c with Some d => d | None => 0 end.
Definition digits_val (acc : N) (l : list ascii) : N := fold_left (fun a c => a * 10 + dig c) l acc.

Lemma bytes_eqb_eq a : forall b, bytes_eqb a b = true <-> a = b.
Proof.
  induction a as [|x a IH]; destruct b as [|y b]; cbn; split; try congruence; try reflexivity.
  - intros H. apply andb_true_iff in H as [H1 H2]. apply Ascii.eqb_eq in H1. apply IH in H2. congruence.
  - intros [= -> ->]. rewrite Ascii.eqb_refl. cbn. now apply IH.
Qed.

Lemma digit_of_byte_of_digit d : d < 10 -> digit_of_byte (byte_of_digit d) = Some d.
Proof.
  intros H. assert (Hc : d = 0 \/ d = 1 \/ d = 2 \/ d = 3 \/ d = 4 \/ d = 5 \/ d = 6 \/ d = 7 \/ d = 8 \/ d = 9) by lia.
  destruct Hc as [->|[->|[->|[->|[->|[->|[->|[->|[->| ->]]]]]]]]]; reflexivity.
Qed.

Lemma digit_bounds c d : digit_of_byte c = Some d -> d < 10 /\ N_of_ascii c = 48 + d.
Proof.
  unfold digit_of_byte. set (n := N_of_ascii c). cbv zeta.
  destruct (N.leb_spec 48 n); cbn [andb]; [|discriminate].
  destruct (N.leb_spec n 57); [|discriminate]. intros [= <-]. lia.
Qed.

Lemma byte_of_digit_of_byte c d : digit_of_byte c = Some d -> byte_of_digit d = c.
Proof.
  intros H. apply digit_bounds in H as [_ H]. unfold byte_of_digit. rewrite <- H. apply ascii_N_embedding.
Qed.

Lemma is_digit_dig c : is_digit c = true -> digit_of_byte c = Some (dig c).
Proof. unfold is_digit, dig. destruct (digit_of_byte c); [reflexivity|discriminate]. Qed.

Lemma digits_val_ge l : forall acc, acc <= digits_val acc l.
Proof.
  induction l as [|c l IH]; intros acc; [cbn; lia|].
  change (digits_val acc (c :: l)) with (digits_val (acc * 10 + dig c) l).
  specialize (IH (acc * 10 + dig c)). lia.
Qed.

Lemma digits_val_app l1 l2 acc : digits_val acc (l1 ++ l2) = digits_val (digits_val acc l1) l2.
Proof. unfold digits_val. apply fold_left_app. Qed.

Lemma parse_digits_ok l : forall acc, forallb is_digit l = true -> digits_val acc l <= U64_MAX ->
  parse_digits acc l = POk (digits_val acc l).
Proof.
  induction l as [|c l IH]; intros acc Hd Hv; cbn [parse_digits]; [reflexivity|].
  cbn [forallb] in Hd. apply andb_true_iff in Hd as [Hc Hd].
  rewrite (is_digit_dig c Hc).
  change (digits_val acc (c :: l)) with (digits_val (acc * 10 + dig c) l) in *.
  pose proof (digits_val_ge l (acc * 10 + dig c)).
  destruct (N.leb_spec (acc * 10 + dig c) U64_MAX); [|lia].
  now apply IH.
Qed.

Lemma parse_digits_val l : forall acc n, parse_digits acc l = POk n ->
  n = digits_val acc l /\ forallb is_digit l = true /\ (acc <= U64_MAX -> n <= U64_MAX).
Proof.
  induction l as [|c l IH]; intros acc n; cbn [parse_digits].
  - intros [= <-]. repeat split. auto.
  - destruct (digit_of_byte c) as [d|] eqn:Ed; [|discriminate].
    destruct (N.leb_spec (acc * 10 + d) U64_MAX); [|discriminate].
    intros Hp. apply IH in Hp as (Hn & Hall & Hb).
    assert (Hdig : dig c = d) by (unfold dig; now rewrite Ed).
    repeat split.
    + change (digits_val acc (c :: l)) with (digits_val (acc * 10 + dig c) l). now rewrite Hdig.
    + cbn [forallb]. unfold is_digit at 1. now rewrite Ed.
    + intros _. now apply Hb.
Qed.

Lemma digit_not_plus c : is_digit c = true -> Ascii.eqb c PLUS = false.
Proof.
  intros H. destruct (Ascii.eqb_spec c PLUS) as [->|]; [|reflexivity]. discriminate H.
Qed.

Lemma parse_u64_digits c r : is_digit c = true -> parse_u64 (c :: r) = parse_digits 0 (c :: r).
Proof. intros H. unfold parse_u64. rewrite (digit_not_plus c H). destruct r; reflexivity. Qed.

Lemma digit_head_not_lit c r l x : is_digit c = true -> is_digit x = false -> bytes_eqb (c :: r) (x :: l) = false.
Proof.
  intros Hc Hx. cbn. destruct (Ascii.eqb_spec c x) as [->|]; [congruence|reflexivity].
Qed.

(** dec_digits *)
Lemma dec_digits_spec f : forall n, n < 2 ^ N.of_nat f ->
  forallb is_digit (dec_digits f n) = true /\ digits_val 0 (dec_digits f n) = n /\ (n <> 0 -> dec_digits f n <> []).
Proof.
  induction f as [|f IH]; intros n Hn.
  - cbn in Hn. assert (n = 0) by lia. subst. cbn. repeat split. congruence.
  - cbn [dec_digits]. destruct (N.eqb_spec n 0) as [->|Hne]; [cbn; repeat split; congruence|].
    rewrite Nat2N.inj_succ, N.pow_succ_r' in Hn.
    assert (Hq : n / 10 < 2 ^ N.of_nat f).
    { pose proof (N.div_mod n 10 ltac:(lia)). pose proof (N.mod_lt n 10 ltac:(lia)). lia. }
    destruct (IH _ Hq) as (Ha & Hv & _).
    pose proof (N.mod_lt n 10 ltac:(lia)) as Hm.
    repeat split.
    + rewrite forallb_app, Ha. cbn. unfold is_digit. now rewrite digit_of_byte_of_digit.
    + rewrite digits_val_app, Hv. cbn. unfold dig. rewrite digit_of_byte_of_digit by assumption.
      pose proof (N.div_mod n 10 ltac:(lia)). lia.
    + intros _ H. apply app_eq_nil in H as [_ H]. discriminate.
Qed.

Lemma size_fuel n : n < 2 ^ N.of_nat (N.to_nat (N.size n)).
Proof. rewrite N2Nat.id. apply N.size_gt. Qed.

Lemma display_u64_spec n :
  exists c r, display_u64 n = c :: r /\ is_digit c = true /\ forallb is_digit r = true /\ digits_val 0 (c :: r) = n.
Proof.
  unfold display_u64. destruct (N.eqb_spec n 0) as [->|Hne].
  - exists (byte_of_digit 0), []. repeat split.
  - destruct (dec_digits_spec _ n (size_fuel n)) as (Ha & Hv & Hnn).
    destruct (dec_digits (N.to_nat (N.size n)) n) as [|c r] eqn:E; [now elim (Hnn Hne)|].
    cbn [forallb] in Ha. apply andb_true_iff in Ha as [Hc Hr]. exists c, r. repeat split; assumption.
Qed.

Lemma parse_display_u64 n : n <= U64_MAX -> parse_u64 (display_u64 n) = POk n.
Proof.
  intros Hn. destruct (display_u64_spec n) as (c & r & E & Hc & Hr & Hv). rewrite E.
  rewrite parse_u64_digits by assumption. rewrite parse_digits_ok; [now rewrite Hv| |now rewrite Hv].
  cbn [forallb]. now rewrite Hc, Hr.
Qed.

Lemma display_not_keyword n : bytes_eqb (display_u64 n) lit_empty = false /\ bytes_eqb (display_u64 n) lit_any = false /\
  bytes_eqb (display_u64 n) lit_exists = false.
Proof.
  destruct (display_u64_spec n) as (c & r & E & Hc & _). rewrite E.
  repeat split; apply digit_head_not_lit; try assumption; reflexivity.
Qed.

Lemma parse_display_ev e : wf_ev e -> parse_ev (display_ev e) = POk e.
Proof.
  destruct e as [| | |v]; cbn [wf_ev display_ev]; intros H; try reflexivity.
  unfold parse_ev. destruct (display_not_keyword v) as (-> & -> & ->). now rewrite parse_display_u64.
Qed.

Lemma parse_display_cv c : wf_cv c -> parse_cv (display_cv c) = POk c.
Proof.
  destruct c as [|v]; cbn [wf_cv display_cv]; intros H; try reflexivity.
  unfold parse_cv. destruct (display_not_keyword v) as (-> & _). now rewrite parse_display_u64.
Qed.

(** the other direction *)
Lemma nonzero_digit c : is_digit c = true -> Ascii.eqb c (byte_of_digit 0) = false -> dig c <> 0.
Proof.
  intros Hc Hz Hd. pose proof (is_digit_dig c Hc) as H. rewrite Hd in H. apply byte_of_digit_of_byte in H.
  rewrite H, Ascii.eqb_refl in Hz. discriminate.
Qed.

Definition no_leading_zero (s : list ascii) : Prop :=
  match s with [] => True | c :: _ => Ascii.eqb c (byte_of_digit 0) = false end.

Lemma dec_digits_of_val s : forallb is_digit s = true -> no_leading_zero s ->
  forall f, digits_val 0 s < 2 ^ N.of_nat f -> dec_digits f (digits_val 0 s) = s.
Proof.
  induction s as [|c l IH] using rev_ind; intros Hd Hz f Hf.
  - cbn. destruct f; reflexivity.
  - rewrite forallb_app in Hd. apply andb_true_iff in Hd as [Hl Hc]. cbn [forallb] in Hc. rewrite andb_true_r in Hc.
    rewrite digits_val_app in *. cbn [digits_val fold_left] in *. fold (digits_val 0 l) in *.
    pose proof (is_digit_dig c Hc) as Hdc. pose proof (digit_bounds _ _ Hdc) as [Hlt _].
    assert (Hzl : no_leading_zero l) by (destruct l; [exact I|exact Hz]).
    assert (Hnz : digits_val 0 l * 10 + dig c <> 0).
    { destruct l as [|x l'].
      - cbn. cbn in Hz. apply nonzero_digit; assumption.
      - cbn in Hz, Hl. apply andb_true_iff in Hl as [Hx _].
        pose proof (nonzero_digit x Hx Hz). 
        change (digits_val 0 (x :: l')) with (digits_val (0 * 10 + dig x) l').
        pose proof (digits_val_ge l' (0 * 10 + dig x)). lia. }
    destruct f as [|f]; [cbn in Hf; lia|].
    cbn [dec_digits]. destruct (N.eqb_spec (digits_val 0 l * 10 + dig c) 0); [contradiction|].
    assert (Hq : (digits_val 0 l * 10 + dig c) / 10 = digits_val 0 l).
    { pose proof (N.div_mod (digits_val 0 l * 10 + dig c) 10 ltac:(lia)).
      pose proof (N.mod_lt (digits_val 0 l * 10 + dig c) 10 ltac:(lia)). lia. }
    assert (Hr : (digits_val 0 l * 10 + dig c) mod 10 = dig c).
    { pose proof (N.div_mod (digits_val 0 l * 10 + dig c) 10 ltac:(lia)).
      pose proof (N.mod_lt (digits_val 0 l * 10 + dig c) 10 ltac:(lia)). lia. }
    rewrite Hq, Hr, (byte_of_digit_of_byte _ _ Hdc). f_equal.
    apply IH; try assumption.
    rewrite Nat2N.inj_succ, N.pow_succ_r' in Hf. lia.
Qed.

Lemma display_of_canonical s : canonical_number s = true -> display_u64 (digits_val 0 s) = s.
Proof.
  unfold canonical_number. destruct s as [|c r]; [discriminate|].
  destruct r as [|c2 r].
  - intros Hc. pose proof (is_digit_dig c Hc) as Hdc. cbn. unfold display_u64.
    destruct (N.eqb_spec (dig c) 0) as [Hz|Hnz].
    + rewrite Hz in Hdc. now rewrite (byte_of_digit_of_byte _ _ Hdc).
    + assert (E : dec_digits (N.to_nat (N.size (dig c))) (digits_val 0 [c]) = [c]).
      { apply dec_digits_of_val.
        - cbn. now rewrite Hc.
        - unfold no_leading_zero. destruct (Ascii.eqb_spec c (byte_of_digit 0)) as [->|]; [|reflexivity]. now elim Hnz.
        - cbn. apply size_fuel. }
      exact E.
  - intros H. apply andb_true_iff in H as [H Hr]. apply andb_true_iff in H as [Hc Hz]. apply negb_true_iff in Hz.
    unfold display_u64.
    assert (Hnz : digits_val 0 (c :: c2 :: r) <> 0).
    { change (digits_val 0 (c :: c2 :: r)) with (digits_val (0 * 10 + dig c) (c2 :: r)).
      pose proof (digits_val_ge (c2 :: r) (0 * 10 + dig c)). pose proof (nonzero_digit c Hc Hz). lia. }
    destruct (N.eqb_spec (digits_val 0 (c :: c2 :: r)) 0); [contradiction|].
    apply dec_digits_of_val.
    + cbn [forallb]. now rewrite Hc.
    + exact Hz.
    + apply size_fuel.
Qed.

Lemma canonical_parse_u64 s n : canonical_number s = true -> parse_u64 s = POk n -> display_u64 n = s /\ n <= U64_MAX.
Proof.
  intros Hc Hp. pose proof (display_of_canonical s Hc) as Hd.
  assert (Hhd : exists c r, s = c :: r /\ is_digit c = true).
  { unfold canonical_number in Hc. destruct s as [|c [|c2 r]]; [discriminate| |].
    - now exists c, [].
    - apply andb_true_iff in Hc as [Hc _]. apply andb_true_iff in Hc as [Hc _]. now exists c, (c2 :: r). }
  destruct Hhd as (c & r & -> & Hdc).
  rewrite parse_u64_digits in Hp by assumption. apply parse_digits_val in Hp as (-> & _ & Hb).
  split; [assumption|]. apply Hb. unfold U64_MAX. lia.
Qed.

Lemma keyword_not_number s : canonical_number s = true ->
  bytes_eqb s lit_empty = false /\ bytes_eqb s lit_any = false /\ bytes_eqb s lit_exists = false.
Proof.
  unfold canonical_number. destruct s as [|c [|c2 r]]; [discriminate| |]; intros H.
  - repeat split; apply digit_head_not_lit; try assumption; reflexivity.
  - apply andb_true_iff in H as [H _]. apply andb_true_iff in H as [H _].
    repeat split; apply digit_head_not_lit; try assumption; reflexivity.
Qed.

Lemma display_parse_ev s e : canonical_ev s = true -> parse_ev s = POk e -> display_ev e = s.
Proof.
  unfold canonical_ev, parse_ev. intros Hc.
  destruct (bytes_eqb s lit_empty) eqn:E1; [apply bytes_eqb_eq in E1; intros [= <-]; now subst|].
  destruct (bytes_eqb s lit_any) eqn:E2; [apply bytes_eqb_eq in E2; intros [= <-]; now subst|].
  destruct (bytes_eqb s lit_exists) eqn:E3; [apply bytes_eqb_eq in E3; intros [= <-]; now subst|].
  cbn in Hc. destruct (parse_u64 s) as [n|] eqn:Ep; [|discriminate]. intros [= <-].
  cbn [display_ev]. now apply (canonical_parse_u64 s n).
Qed.

Lemma display_parse_cv s c : canonical_cv s = true -> parse_cv s = POk c -> display_cv c = s.
Proof.
  unfold canonical_cv, parse_cv. intros Hc.
  destruct (bytes_eqb s lit_empty) eqn:E1; [apply bytes_eqb_eq in E1; intros [= <-]; now subst|].
  cbn in Hc. destruct (parse_u64 s) as [n|] eqn:Ep; [|discriminate]. intros [= <-].
  cbn [display_cv]. now apply (canonical_parse_u64 s n).
Qed.

(** whatever parses is a well-formed value, and display always yields a canonical text *)
Lemma parse_u64_bound s n : parse_u64 s = POk n -> n <= U64_MAX.
Proof.
  unfold parse_u64. destruct s as [|c [|c2 r]]; [discriminate| |].
  - destruct (Ascii.eqb c PLUS); [discriminate|]. intros H. apply parse_digits_val in H as (_ & _ & H). apply H. unfold U64_MAX; lia.
  - destruct (Ascii.eqb c PLUS); intros H; apply parse_digits_val in H as (_ & _ & H); apply H; unfold U64_MAX; lia.
Qed.

Lemma parse_ev_wf s e : parse_ev s = POk e -> wf_ev e.
Proof.
  unfold parse_ev. destruct (bytes_eqb s lit_empty); [intros [= <-]; exact I|].
  destruct (bytes_eqb s lit_any); [intros [= <-]; exact I|].
  destruct (bytes_eqb s lit_exists); [intros [= <-]; exact I|].
  destruct (parse_u64 s) as [n|] eqn:E; [|discriminate]. intros [= <-]. cbn. now apply (parse_u64_bound s).
Qed.

Lemma parse_cv_wf s c : parse_cv s = POk c -> wf_cv c.
Proof.
  unfold parse_cv. destruct (bytes_eqb s lit_empty); [intros [= <-]; exact I|].
  destruct (parse_u64 s) as [n|] eqn:E; [|discriminate]. intros [= <-]. cbn. now apply (parse_u64_bound s).
Qed.

Lemma dec_digits_zero f : dec_digits f 0 = [].
Proof. destruct f; reflexivity. Qed.

Lemma dec_digits_head f : forall n c r, n < 2 ^ N.of_nat f -> dec_digits f n = c :: r ->
  Ascii.eqb c (byte_of_digit 0) = false.
Proof.
  induction f as [|f IH]; intros n c r Hn; [discriminate|].
  cbn [dec_digits]. destruct (N.eqb_spec n 0) as [->|Hne]; [discriminate|].
  rewrite Nat2N.inj_succ, N.pow_succ_r' in Hn.
  pose proof (N.div_mod n 10 ltac:(lia)) as Hdm. pose proof (N.mod_lt n 10 ltac:(lia)) as Hm.
  assert (Hq : n / 10 < 2 ^ N.of_nat f) by lia.
  destruct (N.eqb_spec (n / 10) 0) as [Hz|Hnz].
  - rewrite Hz, dec_digits_zero. cbn [app]. intros [= <- <-].
    destruct (Ascii.eqb_spec (byte_of_digit (n mod 10)) (byte_of_digit 0)) as [E|]; [|reflexivity].
    apply (f_equal digit_of_byte) in E. rewrite !digit_of_byte_of_digit in E by lia. injection E as E. lia.
  - destruct (dec_digits_spec f _ Hq) as (_ & _ & Hnn). specialize (Hnn Hnz).
    destruct (dec_digits f (n / 10)) as [|c' r'] eqn:E; [contradiction|].
    cbn [app]. intros [= <- _]. apply (IH _ _ _ Hq E).
Qed.

Lemma display_u64_canonical n : canonical_number (display_u64 n) = true.
Proof.
  unfold display_u64. destruct (N.eqb_spec n 0) as [->|Hne]; [reflexivity|].
  destruct (dec_digits_spec _ n (size_fuel n)) as (Ha & Hv & Hnn).
  pose proof (dec_digits_head (N.to_nat (N.size n)) n) as Hh. specialize (Hnn Hne).
  destruct (dec_digits (N.to_nat (N.size n)) n) as [|c r] eqn:E; [contradiction|].
  specialize (Hh c r (size_fuel n) eq_refl).
  cbn [forallb] in Ha. apply andb_true_iff in Ha as [Hc Hr].
  unfold canonical_number. destruct r as [|c2 r]; [assumption|].
  now rewrite Hc, Hh, Hr.
Qed.

Lemma display_ev_canonical e : canonical_ev (display_ev e) = true.
Proof.
  destruct e as [| | |v]; try reflexivity. unfold canonical_ev. cbn [display_ev].
  rewrite display_u64_canonical. now rewrite !orb_true_r.
Qed.

Lemma display_cv_canonical c : canonical_cv (display_cv c) = true.
Proof.
  destruct c as [|v]; try reflexivity. unfold canonical_cv. cbn [display_cv].
  rewrite display_u64_canonical. now rewrite !orb_true_r.
Qed.

(** what else the parser tolerates (so display . parse is the identity only on canonical texts) *)
Lemma parse_tolerates_plus_and_zeros c r :
  parse_u64 (PLUS :: c :: r) = parse_digits 0 (c :: r) /\
  parse_digits 0 (byte_of_digit 0 :: c :: r) = parse_digits 0 (c :: r).
Proof. split; reflexivity. Qed.
