(** C10/C11 proofs, part 1: facts about one node's log (chain, count updates, [keeps]). *)
From Coq Require Import NArith List Bool Lia.
From SV Require Import Model.Replication.
Import ListNotations.
Open Scope N_scope.

(* ------------------------------------------------------------------ logs *)
Fixpoint chain (l : log) : Prop :=
  match l with [] => True | e :: t => en_first e = log_next t /\ 1 <= en_nev e /\ chain t end.

Lemma chain_below : forall l e, chain l -> In e l -> en_first e + en_nev e <= log_next l.
Proof.
  induction l as [|a t IH]; intros e Hc Hin; [destruct Hin|].
  cbn [chain] in Hc. destruct Hc as (Hf & Hk & Hc). cbn [log_next].
  destruct Hin as [->|Hin]; [lia|]. specialize (IH e Hc Hin). lia.
Qed.

Lemma covers_spec e x : covers e x = true <-> en_first e <= x < en_first e + en_nev e.
Proof. unfold covers. rewrite andb_true_iff, N.leb_le, N.ltb_lt. tauto. Qed.

Lemma chain_cover_unique : forall l e1 e2 x, chain l -> In e1 l -> In e2 l ->
  covers e1 x = true -> covers e2 x = true -> e1 = e2.
Proof.
  induction l as [|a t IH]; intros e1 e2 x Hc H1 H2 C1 C2; [destruct H1|].
  pose proof Hc as Hc0. cbn [chain] in Hc. destruct Hc as (Hf & Hk & Hc).
  apply covers_spec in C1. apply covers_spec in C2.
  destruct H1 as [<-|H1], H2 as [<-|H2]; auto.
  - pose proof (chain_below t e2 Hc H2). lia.
  - pose proof (chain_below t e1 Hc H1). lia.
  - apply (IH e1 e2 x); auto; apply covers_spec; lia.
Qed.

Lemma chain_append l T k off c ex ok l' : chain l -> db_append l ex ok T k off c = Some l' ->
  l' = mk_ent T (log_next l) k off c :: l /\ chain l' /\ 1 <= k /\ exp_ok ex l = true /\ ok = true.
Proof.
  unfold db_append. intros Hc H.
  destruct ok; cbn [andb] in H; [|discriminate].
  destruct (1 <=? k) eqn:Hk; cbn [andb] in H; [|discriminate].
  destruct (exp_ok ex l) eqn:He; [|discriminate]. inversion H; subst l'.
  apply N.leb_le in Hk. repeat split; auto. all: cbn [chain en_first en_nev]; auto.
Qed.

(* the entry as the log holds it, whatever its count *)
Definition same_ent (a b : ent) : Prop :=
  en_tx a = en_tx b /\ en_first a = en_first b /\ en_nev a = en_nev b /\ en_off a = en_off b.
Lemma same_ent_refl a : same_ent a a. Proof. repeat split. Qed.
Lemma same_ent_trans a b c : same_ent a b -> same_ent b c -> same_ent a c.
Proof. unfold same_ent. intuition congruence. Qed.
Lemma same_setcnt e c : same_ent e (ent_setcnt e c). Proof. repeat split. Qed.
Lemma same_ent_is a b T : same_ent a b -> ent_is T a = ent_is T b.
Proof. intros (H1 & _ & _ & H4). unfold ent_is. rewrite H1, H4. reflexivity. Qed.

Lemma log_next_setcnt l T c : log_next (db_setcnt l T c) = log_next l.
Proof. destruct l as [|e t]; cbn; [reflexivity|]. destruct (ent_is T e); reflexivity. Qed.

Lemma chain_setcnt : forall l T c, chain l -> chain (db_setcnt l T c).
Proof.
  induction l as [|e t IH]; intros T c Hc; cbn; auto.
  cbn [chain] in Hc. destruct Hc as (Hf & Hk & Hc).
  destruct (ent_is T e); cbn [chain]; [repeat split; auto|].
  rewrite log_next_setcnt. repeat split; auto.
Qed.

(* what a count update does to the entries *)
Lemma setcnt_in_old : forall l T c e, In e l ->
  exists e', In e' (db_setcnt l T c) /\ same_ent e e' /\ (en_cnt e' = en_cnt e \/ (ent_is T e = true /\ en_cnt e' = c)).
Proof.
  induction l as [|a t IH]; intros T c e Hin; [destruct Hin|]. cbn [db_setcnt].
  destruct (ent_is T a) eqn:Ha.
  - destruct Hin as [<-|Hin].
    + exists (ent_setcnt a c). split; [left; reflexivity|]. split; [apply same_setcnt|]. right. auto.
    + exists e. split; [right; exact Hin|]. split; [apply same_ent_refl|]. left; reflexivity.
  - destruct Hin as [<-|Hin].
    + exists a. split; [left; reflexivity|]. split; [apply same_ent_refl|]. left; reflexivity.
    + destruct (IH T c e Hin) as (e' & H1 & H2 & H3). exists e'. split; [right; exact H1|]. auto.
Qed.

Lemma setcnt_in_new : forall l T c e', In e' (db_setcnt l T c) ->
  exists e, In e l /\ same_ent e e' /\ (en_cnt e' = en_cnt e \/ (ent_is T e = true /\ en_cnt e' = c)).
Proof.
  induction l as [|a t IH]; intros T c e' Hin; [destruct Hin|]. cbn [db_setcnt] in Hin.
  destruct (ent_is T a) eqn:Ha.
  - destruct Hin as [<-|Hin].
    + exists a. split; [left; reflexivity|]. split; [apply same_setcnt|]. right. auto.
    + exists e'. split; [right; exact Hin|]. split; [apply same_ent_refl|]. left; reflexivity.
  - destruct Hin as [<-|Hin].
    + exists a. split; [left; reflexivity|]. split; [apply same_ent_refl|]. left; reflexivity.
    + destruct (IH T c e' Hin) as (e & H1 & H2 & H3). exists e. split; [right; exact H1|]. auto.
Qed.

(* the first whole entry of T gets the count *)
Lemma setcnt_hits : forall l T c, holds_whole l T = true ->
  exists e', In e' (db_setcnt l T c) /\ ent_is T e' = true /\ en_cnt e' = c /\
             exists e, In e l /\ same_ent e e'.
Proof.
  induction l as [|a t IH]; intros T c H; [discriminate|]. cbn [holds_whole existsb] in H. cbn [db_setcnt].
  destruct (ent_is T a) eqn:Ha.
  - exists (ent_setcnt a c). split; [left; reflexivity|]. split; [rewrite <- (same_ent_is a _ T (same_setcnt a c)); exact Ha|].
    split; [reflexivity|]. exists a. split; [left; reflexivity|apply same_setcnt].
  - cbn [orb] in H. destruct (IH T c H) as (e' & H1 & H2 & H3 & e & H4 & H5).
    exists e'. split; [right; exact H1|]. split; auto. split; auto. exists e. split; [right; exact H4|exact H5].
Qed.

Lemma holds_whole_spec l T : holds_whole l T = true <-> exists e, In e l /\ ent_is T e = true.
Proof. unfold holds_whole. rewrite existsb_exists. tauto. Qed.

(* [keeps q l l']: every entry stays where it is, and a quorum count stays a quorum count *)
Definition keeps (q : N) (l l' : log) : Prop :=
  forall e, In e l -> exists e', In e' l' /\ same_ent e e' /\ (q <= en_cnt e -> q <= en_cnt e').
Lemma keeps_refl q l : keeps q l l.
Proof. intros e H. exists e. split; auto. split; [apply same_ent_refl|auto]. Qed.
Lemma keeps_trans q l1 l2 l3 : keeps q l1 l2 -> keeps q l2 l3 -> keeps q l1 l3.
Proof.
  intros H1 H2 e He. destruct (H1 e He) as (e' & A & B & C). destruct (H2 e' A) as (e'' & A' & B' & C').
  exists e''. split; auto. split; [eapply same_ent_trans; eauto|auto].
Qed.
Lemma keeps_cons q l e : keeps q l (e :: l).
Proof. intros a H. exists a. split; [right; exact H|]. split; [apply same_ent_refl|auto]. Qed.
Lemma keeps_setcnt q l T c : q <= c -> keeps q l (db_setcnt l T c).
Proof.
  intros Hc e He. destruct (setcnt_in_old l T c e He) as (e' & A & B & [C|[_ C]]); exists e'; repeat split; auto; try apply B; intros; lia.
Qed.
Lemma keeps_holds q l l' T : keeps q l l' -> holds_whole l T = true -> holds_whole l' T = true.
Proof.
  intros K H. apply holds_whole_spec in H. destruct H as (e & He & Hi). destruct (K e He) as (e' & A & B & _).
  apply holds_whole_spec. exists e'. split; auto. rewrite <- (same_ent_is e e' T B). exact Hi.
Qed.
