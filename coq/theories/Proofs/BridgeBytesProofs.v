(** Bridge L3 -> L1 (bytes -> records) for C05: a crash that keeps ANY byte prefix of what was appended to the
    live segment file (the rest of the pre-allocated file being zeros) is, after `Writer::open`'s recovery
    scan, the same as a crash that keeps a whole number of records — provided the cut record's remaining
    prefix followed by zeros is not itself accepted by the decoder ([cut_detected]).

    * [crc_accepts v]: the exact condition (bytes and CRC-32 only, no decoder, no zstd) under which the
      decoder does NOT stop at the byte string [v]; [cut_detected v := ~ crc_accepts v];
      [detected_iff]: [cut_detected v] <-> decode_view v is an error other than EIo (what ends the scan).
    * [byte_cut_is_record_cut] / [any_byte_cut_is_record_cut]: the recovery scan returns exactly the records
      before the cut one and the write offset right after them.
    * deterministic classes of [cut_detected]: [cut_head_detected] (nothing of the record left / head zero /
      the file ends inside the claimed extent / claimed length below H), [cut_burst_detected] (the lost
      bytes are a <= 32-bit burst: uses the CRC burst theorem), [cut_short_tail_detected] (the lost bytes
      are non-zero within at most 4 consecutive bytes, e.g. any cut inside the last 4 bytes of a record
      whose lost bytes are not all zero).
    * [cut_zero_tail_keeps_record]: when the lost bytes are all zero the record is intact on disk: the scan
      keeps it as well (a record cut that keeps one more record).
    * what is NOT covered is a genuine CRC-32 coincidence: [wit_coincidence], [wit_coincidence_head].
    * L1: [byte_crash_is_record_crash]: with the live segment's records encoded by [enc_rec] / read back by
      [dec_rec] (section variables; premise [enc_ok_on]: well-typed appends, read back to the record) the store
      rebuilt from the scanned bytes is [Store.crash s keep].
    Nothing is assumed about zstd beyond [codec_ok]. *)
From Coq Require Import NArith List Lia Bool ZArith Znat.
From Coq Require Import ZifyBool ZifyNat ZifyN.
From SV Require Import Model.Crc32 Model.Seglog Proofs.Crc32Proofs Proofs.SeglogProofs.
From SV Require Import Model.Store Proofs.StoreInv Proofs.StoreSimProofs.
Import ListNotations.
Open Scope N_scope.
Ltac Zify.zify_post_hook ::= Z.div_mod_to_equations.

(** * zeros *)
Lemma zerosN_repeat n : zerosN n = repeat 0 (N.to_nat n).
Proof.
  unfold zerosN. induction n using N.peano_ind; [reflexivity|].
  rewrite N.iter_succ, N2Nat.inj_succ, IHn. reflexivity.
Qed.
Lemma zerosN_add a b : zerosN (a + b) = zerosN a ++ zerosN b.
Proof. rewrite !zerosN_repeat, N2Nat.inj_add. apply repeat_app. Qed.
Lemma all_zero_zerosN n : all_zero (zerosN n) = true.
Proof. rewrite zerosN_repeat. unfold all_zero. induction (N.to_nat n); [reflexivity|cbn; assumption]. Qed.
Lemma all_bytes_zerosN n : all_bytes (zerosN n).
Proof. rewrite zerosN_repeat. unfold all_bytes. induction (N.to_nat n); constructor; [unfold is_byte; lia|assumption]. Qed.
Lemma all_zero_is_zeros l : all_zero l = true -> l = zerosN (lenN l).
Proof.
  rewrite zerosN_repeat, lenN_length, Nat2N.id. unfold all_zero.
  induction l as [|x l IH]; [reflexivity|]. cbn [forallb length repeat]. intros Hx. apply andb_prop in Hx as [Hx Hl].
  apply N.eqb_eq in Hx. subst x. rewrite <- IH by assumption. reflexivity.
Qed.
Lemma firstn_repeat' {A} (x : A) : forall k n, firstn k (repeat x n) = repeat x (Nat.min k n).
Proof. induction k as [|k IH]; intros [|n]; try reflexivity. cbn [firstn repeat Nat.min]. rewrite IH. reflexivity. Qed.
Lemma takeN_zerosN k n : takeN k (zerosN n) = zerosN (N.min k n).
Proof.
  rewrite takeN_firstn, !zerosN_repeat, firstn_repeat'. f_equal. lia.
Qed.
Lemma length_zerosN n : length (zerosN n) = N.to_nat n.
Proof. rewrite zerosN_repeat. apply repeat_length. Qed.
Lemma all_zero_takeN k l : all_zero l = true -> all_zero (takeN k l) = true.
Proof. intros Hl. rewrite <- (takeN_dropN k l), all_zero_app in Hl. apply andb_prop in Hl. tauto. Qed.

Lemma xor_bytes_zeros_r : forall l, xor_bytes l (zerosN (lenN l)) = l.
Proof.
  intros l. rewrite zerosN_repeat, lenN_length, Nat2N.id.
  induction l as [|x l IH]; [reflexivity|]. cbn [length repeat xor_bytes]. rewrite N.lxor_0_r, IH. reflexivity.
Qed.
Lemma xor_bytes_self : forall l, xor_bytes l l = zerosN (lenN l).
Proof.
  intros l. rewrite zerosN_repeat, lenN_length, Nat2N.id.
  induction l as [|x l IH]; [reflexivity|]. cbn [length repeat xor_bytes]. rewrite N.lxor_nilpotent, IH. reflexivity.
Qed.

(** * bit patterns of short non-zero byte strings are bursts *)
Lemma bytes_bits_app a b : bytes_bits (a ++ b) = bytes_bits a ++ bytes_bits b.
Proof. unfold bytes_bits. apply flat_map_app. Qed.
Lemma bytes_bits_zerosN n : bytes_bits (zerosN n) = repeat false (8 * N.to_nat n).
Proof.
  rewrite zerosN_repeat. induction (N.to_nat n) as [|m IH]; [reflexivity|].
  cbn [repeat]. change (0 :: repeat 0 m) with ([0] ++ repeat 0 m). rewrite bytes_bits_app, IH.
  replace (8 * S m)%nat with (8 + 8 * m)%nat by lia. rewrite repeat_app. reflexivity.
Qed.
Lemma bits_of_none : forall k b, b < 2 ^ N.of_nat k -> existsb id (bits_of k b) = false -> b = 0.
Proof.
  induction k as [|k IH]; intros b Hb Hx.
  - cbn in Hb. lia.
  - cbn [bits_of existsb] in Hx. apply orb_false_elim in Hx as [H0 Hr]. unfold id in H0.
    assert (Hs : N.shiftr b 1 = 0).
    { apply IH; [|assumption]. rewrite N.shiftr_div_pow2. change (2^1) with 2.
      rewrite Nat2N.inj_succ, N.pow_succ_r' in Hb. apply N.div_lt_upper_bound; lia. }
    rewrite N.shiftr_div_pow2 in Hs. change (2^1) with 2 in Hs.
    rewrite N.bit0_odd in H0. pose proof (N.div_mod b 2 ltac:(lia)) as Hd.
    rewrite Hs in Hd. rewrite <- N.bit0_mod, N.bit0_odd, H0 in Hd. cbn in Hd. lia.
Qed.
Lemma bytes_bits_some : forall u, all_bytes u -> all_zero u = false -> existsb id (bytes_bits u) = true.
Proof.
  induction u as [|x u IH]; intros Hb Hz; [discriminate|].
  change (x :: u) with ([x] ++ u). rewrite bytes_bits_app, existsb_app.
  inversion Hb as [|? ? Hx Hu]; subst. unfold all_zero in Hz. cbn [forallb] in Hz.
  destruct (N.eqb_spec 0 x) as [<-|Hne].
  - cbn [andb] in Hz. rewrite (IH Hu Hz). apply orb_true_r.
  - destruct (existsb id (bytes_bits [x])) eqn:E; [reflexivity|]. exfalso. apply Hne. symmetry.
    unfold bytes_bits in E. cbn [flat_map] in E. rewrite app_nil_r in E. unfold byte_bits in E.
    apply (bits_of_none 8); [exact Hx|exact E].
Qed.
Lemma first_true : forall l, existsb id l = true -> exists a rest, l = repeat false a ++ true :: rest /\ (length rest < length l)%nat.
Proof.
  induction l as [|b l IH]; [discriminate|]. intros Hx. destruct b.
  - exists 0%nat, l. split; [reflexivity|cbn; lia].
  - cbn [existsb id orb] in Hx. change (id false) with false in Hx. cbn [orb] in Hx.
    destruct (IH Hx) as (a & rest & -> & Hl). exists (S a), rest. split; [reflexivity|].
    cbn [length] in *. lia.
Qed.
Lemma burst32_short a u b : all_bytes u -> lenN u <= 4 -> all_zero u = false -> burst32 (zerosN a ++ u ++ zerosN b).
Proof.
  intros Hb Hl Hz. unfold burst32. rewrite !bytes_bits_app, !bytes_bits_zerosN.
  destruct (first_true _ (bytes_bits_some u Hb Hz)) as (p & rest & E & Hr).
  rewrite bytes_bits_length in Hr. rewrite lenN_length in Hl.
  unfold burst32_bits. exists (8 * N.to_nat a + p)%nat, rest, (8 * N.to_nat b)%nat. split; [|lia].
  rewrite E, repeat_app, <- !app_assoc. reflexivity.
Qed.

(** * the exact acceptance condition of the decoder *)
Section Bridge.
Variable H : N.
Variable compress : list N -> list N.
Variable decompress : list N -> option (list N).
Local Notation stored_record := (Seglog.stored_record H compress).
Local Notation stored_len := (Seglog.stored_len H compress).
Local Notation wf_rec := (Seglog.wf_rec H compress).
Local Notation stored_all := (SeglogProofs.stored_all H compress).
Local Notation expected_all := (SeglogProofs.expected_all H compress).
Local Notation expected_rec := (SeglogProofs.expected_rec H compress).
Local Notation decode_view := (Seglog.decode_view H decompress).

(* the payload length the first four bytes claim *)
Definition claimed_plen (v : list N) : N := of_le32 (sliceN v 0 4) mod COMPRESSION_FLAG.

(* [v] holds a head that is not the truncation marker, claims an extent that lies within [v] and is at least a
   header long, and its CRC field equals the CRC-32 of the length bytes and the claimed extent *)
Definition crc_accepts (v : list N) : Prop :=
  RECORD_HEAD <= lenN v /\ all_zero (sliceN v 0 RECORD_HEAD) = false /\
  RECORD_HEAD + claimed_plen v <= lenN v /\ H <= claimed_plen v /\
  of_le32 (sliceN v 4 4) = crc32 (sliceN v 0 4 ++ sliceN v RECORD_HEAD (claimed_plen v)).

Definition cut_detected (v : list N) : Prop := ~ crc_accepts v.

(* [e] ends Writer::open's scan: EOob, ETrunc, ECrc *)
Definition stops_scan (v : list N) : Prop := exists e, decode_view v = RErr e /\ e <> EIo.

Lemma crc_accepts_decode v : crc_accepts v ->
  decode_view v = check_spec decompress (sliceN v 0 4) (of_le32 (sliceN v 4 4)) (COMPRESSION_FLAG <=? of_le32 (sliceN v 0 4))
                    (claimed_plen v) (takeN H (sliceN v RECORD_HEAD (claimed_plen v))) (dropN H (sliceN v RECORD_HEAD (claimed_plen v)))
  /\ of_le32 (sliceN v 4 4) = calculate_crc (sliceN v 0 4) (takeN H (sliceN v RECORD_HEAD (claimed_plen v))) (dropN H (sliceN v RECORD_HEAD (claimed_plen v))).
Proof.
  unfold crc_accepts, claimed_plen. intros (H8 & Hz & Hl & HH & Hc). split.
  - unfold Seglog.decode_view.
    destruct (N.ltb_spec (lenN v) RECORD_HEAD); [lia|]. rewrite Hz.
    destruct (N.ltb_spec (lenN v) (RECORD_HEAD + of_le32 (sliceN v 0 4) mod COMPRESSION_FLAG)); [lia|].
    destruct (N.ltb_spec (of_le32 (sliceN v 0 4) mod COMPRESSION_FLAG) H); [lia|]. reflexivity.
  - rewrite calculate_crc_eq, takeN_dropN. exact Hc.
Qed.

(** the decoder stops the scan at [v] exactly when [v] is not CRC-accepted — whatever zstd does *)
Theorem detected_iff v : cut_detected v <-> stops_scan v.
Proof.
  unfold cut_detected, stops_scan. split.
  - intros Hn. unfold Seglog.decode_view.
    destruct (N.ltb_spec (lenN v) RECORD_HEAD); [eexists; split; [reflexivity|discriminate]|].
    destruct (all_zero (sliceN v 0 RECORD_HEAD)) eqn:Hz; [eexists; split; [reflexivity|discriminate]|].
    destruct (N.ltb_spec (lenN v) (RECORD_HEAD + of_le32 (sliceN v 0 4) mod COMPRESSION_FLAG)); [eexists; split; [reflexivity|discriminate]|].
    destruct (N.ltb_spec (of_le32 (sliceN v 0 4) mod COMPRESSION_FLAG) H); [eexists; split; [reflexivity|discriminate]|].
    unfold check_spec.
    destruct (N.eqb_spec (of_le32 (sliceN v 4 4))
               (calculate_crc (sliceN v 0 4)
                  (takeN H (sliceN v RECORD_HEAD (of_le32 (sliceN v 0 4) mod COMPRESSION_FLAG)))
                  (dropN H (sliceN v RECORD_HEAD (of_le32 (sliceN v 0 4) mod COMPRESSION_FLAG))))) as [E|E];
      [|eexists; split; [reflexivity|discriminate]].
    exfalso. apply Hn. unfold crc_accepts, claimed_plen. repeat split; try assumption.
    rewrite calculate_crc_eq, takeN_dropN in E. exact E.
  - intros (e & Hd & He) Ha. destruct (crc_accepts_decode v Ha) as (Hdv & Hc). rewrite Hdv in Hd.
    unfold check_spec in Hd. rewrite <- Hc, N.eqb_refl in Hd.
    destruct (COMPRESSION_FLAG <=? _); [|discriminate].
    destruct (_ <? 4); [injection Hd as <-; apply He; reflexivity|].
    destruct (decompress _); [discriminate|injection Hd as <-; apply He; reflexivity].
Qed.

(* every byte string is one or the other *)
Lemma detected_or_accepted v : cut_detected v \/ crc_accepts v.
Proof.
  unfold cut_detected, crc_accepts.
  destruct (N.le_gt_cases RECORD_HEAD (lenN v)); [|left; lia].
  destruct (all_zero (sliceN v 0 RECORD_HEAD)) eqn:Hz; [left; intros (_ & ? & _); discriminate|].
  destruct (N.le_gt_cases (RECORD_HEAD + claimed_plen v) (lenN v)); [|left; lia].
  destruct (N.le_gt_cases H (claimed_plen v)); [|left; lia].
  destruct (N.eq_dec (of_le32 (sliceN v 4 4)) (crc32 (sliceN v 0 4 ++ sliceN v RECORD_HEAD (claimed_plen v)))) as [E|E].
  - right. repeat split; assumption.
  - left. intros (_ & _ & _ & _ & E'). contradiction.
Qed.

(** * the recovery scan after a byte cut *)
Definition wf_all (rs : list (bool * list N * list N)) : Prop := Forall (fun '(c, h, d) => wf_rec c h d) rs.

(* the bytes of the live segment file after the crash: segment header [pre], the whole records [rs], the first
   [k] bytes of the record (c, h, d), then [z] zero bytes (the rest of the pre-allocated file) *)
Definition cut_file (pre : list N) (rs : list (bool * list N * list N)) (c : bool) (h d : list N) (k z : N) : list N :=
  pre ++ concat (stored_all rs) ++ takeN k (stored_record c h d) ++ zerosN z.

Theorem byte_cut_is_record_cut rs c h d pre k z :
  codec_ok compress decompress -> wf_all rs ->
  cut_detected (takeN k (stored_record c h d) ++ zerosN z) ->
  let file := cut_file pre rs c h d k z in
  let end_rs := lenN pre + lenN (concat (stored_all rs)) in
  writer_open_offset H decompress file (lenN pre) = ROk end_rs /\
  exists ra t, iter_all H decompress file (lenN file) ra_empty (lenN pre) =
               (ra, with_offsets (lenN pre) (expected_all rs), end_rs, t) /\ (t = TEnd \/ t = TErr ECrc).
Proof.
  intros Hc Hwf Hdet file end_rs. apply detected_iff in Hdet. destruct Hdet as (e & Hd & He).
  split.
  - unfold file, cut_file, end_rs. eapply open_roundtrip; eassumption.
  - destruct (iter_roundtrip H compress decompress rs file (lenN file) ra_empty pre
                (takeN k (stored_record c h d) ++ zerosN z) e Hc Hwf) as (ra' & E); try assumption.
    + lia.
    + apply coherent_empty.
    + rewrite takeN_all by lia. reflexivity.
    + exists ra', (term_of e). split; [exact E|]. destruct e; cbn [term_of]; auto. contradiction.
Qed.

(** ** any byte position of the written bytes falls into exactly one record *)
Lemma concat_cut : forall (encs : list (list N)) b, b < lenN (concat encs) ->
  exists keep k e, nth_error encs keep = Some e /\ k < lenN e /\
                   takeN b (concat encs) = concat (firstn keep encs) ++ takeN k e /\
                   b = lenN (concat (firstn keep encs)) + k.
Proof.
  induction encs as [|e0 encs IH]; intros b Hb; [cbn in Hb; lia|].
  cbn [concat] in *. rewrite lenN_app in Hb.
  destruct (N.lt_ge_cases b (lenN e0)) as [Hlt|Hge].
  - exists 0%nat, b, e0. split; [reflexivity|]. split; [assumption|].
    cbn [firstn concat app]. split; [apply takeN_app_l; lia|reflexivity].
  - destruct (IH (b - lenN e0) ltac:(lia)) as (keep & k & e & Hn & Hk & E & Eb).
    exists (S keep), k, e. split; [exact Hn|]. split; [exact Hk|].
    rewrite takeN_app_r by assumption. rewrite E. cbn [firstn concat]. rewrite app_assoc.
    split; [reflexivity|]. rewrite lenN_app. lia.
Qed.

Lemma stored_all_map rs : stored_all rs = map (fun '(c, h, d) => stored_record c h d) rs.
Proof. induction rs as [|[[c h] d] rs IH]; [reflexivity|]. cbn [SeglogProofs.stored_all map]. rewrite IH. reflexivity. Qed.
Lemma stored_all_firstn n rs : stored_all (firstn n rs) = firstn n (stored_all rs).
Proof. rewrite !stored_all_map. symmetry. apply firstn_map. Qed.
Lemma wf_all_firstn n rs : wf_all rs -> wf_all (firstn n rs).
Proof.
  unfold wf_all. intros Hf. rewrite Forall_forall in *. intros x Hx. apply Hf.
  rewrite <- (firstn_skipn n rs). apply in_or_app. left. exact Hx.
Qed.

(** any byte prefix [b] of the bytes of the records [rs], then zeros: the cut falls into record number [keep]
    at its byte [k]; if what is left of that record is detected, recovery yields exactly the first [keep] records *)
Theorem any_byte_cut_is_record_cut rs pre b z :
  codec_ok compress decompress -> wf_all rs -> b < lenN (concat (stored_all rs)) ->
  exists keep c h d k,
    nth_error rs keep = Some (c, h, d) /\ k < lenN (stored_record c h d) /\
    b = lenN (concat (stored_all (firstn keep rs))) + k /\
    pre ++ takeN b (concat (stored_all rs)) ++ zerosN z = cut_file pre (firstn keep rs) c h d k z /\
    (cut_detected (takeN k (stored_record c h d) ++ zerosN z) ->
     let file := pre ++ takeN b (concat (stored_all rs)) ++ zerosN z in
     let end_keep := lenN pre + lenN (concat (stored_all (firstn keep rs))) in
     writer_open_offset H decompress file (lenN pre) = ROk end_keep /\
     exists ra t, iter_all H decompress file (lenN file) ra_empty (lenN pre) =
                  (ra, with_offsets (lenN pre) (expected_all (firstn keep rs)), end_keep, t) /\ (t = TEnd \/ t = TErr ECrc)).
Proof.
  intros Hc Hwf Hb. destruct (concat_cut (stored_all rs) b Hb) as (keep & k & e & Hn & Hk & E & Eb).
  rewrite stored_all_map, nth_error_map in Hn. destruct (nth_error rs keep) as [[[c h] d]|] eqn:Hr; [|discriminate].
  injection Hn as <-. exists keep, c, h, d, k. split; [exact Hr|]. split; [assumption|].
  split; [rewrite stored_all_firstn; exact Eb|].
  assert (Ef : pre ++ takeN b (concat (stored_all rs)) ++ zerosN z = cut_file pre (firstn keep rs) c h d k z).
  { unfold cut_file. rewrite E, stored_all_firstn, <- app_assoc. reflexivity. }
  split; [exact Ef|]. intros Hdet. cbv zeta. rewrite Ef.
  apply (byte_cut_is_record_cut (firstn keep rs) c h d pre k z Hc (wf_all_firstn keep rs Hwf) Hdet).
Qed.

(** * deterministic classes of detected cuts *)

(** (i) decided by the head alone, no CRC involved: fewer than 8 bytes left in the file, the truncation marker
    (8 zero bytes), the file ends inside the extent the length word claims, or the claimed length is below H *)
Theorem cut_head_detected v :
  lenN v < RECORD_HEAD \/ all_zero (sliceN v 0 RECORD_HEAD) = true \/
  lenN v < RECORD_HEAD + claimed_plen v \/ claimed_plen v < H -> cut_detected v.
Proof.
  unfold cut_detected, crc_accepts. intros [Hc|[Hc|[Hc|Hc]]] (H1 & H2 & H3 & H4 & _); try lia. congruence.
Qed.

(* nothing of the record reached the disk, or what did is all zero and shorter than the head *)
Corollary cut_zero_head_detected enc k z : k < RECORD_HEAD -> all_zero (takeN k enc) = true ->
  cut_detected (takeN k enc ++ zerosN z).
Proof.
  intros Hk Hz. apply cut_head_detected.
  destruct (N.lt_ge_cases (lenN (takeN k enc ++ zerosN z)) RECORD_HEAD) as [Hl|Hl]; [left; assumption|right; left].
  rewrite sliceN_0. apply all_zero_takeN. rewrite all_zero_app, Hz, all_zero_zerosN. reflexivity.
Qed.
Corollary cut_nothing_written_detected enc z : cut_detected (takeN 0 enc ++ zerosN z).
Proof. apply cut_zero_head_detected; [reflexivity|]. rewrite takeN_0. reflexivity. Qed.

(** the parts of a well-formed stored record *)
Lemma stored_parts c h d : codec_ok compress decompress -> wf_rec c h d ->
  exists A B P r, stored_record c h d = A ++ B ++ P /\ rec_bytes A B P /\
                  (forall rest, valid_at H decompress A B P rest r) /\ lenN P = H + lenN (fst (prepare_data H compress c d)).
Proof.
  intros [Hdc Hcb] Hwf. pose proof Hwf as (Hh & Hbh & Hbd & Hlt).
  pose proof (prepare_data_lw H compress decompress c d Hlt) as Hlw.
  assert (Hbf : all_bytes (fst (prepare_data H compress c d))).
  { unfold prepare_data. destruct (c && _); cbn [fst]; [|assumption].
    apply all_bytes_app. split; [apply le32_bytes|apply Hcb; assumption]. }
  pose proof (decode_stored H compress decompress Hdc Hcb c h d) as Hds.
  unfold Seglog.stored_record in *. destruct (prepare_data H compress c d) as [fd lw]. cbn [fst snd] in *.
  unfold encode_record in *. cbv zeta in *.
  exists (le32 lw), (le32 (calculate_crc (le32 lw) h fd)), (h ++ fd). eexists.
  assert (Hrb : rec_bytes (le32 lw) (le32 (calculate_crc (le32 lw) h fd)) (h ++ fd)).
  { unfold rec_bytes. repeat split; try apply le32_bytes.
    - apply all_bytes_app. split; assumption.
    - rewrite lenN_app, Hh, of_le32_le32', Hlw. unfold lw_of. change COMPRESSION_FLAG with 2147483648 in *.
      change (2^32) with 4294967296. destruct (is_compressed c d); lia. }
  split; [reflexivity|]. split; [exact Hrb|]. split.
  - intros rest. split; [exact Hrb|]. specialize (Hds rest Hwf).
    rewrite <- !app_assoc in Hds. rewrite <- !app_assoc. exact Hds.
  - rewrite lenN_app. lia.
Qed.

Lemma claimed_plen_head A B rest : lenN A = 4 -> claimed_plen (A ++ B ++ rest) = of_le32 A mod COMPRESSION_FLAG.
Proof. intros HA. unfold claimed_plen. rewrite slice_at0 by assumption. reflexivity. Qed.

(* the file ends inside the record (its length word is on disk) *)
Corollary cut_file_end_detected c h d k z : codec_ok compress decompress -> wf_rec c h d ->
  RECORD_HEAD <= k -> k + z < lenN (stored_record c h d) -> cut_detected (takeN k (stored_record c h d) ++ zerosN z).
Proof.
  intros Hc Hwf Hk Hz. destruct (stored_parts c h d Hc Hwf) as (A & B & P & r & E & (HA & HB & _ & _ & _ & HP) & _ & _).
  rewrite E in *. rewrite !lenN_app in Hz. change RECORD_HEAD with 8 in *.
  apply cut_head_detected. right. right. left.
  rewrite takeN_app_r by lia. rewrite takeN_app_r by lia. rewrite <- !app_assoc.
  rewrite claimed_plen_head by assumption. rewrite <- HP. rewrite !lenN_app, lenN_takeN, lenN_zerosN.
  change RECORD_HEAD with 8. lia.
Qed.

(** (ii) the bytes that did not reach the disk are a burst of at most 32 bits: by the CRC burst theorem.
    [lost] = the error pattern over the record's payload: zeros up to the cut, then the lost bytes *)
Theorem cut_burst_detected c h d k z : codec_ok compress decompress -> wf_rec c h d ->
  RECORD_HEAD <= k -> k <= lenN (stored_record c h d) ->
  burst32 (zerosN (k - RECORD_HEAD) ++ dropN k (stored_record c h d)) ->
  cut_detected (takeN k (stored_record c h d) ++ zerosN z).
Proof.
  intros Hc Hwf Hk Hke Hburst.
  destruct (N.lt_ge_cases (k + z) (lenN (stored_record c h d))) as [Hshort|Hlong].
  { apply cut_file_end_detected; assumption. }
  destruct (stored_parts c h d Hc Hwf) as (A & B & P & r & E & Hrb & Hv & _).
  pose proof Hrb as (HA & HB & HbA & HbB & HbP & HP).
  rewrite E in *. rewrite !lenN_app in *. change RECORD_HEAD with 8 in *.
  set (j := k - 8) in *.
  assert (Et : takeN k (A ++ B ++ P) = A ++ B ++ takeN j P).
  { rewrite takeN_app_r by lia. rewrite takeN_app_r by lia. do 2 f_equal. unfold j. f_equal. lia. }
  assert (Ed : dropN k (A ++ B ++ P) = dropN j P).
  { rewrite dropN_app_r by lia. rewrite dropN_app_r by lia. unfold j. f_equal. lia. }
  rewrite Et, Ed in *. set (e := zerosN j ++ dropN j P) in *.
  set (m := lenN P - j). replace z with (m + (z - m)) by (unfold m, j; lia). rewrite zerosN_add.
  assert (Ex : xor_bytes P e = takeN j P ++ zerosN m).
  { rewrite <- (takeN_dropN j P) at 1. unfold e.
    rewrite xor_bytes_app by (rewrite length_zerosN, <- (Nat2N.id (length (takeN j P))), <- lenN_length, lenN_takeN; f_equal; unfold j; lia).
    replace (zerosN j) with (zerosN (lenN (takeN j P))) by (rewrite lenN_takeN; f_equal; unfold j; lia).
    rewrite xor_bytes_zeros_r, xor_bytes_self, lenN_dropN. reflexivity. }
  apply detected_iff. exists ECrc. split; [|discriminate].
  replace ((A ++ B ++ takeN j P) ++ zerosN m ++ zerosN (z - m)) with (A ++ B ++ xor_bytes P e ++ zerosN (z - m))
    by (rewrite Ex, <- !app_assoc; reflexivity).
  apply (burst_in_payload_detected H compress decompress A B P (zerosN (z - m)) r e (Hv _)).
  - unfold e. apply all_bytes_app. split; [apply all_bytes_zerosN|apply all_bytes_dropN; assumption].
  - unfold e. rewrite app_length, length_zerosN. apply Nat2N.inj. rewrite Nat2N.inj_add, N2Nat.id, <- !lenN_length, lenN_dropN.
    unfold j. lia.
  - exact Hburst.
Qed.

(* in particular: the lost bytes are non-zero within at most four consecutive bytes (then zeros) — e.g. every cut
   inside the last four bytes of a record, unless the lost bytes are all zero *)
Corollary cut_short_tail_detected c h d k z u m : codec_ok compress decompress -> wf_rec c h d ->
  RECORD_HEAD <= k -> k <= lenN (stored_record c h d) ->
  dropN k (stored_record c h d) = u ++ zerosN m -> lenN u <= 4 -> all_zero u = false ->
  cut_detected (takeN k (stored_record c h d) ++ zerosN z).
Proof.
  intros Hc Hwf Hk Hke Hd Hu Hz. apply cut_burst_detected; try assumption. rewrite Hd.
  apply burst32_short; try assumption.
  destruct (stored_parts c h d Hc Hwf) as (A & B & P & r & E & (_ & _ & HbA & HbB & HbP & _) & _ & _).
  assert (Hb : all_bytes (dropN k (stored_record c h d))).
  { apply all_bytes_dropN. rewrite E. apply all_bytes_app. split; [assumption|]. apply all_bytes_app. split; assumption. }
  rewrite Hd in Hb. apply all_bytes_app in Hb. tauto.
Qed.

(** (iii) the lost bytes are all zero: the record is intact on disk, and recovery keeps it as well *)
Lemma cut_zero_tail_intact enc k z : all_zero (dropN k enc) = true -> lenN enc - k <= z ->
  takeN k enc ++ zerosN z = enc ++ zerosN (z - (lenN enc - k)).
Proof.
  intros Hz Hl. rewrite <- (takeN_dropN k enc) at 2. rewrite (all_zero_is_zeros _ Hz), lenN_dropN.
  rewrite <- app_assoc, <- zerosN_add. do 2 f_equal. lia.
Qed.

Lemma zeros_stop z : stops_scan (zerosN z).
Proof.
  apply detected_iff. replace (zerosN z) with (takeN 0 (@nil N) ++ zerosN z) by reflexivity.
  apply cut_nothing_written_detected.
Qed.

Lemma stored_all_app a b : stored_all (a ++ b) = stored_all a ++ stored_all b.
Proof. rewrite !stored_all_map. apply map_app. Qed.
Lemma expected_all_app a b : expected_all (a ++ b) = expected_all a ++ expected_all b.
Proof.
  induction a as [|[[c h] d] a IH]; [reflexivity|]. cbn [app SeglogProofs.expected_all]. rewrite IH. reflexivity.
Qed.

Theorem cut_zero_tail_keeps_record rs c h d pre k z :
  codec_ok compress decompress -> wf_all rs -> wf_rec c h d ->
  all_zero (dropN k (stored_record c h d)) = true -> lenN (stored_record c h d) - k <= z ->
  let file := cut_file pre rs c h d k z in
  let end_all := lenN pre + lenN (concat (stored_all (rs ++ [(c, h, d)]))) in
  writer_open_offset H decompress file (lenN pre) = ROk end_all /\
  exists ra, iter_all H decompress file (lenN file) ra_empty (lenN pre) =
             (ra, with_offsets (lenN pre) (expected_all (rs ++ [(c, h, d)])), end_all, TEnd).
Proof.
  intros Hc Hwf Hwf1 Hz Hl file end_all.
  assert (Hwf' : wf_all (rs ++ [(c, h, d)])) by (apply Forall_app; split; [assumption|constructor; [assumption|constructor]]).
  assert (Ef : file = pre ++ concat (stored_all (rs ++ [(c, h, d)])) ++ zerosN (z - (lenN (stored_record c h d) - k))).
  { unfold file, cut_file. rewrite cut_zero_tail_intact by assumption.
    rewrite stored_all_app, concat_app. cbn [SeglogProofs.stored_all concat]. rewrite app_nil_r, <- !app_assoc. reflexivity. }
  destruct (zeros_stop (z - (lenN (stored_record c h d) - k))) as (e & Hd & He).
  split.
  - rewrite Ef. unfold end_all. eapply open_roundtrip; eassumption.
  - destruct (iter_roundtrip H compress decompress (rs ++ [(c, h, d)]) file (lenN file) ra_empty pre
                (zerosN (z - (lenN (stored_record c h d) - k))) e Hc Hwf') as (ra' & E).
    + lia.
    + apply coherent_empty.
    + rewrite takeN_all by lia. exact Ef.
    + exact Hd.
    + exists ra'. rewrite E. do 2 f_equal.
      revert Hd. unfold Seglog.decode_view. destruct (_ <? _); [intros [= <-]; reflexivity|].
      rewrite sliceN_0, all_zero_takeN by apply all_zero_zerosN. intros [= <-]. reflexivity.
Qed.

End Bridge.

(** * L1: the store rebuilt from the scanned bytes is a record-granularity crash of Model/Store.v *)
Section BridgeL1.
Variable H : N.
Variable compress : list N -> list N.
Variable decompress : list N -> option (list N).
Local Notation stored_record := (Seglog.stored_record H compress).
Local Notation wf_rec := (Seglog.wf_rec H compress).
Local Notation stored_all := (SeglogProofs.stored_all H compress).
Local Notation expected_all := (SeglogProofs.expected_all H compress).
Local Notation expected_rec := (SeglogProofs.expected_rec H compress).

(* how the storage engine turns an L1 record into a seglog append (compression setting, the H header bytes, the
   bincode data) and how hydration reads a seglog record back: NOT modelled, only [enc_ok_on] below is used *)
Variable enc_rec : Store.rec -> bool * list N * list N.
Variable dec_rec : rrec -> option Store.rec.
Definition wf_enc (x : bool * list N * list N) : Prop := let '(c, h, d) := x in wf_rec c h d.
Definition exp_enc (x : bool * list N * list N) : rrec := let '(c, h, d) := x in expected_rec c h d.
(* for the records in [recs]: every record is a well-typed append, and reading back what its append stored gives
   the record (so [enc_rec] is injective on them).  Stated for the records of the store only: no encoding into
   fewer than 2^31 bytes is injective on ALL of [Store.rec], whose fields are unbounded numbers *)
Definition enc_ok_on (recs : list Store.rec) : Prop :=
  forall r, In r recs -> wf_enc (enc_rec r) /\ dec_rec (exp_enc (enc_rec r)) = Some r.

Lemma enc_rec_injective recs r1 r2 : enc_ok_on recs -> In r1 recs -> In r2 recs -> enc_rec r1 = enc_rec r2 -> r1 = r2.
Proof.
  intros Hok H1 H2 E. destruct (Hok r1 H1) as [_ E1]. destruct (Hok r2 H2) as [_ E2].
  rewrite E, E2 in E1. injection E1 as <-. reflexivity.
Qed.

Definition decode_recs (l : list (N * rrec)) : list Store.rec :=
  flat_map (fun x => match dec_rec (snd x) with Some r => [r] | None => [] end) l.

(* the bytes of the live segment's records *)
Definition seg_bytes (s : store) : list N := concat (stored_all (map enc_rec (s_recs (live s)))).

(* a crash after which the live segment file holds [file] (the sealed segments and nothing else survive in
   memory): Writer::open's scan from the segment's start offset, every record read back, then Worker::new *)
Definition byte_crash (s : store) (file : list N) (start : N) : store :=
  let '(_, recs, _, _) := iter_all H decompress file (lenN file) ra_empty start in
  reopen (mkStore (sealed s) (mkSeg (decode_recs recs) (s_idx (live s))) (pending s) (nextseq s) (synced s) (published s)).

Lemma enc_ok_on_incl a b : (forall r, In r a -> In r b) -> enc_ok_on b -> enc_ok_on a.
Proof. intros Hi Hb r Hr. apply Hb, Hi, Hr. Qed.

Lemma decode_recs_enc : forall rs off, enc_ok_on rs -> decode_recs (with_offsets off (expected_all (map enc_rec rs))) = rs.
Proof.
  induction rs as [|r rs IH]; intros off Hok; [reflexivity|].
  cbn [map]. destruct (Hok r (or_introl eq_refl)) as [_ Hd]. destruct (enc_rec r) as [[c h] d] eqn:Er.
  cbn [SeglogProofs.expected_all with_offsets decode_recs flat_map snd]. cbn [exp_enc] in Hd. rewrite Hd.
  cbn [app]. f_equal. apply IH. intros x Hx. apply Hok. right. exact Hx.
Qed.

Lemma wf_all_enc rs : enc_ok_on rs -> wf_all H compress (map enc_rec rs).
Proof.
  intros Hok. unfold wf_all. apply Forall_forall. intros x Hx. apply in_map_iff in Hx as (r & <- & Hr).
  destruct (Hok r Hr) as [Hw _]. destruct (enc_rec r) as [[c h] d]. exact Hw.
Qed.

Lemma firstn_S_nth {A} : forall (l : list A) n x, nth_error l n = Some x -> firstn (S n) l = firstn n l ++ [x].
Proof.
  induction l as [|y l IH]; intros [|n] x Hn; try discriminate.
  - injection Hn as <-. reflexivity.
  - cbn [firstn app]. f_equal. apply IH. exact Hn.
Qed.
Lemma In_firstn {A} (l : list A) n x : In x (firstn n l) -> In x l.
Proof. intros Hx. rewrite <- (firstn_skipn n l). apply in_or_app. left. exact Hx. Qed.

(** ANY byte prefix [b] of the live segment's record bytes survives, zeros follow: the cut falls into record
    number [keep] (at its byte [k]); the store after recovery is [crash s keep] when the remains of that record
    are detected, and [crash s (S keep)] when the lost bytes were all zero (the record is intact) *)
Theorem byte_crash_is_record_crash s pre b z :
  codec_ok compress decompress -> enc_ok_on (s_recs (live s)) -> b < lenN (seg_bytes s) ->
  exists keep r k,
    nth_error (s_recs (live s)) keep = Some r /\
    let enc := (let '(c, h, d) := enc_rec r in stored_record c h d) in
    let file := pre ++ takeN b (seg_bytes s) ++ zerosN z in
    k < lenN enc /\
    b = lenN (concat (stored_all (map enc_rec (firstn keep (s_recs (live s)))))) + k /\
    (cut_detected H (takeN k enc ++ zerosN z) -> byte_crash s file (lenN pre) = crash s keep) /\
    (all_zero (dropN k enc) = true -> lenN enc - k <= z -> byte_crash s file (lenN pre) = crash s (S keep)).
Proof.
  intros Hc Hok Hb. unfold seg_bytes in *. set (recs := s_recs (live s)) in *.
  destruct (any_byte_cut_is_record_cut H compress decompress (map enc_rec recs) pre b z Hc (wf_all_enc recs Hok) Hb)
    as (keep & c & h & d & k & Hn & Hk & Eb & Ef & Hdet).
  rewrite nth_error_map in Hn. destruct (nth_error recs keep) as [r|] eqn:Hr; [|discriminate]. injection Hn as Hn.
  exists keep, r, k. split; [exact Hr|]. rewrite Hn. cbv zeta.
  split; [exact Hk|]. split; [rewrite <- firstn_map; exact Eb|]. split.
  - intros Hd. destruct (Hdet Hd) as (_ & ra & t & E & _). unfold byte_crash. rewrite E.
    rewrite firstn_map, decode_recs_enc; [reflexivity|].
    apply (enc_ok_on_incl _ recs); [intros x; apply In_firstn|exact Hok].
  - intros Hz Hl. rewrite Ef.
    assert (Hw : wf_rec c h d).
    { destruct (Hok r (nth_error_In _ _ Hr)) as [Hw _]. rewrite Hn in Hw. exact Hw. }
    destruct (cut_zero_tail_keeps_record H compress decompress (firstn keep (map enc_rec recs)) c h d pre k z Hc
                (wf_all_firstn H compress keep _ (wf_all_enc recs Hok)) Hw Hz Hl) as (_ & ra & E).
    unfold byte_crash. rewrite E.
    replace (firstn keep (map enc_rec recs) ++ [(c, h, d)]) with (map enc_rec (firstn (S keep) recs)).
    + rewrite decode_recs_enc; [reflexivity|].
      apply (enc_ok_on_incl _ recs); [intros x; apply In_firstn|exact Hok].
    + rewrite (firstn_S_nth recs keep r Hr), map_app, firstn_map. cbn [map]. rewrite Hn. reflexivity.
Qed.

(** composition with the L1 crash theorem: the recovered store satisfies the invariant and holds the sealed
    groups plus the groups of the whole records before the cut — a prefix of what was written *)
Theorem byte_crash_recovers s pre b z :
  codec_ok compress decompress -> enc_ok_on (s_recs (live s)) -> Inv s -> b < lenN (seg_bytes s) ->
  exists keep r k,
    nth_error (s_recs (live s)) keep = Some r /\
    let enc := (let '(c, h, d) := enc_rec r in stored_record c h d) in
    let s' := byte_crash s (pre ++ takeN b (seg_bytes s) ++ zerosN z) (lenN pre) in
    k < lenN enc /\
    b = lenN (concat (stored_all (map enc_rec (firstn keep (s_recs (live s)))))) + k /\
    (cut_detected H (takeN k enc ++ zerosN z) ->
     Inv s' /\ abs_all s' = sealed_groups s ++ groups (firstn keep (s_recs (live s))) /\
     abs_visible s' = abs_all s' /\ prefix (abs_all s') (abs_all s)).
Proof.
  intros Hc Hok I Hb. destruct (byte_crash_is_record_crash s pre b z Hc Hok Hb) as (keep & r & k & Hn & Hrest).
  exists keep, r, k. split; [exact Hn|]. cbv zeta in *. destruct Hrest as (Hk & Eb & Hdet & _).
  split; [exact Hk|]. split; [exact Eb|]. intros Hd. rewrite (Hdet Hd). apply crash_spec. exact I.
Qed.

End BridgeL1.

(** * what is left: genuine CRC-32 coincidences (H = 1 as in sierradb, no compression) *)
(* data = the generator polynomial as a 33-bit pattern: CRC(length ++ hdr ++ data) = CRC(length ++ zeros).
   Only the 8 head bytes reach the disk: the decoder accepts them followed by zeros as a record of six zero
   bytes that was never written.  The lost bytes are not a <= 32-bit burst and not all zero. *)
Definition wit_gen : list N := [65; 6; 113; 219; 1].
Lemma wit_coincidence :
  wf_rec 1 wit_id false [0] wit_gen /\
  crc_accepts 1 (takeN 8 (stored_record 1 wit_id false [0] wit_gen) ++ zerosN 100) /\
  decode_view 1 wit_some (takeN 8 (stored_record 1 wit_id false [0] wit_gen) ++ zerosN 100) =
    ROk {| r_hdr := [0]; r_data := [0;0;0;0;0]; r_cdata := None; r_len := 14 |} /\
  writer_open_offset 1 wit_some (cut_file 1 wit_id [9;9] [] false [0] wit_gen 8 100) 2 = ROk 16.
Proof.
  split; [|split; [|split]].
  - unfold wf_rec, all_bytes, is_byte, wit_gen. cbn. repeat split; repeat constructor; lia.
  - unfold crc_accepts. vm_compute. repeat split; try reflexivity; intros ?; discriminate.
  - vm_compute. reflexivity.
  - vm_compute. reflexivity.
Qed.

(* the same with only SEVEN bytes of the head on disk (the CRC's top byte happens to be zero): a cut that
   leaves fewer than 8 bytes of the record is not always detected in a zero-filled file *)
Definition wit_gen71 : list N := wit_gen ++ zerosN 66.
Lemma wit_coincidence_head :
  wf_rec 1 wit_id false [0] wit_gen71 /\
  crc_accepts 1 (takeN 7 (stored_record 1 wit_id false [0] wit_gen71) ++ zerosN 100) /\
  decode_view 1 wit_some (takeN 7 (stored_record 1 wit_id false [0] wit_gen71) ++ zerosN 100) =
    ROk {| r_hdr := [0]; r_data := zerosN 71; r_cdata := None; r_len := 80 |}.
Proof.
  split; [|split].
  - unfold wf_rec. split; [reflexivity|]. split; [repeat constructor; unfold is_byte; lia|]. split.
    + unfold wit_gen71. apply all_bytes_app. split; [unfold wit_gen, all_bytes, is_byte; repeat constructor; lia|apply all_bytes_zerosN].
    + vm_compute. reflexivity.
  - unfold crc_accepts. vm_compute. repeat split; try reflexivity; intros ?; discriminate.
  - vm_compute. reflexivity.
Qed.

(** * an encoding that satisfies [enc_ok_on] for every record whose fields are below 256 (H = 1, header [0]) *)
Definition wit_enc_rec (r : Store.rec) : bool * list N * list N :=
  (false, [0],
   match r with
   | REvent e => [1; e_id e; e_pk e; e_pid e; e_tx e; if e_flag e then 1 else 0; e_seq e; e_sid e; e_ver e]
   | RCommit tx n => [2; tx; n]
   end).
Definition wit_dec_rec (r : rrec) : option Store.rec :=
  match r_data r with
  | [t; a; b; c; d; f; g; h; i] => if t =? 1 then Some (REvent (mkEvent a b c d (f =? 1) g h i)) else None
  | [t; tx; n] => if t =? 2 then Some (RCommit tx n) else None
  | _ => None
  end.
Definition small_rec (r : Store.rec) : Prop :=
  match r with
  | REvent e => all_bytes [e_id e; e_pk e; e_pid e; e_tx e; e_seq e; e_sid e; e_ver e]
  | RCommit tx n => all_bytes [tx; n]
  end.
Lemma wit_enc_ok recs : Forall small_rec recs -> enc_ok_on 1 wit_id wit_enc_rec wit_dec_rec recs.
Proof.
  intros Hs r Hr. rewrite Forall_forall in Hs. specialize (Hs r Hr). destruct r as [[a b c d f g h i]|tx n].
  - cbn [small_rec e_id e_pk e_pid e_tx e_seq e_sid e_ver] in Hs. split.
    + unfold wf_enc, wit_enc_rec, wf_rec. cbn [e_id e_pk e_pid e_tx e_flag e_seq e_sid e_ver].
      split; [reflexivity|]. split; [repeat constructor; unfold is_byte; lia|]. split.
      * unfold all_bytes in *. repeat match goal with H : Forall _ (_ :: _) |- _ => inversion H; clear H; subst end.
        repeat constructor; try assumption; unfold is_byte; destruct f; lia.
      * vm_compute. reflexivity.
    + unfold exp_enc, wit_enc_rec, wit_dec_rec, expected_rec. cbn [r_data e_id e_pk e_pid e_tx e_flag e_seq e_sid e_ver N.eqb Pos.eqb].
      destruct f; reflexivity.
  - split.
    + unfold wf_enc, wit_enc_rec, wf_rec. split; [reflexivity|]. split; [repeat constructor; unfold is_byte; lia|]. split.
      * cbn [small_rec] in Hs. unfold all_bytes in *. repeat match goal with H : Forall _ (_ :: _) |- _ => inversion H; clear H; subst end.
        repeat constructor; try assumption; unfold is_byte; lia.
      * vm_compute. reflexivity.
    + reflexivity.
Qed.
