From Coq Require Import NArith ZArith List Bool Lia Znumtheory.
From Coq Require Import ZifyBool ZifyNat ZifyN.
From SV Require Import Lib.ListX Model.Topology.
Import ListNotations.
Ltac Zify.zify_post_hook ::= Z.div_mod_to_equations.

(** * the jump is coprime to every partition count *)
Open Scope Z_scope.

Definition jumpZ (n : Z) : Z :=
  if n <=? 2 then 1 else
  let c := n / 2 + 1 in if Z.even n && Z.even c then c + 1 else c.

Lemma div4_odd g j : 0 <= g -> (g | j) -> (g | 4) -> Z.odd j = true -> g = 1.
Proof.
  intros Hg Hj H4 Hodd.
  assert (g <= 4) by (apply Z.divide_pos_le; [lia|assumption]).
  assert (g <> 0) by (intros ->; destruct H4 as [k Hk]; lia).
  assert (Hc : g = 1 \/ g = 2 \/ g = 3 \/ g = 4) by lia.
  destruct Hc as [->|[->|[->| ->]]]; try reflexivity; exfalso.
  - destruct Hj as [k ->]. rewrite Z.odd_mul in Hodd. cbn in Hodd. rewrite andb_false_r in Hodd. discriminate.
  - destruct H4 as [k Hk]. lia.
  - destruct Hj as [k ->]. rewrite Z.odd_mul in Hodd. cbn in Hodd. rewrite andb_false_r in Hodd. discriminate.
Qed.

Lemma jumpZ_coprime n : 0 < n -> Z.gcd (jumpZ n) n = 1.
Proof.
  intros Hn. unfold jumpZ. destruct (n <=? 2) eqn:H2.
  - apply Z.gcd_1_l.
  - apply Z.leb_gt in H2. cbv zeta.
    set (g := Z.gcd _ n). assert (Hg0 : 0 <= g) by apply Z.gcd_nonneg.
    pose proof (Z.div_mod n 2 ltac:(lia)) as Hdm. pose proof (Z.mod_pos_bound n 2 ltac:(lia)) as Hmb.
    destruct (Z.even n) eqn:He.
    + assert (Hm : n mod 2 = 0) by (rewrite Zmod_even, He; reflexivity).
      destruct (Z.even (n / 2 + 1)) eqn:Hc; cbn [andb] in *.
      * apply (div4_odd g (n / 2 + 1 + 1)); [assumption|apply Z.gcd_divide_l| |].
        -- replace 4 with (2 * (n / 2 + 1 + 1) - n) by lia.
           apply Z.divide_sub_r; [apply Z.divide_mul_r, Z.gcd_divide_l|apply Z.gcd_divide_r].
        -- rewrite Z.odd_add, <- Z.negb_even, Hc. reflexivity.
      * apply (div4_odd g (n / 2 + 1)); [assumption|apply Z.gcd_divide_l| |].
        -- assert (Hg2 : (g | 2 * (n / 2 + 1) - n))
             by (apply Z.divide_sub_r; [apply Z.divide_mul_r, Z.gcd_divide_l|apply Z.gcd_divide_r]).
           replace (2 * (n / 2 + 1) - n) with 2 in Hg2 by lia.
           apply Z.divide_trans with 2; [assumption|exists 2; reflexivity].
        -- rewrite <- Z.negb_even, Hc. reflexivity.
    + cbn [andb] in *. assert (Hm : n mod 2 = 1) by (rewrite Zmod_even, He; reflexivity).
      assert (Hd : (g | 1)).
      { replace 1 with (2 * (n / 2 + 1) - n) by lia.
        apply Z.divide_sub_r; [apply Z.divide_mul_r, Z.gcd_divide_l|apply Z.gcd_divide_r]. }
      apply Z.divide_1_r_nonneg in Hd; assumption.
Qed.

Lemma walkZ_inj n p i k : 0 < n -> 0 <= i < k -> k < n ->
  (p + i * jumpZ n) mod n <> (p + k * jumpZ n) mod n.
Proof.
  intros Hn Hik Hk Heq.
  assert (Hd : (n | (p + k * jumpZ n) - (p + i * jumpZ n))).
  { apply Zmod_divide; [lia|]. rewrite Zminus_mod, Heq, Z.sub_diag. reflexivity. }
  replace ((p + k * jumpZ n) - (p + i * jumpZ n)) with ((k - i) * jumpZ n) in Hd by ring.
  rewrite Z.mul_comm in Hd. apply Gauss in Hd.
  - apply Z.divide_pos_le in Hd; lia.
  - apply Zgcd_1_rel_prime. rewrite Z.gcd_comm. apply jumpZ_coprime. assumption.
Qed.

Lemma jump_Z n : Z.of_N (jump n) = jumpZ (Z.of_N n).
Proof.
  unfold jump, jumpZ.
  replace (Z.of_N n <=? 2) with (n <=? 2)%N by lia.
  destruct (n <=? 2)%N; [reflexivity|]. cbv zeta.
  replace (Z.even (Z.of_N n)) with (N.even n) by (destruct n as [|[p|p|]]; reflexivity).
  replace (Z.of_N n / 2 + 1) with (Z.of_N (n / 2 + 1)) by (rewrite N2Z.inj_add, N2Z.inj_div; reflexivity).
  replace (Z.even (Z.of_N (n / 2 + 1))) with (N.even (n / 2 + 1))
    by (destruct (n / 2 + 1)%N as [|[p|p|]]; reflexivity).
  destruct (N.even n && N.even (n / 2 + 1)); lia.
Qed.

Close Scope Z_scope.
Open Scope N_scope.

Lemma jump_coprime n : 0 < n -> Z.gcd (Z.of_N (jump n)) (Z.of_N n) = 1%Z.
Proof. intros Hn. rewrite jump_Z. apply jumpZ_coprime. lia. Qed.

Definition pt (h n : N) (i : nat) : N := (h mod n + N.of_nat i * jump n) mod n.

Lemma pt_inj h n i k : 0 < n -> (i < k)%nat -> N.of_nat k < n -> pt h n i <> pt h n k.
Proof.
  intros Hn Hik Hk Heq. unfold pt in Heq.
  apply (f_equal Z.of_N) in Heq. rewrite !N2Z.inj_mod, !N2Z.inj_add, !N2Z.inj_mul, jump_Z in Heq.
  revert Heq. rewrite !nat_N_Z. apply walkZ_inj; lia.
Qed.

Lemma pt_lt h n i : 0 < n -> pt h n i < n.
Proof. intros. unfold pt. apply N.mod_lt. lia. Qed.

Lemma pt_0 h n : 0 < n -> pt h n 0 = h mod n.
Proof. intros. unfold pt. cbn. rewrite N.add_0_r, N.mod_mod by lia. reflexivity. Qed.

Lemma pt_succ h n i : 0 < n -> (pt h n i + jump n) mod n = pt h n (S i).
Proof.
  intros Hn. unfold pt. rewrite N.add_mod_idemp_l by lia. f_equal. lia.
Qed.

Lemma existsb_eqb_false c l : ~ In c l -> existsb (N.eqb c) l = false.
Proof.
  intros H. destruct (existsb (N.eqb c) l) eqn:E; [|reflexivity].
  apply existsb_exists in E. destruct E as [x [Hx Hc]]. apply N.eqb_eq in Hc. subst. contradiction.
Qed.

(** the loop computes the closed form *)
Lemma walk_closed h n : 0 < n -> forall fuel k,
  (1 <= k)%nat -> N.of_nat (k + fuel) <= n -> N.of_nat (k + fuel) <= MAX_RF ->
  walk Wide fuel n (jump n) (pt h n (k - 1)) (map (pt h n) (seq 0 k))
  = Some (map (pt h n) (seq 0 (k + fuel))).
Proof.
  intros Hn. induction fuel as [|f IH]; intros k Hk Hle Hmax; cbn [walk add16].
  - rewrite Nat.add_0_r. reflexivity.
  - replace (pt h n (k - 1) + jump n) with (pt h n (k-1) + jump n) by reflexivity.
    rewrite pt_succ by assumption. replace (S (k - 1)) with k by lia.
    rewrite existsb_eqb_false.
    2:{ intros Hin. apply in_map_iff in Hin. destruct Hin as [i [Hi Hin]]. apply in_seq in Hin.
        revert Hi. apply pt_inj; lia. }
    rewrite map_length, seq_length.
    replace (MAX_RF <=? N.of_nat k) with false by (unfold MAX_RF in *; lia).
    cbn [orb].
    replace (map (pt h n) (seq 0 k) ++ [pt h n k]) with (map (pt h n) (seq 0 (S k))).
    2:{ rewrite seq_S, map_app. reflexivity. }
    replace (pt h n k) with (pt h n (S k - 1)) at 1 by (f_equal; lia).
    rewrite IH by lia. do 3 f_equal. lia.
Qed.

Lemma distribute_gen_closed h n rf :
  distribute_gen Wide h n rf = Some (distribute_spec h n rf).
Proof.
  unfold distribute_gen, distribute_spec.
  destruct (n =? 0) eqn:Hn0.
  - apply N.eqb_eq in Hn0. subst. rewrite N.min_0_l, N.min_0_r. reflexivity.
  - apply N.eqb_neq in Hn0. assert (Hn : 0 < n) by lia.
    set (a := N.min rf (N.min n MAX_RF)).
    destruct (a =? 0) eqn:Ha0.
    + apply N.eqb_eq in Ha0. rewrite Ha0. reflexivity.
    + apply N.eqb_neq in Ha0.
      fold (pt h n). change (fun i => (h mod n + N.of_nat i * jump n) mod n) with (pt h n).
      destruct (1 <? a) eqn:H1.
      * apply N.ltb_lt in H1.
        pose proof (walk_closed h n Hn (N.to_nat (a - 1)) 1 ltac:(lia)) as W.
        cbn [seq map Nat.sub] in W. rewrite pt_0 in W by assumption.
        rewrite W by (unfold a, MAX_RF in *; lia).
        do 3 f_equal. lia.
      * apply N.ltb_ge in H1. assert (a = 1) as -> by lia.
        change (N.to_nat 1) with 1%nat. cbn [seq map]. rewrite pt_0 by assumption. reflexivity.
Qed.

Lemma distribute_closed h n rf : distribute h n rf = distribute_spec h n rf.
Proof. unfold distribute. rewrite distribute_gen_closed. reflexivity. Qed.

Lemma spec_length h n rf :
  length (distribute_spec h n rf) = N.to_nat (N.min rf (N.min n MAX_RF)).
Proof. unfold distribute_spec. rewrite map_length, seq_length. reflexivity. Qed.

Lemma spec_nodup h n rf : NoDup (distribute_spec h n rf).
Proof.
  unfold distribute_spec. fold (pt h n). change (fun i => (h mod n + N.of_nat i * jump n) mod n) with (pt h n).
  set (a := N.to_nat _).
  assert (Ha : N.of_nat a <= n) by (unfold a; lia).
  destruct (N.eq_dec n 0) as [->|Hn0].
  { replace a with 0%nat by lia. constructor. }
  clearbody a. induction a as [|a IH]; [constructor|].
  rewrite seq_S, map_app. cbn [map]. apply NoDup_app_one; [apply IH; lia|].
  intros Hin. apply in_map_iff in Hin. destruct Hin as [i [Hi Hin]]. apply in_seq in Hin.
  revert Hi. apply pt_inj; lia.
Qed.

Lemma spec_bound h n rf : Forall (fun p => p < n) (distribute_spec h n rf).
Proof.
  destruct (N.eq_dec n 0) as [->|Hn0].
  { unfold distribute_spec. rewrite N.min_0_l, N.min_0_r. constructor. }
  unfold distribute_spec. apply Forall_forall. intros x Hx. apply in_map_iff in Hx.
  destruct Hx as [i [<- _]]. apply N.mod_lt. assumption.
Qed.

Lemma spec_head h n rf : 0 < n -> 0 < rf -> hd_error (distribute_spec h n rf) = Some (h mod n).
Proof.
  intros Hn Hrf. unfold distribute_spec.
  destruct (N.to_nat (N.min rf (N.min n MAX_RF))) as [|a] eqn:Ha; [unfold MAX_RF in *; lia|].
  cbn [seq map hd_error]. f_equal. apply pt_0. assumption.
Qed.

Lemma spec_prefix h n rf rf' : rf' <= rf ->
  distribute_spec h n rf' = firstn (length (distribute_spec h n rf')) (distribute_spec h n rf).
Proof.
  intros Hle. rewrite spec_length. unfold distribute_spec.
  rewrite firstn_map, firstn_seq by lia. reflexivity.
Qed.

(** full statement, about the function that models the code *)
Theorem distribute_correct h n rf :
  let r := distribute h n rf in
  length r = N.to_nat (N.min rf (N.min n MAX_RF)) /\ NoDup r /\
  Forall (fun p => p < n) r /\
  (0 < n -> 0 < rf -> hd_error r = Some (h mod n)) /\
  (forall rf', rf' <= rf ->
     distribute h n rf' = firstn (length (distribute h n rf')) r).
Proof.
  cbv zeta. rewrite distribute_closed. repeat split.
  - apply spec_length.
  - apply spec_nodup.
  - apply spec_bound.
  - apply spec_head.
  - intros rf' H. rewrite distribute_closed. apply spec_prefix, H.
Qed.

(** the code never takes the panic branch and never returns the default *)
Theorem distribute_total h n rf : distribute_gen Wide h n rf = Some (distribute h n rf).
Proof. rewrite distribute_gen_closed, distribute_closed. reflexivity. Qed.

(** the original u16 addition: agrees while n is small, fails for large n *)
Lemma add16_small a x y : x + y < 65536 -> add16 a x y = Some (x + y).
Proof.
  intros H. destruct a; cbn [add16]; [reflexivity| |].
  - rewrite N.mod_small by assumption. reflexivity.
  - replace (x + y <? 65536) with true by lia. reflexivity.
Qed.

Lemma jump_le n : jump n <= n / 2 + 2.
Proof.
  unfold jump. destruct (n <=? 2) eqn:E; [lia|]. cbv zeta.
  destruct (N.even n && N.even (n / 2 + 1)); lia.
Qed.

Lemma walk_u16_small a n : 0 < n -> n <= 43689 -> forall fuel cur acc,
  cur < n -> walk a fuel n (jump n) cur acc = walk Wide fuel n (jump n) cur acc.
Proof.
  intros Hn Hs. induction fuel as [|f IH]; intros cur acc Hc; cbn [walk]; [reflexivity|].
  pose proof (jump_le n).
  rewrite add16_small by lia. cbn [add16].
  destruct (existsb _ acc || _); [reflexivity|].
  apply IH. apply N.mod_lt. lia.
Qed.

Theorem distribute_u16_small a h n rf : n <= 43689 ->
  distribute_gen a h n rf = Some (distribute h n rf).
Proof.
  intros Hs. rewrite <- distribute_total. unfold distribute_gen.
  destruct (n =? 0) eqn:Hn0; [reflexivity|]. apply N.eqb_neq in Hn0.
  destruct (_ =? 0); [reflexivity|]. destruct (1 <? _); [|reflexivity].
  apply walk_u16_small; [lia|assumption|]. apply N.mod_lt. assumption.
Qed.

Theorem distribute_u16_refuted :
  distribute_gen Panic16 65534 65535 2 = None /\
  distribute_gen Wrap16 65534 65535 2 <> Some (distribute 65534 65535 2).
Proof. split; [vm_compute; reflexivity|vm_compute; discriminate]. Qed.
