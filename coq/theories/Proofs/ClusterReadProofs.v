(** Proofs about Model/ClusterRead.v (C07). *)
From Coq Require Import NArith Arith PeanoNat List Bool Lia.
From SV Require Import Model.Watermark Proofs.WatermarkProofs Model.ClusterRead.
Import ListNotations.
Open Scope N_scope.

(** ---- generic list facts --------------------------------------------------------------------------------- *)
Fixpoint cr_take_while {A} (p : A -> bool) (l : list A) : list A :=
  match l with [] => [] | a :: t => if p a then a :: cr_take_while p t else [] end.

Lemma cr_take_while_app_all {A} (p : A -> bool) a b :
  Forall (fun x => p x = true) a -> cr_take_while p (a ++ b) = a ++ cr_take_while p b.
Proof. induction 1 as [|x a Hx _ IH]; cbn; [reflexivity|]. rewrite Hx, IH. reflexivity. Qed.

Lemma cr_take_while_app_stop {A} (p : A -> bool) a e b :
  Forall (fun x => p x = true) a -> p e = false -> cr_take_while p (a ++ e :: b) = a.
Proof. induction 1 as [|x a Hx _ IH]; intros He; cbn; [rewrite He; reflexivity|]. rewrite Hx, IH by assumption. reflexivity. Qed.

Lemma cr_filter_none {A} (p : A -> bool) l : Forall (fun x => p x = false) l -> filter p l = [].
Proof. induction 1 as [|x l Hx _ IH]; cbn; [reflexivity|]. rewrite Hx. assumption. Qed.

(** [p] never becomes true again after it was false *)
Fixpoint cr_dc {A} (p : A -> bool) (l : list A) : Prop :=
  match l with [] => True | a :: t => (p a = false -> Forall (fun b => p b = false) t) /\ cr_dc p t end.

Lemma cr_take_while_filter {A} (p : A -> bool) l : cr_dc p l -> cr_take_while p l = filter p l.
Proof.
  induction l as [|a t IH]; cbn; [reflexivity|]. intros [H1 H2]. destruct (p a) eqn:E.
  - rewrite IH by assumption. reflexivity.
  - symmetry. apply cr_filter_none. auto.
Qed.

Lemma cr_in_firstn {A} n (l : list A) x : In x (firstn n l) -> In x l.
Proof. revert l; induction n as [|n IH]; intros [|a l]; cbn; try tauto. intros [H|H]; [left; assumption|right; auto]. Qed.

(** ---- increasing sequences of partition sequences ------------------------------------------------------- *)
Fixpoint incr (lo : N) (l : list N) : Prop :=
  match l with [] => True | e :: t => lo <= e /\ incr (e + 1) t end.
Fixpoint nxt (lo : N) (l : list N) : N := match l with [] => lo | e :: t => nxt (e + 1) t end.

Lemma incr_weaken lo lo' l : lo' <= lo -> incr lo l -> incr lo' l.
Proof. destruct l; cbn; [tauto|]. intros H [A B]. split; [lia|assumption]. Qed.

Lemma incr_app lo a b : incr lo (a ++ b) <-> incr lo a /\ incr (nxt lo a) b.
Proof.
  revert lo; induction a as [|e a IH]; intros lo; cbn; [tauto|]. rewrite IH. tauto.
Qed.

Lemma nxt_ge lo l : incr lo l -> lo <= nxt lo l.
Proof. revert lo; induction l as [|e t IH]; intros lo; cbn; [lia|]. intros [A B]. specialize (IH _ B). lia. Qed.

Lemma incr_ge lo l : incr lo l -> forall e, In e l -> lo <= e.
Proof.
  revert lo; induction l as [|x t IH]; intros lo; cbn; [tauto|]. intros [A B] e [<-|H]; [assumption|].
  specialize (IH _ B e H). lia.
Qed.

Lemma nxt_app lo a b : nxt lo (a ++ b) = nxt (nxt lo a) b.
Proof. revert lo; induction a as [|e a IH]; intros lo; cbn; auto. Qed.

Lemma incr_filter p lo l : incr lo l -> incr lo (filter p l).
Proof.
  revert lo; induction l as [|e t IH]; intros lo; cbn; [tauto|]. intros [A B].
  destruct (p e); cbn.
  - split; [assumption|auto].
  - apply (incr_weaken (e + 1)); [lia|auto].
Qed.

Lemma incr_dc_lt lo l b : incr lo l -> cr_dc (fun e => e <? b) l.
Proof.
  revert lo; induction l as [|e t IH]; intros lo; cbn; [tauto|]. intros [A B]. split; [|eauto].
  intros E. apply N.ltb_ge in E. apply Forall_forall. intros x Hx. apply N.ltb_ge.
  pose proof (incr_ge _ _ B x Hx). lia.
Qed.

(** ---- ReadPartition ------------------------------------------------------------------------------------- *)
Lemma pr_events_app a b count eff st :
  pr_events (a ++ b) count eff st =
  let '(st', br) := pr_events a count eff st in if br then (st', true) else pr_events b count eff st'.
Proof.
  revert st; induction a as [|e a IH]; intros st; cbn [app pr_events]; [reflexivity|].
  destruct (count <=? pr_collected st); [reflexivity|]. destruct (eff <=? e); [reflexivity|]. apply IH.
Qed.

Lemma pr_events_nobreak c count eff st st' :
  pr_events c count eff st = (st', false) -> pr_last st' = nxt (pr_last st) c.
Proof.
  revert st; induction c as [|e c IH]; intros st; cbn [pr_events nxt].
  - intros H; injection H as <-. reflexivity.
  - destruct (count <=? pr_collected st); [discriminate|]. destruct (eff <=? e); [discriminate|].
    intros H. rewrite (IH _ H). reflexivity.
Qed.

Lemma pr_stuck l count eff st :
  (count <= pr_collected st \/ forall e, In e l -> eff <= e) -> fst (pr_events l count eff st) = st.
Proof.
  destruct l as [|e t]; cbn [pr_events]; [reflexivity|]. intros [H|H].
  - replace (count <=? pr_collected st) with true by (symmetry; apply N.leb_le; assumption). reflexivity.
  - destruct (count <=? pr_collected st); [reflexivity|].
    replace (eff <=? e) with true by (symmetry; apply N.leb_le; apply H; left; reflexivity). reflexivity.
Qed.

Lemma pr_loop_flat count eff cs : forall left orc st,
  incr (pr_last st) (concat cs) ->
  pr_loop cs left orc count eff st = fst (pr_events (concat cs) count eff st).
Proof.
  induction cs as [|c t IH]; intros left orc st Hi; [reflexivity|].
  cbn [concat] in *. apply incr_app in Hi. destruct Hi as [Hc Ht].
  assert (GO : forall l o,
    (let '(st', broke) := pr_events c count eff st in
     if broke then st'
     else if l - 1 =? 0 then
       if count <=? pr_collected st' then st'
       else if eff <=? pr_last st' then st' else pr_loop t 0 o count eff st'
     else pr_loop t (l - 1) o count eff st') = fst (pr_events (c ++ concat t) count eff st)).
  { intros l o. rewrite pr_events_app. destruct (pr_events c count eff st) as [st' br] eqn:E.
    destruct br; [reflexivity|].
    pose proof (pr_events_nobreak _ _ _ _ _ E) as L. rewrite <- L in Ht.
    destruct (l - 1 =? 0).
    - destruct (count <=? pr_collected st') eqn:E1.
      + symmetry. apply pr_stuck. left. apply N.leb_le. assumption.
      + destruct (eff <=? pr_last st') eqn:E2.
        * symmetry. apply pr_stuck. right. intros e He. apply N.leb_le in E2.
          pose proof (incr_ge _ _ Ht e He). lia.
        * apply IH. assumption.
    - apply IH. assumption. }
  cbn [pr_loop]. destruct (left =? 0).
  - destruct (N.min (eff - pr_last st) cr_batch =? 0) eqn:EL.
    + symmetry. apply pr_stuck. right. intros e He. apply N.eqb_eq in EL. unfold cr_batch in EL.
      assert (incr (pr_last st) (c ++ concat t)) as Hall by (apply incr_app; split; assumption).
      pose proof (incr_ge _ _ Hall e He). lia.
    + destruct (cr_next_k orc (N.min (eff - pr_last st) cr_batch)) as [k orc']. apply GO.
  - apply GO.
Qed.

Lemma pr_events_acc l count eff : forall st,
  pr_acc (fst (pr_events l count eff st)) =
  pr_acc st ++ firstn (N.to_nat (count - pr_collected st)) (cr_take_while (fun e => e <? eff) l).
Proof.
  induction l as [|e t IH]; intros st; cbn [pr_events cr_take_while].
  - rewrite firstn_nil, app_nil_r. reflexivity.
  - destruct (count <=? pr_collected st) eqn:E1.
    + apply N.leb_le in E1. replace (N.to_nat (count - pr_collected st)) with 0%nat by lia.
      cbn. rewrite app_nil_r. reflexivity.
    + apply N.leb_gt in E1. destruct (eff <=? e) eqn:E2.
      * apply N.leb_le in E2. replace (e <? eff) with false by (symmetry; apply N.ltb_ge; assumption).
        rewrite firstn_nil, app_nil_r. reflexivity.
      * apply N.leb_gt in E2. replace (e <? eff) with true by (symmetry; apply N.ltb_lt; assumption).
        rewrite IH. cbn [pr_push pr_acc pr_collected].
        replace (N.to_nat (count - pr_collected st)) with (S (N.to_nat (count - (pr_collected st + 1)))) by lia.
        cbn [firstn]. rewrite <- app_assoc. reflexivity.
Qed.

Lemma pr_events_last l count eff : forall st,
  pr_last (fst (pr_events l count eff st)) =
  nxt (pr_last st) (firstn (N.to_nat (count - pr_collected st)) (cr_take_while (fun e => e <? eff) l)).
Proof.
  induction l as [|e t IH]; intros st; cbn [pr_events cr_take_while].
  - rewrite firstn_nil. reflexivity.
  - destruct (count <=? pr_collected st) eqn:E1.
    + apply N.leb_le in E1. replace (N.to_nat (count - pr_collected st)) with 0%nat by lia. reflexivity.
    + apply N.leb_gt in E1. destruct (eff <=? e) eqn:E2.
      * apply N.leb_le in E2. replace (e <? eff) with false by (symmetry; apply N.ltb_ge; assumption).
        rewrite firstn_nil. reflexivity.
      * apply N.leb_gt in E2. replace (e <? eff) with true by (symmetry; apply N.ltb_lt; assumption).
        rewrite IH. cbn [pr_push pr_last pr_collected].
        replace (N.to_nat (count - pr_collected st)) with (S (N.to_nat (count - (pr_collected st + 1)))) by lia.
        reflexivity.
Qed.

(** the range a partition read may reveal: below the watermark and not beyond the requested end *)
Definition pr_in_range (W : N) (endo : option N) (e : N) : bool :=
  (e <? W) && match endo with Some x => e <=? x | None => true end.

Lemma pr_in_range_eff W endo e : (e <? pr_eff W endo) = pr_in_range W endo e.
Proof.
  unfold pr_eff, pr_in_range. destruct endo as [x|].
  - destruct (e <? W) eqn:A, (e <=? x) eqn:B; cbn [andb];
      [apply N.ltb_lt|apply N.ltb_ge|apply N.ltb_ge|apply N.ltb_ge];
      try apply N.ltb_lt in A; try apply N.ltb_ge in A; try apply N.leb_le in B; try apply N.leb_gt in B; lia.
  - rewrite andb_true_r. reflexivity.
Qed.

Theorem partition_read_exact : forall cs orc W start endo count,
  incr start (concat cs) ->
  fst (partition_read cs orc W start endo count) =
  firstn (N.to_nat count) (filter (pr_in_range W endo) (concat cs)).
Proof.
  intros cs orc W start endo count Hi. unfold partition_read.
  rewrite <- (filter_ext _ _ (pr_in_range_eff W endo)).
  destruct (W <=? start) eqn:E; cbn [fst].
  - apply N.leb_le in E. rewrite cr_filter_none; [rewrite firstn_nil; reflexivity|].
    apply Forall_forall. intros e He. apply N.ltb_ge. pose proof (incr_ge _ _ Hi e He).
    assert (pr_eff W endo <= W) by (unfold pr_eff; destruct endo; lia). lia.
  - rewrite pr_loop_flat by assumption. rewrite pr_events_acc. cbn [pr_acc pr_collected app].
    rewrite N.sub_0_r. rewrite (cr_take_while_filter _ _ (incr_dc_lt _ _ _ Hi)). reflexivity.
Qed.

Theorem partition_read_gated : forall cs orc W start endo count e,
  In e (fst (partition_read cs orc W start endo count)) -> e < W.
Proof.
  intros cs orc W start endo count e. unfold partition_read.
  destruct (W <=? start); cbn [fst]; [intros []|].
  (* no hypothesis on the commits needed: only events below the effective end are ever pushed *)
  assert (G : forall l st, (forall x, In x (pr_acc st) -> x < W) ->
              forall x, In x (pr_acc (fst (pr_events l count (pr_eff W endo) st))) -> x < W).
  { induction l as [|a t IH]; intros st Hst; cbn [pr_events]; [exact Hst|].
    destruct (count <=? pr_collected st); [exact Hst|].
    destruct (pr_eff W endo <=? a) eqn:E2; [exact Hst|]. apply IH.
    intros x Hx. cbn [pr_push pr_acc] in Hx. apply in_app_or in Hx. destruct Hx as [Hx|[<-|[]]]; [auto|].
    apply N.leb_gt in E2. assert (pr_eff W endo <= W) by (unfold pr_eff; destruct endo; lia). lia. }
  assert (L : forall cs left orc st, (forall x, In x (pr_acc st) -> x < W) ->
              forall x, In x (pr_acc (pr_loop cs left orc count (pr_eff W endo) st)) -> x < W).
  { clear cs orc. induction cs as [|c t IH]; intros left orc st Hst; [exact Hst|].
    assert (GO : forall l o x,
      In x (pr_acc (let '(st', broke) := pr_events c count (pr_eff W endo) st in
         if broke then st'
         else if l - 1 =? 0 then
           if count <=? pr_collected st' then st'
           else if pr_eff W endo <=? pr_last st' then st' else pr_loop t 0 o count (pr_eff W endo) st'
         else pr_loop t (l - 1) o count (pr_eff W endo) st')) -> x < W).
    { intros l o x. pose proof (G c st Hst) as Gc. destruct (pr_events c count (pr_eff W endo) st) as [st' br].
      cbn [fst] in Gc. destruct br; [apply Gc|].
      destruct (l - 1 =? 0); [destruct (count <=? pr_collected st'); [apply Gc|destruct (pr_eff W endo <=? pr_last st'); [apply Gc|apply IH; exact Gc]]|apply IH; exact Gc]. }
    cbn [pr_loop]. destruct (left =? 0).
    - destruct (N.min (pr_eff W endo - pr_last st) cr_batch =? 0); [exact Hst|].
      destruct (cr_next_k orc (N.min (pr_eff W endo - pr_last st) cr_batch)) as [k orc']. apply GO.
    - apply GO. }
  apply L. cbn. intros x [].
Qed.

(** has_more = false only if every confirmed event of the requested range was returned *)
Theorem partition_read_has_more : forall cs orc W start endo count,
  incr start (concat cs) ->
  snd (partition_read cs orc W start endo count) = false ->
  forall e, In e (concat cs) -> pr_in_range W endo e = true ->
  In e (fst (partition_read cs orc W start endo count)).
Proof.
  intros cs orc W start endo count Hi Hm e He Hr.
  pose proof (partition_read_exact cs orc W start endo count Hi) as EX.
  unfold partition_read in *. destruct (W <=? start) eqn:E; cbn [fst snd] in *.
  - apply N.leb_le in E. pose proof (incr_ge _ _ Hi e He). unfold pr_in_range in Hr.
    apply andb_true_iff in Hr. destruct Hr as [Hr _]. apply N.ltb_lt in Hr. lia.
  - apply N.leb_gt in E. rewrite EX.
    rewrite pr_loop_flat in Hm by assumption. rewrite pr_events_last in Hm. cbn [pr_last pr_collected] in Hm.
    rewrite N.sub_0_r in Hm. rewrite (cr_take_while_filter _ _ (incr_dc_lt _ _ _ Hi)) in Hm.
    rewrite (filter_ext _ _ (pr_in_range_eff W endo)) in Hm.
    set (F := filter (pr_in_range W endo) (concat cs)) in *.
    assert (HF : incr start F) by (apply incr_filter; assumption).
    assert (HeF : In e F) by (apply filter_In; split; assumption).
    rewrite <- (firstn_skipn (N.to_nat count) F) in HF, HeF.
    apply incr_app in HF. destruct HF as [_ HF2]. apply in_app_or in HeF. destruct HeF as [H|H]; [assumption|].
    pose proof (incr_ge _ _ HF2 e H). apply N.ltb_ge in Hm.
    unfold pr_in_range in Hr. apply andb_true_iff in Hr. destruct Hr as [Hr _]. apply N.ltb_lt in Hr. lia.
Qed.

(** ---- ReadStream ---------------------------------------------------------------------------------------- *)
Definition sr_ok (W : N) (endo : option N) (e : N * N) : bool := (snd e <? W) && negb (sr_over endo (fst e)).

Fixpoint vincr (lo : N) (l : list (N * N)) : Prop :=
  match l with [] => True | e :: t => lo <= fst e /\ vincr (fst e + 1) t end.
Fixpoint sincr (lo : N) (l : list (N * N)) : Prop :=
  match l with [] => True | e :: t => lo <= snd e /\ sincr (snd e + 1) t end.

Lemma vincr_weaken lo lo' l : lo' <= lo -> vincr lo l -> vincr lo' l.
Proof. destruct l; cbn; [tauto|]. intros H [A B]. split; [lia|assumption]. Qed.
Lemma sincr_weaken lo lo' l : lo' <= lo -> sincr lo l -> sincr lo' l.
Proof. destruct l; cbn; [tauto|]. intros H [A B]. split; [lia|assumption]. Qed.

Lemma vincr_ge lo l : vincr lo l -> forall e, In e l -> lo <= fst e.
Proof.
  revert lo; induction l as [|x t IH]; intros lo; cbn; [tauto|]. intros [A B] e [<-|H]; [assumption|].
  specialize (IH _ B e H). lia.
Qed.
Lemma sincr_ge lo l : sincr lo l -> forall e, In e l -> lo <= snd e.
Proof.
  revert lo; induction l as [|x t IH]; intros lo; cbn; [tauto|]. intros [A B] e [<-|H]; [assumption|].
  specialize (IH _ B e H). lia.
Qed.

Fixpoint vnxt (lo : N) (l : list (N * N)) : N := match l with [] => lo | e :: t => vnxt (fst e + 1) t end.

Lemma vincr_app lo a b : vincr lo (a ++ b) <-> vincr lo a /\ vincr (vnxt lo a) b.
Proof. revert lo; induction a as [|e a IH]; intros lo; cbn; [tauto|]. rewrite IH. tauto. Qed.

Lemma vnxt_ge lo l : vincr lo l -> lo <= vnxt lo l.
Proof. revert lo; induction l as [|e t IH]; intros lo; cbn; [lia|]. intros [A B]. specialize (IH _ B). lia. Qed.

Lemma vnxt_gt lo l : vincr lo l -> forall e, In e l -> fst e < vnxt lo l.
Proof.
  revert lo; induction l as [|x t IH]; intros lo; cbn; [tauto|]. intros [A B] e [<-|H].
  - pose proof (vnxt_ge _ _ B). lia.
  - apply (IH _ B e H).
Qed.

(** in [a ++ b] every version of [b] is above every version of [a] *)
Lemma vincr_app_lt lo a b : vincr lo (a ++ b) -> forall x y, In x a -> In y b -> fst x < fst y.
Proof.
  intros H x y Hx Hy. apply vincr_app in H. destruct H as [Ha Hb].
  pose proof (vnxt_gt _ _ Ha x Hx). pose proof (vincr_ge _ _ Hb y Hy). lia.
Qed.

Lemma sr_dc W endo l lo lo' : vincr lo l -> sincr lo' l -> cr_dc (sr_ok W endo) l.
Proof.
  revert lo lo'; induction l as [|e t IH]; intros lo lo'; cbn [vincr sincr cr_dc]; [tauto|].
  intros [A B] [C D]. split; [|eauto].
  intros E. apply Forall_forall. intros y Hy. unfold sr_ok in *.
  pose proof (vincr_ge _ _ B y Hy). pose proof (sincr_ge _ _ D y Hy).
  apply andb_false_iff in E. apply andb_false_iff. destruct E as [E|E].
  - left. apply N.ltb_ge in E. apply N.ltb_ge. lia.
  - right. apply negb_false_iff in E. apply negb_false_iff. unfold sr_over in *. destruct endo as [x|]; [|discriminate].
    apply N.ltb_lt in E. apply N.ltb_lt. lia.
Qed.

Lemma sr_events_app a b count W endo st :
  sr_events (a ++ b) count W endo st =
  let '(st', br) := sr_events a count W endo st in
  match br with SrNone => sr_events b count W endo st' | _ => (st', br) end.
Proof.
  revert st; induction a as [|e a IH]; intros st; cbn [app sr_events]; [reflexivity|].
  destruct (count <=? sr_collected st); [reflexivity|]. destruct (W <=? snd e); [reflexivity|].
  destruct (sr_over endo (fst e)); [reflexivity|]. apply IH.
Qed.

Lemma sr_stuck l count W endo st :
  (count <= sr_collected st \/ forall e, In e l -> sr_ok W endo e = false) ->
  sr_acc (fst (sr_events l count W endo st)) = sr_acc st.
Proof.
  destruct l as [|e t]; cbn [sr_events]; [reflexivity|]. intros [H|H].
  - replace (count <=? sr_collected st) with true by (symmetry; apply N.leb_le; assumption). reflexivity.
  - destruct (count <=? sr_collected st); [reflexivity|].
    specialize (H e (or_introl eq_refl)). unfold sr_ok in H.
    destruct (W <=? snd e) eqn:E1; [reflexivity|]. apply N.leb_gt in E1.
    replace (snd e <? W) with true in H by (symmetry; apply N.ltb_lt; assumption). cbn [andb] in H.
    apply negb_false_iff in H. rewrite H. reflexivity.
Qed.

Lemma sr_events_inner c count W endo : forall st st',
  sr_events c count W endo st = (st', SrInner) ->
  sr_more st' = true /\ exists e, In e c /\ sr_over endo (fst e) = true.
Proof.
  induction c as [|e t IH]; intros st st'; cbn [sr_events]; [discriminate|].
  destruct (count <=? sr_collected st); [discriminate|]. destruct (W <=? snd e); [discriminate|].
  destruct (sr_over endo (fst e)) eqn:E.
  - intros H; injection H as <-. split; [reflexivity|]. exists e. split; [left; reflexivity|assumption].
  - intros H. destruct (IH _ _ H) as [A [x [B C]]]. split; [assumption|]. exists x. split; [right; assumption|assumption].
Qed.

Lemma sr_events_none c count W endo : forall st st',
  sr_events c count W endo st = (st', SrNone) ->
  sr_acc st' = sr_acc st ++ c /\ Forall (fun e => sr_ok W endo e = true) c /\ sr_more st' = sr_more st /\
  (c <> [] -> exists e, In e c /\ sr_last st' = fst e).
Proof.
  induction c as [|e t IH]; intros st st'; cbn [sr_events].
  - intros H; injection H as <-. rewrite app_nil_r. repeat split; [constructor|congruence].
  - destruct (count <=? sr_collected st); [discriminate|]. destruct (W <=? snd e) eqn:E1; [discriminate|].
    destruct (sr_over endo (fst e)) eqn:E2; [discriminate|].
    intros H. destruct (IH _ _ H) as [A [B [C D]]]. cbn [sr_push sr_acc sr_more sr_last] in *.
    split; [rewrite A, <- app_assoc; reflexivity|]. split.
    + constructor; [|assumption]. unfold sr_ok. rewrite E2. apply N.leb_gt in E1.
      replace (snd e <? W) with true by (symmetry; apply N.ltb_lt; assumption). reflexivity.
    + split; [assumption|]. intros _. destruct t as [|e' t'].
      * cbn [sr_events] in H. injection H as <-. exists e. split; [left; reflexivity|reflexivity].
      * destruct (D ltac:(discriminate)) as [x [Hx Hl]]. exists x. split; [right; assumption|assumption].
Qed.

Lemma sr_events_iter_nomore c count W endo : forall st st',
  sr_events c count W endo st = (st', SrIter) -> sr_more st' = false ->
  exists c1 e c3, c = c1 ++ e :: c3 /\ Forall (fun e => sr_ok W endo e = true) c1 /\ sr_ok W endo e = false /\
                  sr_acc st' = sr_acc st ++ c1.
Proof.
  induction c as [|e t IH]; intros st st'; cbn [sr_events]; [discriminate|].
  destruct (count <=? sr_collected st).
  { intros H; injection H as <-. cbn. discriminate. }
  destruct (W <=? snd e) eqn:E1.
  { intros H _; injection H as <-. exists [], e, t. repeat split; [constructor| |rewrite app_nil_r; reflexivity].
    unfold sr_ok. apply N.leb_le in E1. replace (snd e <? W) with false by (symmetry; apply N.ltb_ge; assumption). reflexivity. }
  destruct (sr_over endo (fst e)) eqn:E2; [discriminate|].
  intros H Hm. destruct (IH _ _ H Hm) as [c1 [x [c3 [A [B [C D]]]]]].
  exists (e :: c1), x, c3. cbn [sr_push sr_acc] in D. repeat split.
  - rewrite A. reflexivity.
  - constructor; [|assumption]. unfold sr_ok. rewrite E2. apply N.leb_gt in E1.
    replace (snd e <? W) with true by (symmetry; apply N.ltb_lt; assumption). reflexivity.
  - assumption.
  - rewrite D, <- app_assoc. reflexivity.
Qed.

Lemma sr_events_more_mono c count W endo : forall st,
  sr_more st = true -> sr_more (fst (sr_events c count W endo st)) = true.
Proof.
  induction c as [|e t IH]; intros st H; cbn [sr_events]; [assumption|].
  destruct (count <=? sr_collected st); [reflexivity|]. destruct (W <=? snd e); [assumption|].
  destruct (sr_over endo (fst e)); [reflexivity|]. apply IH. assumption.
Qed.

Lemma sr_limit_pos endo last : (sr_limit endo last =? 0) = false.
Proof. apply N.eqb_neq. unfold sr_limit, cr_batch. destruct endo; lia. Qed.

(** one unfolding of the loop, with the batch bookkeeping (which cannot influence the result) abstracted *)
Lemma sr_loop_step c t left orc count W endo st :
  exists l o,
  sr_loop (c :: t) left orc count W endo st =
  (let '(st', b) := sr_events c count W endo st in
   match b with
   | SrIter => st'
   | _ => if count <=? sr_collected st' then sr_set_more st'
          else if sr_reached endo (sr_last st') then st'
          else sr_loop t l o count W endo st'
   end).
Proof.
  cbn [sr_loop]. destruct (left =? 0).
  - rewrite sr_limit_pos. destruct (cr_next_k orc (sr_limit endo (sr_last st))) as [k orc'].
    exists (k - 1), orc'. reflexivity.
  - exists (left - 1), orc. reflexivity.
Qed.

Lemma sr_loop_more_mono count W endo cs : forall left orc st,
  sr_more st = true -> sr_more (sr_loop cs left orc count W endo st) = true.
Proof.
  induction cs as [|c t IH]; intros left orc st H; [assumption|].
  destruct (sr_loop_step c t left orc count W endo st) as [l [o ->]].
  pose proof (sr_events_more_mono c count W endo st H) as M.
  destruct (sr_events c count W endo st) as [st' b]. cbn [fst] in M.
  destruct b; try assumption;
    (destruct (count <=? sr_collected st'); [reflexivity|destruct (sr_reached endo (sr_last st')); [assumption|apply IH; assumption]]).
Qed.

Definition cr_all_nonempty {A} (cs : list (list A)) : Prop := Forall (fun c => c <> []) cs.

Lemma sr_over_not_ok W endo e : sr_over endo (fst e) = true -> sr_ok W endo e = false.
Proof. intros H. unfold sr_ok. rewrite H. apply andb_false_r. Qed.

Lemma sr_rest_over lo c rest endo x :
  vincr lo (c ++ rest) -> In x c -> (sr_over endo (fst x) = true \/ sr_reached endo (fst x) = true) ->
  forall y, In y rest -> sr_over endo (fst y) = true.
Proof.
  intros Hv Hx Hc y Hy. pose proof (vincr_app_lt _ _ _ Hv x y Hx Hy) as L.
  unfold sr_over, sr_reached in *. destruct endo as [z|]; [|destruct Hc; discriminate].
  apply N.ltb_lt. destruct Hc as [Hc|Hc]; [apply N.ltb_lt in Hc|apply N.leb_le in Hc]; lia.
Qed.

Lemma sr_loop_flat count W endo cs : forall lo left orc st,
  cr_all_nonempty cs -> vincr lo (concat cs) ->
  sr_acc (sr_loop cs left orc count W endo st) = sr_acc (fst (sr_events (concat cs) count W endo st)).
Proof.
  induction cs as [|c t IH]; intros lo left orc st Hne Hv; [reflexivity|].
  inversion Hne as [|? ? Hc Ht]; subst. cbn [concat] in *.
  destruct (sr_loop_step c t left orc count W endo st) as [l [o ->]].
  rewrite sr_events_app. destruct (sr_events c count W endo st) as [st' b] eqn:E.
  pose proof (proj2 (proj1 (vincr_app _ _ _) Hv)) as Hvt.
  destruct b; cbn [fst].
  - (* all of c pushed *)
    destruct (sr_events_none _ _ _ _ _ _ E) as [A [B [C D]]].
    destruct (count <=? sr_collected st') eqn:E1.
    + cbn [sr_set_more sr_acc]. symmetry. apply sr_stuck. left. apply N.leb_le. assumption.
    + destruct (sr_reached endo (sr_last st')) eqn:E2.
      * symmetry. apply sr_stuck. right. intros y Hy. apply sr_over_not_ok.
        destruct (D Hc) as [x [Hx Hl]]. rewrite Hl in E2.
        apply (sr_rest_over lo c (concat t) endo x Hv Hx (or_intror E2) y Hy).
      * apply (IH _ _ _ _ Ht Hvt).
  - (* inner break: an event beyond end_version *)
    destruct (sr_events_inner _ _ _ _ _ _ E) as [_ [x [Hx Ho]]].
    assert (S : sr_acc (fst (sr_events (concat t) count W endo st')) = sr_acc st').
    { apply sr_stuck. right. intros y Hy. apply sr_over_not_ok.
      apply (sr_rest_over lo c (concat t) endo x Hv Hx (or_introl Ho) y Hy). }
    destruct (count <=? sr_collected st'); [reflexivity|].
    destruct (sr_reached endo (sr_last st')); [reflexivity|].
    rewrite (IH _ _ _ _ Ht Hvt). assumption.
  - reflexivity.
Qed.

Lemma sr_events_acc l count W endo : forall st,
  sr_acc (fst (sr_events l count W endo st)) =
  sr_acc st ++ firstn (N.to_nat (count - sr_collected st)) (cr_take_while (sr_ok W endo) l).
Proof.
  induction l as [|e t IH]; intros st; cbn [sr_events cr_take_while].
  - rewrite firstn_nil, app_nil_r. reflexivity.
  - destruct (count <=? sr_collected st) eqn:E1.
    + apply N.leb_le in E1. replace (N.to_nat (count - sr_collected st)) with 0%nat by lia.
      cbn. rewrite app_nil_r. reflexivity.
    + apply N.leb_gt in E1. unfold sr_ok at 1. destruct (W <=? snd e) eqn:E2.
      * apply N.leb_le in E2. replace (snd e <? W) with false by (symmetry; apply N.ltb_ge; assumption).
        cbn [andb fst]. rewrite firstn_nil, app_nil_r. reflexivity.
      * apply N.leb_gt in E2. replace (snd e <? W) with true by (symmetry; apply N.ltb_lt; assumption).
        cbn [andb]. destruct (sr_over endo (fst e)); cbn [negb fst sr_set_more sr_acc].
        -- rewrite firstn_nil, app_nil_r. reflexivity.
        -- rewrite IH. cbn [sr_push sr_acc sr_collected].
           replace (N.to_nat (count - sr_collected st)) with (S (N.to_nat (count - (sr_collected st + 1)))) by lia.
           cbn [firstn]. rewrite <- app_assoc. reflexivity.
Qed.

Lemma cr_take_while_none {A} (p : A -> bool) l : (forall e, In e l -> p e = false) -> cr_take_while p l = [].
Proof. destruct l as [|a t]; cbn; [reflexivity|]. intros H. rewrite (H a (or_introl eq_refl)). reflexivity. Qed.

Lemma sr_loop_complete count W endo cs : forall lo left orc st,
  cr_all_nonempty cs -> vincr lo (concat cs) ->
  sr_more (sr_loop cs left orc count W endo st) = false ->
  sr_acc (sr_loop cs left orc count W endo st) = sr_acc st ++ cr_take_while (sr_ok W endo) (concat cs).
Proof.
  induction cs as [|c t IH]; intros lo left orc st Hne Hv; [cbn; rewrite app_nil_r; reflexivity|].
  inversion Hne as [|? ? Hc Ht]; subst. cbn [concat] in *.
  destruct (sr_loop_step c t left orc count W endo st) as [l [o ->]].
  destruct (sr_events c count W endo st) as [st' b] eqn:E.
  pose proof (proj2 (proj1 (vincr_app _ _ _) Hv)) as Hvt.
  destruct b.
  - destruct (sr_events_none _ _ _ _ _ _ E) as [A [B [C D]]].
    rewrite (cr_take_while_app_all _ _ _ B).
    destruct (count <=? sr_collected st'); [cbn; discriminate|].
    destruct (sr_reached endo (sr_last st')) eqn:E2.
    + intros _. rewrite A, cr_take_while_none; [rewrite app_nil_r; reflexivity|].
      intros y Hy. apply sr_over_not_ok. destruct (D Hc) as [x [Hx Hl]]. rewrite Hl in E2.
      apply (sr_rest_over lo c (concat t) endo x Hv Hx (or_intror E2) y Hy).
    + intros Hm. rewrite (IH _ _ _ _ Ht Hvt Hm), A, <- app_assoc. reflexivity.
  - destruct (sr_events_inner _ _ _ _ _ _ E) as [Hm' _]. intros Hm. exfalso.
    destruct (count <=? sr_collected st'); [cbn in Hm; discriminate|].
    destruct (sr_reached endo (sr_last st')); [congruence|].
    rewrite sr_loop_more_mono in Hm by assumption. discriminate.
  - intros Hm. destruct (sr_events_iter_nomore _ _ _ _ _ _ E Hm) as [c1 [x [c3 [A [B [C D]]]]]].
    rewrite A, <- app_assoc. cbn [app]. rewrite (cr_take_while_app_stop _ _ _ _ B C). assumption.
Qed.

Theorem stream_read_exact : forall cs orc W endo count lo lo',
  cr_all_nonempty cs -> vincr lo (concat cs) -> sincr lo' (concat cs) ->
  fst (stream_read cs orc W endo count) = firstn (N.to_nat count) (filter (sr_ok W endo) (concat cs)).
Proof.
  intros cs orc W endo count lo lo' Hne Hv Hs. unfold stream_read. cbn [fst].
  rewrite (sr_loop_flat _ _ _ _ lo) by assumption. rewrite sr_events_acc. cbn [sr_acc sr_collected app].
  rewrite N.sub_0_r, (cr_take_while_filter _ _ (sr_dc W endo _ _ _ Hv Hs)). reflexivity.
Qed.

Theorem stream_read_has_more : forall cs orc W endo count lo lo',
  cr_all_nonempty cs -> vincr lo (concat cs) -> sincr lo' (concat cs) ->
  snd (stream_read cs orc W endo count) = false ->
  fst (stream_read cs orc W endo count) = filter (sr_ok W endo) (concat cs).
Proof.
  intros cs orc W endo count lo lo' Hne Hv Hs. unfold stream_read. cbn [fst snd]. intros Hm.
  rewrite (sr_loop_complete _ _ _ _ lo) by assumption. cbn [sr_acc app].
  apply cr_take_while_filter. apply (sr_dc W endo _ _ _ Hv Hs).
Qed.

(** gating needs no hypothesis at all on what the iterator yields *)
Theorem stream_read_gated : forall cs orc W endo count e,
  In e (fst (stream_read cs orc W endo count)) -> snd e < W.
Proof.
  intros cs orc W endo count e. unfold stream_read. cbn [fst].
  assert (G : forall l st, (forall x, In x (sr_acc st) -> snd x < W) ->
              forall x, In x (sr_acc (fst (sr_events l count W endo st))) -> snd x < W).
  { induction l as [|a t IH]; intros st Hst; cbn [sr_events]; [exact Hst|].
    destruct (count <=? sr_collected st); [exact Hst|].
    destruct (W <=? snd a) eqn:E2; [exact Hst|]. destruct (sr_over endo (fst a)); [exact Hst|]. apply IH.
    intros x Hx. cbn [sr_push sr_acc] in Hx. apply in_app_or in Hx. destruct Hx as [Hx|[<-|[]]]; [auto|].
    apply N.leb_gt in E2. assumption. }
  assert (L : forall cs left orc st, (forall x, In x (sr_acc st) -> snd x < W) ->
              forall x, In x (sr_acc (sr_loop cs left orc count W endo st)) -> snd x < W).
  { clear cs orc. induction cs as [|c t IH]; intros left orc st Hst; [exact Hst|].
    destruct (sr_loop_step c t left orc count W endo st) as [l [o ->]].
    pose proof (G c st Hst) as Gc. destruct (sr_events c count W endo st) as [st' b]. cbn [fst] in Gc.
    destruct b; try exact Gc;
      (destruct (count <=? sr_collected st'); [exact Gc|destruct (sr_reached endo (sr_last st')); [exact Gc|apply IH; exact Gc]]). }
  apply L. cbn. intros x [].
Qed.

(** ---- GetStreamVersion ---------------------------------------------------------------------------------- *)
Lemma cr_find_app {A} (p : A -> bool) a b : find p (a ++ b) = match find p a with Some x => Some x | None => find p b end.
Proof. induction a as [|x a IH]; cbn; [reflexivity|]. destruct (p x); [reflexivity|assumption]. Qed.

Lemma cr_find_tails {A} (p : A -> bool) g : find p (concat (rev (cr_tails g))) = find p (rev g).
Proof.
  induction g as [|a t IH]; [reflexivity|].
  cbn [cr_tails rev]. rewrite concat_app. cbn [concat]. rewrite app_nil_r.
  rewrite !cr_find_app, IH. destruct (find p (rev t)) eqn:E; [reflexivity|].
  cbn [find]. destruct (p a); [reflexivity|].
  assert (N : forall x, In x t -> p x = false).
  { intros x Hx. apply (find_none _ _ E). apply in_rev in Hx. assumption. }
  clear -N. induction t as [|x t IH]; [reflexivity|]. cbn. rewrite (N x (or_introl eq_refl)). apply IH.
  intros y Hy. apply N. right. assumption.
Qed.

Lemma cr_rev_concat {A} (l : list (list A)) : rev (concat l) = concat (map (@rev A) (rev l)).
Proof.
  induction l as [|g l IH]; [reflexivity|]. cbn [concat rev]. rewrite rev_app_distr, IH, map_app, concat_app.
  cbn. rewrite app_nil_r. reflexivity.
Qed.

Lemma cr_find_rev_commits (p : N * N -> bool) groups :
  find p (concat (cr_rev_commits groups)) = find p (rev (concat groups)).
Proof.
  unfold cr_rev_commits. rewrite cr_rev_concat.
  induction (rev groups) as [|g l IH]; [reflexivity|].
  cbn [map concat]. rewrite concat_app, !cr_find_app, cr_find_tails, IH. reflexivity.
Qed.

(** the answer is the version of the LAST event of the stream that lies below the watermark *)
Theorem stream_version_exact : forall groups W,
  stream_version (cr_rev_commits groups) W =
  match find (fun e => snd e <? W) (rev (concat groups)) with Some e => Some (fst e) | None => None end.
Proof. intros. unfold stream_version. rewrite cr_find_rev_commits. reflexivity. Qed.

Theorem stream_version_gated : forall rcs W v,
  stream_version rcs W = Some v -> exists e, In e (concat rcs) /\ fst e = v /\ snd e < W.
Proof.
  intros rcs W v. unfold stream_version. destruct (find _ _) as [e|] eqn:E; [|discriminate].
  intros H; injection H as <-. apply find_some in E. destruct E as [A B]. exists e. split; [assumption|].
  split; [reflexivity|apply N.ltb_lt; assumption].
Qed.

(** ---- ReadEvent, GetPartitionSequence ------------------------------------------------------------------- *)
Theorem read_event_gated : forall ev q W s, read_event ev q W = Some s -> s < W /\ exists c, ev = Some (s, c) /\ q <= c.
Proof.
  intros [[s' c]|] q W s; cbn; [|discriminate].
  destruct (c <? q) eqn:E1; [discriminate|]. destruct (W <? s' + 1) eqn:E2; [discriminate|].
  intros H; injection H as <-. apply N.ltb_ge in E1, E2. split; [lia|]. exists c. split; [reflexivity|assumption].
Qed.

Theorem read_event_complete : forall s c q W, s < W -> q <= c -> read_event (Some (s, c)) q W = Some s.
Proof.
  intros s c q W H1 H2. cbn. replace (c <? q) with false by (symmetry; apply N.ltb_ge; assumption).
  replace (W <? s + 1) with false by (symmetry; apply N.ltb_ge; lia). reflexivity.
Qed.

Theorem partition_sequence_exact : forall W,
  match partition_sequence W with Some s => s + 1 = W | None => W = 0 end.
Proof. intros W. unfold partition_sequence. destruct (W =? 0) eqn:E; [apply N.eqb_eq in E|apply N.eqb_neq in E]; lia. Qed.

(** ---- what the iterators yield from a log is well-formed ------------------------------------------------- *)
Lemma cr_concat_nonempty {A} (l : list (list A)) : concat (cr_nonempty l) = concat l.
Proof. unfold cr_nonempty. induction l as [|g l IH]; cbn; [reflexivity|]. destruct g; cbn; rewrite IH; reflexivity. Qed.

Lemma cr_nonempty_all {A} (l : list (list A)) : cr_all_nonempty (cr_nonempty l).
Proof.
  unfold cr_all_nonempty, cr_nonempty. apply Forall_forall. intros g Hg. apply filter_In in Hg.
  destruct Hg as [_ Hg]. destruct g; [discriminate|discriminate].
Qed.

Lemma cr_concat_map_filter {A} (p : A -> bool) l : concat (map (filter p) l) = filter p (concat l).
Proof. induction l as [|g l IH]; cbn; [reflexivity|]. rewrite filter_app, IH. reflexivity. Qed.

Section Keyed.
  Variable key : N * N -> N.
  Fixpoint kincr (lo : N) (l : list (N * N)) : Prop :=
    match l with [] => True | e :: t => lo <= key e /\ kincr (key e + 1) t end.
  Fixpoint knxt (lo : N) (l : list (N * N)) : N := match l with [] => lo | e :: t => knxt (key e + 1) t end.

  Lemma kincr_weaken lo lo' l : lo' <= lo -> kincr lo l -> kincr lo' l.
  Proof. destruct l; cbn; [tauto|]. intros H [A B]. split; [lia|assumption]. Qed.
  Lemma kincr_app lo a b : kincr lo (a ++ b) <-> kincr lo a /\ kincr (knxt lo a) b.
  Proof. revert lo; induction a as [|e a IH]; intros lo; cbn; [tauto|]. rewrite IH. tauto. Qed.
  Lemma knxt_mono lo lo' l : lo <= lo' -> knxt lo l <= knxt lo' l.
  Proof. destruct l; cbn; [tauto|lia]. Qed.
  Lemma kincr_filter p lo l : kincr lo l -> kincr lo (filter p l).
  Proof.
    revert lo; induction l as [|e t IH]; intros lo; cbn; [tauto|]. intros [A B]. destruct (p e); cbn.
    - split; [assumption|auto].
    - apply (kincr_weaken (key e + 1)); [lia|auto].
  Qed.
  Lemma kincr_raise lo lo' l : kincr lo l -> (forall e, In e l -> lo' <= key e) -> kincr lo' l.
  Proof. destruct l; cbn; [tauto|]. intros [A B] H. split; [apply H; left; reflexivity|assumption]. Qed.
End Keyed.

Lemma vincr_kincr lo l : vincr lo l <-> kincr fst lo l.
Proof. revert lo; induction l as [|e t IH]; intros lo; cbn; [tauto|]. rewrite IH. tauto. Qed.
Lemma sincr_kincr lo l : sincr lo l <-> kincr snd lo l.
Proof. revert lo; induction l as [|e t IH]; intros lo; cbn; [tauto|]. rewrite IH. tauto. Qed.

Lemma incr_range s n : incr s (cr_range s n) /\ nxt s (cr_range s n) = s + N.of_nat n.
Proof.
  revert s; induction n as [|n IH]; intros s; cbn [cr_range incr nxt]; [split; [exact I|lia]|].
  destruct (IH (s + 1)) as [A B]. split; [split; [lia|assumption]|]. rewrite B. lia.
Qed.

Lemma nxt_mono lo lo' l : lo <= lo' -> nxt lo l <= nxt lo' l.
Proof. destruct l; cbn; [tauto|lia]. Qed.

Lemma nxt_filter_le p lo l : incr lo l -> nxt lo (filter p l) <= nxt lo l.
Proof.
  revert lo; induction l as [|e t IH]; intros lo; cbn; [lia|]. intros [A B]. destruct (p e); cbn.
  - auto.
  - specialize (IH (e + 1) B). pose proof (nxt_mono lo (e + 1) (filter p t) ltac:(lia)). lia.
Qed.

Lemma incr_raise lo lo' l : incr lo l -> (forall e, In e l -> lo' <= e) -> incr lo' l.
Proof. destruct l; cbn; [tauto|]. intros [A B] H. split; [apply H; left; reflexivity|assumption]. Qed.

Lemma cr_pcommits_incr log : forall seq start, incr seq (concat (cr_pcommits log seq start)).
Proof.
  induction log as [|c t IH]; intros seq start; cbn [cr_pcommits concat]; [exact I|].
  destruct (incr_range seq (length c)) as [A B].
  apply incr_app. split; [apply incr_filter; assumption|].
  apply (incr_weaken (seq + N.of_nat (length c))); [|apply IH].
  rewrite <- B. apply nxt_filter_le. assumption.
Qed.

Lemma cr_pcommits_ge log : forall seq start e, In e (concat (cr_pcommits log seq start)) -> start <= e.
Proof.
  induction log as [|c t IH]; intros seq start e; cbn [cr_pcommits concat]; [intros []|].
  intros H. apply in_app_or in H. destruct H as [H|H]; [|eauto].
  apply filter_In in H. destruct H as [_ H]. apply N.leb_le. assumption.
Qed.

Theorem partition_commits_wf : forall log start, incr start (concat (cr_partition_commits log start)).
Proof.
  intros. unfold cr_partition_commits. rewrite cr_concat_nonempty.
  apply (incr_raise 0); [apply cr_pcommits_incr|apply cr_pcommits_ge].
Qed.

Lemma cr_sview_commit_wf x c : forall ver seq g v',
  cr_sview_commit x c ver seq = (g, v') ->
  kincr fst ver g /\ knxt fst ver g = v' /\ kincr snd seq g /\ knxt snd seq g <= seq + N.of_nat (length c).
Proof.
  induction c as [|[s k] t IH]; intros ver seq g v'; cbn [cr_sview_commit].
  - intros H; injection H as <- <-. cbn. repeat split; lia.
  - destruct (s =? x).
    + destruct (cr_sview_commit x t (ver + 1) (seq + 1)) as [r v1] eqn:E. intros H; injection H as <- <-.
      destruct (IH _ _ _ _ E) as [A [B [C D]]]. cbn [kincr knxt fst snd length]. repeat split; try assumption; lia.
    + intros H. destruct (IH _ _ _ _ H) as [A [B [C D]]]. repeat split; try assumption.
      * apply (kincr_weaken snd (seq + 1)); [lia|assumption].
      * pose proof (knxt_mono snd seq (seq + 1) g ltac:(lia)). cbn [length]. lia.
Qed.

Lemma cr_sview_wf x log : forall ver seq,
  kincr fst ver (concat (cr_sview x log ver seq)) /\ kincr snd seq (concat (cr_sview x log ver seq)).
Proof.
  induction log as [|c t IH]; intros ver seq; cbn [cr_sview concat]; [split; exact I|].
  destruct (cr_sview_commit x c ver seq) as [g v'] eqn:E. cbn [concat].
  destruct (cr_sview_commit_wf _ _ _ _ _ _ E) as [A [B [C D]]].
  destruct (IH v' (seq + N.of_nat (length c))) as [F G]. split; apply kincr_app; split; try assumption.
  - rewrite B. assumption.
  - apply (kincr_weaken snd (seq + N.of_nat (length c))); assumption.
Qed.

Theorem stream_commits_wf : forall x log start,
  let cs := cr_stream_commits x log start in
  cr_all_nonempty cs /\ vincr start (concat cs) /\ sincr 0 (concat cs).
Proof.
  intros x log start. cbn zeta. unfold cr_stream_commits. split; [apply cr_nonempty_all|].
  rewrite cr_concat_nonempty, cr_concat_map_filter. destruct (cr_sview_wf x log 0 0) as [A B]. split.
  - apply vincr_kincr. apply (kincr_raise fst 0); [apply kincr_filter; assumption|].
    intros e He. apply filter_In in He. destruct He as [_ He]. apply N.leb_le. assumption.
  - apply sincr_kincr. apply kincr_filter. assumption.
Qed.

(** ---- the watermark of a node started on a log, and what lies below it ---------------------------------- *)
Definition cr_watermark (rf : N) (log : cr_log) : N := wm_mark (wm_initialize rf wm_init (cr_counts log)).

Theorem below_watermark_confirmed : forall rf log s,
  s < cr_watermark rf log -> wm_quorum rf <= nth (N.to_nat s) (cr_counts log) 0.
Proof.
  intros rf log s H. unfold cr_watermark in H.
  destruct (wm_fresh_start_exact rf (cr_counts log)) as [A _].
  specialize (A (s + 1) ltac:(lia) ltac:(lia)). unfold wm_disk_count in A.
  pose proof (wm_quorum_pos rf).
  destruct ((0 <? s + 1) && (s + 1 <=? N.of_nat (length (cr_counts log)))); [|lia].
  replace (s + 1 - 1) with s in A by lia. assumption.
Qed.

(** the same for a running node: after start-up on [log] and ANY sequence of confirmation reports (late, out
    of order, duplicated, some versions never confirmed) the watermark is the longest quorum prefix of the best
    count known per version (on disk at start-up, or reported) *)
Definition cr_live_reports (log : cr_log) (reports : list (N * N)) : list (N * N) :=
  wm_number 0 (cr_counts log) ++ reports.

Theorem live_watermark_exact : forall rf log reports,
  wm_is_prefix (wm_quorum rf) (wm_best (cr_live_reports log reports)) (cr_live_watermark rf log reports).
Proof.
  intros rf log reports. unfold cr_live_watermark, cr_live_state, wm_initialize.
  cbn [wm_mark wm_init N.to_nat skipn]. rewrite wm_rescan_fold, <- fold_left_app.
  apply (wm_exact rf (wm_number 0 (cr_counts log) ++ reports)).
Qed.

Theorem live_below_watermark_confirmed : forall rf log reports s,
  s < cr_live_watermark rf log reports -> wm_quorum rf <= wm_best (cr_live_reports log reports) (s + 1).
Proof.
  intros rf log reports s H. destruct (live_watermark_exact rf log reports) as [A _]. apply A; lia.
Qed.
