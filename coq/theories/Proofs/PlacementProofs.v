(** Proofs for Model/Placement.v (C13, C14). *)
From Coq Require Import NArith ZArith List Bool Lia.
From Coq Require Import ZifyBool ZifyNat ZifyN.
From SV Require Import Lib.ListX Model.Topology Model.Placement.
Import ListNotations.
Open Scope N_scope.

(** * ranges *)
Lemma nrange_from_In f : forall s x, In x (nrange_from f s) <-> s <= x < s + N.of_nat f.
Proof.
  induction f as [|f IH]; intros s x; cbn [nrange_from In].
  - lia.
  - rewrite IH. lia.
Qed.

Lemma nrange_In n x : In x (nrange n) <-> x < n.
Proof. unfold nrange. rewrite nrange_from_In. lia. Qed.

Lemma nrange_from_NoDup f : forall s, NoDup (nrange_from f s).
Proof.
  induction f as [|f IH]; intros s; cbn [nrange_from]; constructor.
  - rewrite nrange_from_In. lia.
  - apply IH.
Qed.

Lemma nrange_NoDup n : NoDup (nrange n).
Proof. apply nrange_from_NoDup. Qed.

Lemma nrange_from_length f s : length (nrange_from f s) = f.
Proof. revert s; induction f as [|f IH]; intros s; cbn; [reflexivity|rewrite IH; reflexivity]. Qed.

Lemma nrange_length n : length (nrange n) = N.to_nat n.
Proof. apply nrange_from_length. Qed.

Lemma nrange_from_nth f : forall s k d, (k < f)%nat -> nth k (nrange_from f s) d = s + N.of_nat k.
Proof.
  induction f as [|f IH]; intros s k d H; [lia|].
  destruct k as [|k]; cbn [nrange_from nth]; [lia|]. rewrite IH by lia. lia.
Qed.

Lemma nrange_nth n q d : q < n -> nth (N.to_nat q) (nrange n) d = q.
Proof. intros H. unfold nrange. rewrite nrange_from_nth by lia. lia. Qed.

Lemma nmem_In x l : nmem x l = true <-> In x l.
Proof.
  unfold nmem. rewrite existsb_exists. split.
  - intros [y [Hy He]]. apply N.eqb_eq in He. subst. assumption.
  - intros H. exists x. split; [assumption|apply N.eqb_refl].
Qed.

Lemma filter_false {A} (f : A -> bool) l : (forall x, In x l -> f x = false) -> filter f l = [].
Proof.
  induction l as [|a l IH]; intros H; cbn; [reflexivity|].
  rewrite (H a (or_introl eq_refl)). apply IH. intros x Hx. apply H. right. assumption.
Qed.

Lemma NoDup_map_inj {A B} (f : A -> B) l :
  (forall x y, In x l -> In y l -> f x = f y -> x = y) -> NoDup l -> NoDup (map f l).
Proof.
  induction l as [|a l IH]; intros Hinj Hnd; cbn; [constructor|].
  inversion Hnd as [|? ? Ha Hl]; subst. constructor.
  - rewrite in_map_iff. intros [y [Hy Hin]]. apply Ha.
    assert (y = a) by (apply Hinj; [right; assumption|left; reflexivity|assumption]). subst. assumption.
  - apply IH; [|assumption]. intros x y Hx Hy. apply Hinj; right; assumption.
Qed.

(** * modular arithmetic of the replica window *)
Lemma mod_lt2 a n : 0 < n -> a < 2 * n -> a mod n = if a <? n then a else a - n.
Proof.
  intros Hn Ha. destruct (a <? n) eqn:E.
  - apply N.mod_small. lia.
  - replace a with ((a - n) + 1 * n) at 1 by lia. rewrite N.mod_add by lia. apply N.mod_small. lia.
Qed.

Lemma eff_rf_le m rf n : eff_rf m rf n <= n.
Proof.
  destruct m; cbn [eff_rf]; [lia|].
  destruct (N.eq_dec n 0) as [->|Hn]; [cbn; lia|].
  pose proof (N.mod_le n 256 ltac:(lia)). lia.
Qed.

Lemma in_window_spec n erf s i : 0 < n -> erf <= n -> s < n -> i < n ->
  in_window n erf s i = ((i + n - s) mod n <? erf).
Proof.
  intros Hn He Hs Hi. unfold in_window.
  rewrite (mod_lt2 (i + n - s) n) by lia.
  apply eq_true_iff_eq. rewrite existsb_exists. split.
  - intros [k [Hk Heq]]. apply nrange_In in Hk. apply N.eqb_eq in Heq.
    rewrite (mod_lt2 (s + k) n) in Heq by lia.
    destruct (s + k <? n) eqn:E1; destruct (i + n - s <? n) eqn:E2; lia.
  - intros H. exists (if i + n - s <? n then i + n - s else i + n - s - n). split.
    + apply nrange_In. destruct (i + n - s <? n); lia.
    + apply N.eqb_eq. destruct (i + n - s <? n) eqn:E2.
      * rewrite mod_lt2 by lia. destruct (s + (i + n - s) <? n) eqn:E3; lia.
      * rewrite mod_lt2 by lia. destruct (s + (i + n - s - n) <? n) eqn:E3; lia.
Qed.

Lemma window_inj n s k k' : 0 < n -> s < n -> k < n -> k' < n -> (s + k) mod n = (s + k') mod n -> k = k'.
Proof.
  intros Hn Hs Hk Hk'. rewrite !mod_lt2 by lia.
  destruct (s + k <? n) eqn:E1; destruct (s + k' <? n) eqn:E2; lia.
Qed.

(** * replica indices *)
Lemma replica_indices_In m n b rf q i :
  In i (replica_indices m n b rf q) <-> in_window n (eff_rf m rf n) ((q mod b) mod n) i = true.
Proof.
  unfold replica_indices, in_window. rewrite in_map_iff, existsb_exists. split.
  - intros [k [He Hk]]. exists k. split; [assumption|]. apply N.eqb_eq. assumption.
  - intros [k [Hk He]]. exists k. apply N.eqb_eq in He. split; assumption.
Qed.

Lemma replica_indices_length m n b rf q : length (replica_indices m n b rf q) = N.to_nat (eff_rf m rf n).
Proof. unfold replica_indices. rewrite map_length. apply nrange_length. Qed.

Lemma replica_indices_lt m n b rf q i : 0 < n -> In i (replica_indices m n b rf q) -> i < n.
Proof.
  intros Hn. unfold replica_indices. rewrite in_map_iff. intros [k [<- _]]. apply N.mod_lt. lia.
Qed.

Lemma replica_indices_NoDup m n b rf q : 0 < n -> NoDup (replica_indices m n b rf q).
Proof.
  intros Hn. unfold replica_indices. apply NoDup_map_inj; [|apply nrange_NoDup].
  intros x y Hx Hy. apply nrange_In in Hx, Hy. pose proof (eff_rf_le m rf n).
  apply window_inj; try lia; apply N.mod_lt; lia.
Qed.

(** * C13: the server's placement is the topology's placement *)
Lemma cfg_topo_bucket n idx b rf bk : 0 < n -> idx < n ->
  cfg_bucket_owned n idx b rf bk = topo_bucket_owned RfWide n b rf idx bk.
Proof.
  intros Hn Hi. unfold cfg_bucket_owned, topo_bucket_owned. f_equal.
  rewrite in_window_spec; [reflexivity|lia|cbn; lia|apply N.mod_lt; lia|assumption].
Qed.

Lemma topo_assigned_gen_some m n b p rf i : 0 < n -> 0 < b ->
  topo_assigned_gen m n b p rf i = Some (filter (fun q => topo_bucket_owned m n b rf i (q mod b)) (nrange p)).
Proof.
  intros Hn Hb. unfold topo_assigned_gen.
  replace (n =? 0) with false by (symmetry; apply N.eqb_neq; lia).
  replace (b =? 0) with false by (symmetry; apply N.eqb_neq; lia).
  rewrite !andb_false_r. reflexivity.
Qed.

Lemma topo_assigned_In n b p rf i q : 0 < n -> 0 < b ->
  In q (topo_assigned n b p rf i) <-> q < p /\ In i (replica_indices RfWide n b rf q).
Proof.
  intros Hn Hb. unfold topo_assigned. rewrite topo_assigned_gen_some by assumption.
  rewrite filter_In, nrange_In, replica_indices_In. unfold topo_bucket_owned.
  assert (q mod b < b) by (apply N.mod_lt; lia).
  replace (q mod b <? b) with true by (symmetry; apply N.ltb_lt; assumption). cbn [andb]. reflexivity.
Qed.

Lemma cfg_validate_spec n idx b p rf : cfg_validate n idx b p rf = true ->
  0 < b /\ 0 < n /\ idx < n /\ 0 < p /\ 0 < rf /\ rf <= MAX_RF /\ rf <= n /\ n <= p /\ b <= p.
Proof. unfold cfg_validate. rewrite !andb_true_iff. lia. Qed.

Lemma cfg_buckets_In n idx b rf bk : In bk (cfg_buckets n idx b rf) <-> cfg_bucket_owned n idx b rf bk = true.
Proof.
  unfold cfg_buckets. rewrite filter_In, nrange_In. unfold cfg_bucket_owned. rewrite andb_true_iff. lia.
Qed.

Lemma placement_agree n idx b p rf : cfg_validate n idx b p rf = true ->
  let cb := cfg_buckets n idx b rf in
  let tp := topo_assigned n b p rf idx in
  topo_assigned_gen RfWide n b p rf idx = Some tp /\
  cfg_partitions n idx b p rf = tp /\
  (forall bk, In bk cb <-> exists q, In q tp /\ q mod b = bk) /\
  (forall q, q < p -> (In q tp <-> In (q mod b) cb)) /\
  (forall q, q < p -> (In idx (replica_indices RfWide n b rf q) <-> In (q mod b) cb)).
Proof.
  intros Hv. apply cfg_validate_spec in Hv. destruct Hv as (Hb & Hn & Hi & Hp & Hrf & Hmax & Hrn & Hnp & Hbp).
  cbv zeta.
  assert (Htp : topo_assigned n b p rf idx = filter (fun q => topo_bucket_owned RfWide n b rf idx (q mod b)) (nrange p)).
  { unfold topo_assigned. rewrite topo_assigned_gen_some by assumption. reflexivity. }
  assert (Hq : forall q, q < p -> (In q (topo_assigned n b p rf idx) <-> In (q mod b) (cfg_buckets n idx b rf))).
  { intros q Hqp. rewrite Htp, filter_In, nrange_In, cfg_buckets_In, cfg_topo_bucket by assumption. tauto. }
  repeat split.
  - rewrite Htp. apply topo_assigned_gen_some; assumption.
  - rewrite Htp. unfold cfg_partitions. apply filter_ext. intros q. apply cfg_topo_bucket; assumption.
  - intros Hin. exists bk. assert (bk < b).
    { apply cfg_buckets_In in Hin. unfold cfg_bucket_owned in Hin. apply andb_true_iff in Hin. lia. }
    assert (bk mod b = bk) by (apply N.mod_small; assumption).
    split; [|assumption]. apply Hq; [lia|]. congruence.
  - intros [q [Hin <-]]. apply Hq; [|assumption]. rewrite Htp in Hin. apply filter_In in Hin. apply nrange_In, Hin.
  - apply Hq; assumption.
  - apply Hq; assumption.
  - intros Hin. rewrite cfg_buckets_In, cfg_topo_bucket by assumption. unfold topo_bucket_owned.
    apply replica_indices_In in Hin. rewrite Hin.
    assert (q mod b < b) by (apply N.mod_lt; lia). apply andb_true_iff. split; [apply N.ltb_lt; assumption|reflexivity].
  - intros Hin. rewrite cfg_buckets_In, cfg_topo_bucket in Hin by assumption. unfold topo_bucket_owned in Hin.
    apply andb_true_iff in Hin. apply replica_indices_In. apply Hin.
Qed.

Lemma placement_contig_refuted :
  cfg_validate 2 0 4 4 1 = true /\ cfg_buckets_contig 2 0 4 1 = [0; 1] /\ topo_assigned 2 4 4 1 0 = [0; 2].
Proof. vm_compute. repeat split. Qed.

Lemma placement_u8_refuted :
  cfg_validate 256 0 4 512 3 = true /\ cfg_buckets 256 0 4 3 = [0] /\ topo_assigned_gen RfU8 256 4 512 3 0 = Some [].
Proof. vm_compute. repeat split. Qed.
(** * association lists, cluster sets *)
Lemma alookup_In k v l : alookup k l = Some v -> In (k, v) l.
Proof.
  induction l as [|[k' v'] l IH]; cbn [alookup]; [discriminate|].
  destruct (N.eqb_spec k' k) as [->|Hne]; intros H.
  - injection H as <-. left. reflexivity.
  - right. apply IH. assumption.
Qed.

Lemma In_alookup k v l : NoDup (map fst l) -> In (k, v) l -> alookup k l = Some v.
Proof.
  induction l as [|[k' v'] l IH]; cbn [alookup map fst]; intros Hnd Hin; [destruct Hin|].
  inversion Hnd as [|? ? Hk Hl]; subst.
  destruct Hin as [He|Hin].
  - injection He as -> ->. rewrite N.eqb_refl. reflexivity.
  - destruct (N.eqb_spec k' k) as [->|Hne].
    + exfalso. apply Hk. apply (in_map fst) in Hin. assumption.
    + apply IH; assumption.
Qed.

Lemma aremove_In e k l : In e (aremove k l) <-> In e l /\ fst e <> k.
Proof.
  unfold aremove. rewrite filter_In. rewrite negb_true_iff, N.eqb_neq. reflexivity.
Qed.

Lemma NoDup_map_filter {A B} (f : A -> B) g l : NoDup (map f l) -> NoDup (map f (filter g l)).
Proof.
  induction l as [|a l IH]; cbn; intros H; [constructor|].
  inversion H as [|? ? Ha Hl]; subst. destruct (g a); cbn.
  - constructor; [|apply IH; assumption]. rewrite in_map_iff. intros [y [Hy Hin]].
    apply filter_In in Hin. apply Ha. rewrite <- Hy. apply in_map. apply Hin.
  - apply IH. assumption.
Qed.

Lemma aset_In e k v l : In e (aset k v l) <-> e = (k, v) \/ (In e l /\ fst e <> k).
Proof. unfold aset. cbn [In]. rewrite aremove_In. split; intros [H|H]; auto. Qed.

Lemma aset_NoDup k v l : NoDup (map fst l) -> NoDup (map fst (aset k v l)).
Proof.
  intros H. unfold aset. cbn [map fst]. constructor.
  - rewrite in_map_iff. intros [e [He Hin]]. apply aremove_In in Hin. destruct Hin as [_ Hne]. contradiction.
  - apply NoDup_map_filter. assumption.
Qed.

Lemma cl_add_In x y cl : In x (cl_add y cl) <-> x = y \/ In x cl.
Proof.
  unfold cl_add. destruct (nmem y cl) eqn:E.
  - apply nmem_In in E. split; [auto|]. intros [->|H]; assumption.
  - cbn [In]. split; intros [H|H]; auto.
Qed.

Lemma cl_remove_In x y cl : In x (cl_remove y cl) <-> In x cl /\ x <> y.
Proof. unfold cl_remove. rewrite filter_In, negb_true_iff, N.eqb_neq. reflexivity. Qed.

Lemma fold_cl_add_In ys : forall cl x,
  In x (fold_left (fun acc y => cl_add y acc) ys cl) <-> In x ys \/ In x cl.
Proof.
  induction ys as [|y ys IH]; intros cl x; cbn [fold_left In].
  - tauto.
  - rewrite IH, cl_add_In. split; intros H; decompose [or] H; auto.
Qed.

(** * known nodes *)
Lemma known_at_some act cl i x : known_at act cl i = Some x -> exists a, In (x, (a, i)) act /\ In x cl.
Proof.
  induction act as [|[y [a j]] act IH]; cbn [known_at]; [discriminate|].
  destruct ((j =? i) && nmem y cl) eqn:E; intros H.
  - injection H as <-. apply andb_true_iff in E. destruct E as [Ej Em].
    apply N.eqb_eq in Ej. subst. apply nmem_In in Em. exists a. split; [left; reflexivity|assumption].
  - destruct (IH H) as [a' [Hin Hcl]]. exists a'. split; [right; assumption|assumption].
Qed.

Lemma known_at_none act cl i : known_at act cl i = None -> forall x a, In (x, (a, i)) act -> ~ In x cl.
Proof.
  induction act as [|[y [a j]] act IH]; cbn [known_at]; intros H x a' Hin; [destruct Hin|].
  destruct ((j =? i) && nmem y cl) eqn:E; [discriminate|].
  destruct Hin as [He|Hin].
  - injection He as -> -> ->. rewrite N.eqb_refl in E. cbn [andb] in E.
    intros Hc. apply nmem_In in Hc. congruence.
  - apply (IH H x a'). assumption.
Qed.

Lemma known_empty_none act cl : known_empty act cl = true -> forall i, known_at act cl i = None.
Proof.
  unfold known_empty. rewrite forallb_forall. intros H i.
  destruct (known_at act cl i) as [x|] eqn:E; [|reflexivity].
  apply known_at_some in E. destruct E as [a [Hin Hcl]]. specialize (H _ Hin). cbn [fst] in H.
  apply nmem_In in Hcl. rewrite Hcl in H. discriminate.
Qed.

Definition pick (act : amap) (cl : list N) (i : N) : list N :=
  match known_at act cl i with Some x => [x] | None => [] end.

Lemma flat_map_nil {A B} (f : A -> list B) l : (forall x, In x l -> f x = []) -> flat_map f l = [].
Proof.
  induction l as [|a l IH]; intros H; cbn; [reflexivity|].
  rewrite (H a (or_introl eq_refl)). apply IH. intros x Hx. apply H. right. assumption.
Qed.

Lemma flat_map_ext_in' {A B} (f g : A -> list B) l : (forall x, In x l -> f x = g x) -> flat_map f l = flat_map g l.
Proof.
  induction l as [|a l IH]; intros H; cbn; [reflexivity|].
  rewrite (H a (or_introl eq_refl)). f_equal. apply IH. intros x Hx. apply H. right. assumption.
Qed.

Lemma calc_replicas_eq c act cl q : 0 < c_b c -> 0 < c_n c ->
  calc_replicas c act cl q =
  (let r := flat_map (pick act cl) (replica_indices (c_mode c) (c_n c) (c_b c) (c_rf c) q) in
   if MAX_RF <? N.of_nat (length r) then None else Some r).
Proof.
  intros Hb Hn. unfold calc_replicas.
  replace (c_b c =? 0) with false by (symmetry; apply N.eqb_neq; lia).
  replace (c_n c =? 0) with false by (symmetry; apply N.eqb_neq; lia). cbn [orb].
  fold (pick act cl).
  destruct (known_empty act cl) eqn:E; [|reflexivity].
  rewrite flat_map_nil; [reflexivity|]. intros i _. unfold pick. rewrite known_empty_none by assumption. reflexivity.
Qed.

Lemma pick_length_le act cl l : (length (flat_map (pick act cl) l) <= length l)%nat.
Proof.
  induction l as [|i l IH]; cbn; [lia|]. rewrite app_length. unfold pick at 1.
  destruct (known_at act cl i); cbn; lia.
Qed.

(** * all_some *)
Lemma all_some_map_nth {A B} (f : A -> option B) l : forall t, all_some (map f l) = Some t ->
  length t = length l /\ forall k d d', (k < length l)%nat -> f (nth k l d) = Some (nth k t d').
Proof.
  induction l as [|a l IH]; cbn [map all_some]; intros t H.
  - injection H as <-. split; [reflexivity|]. cbn. intros; lia.
  - destruct (f a) as [y|] eqn:Ea; [|discriminate].
    destruct (all_some (map f l)) as [t'|] eqn:Et; [|discriminate]. injection H as <-.
    destruct (IH t' eq_refl) as [Hl Hn]. split; [cbn; lia|].
    intros [|k] d d' Hk; cbn [nth]; [assumption|]. apply Hn. cbn in Hk. lia.
Qed.

Lemma all_some_map_ext {A B} (f g : A -> option B) l :
  (forall x, In x l -> f x = g x) -> all_some (map f l) = all_some (map g l).
Proof. intros H. f_equal. apply map_ext_in. assumption. Qed.

Lemma all_some_map_total {A B} (f : A -> option B) l :
  (forall x, In x l -> f x <> None) -> all_some (map f l) <> None.
Proof.
  induction l as [|a l IH]; cbn [map all_some]; intros H; [discriminate|].
  destruct (f a) eqn:Ea; [|exfalso; apply (H a (or_introl eq_refl)); assumption].
  destruct (all_some (map f l)) eqn:Et; [discriminate|].
  exfalso. apply IH; [|first [assumption|reflexivity]]. intros x Hx. apply H. right. assumption.
Qed.

Lemma recalc_nth c act cl rs : recalc c act cl = Some rs ->
  length rs = N.to_nat (c_p c) /\
  forall q, q < c_p c -> calc_replicas c act cl q = Some (nth (N.to_nat q) rs []).
Proof.
  unfold recalc. intros H. apply all_some_map_nth in H. destruct H as [Hl Hn].
  rewrite nrange_length in *. split; [assumption|]. intros q Hq.
  rewrite <- (Hn (N.to_nat q) 0 []) by lia. rewrite nrange_nth by assumption. reflexivity.
Qed.

Lemma recalc_ext c act cl act' cl' : 0 < c_b c -> 0 < c_n c ->
  (forall q i, q < c_p c -> In i (replica_indices (c_mode c) (c_n c) (c_b c) (c_rf c) q) ->
     known_at act cl i = known_at act' cl' i) ->
  recalc c act cl = recalc c act' cl'.
Proof.
  intros Hb Hn H. unfold recalc. apply all_some_map_ext. intros q Hq. apply nrange_In in Hq.
  rewrite !calc_replicas_eq by assumption. cbv zeta.
  assert (E : flat_map (pick act cl) (replica_indices (c_mode c) (c_n c) (c_b c) (c_rf c) q)
            = flat_map (pick act' cl') (replica_indices (c_mode c) (c_n c) (c_b c) (c_rf c) q)).
  { apply flat_map_ext_in'. intros i Hi. unfold pick. rewrite (H q i Hq Hi). reflexivity. }
  rewrite E. reflexivity.
Qed.

Lemma mk_recalc_inv c act cl s : mk_recalc c act cl = Some s ->
  ts_active s = act /\ ts_cluster s = cl /\ recalc c act cl = Some (ts_replicas s).
Proof.
  unfold mk_recalc. destruct (recalc c act cl) as [r|]; [|discriminate].
  intros H. injection H as <-. cbn. auto.
Qed.
(** * invariants of the membership transition system *)
Definition relevant (c : tcfg) (i : N) : Prop :=
  exists q, q < c_p c /\ In i (replica_indices (c_mode c) (c_n c) (c_b c) (c_rf c) q).

Record Inv0 (W : world) (l : N) (act : amap) (cl : list N) : Prop := {
  i_wf : forall x a i, In (x, (a, i)) act -> In x (w_peers W) /\ a = w_alive W x /\ i = w_idx W x;
  i_cl : forall x a i, In (x, (a, i)) act -> relevant (w_cfg W) i -> In x cl;
  i_nd : NoDup (map fst act);
  i_me : In l cl /\ In l (w_peers W)
}.

Definition Inv (W : world) (l : N) (s : tstate) : Prop :=
  recalc (w_cfg W) (ts_active s) (ts_cluster s) = Some (ts_replicas s) /\
  Inv0 W l (ts_active s) (ts_cluster s).

Lemma known_at_iff W l act cl i x : wf_world W -> Inv0 W l act cl ->
  (known_at act cl i = Some x <-> exists a, In (x, (a, i)) act /\ In x cl).
Proof.
  intros (_ & _ & Hinj) HI. split; [apply known_at_some|].
  intros [a [Hin Hcl]]. destruct (known_at act cl i) as [y|] eqn:E.
  - apply known_at_some in E. destruct E as [a' [Hin' _]].
    destruct (i_wf _ _ _ _ HI _ _ _ Hin) as (Hpx & _ & Hix).
    destruct (i_wf _ _ _ _ HI _ _ _ Hin') as (Hpy & _ & Hiy).
    f_equal. apply Hinj; congruence.
  - exfalso. exact (known_at_none _ _ _ E _ _ Hin Hcl).
Qed.

Lemma known_at_ext W l l' act cl act' cl' i : wf_world W -> Inv0 W l act cl -> Inv0 W l' act' cl' ->
  (forall x a, In (x, (a, i)) act /\ In x cl <-> In (x, (a, i)) act' /\ In x cl') ->
  known_at act cl i = known_at act' cl' i.
Proof.
  intros HW HI HI' H.
  destruct (known_at act cl i) as [x|] eqn:E1.
  - symmetry. apply (known_at_iff W l act cl i x HW HI) in E1. destruct E1 as [a Ha].
    apply (known_at_iff W l' act' cl' i x HW HI'). exists a. apply H. assumption.
  - destruct (known_at act' cl' i) as [y|] eqn:E2; [|reflexivity].
    apply (known_at_iff W l' act' cl' i y HW HI') in E2. destruct E2 as [a Ha].
    assert (E : known_at act cl i = Some y).
    { apply (known_at_iff W l act cl i y HW HI). exists a. apply H. assumption. }
    congruence.
Qed.

Lemma Inv0_init W l : In l (w_peers W) -> Inv0 W l [(l, (w_alive W l, w_idx W l))] [l].
Proof.
  intros Hl. constructor.
  - intros x a i [He|[]]. injection He as <- <- <-. auto.
  - intros x a i [He|[]] _. injection He as <- <- <-. left. reflexivity.
  - cbn. constructor; [intros []|constructor].
  - split; [left; reflexivity|assumption].
Qed.

Lemma Inv0_aset W l act cl x : Inv0 W l act cl -> In x (w_peers W) ->
  Inv0 W l (aset x (w_alive W x, w_idx W x) act) (cl_add x cl).
Proof.
  intros HI Hx. constructor.
  - intros y a i Hin. apply aset_In in Hin. destruct Hin as [He|[Hin _]].
    + injection He as -> -> ->. auto.
    + exact (i_wf _ _ _ _ HI _ _ _ Hin).
  - intros y a i Hin Hrel. apply cl_add_In. apply aset_In in Hin. destruct Hin as [He|[Hin _]].
    + injection He as -> -> ->. left. reflexivity.
    + right. exact (i_cl _ _ _ _ HI _ _ _ Hin Hrel).
  - apply aset_NoDup. exact (i_nd _ _ _ _ HI).
  - destruct (i_me _ _ _ _ HI) as [H1 H2]. split; [apply cl_add_In; right; assumption|assumption].
Qed.

Lemma Inv0_cl_add W l act cl x : Inv0 W l act cl -> Inv0 W l act (cl_add x cl).
Proof.
  intros HI. constructor.
  - exact (i_wf _ _ _ _ HI).
  - intros y a i Hin Hrel. apply cl_add_In. right. exact (i_cl _ _ _ _ HI _ _ _ Hin Hrel).
  - exact (i_nd _ _ _ _ HI).
  - destruct (i_me _ _ _ _ HI) as [H1 H2]. split; [apply cl_add_In; right; assumption|assumption].
Qed.

Lemma Inv0_remove W l act cl x : Inv0 W l act cl -> x <> l ->
  Inv0 W l (aremove x act) (cl_remove x cl).
Proof.
  intros HI Hx. constructor.
  - intros y a i Hin. apply aremove_In in Hin. exact (i_wf _ _ _ _ HI _ _ _ (proj1 Hin)).
  - intros y a i Hin Hrel. apply aremove_In in Hin. destruct Hin as [Hin Hne]. cbn [fst] in Hne.
    apply cl_remove_In. split; [exact (i_cl _ _ _ _ HI _ _ _ Hin Hrel)|assumption].
  - apply NoDup_map_filter. exact (i_nd _ _ _ _ HI).
  - destruct (i_me _ _ _ _ HI) as [H1 H2]. split; [|assumption].
    apply cl_remove_In. split; [assumption|congruence].
Qed.

Lemma calc_In_pick c act cl q r x : 0 < c_b c -> 0 < c_n c ->
  calc_replicas c act cl q = Some r ->
  (In x r <-> exists i, In i (replica_indices (c_mode c) (c_n c) (c_b c) (c_rf c) q) /\ known_at act cl i = Some x).
Proof.
  intros Hb Hn H. rewrite calc_replicas_eq in H by assumption. cbv zeta in H.
  destruct (MAX_RF <? _); [discriminate|]. injection H as <-.
  rewrite in_flat_map. split; intros [i [Hi Hx]]; exists i; (split; [assumption|]).
  - unfold pick in Hx. destruct (known_at act cl i); [|destruct Hx]. destruct Hx as [->|[]]. reflexivity.
  - unfold pick. rewrite Hx. left. reflexivity.
Qed.

Lemma Inv0_response W l l' s s0 : wf_world W -> Inv W l s -> Inv W l' s0 ->
  Inv0 W l (aset l (w_alive W l, w_idx W l) (ts_active s0))
           (fold_left (fun acc y => cl_add y acc) (concat (ts_replicas s0)) (ts_cluster s)).
Proof.
  intros HW [_ HI] [Hrec0 HI0].
  destruct (i_me _ _ _ _ HI) as [Hlcl Hlp].
  constructor.
  - intros y a i Hin. apply aset_In in Hin. destruct Hin as [He|[Hin _]].
    + injection He as -> -> ->. auto.
    + exact (i_wf _ _ _ _ HI0 _ _ _ Hin).
  - intros y a i Hin Hrel. apply fold_cl_add_In. apply aset_In in Hin. destruct Hin as [He|[Hin _]].
    + injection He as -> -> ->. right. assumption.
    + left. pose proof (i_cl _ _ _ _ HI0 _ _ _ Hin Hrel) as Hycl.
      destruct Hrel as [q [Hq Hiq]].
      destruct (recalc_nth _ _ _ _ Hrec0) as [Hlen Hnth]. specialize (Hnth q Hq).
      apply in_concat. exists (nth (N.to_nat q) (ts_replicas s0) []). split.
      * apply nth_In. lia.
      * destruct HW as (Hn & Hb & Hinj).
        apply (calc_In_pick _ _ _ _ _ y Hb Hn Hnth). exists i. split; [assumption|].
        apply (known_at_iff W l' _ _ i y (conj Hn (conj Hb Hinj)) HI0). exists a. auto.
  - apply aset_NoDup. exact (i_nd _ _ _ _ HI0).
  - split; [|assumption]. apply fold_cl_add_In. right. assumption.
Qed.

Lemma Reach_Inv W : wf_world W -> c_resp (w_cfg W) = RespRecalc ->
  forall l s, Reach W l s -> Inv W l s.
Proof.
  intros HW Hresp l s HR. induction HR as
    [l s Hl Hs | l s x s' HR IH Hx Hne Hs | l s x s' HR IH Hx Hne Hs | l s x s' HR IH Hne Hs
    | l s x s' HR IH Hs | l s l' s0 s' HR IH HR0 IH0 Hs].
  - unfold t_init in Hs. destruct (topo_assigned_gen _ _ _ _ _ _); [|discriminate].
    apply mk_recalc_inv in Hs. destruct Hs as (Ha & Hc & Hr). cbn [local_of l_peer l_alive l_idx] in *.
    split; [rewrite Ha, Hc; assumption|]. rewrite Ha, Hc. apply Inv0_init. assumption.
  - unfold t_connect in Hs. apply mk_recalc_inv in Hs. destruct Hs as (Ha & Hc & Hr).
    split; [rewrite Ha, Hc; assumption|]. rewrite Ha, Hc. apply Inv0_aset; [apply IH|assumption].
  - destruct IH as [Hrec HI]. unfold t_heartbeat in Hs.
    assert (Hre : forall s1, mk_recalc (w_cfg W) (aset x (w_alive W x, w_idx W x) (ts_active s)) (cl_add x (ts_cluster s)) = Some s1 -> Inv W l s1).
    { intros s1 H1. apply mk_recalc_inv in H1. destruct H1 as (Ha & Hc & Hr).
      split; [rewrite Ha, Hc; assumption|]. rewrite Ha, Hc. apply Inv0_aset; assumption. }
    destruct (alookup x (ts_active s)) as [[a0 i0]|] eqn:El; [|apply Hre; assumption].
    destruct (i0 =? w_idx W x) eqn:Ei; [|apply Hre; assumption].
    injection Hs as <-. unfold Inv. cbn [ts_active ts_cluster ts_replicas]. split; [|apply Inv0_cl_add; assumption].
    rewrite <- Hrec. destruct HW as (Hn & Hb & Hinj).
    apply recalc_ext; [assumption|assumption|]. intros q i Hq Hi.
    apply (known_at_ext W l l); [repeat split; assumption|apply Inv0_cl_add; assumption|assumption|].
    intros y a. rewrite cl_add_In. split; [|tauto]. intros [Hin [->|Hcl]]; [|tauto].
    split; [assumption|]. apply (i_cl _ _ _ _ HI _ _ _ Hin). exists q. auto.
  - unfold t_disconnect in Hs. apply mk_recalc_inv in Hs. destruct Hs as (Ha & Hc & Hr).
    split; [rewrite Ha, Hc; assumption|]. rewrite Ha, Hc. apply Inv0_remove; [apply IH|assumption].
  - unfold t_timeout in Hs. cbn [local_of l_peer] in Hs.
    destruct (N.eqb_spec x l) as [->|Hne]; [injection Hs as <-; assumption|].
    destruct (alookup x (ts_active s)); [|injection Hs as <-; assumption].
    apply mk_recalc_inv in Hs. destruct Hs as (Ha & Hc & Hr).
    split; [rewrite Ha, Hc; assumption|]. rewrite Ha, Hc. apply Inv0_remove; [apply IH|assumption].
  - unfold t_response in Hs. rewrite Hresp in Hs. cbn [view_of fst snd local_of l_peer l_alive l_idx] in Hs.
    apply mk_recalc_inv in Hs. destruct Hs as (Ha & Hc & Hr).
    split; [rewrite Ha, Hc; assumption|]. rewrite Ha, Hc. apply (Inv0_response W l l' s s0); assumption.
Qed.

(** * C14: order independence *)
Lemma av_ext act1 act2 r : (forall x, alookup x act1 = alookup x act2) ->
  flat_map (fun x => match alookup x act1 with Some (a, _) => [(x, a)] | None => [] end) r =
  flat_map (fun x => match alookup x act2 with Some (a, _) => [(x, a)] | None => [] end) r.
Proof. intros H. apply flat_map_ext_in'. intros x _. rewrite H. reflexivity. Qed.

Lemma order_independent W l1 l2 s1 s2 : wf_world W -> c_resp (w_cfg W) = RespRecalc ->
  Reach W l1 s1 -> Reach W l2 s2 -> same_members s1 s2 ->
  ts_replicas s1 = ts_replicas s2 /\ forall q, available s1 q = available s2 q.
Proof.
  intros HW Hresp H1 H2 Hsame.
  destruct (Reach_Inv W HW Hresp _ _ H1) as [Hr1 HI1].
  destruct (Reach_Inv W HW Hresp _ _ H2) as [Hr2 HI2].
  assert (Hin : forall e, In e (ts_active s1) <-> In e (ts_active s2)).
  { intros [x v]. split; intros Hin.
    - apply alookup_In. rewrite <- Hsame. apply In_alookup; [exact (i_nd _ _ _ _ HI1)|assumption].
    - apply alookup_In. rewrite Hsame. apply In_alookup; [exact (i_nd _ _ _ _ HI2)|assumption]. }
  assert (E : ts_replicas s1 = ts_replicas s2).
  { assert (Hrec : recalc (w_cfg W) (ts_active s1) (ts_cluster s1) = recalc (w_cfg W) (ts_active s2) (ts_cluster s2)).
    { destruct HW as (Hn & Hb & Hinj). apply recalc_ext; [assumption|assumption|]. intros q i Hq Hi.
      apply (known_at_ext W l1 l2); [repeat split; assumption|assumption|assumption|].
      intros x a. split; intros [Ha Hc].
      - apply Hin in Ha. split; [assumption|]. apply (i_cl _ _ _ _ HI2 _ _ _ Ha). exists q. auto.
      - apply Hin in Ha. split; [assumption|]. apply (i_cl _ _ _ _ HI1 _ _ _ Ha). exists q. auto. }
    congruence. }
  split; [assumption|]. intros q. unfold available. rewrite E. f_equal. apply av_ext. assumption.
Qed.

(** * C14: count and ownership when every configured node is live *)
Lemma pick_all_length act cl L : (forall i, In i L -> exists x, known_at act cl i = Some x) ->
  length (flat_map (pick act cl) L) = length L.
Proof.
  induction L as [|i L IH]; intros H; cbn; [reflexivity|].
  rewrite app_length, IH by (intros j Hj; apply H; right; assumption).
  destruct (H i (or_introl eq_refl)) as [x Hx]. unfold pick. rewrite Hx. reflexivity.
Qed.

Lemma pick_NoDup act cl L : NoDup L ->
  (forall i j x, In i L -> In j L -> known_at act cl i = Some x -> known_at act cl j = Some x -> i = j) ->
  NoDup (flat_map (pick act cl) L).
Proof.
  induction L as [|i L IH]; intros Hnd Hinj; cbn; [constructor|].
  inversion Hnd as [|? ? Hi HL]; subst.
  assert (IH' : NoDup (flat_map (pick act cl) L)).
  { apply IH; [assumption|]. intros j k x Hj Hk. apply Hinj; right; assumption. }
  unfold pick at 1. destruct (known_at act cl i) as [x|] eqn:E; [|assumption].
  cbn. constructor; [|assumption]. rewrite in_flat_map. intros [j [Hj Hx]].
  unfold pick in Hx. destruct (known_at act cl j) as [y|] eqn:Ej; [|destruct Hx]. destruct Hx as [->|[]].
  assert (i = j) by (apply (Hinj i j x); [left; reflexivity|right; assumption|assumption|assumption]).
  subst. contradiction.
Qed.

Lemma count_full W l s : wf_world W -> current_code (w_cfg W) -> Reach W l s ->
  (forall i, i < c_n (w_cfg W) -> exists x a, In (x, (a, i)) (ts_active s)) ->
  forall q, q < c_p (w_cfg W) ->
    let c := w_cfg W in
    let r := nth (N.to_nat q) (ts_replicas s) [] in
    length r = N.to_nat (N.min (c_rf c) (c_n c)) /\ NoDup r /\
    (forall x a i, In (x, (a, i)) (ts_active s) ->
       (In x r <-> In q (topo_assigned (c_n c) (c_b c) (c_p c) (c_rf c) i))).
Proof.
  intros HW [Hmode Hresp] HR Hfull q Hq. cbv zeta.
  destruct (Reach_Inv W HW Hresp _ _ HR) as [Hrec HI].
  destruct (recalc_nth _ _ _ _ Hrec) as [Hlen Hnth]. specialize (Hnth q Hq).
  set (r := nth (N.to_nat q) (ts_replicas s) []) in *.
  pose proof HW as (Hn & Hb & Hinj).
  set (L := replica_indices (c_mode (w_cfg W)) (c_n (w_cfg W)) (c_b (w_cfg W)) (c_rf (w_cfg W)) q) in *.
  assert (Hknown : forall i, In i L -> exists x, known_at (ts_active s) (ts_cluster s) i = Some x).
  { intros i Hi. destruct (Hfull i (replica_indices_lt _ _ _ _ _ _ Hn Hi)) as [x [a Hin]].
    exists x. apply (known_at_iff W l _ _ i x HW HI). exists a. split; [assumption|].
    apply (i_cl _ _ _ _ HI _ _ _ Hin). exists q. auto. }
  pose proof Hnth as Hcalc. rewrite calc_replicas_eq in Hcalc by assumption. cbv zeta in Hcalc. fold L in Hcalc.
  destruct (MAX_RF <? _); [discriminate|]. injection Hcalc as Hr.
  repeat split.
  - rewrite <- Hr, pick_all_length by assumption. unfold L. rewrite replica_indices_length, Hmode. reflexivity.
  - rewrite <- Hr. apply pick_NoDup; [apply replica_indices_NoDup; assumption|].
    intros i j x _ _ Hi Hj. apply known_at_some in Hi, Hj. destruct Hi as [a [Hi _]]. destruct Hj as [a' [Hj _]].
    destruct (i_wf _ _ _ _ HI _ _ _ Hi) as (_ & _ & ->). destruct (i_wf _ _ _ _ HI _ _ _ Hj) as (_ & _ & ->). reflexivity.
  - intros Hx. apply topo_assigned_In; [assumption|assumption|]. split; [assumption|].
    apply (calc_In_pick _ _ _ _ _ x Hb Hn Hnth) in Hx. destruct Hx as [j [Hj Hkj]].
    apply known_at_some in Hkj. destruct Hkj as [a' [Hin' _]].
    destruct (i_wf _ _ _ _ HI _ _ _ H) as (_ & _ & ->). destruct (i_wf _ _ _ _ HI _ _ _ Hin') as (_ & _ & Hj').
    rewrite <- Hmode. fold L. subst j. exact Hj.
  - intros Hown. apply topo_assigned_In in Hown; [|assumption|assumption]. destruct Hown as [_ Hi].
    rewrite <- Hmode in Hi. fold L in Hi.
    apply (calc_In_pick _ _ _ _ _ x Hb Hn Hnth). exists i. split; [assumption|].
    apply (known_at_iff W l _ _ i x HW HI). exists a. split; [assumption|].
    apply (i_cl _ _ _ _ HI _ _ _ H). exists q. auto.
Qed.

(** the code never panics when min(rf, N) <= 12 *)
Lemma recalc_total c act cl : 0 < c_b c -> 0 < c_n c -> eff_rf (c_mode c) (c_rf c) (c_n c) <= MAX_RF ->
  recalc c act cl <> None.
Proof.
  intros Hb Hn Hcap. unfold recalc. apply all_some_map_total. intros q _.
  rewrite calc_replicas_eq by assumption. cbv zeta.
  pose proof (pick_length_le act cl (replica_indices (c_mode c) (c_n c) (c_b c) (c_rf c) q)) as Hle.
  rewrite replica_indices_length in Hle.
  destruct (MAX_RF <? _) eqn:E; [|discriminate]. apply N.ltb_lt in E. lia.
Qed.

Lemma capacity_refuted :
  let c := {| c_n := 13; c_b := 4; c_p := 4; c_rf := 13; c_mode := RfWide; c_resp := RespRecalc |} in
  recalc c (full_members 13 (fun i => i) (fun _ => 5)) (nrange 13) = None.
Proof. vm_compute. reflexivity. Qed.

(** history: the u8 truncation *)
Lemma u8_same_below_256 rf n : n < 256 -> eff_rf RfU8 rf n = eff_rf RfWide rf n.
Proof. intros H. cbn [eff_rf]. rewrite N.mod_small by assumption. reflexivity. Qed.

Lemma u8_refuted_256 b p rf i : 0 < b ->
  topo_assigned_gen RfU8 256 b p rf i = Some [] /\ forall q, replica_indices RfU8 256 b rf q = [].
Proof.
  intros Hb. assert (E : eff_rf RfU8 rf 256 = 0) by (cbn [eff_rf]; change (256 mod 256) with 0; lia).
  split.
  - rewrite topo_assigned_gen_some by lia. f_equal. apply filter_false. intros q _.
    unfold topo_bucket_owned, in_window. rewrite E. cbn. apply andb_false_r.
  - intros q. unfold replica_indices. rewrite E. reflexivity.
Qed.

(** history: an ownership response that is kept without recalculating makes the result depend on the order *)

Lemma order_refuted_keep : exists s1 s2,
  wf_world W_keep /\ Reach W_keep 0 s1 /\ Reach W_keep 0 s2 /\ same_members s1 s2 /\
  nth 0 (ts_replicas s1) [] = [0; 1; 2] /\ nth 0 (ts_replicas s2) [] = [1; 2].
Proof.
  pose (c := w_cfg W_keep).
  destruct (t_init c (local_of W_keep 0)) as [a0|] eqn:E0; [|vm_compute in E0; discriminate].
  destruct (t_connect c a0 1 5 1) as [a1|] eqn:E1; [|vm_compute in E0; injection E0 as <-; vm_compute in E1; discriminate].
  destruct (t_connect c a1 2 5 2) as [a2|] eqn:E2;
    [|vm_compute in E0; injection E0 as <-; vm_compute in E1; injection E1 as <-; vm_compute in E2; discriminate].
  destruct (t_init c (local_of W_keep 1)) as [b0|] eqn:F0; [|vm_compute in F0; discriminate].
  destruct (t_connect c b0 2 5 2) as [b1|] eqn:F1; [|vm_compute in F0; injection F0 as <-; vm_compute in F1; discriminate].
  destruct (t_response c (local_of W_keep 0) a2 (view_of b1)) as [a3|] eqn:E3;
    [|vm_compute in F0; injection F0 as <-; vm_compute in F1; injection F1 as <-; vm_compute in E3; discriminate].
  assert (RA2 : Reach W_keep 0 a2).
  { eapply R_connect; [eapply R_connect; [eapply R_init; [|exact E0]| | |exact E1]| | |exact E2];
      cbn; try tauto; try discriminate. }
  assert (RB1 : Reach W_keep 1 b1).
  { eapply R_connect; [eapply R_init; [|exact F0]| | |exact F1]; cbn; try tauto; try discriminate. }
  exists a2, a3. split; [|split; [exact RA2|split; [eapply R_response; [exact RA2|exact RB1|exact E3]|]]].
  - repeat split; cbn; try lia; intros x y _ _ H; exact H.
  - vm_compute in E0; injection E0 as <-; vm_compute in E1; injection E1 as <-; vm_compute in E2; injection E2 as <-.
    vm_compute in F0; injection F0 as <-; vm_compute in F1; injection F1 as <-; vm_compute in E3; injection E3 as <-.
    split; [|split; reflexivity].
    intros x. cbn [ts_active alookup].
    destruct (N.eqb_spec 2 x), (N.eqb_spec 1 x), (N.eqb_spec 0 x); subst; try reflexivity; try discriminate.
Qed.

(** every step is defined (the code does not panic) when min(rf, N) <= 12 *)
Lemma mk_recalc_total c act cl : 0 < c_b c -> 0 < c_n c -> eff_rf (c_mode c) (c_rf c) (c_n c) <= MAX_RF ->
  mk_recalc c act cl <> None.
Proof.
  intros Hb Hn Hcap. unfold mk_recalc. pose proof (recalc_total c act cl Hb Hn Hcap).
  destruct (recalc c act cl); [discriminate|congruence].
Qed.

Lemma steps_total c l s x a i v : 0 < c_b c -> 0 < c_n c -> eff_rf (c_mode c) (c_rf c) (c_n c) <= MAX_RF ->
  t_init c l <> None /\ t_connect c s x a i <> None /\ t_heartbeat c s x a i <> None /\
  t_disconnect c s x <> None /\ t_timeout c l s x <> None /\ t_response c l s v <> None.
Proof.
  intros Hb Hn Hcap. pose proof (fun act cl => mk_recalc_total c act cl Hb Hn Hcap) as T.
  repeat split.
  - unfold t_init. rewrite topo_assigned_gen_some by assumption. apply T.
  - apply T.
  - unfold t_heartbeat. destruct (alookup x (ts_active s)) as [[a0 i0]|]; [|apply T].
    destruct (i0 =? i); [discriminate|apply T].
  - apply T.
  - unfold t_timeout. destruct (x =? l_peer l); [discriminate|].
    destruct (alookup x (ts_active s)); [apply T|discriminate].
  - unfold t_response. destruct (c_resp c); [apply T|discriminate].
Qed.

(** non-vacuity: the same three-node history on the current code *)

Lemma order_example_now : exists s1 s2,
  wf_world W_now /\ current_code (w_cfg W_now) /\ Reach W_now 0 s1 /\ Reach W_now 0 s2 /\ same_members s1 s2 /\
  ts_active s1 <> ts_active s2 /\
  (forall i, i < 3 -> exists x a, In (x, (a, i)) (ts_active s2)) /\
  nth 0 (ts_replicas s1) [] = [0; 1; 2] /\ nth 0 (ts_replicas s2) [] = [0; 1; 2].
Proof.
  pose (c := w_cfg W_now).
  destruct (t_init c (local_of W_now 0)) as [a0|] eqn:E0; [|vm_compute in E0; discriminate].
  destruct (t_connect c a0 1 5 1) as [a1|] eqn:E1; [|vm_compute in E0; injection E0 as <-; vm_compute in E1; discriminate].
  destruct (t_connect c a1 2 5 2) as [a2|] eqn:E2;
    [|vm_compute in E0; injection E0 as <-; vm_compute in E1; injection E1 as <-; vm_compute in E2; discriminate].
  destruct (t_init c (local_of W_now 1)) as [b0|] eqn:F0; [|vm_compute in F0; discriminate].
  destruct (t_connect c b0 2 5 2) as [b1|] eqn:F1; [|vm_compute in F0; injection F0 as <-; vm_compute in F1; discriminate].
  destruct (t_response c (local_of W_now 0) a2 (view_of b1)) as [a3|] eqn:E3;
    [|vm_compute in F0; injection F0 as <-; vm_compute in F1; injection F1 as <-;
      vm_compute in E0; injection E0 as <-; vm_compute in E1; injection E1 as <-; vm_compute in E2; injection E2 as <-;
      vm_compute in E3; discriminate].
  assert (RA2 : Reach W_now 0 a2).
  { eapply R_connect; [eapply R_connect; [eapply R_init; [|exact E0]| | |exact E1]| | |exact E2];
      cbn; try tauto; try discriminate. }
  assert (RB1 : Reach W_now 1 b1).
  { eapply R_connect; [eapply R_init; [|exact F0]| | |exact F1]; cbn; try tauto; try discriminate. }
  exists a2, a3. split; [|split; [split; reflexivity|split; [exact RA2|split; [eapply R_response; [exact RA2|exact RB1|exact E3]|]]]].
  - repeat split; cbn; try lia; intros x y _ _ H; exact H.
  - vm_compute in E0; injection E0 as <-; vm_compute in E1; injection E1 as <-; vm_compute in E2; injection E2 as <-.
    vm_compute in F0; injection F0 as <-; vm_compute in F1; injection F1 as <-; vm_compute in E3; injection E3 as <-.
    split; [|split; [discriminate|split; [|split; reflexivity]]].
    + intros x. cbn [ts_active alookup].
      destruct (N.eqb_spec 2 x), (N.eqb_spec 1 x), (N.eqb_spec 0 x); subst; try reflexivity; try discriminate.
    + intros i Hi. assert (Hc : i = 0 \/ i = 1 \/ i = 2) by lia. cbn [ts_active].
      destruct Hc as [->|[->| ->]]; [exists 0, 5|exists 1, 5|exists 2, 5]; cbn; tauto.
Qed.

Lemma window_facts n b p rf q i : 0 < n -> 0 < b ->
  length (replica_indices RfWide n b rf q) = N.to_nat (N.min rf n) /\
  NoDup (replica_indices RfWide n b rf q) /\
  (forall j, In j (replica_indices RfWide n b rf q) -> j < n) /\
  (In q (topo_assigned n b p rf i) <-> q < p /\ In i (replica_indices RfWide n b rf q)).
Proof.
  intros Hn Hb. split; [exact (replica_indices_length RfWide n b rf q)|].
  split; [exact (replica_indices_NoDup RfWide n b rf q Hn)|].
  split; [exact (fun j => replica_indices_lt RfWide n b rf q j Hn)|exact (topo_assigned_In n b p rf i q Hn Hb)].
Qed.
