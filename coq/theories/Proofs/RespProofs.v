(** Proofs about Model/Resp.v (C22): the RESP handlers against the abstract event store Model/StoreSpec.v.

    1. what the reference append assigns is a "chain" of fresh events ([assign_versions_chain], [spec_append_ok]);
    2. the reverse reconstruction of the EMAPPEND reply returns exactly the assigned versions for every chain
       ([rs_recon_versions_chain]) - with the saturating and with the wrapping subtraction, not with the checked one;
    3. replies of EAPPEND / EMAPPEND ([rs_append_reply], [rs_mappend_reply]), totality ([rs_total]);
    4. every history of appends keeps the logs well formed ([rs_run_wf]): per partition ascending sequences, per
       stream ascending versions and one partition key;
    5. on well-formed logs the ESCAN loop and the EPSCAN result are the reference filters cut at the watermark, and
       has_more = false only if nothing was left out ([rs_stream_scan_exact], [rs_partition_scan_exact]). *)
From Coq Require Import NArith List Bool Lia.
From SV Require Import Model.StoreSpec Model.Resp.
Import ListNotations.
Open Scope N_scope.

(** * last element as an option *)
Definition rs_lastopt {A} (l : list A) : option A := match l with [] => None | x :: r => Some (last r x) end.

Lemma rs_last_indep {A} (b : list A) d d' : b <> [] -> last b d = last b d'.
Proof.
  induction b as [|x b IH]; intros H; [congruence|].
  simpl. destruct b; [reflexivity|]. apply IH. discriminate.
Qed.

Lemma rs_last_app_cons {A} (a : list A) y b d : last (a ++ y :: b) d = last b y.
Proof.
  induction a as [|x a IH]; simpl.
  - destruct b; [reflexivity|]. apply rs_last_indep. discriminate.
  - destruct (a ++ y :: b) eqn:E; [destruct a; discriminate|]. exact IH.
Qed.

Lemma rs_lastopt_app {A} (a b : list A) :
  rs_lastopt (a ++ b) = match rs_lastopt b with Some e => Some e | None => rs_lastopt a end.
Proof.
  destruct b as [|y b].
  - rewrite app_nil_r. simpl. destruct (rs_lastopt a); reflexivity.
  - simpl. destruct a as [|x a]; simpl.
    + reflexivity.
    + f_equal. apply rs_last_app_cons.
Qed.

Lemma rs_lastopt_snoc {A} (a : list A) x : rs_lastopt (a ++ [x]) = Some x.
Proof. rewrite rs_lastopt_app. reflexivity. Qed.

Lemma rs_lastopt_rev {A} (l : list A) : rs_lastopt l = match rev l with x :: _ => Some x | [] => None end.
Proof.
  destruct l as [|x l] using rev_ind.
  - reflexivity.
  - rewrite rs_lastopt_snoc, rev_app_distr. reflexivity.
Qed.

Lemma stream_state_lastopt evs s :
  stream_state evs s = match rs_lastopt (filter (fun e => e_sid e =? s) evs) with
                       | Some e => Some (e_pk e, e_ver e) | None => None end.
Proof. unfold stream_state. destruct (filter _ evs); reflexivity. Qed.

Lemma partition_last_lastopt evs p :
  partition_last evs p = match rs_lastopt (filter (fun e => e_pid e =? p) evs) with
                         | Some e => Some (e_seq e) | None => None end.
Proof. unfold partition_last. destruct (filter _ evs); reflexivity. Qed.

Lemma stream_state_app x y s :
  stream_state (x ++ y) s = match stream_state y s with Some r => Some r | None => stream_state x s end.
Proof.
  rewrite !stream_state_lastopt, filter_app, rs_lastopt_app.
  destruct (rs_lastopt (filter _ y)); reflexivity.
Qed.

Lemma partition_last_app x y p :
  partition_last (x ++ y) p = match partition_last y p with Some r => Some r | None => partition_last x p end.
Proof.
  rewrite !partition_last_lastopt, filter_app, rs_lastopt_app.
  destruct (rs_lastopt (filter _ y)); reflexivity.
Qed.

Lemma stream_state_single e s :
  stream_state [e] s = if e_sid e =? s then Some (e_pk e, e_ver e) else None.
Proof. unfold stream_state. simpl. destruct (e_sid e =? s); reflexivity. Qed.

Lemma partition_last_single e p :
  partition_last [e] p = if e_pid e =? p then Some (e_seq e) else None.
Proof. unfold partition_last. simpl. destruct (e_pid e =? p); reflexivity. Qed.

(** * the stream_versions map *)
Lemma rs_lookup_put m k v s : rs_lookup (rs_put m k v) s = if k =? s then Some v else rs_lookup m s.
Proof.
  induction m as [|[k' v'] m IH]; simpl.
  - reflexivity.
  - destruct (N.eqb_spec k' k) as [->|Hk]; simpl.
    + destruct (k =? s); reflexivity.
    + rewrite IH. destruct (N.eqb_spec k' s) as [->|Hs].
      * destruct (N.eqb_spec k s); [congruence|reflexivity].
      * reflexivity.
Qed.

Lemma rs_stream_versions_snoc a e :
  rs_stream_versions (a ++ [e]) = rs_put (rs_stream_versions a) (e_sid e) (e_ver e).
Proof. unfold rs_stream_versions. rewrite fold_left_app. reflexivity. Qed.

Lemma rs_stream_versions_lookup a s :
  rs_lookup (rs_stream_versions a) s = match stream_state a s with Some (_, v) => Some v | None => None end.
Proof.
  induction a as [|e a IH] using rev_ind.
  - reflexivity.
  - rewrite rs_stream_versions_snoc, rs_lookup_put, stream_state_app, stream_state_single.
    destruct (e_sid e =? s); [reflexivity|exact IH].
Qed.

(** * the chain of fresh events *)
Definition rs_nextver (o : option (N * N)) : N := match o with Some (_, v) => v + 1 | None => 0 end.
Definition rs_nextseq (o : option N) : N := match o with Some s => s + 1 | None => 0 end.

(** [e] is what the reference append makes of the next event on top of the events [evs] *)
Definition rs_fresh (evs : list event) (e : event) : Prop :=
  e_ver e = rs_nextver (stream_state evs (e_sid e)) /\
  (forall pk v, stream_state evs (e_sid e) = Some (pk, v) -> pk = e_pk e) /\
  e_seq e = rs_nextseq (partition_last evs (e_pid e)).

Fixpoint rs_chain (evs : list event) (added : list event) : Prop :=
  match added with
  | [] => True
  | e :: r => rs_fresh evs e /\ rs_chain (evs ++ [e]) r
  end.

Lemma rs_chain_app evs a b : rs_chain evs (a ++ b) <-> rs_chain evs a /\ rs_chain (evs ++ a) b.
Proof.
  revert evs. induction a as [|e a IH]; intros evs; simpl.
  - rewrite app_nil_r. tauto.
  - rewrite IH, <- app_assoc. simpl. tauto.
Qed.

(** assign_versions produces a chain *)
Lemma assign_versions_step evs t n news seq acc res e :
  e_sid e = n_sid n -> e_id e = n_id n -> e_pk e = t_pk t -> e_pid e = t_pid t -> e_tx e = t_tx t ->
  e_flag e = t_flag t -> e_seq e = seq ->
  seq = rs_nextseq (partition_last (evs ++ acc) (t_pid t)) ->
  e_ver e = rs_nextver (stream_state (evs ++ acc) (n_sid n)) ->
  (forall pk v, stream_state (evs ++ acc) (n_sid n) = Some (pk, v) -> pk = t_pk t) ->
  (exists added, res = (acc ++ [e]) ++ added /\ rs_chain (evs ++ acc ++ [e]) added /\
    map e_sid added = map n_sid news /\ map e_id added = map n_id news /\
    Forall (fun e => e_pk e = t_pk t /\ e_pid e = t_pid t /\ e_tx e = t_tx t /\ e_flag e = t_flag t) added) ->
  exists added, res = acc ++ added /\ rs_chain (evs ++ acc) added /\
    map e_sid added = map n_sid (n :: news) /\ map e_id added = map n_id (n :: news) /\
    Forall (fun e => e_pk e = t_pk t /\ e_pid e = t_pid t /\ e_tx e = t_tx t /\ e_flag e = t_flag t) added.
Proof.
  intros Hsid Hid Hpk Hpid Htx Hfl Hsq Hseq Hver Hkey (added & -> & Hc & Hs & Hi & Hall).
  exists (e :: added). split; [rewrite <- app_assoc; reflexivity|].
  split.
  - simpl. split.
    + unfold rs_fresh. rewrite Hsid, Hpid, Hpk. split; [exact Hver|]. split; [exact Hkey|]. congruence.
    + rewrite <- app_assoc. exact Hc.
  - split; [simpl; congruence|]. split; [simpl; congruence|].
    constructor; [tauto|exact Hall].
Qed.

Lemma assign_versions_chain evs t : forall news seq acc res,
  seq = rs_nextseq (partition_last (evs ++ acc) (t_pid t)) ->
  assign_versions evs t seq acc news = inl res ->
  exists added, res = acc ++ added /\ rs_chain (evs ++ acc) added /\
    map e_sid added = map n_sid news /\ map e_id added = map n_id news /\
    Forall (fun e => e_pk e = t_pk t /\ e_pid e = t_pid t /\ e_tx e = t_tx t /\ e_flag e = t_flag t) added.
Proof.
  induction news as [|n news IH]; intros seq acc res Hseq H; simpl in H.
  - inversion H; subst. exists []. rewrite app_nil_r. simpl. repeat split; constructor.
  - assert (Hnext : forall e, e_pid e = t_pid t -> e_seq e = seq ->
              seq + 1 = rs_nextseq (partition_last (evs ++ acc ++ [e]) (t_pid t))).
    { intros e Hp Hq. rewrite app_assoc, partition_last_app, partition_last_single, Hp, N.eqb_refl.
      simpl. congruence. }
    destruct (stream_state (evs ++ acc) (n_sid n)) as [[pk v]|] eqn:Hs.
    + destruct (negb (pk =? t_pk t)) eqn:Hpk; [discriminate|].
      destruct (holds (n_expect n) (Some v)); [|discriminate].
      apply negb_false_iff, N.eqb_eq in Hpk. subst pk.
      eapply assign_versions_step with (e := mkEvent (n_id n) (t_pk t) (t_pid t) (t_tx t) (t_flag t) seq (n_sid n) (v + 1));
        try reflexivity; try exact Hseq.
      * rewrite Hs. reflexivity.
      * intros pk v' E. rewrite Hs in E. inversion E; reflexivity.
      * apply (IH (seq + 1)); [|exact H]. apply Hnext; reflexivity.
    + destruct (holds (n_expect n) None); [|discriminate].
      eapply assign_versions_step with (e := mkEvent (n_id n) (t_pk t) (t_pid t) (t_tx t) (t_flag t) seq (n_sid n) 0);
        try reflexivity; try exact Hseq.
      * rewrite Hs. reflexivity.
      * intros pk v' E. rewrite Hs in E. discriminate.
      * apply (IH (seq + 1)); [|exact H]. apply Hnext; reflexivity.
Qed.
(** * the EMAPPEND reconstruction gives back the assigned versions *)
Lemma rs_recon_ext mode : forall sids m m',
  (forall s, In s sids -> rs_lookup m s = rs_lookup m' s) -> rs_recon mode sids m = rs_recon mode sids m'.
Proof.
  induction sids as [|a sids IH]; intros m m' H; simpl.
  - reflexivity.
  - rewrite <- (H a (or_introl eq_refl)).
    destruct (rs_lookup m a) as [v|]; [|reflexivity].
    destruct (rs_dec mode v) as [v'|]; [|reflexivity].
    rewrite (IH (rs_put m a v') (rs_put m' a v')); [reflexivity|].
    intros s Hs. rewrite !rs_lookup_put. destruct (a =? s); [reflexivity|]. apply H. right. exact Hs.
Qed.

Lemma stream_state_in a s : In s (map e_sid a) -> exists pk v, stream_state a s = Some (pk, v).
Proof.
  intros H. apply in_map_iff in H. destruct H as (e & He & Hin).
  unfold stream_state.
  destruct (filter (fun e0 => e_sid e0 =? s) a) eqn:F.
  - assert (In e (filter (fun e0 => e_sid e0 =? s) a)) as X.
    { apply filter_In. split; [exact Hin|]. apply N.eqb_eq. exact He. }
    rewrite F in X. destruct X.
  - eexists _, _. reflexivity.
Qed.

Lemma rs_recon_chain mode base : mode <> SubChecked -> forall added, rs_chain base added ->
  rs_recon mode (rev (map e_sid added)) (rs_stream_versions added) = Some (rev (map e_ver added)).
Proof.
  intros Hmode added. induction added as [|e a IH] using rev_ind; intros Hc.
  - reflexivity.
  - apply rs_chain_app in Hc. destruct Hc as (Ha & (Hf & _)).
    rewrite !map_app, !rev_app_distr. simpl.
    rewrite rs_stream_versions_snoc, rs_lookup_put, N.eqb_refl.
    assert (exists v', rs_dec mode (e_ver e) = Some v' /\
              (forall pk v, stream_state a (e_sid e) = Some (pk, v) -> v' = v)) as (v' & Hd & Hv').
    { destruct Hf as (Hver & _ & _). rewrite stream_state_app in Hver.
      destruct mode; [| congruence |]; simpl; eexists; (split; [reflexivity|]); intros pk v E; rewrite E in Hver;
        simpl in Hver; rewrite Hver.
      - lia.
      - destruct (N.eqb_spec (v + 1) 0); lia. }
    rewrite Hd.
    rewrite (rs_recon_ext mode _ _ (rs_stream_versions a)).
    + rewrite (IH Ha). reflexivity.
    + intros s Hs. rewrite !rs_lookup_put.
      destruct (N.eqb_spec (e_sid e) s) as [<-|]; [|reflexivity].
      apply in_rev, stream_state_in in Hs. destruct Hs as (pk & v & E).
      rewrite rs_stream_versions_lookup, E. f_equal. eapply Hv'. exact E.
Qed.

Lemma rs_recon_versions_chain mode base added : mode <> SubChecked -> rs_chain base added ->
  rs_recon_versions mode (map e_sid added) (rs_stream_versions added) = Some (map e_ver added).
Proof.
  intros Hm Hc. unfold rs_recon_versions. rewrite (rs_recon_chain mode base Hm added Hc), rev_involutive. reflexivity.
Qed.

(** * what an accepted / a rejected reference append looks like *)
Lemma spec_append_ok l t fits l' news : spec_append l t fits = (l', inl news) ->
  l' = l ++ [news] /\ rs_chain (all_events l) news /\
  map e_sid news = map n_sid (t_events t) /\ map e_id news = map n_id (t_events t) /\
  Forall (fun e => e_pk e = t_pk t /\ e_pid e = t_pid t /\ e_tx e = t_tx t /\ e_flag e = t_flag t) news.
Proof.
  unfold spec_append. intros H.
  destruct (assign_versions (all_events l) t _ [] (t_events t)) as [res|r] eqn:A; [|inversion H].
  destruct (negb fits); [inversion H|].
  destruct (negb (holds _ _)); [inversion H|].
  destruct (negb (forallb _ _)); [inversion H|].
  inversion H; subst. clear H.
  apply assign_versions_chain in A.
  - destruct A as (added & E & Hc & Hs & Hi & Hall). simpl in E. subst added.
    rewrite app_nil_r in Hc. repeat split; assumption.
  - rewrite app_nil_r. destruct (partition_last _ _); reflexivity.
Qed.

Lemma spec_append_rej l t fits l' r : spec_append l t fits = (l', inr r) -> l' = l.
Proof.
  unfold spec_append. intros H.
  destruct (assign_versions _ _ _ _ _); [|inversion H; reflexivity].
  destruct (negb fits); [inversion H; reflexivity|].
  destruct (negb (holds _ _)); [inversion H; reflexivity|].
  destruct (negb (forallb _ _)); inversion H; reflexivity.
Qed.

Lemma all_events_snoc l news : all_events (l ++ [news]) = all_events l ++ news.
Proof. unfold all_events. rewrite concat_app. simpl. rewrite app_nil_r. reflexivity. Qed.

(** consecutive sequences *)
Fixpoint rs_seq_from (s : N) (n : nat) : list N := match n with O => [] | S k => s :: rs_seq_from (s + 1) k end.

Lemma rs_chain_seqs p : forall news base, rs_chain base news -> Forall (fun e => e_pid e = p) news ->
  map e_seq news = rs_seq_from (rs_nextseq (partition_last base p)) (length news).
Proof.
  induction news as [|e news IH]; intros base Hc Hp; simpl.
  - reflexivity.
  - destruct Hc as ((_ & _ & Hs) & Hc). inversion Hp as [|x0 l0 He Hp' Heq]; subst x0 l0.
    rewrite He in Hs. f_equal; [exact Hs|].
    rewrite (IH _ Hc Hp'). f_equal.
    rewrite partition_last_app, partition_last_single, He, N.eqb_refl. simpl. rewrite Hs. reflexivity.
Qed.

Lemma rs_seq_from_last s n : n <> O -> last (rs_seq_from s n) 0 = s + N.of_nat n - 1.
Proof.
  revert s. induction n as [|n IH]; intros s H; [congruence|].
  destruct n as [|n].
  - simpl. lia.
  - change (rs_seq_from s (S (S n))) with (s :: rs_seq_from (s + 1) (S n)).
    change (last (s :: rs_seq_from (s + 1) (S n)) 0) with (last (rs_seq_from (s + 1) (S n)) 0).
    rewrite IH by discriminate. lia.
Qed.
(** * the append handlers *)
Lemma rs_build_ok : forall evs hash now gen bs g, rs_build evs hash now gen = (Some bs, g) ->
  map rb_sid bs = map rn_sid evs /\ map rb_xv bs = map rn_xv evs /\ length bs = length evs.
Proof.
  induction evs as [|ev evs IH]; intros hash now gen bs g H; simpl in H.
  - inversion H; subst. repeat split.
  - destruct (match rn_eid ev with Some i => (i, gen) | None => (rs_gen_id gen hash, gen + 1) end) as [id gen'].
    destruct (rs_ts_nanos (rn_ts ev) now) as [ns|]; [|discriminate].
    destruct (rs_build evs hash now gen') as [[r|] g'] eqn:B; [|discriminate].
    inversion H; subst. destruct (IH _ _ _ _ _ B) as (A1 & A2 & A3). simpl. repeat split; congruence.
Qed.

Lemma rs_txn_events cfg st pk bs :
  map n_sid (t_events (rs_txn cfg st pk bs)) = map rb_sid bs /\
  map n_expect (t_events (rs_txn cfg st pk bs)) = map rb_xv bs /\
  map n_id (t_events (rs_txn cfg st pk bs)) = map rb_id bs.
Proof. unfold rs_txn. simpl. rewrite !map_map. repeat split. Qed.

Lemma rs_upd_same {A} (f : N -> A) k v : rs_upd f k v k = v.
Proof. unfold rs_upd. rewrite N.eqb_refl. reflexivity. Qed.
Lemma rs_upd_other {A} (f : N -> A) k v x : x <> k -> rs_upd f k v x = f x.
Proof. unfold rs_upd. intros H. destruct (N.eqb_spec x k); [congruence|reflexivity]. Qed.

Lemma rs_exec_ok cfg st pk bs g fits st' news : rs_exec cfg st pk bs g fits = (st', inl news) ->
  let b := rs_bucket cfg (rs_pid cfg pk) in
  spec_append (rs_logs st b) (rs_txn cfg st pk bs) fits = (rs_logs st' b, inl news) /\
  (forall b', b' <> b -> rs_logs st' b' = rs_logs st b') /\ rs_wm st' = rs_wm st /\ rs_gen st' = g.
Proof.
  unfold rs_exec. simpl. intros H.
  destruct (spec_append _ _ _) as [l' [n|r]] eqn:S; inversion H; subst; clear H. simpl.
  rewrite rs_upd_same. split; [reflexivity|]. split; [|split; reflexivity].
  intros b' Hb. apply rs_upd_other. exact Hb.
Qed.

Lemma rs_exec_rej cfg st pk bs g fits st' r : rs_exec cfg st pk bs g fits = (st', inr r) ->
  st' = st /\ exists l', spec_append (rs_logs st (rs_bucket cfg (rs_pid cfg pk))) (rs_txn cfg st pk bs) fits = (l', inr r).
Proof.
  unfold rs_exec. simpl. intros H.
  destruct (spec_append _ _ _) as [l' [n|r']] eqn:S; inversion H; subst; clear H.
  split; [reflexivity|]. eexists. reflexivity.
Qed.

Lemma rs_last_seq_last news : rs_last_seq news = last (map e_seq news) 0.
Proof.
  unfold rs_last_seq. destruct news as [|e a] using rev_ind.
  - reflexivity.
  - rewrite rev_app_distr, map_app. simpl. rewrite last_last. reflexivity.
Qed.

Lemma rs_seqs_first_last news s : news <> [] -> map e_seq news = rs_seq_from s (length news) ->
  rs_first_seq news = s /\ rs_last_seq news + 1 = s + rs_len news.
Proof.
  intros Hn H. split.
  - destruct news; [congruence|]. simpl in H. inversion H. reflexivity.
  - rewrite rs_last_seq_last, H, rs_seq_from_last.
    + unfold rs_len. destruct news; [congruence|]. simpl length. lia.
    + destruct news; [congruence|discriminate].
Qed.

Lemma rs_infos_maps : forall news bs, length news = length bs ->
  map rf_id (rs_infos news (map e_ver news) bs) = map e_id news /\
  map rf_sid (rs_infos news (map e_ver news) bs) = map e_sid news /\
  map rf_ver (rs_infos news (map e_ver news) bs) = map e_ver news /\
  map rf_ms (rs_infos news (map e_ver news) bs) = map (fun b => rb_ns b / 1000000) bs.
Proof.
  induction news as [|e news IH]; intros bs H; destruct bs as [|b bs]; simpl in *; try discriminate.
  - repeat split.
  - destruct (IH bs) as (A & B & C & D); [congruence|]. repeat split; congruence.
Qed.

(** the facts an accepted append establishes: [news] are the events the reference append assigns *)
Definition rs_accepts (cfg : rs_cfg) (st st' : rs_state) (pk : N) (sids : list N) (xvs : list expect)
  (fits : bool) (news : list event) : Prop :=
  let pid := rs_pid cfg pk in
  let b := rs_bucket cfg pid in
  exists t,
    t_pk t = pk /\ t_pid t = pid /\ t_xseq t = XAny /\
    map n_sid (t_events t) = sids /\ map n_expect (t_events t) = xvs /\
    spec_append (rs_logs st b) t fits = (rs_logs st' b, inl news) /\
    (forall b', b' <> b -> rs_logs st' b' = rs_logs st b') /\ rs_wm st' = rs_wm st.

Lemma rs_exec_accepts cfg st pk evs hash now bs g fits st' news :
  rs_build evs hash now (rs_gen st) = (Some bs, g) ->
  rs_exec cfg st pk bs g fits = (st', inl news) ->
  rs_accepts cfg st st' pk (map rn_sid evs) (map rn_xv evs) fits news /\
  rs_chain (all_events (rs_logs st (rs_bucket cfg (rs_pid cfg pk)))) news /\
  Forall (fun e => e_pk e = pk /\ e_pid e = rs_pid cfg pk) news /\
  map e_sid news = map rb_sid bs /\ map e_id news = map rb_id bs /\ length news = length bs.
Proof.
  intros B E. apply rs_exec_ok in E. simpl in E. destruct E as (S & Ho & Hw & _).
  destruct (rs_build_ok _ _ _ _ _ _ B) as (B1 & B2 & B3).
  destruct (rs_txn_events cfg st pk bs) as (T1 & T2 & T3).
  pose proof (spec_append_ok _ _ _ _ _ S) as (_ & Hc & Hs & Hi & Hall).
  split; [|split; [exact Hc|split; [|split; [congruence|split; [congruence|]]]]].
  - exists (rs_txn cfg st pk bs). repeat split; try assumption; try reflexivity; congruence.
  - eapply Forall_impl; [|exact Hall]. simpl. intros e (A1 & A2 & _). split; assumption.
  - rewrite <- (map_length e_sid), Hs, T1, map_length. reflexivity.
Qed.

Theorem rs_mappend_reply : forall mode cfg st pk evs now fits st' kpk pid first last infos,
  mode <> SubChecked ->
  rs_handle mode cfg st (RqMAppend pk evs now fits) = (st', ROk (RpMAppend kpk pid first last infos)) ->
  exists news,
    kpk = pk /\ pid = rs_pid cfg pk /\
    rs_accepts cfg st st' pk (map rn_sid evs) (map rn_xv evs) fits news /\
    map rf_id infos = map e_id news /\ map rf_sid infos = map e_sid news /\ map rf_ver infos = map e_ver news /\
    news <> [] /\ map e_seq news = rs_seq_from first (length news) /\ last + 1 = first + rs_len news.
Proof.
  intros mode cfg st pk evs now fits st' kpk pid first last infos Hmode H.
  unfold rs_handle in H.
  destruct ((rc_parts cfg =? 0) || (rc_buckets cfg =? 0)); [discriminate|].
  unfold rs_mappend in H.
  destruct (rc_strict cfg && _); [discriminate|].
  destruct (rs_build evs (rs_hash pk) now (rs_gen st)) as [[bs|] g] eqn:B; [|discriminate].
  destruct (match bs with [] => true | _ :: _ => false end) eqn:Hnil; [discriminate|].
  assert (Hne : bs <> []) by (destruct bs; [discriminate Hnil|discriminate]).
  destruct (negb (forallb _ bs)); [discriminate|].
  destruct (rs_exec cfg st pk bs g fits) as [st1 [news|r]] eqn:E; [|discriminate].
  destruct (rs_exec_accepts _ _ _ _ _ _ _ _ _ _ _ B E) as (Hacc & Hc & Hall & Hs & Hi & Hlen).
  rewrite <- Hs in H.
  rewrite (rs_recon_versions_chain mode _ news Hmode Hc) in H.
  injection H as H1 H2 H3 H4 H5 H6. subst st' kpk pid first last infos.
  assert (Hnn : news <> []) by (destruct news; [destruct bs; [congruence|discriminate]|discriminate]).
  destruct (rs_infos_maps news bs Hlen) as (I1 & I2 & I3 & _).
  assert (Hq := rs_chain_seqs (rs_pid cfg pk) news _ Hc
                  (Forall_impl _ (fun e (X : e_pk e = pk /\ e_pid e = rs_pid cfg pk) => proj2 X) Hall)).
  destruct (rs_seqs_first_last news _ Hnn Hq) as (F & L).
  exists news. rewrite F. repeat split; try assumption. 
Qed.
Lemma rs_build_single ev hash now gen bs g : rs_build [ev] hash now gen = (Some bs, g) -> exists b, bs = [b].
Proof.
  intros H. apply rs_build_ok in H. destruct H as (_ & _ & L).
  destruct bs as [|b [|b' bs]]; simpl in L; try discriminate. exists b. reflexivity.
Qed.

Theorem rs_append_reply : forall mode cfg st ev pk dflt now fits st' id kpk pid seq ver ms,
  rs_handle mode cfg st (RqAppend ev pk dflt now fits) = (st', ROk (RpAppend id kpk pid seq ver ms)) ->
  exists e,
    kpk = match pk with Some k => k | None => dflt end /\ pid = rs_pid cfg kpk /\
    rs_accepts cfg st st' kpk [rn_sid ev] [rn_xv ev] fits [e] /\
    e_id e = id /\ e_seq e = seq /\ e_ver e = ver /\ e_sid e = rn_sid ev.
Proof.
  intros mode cfg st ev pk dflt now fits st' id kpk pid seq ver ms H.
  unfold rs_handle in H.
  destruct ((rc_parts cfg =? 0) || (rc_buckets cfg =? 0)); [discriminate|].
  unfold rs_append in H.
  destruct (rc_strict cfg && _); [discriminate|].
  set (key := match pk with Some k => k | None => dflt end) in *.
  destruct (rs_build [ev] (rs_hash key) now (rs_gen st)) as [[bs|] g] eqn:B; [|discriminate].
  destruct (negb (forallb _ bs)); [discriminate|].
  destruct (rs_exec cfg st key bs g fits) as [st1 [news|r]] eqn:E; [|discriminate].
  destruct (rs_build_single _ _ _ _ _ _ B) as (b & ->).
  destruct (rs_exec_accepts _ _ _ _ _ _ _ _ _ _ _ B E) as (Hacc & Hc & Hall & Hs & Hi & Hlen).
  destruct news as [|e [|e' news]]; simpl in Hlen; try discriminate.
  unfold rs_stream_versions in H. simpl in H. rewrite N.eqb_refl in H.
  injection H as H1 H2 H3 H4 H5 H6 H7. subst st' id kpk pid seq ver ms.
  exists e. simpl in Hacc. repeat split; try assumption; try reflexivity.
  destruct (rs_build_ok _ _ _ _ _ _ B) as (B1 & _). simpl in Hs, B1. congruence.
Qed.

(** no request makes the repaired handlers panic (given at least one partition and one bucket) *)
Theorem rs_total : forall mode cfg st r, mode <> SubChecked -> 0 < rc_parts cfg -> 0 < rc_buckets cfg ->
  exists rep, snd (rs_handle mode cfg st r) = ROk rep.
Proof.
  intros mode cfg st r Hmode HP HB.
  unfold rs_handle.
  replace ((rc_parts cfg =? 0) || (rc_buckets cfg =? 0)) with false
    by (symmetry; apply orb_false_iff; split; apply N.eqb_neq; lia).
  destruct r; simpl; try (eexists; reflexivity).
  - (* EAPPEND *)
    unfold rs_append.
    destruct (rc_strict cfg && _); [eexists; reflexivity|].
    set (key := match pk with Some k => k | None => dflt end).
    destruct (rs_build [ev] (rs_hash key) now (rs_gen st)) as [[bs|] g] eqn:B; [|eexists; reflexivity].
    destruct (negb (forallb _ bs)); [eexists; reflexivity|].
    destruct (rs_exec cfg st key bs g fits) as [st1 [news|r]] eqn:E; [|eexists; reflexivity].
    destruct (rs_build_single _ _ _ _ _ _ B) as (b & ->).
    destruct (rs_exec_accepts _ _ _ _ _ _ _ _ _ _ _ B E) as (_ & _ & _ & _ & _ & Hlen).
    destruct news as [|e [|e' news]]; simpl in Hlen; try discriminate.
    unfold rs_stream_versions. simpl. rewrite N.eqb_refl. eexists; reflexivity.
  - (* EMAPPEND *)
    unfold rs_mappend.
    destruct (rc_strict cfg && _); [eexists; reflexivity|].
    destruct (rs_build evs (rs_hash pk) now (rs_gen st)) as [[bs|] g] eqn:B; [|eexists; reflexivity].
    destruct (match bs with [] => true | _ :: _ => false end); [eexists; reflexivity|].
    destruct (negb (forallb _ bs)); [eexists; reflexivity|].
    destruct (rs_exec cfg st pk bs g fits) as [st1 [news|r]] eqn:E; [|eexists; reflexivity].
    destruct (rs_exec_accepts _ _ _ _ _ _ _ _ _ _ _ B E) as (_ & Hc & _ & Hs & _ & _).
    rewrite <- Hs, (rs_recon_versions_chain mode _ news Hmode Hc). eexists; reflexivity.
  - (* EPSEQ *)
    destruct (rc_parts cfg <=? rs_sel_pid cfg p); eexists; reflexivity.
Qed.

(** an error reply, and every read, leaves the state as it was *)
Theorem rs_error_unchanged : forall mode cfg st r st' e,
  rs_handle mode cfg st r = (st', ROk (RpErr e)) -> st' = st.
Proof.
  intros mode cfg st r st' e H. unfold rs_handle in H.
  destruct r; try (inversion H; reflexivity);
    destruct ((rc_parts cfg =? 0) || (rc_buckets cfg =? 0)); try (inversion H; reflexivity).
  - unfold rs_append in H.
    destruct (rc_strict cfg && _); [inversion H; reflexivity|].
    destruct (rs_build _ _ _ _) as [[bs|] g]; [|inversion H; reflexivity].
    destruct (negb (forallb _ bs)); [inversion H; reflexivity|].
    destruct (rs_exec _ _ _ _ _ _) as [st1 [news|r]] eqn:E; [|inversion H; reflexivity].
    destruct (rs_stream_versions news) as [|[k v] [|]]; try discriminate.
    destruct news; try discriminate. destruct bs; try discriminate.
    destruct (_ =? _); discriminate.
  - unfold rs_mappend in H.
    destruct (rc_strict cfg && _); [inversion H; reflexivity|].
    destruct (rs_build _ _ _ _) as [[bs|] g]; [|inversion H; reflexivity].
    destruct (match bs with [] => true | _ :: _ => false end); [inversion H; reflexivity|].
    destruct (negb (forallb _ bs)); [inversion H; reflexivity|].
    destruct (rs_exec _ _ _ _ _ _) as [st1 [news|r]] eqn:E; [|inversion H; reflexivity].
    destruct (rs_recon_versions _ _ _); discriminate.
  - destruct (rc_parts cfg <=? rs_sel_pid cfg p); inversion H; reflexivity.
Qed.

Definition rs_is_read (r : rs_req) : bool :=
  match r with RqAppend _ _ _ _ _ | RqMAppend _ _ _ _ => false | _ => true end.

Theorem rs_read_unchanged : forall mode cfg st r, rs_is_read r = true -> fst (rs_handle mode cfg st r) = st.
Proof.
  intros mode cfg st r H. unfold rs_handle.
  destruct r; try discriminate; try reflexivity;
    destruct ((rc_parts cfg =? 0) || (rc_buckets cfg =? 0)); try reflexivity.
  destruct (rc_parts cfg <=? rs_sel_pid cfg p); reflexivity.
Qed.

(** the original `-= 1`: a debug build panics on the first event of any new stream; a release build replies as
    the repaired code does *)
Definition rs_cfg1 := mkRCfg 8 4 false.
Definition rs_witness := RqMAppend 7 [mkRNew 1 None XAny RTsNow] 1000 true.

Lemma rs_checked_refuted : snd (rs_handle SubChecked rs_cfg1 rs_init rs_witness) = RPanic.
Proof. vm_compute. reflexivity. Qed.

Theorem rs_release_same : forall cfg st r,
  rs_handle SubWrap cfg st r = rs_handle SubFixed cfg st r.
Proof.
  intros cfg st r. unfold rs_handle.
  destruct r; try reflexivity.
  destruct ((rc_parts cfg =? 0) || (rc_buckets cfg =? 0)); [reflexivity|].
  unfold rs_mappend.
  destruct (rc_strict cfg && _); [reflexivity|].
  destruct (rs_build evs (rs_hash pk) now (rs_gen st)) as [[bs|] g] eqn:B; [|reflexivity].
  destruct (match bs with [] => true | _ :: _ => false end); [reflexivity|].
  destruct (negb (forallb _ bs)); [reflexivity|].
  destruct (rs_exec cfg st pk bs g fits) as [st1 [news|r]] eqn:E; [|reflexivity].
  destruct (rs_exec_accepts _ _ _ _ _ _ _ _ _ _ _ B E) as (_ & Hc & _ & Hs & _ & _).
  rewrite <- Hs.
  rewrite (rs_recon_versions_chain SubWrap _ news ltac:(discriminate) Hc).
  rewrite (rs_recon_versions_chain SubFixed _ news ltac:(discriminate) Hc). reflexivity.
Qed.
(** * well-formed logs: what every history of reference appends produces *)
Fixpoint rs_asc (f : event -> N) (l : list event) : Prop :=
  match l with [] => True | e :: t => (forall e', In e' t -> f e < f e') /\ rs_asc f t end.

Lemma rs_asc_app f a b :
  rs_asc f (a ++ b) <-> rs_asc f a /\ rs_asc f b /\ (forall x y, In x a -> In y b -> f x < f y).
Proof.
  induction a as [|e a IH]; simpl.
  - split; [intros H; repeat split; [exact H|intros x y []]|tauto].
  - rewrite IH. split.
    + intros (H1 & H2 & H3 & H4). repeat split; try assumption.
      * intros e' He'. apply H1. apply in_or_app. left. exact He'.
      * intros x y [<-|Hx] Hy; [apply H1; apply in_or_app; right; exact Hy|apply H4; assumption].
    + intros ((H1 & H2) & H3 & H4). repeat split; try assumption.
      * intros e' He'. apply in_app_or in He'. destruct He' as [He'|He']; [apply H1; exact He'|apply H4; [left; reflexivity|exact He']].
      * intros x y Hx Hy. apply H4; [right; exact Hx|exact Hy].
Qed.

Lemma rs_asc_filter f g l : rs_asc f l -> rs_asc f (filter g l).
Proof.
  induction l as [|e l IH]; simpl; [tauto|]. intros (H1 & H2).
  destruct (g e); simpl; [|apply IH; exact H2].
  split; [|apply IH; exact H2]. intros e' He'. apply filter_In in He'. apply H1. tauto.
Qed.

Lemma rs_asc_le_last f l : rs_asc f l -> forall x, In x l ->
  exists z, rs_lastopt l = Some z /\ f x <= f z.
Proof.
  induction l as [|e l IH] using rev_ind; intros H x Hx; [destruct Hx|].
  rewrite rs_lastopt_snoc. exists e. split; [reflexivity|].
  apply rs_asc_app in H. destruct H as (_ & _ & H).
  apply in_app_or in Hx. destruct Hx as [Hx|[<-|[]]]; [|lia].
  apply N.lt_le_incl, H; [exact Hx|left; reflexivity].
Qed.

Lemma rs_filter_and {A} (f g : A -> bool) l : filter (fun e => f e && g e) l = filter g (filter f l).
Proof.
  induction l as [|e l IH]; simpl; [reflexivity|].
  destruct (f e); simpl; [destruct (g e); simpl; congruence|exact IH].
Qed.

Lemma rs_filter_sub {A} (g h : A -> bool) l : (forall e, In e l -> g e = true -> h e = true) ->
  filter g l = filter g (filter h l).
Proof.
  induction l as [|e l IH]; intros H; simpl; [reflexivity|].
  destruct (g e) eqn:G.
  - rewrite (H e (or_introl eq_refl) G). simpl. rewrite G. f_equal. apply IH. intros; apply H; [right|]; assumption.
  - destruct (h e); simpl; [rewrite G|]; apply IH; intros; apply H; [right| |right|]; assumption.
Qed.

Record rs_wf_events (cfg : rs_cfg) (evs : list event) : Prop := mkWf {
  wf_pid : forall e, In e evs -> e_pid e = rs_pid cfg (e_pk e);
  wf_seq : forall p, rs_asc e_seq (filter (fun e => e_pid e =? p) evs);
  wf_ver : forall s, rs_asc e_ver (filter (fun e => e_sid e =? s) evs);
  wf_key : forall e e', In e evs -> In e' evs -> e_sid e = e_sid e' -> e_pk e = e_pk e'
}.

Lemma rs_wf_nil cfg : rs_wf_events cfg [].
Proof. constructor; simpl; intros; try tauto. Qed.

Lemma rs_lastopt_in {A} (l : list A) z : rs_lastopt l = Some z -> In z l.
Proof.
  destruct l as [|x l] using rev_ind; [discriminate|]. rewrite rs_lastopt_snoc. intros E; inversion E; subst.
  apply in_or_app. right. left. reflexivity.
Qed.

Lemma rs_wf_step cfg evs e : rs_wf_events cfg evs -> rs_fresh evs e -> e_pid e = rs_pid cfg (e_pk e) ->
  rs_wf_events cfg (evs ++ [e]).
Proof.
  intros [W1 W2 W3 W4] (Fv & Fk & Fs) Hp. constructor.
  - intros x Hx. apply in_app_or in Hx. destruct Hx as [Hx|[<-|[]]]; [apply W1; exact Hx|exact Hp].
  - intros p. rewrite filter_app. simpl. destruct (N.eqb_spec (e_pid e) p) as [<-|]; [|rewrite app_nil_r; apply W2].
    apply rs_asc_app. split; [apply W2|]. split; [simpl; tauto|].
    intros x y Hx [<-|[]].
    destruct (rs_asc_le_last e_seq _ (W2 (e_pid e)) x Hx) as (z & Hz & Hle).
    rewrite partition_last_lastopt, Hz in Fs. simpl in Fs. lia.
  - intros s. rewrite filter_app. simpl. destruct (N.eqb_spec (e_sid e) s) as [<-|]; [|rewrite app_nil_r; apply W3].
    apply rs_asc_app. split; [apply W3|]. split; [simpl; tauto|].
    intros x y Hx [<-|[]].
    destruct (rs_asc_le_last e_ver _ (W3 (e_sid e)) x Hx) as (z & Hz & Hle).
    rewrite stream_state_lastopt, Hz in Fv. simpl in Fv. lia.
  - assert (Hnew : forall x, In x evs -> e_sid x = e_sid e -> e_pk x = e_pk e).
    { intros x Hx Hsx.
      assert (Hf : In x (filter (fun e0 => e_sid e0 =? e_sid e) evs)) by (apply filter_In; split; [exact Hx|apply N.eqb_eq; exact Hsx]).
      destruct (rs_asc_le_last e_ver _ (W3 (e_sid e)) x Hf) as (z & Hz & _).
      specialize (Fk (e_pk z) (e_ver z)). rewrite stream_state_lastopt, Hz in Fk. specialize (Fk eq_refl).
      apply rs_lastopt_in, filter_In in Hz. destruct Hz as (Hz1 & Hz2). apply N.eqb_eq in Hz2.
      rewrite <- Fk. apply W4; [exact Hx|exact Hz1|congruence]. }
    intros x y Hx Hy Hs. apply in_app_or in Hx. apply in_app_or in Hy.
    destruct Hx as [Hx|[<-|[]]]; destruct Hy as [Hy|[<-|[]]].
    + apply W4; assumption.
    + apply Hnew; assumption.
    + symmetry. apply Hnew; [assumption|congruence].
    + reflexivity.
Qed.

Lemma rs_wf_chain cfg : forall added evs, rs_wf_events cfg evs -> rs_chain evs added ->
  Forall (fun e => e_pid e = rs_pid cfg (e_pk e)) added -> rs_wf_events cfg (evs ++ added).
Proof.
  induction added as [|e added IH]; intros evs W C F.
  - rewrite app_nil_r. exact W.
  - destruct C as (Cf & Cc). inversion F as [|x0 l0 Fe Fr Heq]; subst x0 l0.
    change (e :: added) with ([e] ++ added). rewrite app_assoc. apply IH; [|exact Cc|exact Fr].
    apply rs_wf_step; assumption.
Qed.

Definition rs_wf (cfg : rs_cfg) (st : rs_state) : Prop := forall b, rs_wf_events cfg (all_events (rs_logs st b)).

Lemma rs_wf_init cfg : rs_wf cfg rs_init.
Proof. intros b. apply rs_wf_nil. Qed.

Lemma rs_exec_wf cfg st pk evs hash now bs g fits st' x :
  rs_wf cfg st -> rs_build evs hash now (rs_gen st) = (Some bs, g) ->
  rs_exec cfg st pk bs g fits = (st', x) -> rs_wf cfg st'.
Proof.
  intros W B E. destruct x as [news|r].
  - destruct (rs_exec_accepts _ _ _ _ _ _ _ _ _ _ _ B E) as (Hacc & Hc & Hall & _).
    destruct Hacc as (t & _ & _ & _ & _ & _ & S & Ho & _).
    intros b. destruct (N.eq_dec b (rs_bucket cfg (rs_pid cfg pk))) as [->|Hb].
    + apply spec_append_ok in S. destruct S as (-> & _). rewrite all_events_snoc.
      apply rs_wf_chain; [apply W|exact Hc|].
      eapply Forall_impl; [|exact Hall]. simpl. intros e (-> & ->). reflexivity.
    + rewrite (Ho b Hb). apply W.
  - apply rs_exec_rej in E. destruct E as (-> & _). exact W.
Qed.

Theorem rs_handle_wf : forall mode cfg st r, rs_wf cfg st -> rs_wf cfg (fst (rs_handle mode cfg st r)).
Proof.
  intros mode cfg st r W. unfold rs_handle.
  destruct r; try exact W; destruct ((rc_parts cfg =? 0) || (rc_buckets cfg =? 0)); try exact W.
  - unfold rs_append.
    destruct (rc_strict cfg && _); [exact W|].
    destruct (rs_build _ _ _ _) as [[bs|] g] eqn:B; [|exact W].
    destruct (negb (forallb _ bs)); [exact W|].
    destruct (rs_exec _ _ _ _ _ _) as [st1 [news|r]] eqn:E; [|exact W].
    assert (W1 := rs_exec_wf _ _ _ _ _ _ _ _ _ _ _ W B E).
    destruct (rs_stream_versions news) as [|[k v] [|]]; try exact W1.
    destruct news; try exact W1. destruct bs; try exact W1. destruct (_ =? _); exact W1.
  - unfold rs_mappend.
    destruct (rc_strict cfg && _); [exact W|].
    destruct (rs_build _ _ _ _) as [[bs|] g] eqn:B; [|exact W].
    destruct (match bs with [] => true | _ :: _ => false end); [exact W|].
    destruct (negb (forallb _ bs)); [exact W|].
    destruct (rs_exec _ _ _ _ _ _) as [st1 [news|r]] eqn:E; [|exact W].
    assert (W1 := rs_exec_wf _ _ _ _ _ _ _ _ _ _ _ W B E).
    destruct (rs_recon_versions _ _ _); exact W1.
  - destruct (rc_parts cfg <=? rs_sel_pid cfg p); exact W.
Qed.

Theorem rs_run_wf : forall mode cfg ss st, rs_wf cfg st -> rs_wf cfg (fst (rs_run mode cfg st ss)).
Proof.
  induction ss as [|s ss IH]; intros st W; simpl; [exact W|].
  destruct s as [r|pid]; simpl.
  - pose proof (rs_handle_wf mode cfg st r W) as W1.
    destruct (rs_handle mode cfg st r) as [st1 o]. simpl in W1.
    specialize (IH st1 W1). destruct (rs_run mode cfg st1 ss). exact IH.
  - specialize (IH (rs_confirm cfg st pid) W). destruct (rs_run mode cfg (rs_confirm cfg st pid) ss). exact IH.
Qed.
(** * ESCAN: the loop over the commits of a stream *)
Fixpoint rs_tw {A} (p : A -> bool) (l : list A) : list A :=
  match l with [] => [] | x :: t => if p x then x :: rs_tw p t else [] end.

Lemma rs_tw_app_all {A} (p : A -> bool) c y : forallb p c = true -> rs_tw p (c ++ y) = c ++ rs_tw p y.
Proof.
  induction c as [|x c IH]; simpl; [reflexivity|]. intros H. apply andb_true_iff in H. destruct H as (H1 & H2).
  rewrite H1, IH by exact H2. reflexivity.
Qed.
Lemma rs_tw_none {A} (p : A -> bool) l : (forall e, In e l -> p e = false) -> rs_tw p l = [].
Proof. destruct l as [|x l]; simpl; [reflexivity|]. intros H. rewrite (H x (or_introl eq_refl)). reflexivity. Qed.

Lemma rs_len_app {A} (a b : list A) : rs_len (a ++ b) = rs_len a + rs_len b.
Proof. unfold rs_len. rewrite app_length. lia. Qed.
Lemma rs_len_cons {A} (x : A) l : rs_len (x :: l) = rs_len l + 1.
Proof. unfold rs_len. simpl length. lia. Qed.

Lemma rs_take_firstn {A} : forall (l : list A) n, rs_take n l = firstn (N.to_nat n) l.
Proof.
  induction l as [|x l IH]; intros n; simpl.
  - destruct (N.to_nat n); reflexivity.
  - destruct (N.eqb_spec n 0) as [->|Hn]; [reflexivity|].
    replace (N.to_nat n) with (S (N.to_nat (n - 1))) by lia. simpl. f_equal. apply IH.
Qed.
Lemma rs_take_all {A} : forall (l : list A) n, rs_len l <= n -> rs_take n l = l.
Proof.
  induction l as [|x l IH]; intros n H; simpl; [reflexivity|].
  rewrite rs_len_cons in H. destruct (N.eqb_spec n 0); [lia|]. f_equal. apply IH. lia.
Qed.
Lemma rs_take_app_ge {A} : forall (c y : list A) n, rs_len c <= n -> rs_take n (c ++ y) = c ++ rs_take (n - rs_len c) y.
Proof.
  induction c as [|x c IH]; intros y n H.
  - simpl. f_equal. unfold rs_len. simpl. lia.
  - rewrite rs_len_cons in *. cbn [app rs_take]. destruct (N.eqb_spec n 0); [lia|]. f_equal. rewrite IH by lia. replace (n - 1 - rs_len c) with (n - (rs_len c + 1)) by lia. reflexivity.
Qed.
Lemma rs_take_0 {A} (l : list A) : rs_take 0 l = [].
Proof. destruct l; reflexivity. Qed.

Definition rs_ok (W : N) (endo : option N) (e : event) : bool := (e_seq e <? W) && negb (rs_over endo (e_ver e)).

Lemma rs_ok_dc W endo e t : rs_asc e_ver (e :: t) -> rs_asc e_seq (e :: t) -> rs_ok W endo e = false ->
  forall e', In e' t -> rs_ok W endo e' = false.
Proof.
  intros (Hv & _) (Hs & _) H e' He'. specialize (Hv e' He'). specialize (Hs e' He').
  unfold rs_ok in *. apply andb_false_iff in H. apply andb_false_iff. destruct H as [H|H].
  - left. apply N.ltb_ge in H. apply N.ltb_ge. lia.
  - right. apply negb_false_iff in H. apply negb_false_iff. unfold rs_over in *.
    destruct endo as [n|]; [|discriminate]. apply N.ltb_lt in H. apply N.ltb_lt. lia.
Qed.

Lemma rs_ss_events_spec W endo count : forall c acc more, rs_len acc <= count ->
  match rs_ss_events c count W endo acc more with
  | (acc', more', BkNone) => acc' = acc ++ c /\ forallb (rs_ok W endo) c = true /\ more' = more /\ rs_len acc' <= count
  | (acc', more', BkInner) => exists c1 e c2, c = c1 ++ e :: c2 /\ forallb (rs_ok W endo) c1 = true /\ acc' = acc ++ c1 /\
        rs_ok W endo e = false /\ rs_len acc' < count /\ more' = true
  | (acc', more', BkIter) => exists c1 e c2, c = c1 ++ e :: c2 /\ forallb (rs_ok W endo) c1 = true /\ acc' = acc ++ c1 /\
        rs_len acc' <= count /\
        ((count <= rs_len acc' /\ more' = true) \/ (rs_ok W endo e = false /\ more' = more))
  end.
Proof.
  induction c as [|e c IH]; intros acc more Hlen; simpl.
  - rewrite app_nil_r. repeat split. exact Hlen.
  - destruct (N.leb_spec count (rs_len acc)) as [Hc|Hc].
    + exists [], e, c. simpl. rewrite app_nil_r. repeat split; try assumption. left. split; [exact Hc|reflexivity].
    + destruct (N.leb_spec W (e_seq e)) as [Hw|Hw].
      * exists [], e, c. simpl. rewrite app_nil_r. repeat split; try assumption. right. split; [|reflexivity].
        unfold rs_ok. apply andb_false_iff. left. apply N.ltb_ge. exact Hw.
      * destruct (rs_over endo (e_ver e)) eqn:Ho.
        -- exists [], e, c. simpl. rewrite app_nil_r. repeat split; try assumption.
           unfold rs_ok. rewrite Ho. apply andb_false_r.
        -- assert (Hok : rs_ok W endo e = true) by (unfold rs_ok; rewrite Ho; apply andb_true_iff; split; [apply N.ltb_lt; exact Hw|reflexivity]).
           specialize (IH (acc ++ [e]) more). rewrite rs_len_app in IH. unfold rs_len at 2 in IH. simpl in IH.
           specialize (IH ltac:(lia)).
           destruct (rs_ss_events c count W endo (acc ++ [e]) more) as [[acc' more'] b]. destruct b.
           ++ destruct IH as (-> & Hall & -> & Hl). rewrite <- app_assoc in *. simpl in *. rewrite Hok.
              repeat split; try assumption; reflexivity.
           ++ destruct IH as (c1 & x & c2 & -> & Hall & -> & Hx & Hl & ->). rewrite <- app_assoc in *. simpl in *.
              exists (e :: c1), x, c2. simpl. rewrite Hok. repeat split; try assumption; reflexivity.
           ++ destruct IH as (c1 & x & c2 & -> & Hall & -> & Hl & Hd). rewrite <- app_assoc in *. simpl in *.
              exists (e :: c1), x, c2. simpl. rewrite Hok. repeat split; try assumption; reflexivity.
Qed.

Lemma rs_last_ver_app acc c : c <> [] -> exists z, rs_lastopt c = Some z /\ rs_last_ver (acc ++ c) = e_ver z.
Proof.
  intros H. destruct c as [|x c] using rev_ind; [congruence|].
  exists x. rewrite rs_lastopt_snoc. split; [reflexivity|].
  unfold rs_last_ver. rewrite app_assoc, rev_app_distr. reflexivity.
Qed.

Lemma rs_ss_loop_spec W endo count : forall cs acc more,
  Forall (fun c => c <> []) cs -> rs_len acc <= count ->
  rs_asc e_ver (concat cs) -> rs_asc e_seq (concat cs) ->
  match rs_ss_loop cs count W endo acc more with
  | (res, more') =>
      res = acc ++ rs_take (count - rs_len acc) (rs_tw (rs_ok W endo) (concat cs)) /\
      (more' = false -> more = false /\ res = acc ++ rs_tw (rs_ok W endo) (concat cs))
  end.
Proof.
  induction cs as [|c t IH]; intros acc more Hne Hlen Hv Hs; simpl.
  - rewrite app_nil_r. split; [reflexivity|]. intros ->. split; reflexivity.
  - inversion Hne as [|x0 l0 Hc Hnt Heq]; subst x0 l0.
    apply rs_asc_app in Hv. destruct Hv as (Hvc & Hvt & Hvx).
    apply rs_asc_app in Hs. destruct Hs as (Hsc & Hst & Hsx).
    pose proof (rs_ss_events_spec W endo count c acc more Hlen) as E.
    destruct (rs_ss_events c count W endo acc more) as [[acc' more'] b]. destruct b.
    + (* the whole commit was taken *)
      destruct E as (-> & Hall & -> & Hl). rewrite rs_len_app in Hl.
      rewrite rs_tw_app_all by exact Hall.
      destruct (N.leb_spec count (rs_len (acc ++ c))) as [Hc1|Hc1].
      * rewrite rs_len_app in Hc1. split; [|discriminate].
        rewrite rs_take_app_ge by lia. replace (count - rs_len acc - rs_len c) with 0 by lia.
        rewrite rs_take_0, app_nil_r. reflexivity.
      * destruct (rs_reached endo (rs_last_ver (acc ++ c))) eqn:R.
        -- (* the end version was reached: everything that follows lies beyond it *)
           assert (Hnone : rs_tw (rs_ok W endo) (concat t) = []).
           { apply rs_tw_none. intros e' He'.
             destruct (rs_last_ver_app acc c Hc) as (z & Hz & Hzv). rewrite Hzv in R.
             apply rs_lastopt_in in Hz. specialize (Hvx z e' Hz He').
             unfold rs_ok. apply andb_false_iff. right. apply negb_false_iff.
             unfold rs_reached in R. unfold rs_over. destruct endo as [n|]; [|discriminate].
             apply N.leb_le in R. apply N.ltb_lt. lia. }
           rewrite Hnone, app_nil_r. split.
           ++ rewrite rs_take_all by lia. reflexivity.
           ++ intros ->. split; reflexivity.
        -- rewrite rs_len_app in Hc1.
           specialize (IH (acc ++ c) more Hnt ltac:(rewrite rs_len_app; lia) Hvt Hst).
           destruct (rs_ss_loop t count W endo (acc ++ c) more) as [res mo].
           destruct IH as (IH1 & IH2). split.
           ++ rewrite IH1, rs_len_app, rs_take_app_ge by lia. rewrite <- app_assoc. do 3 f_equal. lia.
           ++ intros Hm. destruct (IH2 Hm) as (-> & ->). split; [reflexivity|]. rewrite <- app_assoc. reflexivity.
    + (* an event beyond the end version *)
      destruct E as (c1 & e & c2 & -> & Hall & -> & He & Hl & ->).
      assert (Hrest : forall e', In e' (c2 ++ concat t) -> rs_ok W endo e' = false).
      { intros e' He'. apply in_app_or in He'. destruct He' as [He'|He'].
        - apply rs_asc_app in Hvc. destruct Hvc as (_ & Hvc & _). apply rs_asc_app in Hsc. destruct Hsc as (_ & Hsc & _).
          eapply rs_ok_dc; eassumption.
        - unfold rs_ok. assert (Hin : In e (c1 ++ e :: c2)) by (apply in_or_app; right; left; reflexivity).
          specialize (Hvx e e' Hin He'). specialize (Hsx e e' Hin He').
          unfold rs_ok in He. apply andb_false_iff in He. apply andb_false_iff. destruct He as [He|He].
          + left. apply N.ltb_ge in He. apply N.ltb_ge. lia.
          + right. apply negb_false_iff in He. apply negb_false_iff. unfold rs_over in *.
            destruct endo as [n|]; [|discriminate]. apply N.ltb_lt in He. apply N.ltb_lt. lia. }
      assert (Htw : rs_tw (rs_ok W endo) ((c1 ++ e :: c2) ++ concat t) = c1).
      { rewrite <- app_assoc. rewrite rs_tw_app_all by exact Hall. simpl. rewrite He. apply app_nil_r. }
      rewrite Htw. rewrite rs_len_app in Hl.
      assert (Htk : rs_take (count - rs_len acc) c1 = c1) by (apply rs_take_all; lia).
      destruct (N.leb_spec count (rs_len (acc ++ c1))) as [Hc1|Hc1]; [rewrite rs_len_app in Hc1; lia|].
      destruct (rs_reached endo (rs_last_ver (acc ++ c1))).
      * rewrite Htk. split; [reflexivity|discriminate].
      * specialize (IH (acc ++ c1) true Hnt ltac:(rewrite rs_len_app; lia) Hvt Hst).
        destruct (rs_ss_loop t count W endo (acc ++ c1) true) as [res mo].
        destruct IH as (IH1 & IH2).
        rewrite (rs_tw_none _ (concat t)) in IH1 by (intros e' He'; apply Hrest; apply in_or_app; right; exact He').
        rewrite rs_take_0 in IH1 || (destruct (count - rs_len (acc ++ c1)); simpl in IH1).
        all: rewrite ?app_nil_r in IH1; rewrite Htk; split; [exact IH1|].
        all: intros Hm; destruct (IH2 Hm) as (X & _); discriminate.
    + (* count reached, or the watermark *)
      destruct E as (c1 & e & c2 & -> & Hall & -> & Hl & Hd). rewrite rs_len_app in Hl.
      rewrite <- app_assoc, rs_tw_app_all by exact Hall.
      destruct Hd as [(Hc1 & ->)|(He & ->)].
      * rewrite rs_len_app in Hc1. split; [|discriminate].
        rewrite rs_take_app_ge by lia. replace (count - rs_len acc - rs_len c1) with 0 by lia.
        rewrite rs_take_0, app_nil_r. reflexivity.
      * simpl. rewrite He, app_nil_r. split.
        -- rewrite rs_take_all by lia. reflexivity.
        -- intros ->. split; reflexivity.
Qed.
(** * ESCAN / EPSCAN against the reference filters *)
Lemma rs_concat_nonempty {A} (l : list (list A)) : concat (rs_nonempty l) = concat l.
Proof. induction l as [|[|x g] l IH]; simpl; [reflexivity|exact IH|rewrite IH; reflexivity]. Qed.
Lemma rs_nonempty_all {A} (l : list (list A)) : Forall (fun c => c <> []) (rs_nonempty l).
Proof.
  induction l as [|[|x g] l IH]; simpl; [constructor|exact IH|]. constructor; [discriminate|exact IH].
Qed.
Lemma rs_concat_map_filter {A} (p : A -> bool) l : concat (map (filter p) l) = filter p (concat l).
Proof. induction l as [|g l IH]; simpl; [reflexivity|]. rewrite filter_app, IH. reflexivity. Qed.

Lemma rs_stream_commits_concat l sid start : concat (rs_stream_commits l sid start) = spec_scan_stream_fwd l sid start.
Proof. unfold rs_stream_commits, spec_scan_stream_fwd, all_events. rewrite rs_concat_nonempty. apply rs_concat_map_filter. Qed.

Lemma rs_filter_none {A} (p : A -> bool) l : (forall e, In e l -> p e = false) -> filter p l = [].
Proof.
  induction l as [|x l IH]; intros H; simpl; [reflexivity|].
  rewrite (H x (or_introl eq_refl)). apply IH. intros e He. apply H. right. exact He.
Qed.

Lemma rs_tw_filter W endo l : rs_asc e_ver l -> rs_asc e_seq l -> rs_tw (rs_ok W endo) l = filter (rs_ok W endo) l.
Proof.
  induction l as [|e l IH]; intros Hv Hs; simpl; [reflexivity|].
  destruct (rs_ok W endo e) eqn:E.
  - f_equal. apply IH; [apply Hv|apply Hs].
  - symmetry. apply rs_filter_none. exact (rs_ok_dc W endo e l Hv Hs E).
Qed.

(** the events of a stream, as the bucket stores them, ascend in version and in partition sequence *)
Lemma rs_wf_stream_asc cfg evs sid start : rs_wf_events cfg evs ->
  let s := filter (fun e => (e_sid e =? sid) && (start <=? e_ver e)) evs in
  rs_asc e_ver s /\ rs_asc e_seq s.
Proof.
  intros [W1 W2 W3 W4]. simpl. rewrite rs_filter_and. split.
  - apply rs_asc_filter, W3.
  - apply rs_asc_filter.
    destruct (filter (fun e => e_sid e =? sid) evs) as [|x r] eqn:F; [exact I|].
    assert (Hx : In x evs /\ e_sid x = sid).
    { assert (X : In x (filter (fun e => e_sid e =? sid) evs)) by (rewrite F; left; reflexivity).
      apply filter_In in X. destruct X as (X1 & X2). apply N.eqb_eq in X2. tauto. }
    rewrite <- F.
    rewrite (rs_filter_sub _ (fun e => e_pid e =? e_pid x)).
    + apply rs_asc_filter, W2.
    + intros e He Hs. apply N.eqb_eq in Hs. apply N.eqb_eq.
      rewrite (W1 e He), (W1 x (proj1 Hx)). f_equal. apply W4; [exact He|tauto|]. destruct Hx; congruence.
Qed.

Theorem rs_stream_scan_exact : forall cfg l W sid start endo count, rs_wf_events cfg (all_events l) ->
  let inrange := filter (rs_ok W endo) (spec_scan_stream_fwd l sid start) in
  fst (rs_stream_scan l W sid start endo count) = firstn (N.to_nat count) inrange /\
  (snd (rs_stream_scan l W sid start endo count) = false -> fst (rs_stream_scan l W sid start endo count) = inrange).
Proof.
  intros cfg l W sid start endo count Hwf. simpl.
  destruct (rs_wf_stream_asc cfg _ sid start Hwf) as (Hv & Hs).
  unfold rs_stream_scan.
  pose proof (rs_ss_loop_spec W endo count (rs_stream_commits l sid start) [] false
                (rs_nonempty_all _) ltac:(unfold rs_len; simpl; lia)) as L.
  rewrite rs_stream_commits_concat in L. unfold spec_scan_stream_fwd in *.
  specialize (L Hv Hs).
  destruct (rs_ss_loop _ _ _ _ _ _) as [res mo]. destruct L as (L1 & L2). simpl in *.
  rewrite rs_tw_filter in L1, L2 by assumption.
  split.
  - rewrite L1. unfold rs_len. simpl. rewrite N.sub_0_r. apply rs_take_firstn.
  - intros Hm. apply L2 in Hm. tauto.
Qed.

(** EPSCAN *)
Definition rs_pin (W : N) (endo : option N) (e : event) : bool :=
  (e_seq e <? W) && match endo with Some n => e_seq e <=? n | None => true end.

Lemma rs_pin_eff W endo e : (e_seq e <? rs_pr_eff W endo) = rs_pin W endo e.
Proof.
  unfold rs_pr_eff, rs_pin. destruct endo as [n|]; [|rewrite andb_true_r; reflexivity].
  destruct (N.ltb_spec (e_seq e) (N.min (n + 1) W)), (N.ltb_spec (e_seq e) W), (N.leb_spec (e_seq e) n); simpl; try reflexivity; lia.
Qed.

Lemma rs_asc_prefix_last f a b : rs_asc f (a ++ b) -> forall z, rs_lastopt a = Some z -> forall y, In y b -> f z < f y.
Proof.
  intros H z Hz y Hy. apply rs_asc_app in H. destruct H as (_ & _ & H). apply H; [apply rs_lastopt_in; exact Hz|exact Hy].
Qed.

Theorem rs_partition_scan_exact : forall cfg l W pid start endo count, rs_wf_events cfg (all_events l) ->
  let inrange := filter (rs_pin W endo) (spec_scan_partition_fwd l pid start) in
  fst (rs_partition_scan l W pid start endo count) = firstn (N.to_nat count) inrange /\
  (snd (rs_partition_scan l W pid start endo count) = false -> fst (rs_partition_scan l W pid start endo count) = inrange).
Proof.
  intros cfg l W pid start endo count [_ W2 _ _]. simpl.
  assert (Hasc : rs_asc e_seq (filter (rs_pin W endo) (spec_scan_partition_fwd l pid start))).
  { apply rs_asc_filter. unfold spec_scan_partition_fwd. rewrite rs_filter_and. apply rs_asc_filter, W2. }
  assert (Hge : forall e, In e (filter (rs_pin W endo) (spec_scan_partition_fwd l pid start)) -> start <= e_seq e /\ e_seq e < W).
  { intros e He. apply filter_In in He. destruct He as (He & Hp). unfold spec_scan_partition_fwd in He.
    apply filter_In in He. destruct He as (_ & He). apply andb_true_iff in He. destruct He as (_ & He).
    apply N.leb_le in He. unfold rs_pin in Hp. apply andb_true_iff in Hp. destruct Hp as (Hp & _). apply N.ltb_lt in Hp. lia. }
  unfold rs_partition_scan. destruct (N.leb_spec W start) as [Hws|Hws]; simpl.
  - destruct (filter (rs_pin W endo) (spec_scan_partition_fwd l pid start)) as [|e r] eqn:F.
    + destruct (N.to_nat count); split; reflexivity.
    + specialize (Hge e (or_introl eq_refl)). lia.
  - rewrite (filter_ext _ _ (rs_pin_eff W endo)).
    set (F := filter (rs_pin W endo) (spec_scan_partition_fwd l pid start)) in *.
    rewrite rs_take_firstn. split; [reflexivity|].
    intros Hm. rewrite <- (firstn_skipn (N.to_nat count) F) at 2.
    destruct (skipn (N.to_nat count) F) as [|y r] eqn:Sk; [rewrite app_nil_r; reflexivity|exfalso].
    assert (Hy : In y F) by (rewrite <- (firstn_skipn (N.to_nat count) F), Sk; apply in_or_app; right; left; reflexivity).
    rewrite <- (firstn_skipn (N.to_nat count) F), Sk in Hasc.
    pose proof (rs_lastopt_rev (firstn (N.to_nat count) F)) as Lz.
    destruct (rev (firstn (N.to_nat count) F)) as [|z zs].
    + apply N.ltb_ge in Hm. lia.
    + apply N.ltb_ge in Hm. pose proof (rs_asc_prefix_last _ _ _ Hasc z Lz y (or_introl eq_refl)).
      specialize (Hge y Hy). lia.
Qed.

Lemma rs_in_firstn {A} n : forall (l : list A) x, In x (firstn n l) -> In x l.
Proof. induction n as [|n IH]; intros [|y l] x H; simpl in *; try tauto. destruct H as [H|H]; [left; exact H|right; apply IH; exact H]. Qed.

(** every returned event lies below the watermark (only confirmed events are revealed) *)
Theorem rs_scan_gated : forall cfg l W sid pid start endo count e, rs_wf_events cfg (all_events l) ->
  (In e (fst (rs_stream_scan l W sid start endo count)) -> e_seq e < W) /\
  (In e (fst (rs_partition_scan l W pid start endo count)) -> e_seq e < W).
Proof.
  intros cfg l W sid pid start endo count e Hwf. split; intros H.
  - rewrite (proj1 (rs_stream_scan_exact cfg l W sid start endo count Hwf)) in H.
    apply rs_in_firstn, filter_In in H. destruct H as (_ & H). unfold rs_ok in H.
    apply andb_true_iff in H. destruct H as (H & _). apply N.ltb_lt. exact H.
  - rewrite (proj1 (rs_partition_scan_exact cfg l W pid start endo count Hwf)) in H.
    apply rs_in_firstn, filter_In in H. destruct H as (_ & H). unfold rs_pin in H.
    apply andb_true_iff in H. destruct H as (H & _). apply N.ltb_lt. exact H.
Qed.

(** ESVER: the version of the newest confirmed event = the reference stream version of the confirmed part *)
Lemma rs_find_rev {A} (p : A -> bool) l : find p (rev l) = rs_lastopt (filter p l).
Proof.
  induction l as [|x l IH] using rev_ind; [reflexivity|].
  rewrite rev_app_distr, filter_app, rs_lastopt_app. simpl. destruct (p x); simpl; [reflexivity|exact IH].
Qed.

Theorem rs_stream_version_exact : forall l W sid,
  rs_stream_version l W sid =
  match stream_state (filter (fun e => e_seq e <? W) (all_events l)) sid with Some (_, v) => Some v | None => None end.
Proof.
  intros l W sid. unfold rs_stream_version. rewrite rs_find_rev, stream_state_lastopt.
  rewrite <- !rs_filter_and.
  rewrite (filter_ext (fun e => (e_seq e <? W) && (e_sid e =? sid)) (fun e => (e_sid e =? sid) && (e_seq e <? W)))
    by (intros; apply andb_comm).
  destruct (rs_lastopt _); reflexivity.
Qed.

Theorem rs_read_event_exact : forall l W id,
  rs_read_event l W id = match spec_read_event l id with
                         | Some e => if e_seq e <? W then Some e else None
                         | None => None end.
Proof.
  intros l W id. unfold rs_read_event. destruct (spec_read_event l id) as [e|]; [|reflexivity].
  destruct (N.ltb_spec W (e_seq e + 1)), (N.ltb_spec (e_seq e) W); try reflexivity; lia.
Qed.

(** once the confirmation actor has caught up, a partition's watermark covers all its events *)
Lemma rs_confirmed_all cfg l pid e : rs_wf_events cfg (all_events l) -> In e (all_events l) -> e_pid e = pid ->
  e_seq e < rs_next_seq l pid.
Proof.
  intros [_ W2 _ _] He Hp. unfold rs_next_seq, spec_partition_sequence. rewrite partition_last_lastopt.
  assert (Hf : In e (filter (fun e0 => e_pid e0 =? pid) (all_events l))) by (apply filter_In; split; [exact He|apply N.eqb_eq; exact Hp]).
  destruct (rs_asc_le_last e_seq _ (W2 pid) e Hf) as (z & -> & Hle). lia.
Qed.
(** * the read requests at the level of replies *)
Definition rs_rg_start (s : rs_range) : N := match s with RgVal n => n | _ => 0 end.
Definition rs_rg_end (e : rs_range) : option N := match e with RgVal n => Some n | _ => None end.
Definition rs_count (c : option N) : N := match c with Some n => n | None => 100 end.

Theorem rs_scan_reply : forall mode cfg st sid s e pk dflt count st' more evs,
  rs_wf cfg st ->
  rs_handle mode cfg st (RqScan sid s e pk dflt count) = (st', ROk (RpScan more evs)) ->
  let pid := rs_pid cfg (match pk with Some k => k | None => dflt end) in
  let inrange := filter (rs_ok (rs_wm st pid) (rs_rg_end e))
                   (spec_scan_stream_fwd (rs_logs st (rs_bucket cfg pid)) sid (rs_rg_start s)) in
  st' = st /\ evs = firstn (N.to_nat (rs_count count)) inrange /\ (more = false -> evs = inrange).
Proof.
  intros mode cfg st sid s e pk dflt count st' more evs Hwf H. simpl.
  unfold rs_handle in H. destruct ((rc_parts cfg =? 0) || (rc_buckets cfg =? 0)); [discriminate|].
  unfold rs_scan in H.
  set (pid := rs_pid cfg (match pk with Some k => k | None => dflt end)) in *.
  pose proof (rs_stream_scan_exact cfg (rs_logs st (rs_bucket cfg pid)) (rs_wm st pid) sid (rs_rg_start s) (rs_rg_end e)
                (rs_count count) (Hwf _)) as X. simpl in X.
  destruct s as [| |sn]; try discriminate; destruct e as [| |en]; try discriminate; simpl in *;
    destruct (rs_stream_scan _ _ _ _ _ _) as [evs0 more0]; simpl in X;
    injection H as H1 H2 H3; subst st' more evs; (split; [reflexivity|exact X]).
Qed.

Theorem rs_pscan_reply : forall mode cfg st p s e count st' more evs,
  rs_wf cfg st ->
  rs_handle mode cfg st (RqPScan p s e count) = (st', ROk (RpScan more evs)) ->
  let pid := rs_sel_pid cfg p in
  let inrange := filter (rs_pin (rs_wm st pid) (rs_rg_end e))
                   (spec_scan_partition_fwd (rs_logs st (rs_bucket cfg pid)) pid (rs_rg_start s)) in
  st' = st /\ pid < rc_parts cfg /\ evs = firstn (N.to_nat (rs_count count)) inrange /\ (more = false -> evs = inrange).
Proof.
  intros mode cfg st p s e count st' more evs Hwf H. simpl.
  unfold rs_handle in H. destruct ((rc_parts cfg =? 0) || (rc_buckets cfg =? 0)); [discriminate|].
  unfold rs_pscan in H.
  set (pid := rs_sel_pid cfg p) in *.
  pose proof (rs_partition_scan_exact cfg (rs_logs st (rs_bucket cfg pid)) (rs_wm st pid) pid (rs_rg_start s) (rs_rg_end e)
                (rs_count count) (Hwf _)) as X. simpl in X.
  destruct s as [| |sn]; try discriminate; destruct e as [| |en]; try discriminate; simpl in *;
    destruct (N.leb_spec (rc_parts cfg) pid); try discriminate;
    destruct (rs_partition_scan _ _ _ _ _ _) as [evs0 more0]; simpl in X;
    injection H as H1 H2 H3; subst st' more evs; (split; [reflexivity|split; [assumption|exact X]]).
Qed.

(** * timestamps: an overflowing or too large TIMESTAMP is answered with an error and changes nothing *)
Lemma spec_append_ts_ok l t fits l' news : spec_append l t fits = (l', inl news) -> forallb n_ts_ok (t_events t) = true.
Proof.
  unfold spec_append. intros H.
  destruct (assign_versions _ _ _ _ _); [|inversion H].
  destruct (negb fits); [inversion H|].
  destruct (negb (holds _ _)); [inversion H|].
  destruct (forallb n_ts_ok (t_events t)); [reflexivity|inversion H].
Qed.

Theorem rs_append_ts_overflow : forall mode cfg st ev pk dflt now fits ms,
  0 < rc_parts cfg -> 0 < rc_buckets cfg ->
  rn_ts ev = RTsMs ms -> rs_u64 <= ms * 1000000 ->
  rs_handle mode cfg st (RqAppend ev pk dflt now fits) = (st, ROk (RpErr EInvalidArg)).
Proof.
  intros mode cfg st ev pk dflt now fits ms HP HB Hts Hov. unfold rs_handle.
  replace ((rc_parts cfg =? 0) || (rc_buckets cfg =? 0)) with false
    by (symmetry; apply orb_false_iff; split; apply N.eqb_neq; lia).
  unfold rs_append. destruct (rc_strict cfg && _); [reflexivity|].
  simpl. rewrite Hts. simpl. destruct (N.ltb_spec (ms * 1000000) rs_u64); [lia|].
  destruct (rn_eid ev); reflexivity.
Qed.

Theorem rs_append_ts_high : forall mode cfg st ev pk dflt now fits ms,
  0 < rc_parts cfg -> 0 < rc_buckets cfg ->
  rn_ts ev = RTsMs ms -> rs_i63 <= ms * 1000000 ->
  exists e, rs_handle mode cfg st (RqAppend ev pk dflt now fits) = (st, ROk (RpErr e)).
Proof.
  intros mode cfg st ev pk dflt now fits ms HP HB Hts Hhi. unfold rs_handle.
  replace ((rc_parts cfg =? 0) || (rc_buckets cfg =? 0)) with false
    by (symmetry; apply orb_false_iff; split; apply N.eqb_neq; lia).
  unfold rs_append. destruct (rc_strict cfg && _); [eexists; reflexivity|].
  set (key := match pk with Some k => k | None => dflt end).
  destruct (rs_build [ev] (rs_hash key) now (rs_gen st)) as [[bs|] g] eqn:B; [|eexists; reflexivity].
  destruct (negb (forallb _ bs)); [eexists; reflexivity|].
  destruct (rs_exec cfg st key bs g fits) as [st1 [news|r]] eqn:E; [exfalso|eexists; reflexivity].
  apply rs_exec_ok in E. destruct E as (S & _). apply spec_append_ts_ok in S.
  simpl in B. rewrite Hts in B. simpl in B.
  destruct (N.ltb_spec (ms * 1000000) rs_u64); [|destruct (rn_eid ev); discriminate].
  destruct (rn_eid ev); inversion B; subst; simpl in S; rewrite andb_true_r in S; apply N.ltb_lt in S; lia.
Qed.

(** once confirmed, the watermark covers every event of the partition *)
Theorem rs_confirm_covers : forall cfg st pid e, rs_wf cfg st ->
  In e (all_events (rs_logs st (rs_bucket cfg pid))) -> e_pid e = pid ->
  e_seq e < rs_wm (rs_confirm cfg st pid) pid.
Proof.
  intros cfg st pid e Hwf He Hp. unfold rs_confirm. simpl. rewrite rs_upd_same.
  eapply rs_confirmed_all; [apply Hwf|exact He|exact Hp].
Qed.

Theorem rs_reachable_wf : forall mode cfg ss, rs_wf cfg (fst (rs_run mode cfg rs_init ss)).
Proof. intros. apply rs_run_wf, rs_wf_init. Qed.

(** * why an append is answered with an error *)
Lemma rs_hash_gen_id gen key : rs_hash (rs_gen_id gen (rs_hash key)) = rs_hash key.
Proof. unfold rs_gen_id, rs_hash. rewrite N.add_comm, N.mod_add by discriminate. apply N.mod_mod. discriminate. Qed.

Lemma rs_build_none now key : forall evs gen g', rs_build evs (rs_hash key) now gen = (None, g') ->
  exists ev, In ev evs /\ rs_ts_nanos (rn_ts ev) now = None.
Proof.
  induction evs as [|ev evs IH]; intros gen g' H; simpl in H; [discriminate|].
  destruct (match rn_eid ev with Some i => (i, gen) | None => (rs_gen_id gen (rs_hash key), gen + 1) end) as [id gen1].
  destruct (rs_ts_nanos (rn_ts ev) now) as [ns|] eqn:T.
  - destruct (rs_build evs (rs_hash key) now gen1) as [[r|] g] eqn:B; [discriminate|].
    destruct (IH _ _ B) as (x & Hx & Tx). exists x. split; [right; exact Hx|exact Tx].
  - exists ev. split; [left; reflexivity|exact T].
Qed.

Lemma rs_build_badhash now key : forall evs gen bs g', rs_build evs (rs_hash key) now gen = (Some bs, g') ->
  forallb (fun b => rs_hash (rb_id b) =? rs_hash key) bs = false ->
  exists ev i, In ev evs /\ rn_eid ev = Some i /\ rs_hash i <> rs_hash key.
Proof.
  induction evs as [|ev evs IH]; intros gen bs g' H F; simpl in H.
  - inversion H; subst. discriminate.
  - destruct (rn_eid ev) as [i|] eqn:Ei; destruct (rs_ts_nanos (rn_ts ev) now) as [ns|]; try discriminate.
    + destruct (rs_build evs (rs_hash key) now gen) as [[r|] g] eqn:B; [|discriminate].
      inversion H; subst. simpl in F. apply andb_false_iff in F. destruct F as [F|F].
      * exists ev, i. split; [left; reflexivity|]. split; [exact Ei|]. apply N.eqb_neq. exact F.
      * destruct (IH _ _ _ B F) as (x & j & Hx & Ej & Hj). exists x, j. split; [right; exact Hx|tauto].
    + destruct (rs_build evs (rs_hash key) now (gen + 1)) as [[r|] g] eqn:B; [|discriminate].
      inversion H; subst. simpl in F. rewrite rs_hash_gen_id, N.eqb_refl in F. simpl in F.
      destruct (IH _ _ _ B F) as (x & j & Hx & Ej & Hj). exists x, j. split; [right; exact Hx|tauto].
Qed.

(** the RESP-level reasons to refuse an append before it reaches the store *)
Definition rs_refused (cfg : rs_cfg) (key : N) (evs : list rs_newev) (now : N) : Prop :=
  (rc_strict cfg = true /\ exists ev, In ev evs /\ rs_strict_ok (rn_xv ev) = false) \/
  (exists ev, In ev evs /\ rs_ts_nanos (rn_ts ev) now = None) \/
  evs = [] \/
  (exists ev i, In ev evs /\ rn_eid ev = Some i /\ rs_hash i <> rs_hash key).

Lemma rs_forallb_false {A} (p : A -> bool) l : forallb p l = false -> exists x, In x l /\ p x = false.
Proof.
  induction l as [|x l IH]; simpl; [discriminate|]. intros H. apply andb_false_iff in H. destruct H as [H|H].
  - exists x. split; [left; reflexivity|exact H].
  - destruct (IH H) as (y & Hy & Py). exists y. split; [right; exact Hy|exact Py].
Qed.

Theorem rs_mappend_error : forall mode cfg st pk evs now fits st' e,
  rs_handle mode cfg st (RqMAppend pk evs now fits) = (st', ROk (RpErr e)) ->
  (e = EInvalidArg /\ rs_refused cfg pk evs now) \/
  (exists bs g l' r, rs_build evs (rs_hash pk) now (rs_gen st) = (Some bs, g) /\
     spec_append (rs_logs st (rs_bucket cfg (rs_pid cfg pk))) (rs_txn cfg st pk bs) fits = (l', inr r) /\ e = rs_err_of r).
Proof.
  intros mode cfg st pk evs now fits st' e H.
  unfold rs_handle in H. destruct ((rc_parts cfg =? 0) || (rc_buckets cfg =? 0)); [discriminate|].
  unfold rs_mappend in H.
  destruct (rc_strict cfg && negb (forallb (fun ev => rs_strict_ok (rn_xv ev)) evs)) eqn:S.
  { left. injection H as _ <-. split; [reflexivity|]. left. apply andb_true_iff in S. destruct S as (S1 & S2).
    split; [exact S1|]. apply negb_true_iff in S2. apply rs_forallb_false in S2. exact S2. }
  destruct (rs_build evs (rs_hash pk) now (rs_gen st)) as [[bs|] g] eqn:B.
  2:{ left. injection H as _ <-. split; [reflexivity|]. right. left. eapply rs_build_none. exact B. }
  destruct (match bs with [] => true | _ :: _ => false end) eqn:Hnil.
  { left. injection H as _ <-. split; [reflexivity|]. right. right. left.
    destruct bs; [|discriminate]. apply rs_build_ok in B. destruct B as (_ & _ & L). destruct evs; [reflexivity|discriminate]. }
  destruct (negb (forallb (fun b => rs_hash (rb_id b) =? rs_hash pk) bs)) eqn:Hh.
  { left. injection H as _ <-. split; [reflexivity|]. right. right. right. apply negb_true_iff in Hh.
    eapply rs_build_badhash; eassumption. }
  destruct (rs_exec cfg st pk bs g fits) as [st1 [news|r]] eqn:E.
  - destruct (rs_recon_versions _ _ _); discriminate.
  - right. apply rs_exec_rej in E. destruct E as (_ & l' & E). injection H as _ <-.
    exists bs, g, l', r. split; [reflexivity|]. split; [exact E|reflexivity].
Qed.

Theorem rs_append_error : forall mode cfg st ev pk dflt now fits st' e,
  rs_handle mode cfg st (RqAppend ev pk dflt now fits) = (st', ROk (RpErr e)) ->
  let key := match pk with Some k => k | None => dflt end in
  ((e = EInvalidArg \/ e = EInvalidEventId) /\ rs_refused cfg key [ev] now) \/
  (exists bs g l' r, rs_build [ev] (rs_hash key) now (rs_gen st) = (Some bs, g) /\
     spec_append (rs_logs st (rs_bucket cfg (rs_pid cfg key))) (rs_txn cfg st key bs) fits = (l', inr r) /\ e = rs_err_of r).
Proof.
  intros mode cfg st ev pk dflt now fits st' e H. simpl.
  unfold rs_handle in H. destruct ((rc_parts cfg =? 0) || (rc_buckets cfg =? 0)); [discriminate|].
  unfold rs_append in H.
  set (key := match pk with Some k => k | None => dflt end) in *.
  destruct (rc_strict cfg && negb (rs_strict_ok (rn_xv ev))) eqn:S.
  { left. injection H as _ <-. split; [left; reflexivity|]. left. apply andb_true_iff in S. destruct S as (S1 & S2).
    split; [exact S1|]. exists ev. split; [left; reflexivity|]. apply negb_true_iff. exact S2. }
  destruct (rs_build [ev] (rs_hash key) now (rs_gen st)) as [[bs|] g] eqn:B.
  2:{ left. injection H as _ <-. split; [left; reflexivity|]. right. left. eapply rs_build_none. exact B. }
  destruct (negb (forallb (fun b => rs_hash (rb_id b) =? rs_hash key) bs)) eqn:Hh.
  { left. injection H as _ <-. split; [right; reflexivity|]. right. right. right. apply negb_true_iff in Hh.
    eapply rs_build_badhash; eassumption. }
  destruct (rs_exec cfg st key bs g fits) as [st1 [news|r]] eqn:E.
  - exfalso. destruct (rs_stream_versions news) as [|[k v] [|]]; try discriminate.
    destruct news; try discriminate. destruct bs; try discriminate. destruct (_ =? _); discriminate.
  - right. apply rs_exec_rej in E. destruct E as (_ & l' & E). injection H as _ <-.
    exists bs, g, l', r. split; [exact B|]. split; [exact E|reflexivity].
Qed.
