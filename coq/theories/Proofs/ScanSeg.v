(** C03, part B: [seg_next] / [advance] / [filter_commit] on one well-laid-out segment. *)
From Coq Require Import NArith List Bool Lia Arith.
From SV Require Import Model.StoreIter Proofs.ScanRecs.
Import ListNotations.
Open Scope N_scope.

Definition matches (k : skey) (e : event) : bool :=
  match k with KStream sid => e_sid e =? sid | KPartition pid => e_pid e =? pid end.

(** ** small arithmetic / list facts *)
Lemma incr_app_lt lb l1 l2 x y : incr lb (l1 ++ l2) -> In x l1 -> In y l2 -> (x < y)%nat.
Proof.
  revert lb; induction l1 as [|a l1 IH]; intros lb H Hx Hy; [contradiction|].
  cbn in H. destruct H as [H1 H2]. destruct Hx as [->|Hx].
  - assert (S x <= y)%nat; [|lia]. eapply incr_In; eauto. apply in_or_app. right. assumption.
  - eapply IH; eauto.
Qed.

Lemma incr_app_r lb l1 l2 : incr lb (l1 ++ l2) -> incr lb l2.
Proof.
  revert lb; induction l1 as [|a l1 IH]; intros lb H; [assumption|].
  cbn in H. destruct H as [H1 H2]. apply IH in H2. eapply incr_weaken; [|exact H2]. lia.
Qed.

Lemma incr_cons_lt lb x l y : incr lb (x :: l) -> In y l -> (x < y)%nat.
Proof. intros [_ H] Hy. pose proof (incr_In _ _ _ H Hy). lia. Qed.

Lemma fold_min_le l : forall o x, In x (o :: l) -> (fold_left Nat.min l o <= x)%nat.
Proof.
  induction l as [|a l IH]; intros o x H; cbn.
  - destruct H as [->|[]]. lia.
  - destruct H as [->|[->|H]].
    + etransitivity; [apply IH; left; reflexivity|]. lia.
    + etransitivity; [apply IH; left; reflexivity|]. lia.
    + apply IH. right. assumption.
Qed.

Lemma fold_min_ge l : forall o B, (forall x, In x (o :: l) -> (B <= x)%nat) -> (B <= fold_left Nat.min l o)%nat.
Proof.
  induction l as [|a l IH]; intros o B H; cbn.
  - apply H. left. reflexivity.
  - apply IH. intros x [<-|Hx].
    + assert (B <= o)%nat by (apply H; left; reflexivity).
      assert (B <= a)%nat by (apply H; right; left; reflexivity). lia.
    + apply H. right. right. assumption.
Qed.

Lemma fold_max_ge l : forall o x, In x (o :: l) -> (x <= fold_left Nat.max l o)%nat.
Proof.
  induction l as [|a l IH]; intros o x H; cbn.
  - destruct H as [->|[]]. lia.
  - destruct H as [->|[->|H]].
    + etransitivity; [|apply IH; left; reflexivity]. lia.
    + etransitivity; [|apply IH; left; reflexivity]. lia.
    + apply IH. right. assumption.
Qed.

Lemma fold_max_le l : forall o B, (forall x, In x (o :: l) -> (x <= B)%nat) -> (fold_left Nat.max l o <= B)%nat.
Proof.
  induction l as [|a l IH]; intros o B H; cbn.
  - apply H. left. reflexivity.
  - apply IH. intros x [<-|Hx].
    + assert (o <= B)%nat by (apply H; left; reflexivity).
      assert (a <= B)%nat by (apply H; right; left; reflexivity). lia.
    + apply H. right. right. assumption.
Qed.

Lemma twi_app lo hi l1 l2 :
  (forall x, In x l1 -> (lo <= x <= hi)%nat) ->
  match l2 with [] => True | x :: _ => (hi < x \/ x < lo)%nat end ->
  take_while_in lo hi (l1 ++ l2) = length l1.
Proof.
  induction l1 as [|a l1 IH]; intros H1 H2; cbn.
  - destruct l2 as [|x l2]; [reflexivity|]. cbn.
    destruct (Nat.leb_spec lo x); destruct (Nat.leb_spec x hi); cbn; try reflexivity. lia.
  - assert (lo <= a <= hi)%nat as [Ha Hb] by (apply H1; left; reflexivity).
    apply Nat.leb_le in Ha, Hb. rewrite Ha, Hb. cbn. f_equal. apply IH; auto.
    intros x Hx. apply H1. right. assumption.
Qed.

(** sub-lists *)
Inductive subl {A} : list A -> list A -> Prop :=
| subl_nil : subl [] []
| subl_skip x l' l : subl l' l -> subl l' (x :: l)
| subl_keep x l' l : subl l' l -> subl (x :: l') (x :: l).

Lemma subl_refl {A} (l : list A) : subl l l.
Proof. induction l; [constructor|apply subl_keep; auto]. Qed.

Lemma subl_nil_l {A} (l : list A) : subl [] l.
Proof. induction l; [constructor|apply subl_skip; auto]. Qed.

Lemma subl_app {A} (a a' b b' : list A) : subl a' a -> subl b' b -> subl (a' ++ b') (a ++ b).
Proof. induction 1; intros Hb; cbn; [assumption|apply subl_skip; auto|apply subl_keep; auto]. Qed.

Lemma subl_filter {A} (p : A -> bool) l : subl (filter p l) l.
Proof. induction l as [|x l IH]; cbn; [constructor|]. destruct (p x); [apply subl_keep|apply subl_skip]; auto. Qed.

Lemma subl_skipn {A} n (l : list A) : subl (skipn n l) l.
Proof. revert l; induction n; intros [|x l]; cbn; try apply subl_refl. apply subl_skip. auto. Qed.

Lemma subl_map {A B} (f : A -> B) l' l : subl l' l -> subl (map f l') (map f l).
Proof. induction 1; cbn; [constructor|apply subl_skip; auto|apply subl_keep; auto]. Qed.

Lemma subl_trans {A} (l1 l2 l3 : list A) : subl l1 l2 -> subl l2 l3 -> subl l1 l3.
Proof.
  intros H12 H23; revert l1 H12; induction H23; intros l1 H12.
  - assumption.
  - apply subl_skip. auto.
  - inversion H12; subst; [apply subl_skip|apply subl_keep]; auto.
Qed.

Lemma subl_In {A} (l' l : list A) x : subl l' l -> In x l' -> In x l.
Proof. induction 1; cbn; intros; auto. destruct H0; auto. Qed.

Lemma skipn_skipn' {A} (x y : nat) (l : list A) : skipn x (skipn y l) = skipn (y + x) l.
Proof.
  revert l; induction y as [|y IH]; intros l; [reflexivity|]. destruct l; cbn; [destruct x; reflexivity|apply IH].
Qed.

Lemma incr_subl l' l : subl l' l -> forall lb, incr lb l -> incr lb l'.
Proof.
  induction 1; intros lb Hi; cbn in *.
  - exact I.
  - destruct Hi as [H1 H2]. eapply incr_weaken; [|apply IHsubl; exact H2]. lia.
  - destruct Hi as [H1 H2]. split; auto.
Qed.

Section Seg.
Variable k : skey.
Variable recs : list rec.

Definition kmatch (oe : nat * event) : bool := matches k (snd oe).

Definition reads_ok (g : lgrp) : Prop := forall j o e rest, skipn j (fst g) = (o, e) :: rest ->
  fst (read_committed recs o) = Some (commit_of (snd g) o e rest).
(* a partition scan does not filter: a group with one event of the partition has only such events *)
Definition kclosed (g : lgrp) : Prop := forall oe oe', In oe (fst g) -> In oe' (fst g) ->
  kmatch oe = true -> key_matches k (snd oe') = true -> kmatch oe' = true.
Definition single_ok (g : lgrp) : Prop := snd g = None -> (length (fst g) <= 1)%nat.
Definition grp_ok (g : lgrp) : Prop := reads_ok g /\ kclosed g /\ single_ok g.
Definition layout_ok (lb : nat) (L : list lgrp) : Prop :=
  Forall grp_ok L /\ incr lb (map fst (lay_events L)).

Definition gmatch (g : lgrp) : bool := existsb kmatch (fst g).
Definition Lk (L : list lgrp) : list lgrp := filter gmatch L.
Definition kof (g : lgrp) : list nat := map fst (filter kmatch (fst g)).
Definition koffs (L : list lgrp) : list nat := map fst (filter kmatch (lay_events L)).
Definition kfilter (g : lgrp) : list event := filter (matches k) (map snd (fst g)).

Fixpoint dropto (oes : list (nat * event)) : list (nat * event) :=
  match oes with [] => [] | oe :: r => if kmatch oe then oes else dropto r end.
Definition first_commit (g : lgrp) : committed :=
  match dropto (fst g) with
  | (o, e) :: rest => commit_of (snd g) o e rest
  | [] => CTxn [] 0 0
  end.

Lemma koffs_cons g L : koffs (g :: L) = kof g ++ koffs L.
Proof. unfold koffs, kof, lay_events. cbn. rewrite filter_app, map_app. reflexivity. Qed.

Lemma koffs_app L1 L2 : koffs (L1 ++ L2) = koffs L1 ++ koffs L2.
Proof. induction L1 as [|g L1 IH]; [reflexivity|]. cbn [app]. rewrite !koffs_cons, IH, app_assoc. reflexivity. Qed.

Lemma gmatch_false g : gmatch g = false -> kof g = [].
Proof.
  unfold gmatch, kof. induction (fst g) as [|oe l IH]; cbn; [reflexivity|].
  destruct (kmatch oe); cbn; [discriminate|]. exact IH.
Qed.

Lemma dropto_spec l : existsb kmatch l = true ->
  exists j o e rest, skipn j l = (o, e) :: rest /\ dropto l = (o, e) :: rest /\ matches k e = true /\
    filter kmatch l = (o, e) :: filter kmatch rest.
Proof.
  induction l as [|oe l IH]; cbn; [discriminate|].
  destruct (kmatch oe) eqn:Hm; cbn.
  - intros _. destruct oe as [o e]. exists 0%nat, o, e, l. cbn. auto.
  - intros H. destruct (IH H) as (j & o & e & rest & H1 & H2 & H3 & H4).
    exists (S j), o, e, rest. cbn. auto.
Qed.

Lemma layout_ok_tail lb g L : layout_ok lb (g :: L) -> layout_ok lb L.
Proof.
  intros [HF Hi]. split; [inversion HF; assumption|].
  unfold lay_events in *. cbn in Hi. rewrite map_app in Hi. eapply incr_app_r; eauto.
Qed.

(** *** forward: one call of [seg_next] returns the next [limit] groups that contain the key *)
Lemma advance_fwd kind o e rest more next lb :
  (kind = None -> more = []) ->
  (forall x, In x more -> In x (map fst rest)) ->
  incr lb (o :: map fst rest) ->
  (forall x y, In x (o :: map fst rest) -> In y next -> (x < y)%nat) ->
  advance (commit_of kind o e rest) (more ++ next) = S (length more).
Proof.
  intros Hk Hsub Hinc Hnext. destruct kind as [[tx c]|]; cbn [commit_of advance].
  - f_equal. cbn [map fst]. apply twi_app.
    + intros x Hx. split.
      * apply fold_min_le. right. apply Hsub. assumption.
      * apply fold_max_ge. right. apply Hsub. assumption.
    + destruct next as [|y next]; [exact I|]. left.
      assert (fold_left Nat.max (map fst rest) o <= y - 1)%nat; [|
        assert (o < y)%nat by (apply Hnext; left; reflexivity); lia].
      apply fold_max_le. intros x Hx. assert (x < y)%nat by (apply Hnext; [assumption|left; reflexivity]). lia.
  - rewrite Hk by reflexivity. reflexivity.
Qed.

Lemma seg_next_fwd : forall L lb limit fuel, layout_ok lb L -> (1 <= limit)%nat ->
  (length (koffs L) <= fuel)%nat ->
  seg_next recs (koffs L) limit fuel
  = inl (map first_commit (firstn limit (Lk L)), length (koffs (firstn limit (Lk L)))).
Proof.
  induction L as [|g L IH]; intros lb limit fuel Hok Hlim Hfuel.
  - cbn. rewrite firstn_nil. destruct fuel; reflexivity.
  - pose proof (layout_ok_tail _ _ _ Hok) as Hok'.
    rewrite koffs_cons in *. cbn [Lk filter]. destruct (gmatch g) eqn:Hg.
    2:{ rewrite (gmatch_false _ Hg) in *. cbn [app] in *. apply (IH lb); auto. }
    destruct (dropto_spec _ Hg) as (j & o & e & rest & Hsk & Hdt & Hm & Hfl).
    destruct Hok as [HF Hinc]. inversion HF as [|? ? [Hread [Hcl Hsing]] HF']; subst.
    unfold kof in *. rewrite Hfl in *. cbn [map fst app] in *.
    destruct fuel as [|f]; [cbn in Hfuel; lia|].
    cbn [seg_next]. rewrite (Hread _ _ _ _ Hsk).
    set (more := map fst (filter kmatch rest)) in *.
    (* offsets of this group and of the later ones *)
    assert (Hg_split : fst g = firstn j (fst g) ++ (o, e) :: rest)
      by (rewrite <- Hsk; symmetry; apply firstn_skipn).
    unfold lay_events in Hinc. cbn [map concat] in Hinc. rewrite map_app in Hinc.
    assert (Hinc_g : incr lb (map fst (fst g))) by (apply incr_app in Hinc; tauto).
    rewrite Hg_split, map_app in Hinc_g. apply incr_app_r in Hinc_g. cbn [map fst] in Hinc_g.
    assert (Hlater : forall x y, In x (o :: map fst rest) -> In y (koffs L) -> (x < y)%nat).
    { intros x y Hx Hy. eapply incr_app_lt; [exact Hinc| |].
      - rewrite Hg_split, map_app. apply in_or_app. right. exact Hx.
      - unfold koffs in Hy. apply in_map_iff in Hy. destruct Hy as [oe [<- Hy]].
        apply filter_In in Hy. apply in_map. tauto. }
    assert (Hadv : advance (commit_of (snd g) o e rest) (more ++ koffs L) = S (length more)).
    { eapply advance_fwd; eauto.
      - intros Hk. specialize (Hsing Hk). rewrite Hg_split, app_length in Hsing. cbn in Hsing.
        destruct rest; [reflexivity|cbn in Hsing; lia].
      - intros x Hx. unfold more in Hx. apply in_map_iff in Hx. destruct Hx as [oe [<- Hx]].
        apply filter_In in Hx. apply in_map. tauto. }
    rewrite Hadv. unfold first_commit at 1. 
    destruct (Nat.leb_spec limit 1) as [Hl1|Hl1].
    + replace limit with 1%nat by lia. cbn [firstn map]. unfold first_commit. rewrite Hdt.
      rewrite koffs_cons. unfold kof, koffs at 1. cbn [lay_events map concat filter]. rewrite Hfl.
      cbn [map fst]. rewrite app_nil_r. cbn [length]. fold more. reflexivity.
    + cbn [Nat.sub]. rewrite Nat.sub_0_r. rewrite skipn_app, skipn_all, Nat.sub_diag. cbn [skipn app].
      rewrite (IH lb (limit - 1)%nat f Hok') by (cbn in Hfuel; rewrite ?app_length in Hfuel; lia).
      destruct limit as [|limit]; [lia|]. replace (S limit - 1)%nat with limit by lia. cbn [firstn map].
      unfold first_commit at 1. rewrite Hdt.
      rewrite koffs_cons. unfold kof. rewrite Hfl. cbn [map fst length]. fold more.
      rewrite app_length. reflexivity.
Qed.

(** *** layouts stay well laid out under taking sub-lists of groups / suffixes of groups *)
Lemma lay_events_filter_subl (p : lgrp -> bool) L : subl (lay_events (filter p L)) (lay_events L).
Proof.
  unfold lay_events. induction L as [|g L IH]; cbn; [constructor|].
  destruct (p g); cbn.
  - apply subl_app; auto using subl_refl.
  - change (concat (map fst (filter p L))) with ([] ++ concat (map fst (filter p L))).
    apply subl_app; auto using subl_nil_l.
Qed.

Lemma lay_events_skipn_subl n L : subl (lay_events (skipn n L)) (lay_events L).
Proof.
  unfold lay_events. revert L; induction n as [|n IH]; intros [|g L]; cbn; try apply subl_refl.
  change (concat (map fst (skipn n L))) with ([] ++ concat (map fst (skipn n L))).
  apply subl_app; auto using subl_nil_l.
Qed.

Lemma lay_events_map_subl (f : lgrp -> lgrp) L : (forall g, subl (fst (f g)) (fst g)) ->
  subl (lay_events (map f L)) (lay_events L).
Proof.
  intros Hf. unfold lay_events. induction L as [|g L IH]; cbn; [constructor|]. apply subl_app; auto.
Qed.

Lemma layout_ok_filter lb (p : lgrp -> bool) L : layout_ok lb L -> layout_ok lb (filter p L).
Proof.
  intros [HF Hi]. split.
  - apply Forall_forall. intros g Hg. apply filter_In in Hg. eapply Forall_forall in HF; [eassumption|tauto].
  - eapply incr_subl; [|exact Hi]. apply subl_map, lay_events_filter_subl.
Qed.

Lemma layout_ok_skipn lb n L : layout_ok lb L -> layout_ok lb (skipn n L).
Proof.
  intros [HF Hi]. split.
  - apply Forall_forall. intros g Hg. eapply Forall_forall in HF; [eassumption|].
    rewrite <- (firstn_skipn n L). apply in_or_app. right. assumption.
  - eapply incr_subl; [|exact Hi]. apply subl_map, lay_events_skipn_subl.
Qed.

Fixpoint dropw (q : nat * event -> bool) (l : list (nat * event)) : list (nat * event) :=
  match l with [] => [] | x :: r => if q x then l else dropw q r end.
Definition cutg (q : nat * event -> bool) (g : lgrp) : lgrp := (dropw q (fst g), snd g).

Lemma dropw_skipn q l : exists j, dropw q l = skipn j l.
Proof.
  induction l as [|x l [j IH]]; [exists 0%nat; reflexivity|]. cbn.
  destruct (q x); [exists 0%nat; reflexivity|exists (S j); exact IH].
Qed.

Lemma grp_ok_cut q g : grp_ok g -> grp_ok (cutg q g).
Proof.
  intros (Hr & Hc & Hs). destruct (dropw_skipn q (fst g)) as [j Hj].
  assert (Hin : forall x, In x (dropw q (fst g)) -> In x (fst g)).
  { intros x Hx. rewrite Hj in Hx. eapply subl_In; [apply subl_skipn|exact Hx]. }
  unfold cutg. repeat split.
  - intros j' o e rest Hsk. cbn [fst snd] in *. rewrite Hj, skipn_skipn' in Hsk. eapply Hr; eauto.
  - intros oe oe' H1 H2. cbn [fst] in *. apply Hc; auto.
  - intros Hk. cbn [fst snd] in *. specialize (Hs Hk). rewrite Hj, skipn_length. lia.
Qed.

Lemma layout_ok_cut lb q L : layout_ok lb L -> layout_ok lb (map (cutg q) L).
Proof.
  intros [HF Hi]. split.
  - apply Forall_forall. intros g Hg. apply in_map_iff in Hg. destruct Hg as [g0 [<- Hg0]].
    apply grp_ok_cut. eapply Forall_forall in HF; eauto.
  - eapply incr_subl; [|exact Hi]. apply subl_map, lay_events_map_subl.
    intros g. cbn. destruct (dropw_skipn q (fst g)) as [j ->]. apply subl_skipn.
Qed.

(* [q] selects key events and is upward closed among the key events of [l] *)
Definition upclosed (q : nat * event -> bool) (l : list (nat * event)) : Prop :=
  (forall x, In x l -> q x = true -> kmatch x = true) /\
  (forall pre x post, l = pre ++ x :: post -> q x = true ->
     forall y, In y post -> kmatch y = true -> q y = true).

Lemma upclosed_tail q x l : upclosed q (x :: l) -> upclosed q l.
Proof.
  intros [H1 H2]. split.
  - intros y Hy. apply H1. right. assumption.
  - intros pre y post -> Hq. apply (H2 (x :: pre) y post); auto.
Qed.

Lemma filter_dropw q l : upclosed q l -> filter kmatch (dropw q l) = filter q l.
Proof.
  induction l as [|x l IH]; intros Hu; [reflexivity|]. cbn [dropw].
  destruct (q x) eqn:Hq.
  - cbn [filter]. rewrite Hq. destruct Hu as [H1 H2]. rewrite (H1 x) by (auto; left; reflexivity).
    f_equal. apply filter_ext_in. intros y Hy. destruct (kmatch y) eqn:Hy1.
    + symmetry. apply (H2 [] x l); auto.
    + destruct (q y) eqn:Hy2; [|reflexivity]. rewrite H1 in Hy1; [discriminate|right; assumption|assumption].
  - cbn [filter]. rewrite Hq. apply IH. eapply upclosed_tail; eauto.
Qed.

Lemma upclosed_app_l q l1 l2 : upclosed q (l1 ++ l2) -> upclosed q l1.
Proof.
  intros [H1 H2]. split.
  - intros x Hx. apply H1. apply in_or_app. left. assumption.
  - intros pre x post -> Hq y Hy. apply (H2 pre x (post ++ l2)); auto.
    + rewrite <- app_assoc. reflexivity.
    + apply in_or_app. left. assumption.
Qed.

Lemma upclosed_app_r q l1 l2 : upclosed q (l1 ++ l2) -> upclosed q l2.
Proof.
  induction l1 as [|x l1 IH]; [auto|]. intros H. apply IH. eapply upclosed_tail. exact H.
Qed.

Lemma filter_cut_layout q L : upclosed q (lay_events L) ->
  filter kmatch (lay_events (map (cutg q) L)) = filter q (lay_events L).
Proof.
  unfold lay_events. induction L as [|g L IH]; intros Hu; [reflexivity|].
  cbn [map concat fst cutg] in *. rewrite !filter_app. f_equal.
  - apply filter_dropw. eapply upclosed_app_l; eauto.
  - apply IH. eapply upclosed_app_r; eauto.
Qed.

(** *** what [filter_commit] keeps of a group read at its first key event *)
Lemma matches_key_matches e : matches k e = true -> key_matches k e = true.
Proof. destruct k; cbn; auto. Qed.

Lemma kfilter_eq g : kfilter g = map snd (filter kmatch (fst g)).
Proof.
  unfold kfilter. induction (fst g) as [|x l IH]; [reflexivity|]. cbn. unfold kmatch at 1.
  destruct (matches k (snd x)); cbn; rewrite IH; reflexivity.
Qed.

Lemma filter_first_commit g : grp_ok g -> gmatch g = true ->
  exists c', filter_commit k (first_commit g) = Some c' /\ committed_events c' = kfilter g /\ kfilter g <> [].
Proof.
  intros (Hr & Hc & Hs) Hg. destruct (dropto_spec _ Hg) as (j & o & e & rest & Hsk & Hdt & Hm & Hfl).
  assert (Hsplit : fst g = firstn j (fst g) ++ (o, e) :: rest)
    by (rewrite <- Hsk; symmetry; apply firstn_skipn).
  unfold first_commit. rewrite Hdt. rewrite kfilter_eq, Hfl.
  destruct (snd g) as [[tx c]|] eqn:Hkind; cbn [commit_of filter_commit].
  - cbn [filter snd]. rewrite (matches_key_matches _ Hm).
    eexists; split; [reflexivity|]. split; [|discriminate]. cbn [committed_events map snd]. f_equal. f_equal.
    apply filter_ext_in. intros oe Hoe. destruct (key_matches k (snd oe)) eqn:Hkm.
    + symmetry. apply (Hc (o, e) oe); auto.
      * rewrite Hsplit. apply in_or_app. right. left. reflexivity.
      * rewrite Hsplit. apply in_or_app. right. right. assumption.
    + destruct (kmatch oe) eqn:Hk2; [|reflexivity]. unfold kmatch in Hk2.
      rewrite (matches_key_matches _ Hk2) in Hkm. discriminate.
  - rewrite (matches_key_matches _ Hm). eexists; split; [reflexivity|]. split; [|discriminate].
    specialize (Hs Hkind). rewrite Hsplit, app_length in Hs. cbn in Hs.
    destruct rest; [reflexivity|cbn in Hs; lia].
Qed.

Lemma filter_first_commits G : Forall grp_ok G -> Forall (fun g => gmatch g = true) G ->
  map committed_events (filter_map (filter_commit k) (map first_commit G)) = map kfilter G /\
  Forall (fun l => l <> []) (map kfilter G).
Proof.
  induction G as [|g G IH]; intros H1 H2; [split; [reflexivity|constructor]|].
  inversion H1; inversion H2; subst. destruct (filter_first_commit g) as (c' & Hc1 & Hc2 & Hc3); auto.
  destruct IH as [IH1 IH2]; auto.
  cbn [map filter_map]. rewrite Hc1. cbn [map]. rewrite Hc2, IH1. split; [reflexivity|]. constructor; auto.
Qed.

Lemma Lk_all G : Forall (fun g => gmatch g = true) G -> Lk G = G.
Proof.
  induction 1 as [|g G Hg _ IH]; [reflexivity|]. unfold Lk in *. cbn. rewrite Hg, IH. reflexivity.
Qed.

(** *** reverse: [seg_next] walks the key's offsets downwards one at a time; reading at a key event
    returns the rest of its group from that event on *)
Fixpoint kreads_g (kind : option (N * N)) (oes : list (nat * event)) : list (nat * committed) :=
  match oes with
  | [] => []
  | (o, e) :: rest => (if matches k e then [(o, commit_of kind o e rest)] else []) ++ kreads_g kind rest
  end.
Definition kreads (L : list lgrp) : list (nat * committed) :=
  concat (map (fun g => kreads_g (snd g) (fst g)) L).

(* one entry per key event of a transaction: the event and the key's later events of the transaction *)
Fixpoint ksufp (es : list event) : list (event * list event) :=
  match es with
  | [] => []
  | e :: r => (if matches k e then [(e, filter (matches k) r)] else []) ++ ksufp r
  end.
Definition ucons (x : event * list event) : list event := fst x :: snd x.
Definition KSP (L : list lgrp) : list (event * list event) :=
  concat (map (fun g => ksufp (map snd (fst g))) L).

(* what the scan keeps of a commit *)
Definition cev (c : committed) : list event :=
  match filter_commit k c with Some c' => committed_events c' | None => [] end.
Definition keeps (c : committed) : Prop := filter_commit k c <> None.

Lemma filter_map_keeps X : Forall keeps X ->
  map committed_events (filter_map (filter_commit k) X) = map cev X.
Proof.
  induction 1 as [|c X Hc _ IH]; [reflexivity|]. cbn [filter_map map]. unfold cev at 1. unfold keeps in Hc.
  destruct (filter_commit k c); [|congruence]. cbn [map]. rewrite IH. reflexivity.
Qed.

Definition commit_offsets (c : committed) : list nat :=
  match c with CSingle o _ => [o] | CTxn es _ _ => map fst es end.

Definition pair_ok (oc : nat * committed) : Prop :=
  fst (read_committed recs (fst oc)) = Some (snd oc) /\
  forall x, In x (commit_offsets (snd oc)) -> (fst oc <= x)%nat.

Fixpoint desc (l : list nat) : Prop :=
  match l with [] => True | x :: r => (forall y, In y r -> (y < x)%nat) /\ desc r end.

Lemma kreads_g_fst kind oes : map fst (kreads_g kind oes) = map fst (filter kmatch oes).
Proof.
  induction oes as [|[o e] r IH]; [reflexivity|]. cbn. unfold kmatch at 1. cbn.
  destruct (matches k e); cbn; rewrite IH; reflexivity.
Qed.

Lemma kreads_fst L : map fst (kreads L) = koffs L.
Proof.
  unfold kreads, koffs, lay_events. induction L as [|g L IH]; [reflexivity|].
  cbn. rewrite filter_app, !map_app, IH, kreads_g_fst. reflexivity.
Qed.

Lemma grp_ok_tl x l kind : grp_ok (x :: l, kind) -> grp_ok (l, kind).
Proof.
  intros (Hr & Hc & Hs). repeat split.
  - intros j o e rest Hsk. apply (Hr (S j)). exact Hsk.
  - intros oe oe' H1 H2. apply Hc; right; assumption.
  - intros Hk. specialize (Hs Hk). cbn in *. lia.
Qed.

Lemma kreads_g_ok kind : forall l lb, grp_ok (l, kind) -> incr lb (map fst l) ->
  Forall pair_ok (kreads_g kind l) /\ Forall (fun oc => keeps (snd oc)) (kreads_g kind l) /\
  map (fun oc => cev (snd oc)) (kreads_g kind l) = map ucons (ksufp (map snd l)).
Proof.
  induction l as [|[o e] rest IH]; intros lb Hok Hinc; [repeat split; constructor|].
  destruct (IH (S o) (grp_ok_tl _ _ _ Hok)) as (IH1 & IH2 & IH3); [apply Hinc|].
  cbn [kreads_g map snd ksufp]. destruct (matches k e) eqn:Hm; [|repeat split; assumption].
  cbn [app map snd]. destruct Hok as (Hr & Hc & Hs).
  assert (Hfc : exists c', filter_commit k (commit_of kind o e rest) = Some c' /\
                           committed_events c' = e :: filter (matches k) (map snd rest)).
  { destruct kind as [[tx c]|]; cbn [commit_of filter_commit].
    - cbn [filter snd]. rewrite (matches_key_matches _ Hm). eexists; split; [reflexivity|].
      cbn [committed_events map snd]. f_equal.
      assert (Heq : filter (fun oe : nat * event => key_matches k (snd oe)) rest = filter kmatch rest).
      { apply filter_ext_in. intros oe Hoe. destruct (key_matches k (snd oe)) eqn:Hkm.
        - symmetry. apply (Hc (o, e) oe); auto; [left; reflexivity|right; assumption].
        - destruct (kmatch oe) eqn:Hk2; [|reflexivity]. unfold kmatch in Hk2.
          rewrite (matches_key_matches _ Hk2) in Hkm. discriminate. }
      rewrite Heq. clear. induction rest as [|x r IHr]; [reflexivity|]. cbn. unfold kmatch at 1.
      destruct (matches k (snd x)); cbn; rewrite IHr; reflexivity.
    - rewrite (matches_key_matches _ Hm). eexists; split; [reflexivity|].
      specialize (Hs eq_refl). cbn in Hs. destruct rest; [reflexivity|cbn in Hs; lia]. }
  destruct Hfc as (c' & Hfc1 & Hfc2). split; [|split].
  - constructor; [|assumption]. split.
    + cbn [fst snd]. apply (Hr 0%nat). reflexivity.
    + cbn [fst snd]. intros x Hx. destruct kind as [[tx c]|]; cbn in Hx.
      * destruct Hx as [<-|Hx]; [lia|]. cbn [map fst] in Hinc. pose proof (incr_cons_lt _ _ _ _ Hinc Hx). lia.
      * destruct Hx as [<-|[]]. lia.
  - constructor; [|assumption]. cbn [snd]. unfold keeps. rewrite Hfc1. discriminate.
  - cbn [snd]. unfold cev at 1. rewrite Hfc1, Hfc2, IH3. reflexivity.
Qed.

Lemma kreads_ok : forall L lb, layout_ok lb L ->
  Forall pair_ok (kreads L) /\ Forall (fun oc => keeps (snd oc)) (kreads L) /\
  map (fun oc => cev (snd oc)) (kreads L) = map ucons (KSP L).
Proof.
  induction L as [|g L IH]; intros lb Hok; [repeat split; constructor|].
  destruct (IH lb (layout_ok_tail _ _ _ Hok)) as (IH1 & IH2 & IH3).
  destruct Hok as [HF Hinc]. inversion HF as [|? ? Hg HF']; subst.
  unfold lay_events in Hinc. cbn [map concat] in Hinc. rewrite map_app in Hinc. apply incr_app in Hinc.
  destruct Hinc as [Hinc _].
  destruct (kreads_g_ok (snd g) (fst g) lb) as (H1 & H2 & H3); [destruct g; exact Hg|exact Hinc|].
  unfold kreads, KSP in *. cbn [map concat]. split; [|split].
  - apply Forall_app. split; assumption.
  - apply Forall_app. split; assumption.
  - rewrite !map_app, H3, IH3. reflexivity.
Qed.

Lemma seg_next_rev : forall P limit fuel, Forall pair_ok P -> desc (map fst P) -> (1 <= limit)%nat ->
  (length P <= fuel)%nat ->
  seg_next recs (map fst P) limit fuel = inl (map snd (firstn limit P), length (firstn limit P)).
Proof.
  induction P as [|[o c] P IH]; intros limit fuel HF Hd Hlim Hfuel.
  - rewrite firstn_nil. destruct fuel; reflexivity.
  - destruct fuel as [|f]; [cbn in Hfuel; lia|]. inversion HF as [|? ? [Hrd Hoff] HF']; subst.
    cbn [fst snd] in *. cbn [map fst seg_next]. rewrite Hrd.
    destruct Hd as [Hd1 Hd2].
    assert (Hadv : advance c (map fst P) = 1%nat).
    { destruct c as [o' e'|es tx cnt]; [reflexivity|]. cbn [advance]. destruct es as [|[o1 e1] r]; [reflexivity|].
      f_equal. destruct (map fst P) as [|y ys] eqn:HP; [reflexivity|]. cbn [take_while_in].
      assert (y < o)%nat by (apply Hd1; left; reflexivity).
      assert (o <= fold_left Nat.min (map fst r) o1)%nat.
      { apply fold_min_ge. intros x Hx. apply Hoff. exact Hx. }
      destruct (Nat.leb_spec (fold_left Nat.min (map fst r) o1) y); [lia|reflexivity]. }
    rewrite Hadv. destruct (Nat.leb_spec limit 1) as [Hl|Hl].
    + replace limit with 1%nat by lia. reflexivity.
    + cbn [Nat.sub skipn]. rewrite (IH (limit - 1)%nat f) by (auto; cbn in Hfuel; lia).
      destruct limit as [|limit]; [lia|]. replace (S limit - 1)%nat with limit by lia. reflexivity.
Qed.

Lemma incr_desc_rev l : forall lb, incr lb l -> desc (rev l).
Proof.
  induction l as [|x l IH]; intros lb H; [exact I|]. cbn [rev]. destruct H as [H1 H2].
  assert (Hd : forall a b, desc a -> (forall y z, In y a -> In z b -> (z < y)%nat) -> desc b -> desc (a ++ b)).
  { induction a as [|y a IHa]; intros b Ha Hab Hb; [assumption|]. destruct Ha as [Ha1 Ha2]. cbn. split.
    - intros z Hz. apply in_app_or in Hz. destruct Hz as [Hz|Hz]; [auto|]. apply Hab; [left; reflexivity|assumption].
    - apply IHa; auto. intros y' z Hy' Hz. apply Hab; [right; assumption|assumption]. }
  apply Hd.
  - eapply IH; eauto.
  - intros y z Hy [<-|[]]. apply in_rev in Hy. pose proof (incr_In _ _ _ H2 Hy). lia.
  - split; [intros ? []|exact I].
Qed.

Lemma desc_skipn n l : desc l -> desc (skipn n l).
Proof.
  revert l; induction n as [|n IH]; intros [|x l] H; cbn; auto. destruct H. auto.
Qed.
End Seg.
