(** Proofs about [read_committed] / [rc_loop] (Model/Store.v: model of
    BucketSegmentReader::read_committed_events), the abstraction function [groups]
    and [filter_commit] (Model/StoreIter.v).  Property C04.

    Offsets are record indices (nat); transaction ids and counts are N. *)
From Coq Require Import PeanoNat NArith List Bool Lia.
From SV Require Import Model.StoreIter.
Import ListNotations.
Local Open Scope nat_scope.

Local Ltac splits := repeat match goal with |- _ /\ _ => split end.

(** * small list facts *)

Lemma nth_error_skipn_plus {A} (l : list A) n p :
  nth_error (skipn n l) p = nth_error l (n + p).
Proof.
  revert l; induction n as [|n IH]; intros l; [reflexivity|].
  destruct l as [|x l]; [destruct p; reflexivity|]. cbn. apply IH.
Qed.

Lemma skipn_app_len {A} (l1 l2 : list A) i :
  skipn (length l1 + i) (l1 ++ l2) = skipn i l2.
Proof. induction l1 as [|x l1 IH]; [reflexivity|]. cbn. exact IH. Qed.

Lemma skipn_map_app {A B} (f : A -> B) (l : list A) (t : list B) i :
  i <= length l -> skipn i (map f l ++ t) = map f (skipn i l) ++ t.
Proof.
  intros Hi. rewrite skipn_app, skipn_map, map_length.
  replace (i - length l) with 0 by lia. reflexivity.
Qed.

Lemma Forall_firstn_keep {A} (P : A -> Prop) k l : Forall P l -> Forall P (firstn k l).
Proof.
  revert l; induction k as [|k IH]; intros l H; [constructor|].
  destruct H as [|x l Hx Hl]; [constructor|]. cbn. constructor; [exact Hx|apply IH; exact Hl].
Qed.

Lemma concat_locate {A} (gs : list (list A)) off :
  off < length (concat gs) ->
  exists gs1 g gs2 i, gs = gs1 ++ g :: gs2 /\ off = length (concat gs1) + i /\ i < length g.
Proof.
  revert off; induction gs as [|g gs IH]; intros off H; cbn in H; [lia|].
  rewrite app_length in H.
  destruct (Nat.ltb off (length g)) eqn:E.
  - apply Nat.ltb_lt in E. exists [], g, gs, off. cbn. auto.
  - apply Nat.ltb_ge in E.
    destruct (IH (off - length g)) as (gs1 & g' & gs2 & i & -> & Ho & Hi); [lia|].
    exists (g :: gs1), g', gs2, i. cbn. rewrite app_length. repeat split; [lia|assumption].
Qed.

(** * vocabulary *)

(** events numbered with consecutive offsets *)
Fixpoint with_offs (off : nat) (es : list event) : list (nat * event) :=
  match es with [] => [] | e :: r => (off, e) :: with_offs (S off) r end.

Lemma with_offs_snd off es : map snd (with_offs off es) = es.
Proof. revert off; induction es as [|e es IH]; intros off; cbn; [|rewrite IH]; reflexivity. Qed.

Lemma with_offs_fst off es : map fst (with_offs off es) = seq off (length es).
Proof. revert off; induction es as [|e es IH]; intros off; cbn; [|rewrite IH]; reflexivity. Qed.

Lemma with_offs_length off es : length (with_offs off es) = length es.
Proof. revert off; induction es as [|e es IH]; intros off; cbn; [|rewrite IH]; reflexivity. Qed.

Lemma with_offs_app off a b :
  with_offs off (a ++ b) = with_offs off a ++ with_offs (off + length a) b.
Proof.
  revert off; induction a as [|e a IH]; intros off; cbn.
  - rewrite Nat.add_0_r. reflexivity.
  - rewrite IH. replace (S off + length a) with (off + S (length a)) by lia. reflexivity.
Qed.

Lemma with_offs_bound off es :
  Forall (fun pe => off <= fst pe < off + length es) (with_offs off es).
Proof.
  revert off; induction es as [|e es IH]; intros off; cbn; constructor.
  - cbn. lia.
  - eapply Forall_impl; [|apply IH]. cbn. intros; lia.
Qed.

(** the (offset, event) pairs of a read result *)
Definition committed_pairs (c : committed) : list (nat * event) :=
  match c with CSingle o e => [(o, e)] | CTxn es _ _ => es end.

Lemma committed_pairs_events c : map snd (committed_pairs c) = committed_events c.
Proof. destruct c; reflexivity. Qed.

(** the event records of a group *)
Definition events_of_group (g : list rec) : list event :=
  flat_map (fun r => match r with REvent e => [e] | RCommit _ _ => [] end) g.

Lemma events_of_group_app a b : events_of_group (a ++ b) = events_of_group a ++ events_of_group b.
Proof. unfold events_of_group. apply flat_map_app. Qed.

Lemma events_of_group_events es : events_of_group (map REvent es) = es.
Proof. induction es as [|e es IH]; [reflexivity|]. cbn. f_equal. exact IH. Qed.

Lemma events_of_group_multi es tx n : events_of_group (map REvent es ++ [RCommit tx n]) = es.
Proof. rewrite events_of_group_app, events_of_group_events. cbn. apply app_nil_r. Qed.

Lemma events_of_group_length g : length (events_of_group g) <= length g.
Proof. unfold events_of_group. induction g as [|[e|tx n] g IH]; cbn [flat_map app length]; lia. Qed.

(** well-formed groups and logs *)
Definition txn_events (tx : N) (es : list event) : Prop :=
  Forall (fun e => e_flag e = false /\ e_tx e = tx) es.

Definition wf_group (g : list rec) : Prop :=
  (exists e, g = [REvent e] /\ e_flag e = true) \/
  (exists es tx, g = map REvent es ++ [RCommit tx (N.of_nat (length es))] /\
                 es <> [] /\ txn_events tx es).

Definition wf_recs (recs : list rec) : Prop :=
  exists gs, Forall wf_group gs /\ recs = concat gs.

Definition proper_prefix {A} (p g : list A) : Prop := exists s, g = p ++ s /\ s <> [].

(** [wf_recs] with the last group replaced by a proper prefix of it (a crash cut at record
    granularity; the cut may also fall on a group boundary: [p = []]) *)
Definition wf_crash (recs : list rec) : Prop :=
  exists gs g p, Forall wf_group gs /\ wf_group g /\ proper_prefix p g /\ recs = concat gs ++ p.

(** the side condition the task asked to state: two adjacent multi-event groups never carry
    the same transaction id.  None of the theorems below needs it: [rc_loop] starts every
    read with an empty event list and the nil pending id, and [groups_loop] resets both at
    every commit record, so a group is never merged with its predecessor. *)
Definition group_tx (g : list rec) : option N :=
  match last g (RCommit 0 0) with
  | RCommit tx _ => match g with _ :: _ :: _ => Some tx | _ => None end
  | REvent _ => None
  end.
Fixpoint adjacent_tx_distinct (gs : list (list rec)) : Prop :=
  match gs with
  | g1 :: ((g2 :: _) as r) =>
      (match group_tx g1, group_tx g2 with Some a, Some b => a <> b | _, _ => True end)
      /\ adjacent_tx_distinct r
  | _ => True
  end.

Lemma wf_group_nonempty g : wf_group g -> g <> [].
Proof.
  intros [(e & -> & _)|(es & tx & -> & _ & _)]; [discriminate|].
  destruct es; discriminate.
Qed.

Lemma wf_recs_crash recs : wf_recs recs -> wf_crash recs.
Proof.
  intros (gs & Hgs & ->).
  pose (e := mkEvent 0 0 0 0 true 0 0 0).
  exists gs, [REvent e], []. repeat split.
  - assumption.
  - left. exists e. split; reflexivity.
  - exists [REvent e]. split; [reflexivity|discriminate].
  - rewrite app_nil_r. reflexivity.
Qed.

(** a proper prefix of a well-formed group consists of unflagged event records only *)
Lemma app_eq_map_app {A B} (f : A -> B) (p s : list B) (l : list A) (x : B) :
  (forall a, f a <> x) -> p ++ s = map f l ++ [x] -> s <> [] ->
  exists k, p = map f (firstn k l).
Proof.
  intros Hx. revert l; induction p as [|b p IH]; intros l H Hs.
  - exists 0. reflexivity.
  - destruct l as [|a l]; cbn in H.
    + injection H as -> H. destruct p; [destruct s; [congruence|discriminate]|discriminate].
    + injection H as -> H. destruct (IH l H Hs) as (k & ->). exists (S k). reflexivity.
Qed.

Lemma proper_prefix_wf_group p g :
  wf_group g -> proper_prefix p g ->
  exists es, p = map REvent es /\ Forall (fun e => e_flag e = false) es.
Proof.
  intros [(e & -> & _)|(es & tx & -> & _ & Hes)] (s & Hg & Hs).
  - destruct p as [|r p].
    + exists []. split; [reflexivity|constructor].
    + injection Hg as <- Hg. destruct p; [destruct s; [congruence|discriminate]|discriminate].
  - symmetry in Hg. apply app_eq_map_app in Hg; [|discriminate|assumption].
    destruct Hg as (k & ->). exists (firstn k es). split; [reflexivity|].
    apply Forall_firstn_keep. eapply Forall_impl; [|exact Hes]. cbn. tauto.
Qed.

(** * 1. every record list: a commit record is required *)

(** [es] lists exactly the records at positions [stop - length es .. stop - 1] *)
Definition lists_records (recs : list rec) (es : list (nat * event)) (stop : nat) : Prop :=
  length es <= stop /\
  map fst es = seq (stop - length es) (length es) /\
  Forall (fun pe => nth_error recs (fst pe) = Some (REvent (snd pe))) es.

(** the first event of [es] is an unflagged event of [tx]; every other one is an event of
    [tx] or a flagged (single-event) one, which the loop appends to a pending transaction *)
Definition head_of_tx (es : list (nat * event)) (tx : N) : Prop :=
  (exists p e, hd_error es = Some (p, e) /\ e_tx e = tx /\ e_flag e = false) /\
  Forall (fun pe => e_flag (snd pe) = true \/ e_tx (snd pe) = tx) es.

Lemma lists_records_nil recs stop : lists_records recs [] stop.
Proof. repeat split; [cbn; lia|constructor]. Qed.

Lemma lists_records_snoc recs es off e :
  lists_records recs es off -> nth_error recs off = Some (REvent e) ->
  lists_records recs (es ++ [(off, e)]) (S off).
Proof.
  intros (Hl & Hs & Hf) He. unfold lists_records. rewrite app_length, map_app. cbn [length map fst].
  repeat split.
  - lia.
  - replace (length es + 1) with (S (length es)) by lia. rewrite seq_S.
    replace (S off - S (length es)) with (off - length es) by lia.
    rewrite Hs. f_equal. f_equal. lia.
  - apply Forall_app. split; [assumption|]. constructor; [exact He|constructor].
Qed.

Lemma lists_records_one recs off e :
  nth_error recs off = Some (REvent e) -> lists_records recs [(off, e)] (S off).
Proof. intros He. apply (lists_records_snoc recs [] off e); [apply lists_records_nil|exact He]. Qed.

Lemma head_of_tx_snoc es x tx :
  es <> [] -> head_of_tx es tx -> e_flag (snd x) = true \/ e_tx (snd x) = tx ->
  head_of_tx (es ++ [x]) tx.
Proof.
  destruct es; [congruence|]. intros _ [H1 H2] Hx. split; [exact H1|].
  apply Forall_app. split; [exact H2|]. constructor; [exact Hx|constructor].
Qed.

Lemma head_of_tx_one off e : e_flag e = false -> head_of_tx [(off, e)] (e_tx e).
Proof.
  intros Hf. split; [exists off, e; cbn; auto|]. constructor; [right; reflexivity|constructor].
Qed.

(** the loop invariant, stated for the suffix [rest] of [recs] that begins at [off] *)
Definition rc_result (recs : list rec) (off : nat) (nev : nat) (c : committed) : Prop :=
  (exists e, nev = 0 /\ c = CSingle off e /\ nth_error recs off = Some (REvent e) /\ e_flag e = true) \/
  (exists es tx n j,
      c = CTxn es tx n /\ nth_error recs j = Some (RCommit tx n) /\ es <> [] /\
      off <= j /\ off - nev <= j - length es /\
      lists_records recs es j /\
      (forall p, off <= p < j -> exists e, nth_error recs p = Some (REvent e)) /\
      head_of_tx es tx).

Lemma rc_loop_inv recs : forall rest off events ptx c,
  (forall p, nth_error rest p = nth_error recs (off + p)) ->
  lists_records recs events off ->
  (forall tx, ptx = Some tx -> events <> [] -> head_of_tx events tx) ->
  fst (rc_loop rest off events ptx) = Some c ->
  rc_result recs off (length events) c.
Proof.
  induction rest as [|r rest IH]; intros off events ptx c Hnth Hev Hhd Hc.
  - discriminate Hc.
  - assert (Hr : nth_error recs off = Some r).
    { rewrite <- (Nat.add_0_r off), <- Hnth. reflexivity. }
    assert (Hnth' : forall p, nth_error rest p = nth_error recs (S off + p)).
    { intros p. replace (S off + p) with (off + S p) by lia.
      rewrite <- Hnth. reflexivity. }
    (* lifting the result of the recursive call (its event list is never empty) *)
    assert (Hlift : forall nev', 0 < nev' <= S (length events) ->
               rc_result recs (S off) nev' c ->
               (exists e, r = REvent e) ->
               rc_result recs off (length events) c).
    { intros nev' Hlen [(e & H0 & _)|(es & tx & n & j & -> & Hj & Hne & Hoj & Hst & Hl & Hall & Hh)] (e0 & ->).
      - lia.
      - right. exists es, tx, n, j. splits; try assumption; try lia; try reflexivity.
        intros p Hp. destruct (Nat.eq_dec p off) as [->|Hne'].
        + exists e0. exact Hr.
        + apply Hall. lia. }
    destruct r as [e|tx n]; cbn [rc_loop] in Hc.
    + destruct (e_flag e) eqn:Hflag.
      * destruct events as [|x events].
        -- injection Hc as <-. left. exists e. auto.
        -- apply IH in Hc.
           ++ eapply Hlift; [|exact Hc|eauto]. rewrite app_length. cbn. lia.
           ++ exact Hnth'.
           ++ apply lists_records_snoc; assumption.
           ++ intros tx0 Hp _. apply head_of_tx_snoc; [discriminate| |left; exact Hflag].
              apply Hhd; [assumption|discriminate].
      * destruct (match ptx with Some p => (e_tx e =? p)%N | None => false end) eqn:Hm.
        -- apply IH in Hc.
           ++ eapply Hlift; [|exact Hc|eauto]. rewrite app_length. cbn. lia.
           ++ exact Hnth'.
           ++ apply lists_records_snoc; assumption.
           ++ intros tx0 -> _. apply N.eqb_eq in Hm. destruct events as [|x events].
              ** rewrite <- Hm. apply head_of_tx_one. exact Hflag.
              ** apply head_of_tx_snoc; [discriminate| |right; exact Hm].
                 apply Hhd; [reflexivity|discriminate].
        -- apply IH in Hc.
           ++ eapply Hlift; [|exact Hc|eauto]. cbn. lia.
           ++ exact Hnth'.
           ++ apply lists_records_one; assumption.
           ++ intros tx0 Hp _. injection Hp as <-. apply head_of_tx_one. exact Hflag.
    + destruct ptx as [p|]; [|discriminate Hc].
      destruct (tx =? p)%N eqn:Htx; [|discriminate Hc].
      destruct events as [|x events]; [discriminate Hc|].
      cbn in Hc. injection Hc as <-. apply N.eqb_eq in Htx. subst p.
      right. exists (x :: events), tx, n, off.
      splits; try exact Hev; try exact Hr; try lia; try discriminate; try reflexivity.
      apply Hhd; [reflexivity|discriminate].
Qed.

Lemma rc_commit_required : forall recs off c,
  fst (read_committed recs off) = Some c ->
  (exists e, c = CSingle off e /\ nth_error recs off = Some (REvent e) /\ e_flag e = true) \/
  (exists es tx n j,
      c = CTxn es tx n /\ nth_error recs j = Some (RCommit tx n) /\ es <> [] /\
      length es <= j /\ off <= j - length es /\
      map fst es = seq (j - length es) (length es) /\
      Forall (fun pe => nth_error recs (fst pe) = Some (REvent (snd pe))) es /\
      (forall p, off <= p < j -> exists e, nth_error recs p = Some (REvent e)) /\
      head_of_tx es tx).
Proof.
  intros recs off c H. unfold read_committed in H.
  apply (rc_loop_inv recs) in H.
  - destruct H as [(e & _ & H)|(es & tx & n & j & Hc & Hj & Hne & Hoj & Hst & (Hl & Hs & Hf) & Hall & Hh)].
    + left. exists e. exact H.
    + right. exists es, tx, n, j. cbn in Hst. splits; try assumption. lia.
  - intros p. apply nth_error_skipn_plus.
  - apply lists_records_nil.
  - intros tx _ H0. congruence.
Qed.

Lemma rc_no_commit_no_return : forall recs off tx,
  (forall j n, off <= j -> nth_error recs j <> Some (RCommit tx n)) ->
  (forall es n, fst (read_committed recs off) <> Some (CTxn es tx n)) /\
  (forall o e, fst (read_committed recs off) = Some (CSingle o e) -> e_flag e = true).
Proof.
  intros recs off tx Hno. split.
  - intros es n H. apply rc_commit_required in H.
    destruct H as [(e & Hc & _)|(es' & tx' & n' & j & Hc & Hj & _ & Hl & Ho & _)]; [discriminate|].
    injection Hc as <- <- <-. apply (Hno j n); [lia|exact Hj].
  - intros o e H. apply rc_commit_required in H.
    destruct H as [(e' & Hc & _ & Hf)|(es' & tx' & n' & j & Hc & _)]; [|discriminate].
    injection Hc as _ <-. exact Hf.
Qed.

(** * 2. well-formed logs: a read returns the whole rest of the transaction *)

(** inside a transaction: every further event of [tx] is collected, the commit returns them *)
Lemma rc_loop_txn : forall es tx n tail off events,
  txn_events tx es -> events <> [] \/ es <> [] ->
  rc_loop (map REvent es ++ RCommit tx n :: tail) off events (Some tx)
  = (Some (CTxn (events ++ with_offs off es) tx n), Some (S (off + length es))).
Proof.
  induction es as [|e es IH]; intros tx n tail off events Hes Hne.
  - cbn [map app rc_loop with_offs length]. rewrite N.eqb_refl.
    destruct events as [|x events]; [destruct Hne; congruence|].
    cbn. rewrite app_nil_r, Nat.add_0_r. reflexivity.
  - inversion Hes as [|? ? [Hf Ht] Hes']; subst.
    cbn [map app rc_loop]. rewrite Hf, N.eqb_refl.
    rewrite IH; [|assumption|left; destruct events; discriminate].
    cbn [with_offs length]. rewrite <- app_assoc. cbn [app].
    replace (S off + length es) with (off + S (length es)) by lia. reflexivity.
Qed.

Lemma rc_loop_txn_start : forall es tx n tail off,
  txn_events tx es -> es <> [] ->
  rc_loop (map REvent es ++ RCommit tx n :: tail) off [] None
  = (Some (CTxn (with_offs off es) tx n), Some (S (off + length es))).
Proof.
  intros [|e es] tx n tail off Hes Hne; [congruence|].
  inversion Hes as [|? ? [Hf Ht] Hes']; subst.
  cbn [map app rc_loop]. rewrite Hf.
  rewrite rc_loop_txn; [|assumption|left; discriminate].
  cbn [with_offs length app].
  replace (S off + length es) with (off + S (length es)) by lia. reflexivity.
Qed.

Lemma txn_events_skipn tx i es : txn_events tx es -> txn_events tx (skipn i es).
Proof.
  unfold txn_events. revert es; induction i as [|i IH]; intros es H; [exact H|].
  destruct H as [|x l Hx Hl]; [constructor|]. cbn. apply IH. exact Hl.
Qed.

(** reading at the i-th event of a committed transaction (any prefix, any tail, any count) *)
Lemma rc_read_txn : forall pre es tx n tail i,
  txn_events tx es -> i < length es ->
  read_committed (pre ++ (map REvent es ++ [RCommit tx n]) ++ tail) (length pre + i)
  = (Some (CTxn (with_offs (length pre + i) (skipn i es)) tx n), Some (S (length pre + length es))).
Proof.
  intros pre es tx n tail i Hes Hi. unfold read_committed.
  rewrite skipn_app_len, <- app_assoc. cbn [app].
  rewrite skipn_map_app by lia.
  rewrite rc_loop_txn_start.
  - rewrite skipn_length. do 3 f_equal. lia.
  - apply txn_events_skipn. exact Hes.
  - intros H. apply (f_equal (@length _)) in H. rewrite skipn_length in H. cbn in H. lia.
Qed.

(** reading at a flagged single event *)
Lemma rc_read_single : forall pre e tail,
  e_flag e = true ->
  read_committed (pre ++ REvent e :: tail) (length pre)
  = (Some (CSingle (length pre) e), Some (S (length pre))).
Proof.
  intros pre e tail Hf. unfold read_committed.
  rewrite <- (Nat.add_0_r (length pre)) at 1. rewrite skipn_app_len. cbn [skipn rc_loop].
  rewrite Hf. reflexivity.
Qed.

(** reading at a commit record, or past the end, returns nothing *)
Lemma rc_read_commit : forall pre tx n tail,
  fst (read_committed (pre ++ RCommit tx n :: tail) (length pre)) = None.
Proof.
  intros. unfold read_committed.
  rewrite <- (Nat.add_0_r (length pre)) at 1. rewrite skipn_app_len. reflexivity.
Qed.

(** unflagged events that are not followed by a commit record are never returned *)
Lemma rc_loop_torn : forall es off events ptx,
  Forall (fun e => e_flag e = false) es ->
  rc_loop (map REvent es) off events ptx = (None, None).
Proof.
  induction es as [|e es IH]; intros off events ptx H; [reflexivity|].
  inversion H as [|? ? Hf H']; subst. cbn [map rc_loop]. rewrite Hf.
  destruct (match ptx with Some p => (e_tx e =? p)%N | None => false end); apply IH; assumption.
Qed.

Lemma Forall_skipn_keep {A} (P : A -> Prop) k l : Forall P l -> Forall P (skipn k l).
Proof.
  revert l; induction k as [|k IH]; intros l H; [exact H|].
  destruct H as [|x l Hx Hl]; [constructor|]. cbn. apply IH; exact Hl.
Qed.

Lemma rc_read_torn : forall pre es off,
  Forall (fun e => e_flag e = false) es -> length pre <= off ->
  read_committed (pre ++ map REvent es) off = (None, None).
Proof.
  intros pre es off H Hoff. unfold read_committed.
  replace off with (length pre + (off - length pre)) at 1 by lia.
  rewrite skipn_app_len, skipn_map. apply rc_loop_torn. apply Forall_skipn_keep. exact H.
Qed.

(** reading inside (or after) the torn last group of a crashed log *)
Lemma rc_read_torn_group : forall gs g p off,
  wf_group g -> proper_prefix p g -> length (concat gs) <= off ->
  read_committed (concat gs ++ p) off = (None, None).
Proof.
  intros gs g p off Hg Hp Hoff.
  destruct (proper_prefix_wf_group p g Hg Hp) as (es & -> & Hes).
  apply rc_read_torn; assumption.
Qed.

(** the three cases in terms of groups *)
Lemma rc_siblings : forall gs1 tail,
  (forall es tx i, txn_events tx es -> i < length es ->
     let g := map REvent es ++ [RCommit tx (N.of_nat (length es))] in
     let off := length (concat gs1) + i in
     read_committed (concat gs1 ++ g ++ tail) off
     = (Some (CTxn (with_offs off (skipn i es)) tx (N.of_nat (length es))),
        Some (length (concat gs1) + length g))) /\
  (forall e, e_flag e = true ->
     let off := length (concat gs1) in
     read_committed (concat gs1 ++ [REvent e] ++ tail) off = (Some (CSingle off e), Some (S off))).
Proof.
  intros gs1 tail. split.
  - intros es tx i Hes Hi g off. unfold g, off. rewrite rc_read_txn by assumption.
    rewrite app_length, map_length. cbn [length]. do 2 f_equal. lia.
  - intros e Hf off. apply rc_read_single. exact Hf.
Qed.

(** all-or-nothing on crashed logs *)
Lemma rc_all_or_nothing : forall gs g p off c,
  Forall wf_group gs -> wf_group g -> proper_prefix p g ->
  fst (read_committed (concat gs ++ p) off) = Some c ->
  exists gs1 gk gs2 i,
    gs = gs1 ++ gk :: gs2 /\ off = length (concat gs1) + i /\
    i < length (events_of_group gk) /\
    committed_pairs c = with_offs off (skipn i (events_of_group gk)) /\
    Forall (fun pe => fst pe < length (concat gs)) (committed_pairs c) /\
    match c with
    | CSingle _ e => gk = [REvent e] /\ e_flag e = true
    | CTxn _ tx n => gk = map REvent (events_of_group gk) ++ [RCommit tx n] /\
                     n = N.of_nat (length (events_of_group gk)) /\
                     txn_events tx (events_of_group gk)
    end.
Proof.
  intros gs g p off c Hgs Hg Hp Hc.
  destruct (Nat.ltb off (length (concat gs))) eqn:E.
  2:{ apply Nat.ltb_ge in E. rewrite (rc_read_torn_group gs g p off Hg Hp E) in Hc. discriminate. }
  apply Nat.ltb_lt in E.
  destruct (concat_locate gs off E) as (gs1 & gk & gs2 & i & -> & -> & Hi).
  assert (Hgk : wf_group gk).
  { rewrite Forall_forall in Hgs. apply Hgs. apply in_or_app. right. left. reflexivity. }
  assert (Hlen : length (concat gs1) + length gk <= length (concat (gs1 ++ gk :: gs2))).
  { rewrite concat_app. cbn [concat]. rewrite !app_length. lia. }
  rewrite concat_app in Hc. cbn [concat] in Hc. rewrite <- !app_assoc in Hc.
  exists gs1, gk, gs2, i.
  destruct Hgk as [(e & -> & Hf)|(es & tx & -> & Hne & Hes)].
  - cbn in Hi. assert (i = 0) by lia. subst i. rewrite Nat.add_0_r in *.
    cbn [app] in Hc. rewrite rc_read_single in Hc by assumption. injection Hc as <-.
    repeat split; cbn; try lia; auto.
  - rewrite app_length, map_length in Hi. cbn [length] in Hi.
    destruct (Nat.eq_dec i (length es)) as [->|Hne'].
    + exfalso. rewrite <- (map_length REvent es) in Hc.
      rewrite <- app_length in Hc. rewrite <- (app_assoc (map REvent es)) in Hc.
      rewrite app_assoc in Hc. cbn [app] in Hc.
      rewrite rc_read_commit in Hc. discriminate.
    + assert (Hi' : i < length es) by lia.
      rewrite (rc_read_txn (concat gs1) es tx _ _ i Hes Hi') in Hc. injection Hc as <-.
      rewrite events_of_group_multi. cbn [committed_pairs].
      repeat split; try assumption.
      eapply Forall_impl; [|apply with_offs_bound]. cbn. intros a Ha.
      rewrite skipn_length in Ha. rewrite app_length, map_length in Hlen. cbn [length] in Hlen. lia.
Qed.

(** * 3. the abstraction function [groups] *)

Lemma groups_loop_txn : forall es tx n tail cur,
  txn_events tx es -> cur <> [] \/ es <> [] ->
  groups_loop (map REvent es ++ RCommit tx n :: tail) cur (Some tx)
  = (cur ++ es) :: groups_loop tail [] None.
Proof.
  induction es as [|e es IH]; intros tx n tail cur Hes Hne.
  - cbn [map app groups_loop]. rewrite N.eqb_refl.
    destruct cur as [|x cur]; [destruct Hne; congruence|].
    cbn. rewrite app_nil_r. reflexivity.
  - inversion Hes as [|? ? [Hf Ht] Hes']; subst.
    cbn [map app groups_loop]. rewrite Hf, N.eqb_refl.
    rewrite IH; [|assumption|left; destruct cur; discriminate].
    rewrite <- app_assoc. reflexivity.
Qed.

Lemma groups_loop_group : forall g tail,
  wf_group g -> groups_loop (g ++ tail) [] None = events_of_group g :: groups_loop tail [] None.
Proof.
  intros g tail [(e & -> & Hf)|(es & tx & -> & Hne & Hes)].
  - cbn [app groups_loop]. rewrite Hf. reflexivity.
  - rewrite events_of_group_multi, <- app_assoc. cbn [app].
    destruct es as [|e es]; [congruence|].
    inversion Hes as [|? ? [Hf Ht] Hes']; subst.
    cbn [map app groups_loop]. rewrite Hf.
    rewrite groups_loop_txn; [reflexivity|assumption|left; discriminate].
Qed.

Lemma groups_loop_torn : forall es cur ptx,
  Forall (fun e => e_flag e = false) es -> groups_loop (map REvent es) cur ptx = [].
Proof.
  induction es as [|e es IH]; intros cur ptx H; [reflexivity|].
  inversion H as [|? ? Hf H']; subst. cbn [map groups_loop]. rewrite Hf.
  destruct (match ptx with Some p => (e_tx e =? p)%N | None => false end); apply IH; assumption.
Qed.

Lemma groups_loop_concat : forall gs tail,
  Forall wf_group gs ->
  groups_loop (concat gs ++ tail) [] None = map events_of_group gs ++ groups_loop tail [] None.
Proof.
  induction gs as [|g gs IH]; intros tail H; [reflexivity|].
  inversion H as [|? ? Hg Hgs]; subst. cbn [concat map app].
  rewrite <- app_assoc, groups_loop_group by assumption. rewrite IH by assumption. reflexivity.
Qed.

Lemma groups_abs : forall gs,
  Forall wf_group gs ->
  groups (concat gs) = map events_of_group gs /\
  forall g p, wf_group g -> proper_prefix p g -> groups (concat gs ++ p) = map events_of_group gs.
Proof.
  intros gs H. unfold groups. split.
  - rewrite <- (app_nil_r (concat gs)), groups_loop_concat by assumption. cbn. apply app_nil_r.
  - intros g p Hg Hp. destruct (proper_prefix_wf_group p g Hg Hp) as (es & -> & Hes).
    rewrite groups_loop_concat by assumption. rewrite groups_loop_torn by assumption. apply app_nil_r.
Qed.

(** * 4. the stream filter applied to a returned group *)

Lemma filter_map_snd {A B} (f : B -> bool) (l : list (A * B)) :
  map snd (filter (fun x => f (snd x)) l) = filter f (map snd l).
Proof.
  induction l as [|x l IH]; [reflexivity|]. cbn. destruct (f (snd x)); cbn; rewrite IH; reflexivity.
Qed.

Lemma filter_nil_iff {A} (f : A -> bool) l : filter f l = [] <-> Forall (fun x => f x = false) l.
Proof.
  induction l as [|x l IH]; cbn.
  - split; constructor.
  - destruct (f x) eqn:E; split; intros H.
    + discriminate.
    + inversion H; congruence.
    + constructor; [exact E|apply IH; exact H].
    + inversion H; apply IH; assumption.
Qed.

Lemma filter_commit_spec : forall k c,
  match filter_commit k c with
  | None => filter (key_matches k) (committed_events c) = []
  | Some c' =>
      committed_pairs c' = filter (fun pe => key_matches k (snd pe)) (committed_pairs c) /\
      committed_events c' = filter (key_matches k) (committed_events c) /\
      committed_events c' <> [] /\
      match c, c' with
      | CSingle o e, CSingle o' e' => o' = o /\ e' = e
      | CTxn _ tx n, CTxn _ tx' n' => tx' = tx /\ n' = n
      | _, _ => False
      end
  end.
Proof.
  intros k [o e|es tx n]; cbn [filter_commit committed_events committed_pairs filter].
  - destruct (key_matches k e) eqn:E; cbn; rewrite ?E; repeat split; discriminate.
  - rewrite <- filter_map_snd.
    destruct (filter (fun oe => key_matches k (snd oe)) es) as [|x l] eqn:E; [reflexivity|].
    cbn [committed_pairs committed_events]. repeat split. discriminate.
Qed.

Lemma filter_commit_none_iff : forall k c,
  filter_commit k c = None <-> Forall (fun e => key_matches k e = false) (committed_events c).
Proof.
  intros k c. rewrite <- filter_nil_iff. pose proof (filter_commit_spec k c) as H.
  destruct (filter_commit k c) as [c'|].
  - destruct H as (_ & <- & Hne & _). split; [discriminate|]. intros H. congruence.
  - split; auto.
Qed.

(** * summary at the level of [wf_crash] *)
Lemma rc_crash_reads : forall recs, wf_crash recs ->
  exists gs p,
    recs = concat gs ++ p /\ Forall wf_group gs /\
    groups recs = map events_of_group gs /\
    (forall off, length (concat gs) <= off -> read_committed recs off = (None, None)) /\
    (forall off c, fst (read_committed recs off) = Some c ->
       exists gs1 gk gs2 i,
         gs = gs1 ++ gk :: gs2 /\ off = length (concat gs1) + i /\
         i < length (events_of_group gk) /\
         committed_pairs c = with_offs off (skipn i (events_of_group gk)) /\
         Forall (fun pe => fst pe < length (concat gs)) (committed_pairs c)).
Proof.
  intros recs (gs & g & p & Hgs & Hg & Hp & ->). exists gs, p. splits; try assumption; try reflexivity.
  - apply (groups_abs gs Hgs) with g; assumption.
  - intros off Hoff. apply rc_read_torn_group with g; assumption.
  - intros off c Hc.
    destruct (rc_all_or_nothing gs g p off c Hgs Hg Hp Hc) as (gs1 & gk & gs2 & i & H1 & H2 & H3 & H4 & H5 & _).
    exists gs1, gk, gs2, i. auto.
Qed.
