(** Proofs about Model/Interleave.v (C15, C16). *)
From Coq Require Import NArith List Bool Lia Arith PeanoNat Permutation.
From SV Require Import Model.Interleave Proofs.StoreInv Proofs.StoreSimProofs.
Import ListNotations.
Open Scope N_scope.

(** * 1. routing: [thread_of] is a balanced surjection onto [0, nt) *)
Section Routing.
  Variables nb nt : N.
  Hypothesis Hnt : 0 < nt.
  Hypothesis Hnb : nt <= nb.

  Let per := nb / nt.
  Let extra := nb mod nt.

  Lemma route_div : nb = nt * per + extra /\ extra < nt /\ 1 <= per.
  Proof.
    unfold per, extra. pose proof (N.div_mod nb nt ltac:(lia)). pose proof (N.mod_lt nb nt ltac:(lia)).
    repeat split; try assumption.
    destruct (N.eq_dec (nb / nt) 0) as [E|E]; [|lia]. rewrite E in H. lia.
  Qed.

  Lemma thread_of_cases pos : pos < nb ->
    (pos < (per + 1) * extra /\ thread_of nb nt pos = pos / (per + 1)) \/
    ((per + 1) * extra <= pos /\ thread_of nb nt pos = extra + (pos - (per + 1) * extra) / per).
  Proof.
    intros Hp. destruct route_div as (D & E & P). unfold thread_of. fold per extra.
    destruct (nt =? 1) eqn:N1.
    - apply N.eqb_eq in N1. right. assert (extra = 0) by lia. assert (per = nb) by nia.
      split; [nia|]. rewrite H, H0, N.mul_0_r, N.sub_0_r, N.div_small by lia. reflexivity.
    - destruct (pos <? (per + 1) * extra) eqn:C.
      + apply N.ltb_lt in C. left. split; [exact C|reflexivity].
      + apply N.ltb_ge in C. right. split; [exact C|reflexivity].
  Qed.

  Lemma thread_of_fibre pos t : pos < nb -> t < nt ->
    (thread_of nb nt pos = t <-> fib_lo nb nt t <= pos < fib_lo nb nt t + fib_size nb nt t).
  Proof.
    intros Hp Ht. destruct route_div as (D & E & P). unfold fib_lo, fib_size. fold per extra.
    destruct (thread_of_cases pos Hp) as [[C ->]|[C ->]].
    - pose proof (N.div_mod pos (per + 1) ltac:(lia)) as DM. pose proof (N.mod_lt pos (per + 1) ltac:(lia)) as ML.
      set (q := pos / (per + 1)) in *. set (r := pos mod (per + 1)) in *.
      assert (Q : q < extra) by nia.
      destruct (t <? extra) eqn:T; [apply N.ltb_lt in T|apply N.ltb_ge in T].
      + split; [intros <-; nia|]. intros [L U]. nia.
      + split; [intros <-; lia|]. intros [L U]. nia.
    - set (d := pos - (per + 1) * extra) in *.
      pose proof (N.div_mod d per ltac:(lia)) as DM. pose proof (N.mod_lt d per ltac:(lia)) as ML.
      set (q := d / per) in *. set (r := d mod per) in *.
      assert (Hd : pos = (per + 1) * extra + d) by (unfold d; lia).
      destruct (t <? extra) eqn:T; [apply N.ltb_lt in T|apply N.ltb_ge in T].
      + split; [intros <-; lia|]. intros [L U]. nia.
      + split.
        * intros <-. replace (extra + q - extra) with q by lia. nia.
        * intros [L U]. assert (q = t - extra); [|lia]. nia.
  Qed.

  Lemma thread_of_lt pos : pos < nb -> thread_of nb nt pos < nt.
  Proof.
    intros Hp. destruct route_div as (D & E & P).
    destruct (thread_of_cases pos Hp) as [[C ->]|[C ->]].
    - apply N.lt_trans with extra; [|exact E]. apply N.div_lt_upper_bound; lia.
    - set (d := pos - (per + 1) * extra) in *.
      assert (Hd : pos = (per + 1) * extra + d) by (unfold d; lia).
      assert (d / per < nt - extra); [|lia]. apply N.div_lt_upper_bound; [lia|]. nia.
  Qed.

  (** the fibres tile [0, nb): consecutive, sizes per or per+1 (so they differ by at most one), none empty *)
  Lemma fib_lo_0 : fib_lo nb nt 0 = 0.
  Proof. unfold fib_lo. destruct (0 <? nb mod nt) eqn:T; [lia|]. apply N.ltb_ge in T. assert (nb mod nt = 0) as -> by lia. lia. Qed.

  Lemma fib_lo_succ t : t < nt -> fib_lo nb nt (t + 1) = fib_lo nb nt t + fib_size nb nt t.
  Proof.
    intros Ht. destruct route_div as (D & E & P). unfold fib_lo, fib_size. fold per extra.
    destruct (t <? extra) eqn:T; [apply N.ltb_lt in T|apply N.ltb_ge in T];
      destruct (t + 1 <? extra) eqn:T1; [apply N.ltb_lt in T1|apply N.ltb_ge in T1| |apply N.ltb_ge in T1]; try nia.
    apply N.ltb_lt in T1. lia.
  Qed.

  Lemma fib_lo_top : fib_lo nb nt nt = nb.
  Proof.
    destruct route_div as (D & E & P). unfold fib_lo. fold per extra.
    destruct (nt <? extra) eqn:T; [apply N.ltb_lt in T; lia|]. nia.
  Qed.

  Lemma fib_size_balanced t : fib_size nb nt t = per \/ fib_size nb nt t = per + 1.
  Proof. unfold fib_size. fold per extra. destruct (t <? extra); [right|left]; lia. Qed.

  Lemma fib_size_pos t : 1 <= fib_size nb nt t.
  Proof. destruct route_div as (D & E & P). destruct (fib_size_balanced t) as [-> | ->]; lia. Qed.

  Lemma fib_lo_lt t : t < nt -> fib_lo nb nt t + fib_size nb nt t <= nb.
  Proof.
    intros Ht. destruct route_div as (D & E & P). unfold fib_lo, fib_size. fold per extra.
    destruct (t <? extra) eqn:T; [apply N.ltb_lt in T|apply N.ltb_ge in T]; nia.
  Qed.

  Lemma thread_of_onto t : t < nt -> exists pos, pos < nb /\ thread_of nb nt pos = t.
  Proof.
    intros Ht. exists (fib_lo nb nt t). pose proof (fib_lo_lt t Ht). pose proof (fib_size_pos t).
    split; [lia|]. apply thread_of_fibre; [lia|exact Ht|lia].
  Qed.
End Routing.

Lemma thread_of_balanced nb nt : 0 < nt -> nt <= nb -> forall pos t, pos < nb -> t < nt ->
  (thread_of nb nt pos = t <-> fib_lo nb nt t <= pos < fib_lo nb nt t + fib_size nb nt t) /\
  (fib_size nb nt t = nb / nt \/ fib_size nb nt t = nb / nt + 1) /\ 1 <= fib_size nb nt t /\
  fib_lo nb nt (t + 1) = fib_lo nb nt t + fib_size nb nt t /\ fib_lo nb nt 0 = 0 /\ fib_lo nb nt nt = nb.
Proof.
  intros H1 H2 pos t H3 H4. split; [exact (thread_of_fibre nb nt H1 H2 pos t H3 H4)|].
  split; [exact (fib_size_balanced nb nt H1 H2 t)|]. split; [exact (fib_size_pos nb nt H1 H2 t)|].
  split; [exact (fib_lo_succ nb nt H1 H2 t H4)|]. split; [exact (fib_lo_0 nb nt H1 H2)|exact (fib_lo_top nb nt H1 H2)].
Qed.

(** * 2. list update *)
Lemma upd_length {A} (l : list A) i x : length (upd l i x) = length l.
Proof.
  unfold upd. rewrite app_length, firstn_length. destruct (skipn i l) as [|y r] eqn:E.
  - assert (length (skipn i l) = 0%nat) by (rewrite E; reflexivity). rewrite skipn_length in H. cbn [length]. lia.
  - assert (length (skipn i l) = S (length r)) by (rewrite E; reflexivity). rewrite skipn_length in H. cbn [length]. lia.
Qed.

Lemma nth_upd_same {A} (l : list A) i x d : (i < length l)%nat -> nth i (upd l i x) d = x.
Proof.
  intros H. unfold upd. rewrite app_nth2; rewrite firstn_length, Nat.min_l by lia; [|lia].
  rewrite Nat.sub_diag. destruct (skipn i l) as [|y r] eqn:E; [|reflexivity].
  assert (length (skipn i l) = 0%nat) by (rewrite E; reflexivity). rewrite skipn_length in H0. lia.
Qed.

Lemma nth_upd_other {A} (l : list A) i j x d : i <> j -> nth j (upd l i x) d = nth j l d.
Proof.
  intros H. unfold upd. rewrite <- (firstn_skipn i l) at 3.
  destruct (Nat.lt_ge_cases j i) as [J|J].
  - destruct (Nat.lt_ge_cases i (length l)) as [L|L].
    + rewrite !app_nth1 by (rewrite firstn_length; lia). reflexivity.
    + rewrite skipn_all2 by lia. reflexivity.
  - destruct (Nat.lt_ge_cases i (length l)) as [L|L].
    + rewrite !app_nth2 by (rewrite firstn_length; lia). rewrite firstn_length, Nat.min_l by lia.
      destruct (skipn i l) as [|y r]; [reflexivity|]. destruct (j - i)%nat as [|q] eqn:E; [lia|]. reflexivity.
    + rewrite skipn_all2 by lia. reflexivity.
Qed.

Lemma nth_repeat' {A} (x : A) n i d : (i < n)%nat -> nth i (repeat x n) d = x.
Proof. revert i; induction n as [|n IH]; intros i H; [lia|]. destruct i; [reflexivity|]. cbn. apply IH. lia. Qed.

(** * 3. concurrent appenders are serialised per bucket (C16) *)
Lemma spec_serial_snoc reqs : forall l rq,
  spec_serial l (reqs ++ [rq]) =
  let (l1, rs) := spec_serial l reqs in
  let (l2, r) := spec_append l1 (rq_txn rq) (negb (rq_big rq)) in (l2, rs ++ [r]).
Proof.
  induction reqs as [|q reqs IH]; intros l rq; cbn [app spec_serial].
  - destruct (spec_append l (rq_txn rq) (negb (rq_big rq))) as [l2 r]. reflexivity.
  - destruct (spec_append l (rq_txn q) (negb (rq_big q))) as [l1 r1]. rewrite IH.
    destruct (spec_serial l1 reqs) as [l2 rs]. destruct (spec_append l2 (rq_txn rq) (negb (rq_big rq))) as [l3 r3]. reflexivity.
Qed.

Section Serial.
  Variables nb nt : N.
  Hypothesis Hnt : 0 < nt.
  Hypothesis Hnb : nt <= nb.

  Let NB := N.to_nat nb.
  Let NT := N.to_nat nt.

  Lemma rq_bucket_lt rq : (rq_bucket nb rq < NB)%nat.
  Proof. unfold rq_bucket, bucket_of, NB. pose proof (N.mod_lt (t_pid (rq_txn rq)) nb ltac:(lia)). lia. Qed.

  Lemma bucket_thread_lt b : (b < NB)%nat -> (bucket_thread nb nt b < NT)%nat.
  Proof.
    intros H. unfold bucket_thread, NT. pose proof (thread_of_lt nb nt Hnt Hnb (N.of_nat b) ltac:(unfold NB in H; lia)). lia.
  Qed.

  Definition wf_cstep (st : cstep) : Prop := match st with CSend rq => wf_txn (rq_txn rq) | _ => True end.

  Record CInv (c : csys) : Prop := mkCInv {
    ci_lq : length (cs_queues c) = NT;
    ci_ls : length (cs_stores c) = NB;
    ci_route : forall th rq, In rq (nth th (cs_queues c) []) -> bucket_thread nb nt (rq_bucket nb rq) = th /\ wf_txn (rq_txn rq);
    ci_inv : forall b, (b < NB)%nat -> Inv (nth b (cs_stores c) store_init);
    ci_fifo : forall b, (b < NB)%nat -> sent_to nb b c = map d_req (done_of nb b c) ++ queued_of nb nt b c;
    ci_serial : forall b, (b < NB)%nat ->
      spec_serial [] (map d_req (done_of nb b c)) = (abs_all (nth b (cs_stores c) store_init), map d_res (done_of nb b c))
  }.

  Lemma CInv_init : CInv (csys_init nb nt).
  Proof.
    constructor; unfold csys_init; cbn [cs_queues cs_stores cs_sent cs_done].
    - apply repeat_length.
    - apply repeat_length.
    - intros th rq I. destruct (Nat.lt_ge_cases th (N.to_nat nt)) as [L|L].
      + rewrite nth_repeat' in I by exact L. destruct I.
      + rewrite nth_overflow in I by (rewrite repeat_length; exact L). destruct I.
    - intros b Hb. rewrite nth_repeat' by exact Hb. exact Inv_init.
    - intros b Hb. unfold sent_to, done_of, queued_of. cbn [cs_sent cs_done cs_queues filter map app].
      rewrite nth_repeat' by (apply bucket_thread_lt; exact Hb). reflexivity.
    - intros b Hb. unfold done_of. cbn [cs_done filter map spec_serial]. rewrite nth_repeat' by exact Hb. reflexivity.
  Qed.

  Lemma of_bucket_true b rq : of_bucket nb b rq = true <-> rq_bucket nb rq = b.
  Proof. unfold of_bucket. apply Nat.eqb_eq. Qed.

  Lemma step_CInv c st : CInv c -> wf_cstep st -> CInv (csys_step nb nt c st).
  Proof.
    intros [LQ LS RT IV FF SR] W. destruct st as [rq|th roll|b0]; cbn [csys_step].
    - (* send *)
      set (b0 := rq_bucket nb rq). set (th := bucket_thread nb nt b0).
      assert (Hb0 : (b0 < NB)%nat) by apply rq_bucket_lt.
      assert (Hth : (th < NT)%nat) by (apply bucket_thread_lt; exact Hb0).
      constructor; cbn [cs_queues cs_stores cs_sent cs_done].
      + rewrite upd_length. exact LQ.
      + exact LS.
      + intros th' q I. destruct (Nat.eq_dec th th') as [<-|NE].
        * rewrite nth_upd_same in I by lia. apply in_app_or in I. destruct I as [I|[<-|[]]]; [exact (RT _ _ I)|].
          split; [reflexivity|exact W].
        * rewrite nth_upd_other in I by exact NE. exact (RT _ _ I).
      + exact IV.
      + intros b Hb. unfold sent_to, done_of, queued_of in *. cbn [cs_queues cs_sent cs_done].
        rewrite filter_app, (FF b Hb). cbn [filter]. destruct (Nat.eq_dec b b0) as [->|NE].
        * fold th. rewrite nth_upd_same by lia. rewrite filter_app. cbn [filter].
          assert (T : of_bucket nb b0 rq = true) by (apply of_bucket_true; reflexivity). rewrite T.
          rewrite <- app_assoc. reflexivity.
        * assert (T : of_bucket nb b rq = false).
          { destruct (of_bucket nb b rq) eqn:T; [|reflexivity]. apply of_bucket_true in T. fold b0 in T. congruence. }
          rewrite T, app_nil_r. f_equal. destruct (Nat.eq_dec th (bucket_thread nb nt b)) as [E|NE'].
          -- rewrite <- E, nth_upd_same by lia. rewrite filter_app. cbn [filter]. rewrite T, app_nil_r. reflexivity.
          -- rewrite nth_upd_other by exact NE'. reflexivity.
      + exact SR.
    - (* work *)
      destruct (nth th (cs_queues c) []) as [|rq rest] eqn:Q; [constructor; assumption|].
      set (b0 := rq_bucket nb rq).
      assert (Hb0 : (b0 < NB)%nat) by apply rq_bucket_lt.
      destruct (RT th rq ltac:(rewrite Q; left; reflexivity)) as [Eth Wt]. fold b0 in Eth.
      assert (Hth : (th < NT)%nat) by (rewrite <- Eth; apply bucket_thread_lt; exact Hb0).
      destruct (append (nth b0 (cs_stores c) store_init) (rq_txn rq) roll (rq_big rq)) as [s' r] eqn:A.
      destruct (append_sim _ _ _ _ _ _ (IV b0 Hb0) Wt A) as (SP & I' & _).
      constructor; cbn [cs_queues cs_stores cs_sent cs_done].
      + rewrite upd_length. exact LQ.
      + rewrite upd_length. exact LS.
      + intros th' q I. destruct (Nat.eq_dec th th') as [<-|NE].
        * rewrite nth_upd_same in I by lia. apply RT. rewrite Q. right. exact I.
        * rewrite nth_upd_other in I by exact NE. exact (RT _ _ I).
      + intros b Hb. destruct (Nat.eq_dec b0 b) as [<-|NE].
        * rewrite nth_upd_same by lia. exact I'.
        * rewrite nth_upd_other by exact NE. apply IV. exact Hb.
      + intros b Hb. unfold sent_to, done_of, queued_of in *. cbn [cs_queues cs_sent cs_done].
        rewrite (FF b Hb), filter_app. cbn [filter d_req]. destruct (Nat.eq_dec b b0) as [->|NE].
        * assert (T : of_bucket nb b0 rq = true) by (apply of_bucket_true; reflexivity). rewrite T.
          rewrite Eth, Q, nth_upd_same by lia. cbn [filter]. rewrite T, map_app. cbn [map d_req].
          rewrite <- app_assoc. reflexivity.
        * assert (T : of_bucket nb b rq = false).
          { destruct (of_bucket nb b rq) eqn:T; [|reflexivity]. apply of_bucket_true in T. fold b0 in T. congruence. }
          rewrite T, app_nil_r. f_equal. destruct (Nat.eq_dec th (bucket_thread nb nt b)) as [E|NE'].
          -- rewrite <- E, Q, nth_upd_same by lia. cbn [filter]. rewrite T. reflexivity.
          -- rewrite nth_upd_other by exact NE'. reflexivity.
      + intros b Hb. unfold done_of in *. cbn [cs_done]. rewrite filter_app. cbn [filter d_req].
        destruct (Nat.eq_dec b b0) as [->|NE].
        * assert (T : of_bucket nb b0 rq = true) by (apply of_bucket_true; reflexivity). rewrite T.
          rewrite !map_app. cbn [map d_req d_res]. rewrite spec_serial_snoc, (SR b0 Hb0), SP.
          rewrite nth_upd_same by lia. reflexivity.
        * assert (T : of_bucket nb b rq = false).
          { destruct (of_bucket nb b rq) eqn:T; [|reflexivity]. apply of_bucket_true in T. fold b0 in T. congruence. }
          rewrite T, app_nil_r. rewrite nth_upd_other by congruence. apply SR. exact Hb.
    - (* sync *)
      constructor; cbn [cs_queues cs_stores cs_sent cs_done]; try assumption.
      + rewrite upd_length. exact LS.
      + intros b Hb. destruct (Nat.eq_dec b0 b) as [<-|NE].
        * rewrite nth_upd_same by lia. apply publish_Inv. apply IV. exact Hb.
        * rewrite nth_upd_other by exact NE. apply IV. exact Hb.
      + intros b Hb. unfold done_of in *. cbn [cs_done]. rewrite (SR b Hb). f_equal.
        destruct (Nat.eq_dec b0 b) as [<-|NE].
        * rewrite nth_upd_same by lia. rewrite publish_abs_all. reflexivity.
        * rewrite nth_upd_other by exact NE. reflexivity.
  Qed.

  Lemma run_CInv steps : forall c, CInv c -> Forall wf_cstep steps -> CInv (fold_left (csys_step nb nt) steps c).
  Proof.
    induction steps as [|st steps IH]; intros c I F; [exact I|]. inversion F; subst. cbn [fold_left].
    apply IH; [apply step_CInv; assumption|assumption].
  Qed.

  Theorem serial_per_bucket steps : Forall wf_cstep steps ->
    let c := csys_run nb nt steps in
    forall b, (b < NB)%nat ->
      sent_to nb b c = map d_req (done_of nb b c) ++ queued_of nb nt b c /\
      spec_serial [] (map d_req (done_of nb b c)) = (abs_all (nth b (cs_stores c) store_init), map d_res (done_of nb b c)) /\
      Inv (nth b (cs_stores c) store_init).
  Proof.
    intros F c b Hb. pose proof (run_CInv steps _ CInv_init F) as [LQ LS RT IV FF SR].
    split; [apply FF; exact Hb|]. split; [apply SR; exact Hb|apply IV; exact Hb].
  Qed.

  (** once every FIFO is drained, the answers are those of the serial execution of the whole arrival order *)
  Corollary serial_quiescent steps : Forall wf_cstep steps ->
    let c := csys_run nb nt steps in
    (forall th, nth th (cs_queues c) [] = []) ->
    forall b, (b < NB)%nat ->
      map d_req (done_of nb b c) = sent_to nb b c /\
      spec_serial [] (sent_to nb b c) = (abs_all (nth b (cs_stores c) store_init), map d_res (done_of nb b c)).
  Proof.
    intros F c E b Hb. destruct (serial_per_bucket steps F b Hb) as (A & B & _). change (csys_run nb nt steps) with c in A, B.
    unfold queued_of in A. rewrite E in A. cbn [filter] in A. rewrite app_nil_r in A. split; [symmetry; exact A|].
    rewrite A. exact B.
  Qed.
End Serial.

(** * 4. no two successes with the same Exact / Empty expectation on one stream *)
Definition scount (l : alog) (sid : N) : N := knext e_sid (all_events l) sid.

Lemma stream_state_none_of evs sid : (forall e, In e evs -> e_sid e <> sid) -> stream_state evs sid = None.
Proof.
  intros H. rewrite stream_state_eq. unfold kfilter. rewrite filter_none; [reflexivity|].
  intros e I. apply N.eqb_neq. apply H. exact I.
Qed.

Lemma av_first sid n0 news : forall evs t seq acc out,
  assign_versions evs t seq acc news = inl out ->
  (forall e, In e acc -> e_sid e <> sid) ->
  find (fun n => n_sid n =? sid) news = Some n0 ->
  holds (n_expect n0) (option_map snd (stream_state evs sid)) = true.
Proof.
  induction news as [|n rest IH]; intros evs t seq acc out H NA F; [discriminate F|].
  cbn [find] in F. cbn [assign_versions] in H. destruct (n_sid n =? sid) eqn:E.
  - injection F as <-. apply N.eqb_eq in E. rewrite E in H.
    rewrite stream_state_app, (stream_state_none_of acc sid NA) in H.
    destruct (stream_state evs sid) as [[pk v]|]; cbn [option_map snd].
    + destruct (negb (pk =? t_pk t)); [discriminate|]. destruct (holds (n_expect n) (Some v)); [reflexivity|discriminate].
    + destruct (holds (n_expect n) None); [reflexivity|discriminate].
  - apply N.eqb_neq in E.
    assert (NA' : forall v e, In e (acc ++ [mkEvent (n_id n) (t_pk t) (t_pid t) (t_tx t) (t_flag t) seq (n_sid n) v]) -> e_sid e <> sid).
    { intros v e I. apply in_app_or in I. destruct I as [I|[<-|[]]]; [exact (NA e I)|exact E]. }
    destruct (stream_state (evs ++ acc) (n_sid n)) as [[pk v]|].
    + destruct (negb (pk =? t_pk t)); [discriminate|]. destruct (holds (n_expect n) (Some v)); [|discriminate].
      exact (IH _ _ _ _ _ H (NA' _) F).
    + destruct (holds (n_expect n) None); [|discriminate]. exact (IH _ _ _ _ _ H (NA' _) F).
Qed.

Lemma scount_mono l t fits l' r sid : spec_append l t fits = (l', r) -> scount l sid <= scount l' sid.
Proof.
  intros H. destruct r as [evs|rj].
  - unfold spec_append in H. destruct (assign_versions _ _ _ _ _); [|discriminate].
    destruct (negb fits); [discriminate|]. destruct (negb (holds _ _)); [discriminate|].
    destruct (negb (forallb _ _)); [discriminate|]. injection H as <- _.
    unfold scount, all_events. rewrite concat_app, knext_app. lia.
  - apply spec_append_reject in H. subst l'. lia.
Qed.

Lemma accept_first_expect l t fits l' evs sid x :
  good_log l -> wf_txn t -> spec_append l t fits = (l', inl evs) -> first_expect t sid = Some x ->
  holds x (option_map snd (stream_state (all_events l) sid)) = true /\ scount l sid < scount l' sid.
Proof.
  intros G W H FE. unfold first_expect in FE.
  destruct (find (fun n => n_sid n =? sid) (t_events t)) as [n0|] eqn:F; [|discriminate]. injection FE as <-.
  split.
  - unfold spec_append in H. destruct (assign_versions _ _ _ _ _) as [news|] eqn:AV; [|discriminate].
    exact (av_first sid n0 _ _ _ _ _ _ AV (fun e I => match I with end) F).
  - destruct (spec_append_accept _ _ _ _ _ G W H) as (-> & _ & _ & _ & S & _).
    unfold scount, all_events. rewrite concat_app, knext_app. cbn [concat]. rewrite app_nil_r.
    apply find_some in F. destruct F as [I E]. apply N.eqb_eq in E.
    assert (Is : In sid (map e_sid evs)) by (rewrite S, <- E; apply in_map; exact I).
    apply in_map_iff in Is. destruct Is as (e & Es & Ie).
    assert (K : In e (kfilter e_sid sid evs)) by (apply kfilter_In; split; assumption).
    unfold knext at 3. destruct (kfilter e_sid sid evs); [destruct K|]. cbn [length]. lia.
Qed.

Lemma holds_pins_count l sid x :
  good_log l -> holds x (option_map snd (stream_state (all_events l) sid)) = true ->
  (forall v, x = XExact v -> scount l sid = v + 1) /\ (x = XEmpty -> scount l sid = 0).
Proof.
  intros [_ G] H. pose proof (next_version_knext _ sid G) as NV. fold (scount l sid) in NV.
  destruct (option_map snd (stream_state (all_events l) sid)) as [c|]; cbn [next_version] in NV; split.
  - intros v ->. cbn in H. apply N.eqb_eq in H. lia.
  - intros ->. discriminate H.
  - intros v ->. discriminate H.
  - intros _. lia.
Qed.

Lemma spec_serial_good reqs : forall l l' rs,
  good_log l -> Forall (fun rq => wf_txn (rq_txn rq)) reqs -> spec_serial l reqs = (l', rs) ->
  good_log l' /\ length rs = length reqs.
Proof.
  induction reqs as [|rq reqs IH]; intros l l' rs G F H; cbn [spec_serial] in H.
  - injection H as <- <-. split; [exact G|reflexivity].
  - apply Forall_cons_iff in F. destruct F as [Wq Fr]. destruct (spec_append l (rq_txn rq) (negb (rq_big rq))) as [l1 r] eqn:A.
    destruct (spec_serial l1 reqs) as [l2 rs'] eqn:S. injection H as <- <-.
    assert (G1 : good_log l1).
    { destruct r as [evs|rj]; [exact (proj1 (proj2 (spec_append_accept _ _ _ _ _ G Wq A)))|].
      apply spec_append_reject in A. subst l1. exact G. }
    destruct (IH _ _ _ G1 Fr S) as [G2 L]. split; [exact G2|]. cbn [length]. rewrite L. reflexivity.
Qed.

Lemma spec_serial_count_mono reqs sid : forall l l' rs,
  spec_serial l reqs = (l', rs) -> scount l sid <= scount l' sid.
Proof.
  induction reqs as [|rq reqs IH]; intros l l' rs H; cbn [spec_serial] in H.
  - injection H as <- _. lia.
  - destruct (spec_append l (rq_txn rq) (negb (rq_big rq))) as [l1 r] eqn:A.
    destruct (spec_serial l1 reqs) as [l2 rs'] eqn:S. injection H as <- _.
    pose proof (scount_mono _ _ _ _ _ sid A). pose proof (IH _ _ _ S). lia.
Qed.

(** a later accepted request with expectation x on the stream sees a count that x pins to the
    value it had before the earlier accepted request: impossible, the count has grown *)
Lemma no_double_success reqs sid x : forall l l' rs i j rqi rqj ei ej,
  good_log l -> Forall (fun rq => wf_txn (rq_txn rq)) reqs -> spec_serial l reqs = (l', rs) ->
  (i < j)%nat ->
  nth_error reqs i = Some rqi -> nth_error reqs j = Some rqj ->
  nth_error rs i = Some (inl ei) -> nth_error rs j = Some (inl ej) ->
  first_expect (rq_txn rqi) sid = Some x -> first_expect (rq_txn rqj) sid = Some x ->
  (x = XEmpty \/ exists v, x = XExact v) -> False.
Proof.
  induction reqs as [|rq reqs IH]; intros l l' rs i j rqi rqj ei ej G F H Lt Ni Nj Ri Rj Fi Fj X.
  - destruct i; discriminate Ni.
  - apply Forall_cons_iff in F. destruct F as [Wq Fr]. cbn [spec_serial] in H.
    destruct (spec_append l (rq_txn rq) (negb (rq_big rq))) as [l1 r] eqn:A.
    destruct (spec_serial l1 reqs) as [l2 rs'] eqn:S. injection H as <- <-.
    assert (G1 : good_log l1).
    { destruct r as [evs|rj]; [exact (proj1 (proj2 (spec_append_accept _ _ _ _ _ G Wq A)))|].
      apply spec_append_reject in A. subst l1. exact G. }
    destruct j as [|j]; [lia|]. cbn [nth_error] in Nj, Rj.
    destruct i as [|i].
    + (* the earlier one is the head *)
      cbn [nth_error] in Ni, Ri. injection Ni as <-. injection Ri as ->.
      destruct (accept_first_expect _ _ _ _ _ sid x G Wq A Fi) as [Hi Ci].
      (* the later one, somewhere in the tail *)
      clear IH A. revert l1 rs' S G1 Ci j Nj Rj Lt.
      induction reqs as [|q reqs IHr]; intros l1 rs' S G1 Ci j Nj Rj Lt; [destruct j; discriminate Nj|].
      apply Forall_cons_iff in Fr. destruct Fr as [Wq' Fr']. cbn [spec_serial] in S.
      destruct (spec_append l1 (rq_txn q) (negb (rq_big q))) as [l3 r3] eqn:A3.
      destruct (spec_serial l3 reqs) as [l4 rs4] eqn:S4. injection S as <- <-.
      destruct j as [|j].
      * cbn [nth_error] in Nj, Rj. injection Nj as <-. injection Rj as ->.
        destruct (accept_first_expect _ _ _ _ _ sid x G1 Wq' A3 Fj) as [Hj _].
        destruct (holds_pins_count _ _ _ G Hi) as [PEi PNi]. destruct (holds_pins_count _ _ _ G1 Hj) as [PEj PNj].
        destruct X as [->|[v ->]]; [specialize (PNi eq_refl); specialize (PNj eq_refl)|specialize (PEi v eq_refl); specialize (PEj v eq_refl)]; lia.
      * cbn [nth_error] in Nj, Rj.
        assert (G3 : good_log l3).
        { destruct r3 as [evs|rj]; [exact (proj1 (proj2 (spec_append_accept _ _ _ _ _ G1 Wq' A3)))|].
          apply spec_append_reject in A3. subst l3. exact G1. }
        pose proof (scount_mono _ _ _ _ _ sid A3).
        apply (IHr Fr' l3 rs4 S4 G3 ltac:(lia) j Nj Rj). lia.
    + cbn [nth_error] in Ni, Ri.
      exact (IH _ _ _ i j rqi rqj ei ej G1 Fr S ltac:(lia) Ni Nj Ri Rj Fi Fj X).
Qed.

(** * 5. readers of one bucket (C15): what a two-phase read returns *)

(** ** latest values only grow along a gapless log *)
Definition sv_le (x y : option (N * N)) : Prop :=
  match x with None => True | Some (pk, v) => exists v', y = Some (pk, v') /\ v <= v' end.
Definition pl_le (x y : option N) : Prop :=
  match x with None => True | Some q => exists q', y = Some q' /\ q <= q' end.

Lemma sv_le_refl x : sv_le x x.
Proof. destruct x as [[pk v]|]; [|exact I]. exists v. split; [reflexivity|lia]. Qed.
Lemma sv_le_trans x y z : sv_le x y -> sv_le y z -> sv_le x z.
Proof.
  destruct x as [[pk v]|]; [|intros; exact I]. intros (v1 & -> & L1) (v2 & -> & L2). exists v2. split; [reflexivity|lia].
Qed.
Lemma pl_le_refl x : pl_le x x.
Proof. destruct x as [q|]; [|exact I]. exists q. split; [reflexivity|lia]. Qed.
Lemma pl_le_trans x y z : pl_le x y -> pl_le y z -> pl_le x z.
Proof.
  destruct x as [q|]; [|intros; exact I]. intros (q1 & -> & L1) (q2 & -> & L2). exists q2. split; [reflexivity|lia].
Qed.

Lemma klast_mono (k v : event -> N) a b x q :
  gapless k v (a ++ b) -> klast k v a x = Some q -> exists q', klast k v (a ++ b) x = Some q' /\ q <= q'.
Proof.
  intros G H. pose proof (gapless_app_l k v a b G) as Ga.
  pose proof (klast_next k v a x Ga) as Na. rewrite H in Na.
  pose proof (klast_next k v (a ++ b) x G) as Nab. rewrite knext_app in Nab.
  destruct (klast k v (a ++ b) x) as [q'|]; [exists q'; split; [reflexivity|lia]|lia].
Qed.

Lemma stream_state_mono a b sid : good_events (a ++ b) -> sv_le (stream_state a sid) (stream_state (a ++ b) sid).
Proof.
  intros (G & _ & P). destruct (stream_state a sid) as [[pk v]|] eqn:Sa; [|exact I]. cbn [sv_le].
  assert (Ka : klast e_sid e_ver a sid = Some v) by (rewrite <- stream_state_ver, Sa; reflexivity).
  destruct (klast_mono e_sid e_ver a b sid v G Ka) as (v' & Kab & L).
  rewrite <- stream_state_ver in Kab. destruct (stream_state (a ++ b) sid) as [[pk' v'']|] eqn:Sab; [|discriminate Kab].
  cbn in Kab. injection Kab as ->. exists v'. split; [|exact L]. f_equal. f_equal.
  destruct (stream_state_Some _ _ _ _ Sa) as (e & Ie & Se & Pe & _).
  destruct (stream_state_Some _ _ _ _ Sab) as (e' & Ie' & Se' & Pe' & _).
  rewrite <- Pe, <- Pe'. symmetry. apply P; [apply in_or_app; left; exact Ie|exact Ie'|congruence].
Qed.

Lemma partition_last_mono a b pid : good_events (a ++ b) -> pl_le (partition_last a pid) (partition_last (a ++ b) pid).
Proof.
  intros (_ & G & _). rewrite !partition_last_eq. destruct (klast e_pid e_seq a pid) as [q|] eqn:K; [|exact I].
  exact (klast_mono e_pid e_seq a b pid q G K).
Qed.

Lemma stream_state_mono_log l1 l2 sid : good_log l2 -> prefix l1 l2 ->
  sv_le (stream_state (all_events l1) sid) (stream_state (all_events l2) sid).
Proof. intros [_ G] [r ->]. unfold all_events in *. rewrite concat_app in *. apply stream_state_mono. exact G. Qed.

Lemma partition_last_mono_log l1 l2 pid : good_log l2 -> prefix l1 l2 ->
  pl_le (partition_last (all_events l1) pid) (partition_last (all_events l2) pid).
Proof. intros [_ G] [r ->]. unfold all_events in *. rewrite concat_app in *. apply partition_last_mono. exact G. Qed.

(** ** a reader-pool thread's view is a store of its own *)
Lemma prefix_firstn {A} (l : list A) n : prefix (firstn n l) l.
Proof. exists (skipn n l). symmetry. apply firstn_skipn. Qed.

Lemma prefix_map {A B} (f : A -> B) a b : prefix a b -> prefix (map f a) (map f b).
Proof. intros [r ->]. exists (map f r). apply map_app. Qed.

Lemma view_visible s n : abs_visible (sealed_view s n) = concat (map (fun g => groups (s_recs g)) (firstn n (sealed s))).
Proof. unfold abs_visible, sealed_view. cbn. apply app_nil_r. Qed.

Lemma view_all s n : abs_all (sealed_view s n) = abs_visible (sealed_view s n).
Proof. reflexivity. Qed.

Lemma view_le_visible s n : Inv s -> prefix (abs_visible (sealed_view s n)) (abs_visible s).
Proof.
  intros I. rewrite view_visible. destruct (Inv_view s I) as (g1 & g2 & _ & _ & _ & _ & ->).
  apply prefix_trans with (sealed_groups s); [|apply prefix_app_r].
  unfold sealed_groups. apply prefix_concat. apply prefix_map. apply prefix_firstn.
Qed.

Lemma sealed_view_Inv s n : Inv s -> Inv (sealed_view s n).
Proof.
  intros I. constructor; cbn.
  - pose proof (inv_sealed s I) as F. rewrite <- (firstn_skipn n (sealed s)) in F. apply Forall_app in F. apply F.
  - exists [], []. split; constructor.
  - lia.
  - reflexivity.
  - reflexivity.
  - intros ? ? H; discriminate H.
  - intros ? [].
  - change (good_log (abs_all (sealed_view s n))). rewrite view_all.
    apply (good_log_prefix _ (abs_all s)); [|exact (inv_good s I)].
    exact (prefix_trans _ _ _ (view_le_visible s n I) (Inv_visible_prefix s I)).
Qed.

Lemma view_grows a b n : prefix (sealed a) (sealed b) -> (length (sealed a) <= n)%nat ->
  prefix (abs_visible (sealed_view a (length (sealed a)))) (abs_visible (sealed_view b n)).
Proof.
  intros [r E] L. rewrite !view_visible, E, firstn_all, firstn_app, (firstn_all2 (sealed a)) by exact L.
  apply prefix_concat. apply prefix_map. apply prefix_app_r.
Qed.

(** the live index misses a stream: everything visible of it is in the sealed segments *)
Lemma live_miss_stream a sid : Inv a -> sidx_get (s_idx (live a)) sid = None ->
  stream_state (all_events (abs_visible a)) sid
  = stream_state (all_events (abs_visible (sealed_view a (length (sealed a))))) sid.
Proof.
  intros I M. rewrite <- (indexed_stream_spec a sid I), <- (indexed_stream_spec _ sid (sealed_view_Inv a _ I)).
  unfold indexed_stream. rewrite M. cbn [sealed_view live sealed s_idx sidx_get filter]. rewrite firstn_all. reflexivity.
Qed.

Lemma live_miss_partition a pid : Inv a -> pidx_get (s_idx (live a)) pid = None ->
  partition_last (all_events (abs_visible a)) pid
  = partition_last (all_events (abs_visible (sealed_view a (length (sealed a))))) pid.
Proof.
  intros I M. rewrite <- (indexed_partition_spec a pid I), <- (indexed_partition_spec _ pid (sealed_view_Inv a _ I)).
  unfold indexed_partition. rewrite M. cbn [sealed_view live sealed s_idx pidx_get filter]. rewrite firstn_all. reflexivity.
Qed.

(** ** versions and sequences: a read returns a value between what was visible when it started
       and what is visible when it ends *)
Lemma read_version_lower a v sid : Inv a -> Inv v ->
  prefix (abs_visible (sealed_view a (length (sealed a)))) (abs_visible v) ->
  sv_le (stream_state (all_events (abs_visible a)) sid) (read_version a v sid).
Proof.
  intros Ia Iv P. unfold read_version. destruct (sidx_get (s_idx (live a)) sid) as [k|] eqn:H.
  - rewrite <- (indexed_stream_spec a sid Ia). unfold indexed_stream. rewrite H. apply sv_le_refl.
  - rewrite (live_miss_stream a sid Ia H). unfold get_stream_version. rewrite (indexed_stream_spec v sid Iv).
    apply stream_state_mono_log; [exact (Inv_good_visible v Iv)|exact P].
Qed.

Lemma read_version_upper a v vis sid : Inv a -> Inv v -> good_log vis ->
  prefix (abs_visible a) vis -> prefix (abs_visible v) vis ->
  sv_le (read_version a v sid) (stream_state (all_events vis) sid).
Proof.
  intros Ia Iv G Pa Pv. unfold read_version. destruct (sidx_get (s_idx (live a)) sid) as [k|] eqn:H.
  - assert (E : Some (k_pk k, k_max k) = stream_state (all_events (abs_visible a)) sid).
    { rewrite <- (indexed_stream_spec a sid Ia). unfold indexed_stream. rewrite H. reflexivity. }
    rewrite E. apply stream_state_mono_log; assumption.
  - unfold get_stream_version. rewrite (indexed_stream_spec v sid Iv). apply stream_state_mono_log; assumption.
Qed.

Lemma read_sequence_lower a v pid : Inv a -> Inv v ->
  prefix (abs_visible (sealed_view a (length (sealed a)))) (abs_visible v) ->
  pl_le (partition_last (all_events (abs_visible a)) pid) (read_sequence a v pid).
Proof.
  intros Ia Iv P. unfold read_sequence. destruct (pidx_get (s_idx (live a)) pid) as [k|] eqn:H.
  - rewrite <- (indexed_partition_spec a pid Ia). unfold indexed_partition. rewrite H. apply pl_le_refl.
  - rewrite (live_miss_partition a pid Ia H). unfold get_partition_sequence. rewrite (indexed_partition_spec v pid Iv).
    apply partition_last_mono_log; [exact (Inv_good_visible v Iv)|exact P].
Qed.

Lemma read_sequence_upper a v vis pid : Inv a -> Inv v -> good_log vis ->
  prefix (abs_visible a) vis -> prefix (abs_visible v) vis ->
  pl_le (read_sequence a v pid) (partition_last (all_events vis) pid).
Proof.
  intros Ia Iv G Pa Pv. unfold read_sequence. destruct (pidx_get (s_idx (live a)) pid) as [k|] eqn:H.
  - assert (E : Some (k_max k) = partition_last (all_events (abs_visible a)) pid).
    { rewrite <- (indexed_partition_spec a pid Ia). unfold indexed_partition. rewrite H. reflexivity. }
    rewrite E. apply partition_last_mono_log; assumption.
  - unfold get_partition_sequence. rewrite (indexed_partition_spec v pid Iv). apply partition_last_mono_log; assumption.
Qed.

(** ** event lookups *)
(** an index hit in a whole-group record list: reading at the offset returns the indexed event,
    whatever follows the list *)
Lemma seg_hit_read P gs id off : wf_recs P gs -> eidx_get (hydrate_from P 0) id = Some off ->
  exists c en, In en (hydrate_from P 0) /\ e_id (i_ev en) = id /\
               hd_error (committed_events c) = Some (i_ev en) /\
               forall X, fst (read_committed (P ++ X) off) = Some c.
Proof.
  intros W H. destruct (eidx_get_In _ _ _ H) as (en & Ien & Eid & Eoff).
  destruct (hydrate_locate _ _ W _ _ Ien) as (A & gA & r & g & R & gR & i & -> & _ & Wg & _ & _ & O & Nt).
  destruct (read_committed_at A r g R i _ Wg Nt) as (c & C1 & C2).
  exists c, en. repeat split; [exact Ien|exact Eid| |].
  - rewrite C1. clear - Nt. revert g Nt. induction i as [|i IH]; intros [|x g] Nt; cbn in *; try discriminate; [exact Nt|apply IH; exact Nt].
  - intros X. rewrite <- Eoff, O, <- !app_assoc. cbn [Nat.add]. apply C2.
Qed.

(** the records of segment number k that can no longer change *)
Definition stable (s : store) (k : nat) : list rec :=
  if (k <? length (sealed s))%nat then s_recs (nth k (sealed s) empty_seg)
  else if (k =? length (sealed s))%nat then firstn (published s) (s_recs (live s)) else [].

Lemma stable_le_seg_recs s k : Inv s -> prefix (stable s k) (seg_recs s k).
Proof.
  intros I. unfold stable, seg_recs. destruct (k <? length (sealed s))%nat; [apply prefix_refl|].
  destruct (k =? length (sealed s))%nat; [|apply prefix_refl].
  pose proof (inv_le s I). rewrite (firstn_le_split _ (published s) (synced s)) by lia. apply prefix_app_r.
Qed.

Lemma stable_live s : stable s (length (sealed s)) = firstn (published s) (s_recs (live s)).
Proof. unfold stable. rewrite Nat.ltb_irrefl, Nat.eqb_refl. reflexivity. Qed.

(** a live-index hit at [a]: the read, done later on the records [recs'] of that segment, returns
    an event of a's live index with the asked id — the same as an atomic read at [a] *)
Lemma live_hit a id off recs' : Inv a -> eidx_get (s_idx (live a)) id = Some off ->
  prefix (stable a (length (sealed a))) recs' ->
  exists c en, In en (s_idx (live a)) /\ e_id (i_ev en) = id /\
               hd_error (committed_events c) = Some (i_ev en) /\
               fst (read_committed recs' off) = Some c /\
               fst (read_committed (firstn (synced a) (s_recs (live a))) off) = Some c.
Proof.
  intros I H [X ->]. rewrite stable_live. destruct (Inv_view a I) as (g1 & g2 & W1 & _).
  rewrite (inv_idx a I) in H. destruct (seg_hit_read _ _ _ _ W1 H) as (c & en & Ien & Eid & Hd & R).
  exists c, en. rewrite (inv_idx a I). repeat split; [exact Ien|exact Eid|exact Hd|apply R|].
  pose proof (inv_le a I). rewrite (firstn_le_split _ (published a) (synced a)) by lia. apply R.
Qed.

Lemma NoDup_prefix {A B} (f : A -> B) (a b : list A) : prefix a b -> NoDup (map f b) -> NoDup (map f a).
Proof. intros [r ->] N. rewrite map_app in N. exact (NoDup_app_remove_r _ _ N). Qed.

(** completeness: an event visible when the read starts is returned *)
Lemma read_event2_lower a b v grp e : Inv a -> Inv v ->
  prefix (stable a (length (sealed a))) (seg_recs b (length (sealed a))) ->
  prefix (abs_visible (sealed_view a (length (sealed a)))) (abs_visible v) ->
  NoDup (map e_id (all_events (abs_visible a))) -> NoDup (map e_id (all_events (abs_visible v))) ->
  In grp (abs_visible a) -> In e grp -> read_event2 a b v (e_id e) = Some e.
Proof.
  intros Ia Iv Ps Pv Na Nv Ig Ie. unfold read_event2.
  destruct (eidx_get (s_idx (live a)) (e_id e)) as [off|] eqn:H.
  - destruct (live_hit a _ off _ Ia H Ps) as (c & en & _ & _ & _ & R1 & R2). rewrite R1.
    pose proof (read_event_visible a grp e Ia Na Ig Ie) as RV. unfold read_event, read_transaction in RV.
    rewrite H, R2 in RV. exact RV.
  - apply (read_event_visible v grp e Iv Nv); [|exact Ie]. apply (prefix_In _ _ _ Pv).
    rewrite view_visible, firstn_all. destruct (Inv_view a Ia) as (g1 & g2 & W1 & _ & _ & _ & EV).
    rewrite EV in Ig. apply in_app_or in Ig. destruct Ig as [Ig|Ig]; [exact Ig|exfalso].
    assert (Iev : In e (map i_ev (s_idx (live a)))).
    { rewrite (inv_idx a Ia), hydrate_events, (wf_recs_events _ _ W1). apply in_concat. exists grp. split; assumption. }
    apply in_map_iff in Iev. destruct Iev as (en & Een & Ien). exact (eidx_get_None _ _ _ H Ien (f_equal e_id Een)).
Qed.

(** soundness of the atomic read of a store: what it returns is a visible event with the asked id *)
Lemma newest_first_Some {A} (f : seg -> option A) l r : newest_first f l = Some r -> exists g, In g l /\ f g = Some r.
Proof.
  induction l as [|g l IH]; [discriminate|]. cbn [newest_first]. destruct (f g) as [x|] eqn:E.
  - intros H. injection H as <-. exists g. split; [left; reflexivity|exact E].
  - intros H. destruct (IH H) as (g' & I & F). exists g'. split; [right; exact I|exact F].
Qed.

Lemma sealed_event_visible s g e : Inv s -> In g (sealed s) -> In e (map i_ev (s_idx g)) -> In e (all_events (abs_visible s)).
Proof.
  intros I Ig Ie. destruct (Inv_events s I) as [EV _]. rewrite EV. apply in_or_app. left.
  apply in_flat_map. exists g. split; [exact Ig|]. pose proof (inv_sealed s I) as F. rewrite Forall_forall in F.
  rewrite <- (seg_ok_idx_events g (F g Ig)). exact Ie.
Qed.

Lemma read_event_sound s id e : Inv s -> read_event s id = Some e ->
  In e (all_events (abs_visible s)) /\ e_id e = id.
Proof.
  intros I. unfold read_event, read_transaction. destruct (eidx_get (s_idx (live s)) id) as [off|] eqn:H.
  - destruct (live_hit s id off _ I H (prefix_refl _)) as (c & en & Ien & Eid & Hd & _ & R). rewrite R, Hd.
    intros E. injection E as <-. split; [|exact Eid]. destruct (Inv_events s I) as [EV _]. rewrite EV.
    apply in_or_app. right. apply in_map. exact Ien.
  - destruct (newest_first _ (rev (sealed s))) as [r|] eqn:NF; [|discriminate].
    destruct (newest_first_Some _ _ _ NF) as (g & Ig & Fg). apply in_rev in Ig.
    destruct (eidx_get (s_idx g) id) as [off|] eqn:Hg; [|discriminate]. injection Fg as <-.
    pose proof (inv_sealed s I) as F. rewrite Forall_forall in F. destruct (F g Ig) as [[gs W] Ix].
    rewrite Ix in Hg. destruct (seg_hit_read _ _ _ _ W Hg) as (c & en & Ien & Eid & Hd & R).
    specialize (R []). rewrite app_nil_r in R. rewrite R, Hd. intros E. injection E as <-. split; [|exact Eid].
    apply (sealed_event_visible s g); [exact I|exact Ig|]. rewrite Ix. apply in_map. exact Ien.
Qed.

(** soundness of the two-phase read *)
Lemma read_event2_sound a b v vis id e : Inv a -> Inv v ->
  prefix (stable a (length (sealed a))) (seg_recs b (length (sealed a))) ->
  prefix (abs_visible a) vis -> prefix (abs_visible v) vis ->
  read_event2 a b v id = Some e -> In e (all_events vis) /\ e_id e = id.
Proof.
  intros Ia Iv Ps Pa Pv. unfold read_event2. destruct (eidx_get (s_idx (live a)) id) as [off|] eqn:H.
  - destruct (live_hit a id off _ Ia H Ps) as (c & en & Ien & Eid & Hd & R & _). rewrite R, Hd.
    intros E. injection E as <-. split; [|exact Eid].
    apply (prefix_In _ _ _ (prefix_concat _ _ Pa)). destruct (Inv_events a Ia) as [EV _]. unfold all_events in EV. rewrite EV.
    apply in_or_app. right. apply in_map. exact Ien.
  - intros E. destruct (read_event_sound v id e Iv E) as [I1 I2]. split; [|exact I2].
    exact (prefix_In _ _ _ (prefix_concat _ _ Pv) I1).
Qed.

(** * 6. the writer's steps: invariant and what never changes again *)
Record store_later (a b : store) : Prop := mkSL {
  sl_sealed : prefix (sealed a) (sealed b);
  sl_stable : forall k, prefix (stable a k) (stable b k);
  sl_vis : prefix (abs_visible a) (abs_visible b)
}.

Lemma store_later_refl a : store_later a a.
Proof. constructor; intros; apply prefix_refl. Qed.

Lemma store_later_trans a b c : store_later a b -> store_later b c -> store_later a c.
Proof.
  intros [A1 A2 A3] [B1 B2 B3]. constructor; [|intros k|]; eapply prefix_trans; eauto.
Qed.

Lemma later_append s t big : Inv s -> wf_txn t -> store_later s (fst (append s t false big)).
Proof.
  intros I W. destruct (append s t false big) as [s' r] eqn:A. cbn [fst].
  destruct (append_sim _ _ _ _ _ _ I W A) as (_ & _ & V & K). destruct (K eq_refl) as (Es & _ & Ep & more & Er).
  constructor.
  - rewrite Es. apply prefix_refl.
  - intros k. unfold stable. rewrite Es, Ep, Er. pose proof (inv_le s I).
    rewrite firstn_app. replace (published s - length (s_recs (live s)))%nat with 0%nat by lia.
    cbn [firstn]. rewrite app_nil_r. apply prefix_refl.
  - destruct V as [V|[V _]]; [rewrite V; apply prefix_refl|discriminate V].
Qed.

Lemma later_publish s : Inv s -> store_later s (publish s).
Proof.
  intros I. constructor.
  - apply prefix_refl.
  - intros k. unfold stable, publish. cbn [sealed live published s_recs]. destruct (k <? length (sealed s))%nat; [apply prefix_refl|].
    destruct (k =? length (sealed s))%nat; [|apply prefix_refl]. rewrite firstn_all. apply prefix_firstn.
  - rewrite publish_abs_visible. exact (Inv_visible_prefix s I).
Qed.

Lemma later_rollover s : Inv s -> store_later s (rollover s).
Proof.
  intros I. constructor.
  - unfold rollover. cbn [sealed publish]. apply prefix_app_r.
  - intros k. unfold stable, rollover. cbn [sealed publish live published s_recs]. rewrite app_length. cbn [length].
    destruct (Nat.lt_ge_cases k (length (sealed s))) as [L|L].
    + destruct (Nat.ltb_spec k (length (sealed s))); [|lia]. destruct (Nat.ltb_spec k (length (sealed s) + 1)); [|lia].
      rewrite app_nth1 by exact L. apply prefix_refl.
    + destruct (Nat.ltb_spec k (length (sealed s))); [lia|]. destruct (Nat.eqb_spec k (length (sealed s))) as [->|NE].
      * destruct (Nat.ltb_spec (length (sealed s)) (length (sealed s) + 1)); [|lia].
        rewrite app_nth2, Nat.sub_diag by lia. cbn [nth s_recs]. apply prefix_firstn.
      * eexists. cbn [app]. reflexivity.
  - rewrite rollover_abs_visible. exact (Inv_visible_prefix s I).
Qed.

Section Readers.
  Variable nr : nat.

  Definition wf_wstep (st : wstep) : Prop := match st with WAppend t _ => wf_txn t | _ => True end.

  Record RInv (s : rsys) : Prop := mkRInv {
    ri_inv : Inv (rs_store s);
    ri_len : length (rs_inst s) = nr;
    ri_le : forall th, (nth th (rs_inst s) 0 <= length (sealed (rs_store s)))%nat;
    ri_todo : forall th, In th (rs_todo s) -> (th < nr)%nat;
    ri_inst : forall th, (th < nr)%nat -> ~ In th (rs_todo s) -> nth th (rs_inst s) 0%nat = length (sealed (rs_store s))
  }.

  Record later (a b : rsys) : Prop := mkLater {
    lt_store : store_later (rs_store a) (rs_store b);
    lt_inst : forall th, (nth th (rs_inst a) 0 <= nth th (rs_inst b) 0)%nat
  }.

  Lemma later_refl a : later a a.
  Proof. constructor; [apply store_later_refl|intros; lia]. Qed.

  Lemma later_trans a b c : later a b -> later b c -> later a c.
  Proof.
    intros [A1 A2] [B1 B2]. constructor; [exact (store_later_trans _ _ _ A1 B1)|].
    intros th. specialize (A2 th). specialize (B2 th). lia.
  Qed.

  Lemma RInv_init : RInv (rsys_init nr).
  Proof.
    constructor; cbn [rsys_init rs_store rs_inst rs_todo].
    - exact Inv_init.
    - apply repeat_length.
    - intros th. cbn. destruct (Nat.lt_ge_cases th nr); [rewrite nth_repeat' by assumption; lia|].
      rewrite nth_overflow by (rewrite repeat_length; assumption). lia.
    - intros th [].
    - intros th H _. rewrite nth_repeat' by exact H. reflexivity.
  Qed.

  Lemma is_nil_true {A} (l : list A) : is_nil l = true -> l = [].
  Proof. destruct l; [reflexivity|discriminate]. Qed.

  Lemma step_R s st : RInv s -> wf_wstep st -> RInv (rsys_step nr s st) /\ later s (rsys_step nr s st).
  Proof.
    intros [I L LE TD IN] W. assert (R0 : RInv s) by (constructor; assumption).
    destruct st as [t big| | |th]; cbn [rsys_step].
    - destruct (is_nil (rs_todo s)) eqn:Z; [|split; [exact R0|apply later_refl]]. apply is_nil_true in Z.
      pose proof (later_append (rs_store s) t big I W) as SL.
      destruct (append (rs_store s) t false big) as [s' r] eqn:A. cbn [fst] in *.
      destruct (append_sim _ _ _ _ _ _ I W A) as (_ & I' & _ & K). destruct (K eq_refl) as (Es & _).
      split; [constructor|constructor]; cbn [rs_store rs_inst rs_todo]; try assumption.
      + rewrite Es. exact LE.
      + intros th [].
      + intros th H _. rewrite Es. apply IN; [exact H|]. rewrite Z. intros [].
      + intros th. lia.
    - destruct (is_nil (rs_todo s)) eqn:Z; [|split; [exact R0|apply later_refl]]. apply is_nil_true in Z.
      split; [constructor|constructor]; cbn [rs_store rs_inst rs_todo]; try assumption.
      + apply publish_Inv. exact I.
      + intros th [].
      + intros th H _. cbn [publish sealed]. apply IN; [exact H|]. rewrite Z. intros [].
      + apply later_publish. exact I.
      + intros th. lia.
    - destruct (is_nil (rs_todo s)) eqn:Z; [|split; [exact R0|apply later_refl]]. apply is_nil_true in Z.
      split; [constructor|constructor]; cbn [rs_store rs_inst rs_todo]; try assumption.
      + apply rollover_Inv. exact I.
      + intros th. specialize (LE th). unfold rollover. cbn [sealed publish]. rewrite app_length. lia.
      + intros th H. apply in_seq in H. lia.
      + intros th H N. exfalso. apply N. apply in_seq. lia.
      + apply later_rollover. exact I.
      + intros th. lia.
    - destruct (existsb (Nat.eqb th) (rs_todo s)) eqn:X; [|split; [exact R0|apply later_refl]].
      apply existsb_exists in X. destruct X as (x & Ix & Ex). apply Nat.eqb_eq in Ex. subst x.
      pose proof (TD th Ix) as Hth.
      split; [constructor|constructor]; cbn [rs_store rs_inst rs_todo]; try assumption.
      + rewrite upd_length. exact L.
      + intros th'. destruct (Nat.eq_dec th th') as [<-|NE]; [rewrite nth_upd_same by lia; lia|].
        rewrite nth_upd_other by exact NE. apply LE.
      + intros th' H. apply filter_In in H. apply TD. apply H.
      + intros th' H N. destruct (Nat.eq_dec th th') as [<-|NE]; [rewrite nth_upd_same by lia; reflexivity|].
        rewrite nth_upd_other by exact NE. apply IN; [exact H|]. intros I'. apply N. apply filter_In. split; [exact I'|].
        apply negb_true_iff. apply Nat.eqb_neq. exact NE.
      + apply store_later_refl.
      + intros th'. destruct (Nat.eq_dec th th') as [<-|NE]; [rewrite nth_upd_same by lia; apply LE|].
        rewrite nth_upd_other by exact NE. lia.
  Qed.

  Lemma run_R steps : forall s, RInv s -> Forall wf_wstep steps ->
    RInv (fold_left (rsys_step nr) steps s) /\ later s (fold_left (rsys_step nr) steps s).
  Proof.
    induction steps as [|st steps IH]; intros s R F; [split; [exact R|apply later_refl]|].
    apply Forall_cons_iff in F. destruct F as [W F]. cbn [fold_left].
    destruct (step_R s st R W) as [R1 L1]. destruct (IH _ R1 F) as [R2 L2].
    split; [exact R2|exact (later_trans _ _ _ L1 L2)].
  Qed.

  Lemma run_split a b : rsys_run nr (a ++ b) = fold_left (rsys_step nr) b (rsys_run nr a).
  Proof. unfold rsys_run. apply fold_left_app. Qed.

  (** a reader that can take the read lock sees every reader-pool thread fully installed *)
  Lemma unlocked_installed s th : RInv s -> rs_locked InstallUnderLock s = false -> (th < nr)%nat ->
    nth th (rs_inst s) 0%nat = length (sealed (rs_store s)).
  Proof.
    intros R Lk H. apply (ri_inst s R th H). unfold rs_locked in Lk. apply negb_false_iff in Lk. apply is_nil_true in Lk.
    rewrite Lk. intros [].
  Qed.

  (** what a later thread view holds of an unlocked earlier state *)
  Lemma view_of_later a b th : RInv a -> RInv b -> later a b -> rs_locked InstallUnderLock a = false -> (th < nr)%nat ->
    prefix (abs_visible (sealed_view (rs_store a) (length (sealed (rs_store a))))) (abs_visible (rs_view b th)).
  Proof.
    intros Ra Rb [[S _ _] Li] Lk H. unfold rs_view. apply view_grows; [exact S|].
    rewrite <- (unlocked_installed a th Ra Lk H). apply Li.
  Qed.

  Lemma stable_of_later a b : RInv b -> later a b ->
    prefix (stable (rs_store a) (length (sealed (rs_store a)))) (seg_recs (rs_store b) (length (sealed (rs_store a)))).
  Proof.
    intros Rb [[_ St _] _]. exact (prefix_trans _ _ _ (St _) (stable_le_seg_recs _ _ (ri_inv b Rb))).
  Qed.

  (** the three states of a read-your-acknowledgement scenario *)
  Lemma three_states t0 t1 t2 : Forall wf_wstep (t0 ++ t1 ++ t2) ->
    let s0 := rsys_run nr t0 in let a := rsys_run nr (t0 ++ t1) in let b := rsys_run nr (t0 ++ t1 ++ t2) in
    RInv s0 /\ RInv a /\ RInv b /\ later s0 a /\ later a b.
  Proof.
    intros F. apply Forall_app in F. destruct F as [F0 F]. apply Forall_app in F. destruct F as [F1 F2].
    cbn zeta. rewrite app_assoc, (run_split (t0 ++ t1) t2), (run_split t0 t1).
    destruct (run_R t0 _ RInv_init F0) as [R0 _]. fold (rsys_run nr t0) in R0.
    destruct (run_R t1 _ R0 F1) as [Ra La]. destruct (run_R t2 _ Ra F2) as [Rb Lb].
    split; [exact R0|split; [exact Ra|split; [exact Rb|split; [exact La|exact Lb]]]].
  Qed.

  Theorem read_your_ack_version t0 t1 t2 th sid : Forall wf_wstep (t0 ++ t1 ++ t2) ->
    let s0 := rsys_run nr t0 in let a := rsys_run nr (t0 ++ t1) in let b := rsys_run nr (t0 ++ t1 ++ t2) in
    rs_locked InstallUnderLock a = false -> (th < nr)%nat ->
    sv_le (stream_state (all_events (abs_visible (rs_store s0))) sid) (read_version (rs_store a) (rs_view b th) sid).
  Proof.
    intros F s0 a b Lk H. destruct (three_states t0 t1 t2 F) as (R0 & Ra & Rb & L0 & Lab). fold s0 a b in R0, Ra, Rb, L0, Lab.
    eapply sv_le_trans.
    - apply stream_state_mono_log; [exact (Inv_good_visible _ (ri_inv a Ra))|exact (sl_vis _ _ (lt_store _ _ L0))].
    - apply read_version_lower; [exact (ri_inv a Ra)|apply sealed_view_Inv; exact (ri_inv b Rb)|].
      exact (view_of_later a b th Ra Rb Lab Lk H).
  Qed.

  Theorem read_your_ack_sequence t0 t1 t2 th pid : Forall wf_wstep (t0 ++ t1 ++ t2) ->
    let s0 := rsys_run nr t0 in let a := rsys_run nr (t0 ++ t1) in let b := rsys_run nr (t0 ++ t1 ++ t2) in
    rs_locked InstallUnderLock a = false -> (th < nr)%nat ->
    pl_le (partition_last (all_events (abs_visible (rs_store s0))) pid) (read_sequence (rs_store a) (rs_view b th) pid).
  Proof.
    intros F s0 a b Lk H. destruct (three_states t0 t1 t2 F) as (R0 & Ra & Rb & L0 & Lab). fold s0 a b in R0, Ra, Rb, L0, Lab.
    eapply pl_le_trans.
    - apply partition_last_mono_log; [exact (Inv_good_visible _ (ri_inv a Ra))|exact (sl_vis _ _ (lt_store _ _ L0))].
    - apply read_sequence_lower; [exact (ri_inv a Ra)|apply sealed_view_Inv; exact (ri_inv b Rb)|].
      exact (view_of_later a b th Ra Rb Lab Lk H).
  Qed.

  Lemma event_read_ready a b th : RInv a -> RInv b -> later a b -> rs_locked InstallUnderLock a = false -> (th < nr)%nat ->
    NoDup (map e_id (all_events (abs_all (rs_store b)))) ->
    forall grp e, In grp (abs_visible (rs_store a)) -> In e grp ->
      read_event2 (rs_store a) (rs_store b) (rs_view b th) (e_id e) = Some e.
  Proof.
    intros Ra Rb Lab Lk H ND grp e Ig Ie.
    pose proof (ri_inv a Ra) as Ia. pose proof (ri_inv b Rb) as Ib.
    assert (NDb : NoDup (map e_id (all_events (abs_visible (rs_store b))))).
    { exact (NoDup_prefix e_id _ _ (prefix_concat _ _ (Inv_visible_prefix _ Ib)) ND). }
    apply (read_event2_lower _ _ _ grp e Ia (sealed_view_Inv _ _ Ib)).
    - exact (stable_of_later a b Rb Lab).
    - exact (view_of_later a b th Ra Rb Lab Lk H).
    - exact (NoDup_prefix e_id _ _ (prefix_concat _ _ (sl_vis _ _ (lt_store _ _ Lab))) NDb).
    - exact (NoDup_prefix e_id _ _ (prefix_concat _ _ (view_le_visible _ _ Ib)) NDb).
    - exact Ig.
    - exact Ie.
  Qed.

  Theorem read_your_ack_event t0 t1 t2 th grp e : Forall wf_wstep (t0 ++ t1 ++ t2) ->
    let s0 := rsys_run nr t0 in let a := rsys_run nr (t0 ++ t1) in let b := rsys_run nr (t0 ++ t1 ++ t2) in
    rs_locked InstallUnderLock a = false -> (th < nr)%nat ->
    NoDup (map e_id (all_events (abs_all (rs_store b)))) ->
    In grp (abs_visible (rs_store s0)) -> In e grp ->
    read_event2 (rs_store a) (rs_store b) (rs_view b th) (e_id e) = Some e.
  Proof.
    intros F s0 a b Lk H ND Ig Ie. destruct (three_states t0 t1 t2 F) as (R0 & Ra & Rb & L0 & Lab). fold s0 a b in R0, Ra, Rb, L0, Lab.
    apply (event_read_ready a b th Ra Rb Lab Lk H ND grp e); [|exact Ie].
    exact (prefix_In _ _ _ (sl_vis _ _ (lt_store _ _ L0)) Ig).
  Qed.

  (** the four states of two successive reads of one reader: (a1, b1) then (a2, b2) *)
  Lemma four_states t1 t2 t3 t4 : Forall wf_wstep (t1 ++ t2 ++ t3 ++ t4) ->
    let a1 := rsys_run nr t1 in let b1 := rsys_run nr (t1 ++ t2) in
    let a2 := rsys_run nr (t1 ++ t2 ++ t3) in let b2 := rsys_run nr (t1 ++ t2 ++ t3 ++ t4) in
    RInv a1 /\ RInv b1 /\ RInv a2 /\ RInv b2 /\ later a1 b1 /\ later b1 a2 /\ later a2 b2.
  Proof.
    intros F. apply Forall_app in F. destruct F as [F1 F]. apply Forall_app in F. destruct F as [F2 F].
    apply Forall_app in F. destruct F as [F3 F4]. cbn zeta.
    replace (t1 ++ t2 ++ t3 ++ t4) with (((t1 ++ t2) ++ t3) ++ t4) by (rewrite <- !app_assoc; reflexivity).
    replace (t1 ++ t2 ++ t3) with ((t1 ++ t2) ++ t3) by (rewrite <- !app_assoc; reflexivity).
    rewrite (run_split ((t1 ++ t2) ++ t3) t4), (run_split (t1 ++ t2) t3), (run_split t1 t2).
    destruct (run_R t1 _ RInv_init F1) as [R1 _]. fold (rsys_run nr t1) in R1.
    destruct (run_R t2 _ R1 F2) as [R2 L2]. destruct (run_R t3 _ R2 F3) as [R3 L3]. destruct (run_R t4 _ R3 F4) as [R4 L4].
    split; [exact R1|split; [exact R2|split; [exact R3|split; [exact R4|split; [exact L2|split; [exact L3|exact L4]]]]]].
  Qed.

  Theorem monotone_version t1 t2 t3 t4 th1 th2 sid : Forall wf_wstep (t1 ++ t2 ++ t3 ++ t4) ->
    let a1 := rsys_run nr t1 in let b1 := rsys_run nr (t1 ++ t2) in
    let a2 := rsys_run nr (t1 ++ t2 ++ t3) in let b2 := rsys_run nr (t1 ++ t2 ++ t3 ++ t4) in
    rs_locked InstallUnderLock a2 = false -> (th2 < nr)%nat ->
    sv_le (read_version (rs_store a1) (rs_view b1 th1) sid) (read_version (rs_store a2) (rs_view b2 th2) sid).
  Proof.
    intros F a1 b1 a2 b2 Lk H. destruct (four_states t1 t2 t3 t4 F) as (R1 & R2 & R3 & R4 & L1 & L2 & L3).
    fold a1 b1 a2 b2 in R1, R2, R3, R4, L1, L2, L3.
    eapply sv_le_trans; [|eapply sv_le_trans].
    - apply (read_version_upper _ _ (abs_visible (rs_store b1))); [exact (ri_inv a1 R1)|apply sealed_view_Inv; exact (ri_inv b1 R2)|
        exact (Inv_good_visible _ (ri_inv b1 R2))|exact (sl_vis _ _ (lt_store _ _ L1))|apply view_le_visible; exact (ri_inv b1 R2)].
    - apply stream_state_mono_log; [exact (Inv_good_visible _ (ri_inv a2 R3))|exact (sl_vis _ _ (lt_store _ _ L2))].
    - apply read_version_lower; [exact (ri_inv a2 R3)|apply sealed_view_Inv; exact (ri_inv b2 R4)|].
      exact (view_of_later a2 b2 th2 R3 R4 L3 Lk H).
  Qed.

  Theorem monotone_sequence t1 t2 t3 t4 th1 th2 pid : Forall wf_wstep (t1 ++ t2 ++ t3 ++ t4) ->
    let a1 := rsys_run nr t1 in let b1 := rsys_run nr (t1 ++ t2) in
    let a2 := rsys_run nr (t1 ++ t2 ++ t3) in let b2 := rsys_run nr (t1 ++ t2 ++ t3 ++ t4) in
    rs_locked InstallUnderLock a2 = false -> (th2 < nr)%nat ->
    pl_le (read_sequence (rs_store a1) (rs_view b1 th1) pid) (read_sequence (rs_store a2) (rs_view b2 th2) pid).
  Proof.
    intros F a1 b1 a2 b2 Lk H. destruct (four_states t1 t2 t3 t4 F) as (R1 & R2 & R3 & R4 & L1 & L2 & L3).
    fold a1 b1 a2 b2 in R1, R2, R3, R4, L1, L2, L3.
    eapply pl_le_trans; [|eapply pl_le_trans].
    - apply (read_sequence_upper _ _ (abs_visible (rs_store b1))); [exact (ri_inv a1 R1)|apply sealed_view_Inv; exact (ri_inv b1 R2)|
        exact (Inv_good_visible _ (ri_inv b1 R2))|exact (sl_vis _ _ (lt_store _ _ L1))|apply view_le_visible; exact (ri_inv b1 R2)].
    - apply partition_last_mono_log; [exact (Inv_good_visible _ (ri_inv a2 R3))|exact (sl_vis _ _ (lt_store _ _ L2))].
    - apply read_sequence_lower; [exact (ri_inv a2 R3)|apply sealed_view_Inv; exact (ri_inv b2 R4)|].
      exact (view_of_later a2 b2 th2 R3 R4 L3 Lk H).
  Qed.

  Theorem monotone_event t1 t2 t3 t4 th1 th2 id e : Forall wf_wstep (t1 ++ t2 ++ t3 ++ t4) ->
    let a1 := rsys_run nr t1 in let b1 := rsys_run nr (t1 ++ t2) in
    let a2 := rsys_run nr (t1 ++ t2 ++ t3) in let b2 := rsys_run nr (t1 ++ t2 ++ t3 ++ t4) in
    rs_locked InstallUnderLock a2 = false -> (th2 < nr)%nat ->
    NoDup (map e_id (all_events (abs_all (rs_store b2)))) ->
    read_event2 (rs_store a1) (rs_store b1) (rs_view b1 th1) id = Some e ->
    read_event2 (rs_store a2) (rs_store b2) (rs_view b2 th2) id = Some e.
  Proof.
    intros F a1 b1 a2 b2 Lk H ND Rd. destruct (four_states t1 t2 t3 t4 F) as (R1 & R2 & R3 & R4 & L1 & L2 & L3).
    fold a1 b1 a2 b2 in R1, R2, R3, R4, L1, L2, L3.
    destruct (read_event2_sound _ _ _ (abs_visible (rs_store b1)) id e (ri_inv a1 R1) (sealed_view_Inv _ _ (ri_inv b1 R2))
                (stable_of_later a1 b1 R2 L1) (sl_vis _ _ (lt_store _ _ L1)) (view_le_visible _ _ (ri_inv b1 R2)) Rd) as [Ie <-].
    apply in_concat in Ie. destruct Ie as (grp & Ig & Ie).
    apply (event_read_ready a2 b2 th2 R3 R4 L3 Lk H ND grp e); [|exact Ie].
    exact (prefix_In _ _ _ (sl_vis _ _ (lt_store _ _ L2)) Ig).
  Qed.
End Readers.

(** * 7. the code before the fix: the window between the index swap and the installation *)
Lemma window_refuted :
  let s := rsys_run 1 c15_window in
  rs_locked InstallAfterRelease s = false /\
  stream_state (all_events (abs_visible (rs_store s))) 10 = Some (7, 0) /\
  read_version (rs_store s) (rs_view s 0) 10 = None /\
  read_sequence (rs_store s) (rs_view s 0) 1 = None /\
  read_event2 (rs_store s) (rs_store s) (rs_view s 0) 1 = None.
Proof. vm_compute. repeat split; reflexivity. Qed.

(** with the installation under the lock no reader can start in that state, and once the thread has
    run its job the same reads succeed *)
Lemma window_fixed :
  let s := rsys_run 1 c15_window in let s' := rsys_run 1 (c15_window ++ [WInstall 0]) in
  rs_locked InstallUnderLock s = true /\ rs_locked InstallUnderLock s' = false /\
  read_version (rs_store s') (rs_view s' 0) 10 = Some (7, 0) /\
  read_sequence (rs_store s') (rs_view s' 0) 1 = Some 0 /\
  option_map e_id (read_event2 (rs_store s') (rs_store s') (rs_view s' 0) 1) = Some 1.
Proof. vm_compute. repeat split; reflexivity. Qed.
